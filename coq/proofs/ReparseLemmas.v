(* ReparseLemmas.v — ingredients of the print/reparse theorem: integers and flags read back,
   the gate implies the parser's checks (converse of GateLemmas), normalisation preserves what
   the checks look at, and the push-back stream on a list of ordinary tokens. *)
From Coq Require Import ZArith NArith List Bool Lia.
From JP Require Import Base Json PyStr PyJsonStr Syntax Lex Parse Serialize TokPrint Gate.
From JP Require Import PyStrLemmas ParseEqns GateLemmas ParseSpec LexProofs.
Import ListNotations.

(* ---- integers ---------------------------------------------------------------------------------- *)

Lemma canonical_head_nonzero r :
  canonical_nonneg r = true -> (0 < dec_value r)%Z -> starts_with_ch 48 r = false.
Proof.
  intros Hc Hpos. destruct r as [|c [|d r']]; [discriminate Hc| |].
  - cbn [starts_with_ch]. apply N.eqb_neq. intros ->. cbn in Hpos. lia.
  - cbn [canonical_nonneg] in Hc. apply andb_true_iff in Hc as [Hc _].
    apply andb_true_iff in Hc as [_ Hc]. cbn [starts_with_ch]. apply negb_true_iff. exact Hc.
Qed.

Lemma py_int_str_of_Z z : py_int (str_of_Z z) = Some (Some z).
Proof.
  destruct (Z.ltb z 0) eqn:Hz.
  - apply Z.ltb_lt in Hz. rewrite str_of_Z_neg by exact Hz.
    assert (Hc : canonical_nonneg (dec_of_nonneg (- z)) = true) by (apply canonical_dec_of_nonneg; lia).
    pose proof (canon_digits _ Hc) as Hd.
    set (r := dec_of_nonneg (- z)) in *.
    assert (Hne : r <> []) by (intros Hr; rewrite Hr in Hc; discriminate Hc).
    destruct (exists_last Hne) as (pre & l & Hrl).
    assert (Hl : is_ascii_digit l = true).
    { rewrite forallb_forall in Hd. apply Hd. rewrite Hrl. apply in_or_app. right. left. reflexivity. }
    unfold py_int.
    assert (Ha : is_ascii (ch_minus :: r) = true).
    { unfold is_ascii. cbn [forallb]. fold (is_ascii r). rewrite (is_ascii_digits r Hd). reflexivity. }
    rewrite Ha. cbn [negb]. cbv iota.
    rewrite (strip_ends (ch_minus :: r) ch_minus l); try reflexivity;
      [|discriminate|rewrite Hrl; change (ch_minus :: pre ++ [l]) with ((ch_minus :: pre) ++ [l]); apply last_last
       |apply isspace_digit; exact Hl].
    rewrite N.eqb_refl.
    rewrite (PyStrLemmas.digits_underscores_digits r false 0%Z Hd Hne).
    cbn [option_map]. rewrite <- dec_value_fold. unfold r. rewrite dec_value_of_nonneg by lia.
    do 2 f_equal. lia.
  - apply Z.ltb_ge in Hz. rewrite py_int_canonical by (apply canonical_str_of_Z; exact Hz).
    rewrite dec_value_str_of_Z by exact Hz. reflexivity.
Qed.

Lemma int_of_text_str_of_Z z : int_of_text (str_of_Z z) = Ok z.
Proof. unfold int_of_text. rewrite py_int_str_of_Z. reflexivity. Qed.

Lemma str_of_Z_chars z : Forall (fun c => c = ch_minus \/ is_ascii_digit c = true) (str_of_Z z).
Proof.
  assert (H : forall n, (0 <= n)%Z -> Forall (fun c => c = ch_minus \/ is_ascii_digit c = true) (dec_of_nonneg n)).
  { intros n Hn. pose proof (canon_digits _ (canonical_dec_of_nonneg n Hn)) as Hd.
    apply Forall_forall. intros c Hc. right. rewrite forallb_forall in Hd. apply Hd. exact Hc. }
  destruct (Z.ltb z 0) eqn:Hz.
  - apply Z.ltb_lt in Hz. rewrite str_of_Z_neg by exact Hz. constructor; [left; reflexivity|apply H; lia].
  - apply Z.ltb_ge in Hz. rewrite str_of_Z_nonneg by exact Hz. apply H. exact Hz.
Qed.

Lemma has_exponent_str_of_Z z : has_exponent (str_of_Z z) = false.
Proof.
  unfold has_exponent. pose proof (str_of_Z_chars z) as H.
  induction H as [|c s Hc _ IH]; [reflexivity|].
  rewrite !contains_ch_cons. apply orb_false_iff in IH as [IH1 IH2]. rewrite IH1, IH2, !orb_false_r.
  destruct Hc as [->|Hd]; [reflexivity|]. apply digit_bounds in Hd.
  apply orb_false_iff. split; apply N.eqb_neq; lia.
Qed.

Lemma str_of_Z_nonempty z : str_of_Z z <> [].
Proof.
  destruct (Z.ltb z 0) eqn:Hz.
  - apply Z.ltb_lt in Hz. rewrite str_of_Z_neg by exact Hz. discriminate.
  - apply Z.ltb_ge in Hz. intros H. pose proof (canonical_str_of_Z z Hz) as Hc. rewrite H in Hc. discriminate Hc.
Qed.

Lemma str_of_Z_no_leading_zero z :
  (Nat.ltb 1 (length (str_of_Z z)) && starts_with_ch 48 (str_of_Z z)) || starts_with [45; 48]%N (str_of_Z z) = false.
Proof.
  destruct (Z.ltb z 0) eqn:Hz.
  - apply Z.ltb_lt in Hz. rewrite str_of_Z_neg by exact Hz.
    assert (Hc : canonical_nonneg (dec_of_nonneg (- z)) = true) by (apply canonical_dec_of_nonneg; lia).
    pose proof (canonical_head_nonzero _ Hc) as Hh. rewrite dec_value_of_nonneg in Hh by lia.
    specialize (Hh ltac:(lia)).
    cbn [starts_with_ch]. change (N.eqb ch_minus 48) with false. rewrite andb_false_r. cbn [orb].
    cbn [starts_with]. change (N.eqb 45 ch_minus) with true. cbn [andb].
    destruct (dec_of_nonneg (- z)) as [|c r]; [reflexivity|]. cbn [starts_with_ch] in Hh.
    rewrite N.eqb_sym, Hh. reflexivity.
  - apply Z.ltb_ge in Hz. pose proof (canonical_str_of_Z z Hz) as Hc.
    change 48%N with ch_0. rewrite (canonical_no_leading_zero _ Hc). cbn [orb].
    pose proof (canonical_not_minus _ Hc) as Hm.
    destruct (str_of_Z z) as [|c r]; [reflexivity|]. cbn [starts_with_ch] in Hm. cbn [starts_with].
    rewrite N.eqb_sym. change 45%N with ch_minus. rewrite Hm. reflexivity.
Qed.

(* ---- regular-expression flags ---------------------------------------------------------------- *)

Lemma flags_round_trip fl : flags_of (flags_text fl) = fl.
Proof. destruct fl as [[] [] [] []]; reflexivity. Qed.

(* ---- float literals stay float literals ------------------------------------------------------ *)

Lemma parse_float_literal_float t e : parse_float_literal t = Ok e -> exists n, e = FFloat n.
Proof.
  intros H. destruct (parse_float_literal_cases t) as [H'|[H'|[n H']]]; rewrite H' in H;
    try discriminate H. injection H as <-. eauto.
Qed.

Lemma norm_float n : exists n', norm_expr (FFloat n) = FFloat n'.
Proof.
  cbn [norm_expr]. destruct (float_repr n) as [t|]; [|eauto].
  destruct (parse_float_literal t) as [e|] eqn:H; [|eauto]. exact (parse_float_literal_float t e H).
Qed.

(* ---- normalisation: equations and what the checks see ------------------------------------- *)

Lemma norm_expr_list items : norm_expr (FList items) = FList (norm_exprs items).
Proof. reflexivity. Qed.
Lemma norm_expr_func n args : norm_expr (FFunc n args) = FFunc n (norm_exprs args).
Proof. reflexivity. Qed.
Lemma norm_expr_self p : norm_expr (FSelf p) = FSelf (norm_segs p).
Proof. reflexivity. Qed.
Lemma norm_expr_root b p : norm_expr (FRoot b p) = FRoot b (norm_segs p).
Proof. reflexivity. Qed.
Lemma norm_expr_ctx p : norm_expr (FCtx p) = FCtx (norm_segs p).
Proof. reflexivity. Qed.
Lemma norm_exprs_cons e r : norm_exprs (ECons e r) = ECons (norm_expr e) (norm_exprs r).
Proof. reflexivity. Qed.
Lemma norm_sel_filter e : norm_sel (SFilter e) = SFilter (norm_expr e).
Proof. reflexivity. Qed.
Lemma norm_sels_cons s r : norm_sels (LCons s r) = LCons (norm_sel s) (norm_sels r).
Proof. reflexivity. Qed.
Lemma norm_seg_list items : norm_seg (GList items) = GList (norm_sels items).
Proof. reflexivity. Qed.
Lemma norm_segs_cons g r : norm_segs (PCons g r) = PCons (norm_seg g) (norm_segs r).
Proof. reflexivity. Qed.

Lemma singular_norm p : g_singular (norm_segs p) = g_singular p.
Proof.
  induction p as [|g r IH]; [reflexivity|]. rewrite norm_segs_cons.
  destruct g as [[]| |[|[] []]]; cbn [norm_seg norm_sel norm_sels g_singular]; try reflexivity; try exact IH;
    match goal with |- context [match ?c with Some _ => _ | None => _ end] => destruct c end; reflexivity.
Qed.

Lemma is_query_norm e : g_is_query (norm_expr e) = g_is_query e.
Proof. destruct e; try reflexivity. destruct (norm_float n) as [n' ->]. reflexivity. Qed.

Lemma query_segs_norm e : g_query_segs (norm_expr e) = norm_segs (g_query_segs e).
Proof. destruct e; try reflexivity. destruct (norm_float n) as [n' ->]. reflexivity. Qed.

Lemma returns_norm e : g_returns (norm_expr e) = g_returns e.
Proof. destruct e; try reflexivity. destruct (norm_float n) as [n' ->]. reflexivity. Qed.

Lemma is_literal_norm e : g_is_literal (norm_expr e) = g_is_literal e.
Proof. destruct e; try reflexivity. destruct (norm_float n) as [n' ->]. reflexivity. Qed.

Lemma comparable_norm e : g_comparable (norm_expr e) = g_comparable e.
Proof. unfold g_comparable. rewrite is_query_norm, query_segs_norm, singular_norm, returns_norm. reflexivity. Qed.

Lemma testable_norm e : g_testable (norm_expr e) = g_testable e.
Proof. unfold g_testable. rewrite returns_norm, is_literal_norm. reflexivity. Qed.

Lemma arg_ok_norm t e : g_arg_ok t (norm_expr e) = g_arg_ok t e.
Proof.
  unfold g_arg_ok. rewrite is_query_norm, query_segs_norm, singular_norm, returns_norm.
  destruct t; try reflexivity.
  - f_equal. f_equal. destruct e; try reflexivity. destruct (norm_float n) as [n' ->]. reflexivity.
  - f_equal. destruct e; try reflexivity. destruct (norm_float n) as [n' ->]. reflexivity.
Qed.

Lemma fexprs_list_norm es : fexprs_list (norm_exprs es) = map norm_expr (fexprs_list es).
Proof. induction es as [|e r IH]; [reflexivity|]. rewrite norm_exprs_cons. cbn [fexprs_list map]. rewrite IH. reflexivity. Qed.

Lemma args_ok_norm ts l : g_args_ok ts (map norm_expr l) = g_args_ok ts l.
Proof.
  revert l. induction ts as [|t ts IH]; intros [|a l]; try reflexivity.
  cbn [map g_args_ok]. rewrite arg_ok_norm, IH. reflexivity.
Qed.

(* ---- the gate implies the parser's checks --------------------------------------------------- *)

Lemma testable_check e : g_testable e = true -> check_uncompared e = Ok tt.
Proof.
  unfold g_testable, check_uncompared. rewrite returns_tr.
  change (is_literal_or_nil e) with (g_is_literal e).
  destruct (fn_return e) as [[]|]; cbn [option_map tr]; try discriminate;
    destruct (g_is_literal e); try discriminate; reflexivity.
Qed.

Lemma comparable_check e : g_comparable e = true -> check_comparable e = Ok tt.
Proof.
  unfold g_comparable, check_comparable. rewrite returns_tr.
  change (is_path e) with (g_is_query e). change (path_segs e) with (g_query_segs e).
  rewrite <- (singular_eq (g_query_segs e)).
  destruct (g_is_query e && negb (singular_query (g_query_segs e))); [discriminate|]. cbn [negb andb].
  destruct e; try reflexivity.
  destruct (fn_return (FFunc name args)) as [[]|]; cbn [option_map tr]; try discriminate; reflexivity.
Qed.

Lemma args_ok_length ts l : g_args_ok ts l = true -> length l = length ts.
Proof.
  revert l. induction ts as [|t ts IH]; intros [|a l]; cbn [g_args_ok]; try discriminate; [reflexivity|].
  intros H. apply andb_true_iff in H as [_ H]. cbn [length]. rewrite (IH l H). reflexivity.
Qed.

Lemma args_check name ts t l :
  gate_sig name = Some (ts, t) -> g_args_ok ts l = true -> validate_function name l = Ok tt.
Proof.
  rewrite sig_tr. unfold validate_function.
  destruct (fn_sig name) as [[ts' t']|]; [|discriminate]. cbn [option_map fst snd].
  intros H Hargs. injection H as <- _.
  rewrite (args_ok_length _ _ Hargs), map_length, Nat.eqb_refl. cbn [negb].
  rewrite check_args_tr, Hargs. reflexivity.
Qed.

Lemma index_in_range_eq E z : index_in_range E z = in_range (e_min_index E) (e_max_index E) z.
Proof. reflexivity. Qed.

(* ---- the stream on ordinary tokens ---------------------------------------------------------- *)

Definition st0 (c : token) (ys : list token) : stream := mkStream c [] ys.

Definition enter (zs : list token) : stream :=
  match zs with z :: zs' => st0 z zs' | [] => st0 eof_tok [] end.

Definition at_ (st : stream) (ys : list token) : Prop :=
  s_pushed st ++ s_rest st = ys /\ (length (s_pushed st) <= 1)%nat /\ tk (s_cur st) <> TEof.

Definition hd_ok (zs : list token) : Prop :=
  match zs with z :: _ => tk z <> TIllegal | [] => True end.

Lemma is_kind_false k t : tk t <> k -> is_kind k t = false.
Proof.
  intros H. unfold is_kind. destruct (tkind_eqb (tk t) k) eqn:Hk; [|reflexivity].
  apply tkind_eqb_eq in Hk. contradiction.
Qed.

Lemma is_kind_true k t : tk t = k -> is_kind k t = true.
Proof. intros H. unfold is_kind. rewrite H. destruct k; reflexivity. Qed.

Lemma advance_at st t ys :
  at_ st (t :: ys) -> tk t <> TIllegal -> advance st = Ok (st0 t ys).
Proof.
  intros (Hf & Hl & Hc) Ht. unfold advance.
  destruct (s_pushed st) as [|p ps] eqn:Hp.
  - cbn [app] in Hf. rewrite (is_kind_false TEof _ Hc), Hf, (is_kind_false TIllegal _ Ht). reflexivity.
  - destruct ps; [|cbn [length] in Hl; lia]. cbn [app] in Hf. injection Hf as -> ->. reflexivity.
Qed.

Lemma next_at st t ys :
  at_ st (t :: ys) -> tk t <> TIllegal -> next_token st = Ok (s_cur st, st0 t ys).
Proof. intros H Ht. unfold next_token. rewrite (advance_at st t ys H Ht). reflexivity. Qed.

Lemma peek_at st t ys :
  at_ st (t :: ys) -> tk t <> TIllegal -> peek st = Ok (t, mkStream (s_cur st) [t] ys).
Proof. intros H Ht. unfold peek. rewrite (advance_at st t ys H Ht). reflexivity. Qed.

Lemma at_st0 c ys : tk c <> TEof -> at_ (st0 c ys) ys.
Proof. intros H. repeat split; [cbn; lia|exact H]. Qed.

Lemma at_peeked c t ys : tk c <> TEof -> at_ (mkStream c [t] ys) (t :: ys).
Proof. intros H. repeat split; [cbn; lia|exact H]. Qed.

Lemma next_st0 c zs : tk c <> TEof -> hd_ok zs -> next_token (st0 c zs) = Ok (c, enter zs).
Proof.
  intros Hc Hz. destruct zs as [|z zs'].
  - unfold next_token, advance, st0. cbn [s_pushed s_cur s_rest]. rewrite (is_kind_false TEof _ Hc). reflexivity.
  - rewrite (next_at (st0 c (z :: zs')) z zs' (at_st0 c _ Hc) Hz). reflexivity.
Qed.

Lemma peek_st0 c z zs : tk c <> TEof -> tk z <> TIllegal ->
  peek (st0 c (z :: zs)) = Ok (z, mkStream c [z] zs).
Proof. intros Hc Hz. exact (peek_at (st0 c (z :: zs)) z zs (at_st0 c _ Hc) Hz). Qed.

Lemma init_stream_enter t ts : tk t <> TIllegal -> init_stream (t :: ts) = Ok (st0 t ts).
Proof.
  intros Ht. unfold init_stream.
  apply (advance_at (mkStream (mkTok TIllegal []) [] (t :: ts)) t ts); [|exact Ht].
  repeat split; [cbn; lia|cbn; discriminate].
Qed.
