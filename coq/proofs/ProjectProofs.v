(* ProjectProofs.v — C19: the projection built by Query.select (patch_all + fix_sparse)
   is, as a JSON value, the specification's projected tree.

   Part 1 (model only): under non-nestedness, [patch_all g []] builds the trie of the
   selections g: one entry per first part, in order of first occurrence, holding a leaf
   (the part itself is a selected location) or the trie of the tails under that part.
   Part 2: by induction on the matched value, the JSON value of that trie is json_eq to
   [project_tree]. *)
From Coq Require Import Sorting.Sorted Sorting.Permutation.
From JP Require Import Base Json Syntax Eval Project ProjectSpec PatchCompose.

(* ---------------------------------------------------------------------- *)
(* Parts. *)

Lemma part_eqb_refl p : part_eqb p p = true.
Proof. apply part_eqb_spec. reflexivity. Qed.

Lemma part_eqb_neq p q : part_eqb p q = false <-> p <> q.
Proof.
  split.
  - intros H E. apply part_eqb_spec in E. congruence.
  - intros H. destruct (part_eqb p q) eqn:E; auto. apply part_eqb_spec in E. contradiction.
Qed.

Lemma part_eqb_sym p q : part_eqb p q = part_eqb q p.
Proof.
  destruct (part_eqb p q) eqn:E.
  - apply part_eqb_spec in E. subst. symmetry. apply part_eqb_refl.
  - symmetry. apply part_eqb_neq. apply part_eqb_neq in E. congruence.
Qed.

Definition pmem (p : part) (ks : list part) : bool := existsb (part_eqb p) ks.

Lemma pmem_cons p q ks : pmem p (q :: ks) = part_eqb p q || pmem p ks.
Proof. reflexivity. Qed.

Lemma pmem_In p ks : pmem p ks = true <-> In p ks.
Proof.
  unfold pmem. rewrite existsb_exists. split.
  - intros [q [Hq E]]. apply part_eqb_spec in E. subst. exact Hq.
  - intros H. exists p. split; auto. apply part_eqb_refl.
Qed.

Lemma pmem_not_In p ks : pmem p ks = false <-> ~ In p ks.
Proof.
  split.
  - intros H Hin. apply pmem_In in Hin. congruence.
  - intros H. destruct (pmem p ks) eqn:E; auto. apply pmem_In in E. contradiction.
Qed.

(* ---------------------------------------------------------------------- *)
(* Selections as (location, value) pairs; grouping by first part. *)

Definition pairs := list (loc * json).

Definition group (p : part) (g : pairs) : pairs :=
  flat_map (fun lx => match fst lx with
                      | q :: rest => if part_eqb p q then [(rest, snd lx)] else []
                      | [] => []
                      end) g.

Lemma group_cons p l x g :
  group p ((l, x) :: g) =
  match l with q :: rest => if part_eqb p q then [(rest, x)] else [] | [] => [] end ++ group p g.
Proof. reflexivity. Qed.

Lemma tails_under_cons p l ls :
  tails_under p (l :: ls) =
  match l with q :: rest => if part_eqb p q then [rest] else [] | [] => [] end ++ tails_under p ls.
Proof. reflexivity. Qed.

Lemma map_fst_group p g : map fst (group p g) = tails_under p (map fst g).
Proof.
  induction g as [|[l x] g IH]; [reflexivity|].
  change (map fst ((l, x) :: g)) with (l :: map fst g).
  rewrite group_cons, tails_under_cons. rewrite <- IH.
  destruct l as [|q rest]; [reflexivity|]. destruct (part_eqb p q); reflexivity.
Qed.

Lemma group_app p g1 g2 : group p (g1 ++ g2) = group p g1 ++ group p g2.
Proof. unfold group. apply flat_map_app. Qed.

Lemma group_single p q rest x :
  group p [(q :: rest, x)] = if part_eqb p q then [(rest, x)] else [].
Proof. unfold group. cbn. destruct (part_eqb p q); reflexivity. Qed.

Lemma in_group p g rest x : In (rest, x) (group p g) <-> In (p :: rest, x) g.
Proof.
  unfold group. rewrite in_flat_map. split.
  - intros [[l y] [Hin H]]. cbn [fst snd] in H. destruct l as [|q r]; [contradiction|].
    destruct (part_eqb p q) eqn:E; [|contradiction]. apply part_eqb_spec in E. subst q.
    destruct H as [H|[]]. injection H as <- <-. exact Hin.
  - intros Hin. exists (p :: rest, x). split; auto. cbn [fst snd].
    rewrite part_eqb_refl. left. reflexivity.
Qed.

Fixpoint find_empty (g : pairs) : option json :=
  match g with
  | [] => None
  | ([], x) :: _ => Some x
  | _ :: g' => find_empty g'
  end.

Lemma find_empty_none g : find_empty g = None <-> Forall (fun lx => fst lx <> []) g.
Proof.
  induction g as [|[l x] g IH]; cbn [find_empty].
  - split; auto.
  - destruct l as [|q r].
    + split; [discriminate|]. intros H. apply Forall_cons_iff in H as [H _]. contradiction H. reflexivity.
    + rewrite IH. split.
      * intros H. constructor; auto. discriminate.
      * intros H. apply Forall_cons_iff in H as [_ H]. exact H.
Qed.

Lemma find_empty_some g x : find_empty g = Some x -> In ([], x) g.
Proof.
  induction g as [|[l y] g IH]; cbn [find_empty]; [discriminate|].
  destruct l as [|q r].
  - intros H. injection H as ->. left. reflexivity.
  - intros H. right. auto.
Qed.

Lemma find_empty_app_none g1 g2 :
  find_empty g1 = None -> find_empty (g1 ++ g2) = find_empty g2.
Proof.
  induction g1 as [|[l y] g IH]; cbn [find_empty app]; auto.
  destruct l as [|q r]; [discriminate|]. auto.
Qed.

(* first parts, in order of first occurrence *)
Fixpoint first_keys (g : pairs) : list part :=
  match g with
  | [] => []
  | ([], _) :: g' => first_keys g'
  | (p :: _, _) :: g' => p :: filter (fun q => negb (part_eqb q p)) (first_keys g')
  end.

Lemma in_first_keys p g : In p (first_keys g) <-> exists rest x, In (p :: rest, x) g.
Proof.
  induction g as [|[l y] g IH]; cbn [first_keys].
  - split; [contradiction|]. intros [? [? []]].
  - destruct l as [|q r].
    + rewrite IH. split.
      * intros [rest [x H]]. exists rest, x. right. exact H.
      * intros [rest [x [H|H]]]; [discriminate|]. eauto.
    + cbn [In]. rewrite filter_In, IH. split.
      * intros [->|[[rest [x H]] _]].
        -- exists r, y. left. reflexivity.
        -- exists rest, x. right. exact H.
      * intros [rest [x [H|H]]].
        -- injection H as -> -> ->. left. reflexivity.
        -- destruct (part_eqb p q) eqn:E.
           ++ apply part_eqb_spec in E. left. congruence.
           ++ right. split; [eauto|]. reflexivity.
Qed.

Lemma first_keys_NoDup g : NoDup (first_keys g).
Proof.
  induction g as [|[l y] g IH]; cbn [first_keys]; [constructor|].
  destruct l as [|q r]; auto. constructor.
  - rewrite filter_In. intros [_ H]. rewrite part_eqb_refl in H. discriminate.
  - apply NoDup_filter. exact IH.
Qed.

Lemma group_nil_iff p g : group p g = [] <-> ~ In p (first_keys g).
Proof.
  rewrite in_first_keys. split.
  - intros H [rest [x Hin]]. apply in_group in Hin. rewrite H in Hin. contradiction.
  - intros H. destruct (group p g) as [|[rest x] h] eqn:E; auto.
    exfalso. apply H. exists rest, x. apply in_group. rewrite E. left. reflexivity.
Qed.

Lemma filter_app_single {A} (f : A -> bool) l a :
  filter f (l ++ [a]) = filter f l ++ (if f a then [a] else []).
Proof. induction l as [|b l IH]; cbn; [destruct (f a); reflexivity|]. rewrite IH. destruct (f b); reflexivity. Qed.

Lemma first_keys_snoc g p rest x :
  first_keys (g ++ [(p :: rest, x)]) =
  if pmem p (first_keys g) then first_keys g else first_keys g ++ [p].
Proof.
  induction g as [|[l y] g IH]; [reflexivity|].
  cbn [app first_keys]. destruct l as [|q r]; [exact IH|].
  rewrite IH. rewrite pmem_cons.
  destruct (part_eqb p q) eqn:E.
  - cbn [orb]. apply part_eqb_spec in E. subst q.
    destruct (pmem p (first_keys g)); [reflexivity|].
    rewrite filter_app_single. rewrite part_eqb_refl. cbn [negb]. rewrite app_nil_r. reflexivity.
  - cbn [orb].
    assert (Hm : pmem p (filter (fun q0 => negb (part_eqb q0 q)) (first_keys g)) = pmem p (first_keys g)).
    { destruct (pmem p (first_keys g)) eqn:M.
      - apply pmem_In. apply filter_In. split; [apply pmem_In; exact M|]. rewrite E. reflexivity.
      - apply pmem_not_In. intros H. apply filter_In in H as [H _]. apply pmem_In in H. congruence. }
    rewrite Hm. destruct (pmem p (first_keys g)); [reflexivity|].
    rewrite filter_app_single. rewrite E. reflexivity.
Qed.

(* ---------------------------------------------------------------------- *)
(* The tree patch_all is expected to build. *)

Definition slot_of (h : pairs) : ptree :=
  match find_empty h with
  | Some x => PLeaf x
  | None => match patch_all h [] with Ok o => PNode o | Err _ => PNode [] end
  end.

Definition expected (g : pairs) : list (part * ptree) :=
  map (fun p => (p, slot_of (group p g))) (first_keys g).

Lemma patch_all_app g1 g2 obj :
  patch_all (g1 ++ g2) obj = (o <- patch_all g1 obj ;; patch_all g2 o).
Proof.
  revert obj; induction g1 as [|[l x] g1 IH]; intros obj; [reflexivity|].
  cbn [app patch_all]. destruct (patch_obj l obj x); cbn [bind]; auto.
Qed.

Lemma patch_all_single l x obj : patch_all [(l, x)] obj = patch_obj l obj x.
Proof. cbn [patch_all]. destruct (patch_obj l obj x); reflexivity. Qed.

Lemma pt_lookup_map (f : part -> ptree) ks p :
  pt_lookup p (map (fun q => (q, f q)) ks) = if pmem p ks then Some (f p) else None.
Proof.
  induction ks as [|q ks IH]; [reflexivity|]. cbn [map pt_lookup]. rewrite pmem_cons.
  destruct (part_eqb p q) eqn:E; cbn [orb]; auto. apply part_eqb_spec in E. subst. reflexivity.
Qed.

Lemma pt_set_map_new (f : part -> ptree) ks p t :
  ~ In p ks -> pt_set (map (fun q => (q, f q)) ks) p t = map (fun q => (q, f q)) ks ++ [(p, t)].
Proof.
  induction ks as [|q ks IH]; intros H; [reflexivity|]. cbn [map pt_set app].
  destruct (part_eqb p q) eqn:E.
  - apply part_eqb_spec in E. subst. contradiction H. left. reflexivity.
  - rewrite IH; auto. intros Hin. apply H. right. exact Hin.
Qed.

Lemma pt_set_map_old (f f' : part -> ptree) ks p t :
  NoDup ks -> In p ks -> f' p = t -> (forall q, q <> p -> f' q = f q) ->
  pt_set (map (fun q => (q, f q)) ks) p t = map (fun q => (q, f' q)) ks.
Proof.
  intros Hnd Hin Hp Hq. induction ks as [|q ks IH]; [contradiction|]. cbn [map pt_set].
  apply NoDup_cons_iff in Hnd as [Hnq Hnd].
  destruct (part_eqb p q) eqn:E.
  - apply part_eqb_spec in E. subst q. rewrite Hp. f_equal.
    apply map_ext_in. intros a Ha. rewrite Hq; auto. intros ->. contradiction.
  - apply part_eqb_neq in E. destruct Hin as [Hin|Hin]; [congruence|].
    rewrite IH; auto. rewrite Hq; auto.
Qed.

(* ---------------------------------------------------------------------- *)
(* Non-nestedness. *)

Definition apart (a b : loc) : Prop := is_prefix_loc a b = false /\ is_prefix_loc b a = false.

Lemma non_nested_cons l ls :
  non_nested (l :: ls) = true <-> (forall l', In l' ls -> apart l l') /\ non_nested ls = true.
Proof.
  cbn [non_nested]. rewrite andb_true_iff, forallb_forall. split.
  - intros [H1 H2]. split; auto. intros l' Hin. specialize (H1 l' Hin).
    apply andb_true_iff in H1 as [Ha Hb]. apply negb_true_iff in Ha, Hb. split; auto.
  - intros [H1 H2]. split; auto. intros l' Hin. destruct (H1 l' Hin) as [Ha Hb].
    rewrite Ha, Hb. reflexivity.
Qed.

Lemma non_nested_app a b :
  non_nested (a ++ b) = true ->
  non_nested a = true /\ non_nested b = true /\ forall x y, In x a -> In y b -> apart x y.
Proof.
  induction a as [|l a IH]; intros H.
  - repeat split; auto; contradiction.
  - cbn [app] in H. apply non_nested_cons in H as [H1 H2]. destruct (IH H2) as [Ha [Hb Hab]].
    split; [|split; [exact Hb|]].
    + apply non_nested_cons. split; auto. intros l' Hin. apply H1. apply in_or_app. auto.
    + intros x y Hx Hy. destruct Hx as [<-|Hx]; [apply H1; apply in_or_app; auto | apply Hab; auto].
Qed.

Lemma in_tails_under p ls r : In r (tails_under p ls) <-> In (p :: r) ls.
Proof.
  unfold tails_under. rewrite in_flat_map. split.
  - intros [l [Hin H]]. destruct l as [|q r0]; [contradiction|].
    destruct (part_eqb p q) eqn:E; [|contradiction]. apply part_eqb_spec in E. subst q.
    destruct H as [<-|[]]. exact Hin.
  - intros Hin. exists (p :: r). split; auto. rewrite part_eqb_refl. left. reflexivity.
Qed.

Lemma apart_cons p a b : apart (p :: a) (p :: b) -> apart a b.
Proof. unfold apart. cbn [is_prefix_loc]. rewrite part_eqb_refl. cbn [andb]. auto. Qed.

Lemma non_nested_tails p ls : non_nested ls = true -> non_nested (tails_under p ls) = true.
Proof.
  induction ls as [|l ls IH]; intros H; [reflexivity|].
  apply non_nested_cons in H as [H1 H2]. rewrite tails_under_cons.
  destruct l as [|q r]; [exact (IH H2)|]. destruct (part_eqb p q) eqn:E; [|exact (IH H2)].
  apply part_eqb_spec in E. subst q. cbn [app]. apply non_nested_cons. split; [|exact (IH H2)].
  intros r' Hin. apply in_tails_under in Hin. apply (apart_cons p). apply H1. exact Hin.
Qed.

(* ---------------------------------------------------------------------- *)
(* patch_all builds the expected tree. *)

Lemma expected_nil : expected [] = [].
Proof. reflexivity. Qed.

Lemma patch_all_expected n : forall g,
  find_empty g = None -> Forall (fun lx => length (fst lx) <= n) g ->
  non_nested (map fst g) = true ->
  patch_all g [] = Ok (expected g).
Proof.
  induction n as [|n IHn]; intros g.
  - intros Hne Hlen _. destruct g as [|[l x] g]; [reflexivity|]. exfalso.
    apply find_empty_none in Hne. apply Forall_cons_iff in Hne as [Hne _].
    apply Forall_cons_iff in Hlen as [Hlen _]. cbn [fst] in *. destruct l; [congruence|cbn in Hlen; lia].
  - induction g as [|[l x] g0 IHg] using rev_ind; intros Hne Hlen Hnn; [reflexivity|].
    (* hypotheses for the prefix g0 and the last selection *)
    pose proof Hne as Hne'. apply find_empty_none in Hne'. apply Forall_app in Hne' as [Hne0 Hnel].
    apply Forall_cons_iff in Hnel as [Hnel _]. cbn [fst] in Hnel.
    apply Forall_app in Hlen as [Hlen0 Hlenl]. apply Forall_cons_iff in Hlenl as [Hlenl _].
    cbn [fst] in Hlenl.
    rewrite map_app in Hnn. cbn [map fst] in Hnn.
    destruct (non_nested_app _ _ Hnn) as [Hnn0 [_ Hap]].
    assert (Hne0' : find_empty g0 = None) by (apply find_empty_none; exact Hne0).
    specialize (IHg Hne0' Hlen0 Hnn0).
    rewrite patch_all_app, IHg. cbn [bind]. rewrite patch_all_single.
    destruct l as [|p rest]; [congruence|]. clear Hnel.
    (* facts about the groups *)
    assert (Hgrp : forall q, group q (g0 ++ [(p :: rest, x)]) =
                             group q g0 ++ (if part_eqb q p then [(rest, x)] else [])).
    { intros q. rewrite group_app, group_single. reflexivity. }
    assert (Hgq : forall q, q <> p -> group q (g0 ++ [(p :: rest, x)]) = group q g0).
    { intros q Hq. rewrite Hgrp. apply part_eqb_neq in Hq. rewrite Hq. apply app_nil_r. }
    assert (Hfe : find_empty (group p g0) = None).
    { destruct (find_empty (group p g0)) as [y|] eqn:Ef; auto. exfalso.
      apply find_empty_some in Ef. apply in_group in Ef.
      destruct (Hap [p] (p :: rest)) as [Hc _].
      - apply in_map_iff. exists ([p], y). auto.
      - left. reflexivity.
      - cbn in Hc. rewrite part_eqb_refl in Hc. discriminate. }
    (* sub-results from the induction on the depth *)
    assert (Hsub : forall h, (forall r y, In (r, y) h -> In (p :: r, y) (g0 ++ [(p :: rest, x)])) ->
                             find_empty h = None -> non_nested (map fst h) = true ->
                             patch_all h [] = Ok (expected h)).
    { intros h Hin Hfeh Hnnh. apply IHn; auto. apply Forall_forall. intros [r y] Hry. cbn [fst].
      specialize (Hin r y Hry).
      assert (Hl : Forall (fun lx => length (fst lx) <= S n) (g0 ++ [(p :: rest, x)])).
      { apply Forall_app. split; auto. }
      rewrite Forall_forall in Hl. specialize (Hl _ Hin). cbn in Hl. lia. }
    assert (Hnng : forall q, non_nested (map fst (group q (g0 ++ [(p :: rest, x)]))) = true).
    { intros q. rewrite map_fst_group. apply non_nested_tails. rewrite map_app. exact Hnn. }
    assert (Hnng0 : non_nested (map fst (group p g0)) = true).
    { rewrite map_fst_group. apply non_nested_tails. exact Hnn0. }
    assert (Hp0 : patch_all (group p g0) [] = Ok (expected (group p g0))).
    { apply Hsub; auto. intros r y Hry. apply in_or_app. left. apply in_group. exact Hry. }
    unfold expected at 2. rewrite first_keys_snoc.
    destruct rest as [|r1 rest'].
    + (* the part itself is selected: a new leaf *)
      assert (Hnew : ~ In p (first_keys g0)).
      { intros Hin. apply in_first_keys in Hin as [r [y Hin]].
        destruct (Hap (p :: r) [p]) as [_ Hc].
        - apply in_map_iff. exists (p :: r, y). auto.
        - left. reflexivity.
        - cbn in Hc. rewrite part_eqb_refl in Hc. discriminate. }
      cbn [patch_obj]. unfold expected at 1. rewrite pt_set_map_new by exact Hnew.
      apply pmem_not_In in Hnew as Hm. rewrite Hm. rewrite map_app. cbn [map].
      f_equal. f_equal.
      * apply map_ext_in. intros q Hq. rewrite Hgq; auto. intros ->. apply pmem_not_In in Hm. contradiction.
      * rewrite Hgrp, part_eqb_refl. apply pmem_not_In in Hm. apply group_nil_iff in Hm. rewrite Hm.
        reflexivity.
    + (* a longer location: walk or create the node under p *)
      assert (Hfe1 : find_empty (group p (g0 ++ [(p :: r1 :: rest', x)])) = None).
      { rewrite Hgrp, part_eqb_refl. rewrite find_empty_app_none by exact Hfe. reflexivity. }
      assert (Hp1 : patch_all (group p (g0 ++ [(p :: r1 :: rest', x)])) [] =
                    Ok (expected (group p (g0 ++ [(p :: r1 :: rest', x)])))).
      { apply Hsub; auto. intros r y Hry. apply in_group. exact Hry. }
      assert (Hstep : patch_obj (r1 :: rest') (expected (group p g0)) x =
                      Ok (expected (group p (g0 ++ [(p :: r1 :: rest', x)])))).
      { rewrite <- Hp1. rewrite Hgrp, part_eqb_refl. rewrite patch_all_app, Hp0. cbn [bind].
        apply eq_sym, patch_all_single. }
      assert (Hslot : slot_of (group p (g0 ++ [(p :: r1 :: rest', x)])) =
                      PNode (expected (group p (g0 ++ [(p :: r1 :: rest', x)])))).
      { unfold slot_of. rewrite Hfe1, Hp1. reflexivity. }
      change (patch_obj (p :: r1 :: rest') (expected g0) x) with
        (match pt_lookup p (expected g0) with
         | None => sub <- patch_obj (r1 :: rest') [] x ;; Ok (pt_set (expected g0) p (PNode sub))
         | Some (PNode ms) => sub <- patch_obj (r1 :: rest') ms x ;; Ok (pt_set (expected g0) p (PNode sub))
         | Some (PLeaf d) => d' <- patch_value (r1 :: rest') d x ;; Ok (pt_set (expected g0) p (PLeaf d'))
         end).
      unfold expected at 1. rewrite pt_lookup_map.
      destruct (pmem p (first_keys g0)) eqn:Hm.
      * (* p already has a node *)
        unfold slot_of at 1. rewrite Hfe, Hp0. rewrite Hstep. cbn [bind]. f_equal.
        unfold expected at 1.
        apply pt_set_map_old.
        -- apply first_keys_NoDup.
        -- apply pmem_In. exact Hm.
        -- exact Hslot.
        -- intros q Hq. rewrite Hgq; auto.
      * (* p is new *)
        apply pmem_not_In in Hm as Hnew. apply group_nil_iff in Hnew as Hg0.
        rewrite Hg0 in Hstep. change (expected []) with (@nil (part * ptree)) in Hstep.
        rewrite Hstep. cbn [bind]. f_equal.
        unfold expected at 1. rewrite pt_set_map_new by exact Hnew.
        rewrite map_app. cbn [map].
        apply (f_equal2 (@app _)); [|exact (f_equal (fun t => [(p, t)]) (eq_sym Hslot))].
        apply map_ext_in. intros q Hq. rewrite Hgq; auto. intros ->. contradiction.
Qed.

(* ---------------------------------------------------------------------- *)
(* json_eq on arrays and objects; fix_sparse and project_tree, one level. *)

Lemma json_eq_arr x y :
  Forall2 (fun a b => json_eq a b = true) x y -> json_eq (JArr x) (JArr y) = true.
Proof.
  intros H. simpl. induction H as [|a b x y Hab _ IH]; [reflexivity|]. rewrite Hab. exact IH.
Qed.

Lemma json_eq_obj x y :
  length x = length y ->
  Forall (fun ku => exists v, lookup (fst ku) y = Some v /\ json_eq (snd ku) v = true) x ->
  json_eq (JObj x) (JObj y) = true.
Proof.
  intros Hlen H. simpl. rewrite Hlen, Nat.eqb_refl. cbn [andb]. clear Hlen.
  induction H as [|[k u] x [v [Hl Hv]] _ IH]; [reflexivity|].
  cbn [fst snd] in *. rewrite Hl, Hv. exact IH.
Qed.

Definition pname (p : part) : ustr := match p with PKey k => k | PIdx _ => [] end.

Lemma fix_sparse_node ms :
  fix_sparse (PNode ms) =
  match ms with
  | [] => JObj []
  | (PIdx _, _) :: _ => JArr (map (fun pt => fix_sparse (snd pt)) ms)
  | (PKey _, _) :: _ => JObj (map (fun pt => (pname (fst pt), fix_sparse (snd pt))) ms)
  end.
Proof.
  cbn [fix_sparse].
  assert (E : (fix go (ms : list (part * ptree)) : list (part * json) :=
                 match ms with
                 | [] => []
                 | (p, t') :: ms' => (p, fix_sparse t') :: go ms'
                 end) ms = map (fun pt => (fst pt, fix_sparse (snd pt))) ms).
  { induction ms as [|[p t] ms IH]; [reflexivity|]. cbn [map fst snd]. rewrite <- IH. reflexivity. }
  rewrite E. destruct ms as [|[[k|i] t] ms]; [reflexivity| |].
  - cbn [map fst snd]. rewrite map_map. reflexivity.
  - cbn [map fst snd]. rewrite map_map. reflexivity.
Qed.

Definition kept_obj (sels : list loc) :=
  fix go (ms : list (ustr * json)) : list (ustr * json) :=
    match ms with
    | [] => []
    | (k, c) :: ms' =>
        match tails_under (PKey k) sels with
        | [] => go ms'
        | sub => match project_tree c sub with
                 | Some c' => (k, c') :: go ms'
                 | None => go ms'
                 end
        end
    end.

Definition kept_arr (sels : list loc) :=
  fix go (xs : list json) (i : nat) : list json :=
    match xs with
    | [] => []
    | c :: xs' =>
        match tails_under (PIdx i) sels with
        | [] => go xs' (S i)
        | sub => match project_tree c sub with
                 | Some c' => c' :: go xs' (S i)
                 | None => go xs' (S i)
                 end
        end
    end.

Lemma project_tree_obj ms sels :
  project_tree (JObj ms) sels =
  if selected_here sels then Some (JObj ms)
  else match kept_obj sels ms with [] => None | _ => Some (JObj (kept_obj sels ms)) end.
Proof. reflexivity. Qed.

Lemma project_tree_arr xs sels :
  project_tree (JArr xs) sels =
  if selected_here sels then Some (JArr xs)
  else match kept_arr sels xs 0 with [] => None | _ => Some (JArr (kept_arr sels xs 0)) end.
Proof. reflexivity. Qed.

Lemma project_tree_here v sels : selected_here sels = true -> project_tree v sels = Some v.
Proof. intros H. destruct v; simpl; rewrite H; reflexivity. Qed.

Lemma kept_obj_cons sels k c ms :
  kept_obj sels ((k, c) :: ms) =
  match tails_under (PKey k) sels with
  | [] => kept_obj sels ms
  | sub => match project_tree c sub with
           | Some c' => (k, c') :: kept_obj sels ms
           | None => kept_obj sels ms
           end
  end.
Proof. reflexivity. Qed.

Lemma kept_arr_cons sels c xs i :
  kept_arr sels (c :: xs) i =
  match tails_under (PIdx i) sels with
  | [] => kept_arr sels xs (S i)
  | sub => match project_tree c sub with
           | Some c' => c' :: kept_arr sels xs (S i)
           | None => kept_arr sels xs (S i)
           end
  end.
Proof. reflexivity. Qed.

(* ---------------------------------------------------------------------- *)
(* The kept members of an object. *)

Lemma lookup_In_fst {A} k (l : list (ustr * A)) v : lookup k l = Some v -> In k (map fst l).
Proof.
  induction l as [|[k' v'] l IH]; simpl; [discriminate|].
  destruct (ustr_eqb k k') eqn:E.
  - apply ustr_eqb_spec in E. subst. auto.
  - intros H. right. auto.
Qed.

Lemma lookup_In {A} k (l : list (ustr * A)) v : lookup k l = Some v -> In (k, v) l.
Proof.
  induction l as [|[k' v'] l IH]; simpl; [discriminate|].
  destruct (ustr_eqb k k') eqn:E.
  - apply ustr_eqb_spec in E. subst. intros H. injection H as ->. auto.
  - intros H. right. auto.
Qed.

Lemma kept_obj_lookup ls ms k c t :
  lookup k ms = Some c -> tails_under (PKey k) ls <> [] ->
  project_tree c (tails_under (PKey k) ls) = Some t ->
  lookup k (kept_obj ls ms) = Some t.
Proof.
  intros Hl Hne Hp. induction ms as [|[k0 c0] ms IH]; [discriminate|].
  rewrite kept_obj_cons. simpl in Hl. destruct (ustr_eqb k k0) eqn:E.
  - apply ustr_eqb_spec in E. subst k0. injection Hl as ->.
    destruct (tails_under (PKey k) ls) as [|a b] eqn:Et; [congruence|].
    rewrite Hp. simpl. rewrite ustr_eqb_refl. reflexivity.
  - specialize (IH Hl).
    destruct (tails_under (PKey k0) ls) as [|a b]; [exact IH|].
    destruct (project_tree c0 (a :: b)); [|exact IH]. simpl. rewrite E. exact IH.
Qed.

Lemma kept_obj_in ls ms k :
  In k (map fst (kept_obj ls ms)) -> In k (map fst ms) /\ tails_under (PKey k) ls <> [].
Proof.
  induction ms as [|[k0 c0] ms IH]; [contradiction|].
  rewrite kept_obj_cons. cbn [map fst In].
  destruct (tails_under (PKey k0) ls) as [|a b] eqn:Et.
  - intros H. destruct (IH H). auto.
  - destruct (project_tree c0 (a :: b)).
    + cbn [map fst In]. intros [<-|H].
      * split; auto. rewrite Et. discriminate.
      * destruct (IH H). auto.
    + intros H. destruct (IH H). auto.
Qed.

Lemma kept_obj_NoDup ls ms : NoDup (map fst ms) -> NoDup (map fst (kept_obj ls ms)).
Proof.
  induction ms as [|[k0 c0] ms IH]; intros H; [constructor|].
  cbn [map fst] in H. apply NoDup_cons_iff in H as [Hn H]. rewrite kept_obj_cons.
  destruct (tails_under (PKey k0) ls) as [|a b]; auto.
  destruct (project_tree c0 (a :: b)); auto.
  cbn [map fst]. constructor; auto. intros Hin. apply kept_obj_in in Hin as [Hin _]. contradiction.
Qed.

Lemma keys_distinct_NoDup l : keys_distinct l = true -> NoDup l.
Proof.
  induction l as [|k l IH]; intros H; [constructor|]. simpl in H.
  apply andb_true_iff in H as [H1 H2]. apply negb_true_iff in H1. constructor; auto.
  intros Hin. assert (existsb (ustr_eqb k) l = true); [|congruence].
  apply existsb_exists. exists k. split; auto. apply ustr_eqb_refl.
Qed.

Definition is_key (p : part) : Prop := match p with PKey _ => True | PIdx _ => False end.

Lemma pname_NoDup ks : Forall is_key ks -> NoDup ks -> NoDup (map pname ks).
Proof.
  induction ks as [|p ks IH]; intros Hk Hn; [constructor|].
  apply Forall_cons_iff in Hk as [Hp Hk]. apply NoDup_cons_iff in Hn as [Hnp Hn].
  cbn [map]. constructor; auto. intros Hin. apply in_map_iff in Hin as [q [Eq Hq]].
  rewrite Forall_forall in Hk. specialize (Hk q Hq).
  destruct p, q; try contradiction. simpl in Eq. subst. contradiction.
Qed.

(* ---------------------------------------------------------------------- *)
(* Ascending order. *)

Lemma ascending_cons l ls :
  ascending (l :: ls) = true <->
  (forall l', In l' ls -> first_diff_ascending l l' = true) /\ ascending ls = true.
Proof. cbn [ascending]. rewrite andb_true_iff, forallb_forall. tauto. Qed.

Lemma fda_cons p a b : first_diff_ascending (p :: a) (p :: b) = first_diff_ascending a b.
Proof. destruct p; cbn [first_diff_ascending]; [rewrite ustr_eqb_refl|rewrite Nat.eqb_refl]; reflexivity. Qed.

Lemma ascending_tails p ls : ascending ls = true -> ascending (tails_under p ls) = true.
Proof.
  induction ls as [|l ls IH]; intros H; [reflexivity|].
  apply ascending_cons in H as [H1 H2]. rewrite tails_under_cons.
  destruct l as [|q r]; [exact (IH H2)|]. destruct (part_eqb p q) eqn:E; [|exact (IH H2)].
  apply part_eqb_spec in E. subst q. cbn [app]. apply ascending_cons. split; [|exact (IH H2)].
  intros r' Hin. apply in_tails_under in Hin. rewrite <- (fda_cons p). apply H1. exact Hin.
Qed.

Lemma filter_map_PIdx (f : part -> bool) ks :
  filter f (map PIdx ks) = map PIdx (filter (fun i => f (PIdx i)) ks).
Proof.
  induction ks as [|i ks IH]; [reflexivity|]. cbn [map filter]. rewrite IH.
  destruct (f (PIdx i)); reflexivity.
Qed.

Lemma StronglySorted_filter {A} (R : A -> A -> Prop) (f : A -> bool) l :
  StronglySorted R l -> StronglySorted R (filter f l).
Proof.
  induction 1 as [|a l Hs IH Hall]; [constructor|]. cbn [filter].
  destruct (f a); auto. constructor; auto.
  rewrite Forall_forall in *. intros x Hx. apply filter_In in Hx as [Hx _]. auto.
Qed.

Lemma first_keys_sorted g :
  (forall l x, In (l, x) g -> exists i r, l = PIdx i :: r) ->
  ascending (map fst g) = true ->
  exists ks, first_keys g = map PIdx ks /\ StronglySorted lt ks.
Proof.
  induction g as [|[l x] g IH]; intros Hidx Hasc.
  - exists []. split; [reflexivity|constructor].
  - cbn [map fst] in Hasc. apply ascending_cons in Hasc as [H1 H2].
    destruct IH as [ks [Ek Hs]]; auto.
    { intros l0 x0 Hin. apply (Hidx l0 x0). right. exact Hin. }
    destruct (Hidx l x (or_introl eq_refl)) as [i [r ->]].
    cbn [first_keys]. rewrite Ek, filter_map_PIdx.
    exists (i :: filter (fun j => negb (part_eqb (PIdx j) (PIdx i))) ks). split; [reflexivity|].
    constructor; [apply StronglySorted_filter; exact Hs|].
    apply Forall_forall. intros j Hj. apply filter_In in Hj as [Hj Hne].
    assert (Hin : In (PIdx j) (first_keys g)) by (rewrite Ek; apply in_map; exact Hj).
    apply in_first_keys in Hin as [r' [y Hin]].
    specialize (H1 (PIdx j :: r')). cbn [first_diff_ascending] in H1.
    cbn [part_eqb] in Hne. rewrite Nat.eqb_sym in Hne. apply negb_true_iff in Hne. rewrite Hne in H1.
    apply Nat.ltb_lt. apply H1. apply in_map_iff. exists (PIdx j :: r', y). auto.
Qed.

(* the kept elements of an array, against a sorted list of kept indices *)
Lemma kept_arr_merge ls (F : nat -> json) : forall xs i0 ks,
  StronglySorted lt ks ->
  (forall i, In i ks -> i0 <= i < i0 + length xs) ->
  (forall i, i0 <= i -> ~ In i ks -> tails_under (PIdx i) ls = []) ->
  (forall i c, In i ks -> nth_opt xs (i - i0) = Some c ->
     tails_under (PIdx i) ls <> [] /\
     exists t, project_tree c (tails_under (PIdx i) ls) = Some t /\ json_eq (F i) t = true) ->
  Forall2 (fun a b => json_eq a b = true) (map F ks) (kept_arr ls xs i0).
Proof.
  induction xs as [|c xs IH]; intros i0 ks Hs Hb Hout Hin.
  - destruct ks as [|k ks]; [constructor|]. specialize (Hb k (or_introl eq_refl)). simpl in Hb. lia.
  - rewrite kept_arr_cons.
    assert (Hcase : (exists ks', ks = i0 :: ks') \/ ~ In i0 ks).
    { destruct ks as [|k ks']; [right; intros []|].
      destruct (Nat.eq_dec k i0) as [->|Hne]; [left; eauto|]. right.
      apply StronglySorted_inv in Hs as [_ Hall]. rewrite Forall_forall in Hall.
      pose proof (Hb k (or_introl eq_refl)) as Hk.
      intros [E|Hi]; [congruence|]. specialize (Hall _ Hi). lia. }
    destruct Hcase as [[ks' ->]|Hni].
    + apply StronglySorted_inv in Hs as [Hs Hall]. rewrite Forall_forall in Hall.
      destruct (Hin i0 c (or_introl eq_refl)) as [Hne [t [Hp Ht]]].
      { rewrite Nat.sub_diag. reflexivity. }
      destruct (tails_under (PIdx i0) ls) as [|a b] eqn:Et; [congruence|].
      rewrite Hp. cbn [map]. constructor; [exact Ht|].
      apply IH; auto.
      * intros i Hi. specialize (Hall _ Hi). specialize (Hb i (or_intror Hi)). simpl in Hb. lia.
      * intros i Hge Hi. apply Hout; [lia|]. intros [E|Hi']; [lia|contradiction].
      * intros i c0 Hi Hn. apply Hin; [right; exact Hi|].
        specialize (Hall _ Hi). replace (i - i0) with (S (i - S i0)) by lia. exact Hn.
    + rewrite (Hout i0) by (auto; lia).
      apply IH; auto.
      * intros i Hi. specialize (Hb i Hi). simpl in Hb.
        assert (i <> i0) by (intros ->; contradiction). lia.
      * intros i Hge Hi. apply Hout; [lia|exact Hi].
      * intros i c0 Hi Hn. apply Hin; [exact Hi|].
        specialize (Hb i Hi). assert (i <> i0) by (intros ->; contradiction).
        replace (i - i0) with (S (i - S i0)) by lia. exact Hn.
Qed.

(* ---------------------------------------------------------------------- *)
(* The value of the built tree is json_eq to the specification's tree. *)

Definition plocated (v : json) (g : pairs) : Prop :=
  forall l x, In (l, x) g -> node_at v l = Some x.

Lemma plocated_group v g p c : plocated v g -> step v p = Some c -> plocated c (group p g).
Proof.
  intros Hloc Hs r x Hin. apply in_group in Hin. specialize (Hloc _ _ Hin).
  simpl in Hloc. rewrite Hs in Hloc. exact Hloc.
Qed.

Lemma key_step v g p : plocated v g -> In p (first_keys g) -> exists c, step v p = Some c.
Proof.
  intros Hloc Hin. apply in_first_keys in Hin as [r [x Hin]]. specialize (Hloc _ _ Hin).
  simpl in Hloc. destruct (step v p) as [c|]; [eauto|discriminate].
Qed.

Lemma slot_of_node g :
  find_empty g = None -> non_nested (map fst g) = true -> slot_of g = PNode (expected g).
Proof.
  intros Hfe Hnn. unfold slot_of. rewrite Hfe.
  rewrite (patch_all_expected (list_max (map (fun lx => length (fst lx)) g)) g); auto.
  apply Forall_forall. intros lx Hin.
  pose proof (proj1 (list_max_le (map (fun lx => length (fst lx)) g) _) (Nat.le_refl _)) as H.
  rewrite Forall_forall in H. apply H. apply in_map_iff. exists lx. auto.
Qed.

Lemma selected_here_none g : find_empty g = None -> selected_here (map fst g) = false.
Proof.
  induction g as [|[l x] g IH]; [reflexivity|]. cbn [find_empty]. destruct l; [discriminate|].
  intros H. simpl. apply IH. exact H.
Qed.

Lemma selected_here_some g x : find_empty g = Some x -> selected_here (map fst g) = true.
Proof.
  induction g as [|[l y] g IH]; [discriminate|]. cbn [find_empty]. destruct l; [reflexivity|].
  intros H. simpl. apply IH. exact H.
Qed.

Lemma child_facts v g p c :
  wf_json v = true -> plocated v g ->
  non_nested (map fst g) = true -> ascending (map fst g) = true ->
  In p (first_keys g) -> step v p = Some c ->
  wf_json c = true /\ plocated c (group p g) /\ group p g <> [] /\
  non_nested (map fst (group p g)) = true /\ ascending (map fst (group p g)) = true.
Proof.
  intros Hwf Hloc Hnn Hasc Hin Hs. repeat split.
  - eapply wf_step; eauto.
  - eapply plocated_group; eauto.
  - intros E. apply group_nil_iff in E. contradiction.
  - rewrite map_fst_group. apply non_nested_tails. exact Hnn.
  - rewrite map_fst_group. apply ascending_tails. exact Hasc.
Qed.

Lemma first_keys_nonempty g : g <> [] -> find_empty g = None -> first_keys g <> [].
Proof.
  destruct g as [|[l x] g]; [contradiction|]. intros _. cbn [find_empty first_keys].
  destruct l; discriminate.
Qed.

Lemma nth_opt_In {A} (l : list A) i c : nth_opt l i = Some c -> In c l /\ i < length l.
Proof.
  rewrite nth_opt_nth_error. intros H. split.
  - eapply nth_error_In; eauto.
  - apply nth_error_Some. congruence.
Qed.

Lemma project_slot v : forall g,
  wf_json v = true -> plocated v g -> g <> [] ->
  non_nested (map fst g) = true -> ascending (map fst g) = true ->
  exists t, project_tree v (map fst g) = Some t /\ json_eq (fix_sparse (slot_of g)) t = true.
Proof.
  induction v as [| b | n | s | xs IH | ms IH] using json_ind'; intros g Hwf Hloc Hne Hnn Hasc.
  all: destruct (find_empty g) as [x0|] eqn:Hfe.
  (* a selected node keeps its whole value *)
  all: try (pose proof (Hloc _ _ (find_empty_some _ _ Hfe)) as Hx; simpl in Hx; injection Hx as <-;
            eexists; split; [apply project_tree_here; eapply selected_here_some; eauto|];
            unfold slot_of; rewrite Hfe; cbn [fix_sparse]; apply json_eq_refl; exact Hwf).
  (* nothing is selected below a scalar *)
  all: try (exfalso; destruct g as [|[l x] g]; [congruence|]; cbn [find_empty] in Hfe;
            destruct l as [|p r]; [discriminate|]; specialize (Hloc _ _ (or_introl eq_refl));
            destruct p; simpl in Hloc; discriminate).
  - (* array *)
    rewrite (slot_of_node g Hfe Hnn).
    pose proof (first_keys_nonempty g Hne Hfe) as Hkne.
    destruct (first_keys_sorted g) as [ks [Ek Hs]]; auto.
    { intros l x Hin. pose proof (Hloc _ _ Hin) as Hl.
      apply find_empty_none in Hfe. rewrite Forall_forall in Hfe. specialize (Hfe _ Hin). cbn [fst] in Hfe.
      destruct l as [|p r]; [congruence|]. destruct p as [k|i]; [simpl in Hl; discriminate|]. eauto. }
    set (F := fun i => fix_sparse (slot_of (group (PIdx i) g))).
    assert (HF : Forall2 (fun a b => json_eq a b = true) (map F ks) (kept_arr (map fst g) xs 0)).
    { apply kept_arr_merge; auto.
      - intros i Hi. assert (Hin : In (PIdx i) (first_keys g)) by (rewrite Ek; apply in_map; exact Hi).
        destruct (key_step _ _ _ Hloc Hin) as [c Hc]. simpl in Hc. apply nth_opt_In in Hc. lia.
      - intros i _ Hi. rewrite <- map_fst_group.
        assert (Hg : group (PIdx i) g = []); [|rewrite Hg; reflexivity].
        apply group_nil_iff. rewrite Ek. intros Hin. apply in_map_iff in Hin as [j [Ej Hj]].
        injection Ej as ->. contradiction.
      - intros i c Hi Hn. rewrite Nat.sub_0_r in Hn.
        assert (Hin : In (PIdx i) (first_keys g)) by (rewrite Ek; apply in_map; exact Hi).
        destruct (child_facts _ g (PIdx i) c Hwf Hloc Hnn Hasc Hin Hn) as [Hwc [Hlc [Hgc [Hnc Hac]]]].
        rewrite Forall_forall in IH. destruct (nth_opt_In _ _ _ Hn) as [Hcin _].
        destruct (IH c Hcin _ Hwc Hlc Hgc Hnc Hac) as [t [Hp Ht]].
        rewrite map_fst_group in Hp. split; [|exists t; split; auto].
        rewrite <- map_fst_group. intros E. apply map_eq_nil in E. contradiction. }
    rewrite project_tree_arr, (selected_here_none g Hfe).
    destruct ks as [|k ks']; [rewrite Ek in Hkne; contradiction|].
    rewrite fix_sparse_node. unfold expected. rewrite Ek. cbn [map]. rewrite !map_map. cbn [snd].
    inversion HF as [|a b la lb Hab Hrest Ea Eb]. subst.
    eexists. split; [reflexivity|]. apply json_eq_arr.
    constructor; auto.
  - (* object *)
    rewrite (slot_of_node g Hfe Hnn).
    pose proof (first_keys_nonempty g Hne Hfe) as Hkne.
    apply wf_obj in Hwf as Hwo. destruct Hwo as [Hkd _]. apply keys_distinct_NoDup in Hkd.
    assert (Hkeys : forall p, In p (first_keys g) -> exists k c, p = PKey k /\ lookup k ms = Some c).
    { intros p Hin. destruct (key_step _ _ _ Hloc Hin) as [c Hc].
      destruct p as [k|i]; simpl in Hc; [eauto|discriminate]. }
    assert (Hmem : forall k c, In (PKey k) (first_keys g) -> lookup k ms = Some c ->
                   tails_under (PKey k) (map fst g) <> [] /\
                   exists t, project_tree c (tails_under (PKey k) (map fst g)) = Some t /\
                             json_eq (fix_sparse (slot_of (group (PKey k) g))) t = true).
    { intros k c Hin Hl.
      destruct (child_facts _ g (PKey k) c Hwf Hloc Hnn Hasc Hin Hl) as [Hwc [Hlc [Hgc [Hnc Hac]]]].
      rewrite Forall_forall in IH. specialize (IH (k, c) (lookup_In _ _ _ Hl)). cbn [snd] in IH.
      destruct (IH _ Hwc Hlc Hgc Hnc Hac) as [t [Hp Ht]].
      rewrite map_fst_group in Hp. split; [|exists t; split; auto].
      rewrite <- map_fst_group. intros E. apply map_eq_nil in E. contradiction. }
    set (kept := kept_obj (map fst g) ms).
    assert (Hlen : length (first_keys g) = length kept).
    { rewrite <- (map_length pname (first_keys g)), <- (map_length fst kept).
      apply Permutation_length. apply NoDup_Permutation.
      - apply pname_NoDup; [|apply first_keys_NoDup]. apply Forall_forall. intros p Hin.
        destruct (Hkeys p Hin) as [k [c [-> _]]]. exact I.
      - apply kept_obj_NoDup. exact Hkd.
      - intros k. split.
        + intros Hin. apply in_map_iff in Hin as [p [<- Hin]].
          destruct (Hkeys p Hin) as [k' [c [-> Hl]]]. cbn [pname].
          destruct (Hmem k' c Hin Hl) as [Hne' [t [Hp _]]].
          eapply lookup_In_fst. eapply kept_obj_lookup; eauto.
        + intros Hin. apply kept_obj_in in Hin as [_ Hne'].
          apply in_map_iff. exists (PKey k). split; [reflexivity|].
          destruct (pmem (PKey k) (first_keys g)) eqn:Hm; [apply pmem_In; exact Hm|].
          exfalso. apply Hne'. apply pmem_not_In in Hm. apply group_nil_iff in Hm.
          rewrite <- map_fst_group, Hm. reflexivity. }
    rewrite project_tree_obj, (selected_here_none g Hfe). fold kept.
    destruct (first_keys g) as [|p0 keys'] eqn:Ek; [contradiction|].
    destruct kept as [|kv kept'] eqn:Ekept; [discriminate|]. rewrite <- Ekept in *.
    eexists. split; [reflexivity|].
    rewrite fix_sparse_node. unfold expected. rewrite Ek.
    destruct (Hkeys p0 (or_introl eq_refl)) as [k0 [c0 [-> Hl0]]].
    cbn [map]. rewrite !map_map. cbn [fst snd].
    change ((pname (PKey k0), fix_sparse (slot_of (group (PKey k0) g))) ::
            map (fun x => (pname x, fix_sparse (slot_of (group x g)))) keys')
      with (map (fun x => (pname x, fix_sparse (slot_of (group x g)))) (PKey k0 :: keys')).
    apply json_eq_obj.
    + rewrite map_length. exact Hlen.
    + apply Forall_forall. intros [k u] Hin. apply in_map_iff in Hin as [p [Ep Hin]].
      injection Ep as <- <-. cbn [fst snd].
      destruct (Hkeys p Hin) as [k' [c [-> Hl]]]. cbn [pname].
      destruct (Hmem k' c Hin Hl) as [Hne' [t [Hp Ht]]].
      exists t. split; auto. eapply kept_obj_lookup; eauto.
Qed.

(* ---------------------------------------------------------------------- *)
(* The statements of props/C19.v. *)

Lemma patch_all_ok g :
  find_empty g = None -> non_nested (map fst g) = true -> patch_all g [] = Ok (expected g).
Proof.
  intros Hfe Hnn. pose proof (slot_of_node g Hfe Hnn) as H. unfold slot_of in H. rewrite Hfe in H.
  destruct (patch_all g []) as [o|e] eqn:E.
  - injection H as ->. reflexivity.
  - exfalso.
    rewrite (patch_all_expected (list_max (map (fun lx => length (fst lx)) g)) g) in E; auto; [discriminate|].
    apply Forall_forall. intros lx Hin.
    pose proof (proj1 (list_max_le (map (fun lx => length (fst lx)) g) _) (Nat.le_refl _)) as H'.
    rewrite Forall_forall in H'. apply H'. apply in_map_iff. exists lx. auto.
Qed.

Lemma kept_arr_nil xs : forall i, kept_arr [] xs i = [].
Proof. induction xs as [|c xs IH]; intros i; [reflexivity|]. rewrite kept_arr_cons. cbn. apply IH. Qed.

Lemma kept_obj_nil ms : kept_obj [] ms = [].
Proof. induction ms as [|[k c] ms IH]; [reflexivity|]. rewrite kept_obj_cons. cbn. apply IH. Qed.

Lemma project_tree_nil v : project_tree v [] = None.
Proof.
  destruct v; try reflexivity.
  - rewrite project_tree_arr, kept_arr_nil. reflexivity.
  - rewrite project_tree_obj, kept_obj_nil. reflexivity.
Qed.

(* the common core of the relative and the root projection *)
Lemma project_core v (g : pairs) :
  wf_json v = true -> plocated v g ->
  find_empty g = None -> non_nested (map fst g) = true -> ascending (map fst g) = true ->
  exists obj, patch_all g [] = Ok obj /\
    match project_tree v (map fst g) with
    | Some t => json_eq (fix_sparse (PNode obj)) t = true
    | None => g = [] /\ fix_sparse (PNode obj) = JObj []
    end.
Proof.
  intros Hwf Hloc Hfe Hnn Hasc. exists (expected g). split; [apply patch_all_ok; auto|].
  destruct g as [|lx g'] eqn:Eg.
  - cbn [map]. rewrite project_tree_nil. split; reflexivity.
  - rewrite <- Eg in *.
    destruct (project_slot v g Hwf Hloc) as [t [Hp Ht]]; auto; [rewrite Eg; discriminate|].
    rewrite Hp. rewrite (slot_of_node g Hfe Hnn) in Ht. exact Ht.
Qed.

Definition located' (v : json) (sels : list jmatch) : Prop :=
  forall s, In s sels -> node_at v (m_parts s) = Some (m_val s).

Lemma flat_spec :
  forall (E : env) rf rs (exprs : list query) (m : jmatch) (sels : list jmatch),
    is_container (m_val m) = true ->
    selected E rf rs exprs (m_val m) = Ok sels ->
    select_one E rf rs ProjFlat exprs m = Ok (Some (JArr (map m_val sels))).
Proof.
  intros E rf rs exprs m sels Hc Hs. unfold select_one. rewrite Hc, Hs. reflexivity.
Qed.

Lemma none_spec :
  forall (E : env) rf rs (style : projection) (exprs : list query) (m : jmatch),
    (is_container (m_val m) = false -> select_one E rf rs style exprs m = Ok None) /\
    (is_container (m_val m) = true -> selected E rf rs exprs (m_val m) = Ok [] ->
       exists j, select_one E rf rs style exprs m = Ok (Some j) /\ truthy_result j = false).
Proof.
  intros E rf rs style exprs m. split.
  - intros Hc. unfold select_one. rewrite Hc. reflexivity.
  - intros Hc Hs. unfold select_one. rewrite Hc, Hs. cbn [negb bind map].
    destruct style; eexists; (split; [reflexivity|reflexivity]).
Qed.

Lemma selections_ok_parts ls :
  selections_ok ls = true ->
  Forall (fun l => l <> []) ls /\ non_nested ls = true /\ ascending ls = true.
Proof.
  unfold selections_ok. intros H. apply andb_true_iff in H as [H Ha]. apply andb_true_iff in H as [Hn Hnn].
  repeat split; auto. apply Forall_forall. intros l Hin. rewrite forallb_forall in Hn.
  specialize (Hn l Hin). destruct l; [discriminate|discriminate].
Qed.

Lemma relative_spec :
  forall (E : env) rf rs (exprs : list query) (m : jmatch) (sels : list jmatch),
    is_container (m_val m) = true -> wf_json (m_val m) = true ->
    selected E rf rs exprs (m_val m) = Ok sels ->
    located' (m_val m) sels ->
    selections_ok (map m_parts sels) = true ->
    exists j, select_one E rf rs ProjRelative exprs m = Ok (Some j) /\
      match project_tree (m_val m) (map m_parts sels) with
      | Some t => json_eq j t = true
      | None => sels = [] /\ j = JObj []
      end.
Proof.
  intros E rf rs exprs m sels Hc Hwf Hs Hloc Hok.
  apply selections_ok_parts in Hok as [Hne [Hnn Hasc]].
  set (g := map (fun s => (m_parts s, m_val s)) sels : pairs).
  assert (Hfst : map (@fst loc json) g = map m_parts sels).
  { unfold g. rewrite map_map. reflexivity. }
  destruct (project_core (m_val m) g) as [obj [Hp Hr]]; auto.
  - intros l x Hin. apply in_map_iff in Hin as [s [Es Hin]]. injection Es as <- <-. apply Hloc. exact Hin.
  - apply find_empty_none. apply Forall_forall. intros lx Hin.
    apply in_map_iff in Hin as [s [<- Hin]]. cbn [fst]. rewrite Forall_forall in Hne. apply Hne.
    apply in_map. exact Hin.
  - rewrite Hfst. exact Hnn.
  - rewrite Hfst. exact Hasc.
  - exists (fix_sparse (PNode obj)). split.
    + unfold select_one. rewrite Hc, Hs. cbn [negb bind]. fold g. rewrite Hp. reflexivity.
    + rewrite Hfst in Hr. destruct (project_tree (m_val m) (map m_parts sels)); auto.
      destruct Hr as [Hg Hj]. split; auto. unfold g in Hg. destruct sels; [reflexivity|discriminate].
Qed.

Lemma forallb_map_ext {A B} (f : B -> bool) (f' : A -> bool) (h : A -> B) l :
  (forall a, f (h a) = f' a) -> forallb f (map h l) = forallb f' l.
Proof. intros H. induction l as [|a l IH]; [reflexivity|]. cbn. rewrite H, IH. reflexivity. Qed.

Lemma is_prefix_loc_app pre a b : is_prefix_loc (pre ++ a) (pre ++ b) = is_prefix_loc a b.
Proof. induction pre as [|p pre IH]; [reflexivity|]. cbn. rewrite part_eqb_refl. exact IH. Qed.

Lemma fda_app pre a b : first_diff_ascending (pre ++ a) (pre ++ b) = first_diff_ascending a b.
Proof. induction pre as [|p pre IH]; [reflexivity|]. cbn [app]. rewrite fda_cons. exact IH. Qed.

Lemma non_nested_prefix pre ls : non_nested (map (fun l => pre ++ l) ls) = non_nested ls.
Proof.
  induction ls as [|l ls IH]; [reflexivity|]. cbn [map non_nested]. rewrite IH. f_equal.
  apply forallb_map_ext. intros a. rewrite !is_prefix_loc_app. reflexivity.
Qed.

Lemma ascending_prefix pre ls : ascending (map (fun l => pre ++ l) ls) = ascending ls.
Proof.
  induction ls as [|l ls IH]; [reflexivity|]. cbn [map ascending]. rewrite IH. f_equal.
  apply forallb_map_ext. intros a. apply fda_app.
Qed.

Lemma root_spec :
  forall (E : env) rf rs (exprs : list query) (d : json) (m : jmatch) (sels : list jmatch),
    is_container (m_val m) = true -> wf_json d = true ->
    node_at d (m_parts m) = Some (m_val m) ->
    selected E rf rs exprs (m_val m) = Ok sels ->
    located' (m_val m) sels ->
    selections_ok (map m_parts sels) = true ->
    exists j, select_one E rf rs ProjRoot exprs m = Ok (Some j) /\
      match project_root d (m_parts m) (map m_parts sels) with
      | Some t => json_eq j t = true
      | None => sels = [] /\ j = JObj []
      end.
Proof.
  intros E rf rs exprs d m sels Hc Hwf Hat Hs Hloc Hok.
  apply selections_ok_parts in Hok as [Hne [Hnn Hasc]].
  set (g := map (fun s => (m_parts m ++ m_parts s, m_val s)) sels : pairs).
  assert (Hfst : map (@fst loc json) g = map (fun l => m_parts m ++ l) (map m_parts sels)).
  { unfold g. rewrite !map_map. reflexivity. }
  destruct (project_core d g) as [obj [Hp Hr]]; auto.
  - intros l x Hin. apply in_map_iff in Hin as [s [Es Hin]]. injection Es as <- <-.
    rewrite node_at_app, Hat. apply Hloc. exact Hin.
  - apply find_empty_none. apply Forall_forall. intros lx Hin.
    apply in_map_iff in Hin as [s [<- Hin]]. cbn [fst]. rewrite Forall_forall in Hne.
    intros E0. apply app_eq_nil in E0 as [_ E0]. revert E0. apply Hne. apply in_map. exact Hin.
  - rewrite Hfst, non_nested_prefix. exact Hnn.
  - rewrite Hfst, ascending_prefix. exact Hasc.
  - exists (fix_sparse (PNode obj)). split.
    + unfold select_one. rewrite Hc, Hs. cbn [negb bind]. fold g. rewrite Hp. reflexivity.
    + unfold project_root. rewrite Hfst in Hr.
      destruct (project_tree d (map (fun l => m_parts m ++ l) (map m_parts sels))); auto.
      destruct Hr as [Hg Hj]. split; auto. unfold g in Hg. destruct sels; [reflexivity|discriminate].
Qed.
