(* PyStrLemmas.v — facts about the string / decimal functions of rt/PyStr.v and the
   escaping functions of spec/Rfc6901.v and model/Pointer.v. *)
From JP Require Import Base Json PyStr Pointer Rfc6901.

Local Open Scope Z_scope.

(* ---------------------------------------------------------------------- *)
(* characters *)

Lemma contains_ch_nil c : contains_ch c [] = false.
Proof. reflexivity. Qed.

Lemma contains_ch_cons c x s : contains_ch c (x :: s) = N.eqb c x || contains_ch c s.
Proof. reflexivity. Qed.

Lemma contains_ch_app c a b : contains_ch c (a ++ b) = contains_ch c a || contains_ch c b.
Proof. unfold contains_ch. apply existsb_app. Qed.

(* ---------------------------------------------------------------------- *)
(* lstrip *)

Lemma lstrip_nonspace c s : py_isspace c = false -> lstrip (c :: s) = c :: s.
Proof. intros H. simpl. rewrite H. reflexivity. Qed.

Lemma lstrip_nil : lstrip [] = [].
Proof. reflexivity. Qed.

Lemma isspace_slash : py_isspace ch_slash = false.
Proof. reflexivity. Qed.

Lemma isspace_hash : py_isspace ch_hash = false.
Proof. reflexivity. Qed.

Lemma digit_bounds c : is_ascii_digit c = true -> (48 <= c <= 57)%N.
Proof.
  unfold is_ascii_digit. intros H. apply andb_true_iff in H as [H1 H2].
  apply N.leb_le in H1. apply N.leb_le in H2. lia.
Qed.

Lemma digit_of_bounds c : (48 <= c <= 57)%N -> is_ascii_digit c = true.
Proof.
  intros [H1 H2]. unfold is_ascii_digit. apply andb_true_iff. split; apply N.leb_le; assumption.
Qed.

Lemma isspace_digit c : is_ascii_digit c = true -> py_isspace c = false.
Proof.
  intros H. apply digit_bounds in H.
  assert (Hc : (c = 48 \/ c = 49 \/ c = 50 \/ c = 51 \/ c = 52 \/ c = 53 \/ c = 54 \/
                c = 55 \/ c = 56 \/ c = 57)%N) by lia.
  repeat (destruct Hc as [Hc|Hc]; [subst c; reflexivity|]). subst c. reflexivity.
Qed.

(* ---------------------------------------------------------------------- *)
(* split_on / join_with *)

Lemma split_on_nonempty sep s : split_on sep s <> [].
Proof.
  induction s as [|c s IH]; simpl; [discriminate|].
  destruct (N.eqb c sep); [discriminate|].
  destruct (split_on sep s); discriminate.
Qed.

Lemma split_on_cons_eq sep s : split_on sep (sep :: s) = [] :: split_on sep s.
Proof. simpl. rewrite N.eqb_refl. reflexivity. Qed.

Lemma split_on_cons_ne sep c s :
  N.eqb c sep = false ->
  split_on sep (c :: s) = (c :: hd [] (split_on sep s)) :: tl (split_on sep s).
Proof.
  intros H. simpl. rewrite H. pose proof (split_on_nonempty sep s) as Hne.
  destruct (split_on sep s); [contradiction|reflexivity].
Qed.

Lemma join_with_cons sep f fs :
  fs <> [] -> join_with sep (f :: fs) = f ++ sep :: join_with sep fs.
Proof. intros H. destruct fs; [contradiction|reflexivity]. Qed.

Lemma join_split sep s : join_with sep (split_on sep s) = s.
Proof.
  induction s as [|c s IH]; [reflexivity|].
  pose proof (split_on_nonempty sep s) as Hne.
  destruct (N.eqb c sep) eqn:E.
  - apply N.eqb_eq in E. subst c. rewrite split_on_cons_eq.
    rewrite join_with_cons by assumption. rewrite IH. reflexivity.
  - rewrite split_on_cons_ne by assumption.
    destruct (split_on sep s) as [|f fs] eqn:Es; [contradiction|].
    simpl hd. simpl tl. destruct fs as [|g fs].
    + simpl in IH. simpl. rewrite IH. reflexivity.
    + rewrite join_with_cons in IH by discriminate.
      rewrite join_with_cons by discriminate.
      rewrite <- app_comm_cons. rewrite IH. reflexivity.
Qed.

Lemma split_on_nosep sep f : contains_ch sep f = false -> split_on sep f = [f].
Proof.
  induction f as [|c f IH]; intros H; [reflexivity|].
  rewrite contains_ch_cons in H. apply orb_false_iff in H as [H1 H2].
  rewrite N.eqb_sym in H1. rewrite split_on_cons_ne by assumption.
  rewrite IH by assumption. reflexivity.
Qed.

Lemma split_on_app_sep sep f r :
  contains_ch sep f = false -> split_on sep (f ++ sep :: r) = f :: split_on sep r.
Proof.
  induction f as [|c f IH]; intros H.
  - simpl app. apply split_on_cons_eq.
  - rewrite contains_ch_cons in H. apply orb_false_iff in H as [H1 H2].
    rewrite N.eqb_sym in H1. simpl app. rewrite split_on_cons_ne by assumption.
    rewrite IH by assumption. reflexivity.
Qed.

Lemma split_join sep fs :
  fs <> [] -> Forall (fun f => contains_ch sep f = false) fs ->
  split_on sep (join_with sep fs) = fs.
Proof.
  induction fs as [|f fs IH]; intros Hne HF; [contradiction|].
  inversion HF as [|? ? Hf HF']; subst.
  destruct fs as [|g fs].
  - simpl. apply split_on_nosep. assumption.
  - rewrite join_with_cons by discriminate.
    rewrite split_on_app_sep by assumption.
    rewrite IH; [reflexivity|discriminate|assumption].
Qed.

(* ---------------------------------------------------------------------- *)
(* unfolding equations for the two-character fixpoints *)

Lemma unescape_eq2 c d s :
  unescape (c :: d :: s) =
  if N.eqb c ch_tilde && N.eqb d ch_1 then ch_slash :: unescape s
  else if N.eqb c ch_tilde && N.eqb d ch_0 then ch_tilde :: unescape s
  else c :: unescape (d :: s).
Proof. reflexivity. Qed.

Lemma unescape_cons_ne c s : N.eqb c ch_tilde = false -> unescape (c :: s) = c :: unescape s.
Proof.
  intros H. destruct s as [|d s]; [reflexivity|].
  rewrite unescape_eq2. rewrite H. reflexivity.
Qed.

Lemma replace2_eq2 a b r x y s :
  replace2 a b r (x :: y :: s) =
  if N.eqb x a && N.eqb y b then r ++ replace2 a b r s else x :: replace2 a b r (y :: s).
Proof. reflexivity. Qed.

Lemma replace2_cons_ne a b r x s :
  N.eqb x a = false -> replace2 a b r (x :: s) = x :: replace2 a b r s.
Proof.
  intros H. destruct s as [|y s]; [reflexivity|].
  rewrite replace2_eq2. rewrite H. reflexivity.
Qed.

Lemma tilde_ok_cons_ne c s : N.eqb c ch_tilde = false -> tilde_ok (c :: s) = tilde_ok s.
Proof. intros H. simpl. rewrite H. reflexivity. Qed.

Lemma tilde_ok_tilde d s :
  tilde_ok (ch_tilde :: d :: s) = (N.eqb d ch_0 || N.eqb d ch_1) && tilde_ok s.
Proof. reflexivity. Qed.

(* induction principle following the shape of tilde_ok *)
Lemma tilde_ok_induction (P : ustr -> Prop) :
  P [] ->
  (forall c s, N.eqb c ch_tilde = false -> tilde_ok s = true -> P s -> P (c :: s)) ->
  (forall d s, N.eqb d ch_0 || N.eqb d ch_1 = true -> tilde_ok s = true -> P s ->
               P (ch_tilde :: d :: s)) ->
  forall s, tilde_ok s = true -> P s.
Proof.
  intros H0 H1 H2.
  assert (Hn : forall n s, (length s <= n)%nat -> tilde_ok s = true -> P s).
  { induction n as [|n IH]; intros s Hlen Hok.
    - destruct s; [exact H0|simpl in Hlen; lia].
    - destruct s as [|c s]; [exact H0|].
      destruct (N.eqb c ch_tilde) eqn:E.
      + apply N.eqb_eq in E. subst c.
        destruct s as [|d s]; [simpl in Hok; discriminate|].
        rewrite tilde_ok_tilde in Hok. apply andb_true_iff in Hok as [Hd Hs].
        apply H2; [assumption|assumption|].
        apply IH; [simpl in Hlen; lia|assumption].
      + rewrite tilde_ok_cons_ne in Hok by assumption.
        apply H1; [assumption|assumption|].
        apply IH; [simpl in Hlen; lia|assumption]. }
  intros s. apply (Hn (length s)). lia.
Qed.

Lemma d01_not_tilde d : N.eqb d ch_0 || N.eqb d ch_1 = true -> N.eqb d ch_tilde = false.
Proof.
  intros H. apply orb_true_iff in H as [H|H]; apply N.eqb_eq in H; subst d; reflexivity.
Qed.

Lemma d01_not_slash d : N.eqb d ch_0 || N.eqb d ch_1 = true -> N.eqb d ch_slash = false.
Proof.
  intros H. apply orb_true_iff in H as [H|H]; apply N.eqb_eq in H; subst d; reflexivity.
Qed.

(* ---------------------------------------------------------------------- *)
(* decode_token = unescape on well-formed tokens; encode_token = escape *)

Lemma decode_token_unescape t : tilde_ok t = true -> decode_token t = unescape t.
Proof.
  unfold decode_token. revert t. apply tilde_ok_induction.
  - reflexivity.
  - intros c s Hc _ IH.
    rewrite (replace2_cons_ne _ _ _ c) by assumption.
    rewrite (replace2_cons_ne _ _ _ c) by assumption.
    rewrite unescape_cons_ne by assumption. rewrite IH. reflexivity.
  - intros d s Hd _ IH.
    rewrite unescape_eq2. rewrite (replace2_eq2 ch_tilde ch_1).
    rewrite N.eqb_refl. simpl andb.
    apply orb_true_iff in Hd as [Hd|Hd]; apply N.eqb_eq in Hd; subst d.
    + change (N.eqb ch_0 ch_1) with false. change (N.eqb ch_0 ch_0) with true.
      cbv iota.
      rewrite (replace2_cons_ne ch_tilde ch_1 _ ch_0) by reflexivity.
      rewrite (replace2_eq2 ch_tilde ch_0). rewrite !N.eqb_refl. simpl andb. cbv iota.
      rewrite IH. reflexivity.
    + change (N.eqb ch_1 ch_1) with true. cbv iota.
      change ([ch_slash] ++ replace2 ch_tilde ch_1 [ch_slash] s)
        with (ch_slash :: replace2 ch_tilde ch_1 [ch_slash] s).
      rewrite (replace2_cons_ne ch_tilde ch_0 _ ch_slash) by reflexivity.
      rewrite IH. reflexivity.
Qed.

Lemma encode_token_escape t : encode_token t = escape t.
Proof.
  unfold encode_token. induction t as [|c t IH]; [reflexivity|].
  simpl replace1 at 2. simpl escape.
  destruct (N.eqb c ch_tilde) eqn:Et.
  - change ([ch_tilde; ch_0] ++ replace1 ch_tilde [ch_tilde; ch_0] t)
      with (ch_tilde :: ch_0 :: replace1 ch_tilde [ch_tilde; ch_0] t).
    simpl. rewrite IH. reflexivity.
  - destruct (N.eqb c ch_slash) eqn:Es.
    + simpl. rewrite Es. simpl. rewrite IH. reflexivity.
    + simpl. rewrite Es. rewrite IH. reflexivity.
Qed.

Lemma unescape_escape t : unescape (escape t) = t.
Proof.
  induction t as [|c t IH]; [reflexivity|].
  simpl escape.
  destruct (N.eqb c ch_tilde) eqn:Et.
  - apply N.eqb_eq in Et. subst c. rewrite unescape_eq2. simpl. rewrite IH. reflexivity.
  - destruct (N.eqb c ch_slash) eqn:Es.
    + apply N.eqb_eq in Es. subst c. rewrite unescape_eq2. simpl. rewrite IH. reflexivity.
    + rewrite unescape_cons_ne by assumption. rewrite IH. reflexivity.
Qed.

Lemma escape_unescape t :
  tilde_ok t = true -> contains_ch ch_slash t = false -> escape (unescape t) = t.
Proof.
  revert t.
  apply (tilde_ok_induction (fun t => contains_ch ch_slash t = false -> escape (unescape t) = t)).
  - reflexivity.
  - intros c s Hc Hs IH Hno. rewrite unescape_cons_ne by assumption.
    rewrite contains_ch_cons in Hno. apply orb_false_iff in Hno as [Hno1 Hno2].
    rewrite N.eqb_sym in Hno1.
    simpl escape. rewrite Hc, Hno1. rewrite IH by assumption. reflexivity.
  - intros d s Hd Hs IH Hno.
    rewrite !contains_ch_cons in Hno.
    apply orb_false_iff in Hno as [_ Hno]. apply orb_false_iff in Hno as [_ Hno].
    rewrite unescape_eq2. rewrite N.eqb_refl. simpl andb.
    apply orb_true_iff in Hd as [Hd|Hd]; apply N.eqb_eq in Hd; subst d.
    + change (N.eqb ch_0 ch_1) with false. change (N.eqb ch_0 ch_0) with true. cbv iota.
      simpl escape. rewrite IH by assumption. reflexivity.
    + change (N.eqb ch_1 ch_1) with true. cbv iota.
      simpl escape. rewrite IH by assumption. reflexivity.
Qed.

(* escape never produces a slash, is tilde_ok, and adds no backslash *)
Lemma escape_no_slash t : contains_ch ch_slash (escape t) = false.
Proof.
  induction t as [|c t IH]; [reflexivity|].
  simpl escape. destruct (N.eqb c ch_tilde) eqn:Et.
  - rewrite !contains_ch_cons. rewrite IH. reflexivity.
  - destruct (N.eqb c ch_slash) eqn:Es.
    + rewrite !contains_ch_cons. rewrite IH. reflexivity.
    + rewrite contains_ch_cons. rewrite IH. rewrite N.eqb_sym, Es. reflexivity.
Qed.

Lemma tilde_ok_escape_app t r : tilde_ok (escape t ++ r) = tilde_ok r.
Proof.
  induction t as [|c t IH]; [reflexivity|].
  simpl escape. destruct (N.eqb c ch_tilde) eqn:Et.
  - rewrite <- !app_comm_cons. rewrite tilde_ok_tilde. rewrite IH. reflexivity.
  - destruct (N.eqb c ch_slash) eqn:Es.
    + rewrite <- !app_comm_cons. rewrite tilde_ok_tilde. rewrite IH. reflexivity.
    + rewrite <- app_comm_cons. rewrite tilde_ok_cons_ne by assumption. apply IH.
Qed.

Lemma escape_backslash t : contains_ch ch_backslash (escape t) = contains_ch ch_backslash t.
Proof.
  induction t as [|c t IH]; [reflexivity|].
  simpl escape. destruct (N.eqb c ch_tilde) eqn:Et.
  - apply N.eqb_eq in Et. subst c. rewrite !contains_ch_cons. rewrite IH. reflexivity.
  - destruct (N.eqb c ch_slash) eqn:Es.
    + apply N.eqb_eq in Es. subst c. rewrite !contains_ch_cons. rewrite IH. reflexivity.
    + rewrite !contains_ch_cons. rewrite IH. reflexivity.
Qed.

(* the pieces of a split contain no separator; the pieces of a tilde_ok string are tilde_ok *)
Lemma split_on_pieces_nosep sep s :
  Forall (fun f => contains_ch sep f = false) (split_on sep s).
Proof.
  induction s as [|c s IH].
  - simpl. constructor; [reflexivity|constructor].
  - pose proof (split_on_nonempty sep s) as Hne.
    destruct (N.eqb c sep) eqn:E.
    + apply N.eqb_eq in E. subst c. rewrite split_on_cons_eq. constructor; [reflexivity|assumption].
    + rewrite split_on_cons_ne by assumption.
      destruct (split_on sep s) as [|f fs]; [contradiction|].
      inversion IH as [|? ? Hf Hfs]; subst. simpl hd. simpl tl.
      constructor; [|assumption].
      rewrite contains_ch_cons. rewrite N.eqb_sym, E. assumption.
Qed.

Lemma split_on_pieces_tilde_ok s :
  tilde_ok s = true -> Forall (fun f => tilde_ok f = true) (split_on ch_slash s).
Proof.
  revert s.
  apply (tilde_ok_induction (fun s => Forall (fun f => tilde_ok f = true) (split_on ch_slash s))).
  - simpl. constructor; [reflexivity|constructor].
  - intros c s Hc Hs IH.
    pose proof (split_on_nonempty ch_slash s) as Hne.
    destruct (N.eqb c ch_slash) eqn:E.
    + apply N.eqb_eq in E. subst c. rewrite split_on_cons_eq. constructor; [reflexivity|assumption].
    + rewrite split_on_cons_ne by assumption.
      destruct (split_on ch_slash s) as [|f fs]; [contradiction|].
      inversion IH as [|? ? Hf Hfs]; subst. simpl hd. simpl tl.
      constructor; [|assumption].
      rewrite tilde_ok_cons_ne by assumption. assumption.
  - intros d s Hd Hs IH.
    pose proof (split_on_nonempty ch_slash s) as Hne.
    rewrite (split_on_cons_ne ch_slash ch_tilde) by reflexivity.
    rewrite (split_on_cons_ne ch_slash d) by (apply d01_not_slash; assumption).
    destruct (split_on ch_slash s) as [|f fs]; [contradiction|].
    inversion IH as [|? ? Hf Hfs]; subst. simpl hd. simpl tl.
    constructor; [|assumption].
    rewrite tilde_ok_tilde. rewrite Hd, Hf. reflexivity.
Qed.

(* rfc_spell as a join *)
Lemma rfc_spell_join t ts :
  rfc_spell (t :: ts) = ch_slash :: join_with ch_slash (map escape (t :: ts)).
Proof.
  revert t. induction ts as [|u ts IH]; intros t.
  - simpl. rewrite app_nil_r. reflexivity.
  - change (rfc_spell (t :: u :: ts)) with (ch_slash :: escape t ++ rfc_spell (u :: ts)).
    rewrite IH. change (map escape (t :: u :: ts)) with (escape t :: map escape (u :: ts)).
    rewrite join_with_cons by discriminate. reflexivity.
Qed.

Lemma tilde_ok_rfc_spell ts : tilde_ok (rfc_spell ts) = true.
Proof.
  induction ts as [|t ts IH]; [reflexivity|].
  simpl rfc_spell. rewrite tilde_ok_cons_ne by reflexivity.
  rewrite tilde_ok_escape_app. assumption.
Qed.

Lemma rfc_syntax_spell ts : rfc6901_syntax (rfc_spell ts) = true.
Proof.
  destruct ts as [|t ts]; [reflexivity|].
  pose proof (tilde_ok_rfc_spell (t :: ts)) as H.
  simpl rfc_spell in *. unfold rfc6901_syntax. rewrite H. reflexivity.
Qed.

Lemma rfc_tokens_spell ts : rfc_tokens (rfc_spell ts) = ts.
Proof.
  destruct ts as [|t ts]; [reflexivity|].
  rewrite rfc_spell_join. unfold rfc_tokens. rewrite split_on_cons_eq. cbn [tl].
  rewrite split_join.
  - rewrite map_map. rewrite <- (map_id (t :: ts)) at 2. apply map_ext. apply unescape_escape.
  - discriminate.
  - apply Forall_forall. intros f Hf. apply in_map_iff in Hf as [u [Hu _]]. subst f.
    apply escape_no_slash.
Qed.

Lemma no_backslash_spell ts :
  forallb (fun t => negb (contains_ch ch_backslash t)) ts = true ->
  contains_ch ch_backslash (rfc_spell ts) = false.
Proof.
  induction ts as [|t ts IH]; intros H; [reflexivity|].
  simpl in H. apply andb_true_iff in H as [H1 H2].
  simpl rfc_spell. rewrite contains_ch_cons, contains_ch_app.
  rewrite escape_backslash. rewrite IH by assumption.
  apply negb_true_iff in H1. rewrite H1. reflexivity.
Qed.

(* ---------------------------------------------------------------------- *)
(* decimal digits *)

Definition dstep (acc : Z) (c : N) : Z := 10 * acc + digit_val c.

Lemma dec_value_fold s : dec_value s = fold_left dstep s 0.
Proof. reflexivity. Qed.

Lemma digit_val_bounds c : is_ascii_digit c = true -> 0 <= digit_val c <= 9.
Proof. intros H. apply digit_bounds in H. unfold digit_val. lia. Qed.

Lemma digit_ch_val c : is_ascii_digit c = true -> digit_ch (digit_val c) = c.
Proof. intros H. apply digit_bounds in H. unfold digit_ch, digit_val. lia. Qed.

Lemma digit_val_ch d : 0 <= d <= 9 -> digit_val (digit_ch d) = d.
Proof. intros H. unfold digit_ch, digit_val. lia. Qed.

Lemma digit_ch_digit d : 0 <= d <= 9 -> is_ascii_digit (digit_ch d) = true.
Proof. intros H. apply digit_of_bounds. unfold digit_ch. lia. Qed.

Lemma digit_ch_nonzero d : 0 < d <= 9 -> N.eqb (digit_ch d) 48 = false.
Proof. intros H. apply N.eqb_neq. unfold digit_ch. lia. Qed.

Lemma digit_val_pos c : is_ascii_digit c = true -> N.eqb c 48 = false -> 0 < digit_val c.
Proof.
  intros H1 H2. apply digit_bounds in H1. apply N.eqb_neq in H2. unfold digit_val. lia.
Qed.

Lemma fold_dstep_ge s : forall a, 0 <= a -> forallb is_ascii_digit s = true -> a <= fold_left dstep s a.
Proof.
  induction s as [|c s IH]; intros a Ha Hs; simpl; [lia|].
  simpl in Hs. apply andb_true_iff in Hs as [Hc Hs].
  pose proof (digit_val_bounds c Hc) as Hb.
  assert (H : 0 <= dstep a c) by (unfold dstep; lia).
  specialize (IH _ H Hs). unfold dstep in *. lia.
Qed.

Lemma dec_value_nonneg s : forallb is_ascii_digit s = true -> 0 <= dec_value s.
Proof. intros H. rewrite dec_value_fold. apply fold_dstep_ge; [lia|assumption]. Qed.

Lemma dec_value_app1 s c : dec_value (s ++ [c]) = 10 * dec_value s + digit_val c.
Proof. unfold dec_value. rewrite fold_left_app. reflexivity. Qed.

(* the shape of canonical strings *)
Definition canon (s : ustr) : Prop :=
  s <> [] /\ forallb is_ascii_digit s = true /\ ((1 < length s)%nat -> N.eqb (hd 0%N s) 48 = false).

Lemma canonical_canon s : canonical_nonneg s = true <-> canon s.
Proof.
  unfold canon. destruct s as [|c [|d r]].
  - simpl. split; [discriminate|]. intros [H _]. contradiction.
  - simpl. rewrite andb_true_r. split.
    + intros H. split; [discriminate|]. split; [assumption|]. intros Hl. lia.
    + intros [_ [H _]]. assumption.
  - change (canonical_nonneg (c :: d :: r))
      with (is_ascii_digit c && negb (N.eqb c 48) && forallb is_ascii_digit (c :: d :: r)).
    split.
    + intros H. apply andb_true_iff in H as [H H3]. apply andb_true_iff in H as [H1 H2].
      split; [discriminate|]. split; [assumption|]. intros _. simpl.
      apply negb_true_iff in H2. assumption.
    + intros [_ [H3 H2]]. simpl length in H2. simpl hd in H2.
      rewrite H3. rewrite H2 by lia.
      simpl in H3. apply andb_true_iff in H3 as [H1 _]. rewrite H1. reflexivity.
Qed.

Lemma canon_digits s : canonical_nonneg s = true -> forallb is_ascii_digit s = true.
Proof. intros H. apply canonical_canon in H. apply H. Qed.

Lemma dec_value_pos s :
  s <> [] -> forallb is_ascii_digit s = true -> N.eqb (hd 0%N s) 48 = false -> 0 < dec_value s.
Proof.
  intros Hne Hd Hh. destruct s as [|c s]; [contradiction|].
  simpl in Hd. apply andb_true_iff in Hd as [Hc Hs]. simpl in Hh.
  pose proof (digit_val_pos c Hc Hh) as Hp.
  rewrite dec_value_fold. simpl fold_left.
  assert (H0 : 0 <= dstep 0 c) by (unfold dstep; lia).
  pose proof (fold_dstep_ge s _ H0 Hs) as Hge. unfold dstep in *. lia.
Qed.

Lemma dec_digits_fuel_S f n acc :
  dec_digits_fuel (S f) n acc =
  if Z.ltb n 10 then digit_ch n :: acc
  else dec_digits_fuel f (n / 10) (digit_ch (n mod 10) :: acc).
Proof. reflexivity. Qed.

(* printing then reading *)
Lemma dec_digits_value f :
  forall n acc, 0 <= n < 2 ^ Z.of_nat f ->
    fold_left dstep (dec_digits_fuel f n acc) 0 = fold_left dstep acc n.
Proof.
  induction f as [|f IH]; intros n acc Hn.
  - simpl in Hn. assert (n = 0) by lia. subst n. reflexivity.
  - rewrite Nat2Z.inj_succ, Z.pow_succ_r in Hn by lia.
    simpl dec_digits_fuel. destruct (Z.ltb n 10) eqn:E.
    + apply Z.ltb_lt in E. simpl fold_left. unfold dstep at 2.
      rewrite digit_val_ch by lia. f_equal.
    + apply Z.ltb_ge in E. rewrite IH.
      * simpl fold_left. unfold dstep at 2.
        pose proof (Z.mod_pos_bound n 10) as Hm.
        rewrite digit_val_ch by lia.
        f_equal. pose proof (Z.div_mod n 10). lia.
      * split; [apply Z.div_pos; lia|]. apply Z.div_lt_upper_bound; lia.
Qed.

Lemma log2_fuel n : 0 <= n -> n < 2 ^ Z.of_nat (S (Z.to_nat (Z.log2 n))).
Proof.
  intros Hn. pose proof (Z.log2_nonneg n) as Hl.
  rewrite Nat2Z.inj_succ, Z2Nat.id by assumption.
  destruct (Z.eq_dec n 0) as [->|Hne].
  - simpl. lia.
  - apply Z.log2_spec. lia.
Qed.

Lemma dec_value_of_nonneg n : 0 <= n -> dec_value (dec_of_nonneg n) = n.
Proof.
  intros Hn. unfold dec_of_nonneg. rewrite dec_value_fold.
  rewrite dec_digits_value; [reflexivity|]. split; [assumption|apply log2_fuel; assumption].
Qed.

Lemma dec_digits_canonical f :
  forall n acc, 0 <= n < 2 ^ Z.of_nat f -> forallb is_ascii_digit acc = true ->
    (0 < n \/ (acc = [] /\ f <> O)) ->
    canonical_nonneg (dec_digits_fuel f n acc) = true.
Proof.
  induction f as [|f IH]; intros n acc Hn Hacc Hor.
  - simpl in Hn. lia.
  - rewrite Nat2Z.inj_succ, Z.pow_succ_r in Hn by lia.
    simpl dec_digits_fuel. destruct (Z.ltb n 10) eqn:E.
    + apply Z.ltb_lt in E. apply canonical_canon. split; [discriminate|]. split.
      * simpl. rewrite digit_ch_digit by lia. assumption.
      * intros Hl. simpl hd. destruct Hor as [Hpos|[Hnil _]].
        -- apply digit_ch_nonzero. lia.
        -- subst acc. simpl in Hl. lia.
    + apply Z.ltb_ge in E. apply IH.
      * split; [apply Z.div_pos; lia|]. apply Z.div_lt_upper_bound; lia.
      * simpl. pose proof (Z.mod_pos_bound n 10) as Hm. rewrite digit_ch_digit by lia. assumption.
      * left. apply Z.div_str_pos. lia.
Qed.

Lemma canonical_dec_of_nonneg n : 0 <= n -> canonical_nonneg (dec_of_nonneg n) = true.
Proof.
  intros Hn. unfold dec_of_nonneg. apply dec_digits_canonical.
  - split; [assumption|apply log2_fuel; assumption].
  - reflexivity.
  - right. split; [reflexivity|discriminate].
Qed.

(* reading then printing *)
Lemma dec_digits_of_value s :
  s <> [] -> forallb is_ascii_digit s = true ->
  ((1 < length s)%nat -> N.eqb (hd 0%N s) 48 = false) ->
  forall f acc, f <> O -> dec_value s < 2 ^ Z.of_nat f ->
    dec_digits_fuel f (dec_value s) acc = s ++ acc.
Proof.
  induction s as [|c s0 IH] using rev_ind; intros Hne Hd Hh f acc Hf Hlt; [contradiction|].
  rewrite forallb_app in Hd. apply andb_true_iff in Hd as [Hd0 Hc].
  simpl in Hc. rewrite andb_true_r in Hc.
  pose proof (digit_val_bounds c Hc) as Hb.
  rewrite dec_value_app1 in *.
  destruct f as [|f]; [contradiction|].
  rewrite Nat2Z.inj_succ, Z.pow_succ_r in Hlt by lia.
  destruct s0 as [|c0 r0].
  - change (dec_value []) with 0 in *.
    replace (10 * 0 + digit_val c) with (digit_val c) by lia.
    rewrite dec_digits_fuel_S.
    replace (Z.ltb (digit_val c) 10) with true by (symmetry; apply Z.ltb_lt; lia).
    rewrite digit_ch_val by assumption. reflexivity.
  - assert (Hh0 : N.eqb (hd 0%N (c0 :: r0)) 48 = false).
    { simpl. simpl in Hh. apply Hh. rewrite app_length. simpl. lia. }
    assert (Hpos : 0 < dec_value (c0 :: r0)) by (apply dec_value_pos; [discriminate|assumption|assumption]).
    rewrite dec_digits_fuel_S.
    replace (Z.ltb (10 * dec_value (c0 :: r0) + digit_val c) 10) with false
      by (symmetry; apply Z.ltb_ge; lia).
    replace ((10 * dec_value (c0 :: r0) + digit_val c) / 10) with (dec_value (c0 :: r0)).
    2:{ symmetry. rewrite Z.mul_comm. rewrite Z.div_add_l by lia.
        rewrite Z.div_small by lia. lia. }
    replace ((10 * dec_value (c0 :: r0) + digit_val c) mod 10) with (digit_val c).
    2:{ symmetry. rewrite Z.add_comm, Z.mul_comm. rewrite Z.mod_add by lia.
        apply Z.mod_small. lia. }
    rewrite digit_ch_val by assumption.
    rewrite IH.
    + rewrite <- app_assoc. reflexivity.
    + discriminate.
    + assumption.
    + intros _. assumption.
    + intros ->. change (2 ^ Z.of_nat 0) with 1 in Hlt. lia.
    + lia.
Qed.

Lemma dec_of_nonneg_value s : canonical_nonneg s = true -> dec_of_nonneg (dec_value s) = s.
Proof.
  intros H. apply canonical_canon in H as [Hne [Hd Hh]].
  unfold dec_of_nonneg. rewrite dec_digits_of_value; try assumption.
  - apply app_nil_r.
  - discriminate.
  - apply log2_fuel. apply dec_value_nonneg. assumption.
Qed.

(* str_of_Z *)
Lemma str_of_Z_nonneg n : 0 <= n -> str_of_Z n = dec_of_nonneg n.
Proof. intros H. unfold str_of_Z. replace (Z.ltb n 0) with false; [reflexivity|]. symmetry. apply Z.ltb_ge. lia. Qed.

Lemma str_of_Z_neg n : n < 0 -> str_of_Z n = ch_minus :: dec_of_nonneg (- n).
Proof. intros H. unfold str_of_Z. replace (Z.ltb n 0) with true; [reflexivity|]. symmetry. apply Z.ltb_lt. lia. Qed.

Lemma str_of_Z_dec_value s : canonical_nonneg s = true -> str_of_Z (dec_value s) = s.
Proof.
  intros H. rewrite str_of_Z_nonneg.
  - apply dec_of_nonneg_value. assumption.
  - apply dec_value_nonneg. apply canon_digits. assumption.
Qed.

Lemma canonical_str_of_Z n : 0 <= n -> canonical_nonneg (str_of_Z n) = true.
Proof. intros H. rewrite str_of_Z_nonneg by assumption. apply canonical_dec_of_nonneg. assumption. Qed.

Lemma dec_value_str_of_Z n : 0 <= n -> dec_value (str_of_Z n) = n.
Proof. intros H. rewrite str_of_Z_nonneg by assumption. apply dec_value_of_nonneg. assumption. Qed.

Lemma canonical_not_minus s : canonical_nonneg s = true -> starts_with_ch ch_minus s = false.
Proof.
  intros H. apply canonical_canon in H as [Hne [Hd _]].
  destruct s as [|c s]; [reflexivity|]. simpl in Hd. apply andb_true_iff in Hd as [Hc _].
  apply digit_bounds in Hc. simpl. apply N.eqb_neq. unfold ch_minus. lia.
Qed.

Lemma str_of_Z_canonical_nonneg z : canonical_nonneg (str_of_Z z) = true -> 0 <= z.
Proof.
  intros H. destruct (Z_lt_le_dec z 0) as [Hlt|Hge]; [|assumption].
  rewrite str_of_Z_neg in H by assumption. apply canonical_not_minus in H.
  simpl in H. discriminate.
Qed.

(* ---------------------------------------------------------------------- *)
(* RE_INDEX *)

Lemma canonical_cons2 c d r :
  canonical_nonneg (c :: d :: r) =
  is_ascii_digit c && negb (N.eqb c 48) && forallb is_ascii_digit (c :: d :: r).
Proof. reflexivity. Qed.

Lemma re_index_cons2 c d r :
  re_index_match (c :: d :: r) =
  if N.eqb c ch_minus
  then is_ascii_digit d && negb (N.eqb d 48) && forallb is_ascii_digit (d :: r)
  else is_ascii_digit c && negb (N.eqb c 48) && forallb is_ascii_digit (c :: d :: r).
Proof. reflexivity. Qed.

Lemma digit_not_minus c : is_ascii_digit c = true -> N.eqb c ch_minus = false.
Proof. intros H. apply digit_bounds in H. apply N.eqb_neq. unfold ch_minus. lia. Qed.

Lemma re_index_cases t :
  re_index_match t = true ->
  (canonical_nonneg t = true /\ int_of_index_text t = dec_value t) \/
  (exists r, t = ch_minus :: r /\ canonical_nonneg r = true /\ 0 < dec_value r /\
             int_of_index_text t = - dec_value r).
Proof.
  intros H. destruct t as [|c [|d r]].
  - discriminate.
  - left. simpl in H. split; [exact H|]. unfold int_of_index_text.
    rewrite digit_not_minus by assumption. reflexivity.
  - rewrite re_index_cons2 in H. destruct (N.eqb c ch_minus) eqn:E.
    + right. apply N.eqb_eq in E. subst c. exists (d :: r).
      apply andb_true_iff in H as [H H3]. apply andb_true_iff in H as [H1 H2].
      apply negb_true_iff in H2.
      split; [reflexivity|]. split; [|split].
      * apply canonical_canon. split; [discriminate|]. split; [assumption|]. intros _. exact H2.
      * apply dec_value_pos; [discriminate|assumption|exact H2].
      * reflexivity.
    + left. split.
      * rewrite canonical_cons2. exact H.
      * unfold int_of_index_text. rewrite E. reflexivity.
Qed.

Lemma canonical_re_index t : canonical_nonneg t = true -> re_index_match t = true.
Proof.
  intros H. destruct t as [|c [|d r]].
  - discriminate.
  - exact H.
  - rewrite re_index_cons2. rewrite canonical_cons2 in H.
    assert (Hc : is_ascii_digit c = true).
    { apply andb_true_iff in H as [H _]. apply andb_true_iff in H as [H _]. exact H. }
    rewrite digit_not_minus by assumption. exact H.
Qed.

Lemma canonical_int_of_index_text t :
  canonical_nonneg t = true -> int_of_index_text t = dec_value t.
Proof.
  intros H. pose proof (canon_digits t H) as Hd.
  destruct t as [|c t]; [discriminate|].
  simpl in Hd. apply andb_true_iff in Hd as [Hc _].
  unfold int_of_index_text. rewrite digit_not_minus by assumption. reflexivity.
Qed.

Lemma str_of_Z_int_of_index_text t :
  re_index_match t = true -> str_of_Z (int_of_index_text t) = t.
Proof.
  intros H. apply re_index_cases in H as [[Hc He]|[r [Ht [Hc [Hp He]]]]].
  - rewrite He. apply str_of_Z_dec_value. assumption.
  - rewrite He. rewrite str_of_Z_neg by lia. rewrite Z.opp_involutive.
    rewrite dec_of_nonneg_value by assumption. symmetry. assumption.
Qed.

(* canonical strings do not have the "leading zero, length > 1" shape *)
Lemma canonical_no_leading_zero t :
  canonical_nonneg t = true -> Nat.ltb 1 (length t) && starts_with_ch ch_0 t = false.
Proof.
  intros H. apply canonical_canon in H as [Hne [Hd Hh]].
  destruct (Nat.ltb 1 (length t)) eqn:E; [|reflexivity].
  apply Nat.ltb_lt in E. specialize (Hh E).
  destruct t as [|c t]; [contradiction|]. simpl in *. exact Hh.
Qed.

(* ---------------------------------------------------------------------- *)
(* int(str) on canonical ASCII digit strings *)

Lemma digits_underscores_digits s :
  forall b acc, forallb is_ascii_digit s = true -> s <> [] ->
    digits_underscores s b acc = Some (fold_left dstep s acc).
Proof.
  induction s as [|c s IH]; intros b acc Hd Hne; [contradiction|].
  simpl in Hd. apply andb_true_iff in Hd as [Hc Hs].
  simpl digits_underscores. rewrite Hc.
  destruct s as [|d s].
  - reflexivity.
  - rewrite IH; [reflexivity|assumption|discriminate].
Qed.

Lemma lstrip_digits s : forallb is_ascii_digit s = true -> lstrip s = s.
Proof.
  intros H. destruct s as [|c s]; [reflexivity|].
  simpl in H. apply andb_true_iff in H as [Hc _].
  apply lstrip_nonspace. apply isspace_digit. assumption.
Qed.

Lemma forallb_rev {A} (f : A -> bool) l : forallb f (rev l) = forallb f l.
Proof.
  induction l as [|x l IH]; [reflexivity|].
  simpl. rewrite forallb_app. simpl. rewrite IH. rewrite andb_true_r. apply andb_comm.
Qed.

Lemma strip_digits s : forallb is_ascii_digit s = true -> strip s = s.
Proof.
  intros H. unfold strip, rstrip. rewrite (lstrip_digits s) by assumption.
  rewrite lstrip_digits by (rewrite forallb_rev; assumption). apply rev_involutive.
Qed.

Lemma is_ascii_digits s : forallb is_ascii_digit s = true -> is_ascii s = true.
Proof.
  intros H. unfold is_ascii. rewrite forallb_forall in *. intros c Hc.
  specialize (H c Hc). apply digit_bounds in H. apply N.ltb_lt. lia.
Qed.

Lemma py_int_canonical t :
  canonical_nonneg t = true -> py_int t = Some (Some (dec_value t)).
Proof.
  intros H. pose proof (canon_digits t H) as Hd.
  unfold py_int. rewrite is_ascii_digits by assumption. simpl negb. cbv iota.
  rewrite strip_digits by assumption.
  destruct t as [|c t]; [discriminate|].
  assert (Hc : is_ascii_digit c = true) by (simpl in Hd; apply andb_true_iff in Hd as [Hc _]; exact Hc).
  rewrite digit_not_minus by assumption.
  replace (N.eqb c ch_plus) with false.
  2:{ symmetry. apply digit_bounds in Hc. apply N.eqb_neq. unfold ch_plus. lia. }
  rewrite digits_underscores_digits; [reflexivity|assumption|discriminate].
Qed.
