(* ShParseDefs.v — the normal form the parser returns for the shorthand token printer of
   spec/FreeSpell.v ([snorm]: like TokPrint.norm, but a shorthand segment stays a [GSel]), the
   defining equations of that printer, and what the parser's checks see of [snorm].
   (The equations and the snorm lemmas are the ones of TokPrintEqns.v / ReparseLemmas.v, restated.) *)
From Coq Require Import ZArith List Bool Lia.
From JP Require Import Base Json PyStr PyJsonStr Syntax Lex Parse Serialize TokPrint Printable Gate Reparsable
                       TokensOk FreeSpell.
From JP Require Import ParseEqns GateLemmas ParseSpec ReparseLemmas TokPrintEqns.
Import ListNotations.

Fixpoint snorm_expr (e : fexpr) : fexpr :=
  match e with
  | FList items => FList (snorm_exprs items)
  | FNot r => FNot (snorm_expr r)
  | FInfix l o r => FInfix (snorm_expr l) o (snorm_expr r)
  | FSelf p => FSelf (snorm_segs p)
  | FRoot f p => FRoot f (snorm_segs p)
  | FCtx p => FCtx (snorm_segs p)
  | FFunc n args => FFunc n (snorm_exprs args)
  | FFloat n =>
      match float_repr n with
      | Ok t => match parse_float_literal t with Ok e' => e' | Err _ => e end
      | Err _ => e
      end
  | _ => e
  end
with snorm_exprs (es : fexprs) : fexprs :=
  match es with ENil => ENil | ECons e r => ECons (snorm_expr e) (snorm_exprs r) end
with snorm_sel (s : selector) : selector :=
  match s with
  | SFilter e => SFilter (snorm_expr e)
  | SSlice a b None => SSlice a b (Some 1%Z)
  | _ => s
  end
with snorm_sels (l : sels) : sels :=
  match l with LNil => LNil | LCons s r => LCons (snorm_sel s) (snorm_sels r) end
with snorm_seg (g : segment) : segment :=
  match g with
  | GSel s => if short_form s then GSel s else GList (LCons (snorm_sel s) LNil)
  | GDescent => GDescent
  | GList items => GList (snorm_sels items)
  end
with snorm_segs (p : segs) : segs :=
  match p with PNil => PNil | PCons g r => PCons (snorm_seg g) (snorm_segs r) end.

Definition snorm_path (p : jpath) : jpath := mkPath (p_fake p) (snorm_segs (p_segs p)).
Definition snorm_query (q : query) : query :=
  mkQuery (snorm_path (q_first q)) (map (fun op => (fst op, snorm_path (snd op))) (q_rest q)).

Section Eqns.
  Variable E : env.
  Notation sh_expr_toks := (FreeSpell.sh_expr_toks E).
  Notation sh_exprs_toks := (FreeSpell.sh_exprs_toks E).
  Notation sh_canon_toks := (FreeSpell.sh_canon_toks E).
  Notation sh_sel_toks := (FreeSpell.sh_sel_toks E).
  Notation sh_sels_toks := (FreeSpell.sh_sels_toks E).
  Notation sh_seg_toks := (FreeSpell.sh_seg_toks E).
  Notation sh_segs_toks := (FreeSpell.sh_segs_toks E).


  Lemma sh_expr_toks_not r :
    sh_expr_toks (FNot r) = (x <- sh_expr_toks r ;; Ok (not_tok :: wrap_toks r x)).
  Proof. reflexivity. Qed.
  Lemma sh_expr_toks_infix l o r :
    sh_expr_toks (FInfix l o r) =
    (a <- sh_expr_toks l ;; b <- sh_expr_toks r ;;
     Ok (if is_logical o then lparen :: (a ++ op_token o :: b) ++ [rparen]
         else wrap_toks l a ++ op_token o :: wrap_toks r b)).
  Proof. reflexivity. Qed.
  Lemma sh_expr_toks_list items :
    sh_expr_toks (FList items) =
    (xs <- sh_exprs_toks items ;; Ok (lbracket :: sep_by [comma] xs ++ [rbracket])).
  Proof. reflexivity. Qed.
  Lemma sh_expr_toks_self p :
    sh_expr_toks (FSelf p) = (x <- sh_segs_toks p ;; Ok (mkTok TSelf (e_self E) :: x)).
  Proof. reflexivity. Qed.
  Lemma sh_expr_toks_root fake p :
    sh_expr_toks (FRoot fake p) =
    (x <- sh_segs_toks p ;;
     Ok ((if fake then mkTok TFakeRoot (e_fake_root E) else mkTok TRoot (e_root E)) :: x)).
  Proof. reflexivity. Qed.
  Lemma sh_expr_toks_ctx p :
    sh_expr_toks (FCtx p) = (x <- sh_segs_toks p ;; Ok (mkTok TFilterCtx (e_filter_context E) :: x)).
  Proof. reflexivity. Qed.
  Lemma sh_expr_toks_func name args :
    sh_expr_toks (FFunc name args) =
    (xs <- sh_exprs_toks args ;; Ok (mkTok TFunction name :: sep_by [comma] xs ++ [rparen])).
  Proof. reflexivity. Qed.
  Lemma sh_exprs_toks_cons e r :
    sh_exprs_toks (ECons e r) = (x <- sh_expr_toks e ;; xs <- sh_exprs_toks r ;; Ok (x :: xs)).
  Proof. reflexivity. Qed.

  (* sh_canon_toks on everything that is not a prefix or infix expression is sh_expr_toks *)
  Lemma sh_canon_toks_atom e parent :
    match e with FNot _ | FInfix _ _ _ => True | _ => sh_canon_toks e parent = sh_expr_toks e end.
  Proof. destruct e; try exact I; reflexivity. Qed.

  Lemma sh_canon_toks_not r parent :
    sh_canon_toks (FNot r) parent =
    (a <- sh_canon_toks r 7 ;;
     Ok (if Nat.ltb 7 parent then lparen :: (not_tok :: a) ++ [rparen] else not_tok :: a)).
  Proof. reflexivity. Qed.
  Lemma sh_canon_toks_and l r parent :
    sh_canon_toks (FInfix l BAnd r) parent =
    (a <- sh_canon_toks l 4 ;; b <- sh_canon_toks r 4 ;;
     Ok (if Nat.leb 4 parent then lparen :: (a ++ op_token BAnd :: b) ++ [rparen] else a ++ op_token BAnd :: b)).
  Proof. reflexivity. Qed.
  Lemma sh_canon_toks_or l r parent :
    sh_canon_toks (FInfix l BOr r) parent =
    (a <- sh_canon_toks l 3 ;; b <- sh_canon_toks r 3 ;;
     Ok (if Nat.leb 3 parent then lparen :: (a ++ op_token BOr :: b) ++ [rparen] else a ++ op_token BOr :: b)).
  Proof. reflexivity. Qed.
  Lemma sh_canon_toks_cmp l o r parent : is_logical o = false ->
    sh_canon_toks (FInfix l o r) parent =
    (a <- sh_expr_toks l ;; b <- sh_expr_toks r ;;
     Ok (if Nat.leb 7 parent
         then lparen :: (wrap_toks l a ++ op_token o :: wrap_toks r b) ++ [rparen]
         else wrap_toks l a ++ op_token o :: wrap_toks r b)).
  Proof. destruct o; intros H; try discriminate H; reflexivity. Qed.

  Lemma sh_sel_toks_filter e : sh_sel_toks (SFilter e) = (x <- sh_canon_toks e 1 ;; Ok (mkTok TFilter [63%N] :: x)).
  Proof. reflexivity. Qed.
  Lemma sh_sels_toks_cons s r :
    sh_sels_toks (LCons s r) = (x <- sh_sel_toks s ;; xs <- sh_sels_toks r ;; Ok (x :: xs)).
  Proof. reflexivity. Qed.
  Lemma sh_seg_toks_list items :
    sh_seg_toks (GList items) = (xs <- sh_sels_toks items ;; Ok (lbracket :: sep_by [comma] xs ++ [rbracket])).
  Proof. reflexivity. Qed.
  Lemma sh_seg_toks_sel s :
    sh_seg_toks (GSel s) =
    match s with
    | SName k => Ok (tk1 TProperty k)
    | SWild => Ok (tk1 TWild [42%N])
    | SKeys => Ok (tk1 TKeys (e_keys E))
    | SSlice _ _ _ => x <- sh_sel_toks s ;; Ok (lbracket :: x ++ [rbracket])
    | _ => sh_sel_toks s
    end.
  Proof. destruct s; reflexivity. Qed.
  Lemma sh_segs_toks_cons g r :
    sh_segs_toks (PCons g r) = (x <- sh_seg_toks g ;; xs <- sh_segs_toks r ;; Ok (x ++ xs)).
  Proof. reflexivity. Qed.
End Eqns.

Lemma snorm_float n : exists n', snorm_expr (FFloat n) = FFloat n'.
Proof.
  cbn [snorm_expr]. destruct (float_repr n) as [t|]; [|eauto].
  destruct (parse_float_literal t) as [e|] eqn:H; [|eauto]. exact (parse_float_literal_float t e H).
Qed.

(* ---- normalisation: equations and what the checks see ------------------------------------- *)

Lemma snorm_expr_list items : snorm_expr (FList items) = FList (snorm_exprs items).
Proof. reflexivity. Qed.
Lemma snorm_expr_func n args : snorm_expr (FFunc n args) = FFunc n (snorm_exprs args).
Proof. reflexivity. Qed.
Lemma snorm_expr_self p : snorm_expr (FSelf p) = FSelf (snorm_segs p).
Proof. reflexivity. Qed.
Lemma snorm_expr_root b p : snorm_expr (FRoot b p) = FRoot b (snorm_segs p).
Proof. reflexivity. Qed.
Lemma snorm_expr_ctx p : snorm_expr (FCtx p) = FCtx (snorm_segs p).
Proof. reflexivity. Qed.
Lemma snorm_exprs_cons e r : snorm_exprs (ECons e r) = ECons (snorm_expr e) (snorm_exprs r).
Proof. reflexivity. Qed.
Lemma snorm_sel_filter e : snorm_sel (SFilter e) = SFilter (snorm_expr e).
Proof. reflexivity. Qed.
Lemma snorm_sels_cons s r : snorm_sels (LCons s r) = LCons (snorm_sel s) (snorm_sels r).
Proof. reflexivity. Qed.
Lemma snorm_seg_list items : snorm_seg (GList items) = GList (snorm_sels items).
Proof. reflexivity. Qed.
Lemma snorm_segs_cons g r : snorm_segs (PCons g r) = PCons (snorm_seg g) (snorm_segs r).
Proof. reflexivity. Qed.

Lemma singular_snorm p : g_singular (snorm_segs p) = g_singular p.
Proof.
  induction p as [|g r IH]; [reflexivity|]. rewrite snorm_segs_cons.
  destruct g as [[]| |[|[] []]]; cbn [snorm_seg snorm_sel snorm_sels g_singular]; try reflexivity; try exact IH;
    match goal with |- context [match ?c with Some _ => _ | None => _ end] => destruct c end; reflexivity.
Qed.

Lemma is_query_snorm e : g_is_query (snorm_expr e) = g_is_query e.
Proof. destruct e; try reflexivity. destruct (snorm_float n) as [n' ->]. reflexivity. Qed.

Lemma query_segs_snorm e : g_query_segs (snorm_expr e) = snorm_segs (g_query_segs e).
Proof. destruct e; try reflexivity. destruct (snorm_float n) as [n' ->]. reflexivity. Qed.

Lemma returns_snorm e : g_returns (snorm_expr e) = g_returns e.
Proof. destruct e; try reflexivity. destruct (snorm_float n) as [n' ->]. reflexivity. Qed.

Lemma is_literal_snorm e : g_is_literal (snorm_expr e) = g_is_literal e.
Proof. destruct e; try reflexivity. destruct (snorm_float n) as [n' ->]. reflexivity. Qed.

Lemma comparable_snorm e : g_comparable (snorm_expr e) = g_comparable e.
Proof. unfold g_comparable. rewrite is_query_snorm, query_segs_snorm, singular_snorm, returns_snorm. reflexivity. Qed.

Lemma testable_snorm e : g_testable (snorm_expr e) = g_testable e.
Proof. unfold g_testable. rewrite returns_snorm, is_literal_snorm. reflexivity. Qed.

Lemma arg_ok_snorm t e : g_arg_ok t (snorm_expr e) = g_arg_ok t e.
Proof.
  unfold g_arg_ok. rewrite is_query_snorm, query_segs_snorm, singular_snorm, returns_snorm.
  destruct t; try reflexivity.
  - f_equal. f_equal. destruct e; try reflexivity. destruct (snorm_float n) as [n' ->]. reflexivity.
  - f_equal. destruct e; try reflexivity. destruct (snorm_float n) as [n' ->]. reflexivity.
Qed.

Lemma fexprs_list_snorm es : fexprs_list (snorm_exprs es) = map snorm_expr (fexprs_list es).
Proof. induction es as [|e r IH]; [reflexivity|]. rewrite snorm_exprs_cons. cbn [fexprs_list map]. rewrite IH. reflexivity. Qed.

Lemma args_ok_snorm ts l : g_args_ok ts (map snorm_expr l) = g_args_ok ts l.
Proof.
  revert l. induction ts as [|t ts IH]; intros [|a l]; try reflexivity.
  cbn [map g_args_ok]. rewrite arg_ok_snorm, IH. reflexivity.
Qed.
