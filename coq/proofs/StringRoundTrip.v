(* StringRoundTrip.v — the text between the quotes of canonical_string (rt/PyJsonStr.v) is read
   back by the parser's string decoding (single-quote preprocessing, then json.loads). *)
From Coq Require Import ZArith NArith List Bool Lia.
From JP Require Import Base PyStr PyJsonStr PyStrLemmas.
Import ListNotations.
Local Open Scope N_scope.

(* ---- replace1 / replace2 ---------------------------------------------------------------- *)

Lemma replace1_nil a r : replace1 a r [] = [].
Proof. reflexivity. Qed.

Lemma replace1_eq a r s : replace1 a r (a :: s) = r ++ replace1 a r s.
Proof. cbn [replace1]. rewrite N.eqb_refl. reflexivity. Qed.

Lemma replace1_ne a r x s : N.eqb x a = false -> replace1 a r (x :: s) = x :: replace1 a r s.
Proof. intros H. cbn [replace1]. rewrite H. reflexivity. Qed.

Lemma replace1_app a r x y : replace1 a r (x ++ y) = replace1 a r x ++ replace1 a r y.
Proof.
  induction x as [|c x IH]; [reflexivity|]. cbn [app replace1].
  destruct (N.eqb c a); rewrite IH; [rewrite app_assoc|]; reflexivity.
Qed.

(* after  b -> a b , the text never starts with b *)
Lemma replace1_head a b x : N.eqb a b = false ->
  match replace1 b [a; b] x with y :: _ => N.eqb y b = false | [] => True end.
Proof.
  intros Hab. destruct x as [|c x]; [exact I|]. cbn [replace1].
  destruct (N.eqb c b) eqn:Hc; cbn [app]; assumption.
Qed.

(* a b -> b  undoes  b -> a b *)
Lemma unescape_escape1 a b x : N.eqb a b = false ->
  replace2 a b [b] (replace1 b [a; b] x) = x.
Proof.
  intros Hab. induction x as [|c x IH]; [reflexivity|].
  destruct (N.eqb c b) eqn:Hc.
  - apply N.eqb_eq in Hc. subst c. rewrite replace1_eq. cbn [app].
    rewrite replace2_eq2, !N.eqb_refl. cbn [andb app]. rewrite IH. reflexivity.
  - rewrite replace1_ne by exact Hc.
    pose proof (replace1_head a b x Hab) as Hh.
    destruct (replace1 b [a; b] x) as [|y s] eqn:Hr.
    + cbn [replace2] in IH |- *. rewrite <- IH. reflexivity.
    + rewrite replace2_eq2. rewrite Hh, andb_false_r. rewrite IH. reflexivity.
Qed.

Lemma replace1_comm z :
  replace1 34 [92; 34] (replace1 39 [92; 39] z) = replace1 39 [92; 39] (replace1 34 [92; 34] z).
Proof.
  induction z as [|c z IH]; [reflexivity|].
  destruct (N.eqb c 39) eqn:H39.
  - apply N.eqb_eq in H39. subst c.
    rewrite replace1_eq. cbn [app].
    rewrite (replace1_ne 34 _ 39) by reflexivity. rewrite replace1_eq. cbn [app].
    rewrite !(replace1_ne 34 _ 92) by reflexivity. rewrite (replace1_ne 34 _ 39) by reflexivity.
    rewrite IH. reflexivity.
  - rewrite (replace1_ne 39 _ c) by exact H39.
    destruct (N.eqb c 34) eqn:H34.
    + apply N.eqb_eq in H34. subst c. rewrite !replace1_eq. cbn [app].
      rewrite (replace1_ne 39 _ 92) by reflexivity. rewrite (replace1_ne 39 _ 34) by reflexivity.
      rewrite IH. reflexivity.
    + rewrite !(replace1_ne 34 _ c) by exact H34. rewrite (replace1_ne 39 _ c) by exact H39.
      rewrite IH. reflexivity.
Qed.

(* ---- dumps_body ------------------------------------------------------------------------------- *)

Lemma dumps_body_cons c s : dumps_body (c :: s) = dumps_char c ++ dumps_body s.
Proof. reflexivity. Qed.

Lemma hex_digit_cases n : n < 16 ->
  (48 <= hex_digit n <= 57 \/ 97 <= hex_digit n <= 102) /\ hex_val (hex_digit n) = Some n.
Proof.
  intros Hn. unfold hex_digit. destruct (N.ltb n 10) eqn:H10.
  - apply N.ltb_lt in H10. split; [left; lia|].
    unfold hex_val. rewrite (digit_of_bounds (48 + n)) by lia. f_equal. lia.
  - apply N.ltb_ge in H10. split; [right; lia|].
    unfold hex_val. unfold is_ascii_digit.
    replace (N.leb (87 + n) 57) with false by (symmetry; apply N.leb_gt; lia).
    rewrite andb_false_r.
    replace (N.leb 97 (87 + n)) with true by (symmetry; apply N.leb_le; lia).
    replace (N.leb (87 + n) 102) with true by (symmetry; apply N.leb_le; lia).
    cbn [andb]. f_equal. lia.
Qed.

(* the shapes json.dumps produces for one character *)
Inductive dshape (c : N) : ustr -> Prop :=
| ds_quote : c = 34 -> dshape c [92; 34]
| ds_back : c = 92 -> dshape c [92; 92]
| ds_simple e : In (c, e) [(10, 110); (13, 114); (9, 116); (8, 98); (12, 102)] -> dshape c [92; e]
| ds_hex h1 h2 : c < 32 -> hex_val h1 = Some (c / 16) -> hex_val h2 = Some (c mod 16) ->
                 (48 <= h1 <= 57 \/ 97 <= h1 <= 102) -> (48 <= h2 <= 57 \/ 97 <= h2 <= 102) ->
                 dshape c [92; 117; 48; 48; h1; h2]
| ds_plain : 32 <= c -> c <> 34 -> c <> 92 -> dshape c [c].

Lemma dumps_char_shape c : dshape c (dumps_char c).
Proof.
  unfold dumps_char.
  destruct (N.eqb c 34) eqn:H34; [apply ds_quote; apply N.eqb_eq; exact H34|].
  destruct (N.eqb c 92) eqn:H92; [apply ds_back; apply N.eqb_eq; exact H92|].
  destruct (N.eqb c 10) eqn:H10; [apply N.eqb_eq in H10; subst; apply ds_simple; cbn; tauto|].
  destruct (N.eqb c 13) eqn:H13; [apply N.eqb_eq in H13; subst; apply ds_simple; cbn; tauto|].
  destruct (N.eqb c 9) eqn:H9; [apply N.eqb_eq in H9; subst; apply ds_simple; cbn; tauto|].
  destruct (N.eqb c 8) eqn:H8; [apply N.eqb_eq in H8; subst; apply ds_simple; cbn; tauto|].
  destruct (N.eqb c 12) eqn:H12; [apply N.eqb_eq in H12; subst; apply ds_simple; cbn; tauto|].
  destruct (N.ltb c 32) eqn:H32.
  - apply N.ltb_lt in H32.
    assert (Hd : c / 16 < 16) by (apply N.div_lt_upper_bound; lia).
    assert (Hm : c mod 16 < 16) by (apply N.mod_lt; lia).
    destruct (hex_digit_cases _ Hd) as [Hr1 Hv1]. destruct (hex_digit_cases _ Hm) as [Hr2 Hv2].
    apply ds_hex; assumption.
  - apply N.ltb_ge in H32. apply N.eqb_neq in H34. apply N.eqb_neq in H92. apply ds_plain; assumption.
Qed.

(* a dumps body never starts with a bare double quote *)
Lemma dumps_body_head s : match dumps_body s with y :: _ => N.eqb y 34 = false | [] => True end.
Proof.
  destruct s as [|c s]; [exact I|]. rewrite dumps_body_cons.
  destruct (dumps_char_shape c) as [H|H|e H|h1 h2 H|H1 H2 H3]; cbn [app]; try reflexivity.
  apply N.eqb_neq. exact H2.
Qed.

Lemma replace2_a_head a b r y :
  match y with y0 :: _ => N.eqb y0 b = false | [] => True end ->
  replace2 a b r (a :: y) = a :: replace2 a b r y.
Proof.
  intros H. destruct y as [|y0 y']; [reflexivity|].
  rewrite replace2_eq2, H, andb_false_r. reflexivity.
Qed.

Ltac neq_dec := first [reflexivity | apply N.eqb_neq; lia].

(*  " -> \"  after  \" -> "  is the identity on a dumps body *)
Lemma requote_dumps s :
  replace1 34 [92; 34] (replace2 92 34 [34] (dumps_body s)) = dumps_body s.
Proof.
  induction s as [|c s IH]; [reflexivity|]. rewrite dumps_body_cons.
  pose proof (dumps_body_head s) as Hh.
  destruct (dumps_char_shape c) as [H|H|e H|h1 h2 Hc Hv1 Hv2 Hr1 Hr2|H1 H2 H3]; cbn [app].
  - rewrite replace2_eq2. cbn [N.eqb Pos.eqb andb app]. rewrite replace1_eq, IH. reflexivity.
  - rewrite replace2_eq2. cbn [N.eqb Pos.eqb andb].
    rewrite replace2_a_head by exact Hh.
    rewrite !(replace1_ne 34 _ 92) by reflexivity. rewrite IH. reflexivity.
  - assert (He : N.eqb e 34 = false /\ N.eqb e 92 = false).
    { cbn [In] in H. repeat (destruct H as [H|H]; [injection H as _ <-; split; reflexivity|]). contradiction H. }
    destruct He as [He1 He2].
    rewrite replace2_eq2, He1, andb_false_r. rewrite (replace2_cons_ne 92 34 _ e) by exact He2.
    rewrite (replace1_ne 34 _ 92) by reflexivity. rewrite (replace1_ne 34 _ e) by exact He1.
    rewrite IH. reflexivity.
  - rewrite replace2_eq2. cbn [N.eqb Pos.eqb andb].
    rewrite (replace2_cons_ne 92 34 _ 117) by reflexivity.
    rewrite !(replace2_cons_ne 92 34 _ 48) by reflexivity.
    rewrite (replace2_cons_ne 92 34 _ h1) by (apply N.eqb_neq; lia).
    rewrite (replace2_cons_ne 92 34 _ h2) by (apply N.eqb_neq; lia).
    rewrite (replace1_ne 34 _ 92) by reflexivity. rewrite (replace1_ne 34 _ 117) by reflexivity.
    rewrite !(replace1_ne 34 _ 48) by reflexivity.
    rewrite (replace1_ne 34 _ h1) by (apply N.eqb_neq; lia).
    rewrite (replace1_ne 34 _ h2) by (apply N.eqb_neq; lia).
    rewrite IH. reflexivity.
  - rewrite (replace2_cons_ne 92 34 _ c) by (apply N.eqb_neq; exact H3).
    rewrite (replace1_ne 34 _ c) by (apply N.eqb_neq; exact H2). rewrite IH. reflexivity.
Qed.

(* json.loads reads a dumps body back *)
Lemma loads_dumps s : forall fuel, (length (dumps_body s) < fuel)%nat -> loads_body fuel (dumps_body s) = Some s.
Proof.
  induction s as [|c s IH]; intros fuel Hf.
  - destruct fuel; [inversion Hf|reflexivity].
  - rewrite dumps_body_cons in Hf |- *. rewrite app_length in Hf.
    destruct fuel as [|f]; [inversion Hf|].
    destruct (dumps_char_shape c) as [H|H|e H|h1 h2 Hc Hv1 Hv2 Hr1 Hr2|H1 H2 H3]; cbn [app length] in Hf |- *.
    + subst c. cbn [loads_body N.eqb Pos.eqb N.ltb N.compare Pos.compare Pos.compare_cont].
      rewrite IH by lia. reflexivity.
    + subst c. cbn [loads_body N.eqb Pos.eqb N.ltb N.compare Pos.compare Pos.compare_cont].
      rewrite IH by lia. reflexivity.
    + cbn [In] in H.
      repeat (destruct H as [H|H];
              [injection H as <- <-; cbn [loads_body N.eqb Pos.eqb N.ltb N.compare Pos.compare Pos.compare_cont];
               rewrite IH by lia; reflexivity|]).
      contradiction H.
    + cbn [loads_body N.eqb Pos.eqb N.ltb N.compare Pos.compare Pos.compare_cont].
      unfold hex4. change (hex_val 48) with (Some 0). rewrite Hv1, Hv2.
      assert (Hval : 0 * 4096 + 0 * 256 + c / 16 * 16 + c mod 16 = c).
      { pose proof (N.div_mod c 16). lia. }
      rewrite Hval.
      replace (N.leb 55296 c) with false by (symmetry; apply N.leb_gt; lia). cbn [andb].
      rewrite IH by lia. reflexivity.
    + cbn [loads_body].
      replace (N.eqb c 34) with false by (symmetry; apply N.eqb_neq; exact H2).
      replace (N.ltb c 32) with false by (symmetry; apply N.ltb_ge; exact H1).
      replace (N.eqb c 92) with false by (symmetry; apply N.eqb_neq; exact H3).
      rewrite IH by lia. reflexivity.
Qed.

(* ---- the round trip --------------------------------------------------------------------------- *)

Definition canon_body (s : ustr) : ustr :=
  replace1 39 [92; 39] (replace2 92 34 [34] (dumps_body s)).

Theorem string_round_trip s :
  json_loads_str (replace2 92 39 [39] (replace1 34 [92; 34] (canon_body s))) = Some s.
Proof.
  unfold canon_body. rewrite replace1_comm, unescape_escape1 by reflexivity.
  rewrite requote_dumps. unfold json_loads_str. apply loads_dumps. lia.
Qed.

(* ---- no control characters -------------------------------------------------------------------- *)

Lemma replace1_forall (P : N -> Prop) a r s :
  Forall P r -> Forall P s -> Forall P (replace1 a r s).
Proof.
  intros Hr Hs. induction Hs as [|c s Hc Hs IH]; [constructor|].
  cbn [replace1]. destruct (N.eqb c a); [apply Forall_app; split; assumption|constructor; assumption].
Qed.

Lemma replace2_forall (P : N -> Prop) a b r : Forall P r -> forall n s,
  (length s <= n)%nat -> Forall P s -> Forall P (replace2 a b r s).
Proof.
  intros Hr. induction n as [|n IH]; intros s Hn Hs.
  - destruct s; [constructor|cbn [length] in Hn; lia].
  - destruct s as [|x [|y s'']]; [constructor|exact Hs|].
    rewrite replace2_eq2. inversion Hs as [|? ? Hx Hs']; subst. inversion Hs' as [|? ? Hy Hs'']; subst.
    cbn [length] in Hn.
    destruct (N.eqb x a && N.eqb y b).
    + apply Forall_app. split; [exact Hr|]. apply IH; [lia|exact Hs''].
    + constructor; [exact Hx|]. apply IH; [cbn [length]; lia|exact Hs'].
Qed.

Lemma dumps_body_printable s : Forall (fun c => 32 <= c) (dumps_body s).
Proof.
  induction s as [|c s IH]; [constructor|]. rewrite dumps_body_cons. apply Forall_app. split; [|exact IH].
  destruct (dumps_char_shape c) as [H|H|e H|h1 h2 Hc Hv1 Hv2 Hr1 Hr2|H1 H2 H3];
    repeat constructor; try lia.
  cbn [In] in H. repeat (destruct H as [H|H]; [injection H as _ <-; lia|]). contradiction H.
Qed.

Theorem canon_body_no_control s : existsb (fun c => N.ltb c 32) (canon_body s) = false.
Proof.
  assert (H : Forall (fun c => 32 <= c) (canon_body s)).
  { unfold canon_body. apply replace1_forall; [repeat constructor; lia|].
    apply (replace2_forall (fun c => 32 <= c) 92 34 [34]) with (n := length (dumps_body s));
      [repeat constructor; lia|apply le_n|apply dumps_body_printable]. }
  induction H as [|c l Hc _ IH]; [reflexivity|].
  cbn [existsb]. rewrite IH. replace (N.ltb c 32) with false by (symmetry; apply N.ltb_ge; exact Hc).
  reflexivity.
Qed.
