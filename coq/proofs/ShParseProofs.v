(* ShParseProofs.v — PrintParseProofs.v (the print/reparse induction) restated for the shorthand
   token printer of spec/FreeSpell.v: its tokens compile to the normal form [snorm_query]. *)
From Coq Require Import ZArith List Bool Lia.
From JP Require Import Base Json PyStr PyJsonStr Syntax Lex Parse Serialize TokPrint Printable Gate Reparsable NormDomain
                       TokensOk FreeSpell.
From JP Require Import ParseEqns GateLemmas ParseSpec ReparseLemmas TokPrintEqns StringRoundTrip
                       PrintParseBase PrintParseAtoms ShParseDefs ShParseBase ShParseAtoms.
Import ListNotations.

Definition nl_infix (e : fexpr) : bool :=
  match e with FInfix _ o _ => negb (is_logical o) | _ => false end.

Definition pathkind (k : tkind) : bool :=
  match k with
  | TProperty | TBare | TSliceStart | TWild | TKeys | TDDot | TLBracket => true
  | _ => false
  end.

Definition pathstop (zs : list token) : Prop :=
  match zs with [] => True | z :: _ => goodk z /\ pathkind (tk z) = false end.

Definition nbhead (x : list token) : Prop :=
  match x with x0 :: _ => goodk x0 /\ tk x0 <> TRBracket | [] => False end.

Lemma term_pathstop k rest : term_tokb k = true -> pathstop (k :: rest).
Proof.
  intros H. split; [exact (term_good k H)|]. unfold term_tokb in H.
  destruct (tk k); try discriminate H; reflexivity.
Qed.

Lemma nbhead_headok x : nbhead x -> headok x.
Proof. destruct x as [|x0 x']; [contradiction|]. intros [H _]. exists x0, x'. auto. Qed.

Lemma elem_le_sep {A} (s : list A) x xs : In x xs -> length x <= length (sep_by s xs).
Proof.
  induction xs as [|y xs IH]; [contradiction|]. intros [->|Hin].
  - destruct xs; [apply le_n|]. change (sep_by s (x :: l :: xs)) with (x ++ s ++ sep_by s (l :: xs)).
    rewrite app_length. lia.
  - destruct xs as [|z xs]; [contradiction Hin|].
    change (sep_by s (y :: z :: xs)) with (y ++ s ++ sep_by s (z :: xs)).
    rewrite !app_length. specialize (IH Hin). lia.
Qed.

Section Main.
  Variable E : env.
  Variable re_ok : ustr -> option bool.
  Hypothesis WT : e_well_typed E = true.
  Hypothesis UE : e_unicode_escape E = true.

  Notation lo := (e_min_index E).
  Notation hi := (e_max_index E).
  Notation PRIM := (ShParseBase.PRIM E re_ok).
  Notation U := (ShParseBase.U E re_ok).
  Notation pfs := (parse_filter_selector E re_ok).
  Notation parse_primary := (Parse.parse_primary E re_ok).
  Notation parse_path := (Parse.parse_path E re_ok).
  Notation gate_expr := (Gate.gate_expr lo hi).
  Notation gate_exprs := (Gate.gate_exprs lo hi).
  Notation gate_sel := (Gate.gate_sel lo hi).
  Notation gate_sels := (Gate.gate_sels lo hi).
  Notation gate_seg := (Gate.gate_seg lo hi).
  Notation gate_segs := (Gate.gate_segs lo hi).

  (* ---- statements ---- *)

  Definition Pexpr (e : fexpr) : Prop :=
    forall xs, sh_expr_toks E e = Ok xs ->
      headok xs /\ (nl_infix e = false -> PRIM e xs) /\ (exists L, 4 < L /\ L <= 8 /\ U e xs L).

  Definition Pcanon (e : fexpr) : Prop :=
    forall parent xs, In parent [1; 3; 4; 7] -> sh_canon_toks E e parent = Ok xs ->
      exists L, parent < L /\ L <= 8 /\ headok xs /\ U e xs L.

  Definition Pe (e : fexpr) : Prop :=
    gate_expr e = true -> pr_expr re_ok e = true -> rp_expr E e = true -> Pexpr e /\ Pcanon e.

  Fixpoint ARGSPEC (es : fexprs) (xs : list (list token)) : Prop :=
    match es, xs with
    | ENil, [] => True
    | ECons e r, x :: xr =>
        (PRIM e x /\ exists x0 x', x = x0 :: x' /\ goodk x0 /\ arg_kindb (tk x0) = true) /\ ARGSPEC r xr
    | _, _ => False
    end.

  Definition Pargs (es : fexprs) : Prop :=
    gate_exprs es = true -> pr_exprs re_ok es = true -> rp_args E es = true ->
    forall xs, sh_exprs_toks E es = Ok xs -> ARGSPEC es xs.

  Definition SELITEM (s : selector) (x : list token) : Prop :=
    nbhead x /\
    forall f k rest, need (length x) <= f -> (tk k = TRBracket \/ tk k = TComma) ->
      exists st', sel_item E re_ok f (enter (x ++ k :: rest)) = Ok (snorm_sel s, st') /\ at_ st' (k :: rest).

  Definition Psel (s : selector) : Prop :=
    gate_sel s = true -> pr_sel re_ok s = true -> rp_sel E s = true ->
    forall x, sh_sel_toks E s = Ok x -> SELITEM s x.

  Definition ITEMS (l : sels) (xs : list (list token)) : Prop :=
    nbhead (sep_by [comma] xs) /\ length xs <= length (sep_by [comma] xs) /\
    forall f g acc zs, need (length (sep_by [comma] xs)) <= f -> length xs + 1 <= g ->
      items_loop E re_ok f g (enter (sep_by [comma] xs ++ rbracket :: zs)) acc =
      Ok (rev acc ++ sels_list (snorm_sels l), st0 rbracket zs).

  Definition Psels (l : sels) : Prop :=
    gate_sels l = true -> pr_sels re_ok l = true -> rp_sels E l = true -> l <> LNil ->
    forall xs, sh_sels_toks E l = Ok xs -> ITEMS l xs.

  Definition SEG (g : segment) (x : list token) : Prop :=
    headok x /\
    forall f in_filter acc zs, need (length x) <= S f -> hd_ok zs ->
      parse_path (S f) in_filter (enter (x ++ zs)) acc =
      parse_path f in_filter (enter zs) (snorm_seg g :: acc).

  Definition Pseg (g : segment) : Prop :=
    gate_seg g = true -> pr_seg re_ok g = true -> rp_seg E g = true ->
    forall x, sh_seg_toks E g = Ok x -> SEG g x.

  Definition path_exit (in_filter : bool) (st : stream) : stream :=
    if in_filter then push st (s_cur st) else st.

  Definition SEGS (p : segs) (xs : list token) : Prop :=
    (xs = [] \/ headok xs) /\
    forall f in_filter acc zs, need (length xs) <= f -> pathstop zs ->
      parse_path f in_filter (enter (xs ++ zs)) acc =
      Ok (rev acc ++ segs_list (snorm_segs p), path_exit in_filter (enter zs)).

  Definition Psegs (p : segs) : Prop :=
    gate_segs p = true -> pr_segs re_ok p = true -> rp_segs E p = true ->
    forall xs, sh_segs_toks E p = Ok xs -> SEGS p xs.

  (* ---- expressions: atoms ---- *)

  Lemma atom_case e :
    match e with FNot _ | FInfix _ _ _ => False | _ => True end ->
    (forall xs, sh_expr_toks E e = Ok xs -> headok xs /\ PRIM e xs) ->
    Pexpr e /\ Pcanon e.
  Proof.
    intros Hat H. split.
    - intros xs Hx. destruct (H xs Hx) as [Hh Hp]. split; [exact Hh|]. split; [intros _; exact Hp|].
      exists 8. split; [lia|]. split; [lia|]. apply prim_U. exact Hp.
    - intros parent xs Hpar Hx. pose proof (sh_canon_toks_atom E e parent) as Heq.
      assert (Hx' : sh_expr_toks E e = Ok xs) by (destruct e; try contradiction Hat; rewrite <- Heq; exact Hx).
      destruct (H xs Hx') as [Hh Hp]. exists 8. split.
      + cbn [In] in Hpar. repeat (destruct Hpar as [<-|Hpar]; [lia|]). contradiction Hpar.
      + split; [lia|]. split; [exact Hh|]. apply prim_U. exact Hp.
  Qed.

  Lemma single_case e t :
    match e with FNot _ | FInfix _ _ _ => False | _ => True end ->
    sh_expr_toks E e = Ok [t] -> goodk t ->
    (forall f ys, parse_primary (S f) (st0 t ys) = Ok (snorm_expr e, st0 t ys)) ->
    Pexpr e /\ Pcanon e.
  Proof.
    intros Hat Hx Hg Hp. apply atom_case; [exact Hat|]. intros xs Hxs. rewrite Hx in Hxs. injection Hxs as <-.
    split; [apply headok_cons; exact Hg|]. apply prim_single; assumption.
  Qed.

  Lemma wrap_prim e x :
    Pexpr e -> sh_expr_toks E e = Ok x -> headok (wrap_toks e x) /\ PRIM e (wrap_toks e x).
  Proof.
    intros HP Hx. destruct (HP x Hx) as (Hh & Hprim & L & HL4 & HL8 & HU).
    destruct (nl_infix e) eqn:Hnl.
    - destruct e; try discriminate Hnl. cbn [nl_infix] in Hnl. apply negb_true_iff in Hnl.
      cbn [wrap_toks]. rewrite Hnl. split; [apply headok_cons; split; discriminate|].
      apply (group_prim E re_ok _ x L HU ltac:(lia) Hh).
    - assert (Hw : wrap_toks e x = x).
      { destruct e; try reflexivity. cbn [nl_infix] in Hnl. apply negb_false_iff in Hnl.
        cbn [wrap_toks]. rewrite Hnl. reflexivity. }
      rewrite Hw. split; [exact Hh|exact (Hprim eq_refl)].
  Qed.

  (* ---- selectors ---- *)

  Lemma sel_simple s t :
    goodk t -> tk t <> TRBracket ->
    (forall f ys, sel_item E re_ok (S f) (st0 t ys) = Ok (snorm_sel s, st0 t ys)) ->
    SELITEM s [t].
  Proof.
    intros Hg Hnb Hp. split; [split; assumption|].
    intros f k rest Hf Hk. unfold need in Hf. cbn [length] in Hf. destruct f as [|f1]; [lia|].
    cbn [app enter]. rewrite Hp. eexists. split; [reflexivity|]. apply at_st0. exact (proj2 Hg).
  Qed.

  Lemma case_SName k : Psel (SName k).
  Proof.
    intros _ _ _ x Hx. injection Hx as <-. apply sel_simple; [split; discriminate|discriminate|].
    intros f ys. unfold sel_item. cbn [st0 s_cur tk tv].
    change (canonical_body k) with (canon_body k). rewrite canon_body_no_control.
    change (canon_body k) with (canonical_body k). rewrite (decode_canonical E UE). reflexivity.
  Qed.

  Lemma case_SIndex i : Psel (SIndex i).
  Proof.
    intros Hg _ _ x Hx. injection Hx as <-. apply sel_simple; [split; discriminate|discriminate|].
    intros f ys. unfold sel_item. cbn [st0 s_cur tk tv]. cbv zeta.
    rewrite str_of_Z_no_leading_zero, has_exponent_str_of_Z, int_of_text_str_of_Z. cbn [bind].
    change (gate_sel (SIndex i)) with (index_in_range E i) in Hg. rewrite Hg. reflexivity.
  Qed.

  Lemma case_SWild : Psel SWild.
  Proof.
    intros _ _ _ x Hx. injection Hx as <-. apply sel_simple; [split; discriminate|discriminate|].
    intros f ys. reflexivity.
  Qed.

  Lemma case_SKeys : Psel SKeys.
  Proof.
    intros _ _ _ x Hx. injection Hx as <-. apply sel_simple; [split; discriminate|discriminate|].
    intros f ys. reflexivity.
  Qed.

  Lemma slice_gate a b c :
    gate_sel (SSlice a b c) = true -> rp_sel E (SSlice a b c) = true ->
    opt_in_range lo hi a = true /\ opt_in_range lo hi b = true /\ opt_in_range lo hi (snorm_step c) = true.
  Proof.
    intros Hg Hr. change (gate_sel (SSlice a b c)) with (opt_in_range lo hi a && opt_in_range lo hi b && opt_in_range lo hi c) in Hg.
    apply andb_true_iff in Hg as [Hg Hc]. apply andb_true_iff in Hg as [Ha Hb].
    repeat split; try assumption. destruct c as [z|]; [exact Hc|exact Hr].
  Qed.

  Lemma case_SSlice a b c : Psel (SSlice a b c).
  Proof.
    intros Hg _ Hr x Hx. injection Hx as <-. destruct (slice_gate a b c Hg Hr) as (Ha & Hb & Hc).
    split; [split; [split; discriminate|discriminate]|].
    intros f k rest Hf Hk. cbn [app enter]. unfold sel_item. cbn [st0 s_cur tk].
    fold (st0 (mkTok TSliceStart (opt_text a))
              (mkTok TSliceStop (opt_text b) :: mkTok TSliceStep (step_text c) :: k :: rest)).
    change (match c with Some z => str_of_Z z | None => [49%N] end) with (step_text c).
    rewrite (slice_parse E a b c (k :: rest) Ha Hb Hc).
    eexists. split; [destruct c; reflexivity|]. apply at_st0. discriminate.
  Qed.

  Lemma case_SFilter e : Pe e -> Psel (SFilter e).
  Proof.
    intros IH Hg Hp Hr x Hx.
    rewrite gate_sel_filter in Hg. apply andb_true_iff in Hg as [Ht Hg].
    change (pr_sel re_ok (SFilter e)) with (pr_expr re_ok e) in Hp.
    change (rp_sel E (SFilter e)) with (rp_expr E e) in Hr.
    destruct (IH Hg Hp Hr) as [_ Hc].
    rewrite sh_sel_toks_filter in Hx. destruct (sh_canon_toks E e 1) as [inner|] eqn:Hin; [|discriminate Hx].
    injection Hx as <-.
    destruct (Hc 1 inner ltac:(left; reflexivity) Hin) as (L & HL1 & HL8 & Hh & HU).
    split; [split; [split; discriminate|discriminate]|].
    intros f k rest Hf Hk. unfold need in Hf. cbn [length] in Hf.
    cbn [app enter]. unfold sel_item. cbn [st0 s_cur tk].
    destruct f as [|f1]; [lia|]. rewrite parse_filter_S.
    rewrite next_st0 by (try discriminate; exact (headok_hd inner _ Hh)). cbn [bind fst snd].
    destruct f1 as [|f2]; [lia|].
    assert (Hkt : term_tokb k = true) by (unfold term_tokb; destruct Hk as [-> | ->]; reflexivity).
    assert (Hks : forall p, stop1 k p) by (intros p; apply close_stop; tauto).
    destruct (U_fin E re_ok e inner L f2 1 k rest HU ltac:(lia) ltac:(unfold need; lia) Hkt
                (fun _ => Hks L) (Hks 1)) as (st' & -> & Hat).
    cbn [bind fst snd]. rewrite (testable_check (snorm_expr e)) by (rewrite testable_snorm; exact Ht).
    cbn [bind fst snd]. eexists. split; [reflexivity|exact Hat].
  Qed.

  (* the loop over the items of a bracketed selection, after one item *)
  Lemma items_after f g s st' k rest acc :
    at_ st' (k :: rest) -> (tk k = TRBracket \/ tk k = TComma) ->
    forall x, sel_item E re_ok f (enter (x ++ k :: rest)) = Ok (s, st') -> nbhead x ->
    (tk k = TComma -> nbhead rest) ->
    items_loop E re_ok f (S g) (enter (x ++ k :: rest)) acc =
    items_loop E re_ok f g (match tk k with TRBracket => st0 k rest | _ => enter rest end) (s :: acc).
  Proof.
    intros Hat Hk x Hitem Hnb Hnext. rewrite items_loop_S.
    destruct x as [|x0 x']; [contradiction Hnb|]. destruct Hnb as [Hg0 Hnb0].
    cbn [app enter st0 s_cur] in *. rewrite (is_kind_false TRBracket x0 Hnb0).
    rewrite Hitem. cbn [bind].
    assert (Hkg : tk k <> TIllegal /\ tk k <> TEof) by (destruct Hk as [-> | ->]; split; discriminate).
    rewrite (peek_at st' k rest Hat (proj1 Hkg)). cbn [bind].
    rewrite (is_kind_false TEof k (proj2 Hkg)).
    pose proof (at_peeked (s_cur st') k rest (proj2 (proj2 Hat))) as Hat1.
    destruct Hk as [Hk|Hk].
    - rewrite (is_kind_true TRBracket k Hk). cbn [bind].
      rewrite (next_at _ k rest Hat1 (proj1 Hkg)). cbn [bind snd]. rewrite Hk. reflexivity.
    - rewrite (is_kind_false TRBracket k) by (rewrite Hk; discriminate).
      rewrite (is_kind_true TComma k Hk).
      rewrite (next_at _ k rest Hat1 (proj1 Hkg)). cbn [bind snd].
      specialize (Hnext Hk). destruct rest as [|y0 ys]; [contradiction Hnext|]. destruct Hnext as [Hgy Hnby].
      rewrite peek_st0 by (try exact (proj2 Hkg); exact (proj1 Hgy)). cbn [bind fst snd].
      rewrite (is_kind_false TRBracket y0 Hnby). cbn [bind].
      rewrite (next_at _ y0 ys (at_peeked k y0 ys (proj2 Hkg)) (proj1 Hgy)). cbn [bind snd].
      rewrite Hk. reflexivity.
  Qed.

  Lemma case_LCons s r : Psel s -> Psels r -> Psels (LCons s r).
  Proof.
    intros IHs IHr Hg Hp Hr _ xs Hx.
    rewrite gate_sels_cons in Hg. apply andb_true_iff in Hg as [Hg1 Hg2].
    change (pr_sels re_ok (LCons s r)) with (pr_sel re_ok s && pr_sels re_ok r) in Hp.
    apply andb_true_iff in Hp as [Hp1 Hp2].
    change (rp_sels E (LCons s r)) with (rp_sel E s && rp_sels E r) in Hr.
    apply andb_true_iff in Hr as [Hr1 Hr2].
    rewrite sh_sels_toks_cons in Hx. destruct (sh_sel_toks E s) as [x|] eqn:Hsx; [|discriminate Hx].
    cbn [bind] in Hx. destruct (sh_sels_toks E r) as [xr|] eqn:Hxr; [|discriminate Hx]. injection Hx as <-.
    destruct (IHs Hg1 Hp1 Hr1 x Hsx) as [Hnb Hitem].
    assert (Hhead : nbhead (sep_by [comma] (x :: xr))).
    { pose proof (sep_by_cons [comma] x xr (@nil token)) as Heq. rewrite !app_nil_r in Heq.
      destruct x as [|x0 x']; [contradiction Hnb|].
      destruct xr; [exact Hnb|]. change (sep_by [comma] ((x0 :: x') :: l :: xr)) with ((x0 :: x') ++ [comma] ++ sep_by [comma] (l :: xr)).
      exact Hnb. }
    split; [exact Hhead|].
    assert (Hx1 : 1 <= length x) by (destruct x; [contradiction Hnb|cbn [length]; lia]).
    split.
    { destruct r as [|s2 r2].
      - injection Hxr as <-. cbn [sep_by length]. exact Hx1.
      - destruct (IHr Hg2 Hp2 Hr2 ltac:(discriminate) xr Hxr) as (_ & Hl & _).
        destruct xr as [|y xr']; [cbn [sep_by length]; exact Hx1|].
        change (sep_by [comma] (x :: y :: xr')) with (x ++ [comma] ++ sep_by [comma] (y :: xr')).
        rewrite !app_length. cbn [length] in Hl |- *. lia. }
    intros f g acc zs Hf Hg. cbn [length] in Hg. destruct g as [|g]; [lia|].
    rewrite sep_by_cons.
    assert (Hlenx : length x <= length (sep_by [comma] (x :: xr))) by (apply elem_le_sep; left; reflexivity).
    destruct r as [|s2 r2].
    - (* last item *)
      injection Hxr as <-. cbn [sep_tail].
      destruct (Hitem f rbracket zs ltac:(unfold need in *; lia) (or_introl eq_refl)) as (st' & Hit & Hat).
      rewrite (items_after f g (snorm_sel s) st' rbracket zs acc Hat (or_introl eq_refl) x Hit Hnb
                 ltac:(intros H; discriminate H)).
      cbn [tk rbracket]. destruct g as [|g]; [lia|]. rewrite items_loop_S. cbn [st0 s_cur].
      change (is_kind TRBracket rbracket) with true. cbv iota.
      rewrite snorm_sels_cons. cbn [sels_list snorm_sels rev]. reflexivity.
    - (* more items follow *)
      assert (Hne : LCons s2 r2 <> LNil) by discriminate.
      destruct (IHr Hg2 Hp2 Hr2 Hne xr Hxr) as (Hnbr & _ & Hloop).
      assert (Hxrne : xr <> []).
      { intros ->. rewrite sh_sels_toks_cons in Hxr. destruct (sh_sel_toks E s2); [|discriminate Hxr].
        cbn [bind] in Hxr. destruct (sh_sels_toks E r2); discriminate Hxr. }
      destruct xr as [|y xr']; [contradiction Hxrne; reflexivity|]. cbn [sep_tail app].
      assert (Hlen2 : length (sep_by [comma] (y :: xr')) + 1 <= length (sep_by [comma] (x :: y :: xr'))).
      { change (sep_by [comma] (x :: y :: xr')) with (x ++ [comma] ++ sep_by [comma] (y :: xr')).
        rewrite !app_length. cbn [length]. lia. }
      destruct (Hitem f comma (sep_by [comma] (y :: xr') ++ rbracket :: zs)
                  ltac:(unfold need in *; lia) (or_intror eq_refl)) as (st' & Hit & Hat).
      assert (Hnbnext : nbhead (sep_by [comma] (y :: xr') ++ rbracket :: zs)).
      { destruct (sep_by [comma] (y :: xr')) as [|w ws]; [contradiction Hnbr|exact Hnbr]. }
      rewrite (items_after f g (snorm_sel s) st' comma _ acc Hat (or_intror eq_refl) x Hit Hnb (fun _ => Hnbnext)).
      cbn [tk comma].
      rewrite (Hloop f g (snorm_sel s :: acc) zs ltac:(unfold need in *; lia) ltac:(cbn [length] in *; lia)).
      rewrite snorm_sels_cons. cbn [sels_list rev]. rewrite <- app_assoc. reflexivity.
  Qed.

  (* ---- segments ---- *)

  Lemma bracket_seg l xs :
    ITEMS l xs -> l <> LNil ->
    SEG (GList l) (lbracket :: sep_by [comma] xs ++ [rbracket]).
  Proof.
    intros (Hnb & Hxs & Hloop) Hne. split; [apply headok_cons; split; discriminate|].
    intros f in_filter acc zs Hf Hz. cbn [length] in Hf. rewrite app_length in Hf. cbn [length] in Hf.
    unfold need in Hf.
    cbn [app enter]. rewrite parse_path_S. cbn [st0 s_cur]. change (tk lbracket) with TLBracket. cbv iota.
    destruct f as [|f1]; [lia|]. rewrite parse_selector_list_S.
    rewrite <- app_assoc. cbn [app].
    rewrite next_st0 by (try discriminate; exact (headok_hd _ _ (nbhead_headok _ Hnb))). cbn [bind snd].
    rewrite (Hloop f1 f1 [] zs ltac:(unfold need; lia) ltac:(lia)). cbn [bind fst snd rev app].
    unfold continue_with. rewrite next_st0 by (try discriminate; exact Hz). cbn [bind snd].
    rewrite sels_of_list, snorm_seg_list. reflexivity.
  Qed.

  Lemma single_items s x : SELITEM s x -> ITEMS (LCons s LNil) [x].
  Proof.
    intros [Hnb Hitem]. split; [exact Hnb|].
    split; [destruct x; [contradiction Hnb|cbn [sep_by length]; lia]|].
    intros f g acc zs Hf Hg. cbn [sep_by length] in *. destruct g as [|g]; [lia|].
    destruct (Hitem f rbracket zs Hf (or_introl eq_refl)) as (st' & Hit & Hat).
    rewrite (items_after f g (snorm_sel s) st' rbracket zs acc Hat (or_introl eq_refl) x Hit Hnb
               ltac:(intros H; discriminate H)).
    cbn [tk rbracket]. destruct g as [|g]; [lia|]. rewrite items_loop_S. cbn [st0 s_cur].
    change (is_kind TRBracket rbracket) with true. cbv iota.
    rewrite snorm_sels_cons. cbn [sels_list snorm_sels rev]. reflexivity.
  Qed.

  Lemma bare_bracket_seg s x :
    SELITEM s x -> snorm_seg (GSel s) = GList (LCons (snorm_sel s) LNil) ->
    SEG (GSel s) (lbracket :: x ++ [rbracket]).
  Proof.
    intros Hs Hn. pose proof (bracket_seg (LCons s LNil) [x] (single_items s x Hs) ltac:(discriminate)) as [Hh Hseg].
    split; [exact Hh|]. intros f in_filter acc zs Hf Hz.
    etransitivity; [exact (Hseg f in_filter acc zs Hf Hz)|]. rewrite snorm_seg_list, snorm_sels_cons, Hn. reflexivity.
  Qed.

  Lemma short_seg (s : selector) (t : token) :
    short_form s = true -> goodk t ->
    (forall f in_filter acc zs, hd_ok zs ->
       parse_path (S f) in_filter (st0 t zs) acc = continue_with E re_ok f in_filter acc (GSel s) (st0 t zs)) ->
    SEG (GSel s) [t].
  Proof.
    intros Hs Hg Hstep. split; [apply headok_cons; exact Hg|].
    intros f in_filter acc zs Hf Hz. cbn [app enter]. rewrite (Hstep f in_filter acc zs Hz).
    unfold continue_with. rewrite next_st0 by (try exact (proj2 Hg); exact Hz). cbn [bind snd].
    cbn [snorm_seg]. rewrite Hs. reflexivity.
  Qed.

  Lemma case_GSel s : Psel s -> Pseg (GSel s).
  Proof.
    intros IH Hg Hp Hr x Hx.
    rewrite gate_seg_sel in Hg. change (pr_seg re_ok (GSel s)) with (pr_sel re_ok s) in Hp.
    change (rp_seg E (GSel s)) with (bare_form s && rp_sel E s) in Hr.
    apply andb_true_iff in Hr as [Hb Hr]. rewrite sh_seg_toks_sel in Hx.
    destruct s; try discriminate Hb.
    - (* .name *)
      injection Hx as <-. apply short_seg; [reflexivity|split; discriminate|].
      intros f in_filter acc zs Hz. rewrite parse_path_S. reflexivity.
    - (* a bare slice: printed in brackets *)
      cbn [sh_sel_toks bind] in Hx. injection Hx as <-.
      apply (bare_bracket_seg (SSlice start stop step)
               [mkTok TSliceStart (opt_text start); mkTok TSliceStop (opt_text stop);
                mkTok TSliceStep (match step with Some z => str_of_Z z | None => [49%N] end)]); [|reflexivity].
      exact (case_SSlice start stop step Hg Hp Hr _ eq_refl).
    - injection Hx as <-. apply short_seg; [reflexivity|split; discriminate|].
      intros f in_filter acc zs Hz. rewrite parse_path_S. reflexivity.
    - injection Hx as <-. apply short_seg; [reflexivity|split; discriminate|].
      intros f in_filter acc zs Hz. rewrite parse_path_S. reflexivity.
  Qed.

  Lemma case_GDescent : Pseg GDescent.
  Proof.
    intros _ _ _ x Hx. injection Hx as <-. split; [apply headok_cons; split; discriminate|].
    intros f in_filter acc zs Hf Hz. unfold tk1. cbn [app enter]. rewrite parse_path_S. cbn [st0 s_cur tk].
    unfold continue_with. rewrite next_st0 by (try discriminate; exact Hz). reflexivity.
  Qed.

  Lemma case_GList items : Psels items -> Pseg (GList items).
  Proof.
    intros IH Hg Hp Hr x Hx. rewrite gate_seg_list in Hg.
    assert (Hne : items <> LNil) by (intros ->; discriminate Hg).
    assert (Hg' : gate_sels items = true) by (destruct items; [discriminate Hg|exact Hg]).
    rewrite sh_seg_toks_list in Hx. destruct (sh_sels_toks E items) as [xs|] eqn:Hxs; [|discriminate Hx].
    injection Hx as <-. apply bracket_seg; [|exact Hne]. exact (IH Hg' Hp Hr Hne xs Hxs).
  Qed.

  Lemma path_stop_exit f in_filter acc zs :
    pathstop zs ->
    parse_path (S f) in_filter (enter zs) acc = Ok (rev acc, path_exit in_filter (enter zs)).
  Proof.
    intros Hz. rewrite parse_path_S. destruct zs as [|z zs']; [reflexivity|].
    destruct Hz as [_ Hk]. cbn [enter st0 s_cur]. destruct (tk z); try discriminate Hk; reflexivity.
  Qed.

  Lemma pathstop_hd zs : pathstop zs -> hd_ok zs.
  Proof. destruct zs; [intros _; exact I|]. intros [[H _] _]. exact H. Qed.

  Lemma case_PNil : Psegs PNil.
  Proof.
    intros _ _ _ xs Hx. injection Hx as <-. split; [left; reflexivity|].
    intros f in_filter acc zs Hf Hz. unfold need in Hf. destruct f as [|f1]; [lia|].
    cbn [app]. rewrite (path_stop_exit f1 in_filter acc zs Hz). cbn [snorm_segs segs_list].
    rewrite app_nil_r. reflexivity.
  Qed.

  Lemma case_PCons g r : Pseg g -> Psegs r -> Psegs (PCons g r).
  Proof.
    intros IHg IHr Hg Hp Hr xs Hx.
    rewrite gate_segs_cons in Hg. apply andb_true_iff in Hg as [Hg1 Hg2].
    change (pr_segs re_ok (PCons g r)) with (pr_seg re_ok g && pr_segs re_ok r) in Hp.
    apply andb_true_iff in Hp as [Hp1 Hp2].
    change (rp_segs E (PCons g r)) with (rp_seg E g && rp_segs E r) in Hr.
    apply andb_true_iff in Hr as [Hr1 Hr2].
    rewrite sh_segs_toks_cons in Hx. destruct (sh_seg_toks E g) as [x|] eqn:Hgx; [|discriminate Hx].
    cbn [bind] in Hx. destruct (sh_segs_toks E r) as [xr|] eqn:Hxr; [|discriminate Hx]. injection Hx as <-.
    destruct (IHg Hg1 Hp1 Hr1 x Hgx) as [Hh Hseg]. destruct (IHr Hg2 Hp2 Hr2 xr Hxr) as [Hhr Hsegs].
    split; [right; apply headok_app; exact Hh|].
    intros f in_filter acc zs Hf Hz. rewrite app_length in Hf. unfold need in Hf.
    assert (Hx1 : 1 <= length x) by (destruct Hh as (x0 & x' & -> & _); cbn [length]; lia).
    destruct f as [|f1]; [lia|]. rewrite <- app_assoc.
    assert (Hhd : hd_ok (xr ++ zs)).
    { destruct Hhr as [->|Hhr]; [exact (pathstop_hd zs Hz)|exact (headok_hd xr zs Hhr)]. }
    rewrite (Hseg f1 in_filter acc (xr ++ zs) ltac:(unfold need; lia) Hhd).
    rewrite (Hsegs f1 in_filter (snorm_seg g :: acc) zs ltac:(unfold need; lia) Hz).
    rewrite snorm_segs_cons. cbn [segs_list rev]. rewrite <- app_assoc. reflexivity.
  Qed.

  (* ---- queries inside filter expressions ---- *)

  Lemma prim_path p xs (mk : segs -> fexpr) t :
    SEGS p xs -> goodk t ->
    (forall f ys, parse_primary (S f) (st0 t ys) = sub_path E re_ok f (st0 t ys) mk) ->
    (forall q, snorm_expr (mk q) = mk (snorm_segs q)) ->
    PRIM (mk p) (t :: xs).
  Proof.
    intros [Hh Hsegs] Hg Hp Hn f k rest Hf Hk. cbn [length] in Hf. unfold need in Hf.
    destruct f as [|f1]; [lia|]. cbn [app enter]. rewrite Hp. unfold sub_path.
    assert (Hhd : hd_ok (xs ++ k :: rest)).
    { destruct Hh as [->|Hh]; [exact (proj1 (term_good k Hk))|exact (headok_hd xs _ Hh)]. }
    rewrite next_st0 by (try exact (proj2 Hg); exact Hhd). cbn [bind fst snd].
    rewrite (Hsegs f1 true [] (k :: rest) ltac:(unfold need; lia) (term_pathstop k rest Hk)).
    cbn [bind fst snd rev app]. rewrite segs_of_list, Hn.
    eexists. split; [reflexivity|]. cbn [path_exit enter st0 push s_cur s_pushed s_rest app].
    apply at_peeked. exact (proj2 (term_good k Hk)).
  Qed.

  (* ---- function calls ---- *)

  Lemma arg_primary_kind f t ys :
    arg_kindb (tk t) = true -> arg_primary E re_ok f (st0 t ys) = parse_primary f (st0 t ys).
  Proof. unfold arg_primary. cbn [st0 s_cur]. destruct (tk t); intros H; try discriminate H; reflexivity. Qed.

  Lemma args_parse name es : forall xs, ARGSPEC es xs ->
    forall f g acc zs, need (length (sep_by [comma] xs)) <= f -> length xs + 1 <= g ->
      args_loop E re_ok f name g (enter (sep_by [comma] xs ++ rparen :: zs)) acc =
      finish_call E name (rev (fexprs_list (snorm_exprs es)) ++ acc) (st0 rparen zs).
  Proof.
    induction es as [|e r IH]; intros xs Hspec f g acc zs Hf Hg.
    - destruct xs; [|contradiction Hspec]. cbn [sep_by app enter]. destruct g as [|g]; [cbn [length] in Hg; lia|].
      rewrite args_loop_S. cbn [st0 s_cur]. change (is_kind TRParen rparen) with true. reflexivity.
    - destruct xs as [|x xr]; [contradiction Hspec|]. cbn [ARGSPEC] in Hspec.
      destruct Hspec as [[Hprim (x0 & x' & -> & Hg0 & Hk0)] Hrest].
      cbn [length] in Hg. destruct g as [|g]; [lia|].
      assert (Hlenx : length (x0 :: x') <= length (sep_by [comma] ((x0 :: x') :: xr))) by (apply elem_le_sep; left; reflexivity).
      unfold need in Hf. destruct f as [|f1]; [lia|].
      rewrite sep_by_cons. rewrite args_loop_S.
      assert (Hnr : is_kind TRParen x0 = false).
      { apply is_kind_false. intros H. rewrite H in Hk0. discriminate Hk0. }
      cbn [app enter st0 s_cur]. rewrite Hnr.
      fold (st0 x0 (x' ++ sep_tail [comma] xr (rparen :: zs))).
      rewrite (arg_primary_kind (S f1) x0 _ Hk0).
      assert (Hgoal : forall st2, st2 = enter (sep_by [comma] xr ++ rparen :: zs) ->
                args_loop E re_ok (S f1) name g st2 (snorm_expr e :: acc) =
                finish_call E name (rev (fexprs_list (snorm_exprs (ECons e r))) ++ acc) (st0 rparen zs)).
      { intros st2 ->. rewrite (IH xr Hrest (S f1) g (snorm_expr e :: acc) zs).
        - rewrite snorm_exprs_cons. cbn [fexprs_list rev]. rewrite <- app_assoc. reflexivity.
        - destruct xr as [|y xr']; [unfold need; cbn [sep_by length]; lia|].
          change (sep_by [comma] ((x0 :: x') :: y :: xr')) with ((x0 :: x') ++ [comma] ++ sep_by [comma] (y :: xr')) in Hf.
          rewrite !app_length in Hf. unfold need. lia.
        - lia. }
      destruct xr as [|y xr'].
      + cbn [sep_tail].
        destruct (Hprim (S f1) rparen zs ltac:(unfold need; cbn [sep_by] in *; lia) eq_refl) as (st' & Hpp & Hat).
        change (x0 :: x' ++ rparen :: zs) with ((x0 :: x') ++ rparen :: zs).
        change (st0 x0 (x' ++ rparen :: zs)) with (enter ((x0 :: x') ++ rparen :: zs)).
        rewrite Hpp. cbn [bind fst snd]. rewrite ops_loop_S.
        rewrite (peek_at st' rparen zs Hat ltac:(discriminate)). cbn [bind fst snd tk rparen binop_of_kind].
        unfold after_arg. cbn [fst snd]. change (is_kind TRParen rparen) with true. cbn [bind].
        rewrite (next_at _ rparen zs (at_peeked (s_cur st') rparen zs (proj2 (proj2 Hat))) ltac:(discriminate)).
        cbn [bind snd]. apply Hgoal. reflexivity.
      + cbn [sep_tail app].
        assert (Hy : exists y0 y', y = y0 :: y' /\ goodk y0).
        { destruct r as [|e2 r2]; [contradiction Hrest|]. cbn [ARGSPEC] in Hrest.
          destruct Hrest as [[_ (y0 & y' & -> & Hgy & _)] _]. eauto. }
        destruct Hy as (y0 & y' & -> & Hgy).
        change (sep_by [comma] ((x0 :: x') :: (y0 :: y') :: xr')) with ((x0 :: x') ++ [comma] ++ sep_by [comma] ((y0 :: y') :: xr')) in Hf.
        rewrite !app_length in Hf.
        destruct (Hprim (S f1) comma (sep_by [comma] ((y0 :: y') :: xr') ++ rparen :: zs)
                    ltac:(unfold need; lia) eq_refl) as (st' & Hpp & Hat).
        change (st0 x0 (x' ++ comma :: sep_by [comma] ((y0 :: y') :: xr') ++ rparen :: zs))
          with (enter ((x0 :: x') ++ comma :: sep_by [comma] ((y0 :: y') :: xr') ++ rparen :: zs)).
        rewrite Hpp. cbn [bind fst snd]. rewrite ops_loop_S.
        rewrite (peek_at st' comma _ Hat ltac:(discriminate)). cbn [bind fst snd tk comma binop_of_kind].
        unfold after_arg. cbn [fst snd]. change (is_kind TRParen comma) with false.
        change (is_kind TComma comma) with true. cbv iota.
        rewrite (next_at _ comma _ (at_peeked (s_cur st') comma _ (proj2 (proj2 Hat))) ltac:(discriminate)).
        cbn [bind snd].
        rewrite next_st0; [|discriminate|rewrite sep_by_cons; exact (proj1 Hgy)].
        cbn [bind snd]. apply Hgoal. reflexivity.
  Qed.

  Lemma argspec_lengths es xs : ARGSPEC es xs -> length xs <= length (sep_by [comma] xs).
  Proof.
    revert xs. induction es as [|e r IH]; intros [|x xr] H; try contradiction H; [apply le_n|].
    cbn [ARGSPEC] in H. destruct H as [[_ (x0 & x' & -> & _)] Hr]. specialize (IH xr Hr).
    destruct xr as [|y xr']; [cbn [sep_by length]; lia|].
    change (sep_by [comma] ((x0 :: x') :: y :: xr')) with ((x0 :: x') ++ [comma] ++ sep_by [comma] (y :: xr')).
    rewrite !app_length. cbn [length] in IH |- *. lia.
  Qed.

  Lemma prim_func name args xs ts t :
    ARGSPEC args xs -> gate_sig name = Some (ts, t) -> g_args_ok ts (fexprs_list args) = true ->
    PRIM (FFunc name args) (mkTok TFunction name :: sep_by [comma] xs ++ [rparen]).
  Proof.
    intros Hspec Hsig Hargs f k rest Hf Hk. cbn [length] in Hf. rewrite app_length in Hf. cbn [length] in Hf.
    unfold need in Hf. pose proof (argspec_lengths args xs Hspec) as Hlen.
    destruct f as [|f1]; [lia|]. cbn [app enter]. rewrite parse_primary_S. cbn [st0 s_cur tk tv].
    rewrite <- app_assoc. cbn [app].
    assert (Hhd : hd_ok (sep_by [comma] xs ++ rparen :: k :: rest)).
    { destruct args as [|e r]; destruct xs as [|x xr]; try contradiction Hspec; [cbn; discriminate|].
      cbn [ARGSPEC] in Hspec. destruct Hspec as [[_ (x0 & x' & -> & Hg0 & _)] _].
      rewrite sep_by_cons. exact (proj1 Hg0). }
    rewrite next_st0 by (try discriminate; exact Hhd). cbn [bind snd].
    rewrite (args_parse name args xs Hspec f1 f1 [] (k :: rest) ltac:(unfold need; lia) ltac:(lia)).
    unfold finish_call. rewrite WT, app_nil_r, rev_involutive.
    rewrite (args_check name ts t (fexprs_list (snorm_exprs args)) Hsig)
      by (rewrite fexprs_list_snorm, args_ok_snorm; exact Hargs).
    cbn [bind]. rewrite fexprs_of_list, snorm_expr_func.
    eexists. split; [reflexivity|]. apply at_st0. discriminate.
  Qed.

  (* ---- expressions: the cases of the induction ---- *)

  Ltac lit_case K v :=
    apply (single_case _ (mkTok K v));
    [exact I|reflexivity|split; discriminate|intros f ys; rewrite parse_primary_S; reflexivity].

  Lemma case_FNil : Pe FNil.
  Proof. intros _ _ _. lit_case TNil [110; 105; 108]%N. Qed.
  Lemma case_FUndefined : Pe FUndefined.
  Proof. intros _ _ _. lit_case TUndefined [117; 110; 100; 101; 102; 105; 110; 101; 100]%N. Qed.
  Lemma case_FBool b : Pe (FBool b).
  Proof.
    intros _ _ _. destruct b; [lit_case TTrue [116; 114; 117; 101]%N|lit_case TFalse [102; 97; 108; 115; 101]%N].
  Qed.
  Lemma case_FKey : Pe FKey.
  Proof. intros _ _ _. lit_case TKey (e_key E). Qed.

  Lemma case_FInt z : Pe (FInt z).
  Proof.
    intros _ _ _. apply (single_case _ (mkTok TInt (str_of_Z z))); [exact I|reflexivity|split; discriminate|].
    intros f ys. rewrite parse_primary_S. cbn [st0 s_cur tk tv]. rewrite parse_int_str_of_Z. reflexivity.
  Qed.

  Lemma case_FStr s : Pe (FStr s).
  Proof.
    intros _ _ _. apply (single_case _ (mkTok TSQ (canonical_body s))); [exact I|reflexivity|split; discriminate|].
    intros f ys. rewrite parse_primary_S. cbn [st0 s_cur tk]. rewrite (decode_canonical E UE). reflexivity.
  Qed.

  Lemma case_FFloat n : Pe (FFloat n).
  Proof.
    intros _ Hp _. apply atom_case; [exact I|]. intros xs Hx. cbn [sh_expr_toks] in Hx.
    destruct (float_repr n) as [t|] eqn:Hr; [|discriminate Hx]. injection Hx as <-.
    split; [apply headok_cons; split; discriminate|]. apply prim_float; [exact Hp|exact Hr].
  Qed.

  Lemma case_FRegex p fl : Pe (FRegex p fl).
  Proof.
    intros _ Hp _. apply atom_case; [exact I|]. intros xs Hx. injection Hx as <-.
    split; [apply headok_cons; split; discriminate|]. apply prim_regex.
    change (pr_expr re_ok (FRegex p fl)) with (regex_ok p && match re_ok p with Some true => true | _ => false end) in Hp.
    apply andb_true_iff in Hp as [_ Hp]. destruct (re_ok p) as [[|]|]; try discriminate Hp. reflexivity.
  Qed.

  Lemma case_FList items : Pe (FList items).
  Proof.
    intros _ Hp _. apply atom_case; [exact I|]. intros xs Hx. rewrite sh_expr_toks_list in Hx.
    destruct (sh_exprs_toks E items) as [ys|] eqn:Hy; [|discriminate Hx]. injection Hx as <-.
    split; [apply headok_cons; split; discriminate|]. exact (prim_list E re_ok UE items ys Hp Hy).
  Qed.

  Lemma case_FSelf p : Psegs p -> Pe (FSelf p).
  Proof.
    intros IH Hg Hp Hr. apply atom_case; [exact I|]. intros xs Hx. rewrite sh_expr_toks_self in Hx.
    destruct (sh_segs_toks E p) as [ys|] eqn:Hy; [|discriminate Hx]. injection Hx as <-.
    split; [apply headok_cons; split; discriminate|].
    apply (prim_path p ys FSelf); [exact (IH Hg Hp Hr ys Hy)|split; discriminate| |reflexivity].
    intros f zs. rewrite parse_primary_S. reflexivity.
  Qed.

  Lemma case_FRoot fake p : Psegs p -> Pe (FRoot fake p).
  Proof.
    intros IH Hg Hp Hr. apply atom_case; [exact I|]. intros xs Hx. rewrite sh_expr_toks_root in Hx.
    destruct (sh_segs_toks E p) as [ys|] eqn:Hy; [|discriminate Hx]. injection Hx as <-.
    split; [apply headok_cons; destruct fake; split; discriminate|].
    apply (prim_path p ys (FRoot fake)); [exact (IH Hg Hp Hr ys Hy)|destruct fake; split; discriminate| |reflexivity].
    intros f zs. rewrite parse_primary_S. destruct fake; reflexivity.
  Qed.

  Lemma case_FCtx p : Psegs p -> Pe (FCtx p).
  Proof.
    intros IH Hg Hp Hr. apply atom_case; [exact I|]. intros xs Hx. rewrite sh_expr_toks_ctx in Hx.
    destruct (sh_segs_toks E p) as [ys|] eqn:Hy; [|discriminate Hx]. injection Hx as <-.
    split; [apply headok_cons; split; discriminate|].
    apply (prim_path p ys FCtx); [exact (IH Hg Hp Hr ys Hy)|split; discriminate| |reflexivity].
    intros f zs. rewrite parse_primary_S. reflexivity.
  Qed.

  Lemma case_FFunc name args : Pargs args -> Pe (FFunc name args).
  Proof.
    intros IH Hg Hp Hr. apply atom_case; [exact I|]. intros xs Hx. rewrite sh_expr_toks_func in Hx.
    destruct (sh_exprs_toks E args) as [ys|] eqn:Hy; [|discriminate Hx]. injection Hx as <-.
    split; [apply headok_cons; split; discriminate|].
    rewrite gate_expr_func in Hg. apply andb_true_iff in Hg as [Hg1 Hg2].
    change (pr_expr re_ok (FFunc name args)) with (fname_ok name && pr_exprs re_ok args) in Hp.
    apply andb_true_iff in Hp as [_ Hp].
    change (rp_expr E (FFunc name args)) with (rp_args E args) in Hr.
    destruct (gate_sig name) as [[ts t]|] eqn:Hsig; [|discriminate Hg2].
    exact (prim_func name args ys ts t (IH Hg1 Hp Hr ys Hy) Hsig Hg2).
  Qed.

  Lemma case_FNot r : Pe r -> Pe (FNot r).
  Proof.
    intros IH Hg Hp Hr. rewrite gate_expr_not in Hg. apply andb_true_iff in Hg as [Ht Hg].
    change (pr_expr re_ok (FNot r)) with (pr_expr re_ok r) in Hp.
    change (rp_expr E (FNot r)) with (rp_expr E r) in Hr.
    destruct (IH Hg Hp Hr) as [He Hc]. split.
    - intros xs Hx. rewrite sh_expr_toks_not in Hx. destruct (sh_expr_toks E r) as [x|] eqn:Hrx; [|discriminate Hx].
      injection Hx as <-. destruct (wrap_prim r x He Hrx) as [Hh HP].
      assert (HPn : PRIM (FNot r) (not_tok :: wrap_toks r x)).
      { apply (not_prim E re_ok r _ 8); [apply prim_U; exact HP|lia|exact Hh|exact Ht]. }
      split; [apply headok_cons; split; discriminate|]. split; [intros _; exact HPn|].
      exists 8. split; [lia|]. split; [lia|]. apply prim_U. exact HPn.
    - intros parent xs Hpar Hx. rewrite sh_canon_toks_not in Hx.
      destruct (sh_canon_toks E r 7) as [a|] eqn:Ha; [|discriminate Hx].
      destruct (Hc 7 a ltac:(cbn; tauto) Ha) as (L & HL7 & HL8 & Hh & HU).
      assert (Hlt : Nat.ltb 7 parent = false).
      { cbn [In] in Hpar. repeat (destruct Hpar as [<-|Hpar]; [reflexivity|]). contradiction Hpar. }
      cbn [bind] in Hx. rewrite Hlt in Hx. injection Hx as <-.
      exists 8. split; [apply Nat.ltb_ge in Hlt; lia|]. split; [lia|].
      split; [apply headok_cons; split; discriminate|]. apply prim_U.
      apply (not_prim E re_ok r a L HU ltac:(lia) Hh Ht).
  Qed.

  Definition lev (o : binop) : nat := precedence_of (tk (op_token o)).

  Lemma infix_chain l o r a b Ll Lr :
    gate_expr (FInfix l o r) = true ->
    U l a Ll -> U r b Lr -> headok a -> headok b -> lev o < Ll -> lev o < Lr ->
    headok (a ++ op_token o :: b) /\ U (FInfix l o r) (a ++ op_token o :: b) (lev o).
  Proof.
    intros Hg Ul Ur Ha Hb HLl HLr. split; [apply headok_app; exact Ha|].
    rewrite gate_expr_infix in Hg. apply andb_true_iff in Hg as [Hg Hlog].
    apply andb_true_iff in Hg as [_ Hcmp].
    apply (chain_step E re_ok WT l o r a b Ll Lr Ul Ur Hb HLl HLr).
    - destruct o; cbn; lia.
    - intros Hc. assert (Hc' : g_is_comparison o = true) by (destruct o; try discriminate Hc; reflexivity).
      rewrite Hc' in Hcmp. apply andb_true_iff in Hcmp. exact Hcmp.
    - intros Hl. destruct o; try discriminate Hl; apply andb_true_iff in Hlog; exact Hlog.
  Qed.

  Lemma maybe_paren e X L (c : bool) parent :
    U e X L -> headok X -> 1 <= L -> L <= 8 -> parent <= 7 -> (c = false -> parent < L) ->
    exists L', parent < L' /\ L' <= 8 /\
               headok (if c then lparen :: X ++ [rparen] else X) /\
               U e (if c then lparen :: X ++ [rparen] else X) L'.
  Proof.
    intros HU Hh H1 H8 Hp Hc. destruct c.
    - exists 8. split; [lia|]. split; [lia|]. split; [apply headok_cons; split; discriminate|].
      apply prim_U. exact (group_prim E re_ok e X L HU H1 Hh).
    - exists L. split; [apply Hc; reflexivity|]. split; [exact H8|]. split; [exact Hh|exact HU].
  Qed.

  Lemma parent_le7 parent : In parent [1; 3; 4; 7] -> parent <= 7.
  Proof. cbn [In]. intros H. repeat (destruct H as [<-|H]; [lia|]). contradiction H. Qed.

  Lemma case_FInfix l o r : Pe l -> Pe r -> Pe (FInfix l o r).
  Proof.
    intros IHl IHr Hg Hp Hr.
    pose proof Hg as Hg0. rewrite gate_expr_infix in Hg0.
    apply andb_true_iff in Hg0 as [Hg0 _]. apply andb_true_iff in Hg0 as [Hg0 _].
    apply andb_true_iff in Hg0 as [Hgl Hgr].
    change (pr_expr re_ok (FInfix l o r)) with (pr_expr re_ok l && pr_expr re_ok r) in Hp.
    apply andb_true_iff in Hp as [Hpl Hpr].
    change (rp_expr E (FInfix l o r)) with (rp_expr E l && rp_expr E r) in Hr.
    apply andb_true_iff in Hr as [Hrl Hrr].
    destruct (IHl Hgl Hpl Hrl) as [Hel Hcl]. destruct (IHr Hgr Hpr Hrr) as [Her Hcr].
    destruct (is_logical o) eqn:Hlog.
    - (* && and || *)
      assert (Hlev : lev o <= 4 /\ 1 <= lev o) by (destruct o; try discriminate Hlog; cbn; lia).
      split.
      + intros xs Hx. rewrite sh_expr_toks_infix in Hx.
        destruct (sh_expr_toks E l) as [a|] eqn:Ha; [|discriminate Hx]. cbn [bind] in Hx.
        destruct (sh_expr_toks E r) as [b|] eqn:Hb; [|discriminate Hx]. cbn [bind] in Hx.
        rewrite Hlog in Hx. injection Hx as <-.
        destruct (Hel a Ha) as (Hha & _ & Ll & HLl & _ & Ul). destruct (Her b Hb) as (Hhb & _ & Lr & HLr & _ & Ur).
        destruct (infix_chain l o r a b Ll Lr Hg Ul Ur Hha Hhb ltac:(lia) ltac:(lia)) as [Hh HU].
        assert (HP : PRIM (FInfix l o r) (lparen :: (a ++ op_token o :: b) ++ [rparen])).
        { exact (group_prim E re_ok _ _ (lev o) HU (proj2 Hlev) Hh). }
        split; [apply headok_cons; split; discriminate|]. split; [intros _; exact HP|].
        exists 8. split; [lia|]. split; [lia|]. apply prim_U. exact HP.
      + intros parent xs Hpar Hx. pose proof (parent_le7 parent Hpar) as Hp7.
        destruct o; try discriminate Hlog.
        * rewrite sh_canon_toks_and in Hx.
          destruct (sh_canon_toks E l 4) as [a|] eqn:Ha; [|discriminate Hx]. cbn [bind] in Hx.
          destruct (sh_canon_toks E r 4) as [b|] eqn:Hb; [|discriminate Hx]. cbn [bind] in Hx.
          injection Hx as <-.
          destruct (Hcl 4 a ltac:(cbn; tauto) Ha) as (Ll & HLl & _ & Hha & Ul).
          destruct (Hcr 4 b ltac:(cbn; tauto) Hb) as (Lr & HLr & _ & Hhb & Ur).
          destruct (infix_chain l BAnd r a b Ll Lr Hg Ul Ur Hha Hhb HLl HLr) as [Hh HU].
          apply (maybe_paren _ _ 4 (Nat.leb 4 parent) parent HU Hh); try lia.
          intros Hc. apply Nat.leb_gt in Hc. exact Hc.
        * rewrite sh_canon_toks_or in Hx.
          destruct (sh_canon_toks E l 3) as [a|] eqn:Ha; [|discriminate Hx]. cbn [bind] in Hx.
          destruct (sh_canon_toks E r 3) as [b|] eqn:Hb; [|discriminate Hx]. cbn [bind] in Hx.
          injection Hx as <-.
          destruct (Hcl 3 a ltac:(cbn; tauto) Ha) as (Ll & HLl & _ & Hha & Ul).
          destruct (Hcr 3 b ltac:(cbn; tauto) Hb) as (Lr & HLr & _ & Hhb & Ur).
          destruct (infix_chain l BOr r a b Ll Lr Hg Ul Ur Hha Hhb HLl HLr) as [Hh HU].
          apply (maybe_paren _ _ 3 (Nat.leb 3 parent) parent HU Hh); try lia.
          intros Hc. apply Nat.leb_gt in Hc. exact Hc.
    - (* comparisons and membership *)
      assert (Hlev : 4 < lev o /\ lev o < 7) by (destruct o; try discriminate Hlog; cbn; lia).
      assert (Hchain : forall a b, sh_expr_toks E l = Ok a -> sh_expr_toks E r = Ok b ->
                headok (wrap_toks l a ++ op_token o :: wrap_toks r b) /\
                U (FInfix l o r) (wrap_toks l a ++ op_token o :: wrap_toks r b) (lev o)).
      { intros a b Ha Hb. destruct (wrap_prim l a Hel Ha) as [Hha HPa]. destruct (wrap_prim r b Her Hb) as [Hhb HPb].
        apply (infix_chain l o r _ _ 8 8 Hg); try assumption; try lia; apply prim_U; assumption. }
      split.
      + intros xs Hx. rewrite sh_expr_toks_infix in Hx.
        destruct (sh_expr_toks E l) as [a|] eqn:Ha; [|discriminate Hx]. cbn [bind] in Hx.
        destruct (sh_expr_toks E r) as [b|] eqn:Hb; [|discriminate Hx]. cbn [bind] in Hx.
        rewrite Hlog in Hx. injection Hx as <-.
        destruct (Hchain a b eq_refl eq_refl) as [Hh HU].
        split; [exact Hh|]. split; [cbn [nl_infix]; rewrite Hlog; intros H; discriminate H|].
        exists (lev o). split; [lia|]. split; [lia|exact HU].
      + intros parent xs Hpar Hx. pose proof (parent_le7 parent Hpar) as Hp7.
        rewrite (sh_canon_toks_cmp E l o r parent Hlog) in Hx.
        destruct (sh_expr_toks E l) as [a|] eqn:Ha; [|discriminate Hx]. cbn [bind] in Hx.
        destruct (sh_expr_toks E r) as [b|] eqn:Hb; [|discriminate Hx]. cbn [bind] in Hx.
        injection Hx as <-. destruct (Hchain a b eq_refl eq_refl) as [Hh HU].
        apply (maybe_paren _ _ (lev o) (Nat.leb 7 parent) parent HU Hh); try lia.
        intros Hc. apply Nat.leb_gt in Hc.
        cbn [In] in Hpar. repeat (destruct Hpar as [<-|Hpar]; [lia|]). contradiction Hpar.
  Qed.

  (* ---- function arguments ---- *)

  Lemma arg_head e x :
    arg_form e = true -> sh_expr_toks E e = Ok x ->
    exists x0 x', x = x0 :: x' /\ goodk x0 /\ arg_kindb (tk x0) = true.
  Proof.
    intros Ha Hx. destruct e; try discriminate Ha.
    - injection Hx as <-. eexists _, _. repeat split; discriminate.
    - destruct b; injection Hx as <-; eexists _, _; repeat split; discriminate.
    - injection Hx as <-. eexists _, _. repeat split; discriminate.
    - cbn [sh_expr_toks] in Hx. destruct (float_repr n); [|discriminate Hx]. injection Hx as <-.
      eexists _, _. repeat split; discriminate.
    - injection Hx as <-. eexists _, _. repeat split; discriminate.
    - rewrite sh_expr_toks_self in Hx. destruct (sh_segs_toks E p); [|discriminate Hx]. injection Hx as <-.
      eexists _, _. repeat split; discriminate.
    - rewrite sh_expr_toks_root in Hx. destruct (sh_segs_toks E p); [|discriminate Hx]. injection Hx as <-.
      destruct fake; eexists _, _; repeat split; discriminate.
    - rewrite sh_expr_toks_ctx in Hx. destruct (sh_segs_toks E p); [|discriminate Hx]. injection Hx as <-.
      eexists _, _. repeat split; discriminate.
    - injection Hx as <-. eexists _, _. repeat split; discriminate.
    - rewrite sh_expr_toks_func in Hx. destruct (sh_exprs_toks E args); [|discriminate Hx]. injection Hx as <-.
      eexists _, _. repeat split; discriminate.
  Qed.

  Lemma case_ENil : Pargs ENil.
  Proof. intros _ _ _ xs Hx. injection Hx as <-. exact I. Qed.

  Lemma case_ECons e r : Pe e -> Pargs r -> Pargs (ECons e r).
  Proof.
    intros IHe IHr Hg Hp Hr xs Hx.
    rewrite gate_exprs_cons in Hg. apply andb_true_iff in Hg as [Hg1 Hg2].
    change (pr_exprs re_ok (ECons e r)) with (pr_expr re_ok e && pr_exprs re_ok r) in Hp.
    apply andb_true_iff in Hp as [Hp1 Hp2].
    change (rp_args E (ECons e r)) with (arg_form e && rp_expr E e && rp_args E r) in Hr.
    apply andb_true_iff in Hr as [Hr Hr2]. apply andb_true_iff in Hr as [Haf Hr1].
    rewrite sh_exprs_toks_cons in Hx. destruct (sh_expr_toks E e) as [x|] eqn:Hex; [|discriminate Hx].
    cbn [bind] in Hx. destruct (sh_exprs_toks E r) as [xr|] eqn:Hxr; [|discriminate Hx]. injection Hx as <-.
    cbn [ARGSPEC]. split; [|exact (IHr Hg2 Hp2 Hr2 xr Hxr)].
    destruct (IHe Hg1 Hp1 Hr1) as [He _]. destruct (He x Hex) as (_ & HP & _).
    split; [|exact (arg_head e x Haf Hex)].
    apply HP. destruct e; try reflexivity; discriminate Haf.
  Qed.

  (* ---- the mutual induction ---- *)

  Theorem reparse_all :
    (forall e, Pe e) /\ (forall es, Pargs es) /\ (forall s, Psel s) /\ (forall l, Psels l) /\
    (forall g, Pseg g) /\ (forall p, Psegs p).
  Proof.
    apply syntax_mutind.
    - exact case_FNil.
    - exact case_FUndefined.
    - exact case_FBool.
    - exact case_FInt.
    - exact case_FFloat.
    - exact case_FStr.
    - exact case_FRegex.
    - intros items _. apply case_FList.
    - exact case_FNot.
    - intros l Hl o r Hr. apply case_FInfix; assumption.
    - exact case_FSelf.
    - exact case_FRoot.
    - exact case_FCtx.
    - exact case_FKey.
    - exact case_FFunc.
    - exact case_ENil.
    - intros e He r Hr. apply case_ECons; assumption.
    - exact case_SName.
    - exact case_SIndex.
    - exact case_SSlice.
    - exact case_SWild.
    - exact case_SKeys.
    - exact case_SFilter.
    - intros _ _ _ H. contradiction H. reflexivity.
    - intros s Hs r Hr. apply case_LCons; assumption.
    - exact case_GSel.
    - exact case_GDescent.
    - exact case_GList.
    - exact case_PNil.
    - intros g Hg r Hr. apply case_PCons; assumption.
  Qed.
End Main.

(* ---- paths, compound queries, compile_tokens ---------------------------------------------- *)

Section Top.
  Variable E : env.
  Variable re_ok : ustr -> option bool.
  Hypothesis WT : e_well_typed E = true.
  Hypothesis UE : e_unicode_escape E = true.

  Notation lo := (e_min_index E).
  Notation hi := (e_max_index E).

  Definition root_tok (fake : bool) : token :=
    if fake then mkTok TFakeRoot (e_fake_root E) else mkTok TRoot (e_root E).
  Definition setop_tok (o : setop) : token :=
    match o with OpUnion => mkTok TUnion (e_union E) | OpIntersect => mkTok TIntersect (e_intersection E) end.

  Definition path_ok (p : jpath) : Prop :=
    gate_segs lo hi (p_segs p) = true /\ pr_segs re_ok (p_segs p) = true /\ rp_segs E (p_segs p) = true.

  Definition topstop (zs : list token) : Prop :=
    match zs with [] => True | z :: _ => exists o, z = setop_tok o end.

  Lemma topstop_pathstop zs : topstop zs -> pathstop zs.
  Proof. destruct zs as [|z zs]; [intros _; exact I|]. intros [o ->]. destruct o; split; try split; try discriminate; reflexivity. Qed.

  Lemma sh_path_toks_eq p : sh_path_toks E p = (x <- sh_segs_toks E (p_segs p) ;; Ok (root_tok (p_fake p) :: x)).
  Proof. reflexivity. Qed.

  Lemma parse_one_print p x fuel zs :
    path_ok p -> sh_segs_toks E (p_segs p) = Ok x -> need (length x) <= fuel -> topstop zs ->
    parse_one E re_ok fuel (st0 (root_tok (p_fake p)) (x ++ zs)) = Ok (snorm_path p, enter zs).
  Proof.
    intros (Hg & Hp & Hr) Hx Hf Hz.
    destruct (reparse_all E re_ok WT UE) as (_ & _ & _ & _ & _ & Hsegs).
    destruct (Hsegs (p_segs p) Hg Hp Hr x Hx) as [Hh Hpath].
    unfold parse_one. cbn [st0 s_cur].
    assert (Hroot : is_kind TRoot (root_tok (p_fake p)) || is_kind TFakeRoot (root_tok (p_fake p)) = true)
      by (unfold root_tok; destruct (p_fake p); reflexivity).
    rewrite Hroot.
    assert (Hhd : hd_ok (x ++ zs)).
    { destruct Hh as [->|Hh]; [exact (pathstop_hd zs (topstop_pathstop zs Hz))|exact (headok_hd x zs Hh)]. }
    rewrite next_st0 by (try exact Hhd; unfold root_tok; destruct (p_fake p); discriminate).
    cbn [bind snd].
    rewrite (Hpath fuel false [] zs Hf (topstop_pathstop zs Hz)). cbn [bind fst snd rev app path_exit].
    assert (Hend : is_kind TEof (s_cur (enter zs)) || is_kind TIntersect (s_cur (enter zs)) ||
                   is_kind TUnion (s_cur (enter zs)) = true).
    { destruct zs as [|z zs']; [reflexivity|]. destruct Hz as [o ->]. destruct o; reflexivity. }
    rewrite Hend. rewrite segs_of_list.
    unfold snorm_path. do 3 f_equal. unfold root_tok. destruct (p_fake p); reflexivity.
  Qed.

  Lemma compile_rest_print pf : forall rest xs,
    Forall (fun op => path_ok (snd op)) rest -> sh_rest_toks E rest = Ok xs -> need (length xs) <= pf ->
    forall g acc, length rest + 1 <= g ->
      compile_rest E re_ok g pf (enter xs) acc =
      Ok (rev acc ++ map (fun op => (fst op, snorm_path (snd op))) rest) /\ topstop xs.
  Proof.
    induction rest as [|[o p] rest IH]; intros xs Hall Hx Hpf g acc Hg.
    - injection Hx as <-. split; [|exact I]. destruct g as [|g]; [cbn [length] in Hg; lia|].
      cbn [compile_rest enter st0 s_cur map]. change (is_kind TEof eof_tok) with true. rewrite app_nil_r. reflexivity.
    - cbn [sh_rest_toks] in Hx. rewrite sh_path_toks_eq in Hx.
      destruct (sh_segs_toks E (p_segs p)) as [x|] eqn:Hsx; [|discriminate Hx]. cbn [bind] in Hx.
      destruct (sh_rest_toks E rest) as [xs'|] eqn:Hxs'; [|discriminate Hx]. cbn [bind] in Hx.
      injection Hx as <-. fold (setop_tok o). fold (root_tok (p_fake p)).
      inversion Hall as [|? ? Hp Hall']; subst. cbn [snd] in Hp.
      cbn [length] in Hpf, Hg. rewrite app_length in Hpf. cbn [length] in Hpf. unfold need in Hpf.
      destruct (IH xs' Hall' eq_refl ltac:(unfold need; lia) (pred g) ((o, snorm_path p) :: acc) ltac:(lia)) as [IHeq Htop].
      split; [|exists o; reflexivity].
      destruct g as [|g]; [lia|]. cbn [pred] in IHeq.
      cbn [compile_rest enter st0 s_cur app].
      assert (Hok : tk (setop_tok o) <> TEof /\ tk (setop_tok o) <> TIllegal) by (destruct o; split; discriminate).
      rewrite (is_kind_false TEof _ (proj1 Hok)).
      assert (Hrg : tk (root_tok (p_fake p)) <> TIllegal /\ tk (root_tok (p_fake p)) <> TEof)
        by (unfold root_tok; destruct (p_fake p); split; discriminate).
      fold (st0 (setop_tok o) (root_tok (p_fake p) :: x ++ xs')).
      rewrite peek_st0 by (try exact (proj1 Hok); exact (proj1 Hrg)). cbn [bind fst snd].
      rewrite (is_kind_false TEof _ (proj2 Hrg)). cbn [s_cur].
      rewrite (next_at _ _ _ (at_peeked (setop_tok o) (root_tok (p_fake p)) (x ++ xs') (proj1 Hok)) (proj1 Hrg)).
      destruct o; cbn [setop_tok]; cbn [bind fst snd];
        change (is_kind TUnion (mkTok TUnion (e_union E))) with true;
        change (is_kind TUnion (mkTok TIntersect (e_intersection E))) with false;
        change (is_kind TIntersect (mkTok TIntersect (e_intersection E))) with true; cbv iota; cbn [bind snd];
        rewrite (parse_one_print p x pf xs' Hp Hsx ltac:(unfold need; lia) Htop); cbn [bind fst snd];
        rewrite IHeq; cbn [rev map fst snd]; rewrite <- app_assoc; reflexivity.
  Qed.

  Lemma sh_rest_toks_length rest xs : sh_rest_toks E rest = Ok xs -> length rest <= length xs.
  Proof.
    revert xs. induction rest as [|[o p] rest IH]; intros xs Hx; [cbn; lia|].
    cbn [sh_rest_toks] in Hx. destruct (sh_path_toks E p) as [x|]; [|discriminate Hx]. cbn [bind] in Hx.
    destruct (sh_rest_toks E rest) as [xs'|]; [|discriminate Hx]. injection Hx as <-.
    specialize (IH xs' eq_refl). cbn [length]. rewrite app_length. lia.
  Qed.

  Theorem parse_print_sec (q : query) (ts : list token) :
    gate_query lo hi q = true -> printable re_ok q = true -> reparsable E q = true ->
    sh_query_toks E q = Ok ts ->
    compile_tokens E re_ok ts = Ok (snorm_query q).
  Proof.
    intros Hg Hp Hr Hts.
    unfold gate_query in Hg. apply andb_true_iff in Hg as [Hg1 Hg2].
    unfold printable in Hp. apply andb_true_iff in Hp as [Hp1 Hp2].
    unfold reparsable in Hr. apply andb_true_iff in Hr as [Hr1 Hr2].
    assert (Hfirst : path_ok (q_first q)) by (repeat split; assumption).
    assert (Hrest : Forall (fun op => path_ok (snd op)) (q_rest q)).
    { apply Forall_forall. intros op Hin.
      rewrite forallb_forall in Hg2, Hp2, Hr2. repeat split; [apply Hg2|apply Hp2|apply Hr2]; exact Hin. }
    unfold sh_query_toks in Hts. rewrite sh_path_toks_eq in Hts.
    destruct (sh_segs_toks E (p_segs (q_first q))) as [x|] eqn:Hx; [|discriminate Hts]. cbn [bind] in Hts.
    destruct (sh_rest_toks E (q_rest q)) as [xs|] eqn:Hxs; [|discriminate Hts]. injection Hts as <-.
    unfold compile_tokens. cbv zeta. cbn [app].
    rewrite init_stream_enter by (unfold root_tok; destruct (p_fake (q_first q)); discriminate).
    cbn [bind]. cbn [length]. rewrite app_length.
    pose proof (sh_rest_toks_length _ _ Hxs) as Hlen.
    assert (Hn1 : need (length xs) <= 4 * S (length x + length xs) + 16) by (unfold need; lia).
    assert (Hn2 : length (q_rest q) + 1 <= S (S (length x + length xs))) by lia.
    assert (Hn3 : need (length x) <= 4 * S (length x + length xs) + 16) by (unfold need; lia).
    destruct (compile_rest_print (4 * S (length x + length xs) + 16) (q_rest q) xs Hrest Hxs
                Hn1 (S (S (length x + length xs))) [] Hn2) as [Hcr Htop].
    rewrite (parse_one_print (q_first q) x _ xs Hfirst Hx Hn3 Htop).
    cbn [bind fst snd]. rewrite Hcr. reflexivity.
  Qed.
End Top.

Theorem sh_parse_print :
  forall (E : env) re_ok (q : query) (ts : list token),
    e_well_typed E = true -> e_unicode_escape E = true ->
    gate_query (e_min_index E) (e_max_index E) q = true -> printable re_ok q = true ->
    reparsable E q = true ->
    sh_query_toks E q = Ok ts ->
    compile_tokens E re_ok ts = Ok (snorm_query q).
Proof. intros E re_ok q ts WT UE. apply parse_print_sec; assumption. Qed.
