(* PrintLexProofs.v — the lexer reads the string form of a compiled query as exactly the token
   sequence TokPrint.query_toks (statement C10_lex of props/C10.v), for queries whose path-level
   selectors are of the forms the parser builds ([lex_safe]: no bare index, no bare filter;
   implied by Reparsable.reparsable, see reparsable_lex_safe; needed, see lex_print_unsafe_refuted). *)
From JP Require Import Base Json PyStr PyJsonStr Syntax Gen_unicode Lex Parse Serialize TokPrint Printable
                       Gate Reparsable TokensOk NormPath PyStrLemmas LocationProofs LexProofs LexSteps.

(* ---------------------------------------------------------------------- *)
(* the shape of repr(float) *)

Lemma strip_zeros_nonneg f : forall m k, (0 <= m)%Z -> (0 <= fst (strip_zeros f m k))%Z.
Proof.
  induction f as [|f IH]; intros m k Hm; [exact Hm|].
  cbn [strip_zeros]. destruct (Z.eqb (m mod 10) 0 && negb (Z.eqb m 0)); [|exact Hm].
  apply IH. apply Z.div_pos; lia.
Qed.

Lemma forallb_repeat {A} (p : A -> bool) x n : p x = true -> forallb p (repeat x n) = true.
Proof. intros H. induction n as [|n IH]; [reflexivity|]. cbn [repeat forallb]. rewrite H, IH. reflexivity. Qed.

Lemma forallb_firstn_skipn {A} (p : A -> bool) n l :
  forallb p l = true -> forallb p (firstn n l) = true /\ forallb p (skipn n l) = true.
Proof.
  intros H. rewrite <- (firstn_skipn n l) in H. rewrite forallb_app in H.
  apply andb_true_iff in H. exact H.
Qed.

Lemma float_repr_shape n t : float_repr n = Ok t -> float_shape t.
Proof.
  unfold float_repr. destruct (is_pow10 400 (Z.pos (n_den n))) as [k|]; [|discriminate].
  cbv zeta. set (sign := if Z.ltb (n_num n) 0 then [45%N] else []).
  assert (Hsign : sign = [] \/ sign = [45%N]) by (unfold sign; destruct (Z.ltb (n_num n) 0); auto).
  destruct (Z.eqb (Z.abs (n_num n)) 0).
  { intros H. injection H as <-. exists sign, [48%N], [48%N], []. unfold sign.
    destruct (Z.ltb (n_num n) 0); (split; [reflexivity|]); repeat split; auto; try discriminate;
      left; reflexivity. }
  destruct (strip_zeros 400 (Z.abs (n_num n)) 0) as [m z] eqn:Esz.
  assert (Hm : (0 <= m)%Z).
  { pose proof (strip_zeros_nonneg 400 (Z.abs (n_num n)) 0 (Z.abs_nonneg _)) as H.
    rewrite Esz in H. exact H. }
  destruct (dec_of_nonneg_shape m Hm) as [Hne Hd].
  set (digits := dec_of_nonneg m) in *.
  set (nd := Z.of_nat (length digits)).
  destruct (Z.ltb 15 nd); [discriminate|].
  set (pt := (nd + z - k)%Z).
  destruct (Z.ltb (-4) pt && Z.leb pt 16).
  - destruct (Z.leb pt 0) eqn:Ept0.
    + intros H. injection H as <-.
      exists sign, [48%N], (repeat 48%N (Z.to_nat (- pt)) ++ digits), [].
      split; [rewrite app_nil_r; reflexivity|]. split; [exact Hsign|]. split; [discriminate|].
      split; [reflexivity|]. split; [|left; reflexivity].
      rewrite forallb_app. rewrite forallb_repeat by reflexivity. exact Hd.
    + destruct (Z.leb nd pt).
      * intros H. injection H as <-.
        exists sign, (digits ++ repeat 48%N (Z.to_nat (pt - nd))), [48%N], [].
        split; [rewrite <- !app_assoc; reflexivity|]. split; [exact Hsign|].
        split; [intros E0; apply app_eq_nil in E0 as [E0 _]; contradiction|].
        split; [rewrite forallb_app, Hd; apply forallb_repeat; reflexivity|].
        split; [reflexivity|left; reflexivity].
      * intros H. injection H as <-.
        destruct (forallb_firstn_skipn is_ascii_digit (Z.to_nat pt) digits Hd) as [H1 H2].
        exists sign, (firstn (Z.to_nat pt) digits), (skipn (Z.to_nat pt) digits), [].
        split; [rewrite app_nil_r; reflexivity|]. split; [exact Hsign|].
        split.
        { apply Z.leb_gt in Ept0. destruct (Z.to_nat pt) eqn:En; [lia|].
          destruct digits; [contradiction|discriminate]. }
        split; [exact H1|]. split; [exact H2|left; reflexivity].
  - intros H. injection H as <-.
    set (e := (pt - 1)%Z).
    destruct (dec_of_nonneg_shape (Z.abs e) (Z.abs_nonneg _)) as [Hene Hed].
    set (etxt := dec_of_nonneg (Z.abs e)) in *.
    assert (Het : exists et, match etxt with [_] => 48%N :: etxt | _ => etxt end = et /\
                             et <> [] /\ forallb is_ascii_digit et = true).
    { destruct etxt as [|x [|y r]]; [contradiction| |].
      - eexists; split; [reflexivity|]. split; [discriminate|]. cbn [forallb] in *. exact Hed.
      - eexists; split; [reflexivity|]. split; [discriminate|exact Hed]. }
    destruct Het as [et [-> [Hetne Hetd]]].
    set (sc := if Z.ltb e 0 then 45%N else 43%N).
    assert (Hsc : sc = 43%N \/ sc = 45%N) by (unfold sc; destruct (Z.ltb e 0); auto).
    assert (Hex : exp_shape (101%N :: sc :: et)).
    { right. exists sc, et. auto. }
    destruct digits as [|d0 [|d1 r]]; [contradiction| |].
    + exists sign, [d0], [48%N], (101%N :: sc :: et).
      split; [reflexivity|]. split; [exact Hsign|]. split; [discriminate|].
      split; [exact Hd|]. split; [reflexivity|exact Hex].
    + cbn [forallb] in Hd. apply andb_true_iff in Hd as [Hd0 Hdr].
      exists sign, [d0], (d1 :: r), (101%N :: sc :: et).
      split; [reflexivity|]. split; [exact Hsign|]. split; [discriminate|].
      split; [cbn [forallb]; rewrite Hd0; reflexivity|]. split; [exact Hdr|exact Hex].
Qed.

(* ---------------------------------------------------------------------- *)
(* unfolding equations of the printers *)

Section Eqns.
  Variable E : env.

  Lemma et_list items : expr_text E (FList items) =
    (xs <- exprs_text E items ;; Ok (91%N :: join_sep [44; 32]%N xs ++ [93%N])).
  Proof. reflexivity. Qed.
  Lemma et_not r : expr_text E (FNot r) = (x <- expr_text E r ;; Ok (33%N :: wrap_operand r x)).
  Proof. reflexivity. Qed.
  Lemma et_infix l o r : expr_text E (FInfix l o r) =
    (a <- expr_text E l ;; b <- expr_text E r ;;
     Ok (if is_logical o then 40%N :: (a ++ sp :: binop_text o ++ sp :: b) ++ [41%N]
         else wrap_operand l a ++ sp :: binop_text o ++ sp :: wrap_operand r b)).
  Proof. reflexivity. Qed.
  Lemma et_self p : expr_text E (FSelf p) = (x <- segs_text E p ;; Ok (e_self E ++ x)).
  Proof. reflexivity. Qed.
  Lemma et_root fake p : expr_text E (FRoot fake p) =
    (x <- segs_text E p ;; Ok ((if fake then e_fake_root E else e_root E) ++ x)).
  Proof. reflexivity. Qed.
  Lemma et_ctx p : expr_text E (FCtx p) = (x <- segs_text E p ;; Ok (e_filter_context E ++ x)).
  Proof. reflexivity. Qed.
  Lemma et_func name args : expr_text E (FFunc name args) =
    (xs <- exprs_text E args ;; Ok (name ++ 40%N :: join_sep [44; 32]%N xs ++ [41%N])).
  Proof. reflexivity. Qed.

  Lemma ek_float n : expr_toks E (FFloat n) = (t <- float_repr n ;; Ok (tk1 TFloat t)).
  Proof. reflexivity. Qed.
  Lemma ek_list items : expr_toks E (FList items) =
    (xs <- exprs_toks E items ;;
     Ok (mkTok TLBracket [91%N] :: sep_by [comma] xs ++ [mkTok TRBracket [93%N]])).
  Proof. reflexivity. Qed.
  Lemma ek_not r : expr_toks E (FNot r) = (x <- expr_toks E r ;; Ok (mkTok TNot [33%N] :: wrap_toks r x)).
  Proof. reflexivity. Qed.
  Lemma ek_infix l o r : expr_toks E (FInfix l o r) =
    (a <- expr_toks E l ;; b <- expr_toks E r ;;
     Ok (if is_logical o then lparen :: (a ++ op_token o :: b) ++ [rparen]
         else wrap_toks l a ++ op_token o :: wrap_toks r b)).
  Proof. reflexivity. Qed.
  Lemma ek_self p : expr_toks E (FSelf p) = (x <- segs_toks E p ;; Ok (mkTok TSelf (e_self E) :: x)).
  Proof. reflexivity. Qed.
  Lemma ek_root fake p : expr_toks E (FRoot fake p) =
    (x <- segs_toks E p ;;
     Ok ((if fake then mkTok TFakeRoot (e_fake_root E) else mkTok TRoot (e_root E)) :: x)).
  Proof. reflexivity. Qed.
  Lemma ek_ctx p : expr_toks E (FCtx p) = (x <- segs_toks E p ;; Ok (mkTok TFilterCtx (e_filter_context E) :: x)).
  Proof. reflexivity. Qed.
  Lemma ek_func name args : expr_toks E (FFunc name args) =
    (xs <- exprs_toks E args ;; Ok (mkTok TFunction name :: sep_by [comma] xs ++ [rparen])).
  Proof. reflexivity. Qed.

  Lemma est_cons e r : exprs_text E (ECons e r) = (x <- expr_text E e ;; xs <- exprs_text E r ;; Ok (x :: xs)).
  Proof. reflexivity. Qed.
  Lemma esk_cons e r : exprs_toks E (ECons e r) = (x <- expr_toks E e ;; xs <- exprs_toks E r ;; Ok (x :: xs)).
  Proof. reflexivity. Qed.

  Definition is_compound (e : fexpr) : bool := match e with FInfix _ _ _ | FNot _ => true | _ => false end.

  Lemma ct_leaf e par : is_compound e = false -> canon_text E e par = expr_text E e.
  Proof. destruct e; try discriminate; reflexivity. Qed.
  Lemma ck_leaf e par : is_compound e = false -> canon_toks E e par = expr_toks E e.
  Proof. destruct e; try discriminate; reflexivity. Qed.

  Lemma ct_and l r par : canon_text E (FInfix l BAnd r) par =
    (a <- canon_text E l 4 ;; b <- canon_text E r 4 ;;
     let x := a ++ [32; 38; 38; 32]%N ++ b in
     Ok (if Nat.leb 4 par then 40%N :: x ++ [41%N] else x)).
  Proof. reflexivity. Qed.
  Lemma ct_or l r par : canon_text E (FInfix l BOr r) par =
    (a <- canon_text E l 3 ;; b <- canon_text E r 3 ;;
     let x := a ++ [32; 124; 124; 32]%N ++ b in
     Ok (if Nat.leb 3 par then 40%N :: x ++ [41%N] else x)).
  Proof. reflexivity. Qed.
  Lemma ct_not r par : canon_text E (FNot r) par =
    (a <- canon_text E r 7 ;;
     let x := 33%N :: a in
     Ok (if Nat.ltb 7 par then 40%N :: x ++ [41%N] else x)).
  Proof. reflexivity. Qed.
  Lemma ct_cmp l o r par : is_logical o = false -> canon_text E (FInfix l o r) par =
    (a <- expr_text E l ;; b <- expr_text E r ;;
     let x := wrap_operand l a ++ sp :: binop_text o ++ sp :: wrap_operand r b in
     Ok (if Nat.leb 7 par then 40%N :: x ++ [41%N] else x)).
  Proof. destruct o; try discriminate; reflexivity. Qed.

  Lemma ck_and l r par : canon_toks E (FInfix l BAnd r) par =
    (a <- canon_toks E l 4 ;; b <- canon_toks E r 4 ;;
     let x := a ++ op_token BAnd :: b in
     Ok (if Nat.leb 4 par then lparen :: x ++ [rparen] else x)).
  Proof. reflexivity. Qed.
  Lemma ck_or l r par : canon_toks E (FInfix l BOr r) par =
    (a <- canon_toks E l 3 ;; b <- canon_toks E r 3 ;;
     let x := a ++ op_token BOr :: b in
     Ok (if Nat.leb 3 par then lparen :: x ++ [rparen] else x)).
  Proof. reflexivity. Qed.
  Lemma ck_not r par : canon_toks E (FNot r) par =
    (a <- canon_toks E r 7 ;;
     let x := mkTok TNot [33%N] :: a in
     Ok (if Nat.ltb 7 par then lparen :: x ++ [rparen] else x)).
  Proof. reflexivity. Qed.
  Lemma ck_cmp l o r par : is_logical o = false -> canon_toks E (FInfix l o r) par =
    (a <- expr_toks E l ;; b <- expr_toks E r ;;
     let x := wrap_toks l a ++ op_token o :: wrap_toks r b in
     Ok (if Nat.leb 7 par then lparen :: x ++ [rparen] else x)).
  Proof. destruct o; try discriminate; reflexivity. Qed.

  Lemma st_filter e : sel_text E (SFilter e) = (x <- canon_text E e 1 ;; Ok (63%N :: x)).
  Proof. reflexivity. Qed.
  Lemma sk_filter e : sel_toks E (SFilter e) = (x <- canon_toks E e 1 ;; Ok (mkTok TFilter [63%N] :: x)).
  Proof. reflexivity. Qed.
  Lemma sst_cons s r : sels_text E (LCons s r) = (x <- sel_text E s ;; xs <- sels_text E r ;; Ok (x :: xs)).
  Proof. reflexivity. Qed.
  Lemma ssk_cons s r : sels_toks E (LCons s r) = (x <- sel_toks E s ;; xs <- sels_toks E r ;; Ok (x :: xs)).
  Proof. reflexivity. Qed.

  Lemma gt_list items : seg_text E (GList items) =
    (xs <- sels_text E items ;; Ok (91%N :: join_sep [44; 32]%N xs ++ [93%N])).
  Proof. reflexivity. Qed.
  Lemma gk_list items : seg_toks E (GList items) =
    (xs <- sels_toks E items ;;
     Ok (mkTok TLBracket [91%N] :: sep_by [comma] xs ++ [mkTok TRBracket [93%N]])).
  Proof. reflexivity. Qed.
  Lemma gt_sel_other s :
    match s with SIndex _ | SFilter _ => True | _ => False end -> seg_text E (GSel s) = sel_text E s.
  Proof. destruct s; try contradiction; reflexivity. Qed.
  Lemma gk_sel_other s :
    match s with SIndex _ | SFilter _ => True | _ => False end -> seg_toks E (GSel s) = sel_toks E s.
  Proof. destruct s; try contradiction; reflexivity. Qed.
  Lemma gt_slice a b c : seg_text E (GSel (SSlice a b c)) =
    (x <- sel_text E (SSlice a b c) ;; Ok (91%N :: x ++ [93%N])).
  Proof. reflexivity. Qed.
  Lemma gk_slice a b c : seg_toks E (GSel (SSlice a b c)) =
    (x <- sel_toks E (SSlice a b c) ;; Ok (mkTok TLBracket [91%N] :: x ++ [mkTok TRBracket [93%N]])).
  Proof. reflexivity. Qed.

  Lemma pt_cons g r : segs_text E (PCons g r) = (x <- seg_text E g ;; xs <- segs_text E r ;; Ok (x ++ xs)).
  Proof. reflexivity. Qed.
  Lemma pk_cons g r : segs_toks E (PCons g r) = (x <- seg_toks E g ;; xs <- segs_toks E r ;; Ok (x ++ xs)).
  Proof. reflexivity. Qed.
End Eqns.

Lemma bind_ok {A B} (r : result A) (f : A -> result B) y :
  bind r f = Ok y -> exists a, r = Ok a /\ f a = Ok y.
Proof. destruct r as [a|e]; cbn [bind]; [|discriminate]. intros H. exists a. auto. Qed.

(* ---------------------------------------------------------------------- *)
(* the side condition: selectors that stand alone at path level *)

Definition seg_bare_ok (g : segment) : bool :=
  match g with GSel (SIndex _) | GSel (SFilter _) => false | _ => true end.

Fixpoint ls_expr (e : fexpr) : bool :=
  match e with
  | FList items => ls_exprs items
  | FNot r => ls_expr r
  | FInfix l _ r => ls_expr l && ls_expr r
  | FSelf p | FRoot _ p | FCtx p => ls_segs p
  | FFunc _ args => ls_exprs args
  | _ => true
  end
with ls_exprs (es : fexprs) : bool :=
  match es with ENil => true | ECons e r => ls_expr e && ls_exprs r end
with ls_sel (s : selector) : bool :=
  match s with SFilter e => ls_expr e | _ => true end
with ls_sels (l : sels) : bool :=
  match l with LNil => true | LCons s r => ls_sel s && ls_sels r end
with ls_seg (g : segment) : bool :=
  match g with GSel s => ls_sel s | GDescent => true | GList items => ls_sels items end
with ls_segs (p : segs) : bool :=
  match p with
  | PNil => true
  | PCons g r => seg_bare_ok g && ls_seg g && ls_segs r
  end.

Definition lex_safe (q : query) : bool :=
  ls_segs (p_segs (q_first q)) && forallb (fun op => ls_segs (p_segs (snd op))) (q_rest q).

(* ---------------------------------------------------------------------- *)
(* the first character of a printed expression *)

Definition good_head (x : ustr) : Prop :=
  exists c y, x = c :: y /\ py_isspace c = false /\ c <> 58%N /\ c <> 61%N.

Ltac ghc := eexists; eexists; split; [reflexivity|split; [reflexivity|split; discriminate]].

Lemma good_head_app x y : good_head x -> good_head (x ++ y).
Proof. intros [c [t [-> H]]]. exists c, (t ++ y). split; [reflexivity|exact H]. Qed.

Lemma num_head_good c y : num_head c -> good_head (c :: y).
Proof.
  intros H. exists c, y. split; [reflexivity|]. destruct H as [H| ->].
  - split; [apply isspace_digit; exact H|]. apply digit_bounds in H. lia.
  - split; [reflexivity|split; discriminate].
Qed.

Lemma dec_shape_head t : dec_shape t -> good_head t.
Proof.
  intros [sg [ds [-> [Hsg [Hne Hd]]]]].
  destruct (num_text_head sg ds [] Hsg Hne Hd) as [c [s' [Hs Hc]]].
  rewrite app_nil_r in Hs. rewrite Hs. apply num_head_good. exact Hc.
Qed.

Lemma float_shape_head t : float_shape t -> good_head t.
Proof.
  intros H. destruct (float_text_head t [] H) as [c [s' [Hs Hc]]].
  rewrite app_nil_r in Hs. rewrite Hs. apply num_head_good. exact Hc.
Qed.

Lemma wrap_head l a : good_head a -> good_head (wrap_operand l a).
Proof.
  intros H. destruct l; try exact H. cbn [wrap_operand]. destruct (is_logical o); [exact H|ghc].
Qed.

(* the configurable identifiers *)
Lemma base_root E : In (TRoot, e_root E) (env_base E). Proof. cbn; tauto. Qed.
Lemma base_fake E : In (TFakeRoot, e_fake_root E) (env_base E). Proof. cbn; tauto. Qed.
Lemma base_self E : In (TSelf, e_self E) (env_base E). Proof. cbn; tauto. Qed.
Lemma base_key E : In (TKey, e_key E) (env_base E). Proof. cbn; tauto. Qed.
Lemma base_union E : In (TUnion, e_union E) (env_base E). Proof. cbn; tauto. Qed.
Lemma base_inter E : In (TIntersect, e_intersection E) (env_base E). Proof. cbn; tauto. Qed.
Lemma base_ctx E : In (TFilterCtx, e_filter_context E) (env_base E). Proof. cbn; tauto. Qed.
Lemma base_keys E : In (TKeys, e_keys E) (env_base E). Proof. cbn; tauto. Qed.

Lemma ident_head E k t y : tokens_ok E = true -> In (k, t) (env_base E) -> good_head (t ++ y).
Proof.
  intros HT Hin. destruct (tokens_ok_base E HT) as [Hsp _]. pose proof (Hsp k t Hin) as Ht.
  pose proof (spelling_signs t Ht) as Hsg. destruct t as [|c t']; [discriminate Ht|].
  cbn [forallb] in Hsg. apply andb_true_iff in Hsg as [Hc _].
  destruct (sign_facts c Hc) as [_ [_ [_ [_ [N58 [_ [N61 [_ [_ [_ [_ Hsp']]]]]]]]]]].
  exists c, (t' ++ y). split; [reflexivity|]. auto.
Qed.

Lemma ident_head0 E k t : tokens_ok E = true -> In (k, t) (env_base E) -> good_head t.
Proof. intros HT Hin. rewrite <- (app_nil_r t). apply (ident_head E k t [] HT Hin). Qed.

Lemma num_head_nonsign c : num_head c -> sign_char c = false.
Proof.
  intros H. destruct (sign_char c) eqn:E; [|reflexivity]. exfalso.
  destruct (num_head_facts c H) as [_ [_ [_ [_ Hlow]]]].
  apply sign_cases in E. destruct H as [H| ->].
  - apply digit_bounds in H. lia.
  - repeat (destruct E as [E|E]; [discriminate E|]). discriminate E.
Qed.

Lemma DE_nonsign rest : DE rest -> nonsign_head rest.
Proof.
  intros H. destruct H; reflexivity.
Qed.

Section Heads.
  Variable E : env.
  Variable ro : ustr -> option bool.
  Hypothesis HE : tokens_ok E = true.

  Lemma expr_head : forall e, pr_expr ro e = true ->
    (forall x, expr_text E e = Ok x -> good_head x) /\
    (forall par x, canon_text E e par = Ok x -> good_head x).
  Proof.
    induction e as [| | b | z | n | s | p fl | items | r IHr | l IHl o r IHr | p | fake p | p | | name args];
      intros Hpr;
      try (split; [intros x Hx|intros par x Hx; rewrite ct_leaf in Hx by reflexivity]).
    - injection Hx as <-. ghc.
    - injection Hx as <-. ghc.
    - injection Hx as <-. ghc.
    - injection Hx as <-. ghc.
    - destruct b; injection Hx as <-; ghc.
    - destruct b; injection Hx as <-; ghc.
    - injection Hx as <-. apply dec_shape_head. apply str_of_Z_shape.
    - injection Hx as <-. apply dec_shape_head. apply str_of_Z_shape.
    - apply float_shape_head. apply (float_repr_shape n). exact Hx.
    - apply float_shape_head. apply (float_repr_shape n). exact Hx.
    - injection Hx as <-. ghc.
    - injection Hx as <-. ghc.
    - injection Hx as <-. ghc.
    - injection Hx as <-. ghc.
    - rewrite et_list in Hx. apply bind_ok in Hx as [xs [_ Hx]]. injection Hx as <-. ghc.
    - rewrite et_list in Hx. apply bind_ok in Hx as [xs [_ Hx]]. injection Hx as <-. ghc.
    - (* FNot *)
      split.
      + intros x Hx. rewrite et_not in Hx. apply bind_ok in Hx as [a [_ Hx]]. injection Hx as <-. ghc.
      + intros par x Hx. rewrite ct_not in Hx. apply bind_ok in Hx as [a [_ Hx]]. cbv zeta in Hx.
        destruct (Nat.ltb 7 par); injection Hx as <-; ghc.
    - (* FInfix *)
      cbn [pr_expr] in Hpr. apply andb_true_iff in Hpr as [Hl Hr].
      destruct (IHl Hl) as [IHl1 IHl2].
      split.
      + intros x Hx. rewrite et_infix in Hx. apply bind_ok in Hx as [a [Ha Hx]].
        apply bind_ok in Hx as [b [Hb Hx]]. injection Hx as <-.
        destruct (is_logical o); [ghc|]. apply good_head_app. apply wrap_head. apply IHl1. exact Ha.
      + intros par x Hx. destruct (is_logical o) eqn:El.
        * destruct o; try discriminate.
          -- rewrite ct_and in Hx. apply bind_ok in Hx as [a [Ha Hx]]. apply bind_ok in Hx as [b [Hb Hx]].
             cbv zeta in Hx. destruct (Nat.leb 4 par); injection Hx as <-; [ghc|].
             apply good_head_app. apply (IHl2 4%nat). exact Ha.
          -- rewrite ct_or in Hx. apply bind_ok in Hx as [a [Ha Hx]]. apply bind_ok in Hx as [b [Hb Hx]].
             cbv zeta in Hx. destruct (Nat.leb 3 par); injection Hx as <-; [ghc|].
             apply good_head_app. apply (IHl2 3%nat). exact Ha.
        * rewrite (ct_cmp E l o r par El) in Hx.
          apply bind_ok in Hx as [a [Ha Hx]]. apply bind_ok in Hx as [b [Hb Hx]].
          cbv zeta in Hx. destruct (Nat.leb 7 par); injection Hx as <-; [ghc|].
          apply good_head_app. apply wrap_head. apply IHl1. exact Ha.
    - rewrite et_self in Hx. apply bind_ok in Hx as [xs [_ Hx]]. injection Hx as <-.
      apply (ident_head E TSelf _ _ HE (base_self E)).
    - rewrite et_self in Hx. apply bind_ok in Hx as [xs [_ Hx]]. injection Hx as <-.
      apply (ident_head E TSelf _ _ HE (base_self E)).
    - rewrite et_root in Hx. apply bind_ok in Hx as [xs [_ Hx]]. injection Hx as <-.
      destruct fake; [apply (ident_head E TFakeRoot _ _ HE (base_fake E))|apply (ident_head E TRoot _ _ HE (base_root E))].
    - rewrite et_root in Hx. apply bind_ok in Hx as [xs [_ Hx]]. injection Hx as <-.
      destruct fake; [apply (ident_head E TFakeRoot _ _ HE (base_fake E))|apply (ident_head E TRoot _ _ HE (base_root E))].
    - rewrite et_ctx in Hx. apply bind_ok in Hx as [xs [_ Hx]]. injection Hx as <-.
      apply (ident_head E TFilterCtx _ _ HE (base_ctx E)).
    - rewrite et_ctx in Hx. apply bind_ok in Hx as [xs [_ Hx]]. injection Hx as <-.
      apply (ident_head E TFilterCtx _ _ HE (base_ctx E)).
    - injection Hx as <-. apply (ident_head0 E TKey _ HE (base_key E)).
    - injection Hx as <-. apply (ident_head0 E TKey _ HE (base_key E)).
    - rewrite et_func in Hx. apply bind_ok in Hx as [xs [_ Hx]]. injection Hx as <-.
      cbn [pr_expr] in Hpr. apply andb_true_iff in Hpr as [Hn _].
      unfold fname_ok in Hn. destruct name as [|c [|c2 t]]; try discriminate.
      apply andb_true_iff in Hn as [Hc _]. destruct (lower_facts c Hc) as [_ [_ [_ [_ [N58 [_ Hsp]]]]]].
      exists c, ((c2 :: t) ++ 40%N :: join_sep [44; 32]%N xs ++ [41%N]).
      split; [reflexivity|]. split; [exact Hsp|]. split; [exact N58|].
      unfold is_lower in Hc. apply andb_true_iff in Hc as [Hc _]. apply N.leb_le in Hc. lia.
    - rewrite et_func in Hx. apply bind_ok in Hx as [xs [_ Hx]]. injection Hx as <-.
      cbn [pr_expr] in Hpr. apply andb_true_iff in Hpr as [Hn _].
      unfold fname_ok in Hn. destruct name as [|c [|c2 t]]; try discriminate.
      apply andb_true_iff in Hn as [Hc _]. destruct (lower_facts c Hc) as [_ [_ [_ [_ [N58 [_ Hsp]]]]]].
      exists c, ((c2 :: t) ++ 40%N :: join_sep [44; 32]%N xs ++ [41%N]).
      split; [reflexivity|]. split; [exact Hsp|]. split; [exact N58|].
      unfold is_lower in Hc. apply andb_true_iff in Hc as [Hc _]. apply N.leb_le in Hc. lia.
  Qed.
End Heads.

(* ---------------------------------------------------------------------- *)
(* text and tokens correspond *)

Section Main.
  Variable E : env.
  Variable ro : ustr -> option bool.
  Hypothesis HE : tokens_ok E = true.

  Definition lexes (x : ustr) (ts : list token) (D : ustr -> Prop) : Prop :=
    forall rest, D rest -> tokenize E (x ++ rest) = ts ++ tokenize E rest.

  Definition both (x : ustr) (ts : list token) : Prop := lexes x ts DE /\ lexes (32%N :: x) ts DE.

  Lemma tok_space_head y : good_head y -> tokenize E (32%N :: y) = tokenize E y.
  Proof. intros [c [t [-> [H1 [H2 _]]]]]. apply tok_space; assumption. Qed.

  Lemma both_of_head x ts : lexes x ts DE -> good_head x -> both x ts.
  Proof.
    intros H Hh. split; [exact H|]. intros rest HD. cbn [app].
    rewrite (tok_space_head (x ++ rest)) by (apply good_head_app; exact Hh). apply H. exact HD.
  Qed.

  Lemma paren_lexes x tx : lexes x tx DE -> lexes (40%N :: x ++ [41%N]) (lparen :: tx ++ [rparen]) DE.
  Proof.
    intros H rest HD. cbn [app]. rewrite <- !app_assoc. cbn [app].
    rewrite (tok_lparen E HE). rewrite (H (41%N :: rest) (DE_rp rest)). rewrite (tok_rparen E HE).
    reflexivity.
  Qed.

  Lemma wrap_lexes e a ta : lexes a ta DE -> lexes (wrap_operand e a) (wrap_toks e ta) DE.
  Proof.
    intros H. destruct e; try exact H. cbn [wrap_operand wrap_toks].
    destruct (is_logical o); [exact H|]. apply paren_lexes. exact H.
  Qed.

  Lemma infix_lexes X1 X2 t1 t2 o :
    lexes X1 t1 DE -> lexes X2 t2 DE -> good_head X2 ->
    lexes (X1 ++ sp :: binop_text o ++ sp :: X2) (t1 ++ op_token o :: t2) DE.
  Proof.
    intros H1 H2 Hh rest HD. unfold sp.
    replace ((X1 ++ 32%N :: binop_text o ++ 32%N :: X2) ++ rest)
      with (X1 ++ 32%N :: binop_text o ++ 32%N :: X2 ++ rest)
      by (rewrite <- !app_assoc; cbn [app]; rewrite <- !app_assoc; reflexivity).
    rewrite (H1 _ (DE_binop o (32%N :: X2 ++ rest))).
    destruct (good_head_app X2 rest Hh) as [c [y [Ey [Hc1 [Hc2 _]]]]]. rewrite Ey.
    rewrite (tok_binop E HE o c y Hc1 Hc2). rewrite <- Ey. rewrite (H2 rest HD).
    rewrite <- app_assoc. reflexivity.
  Qed.

  Lemma bracket_lexes J S :
    lexes J S DE -> forall rest,
    tokenize E ((91%N :: J ++ [93%N]) ++ rest) =
    (mkTok TLBracket [91%N] :: S ++ [mkTok TRBracket [93%N]]) ++ tokenize E rest.
  Proof.
    intros H rest. cbn [app]. rewrite <- !app_assoc. cbn [app].
    rewrite (tok_lbracket E HE). rewrite (H (93%N :: rest) (DE_rb rest)). rewrite (tok_rbracket E HE).
    reflexivity.
  Qed.

  Lemma join_lexes xs tss :
    Forall2 both xs tss ->
    lexes (join_sep [44; 32]%N xs) (sep_by [comma] tss) DE /\
    (xs <> [] -> lexes (32%N :: join_sep [44; 32]%N xs) (sep_by [comma] tss) DE).
  Proof.
    induction 1 as [|x t xs tss [H1 H2] HF IH].
    - split; [intros rest _; reflexivity|contradiction].
    - destruct HF as [|x2 t2 xs' tss' Hb2 HF'].
      + split; [exact H1|intros _; exact H2].
      + destruct IH as [_ IH2]. specialize (IH2 ltac:(discriminate)).
        change (join_sep [44; 32]%N (x :: x2 :: xs')) with (x ++ [44; 32]%N ++ join_sep [44; 32]%N (x2 :: xs')).
        change (sep_by [comma] (t :: t2 :: tss')) with (t ++ [comma] ++ sep_by [comma] (t2 :: tss')).
        set (J' := join_sep [44; 32]%N (x2 :: xs')) in *. set (S' := sep_by [comma] (t2 :: tss')) in *.
        assert (Hgen : forall x0, lexes x0 t DE -> lexes (x0 ++ [44; 32]%N ++ J') (t ++ [comma] ++ S') DE).
        { intros x0 H0 rest HD.
          replace ((x0 ++ [44; 32]%N ++ J') ++ rest) with (x0 ++ 44%N :: (32%N :: J') ++ rest)
            by (rewrite <- !app_assoc; reflexivity).
          rewrite (H0 _ (DE_comma _)). rewrite (tok_comma E HE). rewrite (IH2 rest HD).
          rewrite <- !app_assoc. reflexivity. }
        split; [apply Hgen; exact H1|intros _; apply (Hgen (32%N :: x)); exact H2].
  Qed.

  Lemma exprs_join_head es xs :
    pr_exprs ro es = true -> exprs_text E es = Ok xs -> xs = [] \/ good_head (join_sep [44; 32]%N xs).
  Proof.
    intros Hpr Hx. destruct es as [|e r].
    - injection Hx as <-. left. reflexivity.
    - right. cbn [pr_exprs] in Hpr. apply andb_true_iff in Hpr as [He _].
      rewrite est_cons in Hx. apply bind_ok in Hx as [x [Hxe Hx]]. apply bind_ok in Hx as [xs' [_ Hx]].
      injection Hx as <-. destruct (expr_head E ro HE e He) as [Hh _]. specialize (Hh x Hxe).
      destruct xs' as [|x2 xs'']; [exact Hh|].
      change (join_sep [44; 32]%N (x :: x2 :: xs'')) with (x ++ [44; 32]%N ++ join_sep [44; 32]%N (x2 :: xs'')).
      apply good_head_app. exact Hh.
  Qed.

  Lemma pr_lits_exprs es : pr_lits ro es = true -> pr_exprs ro es = true.
  Proof.
    induction es as [|e r IH]; [reflexivity|]. cbn [pr_lits pr_exprs]. intros H.
    apply andb_true_iff in H as [H Hr]. apply andb_true_iff in H as [_ He].
    rewrite He, (IH Hr). reflexivity.
  Qed.

  (* the statements of the mutual induction *)
  Definition Pe (e : fexpr) : Prop :=
    pr_expr ro e = true -> ls_expr e = true ->
    (forall x ts, expr_text E e = Ok x -> expr_toks E e = Ok ts -> lexes x ts DE) /\
    (forall par x ts, canon_text E e par = Ok x -> canon_toks E e par = Ok ts -> lexes x ts DE).
  Definition Pes (es : fexprs) : Prop :=
    pr_exprs ro es = true -> ls_exprs es = true ->
    forall xs tss, exprs_text E es = Ok xs -> exprs_toks E es = Ok tss -> Forall2 both xs tss.
  Definition Ps (s : selector) : Prop :=
    pr_sel ro s = true -> ls_sel s = true ->
    forall x ts, sel_text E s = Ok x -> sel_toks E s = Ok ts -> both x ts.
  Definition Pss (l : sels) : Prop :=
    pr_sels ro l = true -> ls_sels l = true ->
    forall xs tss, sels_text E l = Ok xs -> sels_toks E l = Ok tss -> Forall2 both xs tss.
  Definition Pg (g : segment) : Prop :=
    pr_seg ro g = true -> ls_seg g = true -> seg_bare_ok g = true ->
    forall x ts, seg_text E g = Ok x -> seg_toks E g = Ok ts -> lexes x ts (fun _ => True).
  Definition Pp (p : segs) : Prop :=
    pr_segs ro p = true -> ls_segs p = true ->
    forall x ts, segs_text E p = Ok x -> segs_toks E p = Ok ts -> lexes x ts (fun _ => True).

  Lemma Pe_leaf e :
    is_compound e = false ->
    (forall x ts, expr_text E e = Ok x -> expr_toks E e = Ok ts -> lexes x ts DE) -> Pe e.
  Proof.
    intros Hc H _ _. split; [exact H|]. intros par x ts Hx Ht.
    rewrite ct_leaf in Hx by exact Hc. rewrite ck_leaf in Ht by exact Hc. apply H; assumption.
  Qed.

  Lemma case_nil : Pe FNil.
  Proof.
    apply Pe_leaf; [reflexivity|]. intros x ts Hx Ht. injection Hx as <-. injection Ht as <-.
    intros rest HD. apply (tok_nil E HE rest HD).
  Qed.

  Lemma case_undefined : Pe FUndefined.
  Proof.
    apply Pe_leaf; [reflexivity|]. intros x ts Hx Ht. injection Hx as <-. injection Ht as <-.
    intros rest HD. apply (tok_undefined E HE rest HD).
  Qed.

  Lemma case_bool b : Pe (FBool b).
  Proof.
    apply Pe_leaf; [reflexivity|]. intros x ts Hx Ht.
    destruct b; injection Hx as <-; injection Ht as <-; intros rest HD.
    - apply (tok_true E HE rest HD).
    - apply (tok_false E HE rest HD).
  Qed.

  Lemma case_int z : Pe (FInt z).
  Proof.
    apply Pe_leaf; [reflexivity|]. intros x ts Hx Ht. injection Hx as <-. injection Ht as <-.
    intros rest HD. apply (tok_int E (str_of_Z z) rest (str_of_Z_shape z) HD).
  Qed.

  Lemma case_float n : Pe (FFloat n).
  Proof.
    apply Pe_leaf; [reflexivity|]. intros x ts Hx Ht.
    change (expr_text E (FFloat n)) with (float_repr n) in Hx.
    rewrite ek_float, Hx in Ht. cbn [bind] in Ht. injection Ht as <-.
    intros rest HD. apply (tok_float E x rest (float_repr_shape n x Hx) HD).
  Qed.

  Lemma case_str s : Pe (FStr s).
  Proof.
    apply Pe_leaf; [reflexivity|]. intros x ts Hx Ht. injection Hx as <-. injection Ht as <-.
    intros rest HD. apply (tok_string E s rest).
  Qed.

  Lemma case_regex p fl : Pe (FRegex p fl).
  Proof.
    intros Hpr Hls. apply Pe_leaf; [reflexivity| |exact Hpr|exact Hls].
    cbn [pr_expr] in Hpr. apply andb_true_iff in Hpr as [Hp _].
    intros x ts Hx Ht. injection Hx as <-. injection Ht as <-.
    intros rest HD. apply (tok_regex E p fl rest Hp HD).
  Qed.

  Lemma case_list items : Pes items -> Pe (FList items).
  Proof.
    intros IH Hpr Hls. apply Pe_leaf; [reflexivity| |exact Hpr|exact Hls].
    cbn [pr_expr] in Hpr. cbn [ls_expr] in Hls. apply pr_lits_exprs in Hpr.
    intros x ts Hx Ht. rewrite et_list in Hx. rewrite ek_list in Ht.
    apply bind_ok in Hx as [xs [Hxs Hx]]. apply bind_ok in Ht as [tss [Htss Ht]].
    injection Hx as <-. injection Ht as <-.
    destruct (join_lexes xs tss (IH Hpr Hls xs tss Hxs Htss)) as [HJ _].
    intros rest _. apply bracket_lexes. exact HJ.
  Qed.

  Lemma head_ne61 x rest : good_head x -> exists c y, x ++ rest = c :: y /\ c <> 61%N.
  Proof. intros [c [y [-> [_ [_ H]]]]]. exists c, (y ++ rest). split; [reflexivity|exact H]. Qed.

  Lemma case_not r : Pe r -> Pe (FNot r).
  Proof.
    intros IH Hpr Hls. cbn [pr_expr] in Hpr. cbn [ls_expr] in Hls.
    destruct (IH Hpr Hls) as [IH1 IH2]. destruct (expr_head E ro HE r Hpr) as [Hh1 Hh2].
    split.
    - intros x ts Hx Ht. rewrite et_not in Hx. rewrite ek_not in Ht.
      apply bind_ok in Hx as [a [Ha Hx]]. apply bind_ok in Ht as [ta [Hta Ht]].
      injection Hx as <-. injection Ht as <-.
      intros rest HD. cbn [app].
      destruct (head_ne61 _ rest (wrap_head r a (Hh1 a Ha))) as [c [y [Ey Hc]]]. rewrite Ey.
      rewrite (tok_not E HE c y Hc). rewrite <- Ey.
      rewrite (wrap_lexes r a ta (IH1 a ta Ha Hta) rest HD). reflexivity.
    - intros par x ts Hx Ht. rewrite ct_not in Hx. rewrite ck_not in Ht.
      apply bind_ok in Hx as [a [Ha Hx]]. apply bind_ok in Ht as [ta [Hta Ht]].
      cbv zeta in Hx, Ht.
      assert (Hcore : lexes (33%N :: a) (mkTok TNot [33%N] :: ta) DE).
      { intros rest HD. cbn [app].
        destruct (head_ne61 _ rest (Hh2 7%nat a Ha)) as [c [y [Ey Hc]]]. rewrite Ey.
        rewrite (tok_not E HE c y Hc). rewrite <- Ey.
        rewrite (IH2 7%nat a ta Ha Hta rest HD). reflexivity. }
      destruct (Nat.ltb 7 par); injection Hx as <-; injection Ht as <-.
      + apply (paren_lexes (33%N :: a) (mkTok TNot [33%N] :: ta) Hcore).
      + exact Hcore.
  Qed.

  Lemma case_infix l o r : Pe l -> Pe r -> Pe (FInfix l o r).
  Proof.
    intros IHl IHr Hpr Hls. cbn [pr_expr] in Hpr. cbn [ls_expr] in Hls.
    apply andb_true_iff in Hpr as [Hpl Hpr]. apply andb_true_iff in Hls as [Hll Hlr].
    destruct (IHl Hpl Hll) as [IHl1 IHl2]. destruct (IHr Hpr Hlr) as [IHr1 IHr2].
    destruct (expr_head E ro HE l Hpl) as [Hhl1 Hhl2]. destruct (expr_head E ro HE r Hpr) as [Hhr1 Hhr2].
    assert (Hcmp : forall a b ta tb,
               expr_text E l = Ok a -> expr_text E r = Ok b -> expr_toks E l = Ok ta -> expr_toks E r = Ok tb ->
               lexes (wrap_operand l a ++ sp :: binop_text o ++ sp :: wrap_operand r b)
                     (wrap_toks l ta ++ op_token o :: wrap_toks r tb) DE).
    { intros a b ta tb Ha Hb Hta Htb. apply infix_lexes.
      - apply wrap_lexes. apply IHl1; assumption.
      - apply wrap_lexes. apply IHr1; assumption.
      - apply wrap_head. apply Hhr1. exact Hb. }
    split.
    - intros x ts Hx Ht. rewrite et_infix in Hx. rewrite ek_infix in Ht.
      apply bind_ok in Hx as [a [Ha Hx]]. apply bind_ok in Hx as [b [Hb Hx]].
      apply bind_ok in Ht as [ta [Hta Ht]]. apply bind_ok in Ht as [tb [Htb Ht]].
      destruct (is_logical o); injection Hx as <-; injection Ht as <-.
      + apply paren_lexes. apply infix_lexes; [apply IHl1; assumption|apply IHr1; assumption|].
        apply Hhr1. exact Hb.
      + apply Hcmp; assumption.
    - intros par x ts Hx Ht. destruct (is_logical o) eqn:El.
      + destruct o; try discriminate.
        * rewrite ct_and in Hx. rewrite ck_and in Ht.
          apply bind_ok in Hx as [a [Ha Hx]]. apply bind_ok in Hx as [b [Hb Hx]].
          apply bind_ok in Ht as [ta [Hta Ht]]. apply bind_ok in Ht as [tb [Htb Ht]].
          cbv zeta in Hx, Ht.
          assert (Hcore : lexes (a ++ [32; 38; 38; 32]%N ++ b) (ta ++ op_token BAnd :: tb) DE).
          { apply (infix_lexes a b ta tb BAnd); [apply (IHl2 4%nat); assumption|apply (IHr2 4%nat); assumption|].
            apply (Hhr2 4%nat). exact Hb. }
          destruct (Nat.leb 4 par); injection Hx as <-; injection Ht as <-;
            [apply paren_lexes; exact Hcore|exact Hcore].
        * rewrite ct_or in Hx. rewrite ck_or in Ht.
          apply bind_ok in Hx as [a [Ha Hx]]. apply bind_ok in Hx as [b [Hb Hx]].
          apply bind_ok in Ht as [ta [Hta Ht]]. apply bind_ok in Ht as [tb [Htb Ht]].
          cbv zeta in Hx, Ht.
          assert (Hcore : lexes (a ++ [32; 124; 124; 32]%N ++ b) (ta ++ op_token BOr :: tb) DE).
          { apply (infix_lexes a b ta tb BOr); [apply (IHl2 3%nat); assumption|apply (IHr2 3%nat); assumption|].
            apply (Hhr2 3%nat). exact Hb. }
          destruct (Nat.leb 3 par); injection Hx as <-; injection Ht as <-;
            [apply paren_lexes; exact Hcore|exact Hcore].
      + rewrite (ct_cmp E l o r par El) in Hx. rewrite (ck_cmp E l o r par El) in Ht.
        apply bind_ok in Hx as [a [Ha Hx]]. apply bind_ok in Hx as [b [Hb Hx]].
        apply bind_ok in Ht as [ta [Hta Ht]]. apply bind_ok in Ht as [tb [Htb Ht]].
        cbv zeta in Hx, Ht.
        destruct (Nat.leb 7 par); injection Hx as <-; injection Ht as <-;
          [apply paren_lexes; apply Hcmp; assumption|apply Hcmp; assumption].
  Qed.

  Lemma seg_text_nonsign g x : seg_text E g = Ok x -> exists c y, x = c :: y /\ sign_char c = false.
  Proof.
    intros Hx. destruct g as [s| |items].
    - destruct s as [k|i|a b c| | |e].
      + injection Hx as <-. eexists; eexists; split; reflexivity.
      + rewrite gt_sel_other in Hx by exact I. injection Hx as <-.
        destruct (str_of_Z_shape i) as [sg [ds [Es [Hsg [Hne Hd]]]]].
        destruct (num_text_head sg ds [] Hsg Hne Hd) as [c [y [Hs Hc]]].
        rewrite app_nil_r in Hs. rewrite Es, Hs. exists c, y. split; [reflexivity|].
        apply num_head_nonsign. exact Hc.
      + rewrite gt_slice in Hx. apply bind_ok in Hx as [y [_ Hx]]. injection Hx as <-.
        eexists; eexists; split; reflexivity.
      + injection Hx as <-. eexists; eexists; split; reflexivity.
      + injection Hx as <-. eexists; eexists; split; reflexivity.
      + rewrite gt_sel_other in Hx by exact I. rewrite st_filter in Hx.
        apply bind_ok in Hx as [y [_ Hx]]. injection Hx as <-. eexists; eexists; split; reflexivity.
    - injection Hx as <-. eexists; eexists; split; reflexivity.
    - rewrite gt_list in Hx. apply bind_ok in Hx as [xs [_ Hx]]. injection Hx as <-.
      eexists; eexists; split; reflexivity.
  Qed.

  Lemma segs_text_nonsign p xs rest :
    segs_text E p = Ok xs -> nonsign_head rest -> nonsign_head (xs ++ rest).
  Proof.
    intros Hx Hr. destruct p as [|g r].
    - injection Hx as <-. exact Hr.
    - rewrite pt_cons in Hx. apply bind_ok in Hx as [xg [Hxg Hx]]. apply bind_ok in Hx as [xr [_ Hx]].
      injection Hx as <-. destruct (seg_text_nonsign g xg Hxg) as [c [y [-> Hc]]]. exact Hc.
  Qed.

  Lemma case_self p : Pp p -> Pe (FSelf p).
  Proof.
    intros IH Hpr Hls. apply Pe_leaf; [reflexivity| |exact Hpr|exact Hls].
    cbn [pr_expr] in Hpr. cbn [ls_expr] in Hls.
    intros x ts Hx Ht. rewrite et_self in Hx. rewrite ek_self in Ht.
    apply bind_ok in Hx as [xs [Hxs Hx]]. apply bind_ok in Ht as [tss [Htss Ht]].
    injection Hx as <-. injection Ht as <-.
    intros rest HD. rewrite <- app_assoc.
    rewrite (tok_ident E HE TSelf _ _ (base_self E) (segs_text_nonsign p xs rest Hxs (DE_nonsign rest HD))).
    rewrite (IH Hpr Hls xs tss Hxs Htss rest I). reflexivity.
  Qed.

  Lemma case_root fake p : Pp p -> Pe (FRoot fake p).
  Proof.
    intros IH Hpr Hls. apply Pe_leaf; [reflexivity| |exact Hpr|exact Hls].
    cbn [pr_expr] in Hpr. cbn [ls_expr] in Hls.
    intros x ts Hx Ht. rewrite et_root in Hx. rewrite ek_root in Ht.
    apply bind_ok in Hx as [xs [Hxs Hx]]. apply bind_ok in Ht as [tss [Htss Ht]].
    injection Hx as <-. injection Ht as <-.
    intros rest HD. pose proof (IH Hpr Hls xs tss Hxs Htss rest I) as Hp.
    pose proof (segs_text_nonsign p xs rest Hxs (DE_nonsign rest HD)) as Hn.
    rewrite <- app_assoc. destruct fake.
    - rewrite (tok_ident E HE TFakeRoot _ _ (base_fake E) Hn). rewrite Hp. reflexivity.
    - rewrite (tok_ident E HE TRoot _ _ (base_root E) Hn). rewrite Hp. reflexivity.
  Qed.

  Lemma case_ctx p : Pp p -> Pe (FCtx p).
  Proof.
    intros IH Hpr Hls. apply Pe_leaf; [reflexivity| |exact Hpr|exact Hls].
    cbn [pr_expr] in Hpr. cbn [ls_expr] in Hls.
    intros x ts Hx Ht. rewrite et_ctx in Hx. rewrite ek_ctx in Ht.
    apply bind_ok in Hx as [xs [Hxs Hx]]. apply bind_ok in Ht as [tss [Htss Ht]].
    injection Hx as <-. injection Ht as <-.
    intros rest HD. rewrite <- app_assoc.
    rewrite (tok_ident E HE TFilterCtx _ _ (base_ctx E) (segs_text_nonsign p xs rest Hxs (DE_nonsign rest HD))).
    rewrite (IH Hpr Hls xs tss Hxs Htss rest I). reflexivity.
  Qed.

  Lemma case_key : Pe FKey.
  Proof.
    apply Pe_leaf; [reflexivity|].
    intros x ts Hx Ht. injection Hx as <-. injection Ht as <-.
    intros rest HD. apply (tok_ident E HE TKey _ _ (base_key E) (DE_nonsign rest HD)).
  Qed.

  Lemma good_head_nospace y : good_head y -> nospace_head y.
  Proof. intros [c [t [-> [H _]]]]. exact H. Qed.

  Lemma case_func name args : Pes args -> Pe (FFunc name args).
  Proof.
    intros IH Hpr Hls. apply Pe_leaf; [reflexivity| |exact Hpr|exact Hls].
    cbn [pr_expr] in Hpr. cbn [ls_expr] in Hls. apply andb_true_iff in Hpr as [Hn Hpa].
    intros x ts Hx Ht. rewrite et_func in Hx. rewrite ek_func in Ht.
    apply bind_ok in Hx as [xs [Hxs Hx]]. apply bind_ok in Ht as [tss [Htss Ht]].
    injection Hx as <-. injection Ht as <-.
    destruct (join_lexes xs tss (IH Hpa Hls xs tss Hxs Htss)) as [HJ _].
    intros rest HD.
    replace ((name ++ 40%N :: join_sep [44; 32]%N xs ++ [41%N]) ++ rest)
      with (name ++ 40%N :: join_sep [44; 32]%N xs ++ 41%N :: rest)
      by (rewrite <- !app_assoc; cbn [app]; rewrite <- !app_assoc; reflexivity).
    rewrite (tok_function E name _ Hn).
    - rewrite (HJ (41%N :: rest) (DE_rp rest)). rewrite (tok_rparen E HE).
      cbn [app]. rewrite <- app_assoc. reflexivity.
    - destruct (exprs_join_head args xs Hpa Hxs) as [-> | Hh]; [reflexivity|].
      apply good_head_nospace. apply good_head_app. exact Hh.
  Qed.

  Lemma case_enil : Pes ENil.
  Proof. intros _ _ xs tss Hx Ht. injection Hx as <-. injection Ht as <-. constructor. Qed.

  Lemma case_econs e r : Pe e -> Pes r -> Pes (ECons e r).
  Proof.
    intros IHe IHr Hpr Hls xs tss Hx Ht. cbn [pr_exprs] in Hpr. cbn [ls_exprs] in Hls.
    apply andb_true_iff in Hpr as [Hpe Hpr]. apply andb_true_iff in Hls as [Hle Hlr].
    rewrite est_cons in Hx. rewrite esk_cons in Ht.
    apply bind_ok in Hx as [x [Hxe Hx]]. apply bind_ok in Hx as [xs' [Hxr Hx]].
    apply bind_ok in Ht as [t [Hte Ht]]. apply bind_ok in Ht as [tss' [Htr Ht]].
    injection Hx as <-. injection Ht as <-. constructor.
    - apply both_of_head.
      + destruct (IHe Hpe Hle) as [H1 _]. apply H1; assumption.
      + destruct (expr_head E ro HE e Hpe) as [Hh _]. apply Hh. exact Hxe.
    - apply IHr; assumption.
  Qed.

  (* selectors *)
  Lemma case_sname k : Ps (SName k).
  Proof.
    intros _ _ x ts Hx Ht. injection Hx as <-. injection Ht as <-.
    apply both_of_head; [intros rest _; apply (tok_string E k rest)|].
    rewrite canonical_string_body. ghc.
  Qed.

  Lemma case_sindex i : Ps (SIndex i).
  Proof.
    intros _ _ x ts Hx Ht. injection Hx as <-. injection Ht as <-.
    apply both_of_head.
    - intros rest HD. apply (tok_int E (str_of_Z i) rest (str_of_Z_shape i) HD).
    - apply dec_shape_head. apply str_of_Z_shape.
  Qed.

  Lemma opt_text_dec a : opt_dec (opt_text a).
  Proof. destruct a as [z|]; [right; apply str_of_Z_shape|left; reflexivity]. Qed.

  Lemma step_text_dec c : dec_shape (match c with Some z => str_of_Z z | None => [49%N] end).
  Proof.
    destruct c as [z|]; [apply str_of_Z_shape|].
    exists [], [49%N]. split; [reflexivity|]. split; [left; reflexivity|]. split; [discriminate|reflexivity].
  Qed.

  Lemma slice_sel_text a b c :
    sel_text E (SSlice a b c) =
    Ok (slice_text (opt_text a) (opt_text b) (match c with Some z => str_of_Z z | None => [49%N] end)).
  Proof. destruct a, b, c; reflexivity. Qed.

  Lemma case_sslice a b c : Ps (SSlice a b c).
  Proof.
    intros _ _ x ts Hx Ht. rewrite slice_sel_text in Hx. injection Hx as <-. injection Ht as <-.
    split; intros rest HD.
    - apply (tok_slice E); [apply opt_text_dec|apply opt_text_dec|apply step_text_dec|apply DE_nud; exact HD].
    - apply (tok_slice_space E HE); [apply opt_text_dec|apply opt_text_dec|apply step_text_dec|apply DE_nud; exact HD].
  Qed.

  Lemma case_swild : Ps SWild.
  Proof.
    intros _ _ x ts Hx Ht. injection Hx as <-. injection Ht as <-.
    apply both_of_head; [|ghc]. intros rest _. cbn [app]. apply (tok_wild E HE).
  Qed.

  Lemma case_skeys : Ps SKeys.
  Proof.
    intros _ _ x ts Hx Ht. injection Hx as <-. injection Ht as <-.
    apply both_of_head; [|apply (ident_head0 E TKeys _ HE (base_keys E))].
    intros rest HD. apply (tok_ident E HE TKeys _ _ (base_keys E) (DE_nonsign rest HD)).
  Qed.

  Lemma case_sfilter e : Pe e -> Ps (SFilter e).
  Proof.
    intros IH Hpr Hls x ts Hx Ht. cbn [pr_sel] in Hpr. cbn [ls_sel] in Hls.
    rewrite st_filter in Hx. rewrite sk_filter in Ht.
    apply bind_ok in Hx as [a [Ha Hx]]. apply bind_ok in Ht as [ta [Hta Ht]].
    injection Hx as <-. injection Ht as <-.
    apply both_of_head; [|ghc]. intros rest HD. cbn [app]. rewrite (tok_filter E HE).
    destruct (IH Hpr Hls) as [_ IH2]. rewrite (IH2 1%nat a ta Ha Hta rest HD). reflexivity.
  Qed.

  Lemma case_lnil : Pss LNil.
  Proof. intros _ _ xs tss Hx Ht. injection Hx as <-. injection Ht as <-. constructor. Qed.

  Lemma case_lcons s r : Ps s -> Pss r -> Pss (LCons s r).
  Proof.
    intros IHs IHr Hpr Hls xs tss Hx Ht. cbn [pr_sels] in Hpr. cbn [ls_sels] in Hls.
    apply andb_true_iff in Hpr as [Hps Hpr]. apply andb_true_iff in Hls as [Hl1 Hlr].
    rewrite sst_cons in Hx. rewrite ssk_cons in Ht.
    apply bind_ok in Hx as [x [Hxe Hx]]. apply bind_ok in Hx as [xs' [Hxr Hx]].
    apply bind_ok in Ht as [t [Hte Ht]]. apply bind_ok in Ht as [tss' [Htr Ht]].
    injection Hx as <-. injection Ht as <-. constructor.
    - apply IHs; assumption.
    - apply IHr; assumption.
  Qed.

  (* segments *)
  Lemma case_gsel s : Ps s -> Pg (GSel s).
  Proof.
    intros IH Hpr Hls Hbare x ts Hx Ht. cbn [pr_seg] in Hpr. cbn [ls_seg] in Hls.
    destruct s as [k|i|a b c| | |e]; try discriminate Hbare.
    - injection Hx as <-. injection Ht as <-. intros rest _.
      change (tokenize E ((91%N :: canonical_string k ++ [93%N]) ++ rest) =
              (mkTok TLBracket [91%N] :: tk1 TSQ (TokPrint.canonical_body k) ++ [mkTok TRBracket [93%N]]) ++
              tokenize E rest).
      cbn [app]. rewrite <- app_assoc. cbn [app]. rewrite (tok_lbracket E HE).
      rewrite (tok_string E k). rewrite (tok_rbracket E HE). reflexivity.
    - rewrite gt_slice in Hx. rewrite gk_slice in Ht. rewrite slice_sel_text in Hx.
      cbn [bind] in Hx. injection Hx as <-. injection Ht as <-.
      intros rest _. cbn [app]. rewrite <- app_assoc. cbn [app]. rewrite (tok_lbracket E HE).
      rewrite (tok_slice E); [|apply opt_text_dec|apply opt_text_dec|apply step_text_dec|reflexivity].
      rewrite (tok_rbracket E HE). reflexivity.
    - injection Hx as <-. injection Ht as <-. intros rest _. cbn [app].
      rewrite (tok_lbracket E HE), (tok_wild E HE), (tok_rbracket E HE). reflexivity.
    - injection Hx as <-. injection Ht as <-. intros rest _.
      cbn [app]. rewrite <- app_assoc. cbn [app]. rewrite (tok_lbracket E HE).
      rewrite (tok_ident E HE TKeys _ (93%N :: rest) (base_keys E) eq_refl).
      rewrite (tok_rbracket E HE). reflexivity.
  Qed.

  Lemma case_gdescent : Pg GDescent.
  Proof.
    intros _ _ _ x ts Hx Ht. injection Hx as <-. injection Ht as <-. intros rest _. cbn [app].
    apply (tok_ddot E HE).
  Qed.

  Lemma case_glist items : Pss items -> Pg (GList items).
  Proof.
    intros IH Hpr Hls _ x ts Hx Ht. cbn [pr_seg] in Hpr. cbn [ls_seg] in Hls.
    rewrite gt_list in Hx. rewrite gk_list in Ht.
    apply bind_ok in Hx as [xs [Hxs Hx]]. apply bind_ok in Ht as [tss [Htss Ht]].
    injection Hx as <-. injection Ht as <-.
    destruct (join_lexes xs tss (IH Hpr Hls xs tss Hxs Htss)) as [HJ _].
    intros rest _. apply bracket_lexes. exact HJ.
  Qed.

  Lemma case_pnil : Pp PNil.
  Proof. intros _ _ x ts Hx Ht. injection Hx as <-. injection Ht as <-. intros rest _. reflexivity. Qed.

  Lemma case_pcons g r : Pg g -> Pp r -> Pp (PCons g r).
  Proof.
    intros IHg IHr Hpr Hls x ts Hx Ht. cbn [pr_segs] in Hpr. cbn [ls_segs] in Hls.
    apply andb_true_iff in Hpr as [Hpg Hpr].
    apply andb_true_iff in Hls as [Hls Hlr]. apply andb_true_iff in Hls as [Hbare Hlg].
    rewrite pt_cons in Hx. rewrite pk_cons in Ht.
    apply bind_ok in Hx as [xg [Hxg Hx]]. apply bind_ok in Hx as [xr [Hxr Hx]].
    apply bind_ok in Ht as [tg [Htg Ht]]. apply bind_ok in Ht as [tr [Htr Ht]].
    injection Hx as <-. injection Ht as <-.
    intros rest HD. rewrite <- !app_assoc.
    rewrite (IHg Hpg Hlg Hbare xg tg Hxg Htg (xr ++ rest) I).
    rewrite (IHr Hpr Hlr xr tr Hxr Htr rest I). reflexivity.
  Qed.

  Theorem text_tokens :
    (forall e, Pe e) /\ (forall es, Pes es) /\ (forall s, Ps s) /\ (forall l, Pss l) /\
    (forall g, Pg g) /\ (forall p, Pp p).
  Proof.
    apply (syntax_mutind Pe Pes Ps Pss Pg Pp).
    - exact case_nil.
    - exact case_undefined.
    - exact case_bool.
    - exact case_int.
    - exact case_float.
    - exact case_str.
    - exact case_regex.
    - intros; apply case_list; assumption.
    - intros; apply case_not; assumption.
    - intros; apply case_infix; assumption.
    - intros; apply case_self; assumption.
    - intros; apply case_root; assumption.
    - intros; apply case_ctx; assumption.
    - exact case_key.
    - intros; apply case_func; assumption.
    - exact case_enil.
    - intros; apply case_econs; assumption.
    - exact case_sname.
    - exact case_sindex.
    - exact case_sslice.
    - exact case_swild.
    - exact case_skeys.
    - intros; apply case_sfilter; assumption.
    - exact case_lnil.
    - intros; apply case_lcons; assumption.
    - intros; apply case_gsel; assumption.
    - exact case_gdescent.
    - intros; apply case_glist; assumption.
    - exact case_pnil.
    - intros; apply case_pcons; assumption.
  Qed.

  (* paths, compound queries *)
  Lemma path_lexes p x ts :
    pr_segs ro (p_segs p) = true -> ls_segs (p_segs p) = true ->
    path_text E p = Ok x -> path_toks E p = Ok ts -> lexes x ts nonsign_head /\ good_head x.
  Proof.
    intros Hpr Hls Hx Ht. unfold path_text in Hx. unfold path_toks in Ht.
    apply bind_ok in Hx as [xs [Hxs Hx]]. apply bind_ok in Ht as [tss [Htss Ht]].
    injection Hx as <-. injection Ht as <-.
    destruct text_tokens as [_ [_ [_ [_ [_ Hp]]]]].
    pose proof (Hp (p_segs p) Hpr Hls xs tss Hxs Htss) as Hl.
    destruct (p_fake p).
    - split; [|apply (ident_head E TFakeRoot _ _ HE (base_fake E))]. intros rest HD. rewrite <- app_assoc.
      rewrite (tok_ident E HE TFakeRoot _ _ (base_fake E) (segs_text_nonsign _ xs rest Hxs HD)).
      rewrite (Hl rest I). reflexivity.
    - split; [|apply (ident_head E TRoot _ _ HE (base_root E))]. intros rest HD. rewrite <- app_assoc.
      rewrite (tok_ident E HE TRoot _ _ (base_root E) (segs_text_nonsign _ xs rest Hxs HD)).
      rewrite (Hl rest I). reflexivity.
  Qed.

  Lemma rest_text_nud l x : rest_text E l = Ok x -> nonsign_head x.
  Proof.
    destruct l as [|[o p] l']; cbn [rest_text]; intros H.
    - injection H as <-. exact I.
    - apply bind_ok in H as [xp [_ H]]. apply bind_ok in H as [xs [_ H]]. injection H as <-. reflexivity.
  Qed.

  Lemma rest_lexes l : forall x ts,
    forallb (fun op => pr_segs ro (p_segs (snd op))) l = true ->
    forallb (fun op => ls_segs (p_segs (snd op))) l = true ->
    rest_text E l = Ok x -> rest_toks E l = Ok ts -> tokenize E x = ts.
  Proof.
    induction l as [|[o p] l' IH]; intros x ts Hpr Hls Hx Ht; cbn [rest_text rest_toks] in Hx, Ht.
    - injection Hx as <-. injection Ht as <-. reflexivity.
    - cbn [forallb snd] in Hpr, Hls.
      apply andb_true_iff in Hpr as [Hp1 Hp2]. apply andb_true_iff in Hls as [Hl1 Hl2].
      apply bind_ok in Hx as [xp [Hxp Hx]]. apply bind_ok in Hx as [xs [Hxs Hx]].
      apply bind_ok in Ht as [tp [Htp Ht]]. apply bind_ok in Ht as [tss [Htss Ht]].
      injection Hx as <-. injection Ht as <-.
      destruct (path_lexes p xp tp Hp1 Hl1 Hxp Htp) as [Hlp Hhp].
      pose proof (IH xs tss Hp2 Hl2 Hxs Htss) as Hrest.
      pose proof (rest_text_nud l' xs Hxs) as Hn.
      unfold sp. destruct o.
      + rewrite (tok_space_head (e_union E ++ 32%N :: xp ++ xs))
          by (apply (ident_head E TUnion _ _ HE (base_union E))).
        rewrite (tok_ident E HE TUnion _ (32%N :: xp ++ xs) (base_union E) eq_refl).
        rewrite (tok_space_head (xp ++ xs)) by (apply good_head_app; exact Hhp).
        rewrite (Hlp xs Hn). rewrite Hrest. reflexivity.
      + rewrite (tok_space_head (e_intersection E ++ 32%N :: xp ++ xs))
          by (apply (ident_head E TIntersect _ _ HE (base_inter E))).
        rewrite (tok_ident E HE TIntersect _ (32%N :: xp ++ xs) (base_inter E) eq_refl).
        rewrite (tok_space_head (xp ++ xs)) by (apply good_head_app; exact Hhp).
        rewrite (Hlp xs Hn). rewrite Hrest. reflexivity.
  Qed.

  Theorem query_lexes q t ts :
    printable ro q = true -> lex_safe q = true ->
    query_text E q = Ok t -> query_toks E q = Ok ts -> tokenize E t = ts.
  Proof.
    unfold printable, lex_safe, query_text, query_toks. intros Hpr Hls Hx Ht.
    apply andb_true_iff in Hpr as [Hp1 Hp2]. apply andb_true_iff in Hls as [Hl1 Hl2].
    apply bind_ok in Hx as [xp [Hxp Hx]]. apply bind_ok in Hx as [xs [Hxs Hx]].
    apply bind_ok in Ht as [tp [Htp Ht]]. apply bind_ok in Ht as [tss [Htss Ht]].
    injection Hx as <-. injection Ht as <-.
    destruct (path_lexes (q_first q) xp tp Hp1 Hl1 Hxp Htp) as [Hlp _].
    rewrite (Hlp xs (rest_text_nud _ xs Hxs)).
    rewrite (rest_lexes (q_rest q) xs tss Hp2 Hl2 Hxs Htss). reflexivity.
  Qed.
End Main.

(* C10_lex with the side condition it needs *)
Theorem lex_print_partial :
  forall (E : env) re_ok (q : query) (t : ustr) (ts : list token),
    default_tokens E -> printable re_ok q = true -> lex_safe q = true ->
    query_text E q = Ok t -> query_toks E q = Ok ts ->
    tokenize E t = ts.
Proof.
  intros E re_ok q t ts HE Hpr Hls Hx Ht.
  apply (query_lexes E re_ok (default_tokens_ok E HE) q t ts Hpr Hls Hx Ht).
Qed.

(* the same for every admissible assignment of spellings to the eight identifiers (C17) *)
Theorem lex_print_env_safe :
  forall (E : env) re_ok (q : query) (t : ustr) (ts : list token),
    tokens_ok E = true -> printable re_ok q = true -> lex_safe q = true ->
    query_text E q = Ok t -> query_toks E q = Ok ts ->
    tokenize E t = ts.
Proof.
  intros E re_ok q t ts HT Hpr Hls Hx Ht. apply (query_lexes E re_ok HT q t ts Hpr Hls Hx Ht).
Qed.

Definition default_tokens_ok : forall E, default_tokens E -> tokens_ok E = true :=
  LexSteps.default_tokens_ok.

(* two bare slices in a row (what "$1:2 3:4" compiles to) are printed in brackets and read back
   as the same tokens *)
Definition two_slices : query :=
  mkQuery (mkPath false (PCons (GSel (SSlice (Some 1%Z) (Some 2%Z) None))
                        (PCons (GSel (SSlice (Some 3%Z) (Some 4%Z) None)) PNil))) [].

Example two_slices_roundtrip :
  compile default_env (fun _ => Some true) [36; 49; 58; 50; 32; 51; 58; 52]%N = Ok two_slices /\
  (* $[1:2:1][3:4:1] *)
  query_text default_env two_slices =
    Ok [36; 91; 49; 58; 50; 58; 49; 93; 91; 51; 58; 52; 58; 49; 93]%N /\
  lex_safe two_slices = true /\
  (exists ts, query_toks default_env two_slices = Ok ts /\
              tokenize default_env [36; 91; 49; 58; 50; 58; 49; 93; 91; 51; 58; 52; 58; 49; 93]%N = ts).
Proof.
  split; [vm_compute; reflexivity|]. split; [vm_compute; reflexivity|]. split; [reflexivity|].
  eexists. split; vm_compute; reflexivity.
Qed.

(* ---------------------------------------------------------------------- *)
(* the printer and the token printer fail in the same cases *)

Section OkSame.
  Variable E : env.

  Ltac okt :=
    repeat match goal with
           | H : is_ok ?a = is_ok ?b |- _ =>
               destruct a, b; cbn [is_ok] in H; try discriminate H; clear H
           end; try reflexivity.

  Definition Qe (e : fexpr) : Prop :=
    is_ok (expr_toks E e) = is_ok (expr_text E e) /\
    (forall par, is_ok (canon_toks E e par) = is_ok (canon_text E e par)).
  Definition Qes (es : fexprs) : Prop := is_ok (exprs_toks E es) = is_ok (exprs_text E es).
  Definition Qs (s : selector) : Prop := is_ok (sel_toks E s) = is_ok (sel_text E s).
  Definition Qss (l : sels) : Prop := is_ok (sels_toks E l) = is_ok (sels_text E l).
  Definition Qg (g : segment) : Prop := is_ok (seg_toks E g) = is_ok (seg_text E g).
  Definition Qp (p : segs) : Prop := is_ok (segs_toks E p) = is_ok (segs_text E p).

  Lemma Qe_leaf e : is_compound e = false -> is_ok (expr_toks E e) = is_ok (expr_text E e) -> Qe e.
  Proof.
    intros Hc H. split; [exact H|]. intros par. rewrite ct_leaf, ck_leaf by exact Hc. exact H.
  Qed.

  Theorem ok_same :
    (forall e, Qe e) /\ (forall es, Qes es) /\ (forall s, Qs s) /\ (forall l, Qss l) /\
    (forall g, Qg g) /\ (forall p, Qp p).
  Proof.
    apply (syntax_mutind Qe Qes Qs Qss Qg Qp); unfold Qes, Qs, Qss, Qg, Qp.
    - apply Qe_leaf; reflexivity.
    - apply Qe_leaf; reflexivity.
    - intros b. apply Qe_leaf; [reflexivity|]. destruct b; reflexivity.
    - intros z. apply Qe_leaf; reflexivity.
    - intros n. apply Qe_leaf; [reflexivity|]. rewrite ek_float.
      change (expr_text E (FFloat n)) with (float_repr n). destruct (float_repr n); reflexivity.
    - intros s. apply Qe_leaf; reflexivity.
    - intros p fl. apply Qe_leaf; reflexivity.
    - intros items IH. apply Qe_leaf; [reflexivity|]. rewrite et_list, ek_list. okt.
    - intros r [IH1 IH2]. split.
      + rewrite et_not, ek_not. okt.
      + intros par. rewrite ct_not, ck_not. specialize (IH2 7%nat). okt.
    - intros l [IHl1 IHl2] o r [IHr1 IHr2]. split.
      + rewrite et_infix, ek_infix. okt.
      + intros par. destruct (is_logical o) eqn:El.
        * destruct o; try discriminate.
          -- rewrite ct_and, ck_and. specialize (IHl2 4%nat). specialize (IHr2 4%nat). okt.
          -- rewrite ct_or, ck_or. specialize (IHl2 3%nat). specialize (IHr2 3%nat). okt.
        * rewrite (ct_cmp E l o r par El), (ck_cmp E l o r par El). clear IHl2 IHr2. okt.
    - intros p IH. apply Qe_leaf; [reflexivity|]. rewrite et_self, ek_self. okt.
    - intros fake p IH. apply Qe_leaf; [reflexivity|]. rewrite et_root, ek_root. okt.
    - intros p IH. apply Qe_leaf; [reflexivity|]. rewrite et_ctx, ek_ctx. okt.
    - apply Qe_leaf; reflexivity.
    - intros name args IH. apply Qe_leaf; [reflexivity|]. rewrite et_func, ek_func. okt.
    - reflexivity.
    - intros e [IH1 _] r IHr. rewrite est_cons, esk_cons. okt.
    - intros k. reflexivity.
    - intros i. reflexivity.
    - intros a b c. reflexivity.
    - reflexivity.
    - reflexivity.
    - intros e [_ IH2]. rewrite st_filter, sk_filter. specialize (IH2 1%nat). okt.
    - reflexivity.
    - intros s IHs r IHr. rewrite sst_cons, ssk_cons. okt.
    - intros s IH. destruct s; try reflexivity.
      + rewrite gt_sel_other, gk_sel_other by exact I. exact IH.
    - reflexivity.
    - intros items IH. rewrite gt_list, gk_list. okt.
    - reflexivity.
    - intros g IHg r IHr. rewrite pt_cons, pk_cons. okt.
  Qed.

  Lemma path_ok_same p : is_ok (path_toks E p) = is_ok (path_text E p).
  Proof.
    destruct ok_same as [_ [_ [_ [_ [_ H]]]]]. specialize (H (p_segs p)). unfold Qp in H.
    unfold path_toks, path_text.
    destruct (segs_toks E (p_segs p)), (segs_text E (p_segs p)); cbn [is_ok] in H; try discriminate H;
      reflexivity.
  Qed.

  Lemma rest_ok_same l : is_ok (rest_toks E l) = is_ok (rest_text E l).
  Proof.
    induction l as [|[o p] l IH]; [reflexivity|]. cbn [rest_toks rest_text].
    pose proof (path_ok_same p) as Hp.
    destruct (path_toks E p), (path_text E p); cbn [is_ok] in Hp; try discriminate Hp; cbn [bind]; try reflexivity.
    destruct (rest_toks E l), (rest_text E l); cbn [is_ok] in IH; try discriminate IH; reflexivity.
  Qed.
End OkSame.

Theorem text_toks_ok : forall E q t, query_text E q = Ok t -> exists ts, query_toks E q = Ok ts.
Proof.
  intros E q t H. unfold query_text in H. unfold query_toks.
  apply bind_ok in H as [x [Hx H]]. apply bind_ok in H as [xs [Hxs _]].
  pose proof (path_ok_same E (q_first q)) as H1. rewrite Hx in H1.
  pose proof (rest_ok_same E (q_rest q)) as H2. rewrite Hxs in H2.
  destruct (path_toks E (q_first q)) as [a|]; [|discriminate H1].
  destruct (rest_toks E (q_rest q)) as [b|]; [|discriminate H2].
  eexists. reflexivity.
Qed.

(* ---------------------------------------------------------------------- *)
(* lex_safe follows from the shape conditions of spec/Reparsable.v *)

Section ReparsableSafe.
  Variable E : env.
  Variable ro : ustr -> option bool.

  Lemma lit_ls e : is_lit e = true -> ls_expr e = true.
  Proof. destruct e; try discriminate; reflexivity. Qed.

  Definition Re (e : fexpr) : Prop := rp_expr E e = true -> pr_expr ro e = true -> ls_expr e = true.
  Definition Res (es : fexprs) : Prop :=
    (rp_args E es = true -> pr_exprs ro es = true -> ls_exprs es = true) /\
    (pr_lits ro es = true -> ls_exprs es = true).
  Definition Rs (s : selector) : Prop := rp_sel E s = true -> pr_sel ro s = true -> ls_sel s = true.
  Definition Rss (l : sels) : Prop := rp_sels E l = true -> pr_sels ro l = true -> ls_sels l = true.
  Definition Rg (g : segment) : Prop :=
    rp_seg E g = true -> pr_seg ro g = true -> seg_bare_ok g = true /\ ls_seg g = true.
  Definition Rp (p : segs) : Prop := rp_segs E p = true -> pr_segs ro p = true -> ls_segs p = true.

  Theorem reparsable_safe_all :
    (forall e, Re e) /\ (forall es, Res es) /\ (forall s, Rs s) /\ (forall l, Rss l) /\
    (forall g, Rg g) /\ (forall p, Rp p).
  Proof.
    apply (syntax_mutind Re Res Rs Rss Rg Rp); unfold Re, Res, Rs, Rss, Rg, Rp;
      try (intros; reflexivity).
    - (* FList *) intros items [_ IH] _ Hpr. cbn [pr_expr] in Hpr. cbn [ls_expr]. apply IH. exact Hpr.
    - (* FNot *) intros r IH Hrp Hpr. cbn [rp_expr pr_expr ls_expr] in *. apply IH; assumption.
    - (* FInfix *) intros l IHl o r IHr Hrp Hpr. cbn [rp_expr pr_expr ls_expr] in *.
      apply andb_true_iff in Hrp as [H1 H2]. apply andb_true_iff in Hpr as [H3 H4].
      rewrite (IHl H1 H3), (IHr H2 H4). reflexivity.
    - intros p IH Hrp Hpr. cbn [rp_expr pr_expr ls_expr] in *. apply IH; assumption.
    - intros fake p IH Hrp Hpr. cbn [rp_expr pr_expr ls_expr] in *. apply IH; assumption.
    - intros p IH Hrp Hpr. cbn [rp_expr pr_expr ls_expr] in *. apply IH; assumption.
    - (* FFunc *) intros name args [IH _] Hrp Hpr. cbn [rp_expr pr_expr ls_expr] in *.
      apply andb_true_iff in Hpr as [_ Hpr]. apply IH; assumption.
    - (* ENil *) split; intros; reflexivity.
    - (* ECons *) intros e IHe r [IHr1 IHr2]. split.
      + intros Hrp Hpr. cbn [rp_args pr_exprs ls_exprs] in *.
        apply andb_true_iff in Hrp as [Hrp H2]. apply andb_true_iff in Hrp as [_ H1].
        apply andb_true_iff in Hpr as [H3 H4]. rewrite (IHe H1 H3), (IHr1 H2 H4). reflexivity.
      + intros Hpr. cbn [pr_lits ls_exprs] in *.
        apply andb_true_iff in Hpr as [Hpr H2]. apply andb_true_iff in Hpr as [H1 _].
        rewrite (lit_ls e H1), (IHr2 H2). reflexivity.
    - (* SFilter *) intros e IH Hrp Hpr. cbn [rp_sel pr_sel ls_sel] in *. apply IH; assumption.
    - (* LCons *) intros s IHs r IHr Hrp Hpr. cbn [rp_sels pr_sels ls_sels] in *.
      apply andb_true_iff in Hrp as [H1 H2]. apply andb_true_iff in Hpr as [H3 H4].
      rewrite (IHs H1 H3), (IHr H2 H4). reflexivity.
    - (* GSel *) intros s IH Hrp Hpr. cbn [rp_seg pr_seg ls_seg] in *.
      apply andb_true_iff in Hrp as [Hb Hrp]. split; [|apply IH; assumption].
      destruct s; try discriminate Hb; reflexivity.
    - (* GDescent *) intros _ _. split; reflexivity.
    - (* GList *) intros items IH Hrp Hpr. cbn [rp_seg pr_seg ls_seg] in *.
      split; [reflexivity|apply IH; assumption].
    - (* PCons *) intros g IHg r IHr Hrp Hpr. cbn [rp_segs pr_segs ls_segs] in *.
      apply andb_true_iff in Hrp as [H1 H2]. apply andb_true_iff in Hpr as [H3 H4].
      destruct (IHg H1 H3) as [Hb Hl]. rewrite Hb, Hl, (IHr H2 H4). reflexivity.
  Qed.

  Theorem reparsable_lex_safe (q : query) :
    reparsable E q = true -> printable ro q = true -> lex_safe q = true.
  Proof.
    unfold reparsable, printable, lex_safe. intros Hrp Hpr.
    apply andb_true_iff in Hrp as [H1 H2]. apply andb_true_iff in Hpr as [H3 H4].
    destruct reparsable_safe_all as [_ [_ [_ [_ [_ Hp]]]]].
    rewrite (Hp _ H1 H3). cbn [andb].
    rewrite forallb_forall in *. intros op Hin. apply Hp; [apply H2|apply H4]; exact Hin.
  Qed.
End ReparsableSafe.

(* C10_lex for reparsable queries *)
Theorem lex_print_reparsable :
  forall (E : env) re_ok (q : query) (t : ustr) (ts : list token),
    default_tokens E -> printable re_ok q = true -> reparsable E q = true ->
    query_text E q = Ok t -> query_toks E q = Ok ts ->
    tokenize E t = ts.
Proof.
  intros E re_ok q t ts HE Hpr Hrp. apply (lex_print_partial E re_ok q t ts HE Hpr).
  apply (reparsable_lex_safe E re_ok q Hrp Hpr).
Qed.

Theorem lex_print_env :
  forall (E : env) re_ok (q : query) (t : ustr) (ts : list token),
    tokens_ok E = true -> printable re_ok q = true -> reparsable E q = true ->
    query_text E q = Ok t -> query_toks E q = Ok ts ->
    tokenize E t = ts.
Proof.
  intros E re_ok q t ts HT Hpr Hrp. apply (lex_print_env_safe E re_ok q t ts HT Hpr).
  apply (reparsable_lex_safe E re_ok q Hrp Hpr).
Qed.

(* without lex_safe the statement fails: a bare index selector (never built by the parser)
   followed by ".." prints as "$5..", which the lexer reads as the float "5." *)
Theorem lex_print_unsafe_refuted :
  ~ (forall (E : env) re_ok (q : query) (t : ustr) (ts : list token),
       default_tokens E -> printable re_ok q = true ->
       query_text E q = Ok t -> query_toks E q = Ok ts ->
       tokenize E t = ts).
Proof.
  intros H.
  assert (HE : default_tokens default_env) by (repeat split; reflexivity).
  specialize (H default_env (fun _ => Some true)
                (mkQuery (mkPath false (PCons (GSel (SIndex 5%Z)) (PCons GDescent PNil))) [])
                [36; 53; 46; 46]%N _ HE eq_refl eq_refl eq_refl).
  vm_compute in H. discriminate H.
Qed.
