(* PatchCompose.v — C20: the pointer made from a location resolves to that location, and the
   single-operation patches test / replace / remove edit exactly that node. *)
From JP Require Import Base Json PyStr Pointer Patch Rfc6901 Rfc6902 Edit PatchLemmas.
Local Open Scope Z_scope.

(* ---------------------------------------------------------------------- *)
(* json_eq is reflexive on well-formed values. *)

Lemma wf_obj l : wf_json (JObj l) = true ->
  keys_distinct (map fst l) = true /\ Forall (fun kv => wf_json (snd kv) = true) l.
Proof.
  simpl. intros H. apply andb_true_iff in H as [H1 H2]. split; auto.
  clear H1. induction l as [|[k v] l IH]; constructor.
  - apply andb_true_iff in H2 as [H2 _]. exact H2.
  - apply IH. apply andb_true_iff in H2 as [_ H2]. exact H2.
Qed.

Lemma wf_arr l : wf_json (JArr l) = true -> Forall (fun v => wf_json v = true) l.
Proof. simpl. intros H. apply Forall_forall. apply forallb_forall. exact H. Qed.

Lemma keys_distinct_lookup {A} (l : list (ustr * A)) k u :
  keys_distinct (map fst l) = true -> In (k, u) l -> lookup k l = Some u.
Proof.
  induction l as [|[k' v'] l IH]; simpl; intros Hk Hin; [contradiction|].
  apply andb_true_iff in Hk as [Hn Hk]. apply negb_true_iff in Hn.
  destruct Hin as [Hin|Hin].
  - injection Hin as -> ->. rewrite ustr_eqb_refl. reflexivity.
  - destruct (ustr_eqb k k') eqn:E.
    + apply ustr_eqb_spec in E. subst k'.
      assert (existsb (ustr_eqb k) (map fst l) = true) as Hex.
      { apply existsb_exists. exists k. split; [|apply ustr_eqb_refl].
        apply in_map_iff. exists (k, u). auto. }
      congruence.
    + apply IH; auto.
Qed.

Lemma json_eq_refl v : wf_json v = true -> json_eq v v = true.
Proof.
  induction v as [| b | n | s | l IH | l IH] using json_ind'; intros Hwf.
  - reflexivity.
  - destruct b; reflexivity.
  - simpl. unfold num_eqb. apply Z.eqb_refl.
  - simpl. apply ustr_eqb_refl.
  - apply wf_arr in Hwf. simpl.
    induction l as [|x l IHl]; [reflexivity|].
    apply Forall_cons_iff in IH as [IHx IH]. apply Forall_cons_iff in Hwf as [Hx Hwf].
    rewrite (IHx Hx). simpl. apply IHl; auto.
  - apply wf_obj in Hwf as [Hk Hwf]. simpl. rewrite Nat.eqb_refl. simpl.
    assert (Hall : forall k u, In (k, u) l -> lookup k l = Some u /\ json_eq u u = true).
    { intros k u Hin. split.
      - apply keys_distinct_lookup; auto.
      - rewrite Forall_forall in IH, Hwf. apply (IH (k, u) Hin). apply (Hwf (k, u) Hin). }
    clear IH Hwf Hk. revert Hall. generalize l at 1 4 as l1.
    induction l1 as [|[k u] l1 IHl]; intros Hall; [reflexivity|].
    destruct (Hall k u (or_introl eq_refl)) as [Hl He]. rewrite Hl, He. simpl.
    apply IHl. intros k' u' Hin. apply Hall. right. exact Hin.
Qed.

Lemma wf_step d a c : wf_json d = true -> step d a = Some c -> wf_json c = true.
Proof.
  intros Hwf Hs. destruct a as [k|i]; destruct d; simpl in Hs; try discriminate.
  - apply wf_obj in Hwf as [_ Hwf]. rewrite Forall_forall in Hwf.
    clear -Hs Hwf. induction l as [|[k' v] l IH]; simpl in Hs; [discriminate|].
    destruct (ustr_eqb k k').
    + injection Hs as <-. apply (Hwf (k', v)). left. reflexivity.
    + apply IH; auto. intros x Hx. apply Hwf. right. exact Hx.
  - apply wf_arr in Hwf. rewrite Forall_forall in Hwf. apply Hwf.
    rewrite nth_opt_nth_error in Hs. eapply nth_error_In. exact Hs.
Qed.

Lemma wf_node_at l : forall d c, wf_json d = true -> node_at d l = Some c -> wf_json c = true.
Proof.
  induction l as [|a l IH]; intros d c Hwf Hn; simpl in Hn.
  - injection Hn as <-. exact Hwf.
  - destruct (step d a) as [c0|] eqn:Hs; [|discriminate].
    eapply IH; [|exact Hn]. eapply wf_step; eauto.
Qed.

(* ---------------------------------------------------------------------- *)
(* Resolution of the pointer made from a location. *)

Definition of_part (p : part) : ppart :=
  match p with PKey k => PStr k | PIdx i => PInt (Z.of_nat i) end.

Lemma getitem_of_part l0 d a c :
  step d a = Some c -> getitem (RNode l0 d) (of_part a) = Ok (RNode (l0 ++ [a]) c).
Proof.
  intros Hs. destruct a as [k|i]; destruct d; simpl in Hs; try discriminate.
  - unfold getitem. cbn [rv_json of_part]. rewrite Hs. reflexivity.
  - unfold getitem. cbn [rv_json of_part].
    rewrite (py_list_index_in_range l (Z.of_nat i) c); [| lia | rewrite Nat2Z.id; exact Hs].
    rewrite Nat2Z.id. reflexivity.
Qed.

Lemma reduce_of_loc l : forall l0 d v,
  node_at d l = Some v -> reduce_getitem (RNode l0 d) (of_loc l) = Ok (RNode (l0 ++ l) v).
Proof.
  induction l as [|a l IH]; intros l0 d v Hn; simpl in Hn.
  - injection Hn as <-. rewrite app_nil_r. reflexivity.
  - destruct (step d a) as [c|] eqn:Hs; [|discriminate].
    change (of_loc (a :: l)) with (of_part a :: of_loc l). cbn [reduce_getitem].
    rewrite (getitem_of_part _ _ _ _ Hs). cbn [bind]. rewrite (IH _ _ _ Hn).
    rewrite <- app_assoc. reflexivity.
Qed.

Lemma of_loc_snoc l a : of_loc (l ++ [a]) = of_loc l ++ [of_part a].
Proof. unfold of_loc. rewrite map_app. reflexivity. Qed.

Lemma resolve_parent_of_loc_snoc d l a pv c :
  node_at d l = Some pv -> step pv a = Some c ->
  resolve_parent (of_loc (l ++ [a])) d = Ok (Some (RNode l pv), Some (RNode (l ++ [a]) c)).
Proof.
  intros Hn Hs. rewrite of_loc_snoc, resolve_parent_snoc.
  rewrite (reduce_of_loc l [] d pv Hn). cbn [bind app]. unfold lastres.
  rewrite (getitem_of_part _ _ _ _ Hs). reflexivity.
Qed.

Lemma node_at_snoc d l a c :
  node_at d (l ++ [a]) = Some c -> exists pv, node_at d l = Some pv /\ step pv a = Some c.
Proof.
  rewrite node_at_app. destruct (node_at d l) as [pv|]; [|discriminate].
  simpl. destruct (step pv a) as [c0|] eqn:Hs; [|discriminate].
  intros H. injection H as <-. eauto.
Qed.

(* ---------------------------------------------------------------------- *)
(* delete_at along a valid parent location. *)

Lemma delete_at_snoc l : forall d a pv,
  node_at d l = Some pv ->
  delete_at d (l ++ [a]) = option_map (set_at d l) (delete_at pv [a]).
Proof.
  induction l as [|q l IH]; intros d a pv Hn; simpl in Hn.
  - injection Hn as <-. cbn [app]. destruct (delete_at d [a]); simpl; rewrite ?set_at_nil; reflexivity.
  - destruct (step d q) as [c|] eqn:Hs; [|discriminate].
    rewrite <- app_comm_cons.
    destruct q as [k|i]; destruct d; simpl in Hs; try discriminate.
    + assert (E : delete_at (JObj l0) (PKey k :: l ++ [a]) =
                  option_map (fun c' => JObj (member_set l0 k c')) (delete_at c (l ++ [a]))).
      { destruct (l ++ [a]) eqn:E0; [destruct l; discriminate|]. cbn [delete_at]. rewrite Hs. reflexivity. }
      rewrite E, (IH _ _ _ Hn). destruct (delete_at pv [a]) as [y|]; [|reflexivity].
      cbn [option_map]. rewrite set_at_key, (upd_key_member_set _ _ _ _ Hs). reflexivity.
    + assert (E : delete_at (JArr l0) (PIdx i :: l ++ [a]) =
                  match delete_at c (l ++ [a]) with
                  | Some c' => option_map JArr (elem_replace l0 i c')
                  | None => None
                  end).
      { destruct (l ++ [a]) eqn:E0; [destruct l; discriminate|]. cbn [delete_at]. rewrite Hs. reflexivity. }
      rewrite E, (IH _ _ _ Hn). destruct (delete_at pv [a]) as [y|]; [|reflexivity].
      cbn [option_map]. rewrite set_at_idx.
      pose proof (upd_idx_elem_replace l0 i (fun v => set_at v l y) c Hs) as E1. cbv beta in E1.
      rewrite E1. reflexivity.
Qed.

(* ---------------------------------------------------------------------- *)
(* The three single-operation patches on the pointer of a location. *)

Lemma compose :
  forall (d : json) (l : loc) (v x : json),
    wf_json d = true -> node_at d l = Some v ->
    let p := of_loc l in
    Patch.apply [OpTest p v] d = Ok d /\
    (exists d', replace_at d l x = Some d' /\ Patch.apply [OpReplace p x] d = Ok d') /\
    (l <> [] -> exists d', delete_at d l = Some d' /\ Patch.apply [OpRemove p] d = Ok d') /\
    (l = [] -> exists k, Patch.apply [OpRemove p] d = Err (EPatch k)).
Proof.
  intros d l v x Hwf Hn p. subst p.
  pose proof (json_eq_refl v (wf_node_at l d v Hwf Hn)) as Heq.
  destruct (snoc_case l) as [->|[l1 [a ->]]].
  - simpl in Hn. injection Hn as <-.
    repeat split.
    + cbn [Patch.apply apply_op of_loc map]. unfold apply_test.
      change (resolve_parent [] d) with (Ok (None, Some (RNode [] d)) : result (option rv * option rv)).
      cbn [bind rv_json]. rewrite Heq. reflexivity.
    + exists x. split; reflexivity.
    + intros H; contradiction.
    + intros _. exists KPatch. reflexivity.
  - destruct (node_at_snoc _ _ _ _ Hn) as [pv [Hn1 Hs]].
    pose proof (resolve_parent_of_loc_snoc d l1 a pv v Hn1 Hs) as Hrp.
    repeat split.
    + cbn [Patch.apply apply_op]. unfold apply_test. rewrite Hrp. cbn [bind rv_json].
      rewrite Heq. reflexivity.
    + exists (set_at d (l1 ++ [a]) x). split; [eapply replace_at_set_at; eauto|].
      cbn [Patch.apply apply_op]. unfold apply_replace. rewrite Hrp. cbn [bind].
      rewrite of_loc_snoc, last_part_snoc. cbn [bind]. unfold with_parent.
      rewrite (set_at_app d l1 [a] pv x Hn1).
      destruct a as [k|i]; destruct pv as [| | | |xs|ms]; simpl in Hs; try discriminate.
      * cbn [of_part member_name part_text bind].
        rewrite set_at_key, (upd_key_member_set _ _ _ _ Hs), set_at_nil. reflexivity.
      * cbn [of_part array_index_of bind].
        pose proof (nth_opt_some_lt _ _ _ Hs) as Hlt.
        rewrite py_norm_index_in_range by lia. rewrite Nat2Z.id. cbn [bind].
        rewrite set_at_idx.
        pose proof (upd_idx_elem_replace xs i (fun v => set_at v [] x) _ Hs) as E1.
        cbv beta in E1. rewrite set_at_nil in E1. rewrite (elem_replace_ok xs i x Hlt) in E1.
        injection E1 as E1. rewrite E1. reflexivity.
    + intros _. rewrite (delete_at_snoc l1 d a pv Hn1).
      cbn [Patch.apply apply_op]. unfold apply_remove. rewrite Hrp. cbn [bind].
      rewrite of_loc_snoc, last_part_snoc. cbn [bind]. unfold with_parent.
      destruct a as [k|i]; destruct pv as [| | | |xs|ms]; simpl in Hs; try discriminate.
      * cbn [of_part member_name part_text bind]. unfold dict_has. rewrite Hs. cbn [bind].
        cbn [delete_at]. rewrite (member_remove_present _ _ _ Hs). cbn [option_map]. eauto.
      * cbn [of_part array_index_of bind].
        pose proof (nth_opt_some_lt _ _ _ Hs) as Hlt.
        rewrite py_norm_index_in_range by lia. rewrite Nat2Z.id. cbn [bind].
        cbn [delete_at]. rewrite (elem_remove_ok xs i Hlt). cbn [option_map]. eauto.
    + intros H. destruct l1; discriminate.
Qed.

(* ---------------------------------------------------------------------- *)
(* replace_at changes exactly the given location. *)

Lemma lookup_member_set_same ms k (c : json) : lookup k (member_set ms k c) = Some c.
Proof.
  induction ms as [|[k0 v0] ms IH]; simpl.
  - rewrite ustr_eqb_refl. reflexivity.
  - destruct (ustr_eqb k k0) eqn:E; simpl; rewrite E; auto.
Qed.

Lemma lookup_member_set_other ms k k' (c : json) :
  ustr_eqb k' k = false -> lookup k' (member_set ms k c) = lookup k' ms.
Proof.
  intros Hne. induction ms as [|[k0 v0] ms IH]; simpl.
  - rewrite Hne. reflexivity.
  - destruct (ustr_eqb k k0) eqn:E; simpl.
    + apply ustr_eqb_spec in E. subst k0. rewrite Hne. reflexivity.
    + rewrite IH. reflexivity.
Qed.

Lemma nth_opt_elem_replace_same xs : forall i (c : json) ys,
  elem_replace xs i c = Some ys -> nth_opt ys i = Some c.
Proof.
  induction xs as [|y xs IH]; intros i c ys H; simpl in H; [discriminate|].
  destruct i as [|i].
  - injection H as <-. reflexivity.
  - destruct (elem_replace xs i c) as [ys'|] eqn:E; [|discriminate].
    simpl in H. injection H as <-. simpl. eapply IH; eauto.
Qed.

Lemma nth_opt_elem_replace_other xs : forall i j (c : json) ys,
  elem_replace xs i c = Some ys -> j <> i -> nth_opt ys j = nth_opt xs j.
Proof.
  induction xs as [|y xs IH]; intros i j c ys H Hne; simpl in H; [discriminate|].
  destruct i as [|i].
  - injection H as <-. destruct j; [contradiction|]. reflexivity.
  - destruct (elem_replace xs i c) as [ys'|] eqn:E; [|discriminate].
    simpl in H. injection H as <-. destruct j as [|j]; [reflexivity|]. simpl.
    eapply IH; eauto.
Qed.

Lemma replace_at_exact :
  forall (d : json) (l : loc) (x d' : json),
    replace_at d l x = Some d' ->
    node_at d' l = Some x /\
    forall l', (forall k, l' <> l ++ k) -> (forall k, l <> l' ++ k) -> node_at d' l' = node_at d l'.
Proof.
  intros d l; revert d; induction l as [|a l IH]; intros d x d' H.
  - simpl in H. injection H as <-. split; [reflexivity|].
    intros l' H1 _. exfalso. apply (H1 l'). reflexivity.
  - destruct a as [k|i]; destruct d as [| | | |xs|ms]; simpl in H; try discriminate.
    + destruct (lookup k ms) as [c|] eqn:Hl; [|discriminate].
      destruct (replace_at c l x) as [c'|] eqn:Hr; [|discriminate].
      simpl in H. injection H as <-. destruct (IH _ _ _ Hr) as [IH1 IH2]. split.
      * simpl. rewrite lookup_member_set_same. exact IH1.
      * intros l' H1 H2. destruct l' as [|b l'].
        { exfalso. apply (H2 (PKey k :: l)). reflexivity. }
        destruct b as [k'|j]; simpl; [|reflexivity].
        destruct (ustr_eqb k' k) eqn:E.
        -- apply ustr_eqb_spec in E. subst k'. rewrite lookup_member_set_same, Hl. apply IH2.
           ++ intros k0 E0. apply (H1 k0). simpl. rewrite E0. reflexivity.
           ++ intros k0 E0. apply (H2 k0). simpl. rewrite E0. reflexivity.
        -- rewrite lookup_member_set_other by exact E. reflexivity.
    + destruct (nth_opt xs i) as [c|] eqn:Hn; [|discriminate].
      destruct (replace_at c l x) as [c'|] eqn:Hr; [|discriminate].
      destruct (elem_replace xs i c') as [ys|] eqn:He; [|discriminate].
      simpl in H. injection H as <-. destruct (IH _ _ _ Hr) as [IH1 IH2]. split.
      * simpl. rewrite (nth_opt_elem_replace_same _ _ _ _ He). exact IH1.
      * intros l' H1 H2. destruct l' as [|b l'].
        { exfalso. apply (H2 (PIdx i :: l)). reflexivity. }
        destruct b as [k'|j]; simpl; [reflexivity|].
        destruct (Nat.eq_dec j i) as [->|Hne].
        -- rewrite (nth_opt_elem_replace_same _ _ _ _ He), Hn. apply IH2.
           ++ intros k0 E0. apply (H1 k0). simpl. rewrite E0. reflexivity.
           ++ intros k0 E0. apply (H2 k0). simpl. rewrite E0. reflexivity.
        -- rewrite (nth_opt_elem_replace_other _ _ _ _ _ He Hne). reflexivity.
Qed.
