(* PointerNormal.v — a parsed pointer is made of normal parts, and parsing the spelling of a
   pointer made of normal parts gives the pointer back (needed for C15 reload). *)
From JP Require Import Base Json PyStr Pointer Rfc6901 PointerDomain PatchCorr.
Local Open Scope Z_scope.

Arguments max_int_index : simpl never.
Arguments min_int_index : simpl never.

(* ---------------------------------------------------------------------- *)
(* encode_token / decode_token *)

Lemma encode_token_escape t : encode_token t = escape t.
Proof.
  unfold encode_token. induction t as [|c t IH]; [reflexivity|].
  cbn [replace1 escape]. destruct (N.eqb c ch_tilde) eqn:Et.
  - cbn [app]. cbn [replace1]. change (N.eqb ch_tilde ch_slash) with false.
    change (N.eqb ch_0 ch_slash) with false. cbv iota. rewrite IH. reflexivity.
  - cbn [replace1]. destruct (N.eqb c ch_slash); rewrite IH; reflexivity.
Qed.

Definition no_ch (sep : N) (s : ustr) : bool := forallb (fun c => negb (N.eqb c sep)) s.

Lemma escape_no_slash t : no_ch ch_slash (escape t) = true.
Proof.
  unfold no_ch. induction t as [|c t IH]; [reflexivity|].
  cbn [escape]. destruct (N.eqb c ch_tilde) eqn:Et; [|destruct (N.eqb c ch_slash) eqn:Es].
  - cbn [forallb]. rewrite IH. reflexivity.
  - cbn [forallb]. rewrite IH. reflexivity.
  - cbn [forallb]. rewrite Es, IH. reflexivity.
Qed.

Lemma replace2_ne a b r x s : N.eqb x a = false -> replace2 a b r (x :: s) = x :: replace2 a b r s.
Proof. intros H. destruct s; cbn [replace2]; [reflexivity|]. rewrite H. reflexivity. Qed.

Lemma replace2_hit a b r s : replace2 a b r (a :: b :: s) = r ++ replace2 a b r s.
Proof. cbn [replace2]. rewrite !N.eqb_refl. reflexivity. Qed.

Lemma replace2_half a b r y s :
  N.eqb y b = false -> replace2 a b r (a :: y :: s) = a :: replace2 a b r (y :: s).
Proof. intros H. cbn [replace2]. rewrite H, andb_false_r. reflexivity. Qed.

Lemma decode_escape_1 t :
  replace2 ch_tilde ch_1 [ch_slash] (escape t) = replace1 ch_tilde [ch_tilde; ch_0] t.
Proof.
  induction t as [|c t IH]; [reflexivity|].
  cbn [escape replace1]. destruct (N.eqb c ch_tilde) eqn:Et; [|destruct (N.eqb c ch_slash) eqn:Es].
  - rewrite replace2_half by reflexivity. rewrite replace2_ne by reflexivity. rewrite IH. reflexivity.
  - rewrite replace2_hit. rewrite IH. apply N.eqb_eq in Es. subst c. reflexivity.
  - rewrite replace2_ne by exact Et. rewrite IH. reflexivity.
Qed.

Lemma decode_escape_0 t :
  replace2 ch_tilde ch_0 [ch_tilde] (replace1 ch_tilde [ch_tilde; ch_0] t) = t.
Proof.
  induction t as [|c t IH]; [reflexivity|].
  cbn [replace1]. destruct (N.eqb c ch_tilde) eqn:Et.
  - cbn [app]. rewrite replace2_hit. rewrite IH. apply N.eqb_eq in Et. subst c. reflexivity.
  - rewrite replace2_ne by exact Et. rewrite IH. reflexivity.
Qed.

Lemma decode_encode_token t : decode_token (encode_token t) = t.
Proof. unfold decode_token. rewrite encode_token_escape, decode_escape_1. apply decode_escape_0. Qed.

(* ---------------------------------------------------------------------- *)
(* split_on / join_with *)

Lemma split_on_single sep f : no_ch sep f = true -> split_on sep f = [f].
Proof.
  unfold no_ch. induction f as [|c f IH]; [reflexivity|]. cbn [forallb split_on]. intros H.
  apply andb_true_iff in H as [Hc Hf]. apply negb_true_iff in Hc. rewrite Hc, (IH Hf). reflexivity.
Qed.

Lemma split_on_app sep f rest :
  no_ch sep f = true -> split_on sep (f ++ sep :: rest) = f :: split_on sep rest.
Proof.
  unfold no_ch. induction f as [|c f IH]; cbn [forallb app split_on]; intros H.
  - rewrite N.eqb_refl. reflexivity.
  - apply andb_true_iff in H as [Hc Hf]. apply negb_true_iff in Hc. rewrite Hc, (IH Hf). reflexivity.
Qed.

Lemma split_join sep toks :
  toks <> [] -> Forall (fun f => no_ch sep f = true) toks -> split_on sep (join_with sep toks) = toks.
Proof.
  induction toks as [|f toks IH]; intros Hne Hall; [contradiction|].
  apply Forall_cons_iff in Hall as [Hf Hall].
  destruct toks as [|f' toks].
  - cbn [join_with]. apply split_on_single. exact Hf.
  - change (join_with sep (f :: f' :: toks)) with (f ++ sep :: join_with sep (f' :: toks)).
    rewrite (split_on_app _ _ _ Hf). rewrite IH; auto. discriminate.
Qed.

(* ---------------------------------------------------------------------- *)
(* decimal spelling: str(int(text)) = text for a canonical index text *)

Definition dstep (a : Z) (c : N) : Z := 10 * a + digit_val c.

Lemma dec_value_snoc s c : dec_value (s ++ [c]) = 10 * dec_value s + digit_val c.
Proof. unfold dec_value. rewrite fold_left_app. reflexivity. Qed.

Lemma digit_val_range c : is_ascii_digit c = true -> 0 <= digit_val c < 10.
Proof.
  unfold is_ascii_digit, digit_val. intros H. apply andb_true_iff in H as [H1 H2].
  apply N.leb_le in H1, H2. lia.
Qed.

Lemma digit_ch_val c : is_ascii_digit c = true -> digit_ch (digit_val c) = c.
Proof.
  intros H. pose proof (digit_val_range c H) as R. unfold digit_ch, digit_val in *.
  replace (Z.of_N c - 48 + 48) with (Z.of_N c) by lia. apply N2Z.id.
Qed.

Definition lead_nz (s : ustr) : bool :=
  match s with c :: _ => negb (N.eqb c 48) | [] => false end.

Lemma fold_dec_lower s : forallb is_ascii_digit s = true -> forall acc, 1 <= acc ->
  2 ^ Z.of_nat (length s) * acc <= fold_left (fun a c => 10 * a + digit_val c) s acc.
Proof.
  induction s as [|c s IH]; intros H acc Ha.
  - cbn [length fold_left]. change (2 ^ Z.of_nat 0) with 1. lia.
  - cbn [forallb] in H. apply andb_true_iff in H as [Hc Hs].
    pose proof (digit_val_range c Hc) as R.
    cbn [fold_left]. specialize (IH Hs (10 * acc + digit_val c)).
    assert (1 <= 10 * acc + digit_val c) as H1 by lia. specialize (IH H1).
    cbn [length]. rewrite Nat2Z.inj_succ, Z.pow_succ_r by lia.
    assert (0 < 2 ^ Z.of_nat (length s)) as Hp by (apply Z.pow_pos_nonneg; lia).
    nia.
Qed.

(* a digit string with a non-zero leading digit is at least 2^(length - 1) *)
Lemma dec_value_lower s : forallb is_ascii_digit s = true -> lead_nz s = true ->
  2 ^ Z.of_nat (length s - 1) <= dec_value s /\ 1 <= dec_value s.
Proof.
  destruct s as [|c s]; [discriminate|]. cbn [forallb lead_nz]. intros H Hnz.
  apply andb_true_iff in H as [Hc Hs]. apply negb_true_iff in Hnz. apply N.eqb_neq in Hnz.
  pose proof (digit_val_range c Hc) as R.
  assert (1 <= digit_val c) as H1.
  { unfold digit_val in *. unfold is_ascii_digit in Hc. apply andb_true_iff in Hc as [Hc1 _].
    apply N.leb_le in Hc1. lia. }
  unfold dec_value. cbn [fold_left length]. replace (S (length s) - 1)%nat with (length s) by lia.
  pose proof (fold_dec_lower s Hs (10 * 0 + digit_val c)) as L.
  replace (10 * 0 + digit_val c) with (digit_val c) in * by lia. specialize (L H1).
  assert (0 < 2 ^ Z.of_nat (length s)) as Hp by (apply Z.pow_pos_nonneg; lia).
  split; nia.
Qed.

Lemma dec_digits_spec : forall s,
  s <> [] -> forallb is_ascii_digit s = true -> (lead_nz s = true \/ length s = 1%nat) ->
  forall fuel acc, (length s <= fuel)%nat -> dec_digits_fuel fuel (dec_value s) acc = s ++ acc.
Proof.
  induction s as [|c s IH] using rev_ind; intros Hne Hd Hl fuel acc Hf; [contradiction|].
  rewrite forallb_app in Hd. apply andb_true_iff in Hd as [Hs Hc].
  cbn [forallb] in Hc. rewrite andb_true_r in Hc.
  pose proof (digit_val_range c Hc) as R.
  rewrite app_length in Hf. cbn [length] in Hf.
  destruct fuel as [|fuel]; [lia|]. cbn [dec_digits_fuel].
  rewrite dec_value_snoc.
  destruct s as [|c0 s].
  - change (dec_value []) with 0. replace (10 * 0 + digit_val c) with (digit_val c) by lia.
    destruct (Z.ltb_spec (digit_val c) 10); [|lia]. rewrite (digit_ch_val c Hc). reflexivity.
  - assert (Hl' : lead_nz (c0 :: s) = true).
    { destruct Hl as [Hl|Hl]; [exact Hl|]. rewrite app_length in Hl. cbn [length] in Hl. lia. }
    destruct (dec_value_lower (c0 :: s) Hs Hl') as [_ Hpos].
    destruct (Z.ltb_spec (10 * dec_value (c0 :: s) + digit_val c) 10); [lia|].
    replace ((10 * dec_value (c0 :: s) + digit_val c) / 10) with (dec_value (c0 :: s)).
    2:{ apply Z.div_unique with (r := digit_val c); lia. }
    replace ((10 * dec_value (c0 :: s) + digit_val c) mod 10) with (digit_val c).
    2:{ apply Z.mod_unique with (q := dec_value (c0 :: s)); lia. }
    rewrite IH; auto.
    + rewrite (digit_ch_val c Hc). rewrite <- app_assoc. reflexivity.
    + discriminate.
    + lia.
Qed.

Lemma dec_of_nonneg_value s :
  forallb is_ascii_digit s = true -> (lead_nz s = true \/ length s = 1%nat) ->
  dec_of_nonneg (dec_value s) = s.
Proof.
  intros Hd Hl. unfold dec_of_nonneg.
  assert (Hne : s <> []).
  { destruct s; [|discriminate]. destruct Hl as [Hl|Hl]; discriminate. }
  rewrite (dec_digits_spec s Hne Hd Hl); [apply app_nil_r|].
  destruct Hl as [Hl|Hl]; [|lia].
  destruct (dec_value_lower s Hd Hl) as [Hlow Hpos].
  apply Z.log2_le_pow2 in Hlow; lia.
Qed.

(* what index_of_text returns spells back to the text it was given *)
Lemma index_of_text_text u x : index_of_text u = Ok x -> part_text x = u.
Proof.
  unfold index_of_text.
  destruct (Nat.ltb 1 (length u) && starts_with_ch ch_0 u).
  { intros H. injection H as <-. reflexivity. }
  destruct (re_index_match u) eqn:Hre; cbn [negb].
  2:{ intros H. injection H as <-. reflexivity. }
  destruct (Z.ltb (int_of_index_text u) min_int_index || Z.ltb max_int_index (int_of_index_text u));
    [discriminate|].
  intros H. injection H as <-. cbn [part_text]. unfold str_of_Z.
  destruct u as [|c [|c' r]]; [discriminate| |].
  - (* one digit *)
    cbn [re_index_match] in Hre. cbn [int_of_index_text].
    assert (N.eqb c ch_minus = false) as Hm.
    { unfold is_ascii_digit, ch_minus in *. apply andb_true_iff in Hre as [H1 _].
      apply N.leb_le in H1. apply N.eqb_neq. lia. }
    rewrite Hm.
    assert (Hd : forallb is_ascii_digit [c] = true) by (cbn [forallb]; rewrite Hre; reflexivity).
    pose proof (digit_val_range c Hre) as R.
    assert (dec_value [c] = digit_val c) as Hv by (unfold dec_value; cbn [fold_left]; lia).
    destruct (Z.ltb_spec (dec_value [c]) 0); [lia|].
    apply dec_of_nonneg_value; auto.
  - cbn [re_index_match int_of_index_text] in *.
    destruct (N.eqb c ch_minus) eqn:Hm.
    + apply N.eqb_eq in Hm. subst c.
      apply andb_true_iff in Hre as [Hre Hd]. apply andb_true_iff in Hre as [_ Hnz].
      assert (Hl : lead_nz (c' :: r) = true) by exact Hnz.
      destruct (dec_value_lower (c' :: r) Hd Hl) as [_ Hpos].
      destruct (Z.ltb_spec (- dec_value (c' :: r)) 0); [|lia].
      rewrite Z.opp_involutive. rewrite dec_of_nonneg_value; auto.
    + apply andb_true_iff in Hre as [Hre Hd]. apply andb_true_iff in Hre as [_ Hnz].
      assert (Hl : lead_nz (c :: c' :: r) = true) by exact Hnz.
      destruct (dec_value_lower (c :: c' :: r) Hd Hl) as [_ Hpos].
      destruct (Z.ltb_spec (dec_value (c :: c' :: r)) 0); [lia|].
      apply dec_of_nonneg_value; auto.
Qed.

Lemma index_of_text_normal u x : index_of_text u = Ok x -> normal_part x.
Proof. intros H. unfold normal_part. rewrite (index_of_text_text u x H). exact H. Qed.

(* ---------------------------------------------------------------------- *)
(* parse produces normal parts; parse (encode p) = p for normal parts *)

Lemma map_result_Forall {A B} (f : A -> result B) (P : B -> Prop) :
  (forall a b, f a = Ok b -> P b) -> forall l l', map_result f l = Ok l' -> Forall P l'.
Proof.
  intros Hf. induction l as [|a l IH]; intros l' H; cbn [map_result] in H.
  - injection H as <-. constructor.
  - destruct (f a) as [b|e] eqn:Ea; [|discriminate]. cbn [bind] in H.
    destruct (map_result f l) as [bs|e]; [|discriminate]. cbn [bind] in H.
    injection H as <-. constructor; eauto.
Qed.

Lemma parse_normal mode s p : parse mode s = Ok p -> Forall normal_part p.
Proof.
  unfold parse. destruct (if mode then unicode_escape s else Ok s) as [s1|e]; [|discriminate].
  cbn [bind]. destruct (lstrip s1) as [|c s2].
  - intros H. injection H as <-. constructor.
  - destruct (negb (N.eqb c ch_slash)); [discriminate|].
    apply map_result_Forall. intros a b. apply index_of_text_normal.
Qed.

Lemma map_result_encode p : Forall normal_part p ->
  map_result (fun t => index_of_text (decode_token t)) (map (fun x => encode_token (part_text x)) p) = Ok p.
Proof.
  induction p as [|x p IH]; intros H; [reflexivity|].
  apply Forall_cons_iff in H as [Hx Hp]. cbn [map map_result].
  rewrite decode_encode_token. unfold normal_part in Hx. rewrite Hx. cbn [bind].
  rewrite (IH Hp). reflexivity.
Qed.

Lemma parse_encode mode p :
  Forall normal_part p -> (mode = false \/ no_backslash (encode p) = true) ->
  parse mode (encode p) = Ok p.
Proof.
  intros Hn Hm. destruct p as [|x p].
  - destruct mode; reflexivity.
  - unfold parse.
    assert (E1 : (if mode then unicode_escape (encode (x :: p)) else Ok (encode (x :: p))) = Ok (encode (x :: p))).
    { destruct mode; [|reflexivity]. destruct Hm as [Hm|Hm]; [discriminate|].
      unfold unicode_escape. unfold no_backslash in Hm. rewrite Hm. reflexivity. }
    rewrite E1. cbn [bind].
    set (toks := map (fun x => encode_token (part_text x)) (x :: p)).
    change (encode (x :: p)) with (ch_slash :: join_with ch_slash toks).
    change (lstrip (ch_slash :: join_with ch_slash toks)) with (ch_slash :: join_with ch_slash toks).
    change (negb (N.eqb ch_slash ch_slash)) with false. cbv iota.
    change (split_on ch_slash (ch_slash :: join_with ch_slash toks))
      with ([] :: split_on ch_slash (join_with ch_slash toks)).
    cbn [tl]. rewrite split_join.
    + apply map_result_encode. exact Hn.
    + discriminate.
    + unfold toks. apply Forall_forall. intros f Hf. apply in_map_iff in Hf as [y [<- _]].
      rewrite encode_token_escape. apply escape_no_slash.
Qed.

Theorem parse_roundtrip mode s p :
  parse mode s = Ok p -> (mode = false \/ no_backslash (encode p) = true) ->
  parse mode (encode p) = Ok p.
Proof. intros H. apply parse_encode. eapply parse_normal; eauto. Qed.
