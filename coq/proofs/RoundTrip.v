(* RoundTrip.v — C10 assembled: the lexer half (PrintLexProofs), the parser half
   (PrintParseProofs) and the normal-form lemmas (NormProofs) put together, plus the glue between
   the side conditions the three developments use. *)
From JP Require Import Base Json PyStr Syntax Lex Parse Eval Serialize TokPrint Printable Reparsable Gate
                       ParseProofs NormDomain TokensOk NormProofs SpellingProofs PrintParseProofs PrintLexProofs.

(* ---- Reparsable (shape of what the parser builds) implies NormProofs.bare_ok ------------------ *)
Section Glue.
  Variable E : env.
  Variable ro : ustr -> option bool.

  Lemma lit_bk e : is_lit e = true -> bk_expr e = true.
  Proof. destruct e; try discriminate; reflexivity. Qed.

  Definition Be (e : fexpr) : Prop := rp_expr E e = true -> pr_expr ro e = true -> bk_expr e = true.
  Definition Bes (es : fexprs) : Prop :=
    (rp_args E es = true -> pr_exprs ro es = true -> bk_exprs es = true) /\
    (pr_lits ro es = true -> bk_exprs es = true).
  Definition Bs (s : selector) : Prop := rp_sel E s = true -> pr_sel ro s = true -> bk_sel s = true.
  Definition Bss (l : sels) : Prop := rp_sels E l = true -> pr_sels ro l = true -> bk_sels l = true.
  Definition Bg (g : segment) : Prop := rp_seg E g = true -> pr_seg ro g = true -> bk_seg g = true.
  Definition Bp (p : segs) : Prop := rp_segs E p = true -> pr_segs ro p = true -> bk_segs p = true.

  Lemma reparsable_bare_all :
    (forall e, Be e) /\ (forall es, Bes es) /\ (forall s, Bs s) /\ (forall l, Bss l) /\
    (forall g, Bg g) /\ (forall p, Bp p).
  Proof.
    apply (syntax_mutind Be Bes Bs Bss Bg Bp); unfold Be, Bes, Bs, Bss, Bg, Bp;
      try (intros; reflexivity).
    - (* FList *) intros items [_ IH] _ Hpr. cbn [pr_expr] in Hpr. cbn [bk_expr]. apply IH. exact Hpr.
    - (* FNot *) intros r IH Hrp Hpr. cbn [rp_expr pr_expr bk_expr] in *. apply IH; assumption.
    - (* FInfix *) intros l IHl o r IHr Hrp Hpr. cbn [rp_expr pr_expr bk_expr] in *.
      apply andb_true_iff in Hrp as [H1 H2]. apply andb_true_iff in Hpr as [H3 H4].
      rewrite (IHl H1 H3), (IHr H2 H4). reflexivity.
    - intros p IH Hrp Hpr. cbn [rp_expr pr_expr bk_expr] in *. apply IH; assumption.
    - intros fake p IH Hrp Hpr. cbn [rp_expr pr_expr bk_expr] in *. apply IH; assumption.
    - intros p IH Hrp Hpr. cbn [rp_expr pr_expr bk_expr] in *. apply IH; assumption.
    - (* FFunc *) intros name args [IH _] Hrp Hpr. cbn [rp_expr pr_expr bk_expr] in *.
      apply andb_true_iff in Hpr as [_ Hpr]. apply IH; assumption.
    - (* ENil *) split; intros; reflexivity.
    - (* ECons *) intros e IHe r [IHr1 IHr2]. split.
      + intros Hrp Hpr. cbn [rp_args pr_exprs bk_exprs] in *.
        apply andb_true_iff in Hrp as [Hrp H2]. apply andb_true_iff in Hrp as [_ H1].
        apply andb_true_iff in Hpr as [H3 H4]. rewrite (IHe H1 H3), (IHr1 H2 H4). reflexivity.
      + intros Hpr. cbn [pr_lits bk_exprs] in *.
        apply andb_true_iff in Hpr as [Hpr H2]. apply andb_true_iff in Hpr as [H1 _].
        rewrite (lit_bk e H1), (IHr2 H2). reflexivity.
    - (* SFilter *) intros e IH Hrp Hpr. cbn [rp_sel pr_sel bk_sel] in *. apply IH; assumption.
    - (* LCons *) intros s IHs r IHr Hrp Hpr. cbn [rp_sels pr_sels bk_sels] in *.
      apply andb_true_iff in Hrp as [H1 H2]. apply andb_true_iff in Hpr as [H3 H4].
      rewrite (IHs H1 H3), (IHr H2 H4). reflexivity.
    - (* GSel *) intros s _ Hrp _. cbn [rp_seg] in Hrp.
      apply andb_true_iff in Hrp as [Hb _]. destruct s; try discriminate Hb; reflexivity.
    - (* GList *) intros items IH Hrp Hpr. cbn [rp_seg pr_seg bk_seg] in *. apply IH; assumption.
    - (* PCons *) intros g IHg r IHr Hrp Hpr. cbn [rp_segs pr_segs bk_segs] in *.
      apply andb_true_iff in Hrp as [H1 H2]. apply andb_true_iff in Hpr as [H3 H4].
      rewrite (IHg H1 H3), (IHr H2 H4). reflexivity.
  Qed.

  Lemma reparsable_bare_ok (q : query) :
    reparsable E q = true -> printable ro q = true -> bare_ok q = true.
  Proof.
    unfold reparsable, printable, bare_ok. intros Hrp Hpr.
    apply andb_true_iff in Hrp as [H1 H2]. apply andb_true_iff in Hpr as [H3 H4].
    destruct reparsable_bare_all as [_ [_ [_ [_ [_ Hp]]]]].
    rewrite (Hp _ H1 H3). cbn [andb].
    rewrite forallb_forall in *. intros op Hin. apply Hp; [apply H2|apply H4]; exact Hin.
  Qed.
End Glue.

(* ---- the domain of C10: what every compiled query satisfies ---------------------------------- *)
Lemma c10_domain_parts E ro q :
  c10_domain E ro q = true ->
  gate_query (e_min_index E) (e_max_index E) q = true /\ printable ro q = true /\
  reparsable E q = true /\ floats_stable q = true.
Proof.
  unfold c10_domain. intros H.
  apply andb_true_iff in H as [H Hf]. apply andb_true_iff in H as [H Hr]. apply andb_true_iff in H as [Hg Hp].
  repeat split; assumption.
Qed.

(* the string form compiles, to the normal form - for every admissible assignment of spellings *)
Theorem roundtrip_env :
  forall (E : env) re_ok (q : query) (t : ustr),
    tokens_ok E = true -> e_well_typed E = true -> e_unicode_escape E = true ->
    c10_domain E re_ok q = true ->
    query_text E q = Ok t ->
    compile E re_ok t = Ok (norm_query q).
Proof.
  intros E ro q t HE WT UE HD Ht.
  destruct (c10_domain_parts _ _ _ HD) as [Hg [Hp [Hr _]]].
  destruct (text_toks_ok E q t Ht) as [ts Hts].
  unfold compile. rewrite (lex_print_env E ro q t ts HE Hp Hr Ht Hts).
  apply parse_print; assumption.
Qed.

(* C07: everything the gate allows is accepted in its canonical spelling *)
Theorem accept_canonical :
  forall (E : env) re_ok (q : query) (t : ustr),
    tokens_ok E = true -> e_well_typed E = true -> e_unicode_escape E = true ->
    gate_query (e_min_index E) (e_max_index E) q = true ->
    printable re_ok q = true -> reparsable E q = true -> floats_stable q = true ->
    query_text E q = Ok t ->
    compile E re_ok t = Ok (norm_query q).
Proof.
  intros E ro q t HE WT UE Hg Hp Hr Hf Ht. apply (roundtrip_env E ro q t HE WT UE); [|exact Ht].
  unfold c10_domain. rewrite Hg, Hp, Hr, Hf. reflexivity.
Qed.

Theorem roundtrip :
  forall (E : env) re_ok (q : query) (t : ustr),
    default_tokens E -> e_well_typed E = true -> e_unicode_escape E = true ->
    c10_domain E re_ok q = true ->
    query_text E q = Ok t ->
    compile E re_ok t = Ok (norm_query q).
Proof. intros E ro q t HE. apply roundtrip_env. apply default_tokens_ok. exact HE. Qed.

(* the string form is a fixed point: printing what it compiles to gives the same text *)
Theorem fixed_point :
  forall (E : env) re_ok (q : query) (t : ustr),
    c10_domain E re_ok q = true ->
    query_text E q = Ok t -> query_text E (norm_query q) = Ok t.
Proof.
  intros E ro q t HD Ht.
  destruct (c10_domain_parts _ _ _ HD) as [_ [Hp [Hr Hf]]].
  rewrite (norm_text E q (reparsable_bare_ok E ro q Hr Hp) Hf). exact Ht.
Qed.

(* the normal form is again in the domain (so the round trip can be iterated), and is normal *)
Theorem domain_stable_env :
  forall (E : env) re_ok (q : query),
    in_range (e_min_index E) (e_max_index E) 1%Z = true ->
    e_well_typed E = true -> e_unicode_escape E = true -> tokens_ok E = true ->
    c10_domain E re_ok q = true ->
    forall t, query_text E q = Ok t ->
    c10_domain E re_ok (norm_query q) = true /\ norm_query (norm_query q) = norm_query q.
Proof.
  intros E ro q H1 WT UE HE HD t Ht.
  destruct (c10_domain_parts _ _ _ HD) as [Hg [Hp [Hr Hf]]].
  destruct (norm_stable E ro q H1 Hf Hg Hp) as [Hg' [Hp' Hn]].
  destruct (norm_domain q Hf) as [_ Hf'].
  split; [|exact Hn].
  unfold c10_domain. rewrite Hg', Hp', Hf'. cbn [andb]. rewrite andb_true_r.
  (* the normal form is what the parser built from the string form *)
  apply (compiled_reparsable E ro t (norm_query q) H1).
  apply (roundtrip_env E ro q t HE WT UE HD Ht).
Qed.

Theorem domain_stable :
  forall (E : env) re_ok (q : query),
    in_range (e_min_index E) (e_max_index E) 1%Z = true ->
    e_well_typed E = true -> e_unicode_escape E = true -> default_tokens E ->
    c10_domain E re_ok q = true ->
    forall t, query_text E q = Ok t ->
    c10_domain E re_ok (norm_query q) = true /\ norm_query (norm_query q) = norm_query q.
Proof. intros E ro q H1 WT UE HE. apply domain_stable_env; auto. apply default_tokens_ok. exact HE. Qed.

(* every compiled query is in the domain: the parser only accepts float literals whose repr reads
   back as the same float (FloatDomain.parsed_float_ok) *)
Theorem compiled_domain :
  forall (E : env) re_ok (text : ustr) (q : query),
    in_range (e_min_index E) (e_max_index E) 1%Z = true -> e_well_typed E = true ->
    compile E re_ok text = Ok q ->
    c10_domain E re_ok q = true.
Proof.
  intros E ro text q H1 WT Hc. unfold c10_domain.
  rewrite (gate_sound E ro text q WT Hc).
  rewrite (compiled_printable E ro text q Hc H1).
  rewrite (compiled_reparsable E ro text q H1 Hc).
  rewrite (compiled_floats_stable E ro text q Hc H1). reflexivity.
Qed.

(* the former statement, with the two float premises that are no longer needed *)
Theorem compiled_domain_partial :
  forall (E : env) re_ok (text : ustr) (q : query),
    in_range (e_min_index E) (e_max_index E) 1%Z = true -> e_well_typed E = true ->
    compile E re_ok text = Ok q ->
    floats_ok q = true -> floats_stable q = true ->
    c10_domain E re_ok q = true.
Proof. intros E ro text q H1 WT Hc _ _. exact (compiled_domain E ro text q H1 WT Hc). Qed.

(* ---- the headline statement, for the default environment ------------------------------------ *)
Lemma default_env_tokens : default_tokens default_env.
Proof. unfold default_tokens. repeat split; reflexivity. Qed.

Theorem string_form_total :
  forall re_ok (text : ustr) (q : query) (t : ustr),
    compile default_env re_ok text = Ok q ->
    query_text default_env q = Ok t ->
    exists q',
      compile default_env re_ok t = Ok q' /\
      (forall rf rs d ctx, compound_finditer default_env rf rs q' d ctx = compound_finditer default_env rf rs q d ctx) /\
      query_text default_env q' = Ok t /\
      c10_domain default_env re_ok q' = true.
Proof.
  intros ro text q t Hc Ht.
  assert (H1 : in_range (e_min_index default_env) (e_max_index default_env) 1%Z = true) by reflexivity.
  pose proof (compiled_domain default_env ro text q H1 eq_refl Hc) as HD.
  exists (norm_query q). split; [|split; [|split]].
  - apply (roundtrip default_env ro q t default_env_tokens eq_refl eq_refl HD Ht).
  - intros rf rs d ctx. apply norm_equiv.
  - apply (fixed_point default_env ro q t HD Ht).
  - apply (proj1 (domain_stable default_env ro q H1 eq_refl eq_refl default_env_tokens HD t Ht)).
Qed.

Theorem string_form :
  forall re_ok (text : ustr) (q : query) (t : ustr),
    compile default_env re_ok text = Ok q ->
    floats_ok q = true -> floats_stable q = true ->
    query_text default_env q = Ok t ->
    exists q',
      compile default_env re_ok t = Ok q' /\
      (forall rf rs d ctx, compound_finditer default_env rf rs q' d ctx = compound_finditer default_env rf rs q d ctx) /\
      query_text default_env q' = Ok t /\
      c10_domain default_env re_ok q' = true.
Proof.
  intros ro text q t Hc Hfo Hfs Ht.
  assert (H1 : in_range (e_min_index default_env) (e_max_index default_env) 1%Z = true) by reflexivity.
  pose proof (compiled_domain_partial default_env ro text q H1 eq_refl Hc Hfo Hfs) as HD.
  exists (norm_query q). split; [|split; [|split]].
  - apply (roundtrip default_env ro q t default_env_tokens eq_refl eq_refl HD Ht).
  - intros rf rs d ctx. apply norm_equiv.
  - apply (fixed_point default_env ro q t HD Ht).
  - apply (proj1 (domain_stable default_env ro q H1 eq_refl eq_refl default_env_tokens HD t Ht)).
Qed.


(* ---- C17: any admissible assignment of spellings -------------------------------------------- *)
(* the string form produced by an environment recompiles in that environment to an equivalent
   query with the same string form *)
Theorem string_form_env_total :
  forall (E : env) re_ok (text : ustr) (q : query) (t : ustr),
    tokens_ok E = true -> e_well_typed E = true -> e_unicode_escape E = true ->
    in_range (e_min_index E) (e_max_index E) 1%Z = true ->
    compile E re_ok text = Ok q ->
    query_text E q = Ok t ->
    exists q',
      compile E re_ok t = Ok q' /\
      (forall rf rs d ctx, compound_finditer E rf rs q' d ctx = compound_finditer E rf rs q d ctx) /\
      query_text E q' = Ok t /\
      c10_domain E re_ok q' = true.
Proof.
  intros E ro text q t HE WT UE H1 Hc Ht.
  pose proof (compiled_domain E ro text q H1 WT Hc) as HD.
  exists (norm_query q). split; [|split; [|split]].
  - apply (roundtrip_env E ro q t HE WT UE HD Ht).
  - intros rf rs d ctx. apply norm_equiv.
  - apply (fixed_point E ro q t HD Ht).
  - apply (proj1 (domain_stable_env E ro q H1 WT UE HE HD t Ht)).
Qed.

Theorem string_form_env :
  forall (E : env) re_ok (text : ustr) (q : query) (t : ustr),
    tokens_ok E = true -> e_well_typed E = true -> e_unicode_escape E = true ->
    in_range (e_min_index E) (e_max_index E) 1%Z = true ->
    compile E re_ok text = Ok q ->
    floats_ok q = true -> floats_stable q = true ->
    query_text E q = Ok t ->
    exists q',
      compile E re_ok t = Ok q' /\
      (forall rf rs d ctx, compound_finditer E rf rs q' d ctx = compound_finditer E rf rs q d ctx) /\
      query_text E q' = Ok t /\
      c10_domain E re_ok q' = true.
Proof.
  intros E ro text q t HE WT UE H1 Hc Hfo Hfs Ht.
  pose proof (compiled_domain_partial E ro text q H1 WT Hc Hfo Hfs) as HD.
  exists (norm_query q). split; [|split; [|split]].
  - apply (roundtrip_env E ro q t HE WT UE HD Ht).
  - intros rf rs d ctx. apply norm_equiv.
  - apply (fixed_point E ro q t HD Ht).
  - apply (proj1 (domain_stable_env E ro q H1 WT UE HE HD t Ht)).
Qed.

(* one query, written with the spellings of two environments: both texts compile, in their own
   environment, to the same compiled query, whose matches have the same values in both (and the
   same locations when the keys-selector spelling, which shows inside the location of a key match,
   is the same) *)
Theorem rename :
  forall (E E0 : env) re_ok (q : query) (t t0 : ustr),
    tokens_ok E = true -> tokens_ok E0 = true ->
    e_well_typed E = true -> e_unicode_escape E = true ->
    e_well_typed E0 = true -> e_unicode_escape E0 = true ->
    c10_domain E re_ok q = true -> c10_domain E0 re_ok q = true ->
    query_text E q = Ok t -> query_text E0 q = Ok t0 ->
    exists q',
      compile E re_ok t = Ok q' /\ compile E0 re_ok t0 = Ok q' /\
      (forall rf rs d ctx,
         on_ok (map m_val) (compound_finditer E rf rs q' d ctx) =
         on_ok (map m_val) (compound_finditer E0 rf rs q' d ctx)) /\
      (e_keys E = e_keys E0 ->
       forall rf rs d ctx,
         on_ok (map (fun m => (m_parts m, m_val m))) (compound_finditer E rf rs q' d ctx) =
         on_ok (map (fun m => (m_parts m, m_val m))) (compound_finditer E0 rf rs q' d ctx)) /\
      (forall rf rs d ctx, compound_finditer E rf rs q' d ctx = compound_finditer E rf rs q d ctx).
Proof.
  intros E E0 ro q t t0 HE HE0 WT UE WT0 UE0 HD HD0 Ht Ht0.
  exists (norm_query q). split; [|split; [|split; [|split]]].
  - apply (roundtrip_env E ro q t HE WT UE HD Ht).
  - apply (roundtrip_env E0 ro q t0 HE0 WT0 UE0 HD0 Ht0).
  - intros rf rs d ctx. apply values_independent.
  - intros Hk rf rs d ctx. apply nodes_independent. exact Hk.
  - intros rf rs d ctx. apply norm_equiv.
Qed.
