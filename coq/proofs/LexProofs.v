(* LexProofs.v — every token the lexer model produces is well-shaped: the text of an INT token
   without exponent and the non-empty texts of slice tokens are  -?\d+ , which int() accepts
   (or, with non-ASCII digits, is outside the model). *)
From Coq Require Import ZArith NArith List Bool Lia.
From JP Require Import Base Json PyStr PyJsonStr Syntax Gen_unicode Lex Parse PyStrLemmas ParseSpec.
Import ListNotations.

(* ---- int() on  -?\d+ ------------------------------------------------------------------------ *)

Definition int_shape (x : ustr) : Prop :=
  exists d, d <> [] /\ forallb is_udigit d = true /\ (x = d \/ x = 45%N :: d).

Lemma nd_zeros_high : forallb (fun z => N.leb 128 z) nd_zeros = true.
Proof. vm_compute. reflexivity. Qed.

Lemma udigit_ascii c : N.ltb c 128 = true -> is_udigit c = true -> is_ascii_digit c = true.
Proof.
  intros Hc Hu. unfold is_udigit in Hu. apply orb_true_iff in Hu as [H|H]; [exact H|].
  exfalso. apply existsb_exists in H as (z & Hz & Hr).
  pose proof nd_zeros_high as Hh. rewrite forallb_forall in Hh. specialize (Hh z Hz).
  apply andb_true_iff in Hr as [Hr _].
  apply N.leb_le in Hh. apply N.leb_le in Hr. apply N.ltb_lt in Hc. lia.
Qed.

Lemma digits_underscores_digits d : forallb is_ascii_digit d = true ->
  forall acc, exists z, digits_underscores d true acc = Some z.
Proof.
  induction d as [|c d IH]; intros Hd acc; [exists acc; reflexivity|].
  cbn [forallb] in Hd. apply andb_true_iff in Hd as [Hc Hd].
  cbn [digits_underscores]. rewrite Hc. apply IH. exact Hd.
Qed.

Lemma digits_underscores_nonempty d prev acc :
  d <> [] -> forallb is_ascii_digit d = true -> exists z, digits_underscores d prev acc = Some z.
Proof.
  destruct d as [|c d]; [intros H; contradiction H; reflexivity|]. intros _ Hd.
  cbn [forallb] in Hd. apply andb_true_iff in Hd as [Hc Hd].
  cbn [digits_underscores]. rewrite Hc. apply digits_underscores_digits. exact Hd.
Qed.

Lemma lstrip_head c s : py_isspace c = false -> lstrip (c :: s) = c :: s.
Proof. intros H. cbn [lstrip]. rewrite H. reflexivity. Qed.

Lemma strip_id c s l :
  py_isspace c = false -> py_isspace l = false -> strip (c :: s ++ [l]) = c :: s ++ [l].
Proof.
  intros Hc Hl. unfold strip, rstrip. rewrite lstrip_head by exact Hc.
  change (c :: s ++ [l]) with ((c :: s) ++ [l]). rewrite rev_app_distr. cbn [rev app].
  rewrite lstrip_head by exact Hl.
  change (l :: rev s ++ [c]) with ([l] ++ rev (c :: s)).
  rewrite rev_app_distr, rev_involutive. reflexivity.
Qed.

Lemma strip_id1 c : py_isspace c = false -> strip [c] = [c].
Proof. intros Hc. unfold strip, rstrip. rewrite lstrip_head by exact Hc. cbn [rev app]. rewrite lstrip_head by exact Hc. reflexivity. Qed.

(* a string whose first and last characters are not spaces is its own strip *)
Lemma strip_ends x c l :
  x <> [] -> hd c x = c -> last x l = l -> py_isspace c = false -> py_isspace l = false ->
  strip x = x.
Proof.
  intros Hx Hhd Hlast Hc Hl.
  destruct x as [|c0 s]; [contradiction Hx; reflexivity|]. cbn [hd] in Hhd. subst c0.
  destruct (exists_last (l := c :: s) Hx) as (pre & l0 & Heq).
  assert (l0 = l). { rewrite Heq in Hlast. rewrite last_last in Hlast. exact Hlast. }
  subst l0. destruct pre as [|c1 pre].
  - cbn [app] in Heq. injection Heq as -> ->. apply strip_id1. exact Hc.
  - cbn [app] in Heq. injection Heq as <- ->. apply strip_id; assumption.
Qed.

Lemma isspace_minus : py_isspace 45 = false.
Proof. reflexivity. Qed.

Lemma digit_not_sign c : is_ascii_digit c = true -> N.eqb c ch_minus = false /\ N.eqb c ch_plus = false.
Proof.
  intros H. apply digit_bounds in H. unfold ch_minus, ch_plus.
  split; apply N.eqb_neq; lia.
Qed.

Lemma int_shape_ok x : int_shape x -> int_text_ok x.
Proof.
  intros (d & Hne & Hd & Hx). unfold int_text_ok, py_int.
  destruct (is_ascii x) eqn:Hasc; cbn [negb]; [|discriminate].
  assert (Hdig : forallb is_ascii_digit d = true).
  { apply forallb_forall. intros c Hc. apply udigit_ascii.
    - unfold is_ascii in Hasc. rewrite forallb_forall in Hasc. apply Hasc.
      destruct Hx as [->| ->]; [exact Hc|right; exact Hc].
    - rewrite forallb_forall in Hd. apply Hd. exact Hc. }
  destruct (exists_last Hne) as (pre & l & Hdl).
  assert (Hl : is_ascii_digit l = true).
  { rewrite forallb_forall in Hdig. apply Hdig. rewrite Hdl. apply in_or_app. right. left. reflexivity. }
  destruct Hx as [->| ->].
  - destruct d as [|c d']; [contradiction Hne; reflexivity|].
    assert (Hc : is_ascii_digit c = true) by (cbn [forallb] in Hdig; apply andb_true_iff in Hdig; tauto).
    rewrite (strip_ends (c :: d') c l); try (apply isspace_digit; assumption); try reflexivity;
      [|discriminate|rewrite Hdl; apply last_last].
    destruct (digit_not_sign c Hc) as [-> ->].
    destruct (digits_underscores_nonempty (c :: d') false 0%Z Hne Hdig) as (z & ->). discriminate.
  - rewrite (strip_ends (45%N :: d) 45%N l); try reflexivity;
      [|discriminate|rewrite Hdl; change (45%N :: pre ++ [l]) with ((45%N :: pre) ++ [l]); apply last_last
       |apply isspace_digit; exact Hl].
    change (N.eqb 45 ch_minus) with true. cbv iota.
    destruct (digits_underscores_nonempty d false 0%Z Hne Hdig) as (z & ->). discriminate.
Qed.

(* ---- shapes produced by the lexer's matchers ---------------------------------------------- *)

Lemma span_forall p s : forall a b, span p s = (a, b) -> forallb p a = true.
Proof.
  induction s as [|c s IH]; intros a b H; cbn [span] in H.
  - injection H as <- <-. reflexivity.
  - destruct (p c) eqn:Hc.
    + destruct (span p s) as [a' b'] eqn:Hs. injection H as <- <-.
      cbn [forallb]. rewrite Hc. exact (IH a' b' eq_refl).
    + injection H as <- <-. reflexivity.
Qed.

Definition slice_txt (x : ustr) : Prop := x = [] \/ int_shape x.

Lemma span_udigit_shape s a b : span is_udigit s = (a, b) -> slice_txt a.
Proof.
  intros H. destruct a as [|c a']; [left; reflexivity|]. right.
  exists (c :: a'). split; [discriminate|]. split; [exact (span_forall _ _ _ _ H)|left; reflexivity].
Qed.

Ltac split_matches H :=
  repeat match type of H with
         | context [match ?m with _ => _ end] => destruct m eqn:?
         end.

Lemma opt_int_shape s a r : opt_int s = (a, r) -> slice_txt a.
Proof.
  unfold opt_int. intros H.
  destruct (span is_udigit s) as [a0 b0] eqn:Hs0.
  pose proof (span_udigit_shape s a0 b0 Hs0) as Hsh0.
  destruct s as [|c s']; [injection H as <- _; exact Hsh0|].
  destruct (span is_udigit s') as [d r'] eqn:Hs.
  assert (Hsh : slice_txt (45%N :: d) \/ d = []).
  { destruct d as [|c1 d']; [right; reflexivity|]. left. right. exists (c1 :: d').
    split; [discriminate|]. split; [exact (span_forall _ _ _ _ Hs)|right; reflexivity]. }
  split_matches H; try (injection H as <- _); try exact Hsh0; try (left; reflexivity);
    destruct Hsh as [Hsh|Hsh]; try discriminate Hsh; exact Hsh.
Qed.

Definition after_colon (start r : ustr) : option (ustr * ustr * ustr * ustr) :=
  let r1 := skip_ws r in
  let '(stop, r2) := opt_int r1 in
  let r3 := skip_ws r2 in
  match r3 with
  | 58%N :: r4 =>
      let r5 := skip_ws r4 in
      let '(step, r6) := opt_int r5 in
      Some (start, stop, step, r6)
  | _ => Some (start, stop, [], r3)
  end.

Definition try_colon (start r : ustr) : option (ustr * ustr * ustr * ustr) :=
  match skip_ws r with
  | 58%N :: r' => after_colon start r'
  | _ => None
  end.

Lemma match_slice_eq s :
  match_slice s =
  let '(start, r) := opt_int s in
  match try_colon start r with
  | Some x => Some x
  | None => match start with [] => None | _ => try_colon [] s end
  end.
Proof. reflexivity. Qed.

Lemma after_colon_shape start r a b c rest :
  after_colon start r = Some (a, b, c, rest) -> a = start /\ slice_txt b /\ slice_txt c.
Proof.
  unfold after_colon. cbv zeta. intros H.
  destruct (opt_int (skip_ws r)) as [stop r2] eqn:Ho1.
  pose proof (opt_int_shape _ _ _ Ho1) as Hstop.
  destruct (skip_ws r2) as [|n r4] eqn:Hws; [injection H as <- <- <- _; repeat split; auto; left; reflexivity|].
  destruct (opt_int (skip_ws r4)) as [step r6] eqn:Ho2.
  pose proof (opt_int_shape _ _ _ Ho2) as Hstep.
  split_matches H; injection H as <- <- <- _; repeat split; auto; left; reflexivity.
Qed.

Lemma try_colon_shape start r x : try_colon start r = Some x -> exists r', after_colon start r' = Some x.
Proof.
  unfold try_colon. intros H. split_matches H; try discriminate H; eauto.
Qed.

Lemma match_slice_shape s a b c rest :
  match_slice s = Some (a, b, c, rest) -> slice_txt a /\ slice_txt b /\ slice_txt c.
Proof.
  rewrite match_slice_eq. destruct (opt_int s) as [start r] eqn:Ho.
  pose proof (opt_int_shape _ _ _ Ho) as Hstart.
  destruct (try_colon start r) as [x|] eqn:Ht.
  - intros H. injection H as ->. apply try_colon_shape in Ht as (r' & Ha).
    apply after_colon_shape in Ha as (-> & Hb & Hc). auto.
  - destruct start as [|c0 start']; [discriminate|]. intros Ht2.
    apply try_colon_shape in Ht2 as (r' & Ha). apply after_colon_shape in Ha as (-> & Hb & Hc).
    repeat split; auto. left. reflexivity.
Qed.

Lemma has_exponent_app a b : has_exponent (a ++ b) = has_exponent a || has_exponent b.
Proof.
  unfold has_exponent. rewrite !contains_ch_app.
  destruct (contains_ch 101 a), (contains_ch 101 b), (contains_ch 69 a), (contains_ch 69 b); reflexivity.
Qed.

Lemma opt_exponent_shape s ex r : opt_exponent s = (ex, r) -> ex = [] \/ has_exponent ex = true.
Proof.
  unfold opt_exponent. intros H. destruct s as [|e s']; [injection H as <- _; left; reflexivity|].
  destruct (N.eqb e 101 || N.eqb e 69) eqn:He; [|injection H as <- _; left; reflexivity].
  match type of H with context [let '(a, b) := ?X in _] => destruct X as [sg s''] end.
  destruct (span is_udigit s'') as [d r']. destruct d; injection H as <- _; [left; reflexivity|].
  right. unfold has_exponent. rewrite !contains_ch_cons.
  rewrite (N.eqb_sym 101 e), (N.eqb_sym 69 e).
  apply orb_true_iff in He as [-> | ->]; cbn [orb]; [reflexivity|apply orb_true_r].
Qed.

Lemma match_int_ok s v r : match_int s = Some (v, false, r) -> tok_ok (mkTok TInt v).
Proof.
  unfold match_int. intros H.
  match type of H with context [let '(a, b) := ?X in _] => destruct X as [sg s1] eqn:Hsg end.
  assert (Hsign : sg = [] \/ sg = [45%N]).
  { clear H. split_matches Hsg; injection Hsg as <- _; auto. }
  destruct (span is_udigit s1) as [d s2] eqn:Hd.
  destruct d as [|c d']; [discriminate H|].
  destruct (opt_exponent s2) as [ex s3] eqn:Hex.
  destruct (at_boundary s3); [|discriminate H]. injection H as <- _ _.
  unfold tok_ok. cbn [tk tv]. intros Hne. apply int_shape_ok.
  rewrite has_exponent_app in Hne. apply orb_false_iff in Hne as [_ Hne].
  change (c :: d' ++ ex) with ((c :: d') ++ ex) in Hne.
  rewrite has_exponent_app in Hne. apply orb_false_iff in Hne as [_ Hne].
  destruct (opt_exponent_shape _ _ _ Hex) as [->|Hx]; [|rewrite Hx in Hne; discriminate Hne].
  rewrite app_nil_r. exists (c :: d'). split; [discriminate|]. split; [exact (span_forall _ _ _ _ Hd)|].
  destruct Hsign as [->| ->]; [left|right]; reflexivity.
Qed.

(* ---- environment tokens ----------------------------------------------------------------------- *)

Definition env_kind (k : tkind) : bool :=
  match k with
  | TRoot | TFakeRoot | TSelf | TKey | TUnion | TIntersect | TFilterCtx | TKeys => true
  | _ => false
  end.

Definition ins_tok (kt : tkind * ustr) : list (tkind * ustr) -> list (tkind * ustr) :=
  fix ins (l : list (tkind * ustr)) : list (tkind * ustr) :=
    match l with
    | [] => [kt]
    | x :: l' => if Nat.ltb (length (snd kt)) (length (snd x)) then x :: ins l' else kt :: l
    end.

Lemma ins_tok_cons kt x l :
  ins_tok kt (x :: l) = if Nat.ltb (length (snd kt)) (length (snd x)) then x :: ins_tok kt l else kt :: x :: l.
Proof. reflexivity. Qed.

Lemma ins_tok_kinds kt l :
  env_kind (fst kt) = true -> Forall (fun kt => env_kind (fst kt) = true) l ->
  Forall (fun kt => env_kind (fst kt) = true) (ins_tok kt l).
Proof.
  intros Hkt Hl. induction Hl as [|x l Hx Hl IH]; [repeat constructor; exact Hkt|].
  rewrite ins_tok_cons. destruct (Nat.ltb (length (snd kt)) (length (snd x))); repeat constructor; auto.
Qed.

Lemma env_tokens_eq E :
  env_tokens E =
  fold_right ins_tok []
    (filter (fun kt : tkind * ustr => match snd kt with [] => false | _ => true end)
       [(TRoot, e_root E); (TFakeRoot, e_fake_root E); (TSelf, e_self E); (TKey, e_key E);
        (TUnion, e_union E); (TIntersect, e_intersection E); (TFilterCtx, e_filter_context E);
        (TKeys, e_keys E)]).
Proof. reflexivity. Qed.

Lemma env_tokens_kinds E : Forall (fun kt => env_kind (fst kt) = true) (env_tokens E).
Proof.
  rewrite env_tokens_eq.
  match goal with |- context [filter ?p ?base] => assert (Hb : Forall (fun kt => env_kind (fst kt) = true) (filter p base)) end.
  { apply Forall_forall. intros kt Hin. apply filter_In in Hin as [Hin _].
    cbn [In] in Hin. repeat (destruct Hin as [<-|Hin]; [reflexivity|]). contradiction Hin. }
  induction Hb as [|kt l Hkt _ IH]; [constructor|].
  cbn [fold_right]. apply ins_tok_kinds; assumption.
Qed.

Lemma match_env_kind toks s k t r :
  Forall (fun kt => env_kind (fst kt) = true) toks ->
  match_env toks s = Some (k, t, r) -> env_kind k = true.
Proof.
  intros HF. induction HF as [|[k0 t0] toks Hk _ IH]; [discriminate|].
  cbn [match_env]. destruct (match_lit t0 s); [|exact IH].
  intros H. injection H as <- _ _. exact Hk.
Qed.

(* ---- the scanner ---------------------------------------------------------------------------- *)

Lemma first_some_P {A} (P : A -> Prop) (l : list (option A)) :
  Forall (fun o => forall x, o = Some x -> P x) l -> forall x, first_some l = Some x -> P x.
Proof.
  intros HF. induction HF as [|o l Ho _ IH]; intros x H; [discriminate H|].
  cbn [first_some fold_right] in H. destruct o as [y|]; [injection H as <-; apply Ho; reflexivity|].
  apply IH. exact H.
Qed.

Definition step_ok (st : lex_step) : Prop :=
  match st with LTok ts _ => Forall tok_ok ts | LIllegal _ => True end.

Ltac simple_alt :=
  let x := fresh "x" in let Hx := fresh "Hx" in
  intros x Hx; split_matches Hx; try discriminate Hx; injection Hx as <-;
  cbn [step_ok]; repeat (apply Forall_cons; [exact I|]); apply Forall_nil.

Lemma step1_ok E s : step_ok (step1 E s).
Proof.
  unfold step1. destruct s as [|c s']; [apply Forall_nil|]. cbv zeta.
  match goal with |- context [first_some ?l] => destruct (first_some l) as [st|] eqn:Hfs end; [|exact I].
  revert st Hfs. apply first_some_P.
  repeat apply Forall_cons; try apply Forall_nil; try solve [simple_alt].
  - (* LSLICE *)
    intros x Hx. destruct (match_slice (c :: s')) as [[[[a b] st] r]|] eqn:Hm; [|discriminate Hx].
    injection Hx as <-. apply match_slice_shape in Hm as (Ha & Hb & Hc).
    assert (Hok : forall t, slice_txt t -> t = [] \/ int_text_ok t).
    { intros t [->|Hs]; [left; reflexivity|right; apply int_shape_ok; exact Hs]. }
    cbn [step_ok]. repeat apply Forall_cons; try apply Forall_nil; unfold tok_ok; cbn [tk tv]; auto.
  - (* INT *)
    intros x Hx. destruct (match_int (c :: s')) as [[[v negexp] r]|] eqn:Hm; [|discriminate Hx].
    injection Hx as <-. cbn [step_ok]. apply Forall_cons; [|apply Forall_nil].
    destruct negexp; [exact I|]. exact (match_int_ok _ _ _ Hm).
  - (* environment tokens *)
    intros x Hx. destruct (match_env (env_tokens E) (c :: s')) as [[[k t] r]|] eqn:Hm; [|discriminate Hx].
    injection Hx as <-. apply (match_env_kind _ _ _ _ _ (env_tokens_kinds E)) in Hm.
    cbn [step_ok]. apply Forall_cons; [|apply Forall_nil].
    destruct k; try discriminate Hm; exact I.
Qed.

Lemma tokenize_fuel_ok E : forall fuel s, Forall tok_ok (tokenize_fuel fuel E s).
Proof.
  induction fuel as [|f IH]; intros s; [apply Forall_nil|].
  cbn [tokenize_fuel]. destruct s as [|c s']; [apply Forall_nil|].
  pose proof (step1_ok E (c :: s')) as Hs.
  destruct (step1 E (c :: s')) as [ts rest|c0].
  - destruct (Nat.ltb (length rest) (length (c :: s'))).
    + apply Forall_app. split; [exact Hs|apply IH].
    + apply Forall_cons; [exact I|apply Forall_nil].
  - apply Forall_cons; [exact I|apply Forall_nil].
Qed.

Theorem tokenize_ok E s : Forall tok_ok (tokenize E s).
Proof. apply tokenize_fuel_ok. Qed.
