(* SpellingProofs.v — C17: the evaluator reads the environment only through the root spelling
   (the path text of the root match) and the keys spelling (path text and location part of a key
   match).  Two runs of the same query under any two environments produce match lists that agree
   on the values, and on the locations as soon as the keys spelling is the same. *)
From JP Require Import Base Json PyStr PySlice Syntax Eval EvalEqns NormProofs TokensOk.

Section Spelling.
  Variable E E' : env.
  Variable rf : ustr -> reflags -> ustr -> option bool.
  Variable rs : ustr -> ustr -> option bool.

  (* ---------------------------------------------------------------------- *)
  (* Matches, match lists and results of the two runs. *)

  Definition msim (m m' : jmatch) : Prop :=
    m_val m = m_val m' /\ (e_keys E = e_keys E' -> m_parts m = m_parts m').

  Definition lsim (r r' : result (list jmatch)) : Prop :=
    match r, r' with
    | Ok l, Ok l' => Forall2 msim l l'
    | Err e, Err e' => e = e'
    | _, _ => False
    end.

  Lemma Forall2_map_same {A B C} (R : B -> C -> Prop) (f : A -> B) (g : A -> C) l :
    (forall x, In x l -> R (f x) (g x)) -> Forall2 R (map f l) (map g l).
  Proof.
    induction l as [|a l IH]; intros H; [constructor|]. cbn [map]. constructor.
    - apply H. left. reflexivity.
    - apply IH. intros x Hx. apply H. right. exact Hx.
  Qed.

  Lemma Forall2_flat_map_same {A B C} (R : B -> C -> Prop) (f : A -> list B) (g : A -> list C) l :
    (forall x, Forall2 R (f x) (g x)) -> Forall2 R (flat_map f l) (flat_map g l).
  Proof.
    intros H. induction l as [|a l IH]; [constructor|]. cbn [flat_map]. apply Forall2_app; auto.
  Qed.

  Lemma Forall2_flat_map {A A' B C} (Q : A -> A' -> Prop) (R : B -> C -> Prop)
        (f : A -> list B) (g : A' -> list C) l l' :
    (forall x y, Q x y -> Forall2 R (f x) (g y)) -> Forall2 Q l l' ->
    Forall2 R (flat_map f l) (flat_map g l').
  Proof.
    intros H Hl. induction Hl as [|a a' l l' Ha _ IH]; [constructor|]. cbn [flat_map].
    apply Forall2_app; auto.
  Qed.

  Lemma msim_child_key m m' k v : msim m m' -> msim (child_key m k v) (child_key m' k v).
  Proof. intros [Hv Hp]. split; [reflexivity|]. intros Hk. cbn. rewrite (Hp Hk). reflexivity. Qed.

  Lemma msim_child_idx m m' i v : msim m m' -> msim (child_idx m i v) (child_idx m' i v).
  Proof. intros [Hv Hp]. split; [reflexivity|]. intros Hk. cbn. rewrite (Hp Hk). reflexivity. Qed.

  (* ---------------------------------------------------------------------- *)
  (* The selectors. *)

  Lemma resolve_name_sim name m m' : msim m m' -> Forall2 msim (resolve_name name m) (resolve_name name m').
  Proof.
    intros H. pose proof H as [Hv _]. unfold resolve_name. rewrite <- Hv.
    destruct (m_val m); try constructor. destruct (lookup name l); constructor; [|constructor].
    apply msim_child_key. exact H.
  Qed.

  Lemma resolve_index_sim i m m' : msim m m' -> Forall2 msim (resolve_index i m) (resolve_index i m').
  Proof.
    intros H. pose proof H as [Hv Hp]. unfold resolve_index. rewrite <- Hv.
    destruct (m_val m); try constructor.
    - destruct (Z.ltb _ 0 || Z.leb _ _); [constructor|].
      destruct (nth_opt l _); constructor; [|constructor]. apply msim_child_idx. exact H.
    - destruct (lookup (str_of_Z i) l); constructor; [|constructor].
      split; [reflexivity|]. intros Hk. cbn. rewrite (Hp Hk). reflexivity.
  Qed.

  Lemma resolve_keys_sim m m' : msim m m' -> Forall2 msim (resolve_keys E m) (resolve_keys E' m').
  Proof.
    intros H. pose proof H as [Hv Hp]. unfold resolve_keys. rewrite <- Hv.
    destruct (m_val m); try constructor.
    apply Forall2_map_same. intros [i [k v]] _. split; [reflexivity|].
    intros Hk. cbn. rewrite (Hp Hk), Hk. reflexivity.
  Qed.

  Lemma resolve_slice_sim a b c m m' :
    msim m m' -> Forall2 msim (resolve_slice a b c m) (resolve_slice a b c m').
  Proof.
    intros H. pose proof H as [Hv _]. unfold resolve_slice. rewrite <- Hv.
    destruct (m_val m); try constructor.
    apply Forall2_flat_map_same. intros i. destruct (nth_opt l i); constructor; [|constructor].
    apply msim_child_idx. exact H.
  Qed.

  Lemma resolve_wild_sim m m' : msim m m' -> Forall2 msim (resolve_wild m) (resolve_wild m').
  Proof.
    intros H. pose proof H as [Hv _]. unfold resolve_wild. rewrite <- Hv.
    destruct (m_val m); try constructor.
    - apply Forall2_map_same. intros iv _. apply msim_child_idx. exact H.
    - apply Forall2_map_same. intros kv _. apply msim_child_key. exact H.
  Qed.

  Lemma expand_val_sim v : forall m m', msim m m' -> Forall2 msim (expand_val v m) (expand_val v m').
  Proof.
    induction v as [| b | n | s | xs IH | ms IH] using json_ind'; intros m m' H; try constructor.
    - cbn [expand_val]. generalize 0%nat.
      induction IH as [|c xs Hc _ IHxs]; intros i; [constructor|].
      apply Forall2_app; [|apply IHxs].
      destruct (is_container c); [|constructor].
      constructor; [apply msim_child_idx; exact H|]. apply Hc. apply msim_child_idx. exact H.
    - cbn [expand_val].
      induction IH as [|[k c] ms Hc _ IHms]; [constructor|]. cbn [snd] in Hc.
      apply Forall2_app; [|apply IHms].
      destruct (is_container c); [|constructor].
      constructor; [apply msim_child_key; exact H|]. apply Hc. apply msim_child_key. exact H.
  Qed.

  Lemma resolve_descent_sim m m' : msim m m' -> Forall2 msim (resolve_descent m) (resolve_descent m').
  Proof.
    intros H. unfold resolve_descent. constructor; [exact H|].
    destruct H as [Hv Hp]. rewrite <- Hv. apply expand_val_sim. split; auto.
  Qed.

  Lemma concat_results_sim rl rl' :
    Forall2 lsim rl rl' -> lsim (concat_results rl) (concat_results rl').
  Proof.
    induction 1 as [|r r' rl rl' Hr _ IH]; [constructor|]. cbn [concat_results].
    destruct r as [x|e]; destruct r' as [x'|e']; cbn in Hr; try contradiction; [|exact Hr].
    cbn [bind]. destruct (concat_results rl) as [y|e]; destruct (concat_results rl') as [y'|e'];
      cbn in IH; try contradiction; [|exact IH].
    cbn. apply Forall2_app; auto.
  Qed.

  Lemma concat_results_map_sim (f f' : jmatch -> result (list jmatch)) ms ms' :
    (forall m m', msim m m' -> lsim (f m) (f' m')) -> Forall2 msim ms ms' ->
    lsim (concat_results (map f ms)) (concat_results (map f' ms')).
  Proof.
    intros Hf H. apply concat_results_sim. induction H; constructor; auto.
  Qed.

  (* ---------------------------------------------------------------------- *)
  (* Filter values: node lists related match by match, everything else equal. *)

  Inductive vsim' : fval -> fval -> Prop :=
  | VS'_nodes ns ns' : Forall2 msim ns ns' -> vsim' (VNodes ns) (VNodes ns')
  | VS'_val a : vsim' (VVal a) (VVal a)
  | VS'_undef : vsim' VUndef VUndef
  | VS'_regex p f : vsim' (VRegex p f) (VRegex p f).

  Lemma msim_refl m : msim m m.
  Proof. split; auto. Qed.

  Lemma vsim'_refl v : vsim' v v.
  Proof. destruct v; constructor. induction ns; constructor; auto. apply msim_refl. Qed.

  Definition rsim' (r r' : result fval) : Prop :=
    match r, r' with
    | Ok v, Ok v' => vsim' v v'
    | Err e, Err e' => e = e'
    | _, _ => False
    end.

  Definition rlsim' (r r' : result (list fval)) : Prop :=
    match r, r' with
    | Ok l, Ok l' => Forall2 vsim' l l'
    | Err e, Err e' => e = e'
    | _, _ => False
    end.

  Lemma Forall2_len {A B} (R : A -> B -> Prop) l l' : Forall2 R l l' -> length l = length l'.
  Proof. induction 1; cbn; congruence. Qed.

  Lemma is_truthy_sim' v v' : vsim' v v' -> is_truthy v = is_truthy v'.
  Proof. intros H. inversion H as [ns ns' Hn | | | ]; subst; try reflexivity. inversion Hn; reflexivity. Qed.

  Lemma unwrap_sim' v v' : vsim' v v' -> vsim' (unwrap v) (unwrap v').
  Proof.
    intros H. inversion H as [ns ns' Hn | | | ]; subst; try constructor.
    inversion Hn as [|n n' l l' Hnn Hl]; subst; [constructor; constructor|].
    inversion Hl; subst.
    - cbn. destruct Hnn as [-> _]. constructor.
    - cbn. constructor. constructor; auto.
  Qed.

  Lemma filter_compare_sim' l l' o r r' :
    vsim' l l' -> vsim' r r' -> filter_compare rf l o r = filter_compare rf l' o r'.
  Proof.
    intros Hl Hr.
    inversion Hl as [ln ln' Hln | la | | lp lf]; subst;
      inversion Hr as [rn rn' Hrn | ra | | rp rf']; subst; try reflexivity.
    all: try (inversion Hln; subst); try (inversion Hrn; subst); destruct o; try reflexivity.
    all: try (destruct ra as [| | | s | xs | ms]; reflexivity).
    all: try (destruct la as [| | | s | xs | ms]; reflexivity).
  Qed.

  Lemma unpack_arg_sim' t a a' : vsim' a a' -> vsim' (unpack_arg t a) (unpack_arg t a').
  Proof.
    intros H. inversion H as [ns ns' Hn | | | ]; subst; try (destruct t; constructor).
    destruct t; try (constructor; exact Hn).
    - inversion Hn as [|n n' l l' Hnn Hl]; subst; [constructor|].
      inversion Hl; subst; cbn; [destruct Hnn as [-> _]; constructor|]. constructor. constructor; auto.
    - inversion Hn as [|n n' l l' Hnn Hl]; subst; [constructor|].
      inversion Hl; subst; cbn; [destruct Hnn as [-> _]; constructor|]. constructor. constructor; auto.
  Qed.

  Lemma unpack_args_sim' ts : forall vs vs',
    Forall2 vsim' vs vs' -> rlsim' (unpack_args ts vs) (unpack_args ts vs').
  Proof.
    intros vs vs' H. revert ts. induction H as [|a a' vs vs' Ha _ IH]; intros ts.
    - destruct ts; cbn; constructor.
    - destruct ts as [|t ts]; [reflexivity|]. cbn. specialize (IH ts).
      destruct (unpack_args ts vs) as [r|e]; destruct (unpack_args ts vs') as [r'|e']; cbn in *; try contradiction.
      + constructor; auto. apply unpack_arg_sim'. exact Ha.
      + exact IH.
  Qed.

  Lemma py_len_sim' v v' : vsim' v v' -> py_len v = py_len v'.
  Proof.
    intros H. inversion H as [ns ns' Hn | | | ]; subst; try reflexivity.
    cbn. rewrite (Forall2_len _ _ _ Hn). reflexivity.
  Qed.

  Lemma as_str_sim' v v' : vsim' v v' -> as_str v = as_str v'.
  Proof. intros H. inversion H; reflexivity. Qed.

  (* the only thing a function reads of a node list: its length, and the value of a single node *)
  Definition nodes_obs (v : fval) : option (option json) :=
    match as_nodes v with Some [n] => Some (Some (m_val n)) | Some _ => Some None | None => None end.

  Lemma nodes_obs_sim' v v' : vsim' v v' -> nodes_obs v = nodes_obs v'.
  Proof.
    intros H. inversion H as [ns ns' Hn | | | ]; subst; try reflexivity. unfold nodes_obs. cbn.
    inversion Hn as [|n n' l l' Hnn Hl]; subst; [reflexivity|].
    inversion Hl; subst; [destruct Hnn as [-> _]|]; reflexivity.
  Qed.

  Lemma call_function_sim' name us us' :
    Forall2 vsim' us us' -> call_function rf rs name us = call_function rf rs name us'.
  Proof.
    intros H. rewrite !call_function_obs. unfold call_obs.
    destruct (ustr_eqb name name_length).
    { inversion H as [|a a' r r' Ha Hr]; subst; [reflexivity|]. inversion Hr; subst; [|reflexivity].
      rewrite (py_len_sim' _ _ Ha). reflexivity. }
    destruct (ustr_eqb name name_count).
    { inversion H as [|a a' r r' Ha Hr]; subst; [reflexivity|]. inversion Hr; subst; [|reflexivity].
      rewrite (py_len_sim' _ _ Ha). reflexivity. }
    destruct (ustr_eqb name name_value).
    { inversion H as [|a a' r r' Ha Hr]; subst; [reflexivity|]. inversion Hr; subst; [|reflexivity].
      pose proof (nodes_obs_sim' _ _ Ha) as Ho. pose proof (py_len_sim' _ _ Ha) as Hlen.
      unfold nodes_obs in Ho. rewrite <- Hlen.
      destruct (as_nodes a) as [[|n [|n2 l]]|]; destruct (as_nodes a') as [[|n' [|n2' l']]|];
        try discriminate; try reflexivity. injection Ho as ->. reflexivity. }
    destruct (ustr_eqb name name_match).
    { inversion H as [|a a' r r' Ha Hr]; subst; [reflexivity|].
      inversion Hr as [|b b' r2 r2' Hb Hr2]; subst; [reflexivity|]. inversion Hr2; subst; [|reflexivity].
      rewrite (as_str_sim' _ _ Ha), (as_str_sim' _ _ Hb). reflexivity. }
    destruct (ustr_eqb name name_search).
    { inversion H as [|a a' r r' Ha Hr]; subst; [reflexivity|].
      inversion Hr as [|b b' r2 r2' Hb Hr2]; subst; [reflexivity|]. inversion Hr2; subst; [|reflexivity].
      rewrite (as_str_sim' _ _ Ha), (as_str_sim' _ _ Hb). reflexivity. }
    destruct (ustr_eqb name name_typeof).
    { inversion H as [|a a' r r' Ha Hr]; subst; [reflexivity|]. inversion Hr; subst; [|reflexivity].
      inversion Ha as [ns ns' Hn | | | ]; subst; try reflexivity. cbn [as_nodes].
      inversion Hn as [|n n' l l' Hnn Hl]; subst; [reflexivity|].
      inversion Hl; subst; [destruct Hnn as [-> _]|]; reflexivity. }
    reflexivity.
  Qed.

  (* ---------------------------------------------------------------------- *)
  (* The evaluator, by mutual induction on the query. *)

  Lemma root_match_sim v : msim (root_match E v) (root_match E' v).
  Proof. split; reflexivity. Qed.

  Lemma filter_candidates_sim m m' : msim m m' ->
    Forall2 (fun c c' => fst c = fst c' /\ msim (snd c) (snd c')) (filter_candidates m) (filter_candidates m').
  Proof.
    intros H. pose proof H as [Hv _]. unfold filter_candidates. rewrite <- Hv.
    destruct (m_val m); try constructor.
    - apply Forall2_map_same. intros iv _. split; [reflexivity|]. apply msim_child_idx. exact H.
    - apply Forall2_map_same. intros kv _. split; [reflexivity|]. apply msim_child_key. exact H.
  Qed.

  Lemma lsim_nodes r r' : lsim r r' -> rsim' (ns <- r ;; Ok (VNodes ns)) (ns <- r' ;; Ok (VNodes ns)).
  Proof.
    destruct r as [l|e]; destruct r' as [l'|e']; cbn; try contradiction; auto. intros H. constructor. exact H.
  Qed.

  Lemma spelling_mut :
    (forall e root ctx cur key, rsim' (eval_f E rf rs e root ctx cur key) (eval_f E' rf rs e root ctx cur key)) /\
    (forall es root ctx cur key, rlsim' (eval_fs E rf rs es root ctx cur key) (eval_fs E' rf rs es root ctx cur key)) /\
    (forall s root ctx m m', msim m m' -> lsim (resolve_sel E rf rs s root ctx m) (resolve_sel E' rf rs s root ctx m')) /\
    (forall l root ctx m m', msim m m' -> lsim (resolve_sels E rf rs l root ctx m) (resolve_sels E' rf rs l root ctx m')) /\
    (forall g root ctx ms ms', Forall2 msim ms ms' ->
        lsim (resolve_seg E rf rs g root ctx ms) (resolve_seg E' rf rs g root ctx ms')) /\
    (forall p root ctx ms ms', Forall2 msim ms ms' ->
        lsim (resolve_segs E rf rs p root ctx ms) (resolve_segs E' rf rs p root ctx ms')).
  Proof.
    apply syntax_mutind.
    - intros; cbn; constructor.
    - intros; cbn; constructor.
    - intros; cbn; constructor.
    - intros; cbn; constructor.
    - intros; cbn; constructor.
    - intros; cbn; constructor.
    - intros; cbn; constructor.
    - (* list *) intros items IH root ctx cur key. rewrite !eval_list. specialize (IH root ctx cur key).
      destruct (eval_fs E rf rs items root ctx cur key) as [l|e];
        destruct (eval_fs E' rf rs items root ctx cur key) as [l'|e']; cbn in *; try contradiction; auto.
      assert (Em : map (fun v => match v with VVal j => j | _ => JNull end) l =
                   map (fun v => match v with VVal j => j | _ => JNull end) l').
      { induction IH as [|v v' l l' Hv _ IHl]; [reflexivity|]. cbn [map]. rewrite IHl. f_equal.
        inversion Hv; reflexivity. }
      rewrite Em. constructor.
    - (* not *) intros r IH root ctx cur key. rewrite !eval_not. specialize (IH root ctx cur key).
      destruct (eval_f E rf rs r root ctx cur key) as [v|e];
        destruct (eval_f E' rf rs r root ctx cur key) as [v'|e']; cbn in *; try contradiction; auto.
      rewrite (is_truthy_sim' _ _ IH). constructor.
    - (* infix *) intros l IHl o r IHr root ctx cur key. rewrite !eval_infix.
      specialize (IHl root ctx cur key). specialize (IHr root ctx cur key).
      destruct (eval_f E rf rs l root ctx cur key) as [lv|e];
        destruct (eval_f E' rf rs l root ctx cur key) as [lv'|e']; cbn in IHl; try contradiction;
        [|cbn; exact IHl].
      destruct (eval_f E rf rs r root ctx cur key) as [rv|e];
        destruct (eval_f E' rf rs r root ctx cur key) as [rv'|e']; cbn in IHr; try contradiction;
        [|cbn; exact IHr].
      cbn [bind rsim'].
      rewrite (filter_compare_sim' _ (if is_logical o then lv' else unwrap lv') o
                                   _ (if is_logical o then rv' else unwrap rv')).
      + constructor.
      + destruct (is_logical o); auto. apply unwrap_sim'; auto.
      + destruct (is_logical o); auto. apply unwrap_sim'; auto.
    - (* self *) intros p IH root ctx cur key. rewrite !eval_self. apply lsim_nodes. apply IH.
      constructor; [apply root_match_sim|constructor].
    - intros fake p IH root ctx cur key. rewrite !eval_root. apply lsim_nodes. apply IH.
      constructor; [apply root_match_sim|constructor].
    - intros p IH root ctx cur key. rewrite !eval_ctx. apply lsim_nodes. apply IH.
      constructor; [apply root_match_sim|constructor].
    - intros; cbn; constructor.
    - (* function *) intros name args IH root ctx cur key. rewrite !eval_func.
      destruct (signature name) as [[ts rt]|]; [|reflexivity].
      specialize (IH root ctx cur key).
      destruct (eval_fs E rf rs args root ctx cur key) as [l|e];
        destruct (eval_fs E' rf rs args root ctx cur key) as [l'|e']; cbn in IH; try contradiction;
        [|cbn; exact IH].
      cbn [bind]. pose proof (unpack_args_sim' ts _ _ IH) as Hu.
      destruct (unpack_args ts l) as [us|e]; destruct (unpack_args ts l') as [us'|e']; cbn in Hu;
        try contradiction; [|cbn; exact Hu].
      cbn [bind]. rewrite (call_function_sim' name _ _ Hu).
      destruct (call_function rf rs name us') as [v|e]; cbn; auto. apply vsim'_refl.
    - (* exprs *) intros; cbn; constructor.
    - intros e IHe r IHr root ctx cur key. rewrite !eval_fs_cons.
      specialize (IHe root ctx cur key). specialize (IHr root ctx cur key).
      destruct (eval_f E rf rs e root ctx cur key) as [v|x];
        destruct (eval_f E' rf rs e root ctx cur key) as [v'|x']; cbn in IHe; try contradiction;
        [|cbn; exact IHe].
      destruct (eval_fs E rf rs r root ctx cur key) as [l|x];
        destruct (eval_fs E' rf rs r root ctx cur key) as [l'|x']; cbn in IHr; try contradiction;
        [|cbn; exact IHr].
      cbn. constructor; auto.
    - (* selectors *) intros name root ctx m m' H. cbn. apply resolve_name_sim. exact H.
    - intros i root ctx m m' H. cbn. apply resolve_index_sim. exact H.
    - intros a b c root ctx m m' H. cbn. apply resolve_slice_sim. exact H.
    - intros root ctx m m' H. cbn. apply resolve_wild_sim. exact H.
    - intros root ctx m m' H. cbn. apply resolve_keys_sim. exact H.
    - intros e IH root ctx m m' H. rewrite !resolve_sel_filter. apply concat_results_sim.
      pose proof (filter_candidates_sim _ _ H) as Hc.
      induction Hc as [|[[cur key] child] [[cur' key'] child'] cs cs' [Hck Hch] _ IHc]; [constructor|].
      cbn [map]. constructor; [|exact IHc]. cbn [fst snd] in Hck, Hch. injection Hck as <- <-.
      specialize (IH root ctx cur key).
      destruct (eval_f E rf rs e root ctx cur key) as [v|x];
        destruct (eval_f E' rf rs e root ctx cur key) as [v'|x']; cbn in IH; try contradiction;
        [|cbn; exact IH].
      cbn [bind lsim]. rewrite (is_truthy_sim' _ _ IH). destruct (is_truthy v'); [constructor; [exact Hch|constructor]|constructor].
    - (* sels *) intros; cbn; constructor.
    - intros s IHs r IHr root ctx m m' H. rewrite !resolve_sels_cons.
      specialize (IHs root ctx m m' H). specialize (IHr root ctx m m' H).
      destruct (resolve_sel E rf rs s root ctx m) as [x|e];
        destruct (resolve_sel E' rf rs s root ctx m') as [x'|e']; cbn in IHs; try contradiction;
        [|cbn; exact IHs].
      destruct (resolve_sels E rf rs r root ctx m) as [y|e];
        destruct (resolve_sels E' rf rs r root ctx m') as [y'|e']; cbn in IHr; try contradiction;
        [|cbn; exact IHr].
      cbn. apply Forall2_app; auto.
    - (* segments *) intros s IH root ctx ms ms' H. rewrite !resolve_seg_sel.
      apply concat_results_map_sim; auto.
    - intros root ctx ms ms' H. rewrite !resolve_seg_descent. cbn.
      apply (Forall2_flat_map msim msim); auto. apply resolve_descent_sim.
    - intros items IH root ctx ms ms' H. rewrite !resolve_seg_list.
      apply concat_results_map_sim; auto.
    - (* paths *) intros root ctx ms ms' H. cbn. exact H.
    - intros g IHg r IHr root ctx ms ms' H. rewrite !resolve_segs_cons.
      specialize (IHg root ctx ms ms' H).
      destruct (resolve_seg E rf rs g root ctx ms) as [x|e];
        destruct (resolve_seg E' rf rs g root ctx ms') as [x'|e']; cbn in IHg; try contradiction;
        [|cbn; exact IHg].
      cbn [bind]. apply IHr. exact IHg.
  Qed.
End Spelling.

(* ---------------------------------------------------------------------- *)
(* Whole queries. *)

Section Compound.
  Variable E E' : env.
  Variable rf : ustr -> reflags -> ustr -> option bool.
  Variable rs : ustr -> ustr -> option bool.
  Notation msim := (msim E E').
  Notation lsim := (lsim E E').

  Lemma msim_vals ms ms' : Forall2 msim ms ms' -> map m_val ms = map m_val ms'.
  Proof. induction 1 as [|m m' ms ms' [Hv _] _ IH]; [reflexivity|]. cbn. rewrite Hv, IH. reflexivity. Qed.

  Lemma msim_nodes ms ms' : e_keys E = e_keys E' -> Forall2 msim ms ms' ->
    map (fun m => (m_parts m, m_val m)) ms = map (fun m => (m_parts m, m_val m)) ms'.
  Proof.
    intros Hk. induction 1 as [|m m' ms ms' [Hv Hp] _ IH]; [reflexivity|]. cbn. rewrite Hv, (Hp Hk), IH. reflexivity.
  Qed.

  Lemma finditer_sim p d ctx : lsim (finditer E rf rs p d ctx) (finditer E' rf rs p d ctx).
  Proof.
    unfold finditer. apply (spelling_mut E E' rf rs). constructor; [apply root_match_sim|constructor].
  Qed.

  Lemma filter_sim (vals : list json) ms ms' : Forall2 msim ms ms' ->
    Forall2 msim (filter (fun m => py_in_list (m_val m) vals) ms) (filter (fun m => py_in_list (m_val m) vals) ms').
  Proof.
    induction 1 as [|m m' ms ms' Hm _ IH]; [constructor|]. cbn [filter]. destruct Hm as [Hv Hp].
    rewrite <- Hv. destruct (py_in_list (m_val m) vals); auto. constructor; auto. split; auto.
  Qed.

  Lemma rest_sim rest d ctx : forall ms ms', Forall2 msim ms ms' ->
    lsim (compound_finditer_rest E rf rs ms rest d ctx) (compound_finditer_rest E' rf rs ms' rest d ctx).
  Proof.
    induction rest as [|[o p] rest IH]; intros ms ms' H; [exact H|]. cbn [compound_finditer_rest].
    pose proof (finditer_sim p d ctx) as Hf.
    destruct (finditer E rf rs p d ctx) as [x|e]; destruct (finditer E' rf rs p d ctx) as [x'|e'];
      cbn in Hf; try contradiction; [|cbn; exact Hf].
    cbn [bind]. apply IH. destruct o.
    - apply Forall2_app; auto.
    - rewrite (msim_vals _ _ Hf). apply filter_sim. exact H.
  Qed.

  Lemma compound_sim q d ctx :
    lsim (compound_finditer E rf rs q d ctx) (compound_finditer E' rf rs q d ctx).
  Proof.
    unfold compound_finditer. pose proof (finditer_sim (q_first q) d ctx) as Hf.
    destruct (finditer E rf rs (q_first q) d ctx) as [x|e]; destruct (finditer E' rf rs (q_first q) d ctx) as [x'|e'];
      cbn in Hf; try contradiction; [|cbn; exact Hf].
    cbn [bind]. apply rest_sim. exact Hf.
  Qed.

  Lemma findall_indep p d ctx : findall E rf rs p d ctx = findall E' rf rs p d ctx.
  Proof.
    unfold findall. pose proof (finditer_sim p d ctx) as Hf.
    destruct (finditer E rf rs p d ctx) as [x|e]; destruct (finditer E' rf rs p d ctx) as [x'|e'];
      cbn in Hf; try contradiction; cbn [bind]; [|congruence].
    rewrite (msim_vals _ _ Hf). reflexivity.
  Qed.

  Lemma findall_rest_indep rest d ctx : forall objs,
    compound_findall_rest E rf rs objs rest d ctx = compound_findall_rest E' rf rs objs rest d ctx.
  Proof.
    induction rest as [|[o p] rest IH]; intros objs; [reflexivity|]. cbn [compound_findall_rest].
    rewrite findall_indep. destruct (findall E' rf rs p d ctx); cbn [bind]; auto.
  Qed.
End Compound.

(* the values a query returns do not depend on the environment's spellings (nor on any other
   field of the environment): same values in the same order, or the same error *)
Theorem values_independent :
  forall (E E' : env) rf rs (q : query) (d ctx : json),
    on_ok (map m_val) (compound_finditer E rf rs q d ctx) =
    on_ok (map m_val) (compound_finditer E' rf rs q d ctx).
Proof.
  intros E E' rf rs q d ctx. pose proof (compound_sim E E' rf rs q d ctx) as H.
  destruct (compound_finditer E rf rs q d ctx) as [x|e]; destruct (compound_finditer E' rf rs q d ctx) as [x'|e'];
    cbn in H; try contradiction; cbn [on_ok]; [|congruence].
  rewrite (msim_vals E E' _ _ H). reflexivity.
Qed.

(* with the same keys spelling, the locations agree as well *)
Theorem nodes_independent :
  forall (E E' : env) rf rs (q : query) (d ctx : json),
    e_keys E = e_keys E' ->
    on_ok (map (fun m => (m_parts m, m_val m))) (compound_finditer E rf rs q d ctx) =
    on_ok (map (fun m => (m_parts m, m_val m))) (compound_finditer E' rf rs q d ctx).
Proof.
  intros E E' rf rs q d ctx Hk. pose proof (compound_sim E E' rf rs q d ctx) as H.
  destruct (compound_finditer E rf rs q d ctx) as [x|e]; destruct (compound_finditer E' rf rs q d ctx) as [x'|e'];
    cbn in H; try contradiction; cbn [on_ok]; [|congruence].
  rewrite (msim_nodes E E' _ _ Hk H). reflexivity.
Qed.

(* findall / compound findall return values only: they are independent outright *)
Theorem findall_independent :
  forall (E E' : env) rf rs (p : jpath) (d ctx : json),
    findall E rf rs p d ctx = findall E' rf rs p d ctx.
Proof. intros. apply findall_indep. Qed.

Theorem compound_findall_independent :
  forall (E E' : env) rf rs (q : query) (d ctx : json),
    compound_findall E rf rs q d ctx = compound_findall E' rf rs q d ctx.
Proof.
  intros E E' rf rs q d ctx. unfold compound_findall. rewrite (findall_indep E E').
  destruct (findall E' rf rs (q_first q) d ctx); cbn [bind]; auto. apply findall_rest_indep.
Qed.
