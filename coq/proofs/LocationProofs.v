(* LocationProofs.v — match locations: parts, normalized paths and pointers identify the node
   (statements of props/C03.v). *)
From JP Require Import Base Json PyStr PySlice PyJsonStr Syntax Eval Pointer Rfc6901 PointerDomain
                       NormPath NoKeys PyStrLemmas PointerProofs.

(* ---------------------------------------------------------------------- *)
(* character classes shared by json.dumps and the normalized-path printer *)

Lemma char_split (P : N -> Prop) :
  P 34%N -> P 92%N -> P 39%N -> P 8%N -> P 12%N -> P 10%N -> P 13%N -> P 9%N ->
  (forall c, (c < 32)%N -> c <> 8%N -> c <> 9%N -> c <> 10%N -> c <> 12%N -> c <> 13%N -> P c) ->
  (forall c, (32 <= c)%N -> c <> 34%N -> c <> 39%N -> c <> 92%N -> P c) ->
  forall c, P c.
Proof.
  intros H34 H92 H39 H8 H12 H10 H13 H9 Hctl Hplain c.
  destruct (N.eq_dec c 34) as [->|N34]; [assumption|].
  destruct (N.eq_dec c 92) as [->|N92]; [assumption|].
  destruct (N.eq_dec c 39) as [->|N39]; [assumption|].
  destruct (N.eq_dec c 8) as [->|N8]; [assumption|].
  destruct (N.eq_dec c 12) as [->|N12]; [assumption|].
  destruct (N.eq_dec c 10) as [->|N10]; [assumption|].
  destruct (N.eq_dec c 13) as [->|N13]; [assumption|].
  destruct (N.eq_dec c 9) as [->|N9]; [assumption|].
  destruct (N.lt_ge_cases c 32) as [Hlt|Hge].
  - apply Hctl; assumption.
  - apply Hplain; assumption.
Qed.

Ltac neq_false c :=
  repeat match goal with
         | |- context [N.eqb c ?k] =>
             replace (N.eqb c k) with false by (symmetry; apply N.eqb_neq; lia)
         end.

Lemma norm_char_ctl c :
  (c < 32)%N -> c <> 8%N -> c <> 9%N -> c <> 10%N -> c <> 12%N -> c <> 13%N ->
  norm_char c = [92; 117; 48; 48; nhex (c / 16); nhex (c mod 16)]%N.
Proof.
  intros. unfold norm_char. neq_false c.
  replace (N.ltb c 32) with true by (symmetry; apply N.ltb_lt; lia). reflexivity.
Qed.

Lemma norm_char_plain c :
  (32 <= c)%N -> c <> 39%N -> c <> 92%N -> norm_char c = [c].
Proof.
  intros. unfold norm_char. neq_false c.
  replace (N.ltb c 32) with false by (symmetry; apply N.ltb_ge; lia). reflexivity.
Qed.

Lemma dumps_char_ctl c :
  (c < 32)%N -> c <> 8%N -> c <> 9%N -> c <> 10%N -> c <> 12%N -> c <> 13%N ->
  dumps_char c = [92; 117; 48; 48; nhex (c / 16); nhex (c mod 16)]%N.
Proof.
  intros. unfold dumps_char. neq_false c.
  replace (N.ltb c 32) with true by (symmetry; apply N.ltb_lt; lia). reflexivity.
Qed.

Lemma dumps_char_plain c :
  (32 <= c)%N -> c <> 34%N -> c <> 92%N -> dumps_char c = [c].
Proof.
  intros. unfold dumps_char. neq_false c.
  replace (N.ltb c 32) with false by (symmetry; apply N.ltb_ge; lia). reflexivity.
Qed.

Lemma nhex_range n : (48 <= nhex n <= 57 \/ 97 <= nhex n)%N.
Proof. unfold nhex. destruct (N.ltb_spec n 10); lia. Qed.

(* ---------------------------------------------------------------------- *)
(* canonical_string = norm_name *)

Lemma replace1_app a r x y : replace1 a r (x ++ y) = replace1 a r x ++ replace1 a r y.
Proof.
  induction x as [|c x IH]; [reflexivity|].
  cbn [app replace1]. destruct (N.eqb c a); rewrite IH.
  - rewrite app_assoc. reflexivity.
  - reflexivity.
Qed.

Lemma replace1_cons_ne a r c x : N.eqb c a = false -> replace1 a r (c :: x) = c :: replace1 a r x.
Proof. intros H. cbn [replace1]. rewrite H. reflexivity. Qed.

Definition head_not (q : N) (s : ustr) : Prop :=
  match s with y :: _ => N.eqb y q = false | [] => True end.

Lemma replace2_esc a b r e rest :
  N.eqb e b = false -> N.eqb e a = false ->
  replace2 a b r (a :: e :: rest) = a :: e :: replace2 a b r rest.
Proof.
  intros Hb Ha. rewrite replace2_eq2. rewrite Hb, andb_false_r.
  rewrite replace2_cons_ne by assumption. reflexivity.
Qed.

Lemma replace2_skip a b r pre rest :
  Forall (fun c => N.eqb c a = false) pre ->
  replace2 a b r (pre ++ rest) = pre ++ replace2 a b r rest.
Proof.
  induction 1 as [|c pre Hc _ IH]; [reflexivity|].
  cbn [app]. rewrite replace2_cons_ne by assumption. rewrite IH. reflexivity.
Qed.

Lemma replace2_aa a b r rest :
  N.eqb a b = false -> head_not b rest ->
  replace2 a b r (a :: a :: rest) = a :: a :: replace2 a b r rest.
Proof.
  intros Hab Hh. rewrite replace2_eq2. rewrite Hab, andb_false_r.
  destruct rest as [|y rest]; [reflexivity|].
  cbn [head_not] in Hh. rewrite replace2_eq2. rewrite Hh, andb_false_r. reflexivity.
Qed.

(* the text after the first replacement: a double quote is back to itself *)
Definition mid_char (c : N) : ustr := if N.eqb c 34 then [34%N] else dumps_char c.

Lemma replace2_dumps_char c rest :
  head_not 34 rest ->
  replace2 92 34 [34%N] (dumps_char c ++ rest) = mid_char c ++ replace2 92 34 [34%N] rest.
Proof.
  intros Hh. revert c. apply char_split.
  - cbn [dumps_char mid_char]. change (dumps_char 34) with [92; 34]%N.
    change (mid_char 34) with [34%N]. cbn [app]. rewrite replace2_eq2. reflexivity.
  - change (dumps_char 92) with [92; 92]%N. change (mid_char 92) with [92; 92]%N. cbn [app].
    apply replace2_aa; [reflexivity|assumption].
  - change (dumps_char 39) with [39%N]. change (mid_char 39) with [39%N]. cbn [app].
    apply replace2_cons_ne. reflexivity.
  - change (dumps_char 8) with [92; 98]%N. change (mid_char 8) with [92; 98]%N. cbn [app].
    apply replace2_esc; reflexivity.
  - change (dumps_char 12) with [92; 102]%N. change (mid_char 12) with [92; 102]%N. cbn [app].
    apply replace2_esc; reflexivity.
  - change (dumps_char 10) with [92; 110]%N. change (mid_char 10) with [92; 110]%N. cbn [app].
    apply replace2_esc; reflexivity.
  - change (dumps_char 13) with [92; 114]%N. change (mid_char 13) with [92; 114]%N. cbn [app].
    apply replace2_esc; reflexivity.
  - change (dumps_char 9) with [92; 116]%N. change (mid_char 9) with [92; 116]%N. cbn [app].
    apply replace2_esc; reflexivity.
  - intros c Hlt N8 N9 N10 N12 N13. unfold mid_char.
    replace (N.eqb c 34) with false by (symmetry; apply N.eqb_neq; lia).
    rewrite dumps_char_ctl by assumption.
    change ([92; 117; 48; 48; nhex (c / 16); nhex (c mod 16)]%N ++ rest)
      with (92 :: 117 :: ([48; 48; nhex (c / 16); nhex (c mod 16)] ++ rest))%N.
    rewrite replace2_esc by reflexivity.
    pose proof (nhex_range (c / 16)) as H1. pose proof (nhex_range (c mod 16)) as H2.
    rewrite (replace2_skip 92 34 [34%N] [48; 48; nhex (c / 16); nhex (c mod 16)]%N rest).
    + reflexivity.
    + repeat constructor; apply N.eqb_neq; lia.
  - intros c Hge N34 N39 N92. unfold mid_char.
    replace (N.eqb c 34) with false by (symmetry; apply N.eqb_neq; lia).
    rewrite dumps_char_plain by assumption. cbn [app].
    apply replace2_cons_ne. apply N.eqb_neq. assumption.
Qed.

Lemma replace1_mid_char c : replace1 39 [92; 39]%N (mid_char c) = norm_char c.
Proof.
  revert c. apply char_split; try reflexivity.
  - intros c Hlt N8 N9 N10 N12 N13. unfold mid_char.
    replace (N.eqb c 34) with false by (symmetry; apply N.eqb_neq; lia).
    rewrite dumps_char_ctl, norm_char_ctl by assumption.
    pose proof (nhex_range (c / 16)) as H1. pose proof (nhex_range (c mod 16)) as H2.
    rewrite !replace1_cons_ne; try reflexivity; apply N.eqb_neq; lia.
  - intros c Hge N34 N39 N92. unfold mid_char.
    replace (N.eqb c 34) with false by (symmetry; apply N.eqb_neq; lia).
    rewrite dumps_char_plain, norm_char_plain by assumption.
    rewrite replace1_cons_ne by (apply N.eqb_neq; assumption). reflexivity.
Qed.

Lemma dumps_char_head c rest : head_not 34 (dumps_char c ++ rest).
Proof.
  revert c. apply char_split; try reflexivity.
  - intros c Hlt N8 N9 N10 N12 N13. rewrite dumps_char_ctl by assumption. reflexivity.
  - intros c Hge N34 N39 N92. rewrite dumps_char_plain by assumption.
    cbn [app head_not]. apply N.eqb_neq. assumption.
Qed.

Lemma dumps_body_head s : head_not 34 (dumps_body s).
Proof.
  destruct s as [|c s]; [exact I|]. unfold dumps_body. cbn [flat_map]. apply dumps_char_head.
Qed.

Lemma canonical_body s :
  replace1 39 [92; 39]%N (replace2 92 34 [34%N] (dumps_body s)) = flat_map norm_char s.
Proof.
  induction s as [|c s IH]; [reflexivity|].
  unfold dumps_body in *. cbn [flat_map].
  rewrite replace2_dumps_char by (apply (dumps_body_head s)).
  rewrite replace1_app. rewrite replace1_mid_char. rewrite IH. reflexivity.
Qed.

Lemma canonical_norm_name k : canonical_string k = norm_name k.
Proof. unfold canonical_string, norm_name. rewrite canonical_body. reflexivity. Qed.

(* ---------------------------------------------------------------------- *)
(* normalized paths *)

Lemma normpath_snoc l p : normpath (l ++ [p]) = normpath l ++ norm_segment p.
Proof.
  unfold normpath. rewrite flat_map_app. cbn [flat_map]. rewrite app_nil_r. reflexivity.
Qed.

Definition plain_char (c : N) : Prop := (32 <= c)%N /\ c <> 39%N /\ c <> 92%N.

Lemma flat_map_norm_plain s : Forall plain_char s -> flat_map norm_char s = s.
Proof.
  induction 1 as [|c s [H1 [H2 H3]] _ IH]; [reflexivity|].
  cbn [flat_map]. rewrite norm_char_plain by assumption. rewrite IH. reflexivity.
Qed.

Lemma digits_plain s : forallb is_ascii_digit s = true -> Forall plain_char s.
Proof.
  intros H. apply Forall_forall. intros c Hc. rewrite forallb_forall in H.
  specialize (H c Hc). apply digit_bounds in H. unfold plain_char. lia.
Qed.

Lemma dec_of_nonneg_digits n : (0 <= n)%Z -> forallb is_ascii_digit (dec_of_nonneg n) = true.
Proof. intros H. apply canon_digits. apply canonical_dec_of_nonneg. assumption. Qed.

Lemma str_of_Z_plain z : Forall plain_char (str_of_Z z).
Proof.
  destruct (Z_lt_le_dec z 0) as [Hlt|Hge].
  - rewrite str_of_Z_neg by assumption. constructor.
    + unfold plain_char, ch_minus. lia.
    + apply digits_plain. apply dec_of_nonneg_digits. lia.
  - rewrite str_of_Z_nonneg by assumption. apply digits_plain. apply dec_of_nonneg_digits. assumption.
Qed.

Lemma norm_name_decimal z : norm_name (str_of_Z z) = (39 :: str_of_Z z ++ [39])%N.
Proof. unfold norm_name. rewrite flat_map_norm_plain by apply str_of_Z_plain. reflexivity. Qed.

(* ---------------------------------------------------------------------- *)
(* well-formed documents: children, lookup *)

Lemma wf_obj_eq l :
  wf_json (JObj l) = keys_distinct (map fst l) && forallb (fun kv => wf_json (snd kv)) l.
Proof.
  cbn [wf_json]. f_equal. induction l as [|[k v] l IH]; [reflexivity|].
  cbn [forallb snd]. rewrite <- IH. reflexivity.
Qed.

Lemma wf_obj_in ms k v : wf_json (JObj ms) = true -> In (k, v) ms -> lookup k ms = Some v.
Proof.
  rewrite wf_obj_eq. intros H. apply andb_true_iff in H as [H _].
  induction ms as [|[k0 v0] ms IH]; intros Hin; [contradiction|].
  cbn [map fst keys_distinct] in H. apply andb_true_iff in H as [Hk Hd].
  apply negb_true_iff in Hk. cbn [lookup].
  destruct Hin as [Heq|Hin].
  - injection Heq as -> ->. rewrite ustr_eqb_refl. reflexivity.
  - destruct (ustr_eqb k k0) eqn:E.
    + apply ustr_eqb_spec in E. subst k0. exfalso.
      assert (Hex : existsb (ustr_eqb k) (map fst ms) = true).
      { apply existsb_exists. exists k. split; [|apply ustr_eqb_refl].
        apply in_map_iff. exists (k, v). split; [reflexivity|assumption]. }
      congruence.
    + apply IH; assumption.
Qed.

Lemma wf_obj_member ms k v : wf_json (JObj ms) = true -> In (k, v) ms -> wf_json v = true.
Proof.
  rewrite wf_obj_eq. intros H Hin. apply andb_true_iff in H as [_ H].
  rewrite forallb_forall in H. apply (H (k, v) Hin).
Qed.

Lemma lookup_in {A} k (ms : list (ustr * A)) v : lookup k ms = Some v -> In (k, v) ms.
Proof.
  induction ms as [|[k0 v0] ms IH]; intros H; [discriminate|].
  cbn [lookup] in H. destruct (ustr_eqb k k0) eqn:E.
  - apply ustr_eqb_spec in E. injection H as ->. subst k0. left. reflexivity.
  - right. apply IH. assumption.
Qed.

Lemma nth_opt_in {A} (l : list A) i v : nth_opt l i = Some v -> In v l.
Proof. rewrite nth_opt_nth_error. apply nth_error_In. Qed.

Lemma wf_arr_nth xs i v : wf_json (JArr xs) = true -> nth_opt xs i = Some v -> wf_json v = true.
Proof.
  cbn [wf_json]. intros H Hn. rewrite forallb_forall in H. apply H. apply (nth_opt_in _ _ _ Hn).
Qed.

Lemma enumerate_from_in {A} (xs : list A) :
  forall s i v, In (i, v) (enumerate_from s xs) -> exists j, i = (s + j)%nat /\ nth_opt xs j = Some v.
Proof.
  induction xs as [|x xs IH]; intros s i v H; [contradiction|].
  cbn [enumerate_from] in H. destruct H as [H|H].
  - injection H as <- <-. exists 0%nat. split; [lia|reflexivity].
  - destruct (IH _ _ _ H) as [j [Hi Hj]]. exists (S j). split; [lia|exact Hj].
Qed.

Lemma enumerate_in {A} (xs : list A) i v : In (i, v) (enumerate xs) -> nth_opt xs i = Some v.
Proof.
  intros H. destruct (enumerate_from_in xs 0 i v H) as [j [Hi Hj]]. subst i. exact Hj.
Qed.

(* ---------------------------------------------------------------------- *)
(* the invariant of evaluation *)

Definition good (d : json) (m : jmatch) : Prop :=
  node_at d (m_parts m) = Some (m_val m) /\ m_path m = normpath (m_parts m) /\
  wf_json (m_val m) = true.

Lemma good_child_key d m k v ms :
  good d m -> m_val m = JObj ms -> lookup k ms = Some v -> good d (child_key m k v).
Proof.
  intros [Hn [Hp Hw]] Hv Hl. unfold good, child_key. cbn [m_parts m_val m_path].
  split; [|split].
  - rewrite node_at_app, Hn, Hv. cbn [node_at step]. rewrite Hl. reflexivity.
  - rewrite normpath_snoc, Hp. rewrite canonical_norm_name. reflexivity.
  - rewrite Hv in Hw. apply (wf_obj_member ms k v Hw). apply lookup_in. assumption.
Qed.

Lemma good_child_idx d m i v xs :
  good d m -> m_val m = JArr xs -> nth_opt xs i = Some v -> good d (child_idx m i v).
Proof.
  intros [Hn [Hp Hw]] Hv Hl. unfold good, child_idx. cbn [m_parts m_val m_path].
  split; [|split].
  - rewrite node_at_app, Hn, Hv. cbn [node_at step]. rewrite Hl. reflexivity.
  - rewrite normpath_snoc, Hp. reflexivity.
  - rewrite Hv in Hw. apply (wf_arr_nth xs i v Hw Hl).
Qed.

Lemma resolve_name_good d k m : good d m -> Forall (good d) (resolve_name k m).
Proof.
  intros Hg. unfold resolve_name. destruct (m_val m) eqn:Hv; try constructor.
  destruct (lookup k l) as [v|] eqn:Hl; constructor; [|constructor].
  apply (good_child_key d m k v l); assumption.
Qed.

Lemma resolve_index_good d z m : good d m -> Forall (good d) (resolve_index z m).
Proof.
  intros Hg. unfold resolve_index. destruct (m_val m) eqn:Hv; try constructor.
  - (* array *)
    cbv zeta.
    destruct (Z.ltb (if Z.ltb z 0 then (Z.of_nat (length l) + z)%Z else z) 0
              || Z.leb (Z.of_nat (length l)) (if Z.ltb z 0 then (Z.of_nat (length l) + z)%Z else z))
      eqn:Eor; [constructor|].
    apply orb_false_iff in Eor as [E1 E2]. apply Z.ltb_ge in E1. apply Z.leb_gt in E2.
    destruct (nth_opt l (Z.to_nat (if Z.ltb z 0 then (Z.of_nat (length l) + z)%Z else z))) as [v|] eqn:En;
      constructor; [|constructor].
    assert (Hnorm : Z.to_nat (normalized_index z (length l)) =
                    Z.to_nat (if Z.ltb z 0 then (Z.of_nat (length l) + z)%Z else z)).
    { unfold normalized_index. destruct (Z.ltb_spec z 0) as [Hneg|Hpos]; [|reflexivity].
      replace (Z.leb (Z.abs z) (Z.of_nat (length l))) with true by (symmetry; apply Z.leb_le; lia).
      reflexivity. }
    rewrite Hnorm. apply (good_child_idx d m _ v l); assumption.
  - (* object *)
    cbv zeta. destruct (lookup (str_of_Z z) l) as [v|] eqn:Hl; constructor; [|constructor].
    assert (E : mkMatch v (m_parts m ++ [PKey (str_of_Z z)])
                  (m_path m ++ lbr :: quote :: str_of_Z z ++ [quote; rbr]) =
                child_key m (str_of_Z z) v).
    { unfold child_key. f_equal. f_equal. rewrite canonical_norm_name, norm_name_decimal.
      unfold lbr, quote, rbr. cbn [app]. rewrite <- app_assoc. reflexivity. }
    rewrite E. apply (good_child_key d m _ v l); assumption.
Qed.

Lemma resolve_slice_good d a b c m : good d m -> Forall (good d) (resolve_slice a b c m).
Proof.
  intros Hg. unfold resolve_slice. destruct (m_val m) eqn:Hv; try constructor.
  apply Forall_forall. intros x Hx. apply in_flat_map in Hx as [i [_ Hx]].
  destruct (nth_opt l i) as [v|] eqn:En; [|contradiction].
  destruct Hx as [<-|[]]. apply (good_child_idx d m i v l); assumption.
Qed.

Lemma resolve_wild_good d m : good d m -> Forall (good d) (resolve_wild m).
Proof.
  intros Hg. unfold resolve_wild. destruct (m_val m) eqn:Hv; try constructor.
  - apply Forall_forall. intros x Hx. apply in_map_iff in Hx as [[i v] [<- Hin]].
    cbn [fst snd]. apply (good_child_idx d m i v l); [assumption|assumption|].
    apply enumerate_in. assumption.
  - apply Forall_forall. intros x Hx. apply in_map_iff in Hx as [[k v] [<- Hin]].
    cbn [fst snd]. apply (good_child_key d m k v l); [assumption|assumption|].
    destruct Hg as [_ [_ Hw]]. rewrite Hv in Hw. apply wf_obj_in; assumption.
Qed.

Lemma filter_candidates_good d m cur key child :
  good d m -> In (cur, key, child) (filter_candidates m) -> good d child.
Proof.
  intros Hg. unfold filter_candidates. destruct (m_val m) eqn:Hv; try contradiction.
  - intros Hx. apply in_map_iff in Hx as [[i v] [Heq Hin]]. injection Heq as _ _ <-.
    cbn [fst snd]. apply (good_child_idx d m i v l); [assumption|assumption|].
    apply enumerate_in. assumption.
  - intros Hx. apply in_map_iff in Hx as [[k v] [Heq Hin]]. injection Heq as _ _ <-.
    cbn [fst snd]. apply (good_child_key d m k v l); [assumption|assumption|].
    destruct Hg as [_ [_ Hw]]. rewrite Hv in Hw. apply wf_obj_in; assumption.
Qed.

(* descent *)
Definition expand_arr (m : jmatch) :=
  fix go (xs : list json) (i : nat) : list jmatch :=
    match xs with
    | [] => []
    | c :: xs' =>
        (if is_container c then let cm := child_idx m i c in cm :: expand_val c cm else [])
        ++ go xs' (S i)
    end.

Definition expand_obj (m : jmatch) :=
  fix go (ms : list (ustr * json)) : list jmatch :=
    match ms with
    | [] => []
    | (k, c) :: ms' =>
        (if is_container c then let cm := child_key m k c in cm :: expand_val c cm else [])
        ++ go ms'
    end.

Lemma expand_val_arr xs m : expand_val (JArr xs) m = expand_arr m xs 0.
Proof. reflexivity. Qed.

Lemma expand_val_obj ms m : expand_val (JObj ms) m = expand_obj m ms.
Proof. reflexivity. Qed.

Definition expand_ok (d : json) (c : json) : Prop :=
  forall m, good d m -> m_val m = c -> Forall (good d) (expand_val c m).

Lemma expand_arr_good d m l :
  good d m -> m_val m = JArr l ->
  forall xs i0, (forall j c, nth_opt xs j = Some c -> nth_opt l (i0 + j) = Some c) ->
    Forall (expand_ok d) xs -> Forall (good d) (expand_arr m xs i0).
Proof.
  intros Hg Hv. induction xs as [|c xs IH]; intros i0 Hnth HF; [constructor|].
  inversion HF as [|? ? Hc HF']; subst.
  cbn [expand_arr]. apply Forall_app. split.
  - destruct (is_container c); [|constructor]. cbv zeta.
    assert (Hcm : good d (child_idx m i0 c)).
    { apply (good_child_idx d m i0 c l); [assumption|assumption|].
      rewrite <- (Nat.add_0_r i0). apply Hnth. reflexivity. }
    constructor; [assumption|]. apply Hc; [assumption|reflexivity].
  - apply IH; [|assumption]. intros j c' Hj.
    replace (S i0 + j)%nat with (i0 + S j)%nat by lia. apply Hnth. exact Hj.
Qed.

Lemma expand_obj_good d m l :
  good d m -> m_val m = JObj l ->
  forall ms, (forall k c, In (k, c) ms -> lookup k l = Some c) ->
    Forall (fun kv => expand_ok d (snd kv)) ms -> Forall (good d) (expand_obj m ms).
Proof.
  intros Hg Hv. induction ms as [|[k c] ms IH]; intros Hin HF; [constructor|].
  inversion HF as [|? ? Hc HF']; subst. cbn [snd] in Hc.
  cbn [expand_obj]. apply Forall_app. split.
  - destruct (is_container c); [|constructor]. cbv zeta.
    assert (Hcm : good d (child_key m k c)).
    { apply (good_child_key d m k c l); [assumption|assumption|]. apply Hin. left. reflexivity. }
    constructor; [assumption|]. apply Hc; [assumption|reflexivity].
  - apply IH; [|assumption]. intros k' c' H'. apply Hin. right. assumption.
Qed.

Lemma expand_good d : forall v, expand_ok d v.
Proof.
  induction v as [| b | n | s | l IH | l IH] using json_ind'; intros m Hg Hv;
    try (cbn [expand_val]; constructor).
  - rewrite expand_val_arr. apply (expand_arr_good d m l Hg Hv l 0); [|assumption].
    intros j c Hj. exact Hj.
  - rewrite expand_val_obj. apply (expand_obj_good d m l Hg Hv l); [|assumption].
    intros k c Hin. destruct Hg as [_ [_ Hw]]. rewrite Hv in Hw. apply wf_obj_in; assumption.
Qed.

Lemma resolve_descent_good d m : good d m -> Forall (good d) (resolve_descent m).
Proof.
  intros Hg. unfold resolve_descent. constructor; [assumption|].
  apply (expand_good d (m_val m) m Hg eq_refl).
Qed.

(* selectors, segments *)
Lemma concat_results_Forall {A} (P : A -> Prop) (l : list (result (list A))) :
  forall ys, concat_results l = Ok ys ->
    (forall r xs, In r l -> r = Ok xs -> Forall P xs) -> Forall P ys.
Proof.
  induction l as [|r l IH]; intros ys H HP.
  - cbn in H. injection H as <-. constructor.
  - cbn [concat_results] in H. destruct r as [xs|e]; cbn [bind] in H; [|discriminate].
    destruct (concat_results l) as [ys'|e] eqn:El; cbn [bind] in H; [|discriminate].
    injection H as <-. apply Forall_app. split.
    + apply (HP (Ok xs) xs); [left; reflexivity|reflexivity].
    + apply IH; [reflexivity|]. intros r' xs' Hin Hr. apply (HP r' xs'); [right; assumption|assumption].
Qed.

Section Loc.
  Variable E : env.
  Variable rf : ustr -> reflags -> ustr -> option bool.
  Variable rs : ustr -> ustr -> option bool.

  Lemma resolve_sel_filter e root ctx m :
    resolve_sel E rf rs (SFilter e) root ctx m =
    concat_results
      (map (fun c => let '(cur, key, child) := c in
                     v <- eval_f E rf rs e root ctx cur key ;;
                     Ok (if is_truthy v then [child] else []))
           (filter_candidates m)).
  Proof. reflexivity. Qed.

  Lemma resolve_sels_cons s r root ctx m :
    resolve_sels E rf rs (LCons s r) root ctx m =
    (x <- resolve_sel E rf rs s root ctx m ;; y <- resolve_sels E rf rs r root ctx m ;; Ok (x ++ y)).
  Proof. reflexivity. Qed.

  Lemma resolve_seg_sel s root ctx ms :
    resolve_seg E rf rs (GSel s) root ctx ms = concat_results (map (resolve_sel E rf rs s root ctx) ms).
  Proof. reflexivity. Qed.

  Lemma resolve_seg_list items root ctx ms :
    resolve_seg E rf rs (GList items) root ctx ms =
    concat_results (map (resolve_sels E rf rs items root ctx) ms).
  Proof. reflexivity. Qed.

  Lemma resolve_seg_descent root ctx ms :
    resolve_seg E rf rs GDescent root ctx ms = Ok (flat_map resolve_descent ms).
  Proof. reflexivity. Qed.

  Lemma resolve_segs_cons g r root ctx ms :
    resolve_segs E rf rs (PCons g r) root ctx ms =
    (ms' <- resolve_seg E rf rs g root ctx ms ;; resolve_segs E rf rs r root ctx ms').
  Proof. reflexivity. Qed.

  Lemma resolve_segs_nil root ctx ms : resolve_segs E rf rs PNil root ctx ms = Ok ms.
  Proof. reflexivity. Qed.

  Lemma sel_good d s root ctx m xs :
    s <> SKeys -> good d m -> resolve_sel E rf rs s root ctx m = Ok xs -> Forall (good d) xs.
  Proof.
    intros Hs Hg H. destruct s; [cbn [resolve_sel] in H ..|rewrite resolve_sel_filter in H].
    - injection H as <-. apply resolve_name_good. assumption.
    - injection H as <-. apply resolve_index_good. assumption.
    - injection H as <-. apply resolve_slice_good. assumption.
    - injection H as <-. apply resolve_wild_good. assumption.
    - contradiction.
    - apply (concat_results_Forall _ _ _ H). intros r ys Hin Hr.
      apply in_map_iff in Hin as [[[cur key] child] [Hf Hc]]. subst r. cbv beta iota in Hr.
      destruct (eval_f E rf rs e root ctx cur key) as [v|err]; cbn [bind] in Hr; [|discriminate].
      injection Hr as <-. destruct (is_truthy v); constructor; [|constructor].
      apply (filter_candidates_good d m cur key child); assumption.
  Qed.

  Fixpoint sels_nokeys (l : sels) : bool :=
    match l with LNil => true | LCons SKeys _ => false | LCons _ r' => sels_nokeys r' end.

  Lemma sels_good d l root ctx m xs :
    sels_nokeys l = true -> good d m -> resolve_sels E rf rs l root ctx m = Ok xs ->
    Forall (good d) xs.
  Proof.
    revert xs. induction l as [|s r IH]; intros xs Hnk Hg H.
    - cbn [resolve_sels] in H. injection H as <-. constructor.
    - rewrite resolve_sels_cons in H. destruct (resolve_sel E rf rs s root ctx m) as [x|e] eqn:Es; cbn [bind] in H; [|discriminate].
      destruct (resolve_sels E rf rs r root ctx m) as [y|e] eqn:Er; cbn [bind] in H; [|discriminate].
      injection H as <-. apply Forall_app. split.
      + apply (sel_good d s root ctx m x); [|assumption|assumption].
        intros ->. cbn in Hnk. discriminate.
      + apply IH; [|assumption|reflexivity]. destruct s; cbn in Hnk; try assumption. discriminate.
  Qed.

  Lemma top_nokeys_cons g r :
    top_nokeys (PCons g r) =
    match g with
    | GSel SKeys => false
    | GList items => sels_nokeys items && top_nokeys r
    | _ => top_nokeys r
    end.
  Proof.
    destruct g as [s| |items]; reflexivity.
  Qed.

  Lemma segs_good d p : forall root ctx ms ms',
    top_nokeys p = true -> Forall (good d) ms ->
    resolve_segs E rf rs p root ctx ms = Ok ms' -> Forall (good d) ms'.
  Proof.
    induction p as [|g r IH]; intros root ctx ms ms' Hnk Hg H.
    - rewrite resolve_segs_nil in H. injection H as <-. assumption.
    - rewrite resolve_segs_cons in H. destruct (resolve_seg E rf rs g root ctx ms) as [ms1|e] eqn:Eg; cbn [bind] in H; [|discriminate].
      rewrite top_nokeys_cons in Hnk.
      apply (IH root ctx ms1 ms'); [| |assumption].
      + destruct g as [s| |items]; try assumption.
        * destruct s; try assumption. discriminate.
        * apply andb_true_iff in Hnk as [_ Hnk]. assumption.
      + rewrite Forall_forall in Hg.
        destruct g as [s| |items];
          [rewrite resolve_seg_sel in Eg|rewrite resolve_seg_descent in Eg|rewrite resolve_seg_list in Eg].
        * apply (concat_results_Forall _ _ _ Eg). intros x xs Hin Hx.
          apply in_map_iff in Hin as [m [Hm Hin]]. subst x.
          apply (sel_good d s root ctx m xs); [|apply Hg; assumption|assumption].
          intros ->. discriminate.
        * injection Eg as <-. apply Forall_forall. intros x Hx.
          apply in_flat_map in Hx as [m [Hin Hx]].
          pose proof (resolve_descent_good d m (Hg m Hin)) as HF.
          rewrite Forall_forall in HF. apply HF. assumption.
        * apply andb_true_iff in Hnk as [Hnk _].
          apply (concat_results_Forall _ _ _ Eg). intros x xs Hin Hx.
          apply in_map_iff in Hin as [m [Hm Hin]]. subst x.
          apply (sels_good d items root ctx m xs); [assumption|apply Hg; assumption|assumption].
  Qed.

  Theorem location_partial :
    forall (p : segs) (d ctx : json) (ms : list jmatch) (m : jmatch),
      wf_json d = true ->
      e_root E = [36%N] -> top_nokeys p = true ->
      finditer E rf rs (mkPath false p) d ctx = Ok ms -> In m ms ->
      node_at d (m_parts m) = Some (m_val m) /\ m_path m = normpath (m_parts m).
  Proof.
    intros p d ctx ms m Hwf Hroot Hnk H Hin.
    unfold finditer in H. cbn [p_segs p_fake] in H.
    assert (HF : Forall (good d) ms).
    { apply (segs_good d p d ctx [root_match E d] ms Hnk); [|assumption].
      constructor; [|constructor]. unfold good, root_match. cbn [m_parts m_val m_path].
      split; [reflexivity|]. split; [rewrite Hroot; reflexivity|assumption]. }
    rewrite Forall_forall in HF. destruct (HF m Hin) as [H1 [H2 _]]. split; assumption.
  Qed.
End Loc.

(* C03_location as stated (no well-formedness hypothesis) fails on a document with a repeated
   member name: both members are reported with the same parts. *)
Theorem location_refuted :
  ~ (forall (E : env) rf rs (p : segs) (d ctx : json) (ms : list jmatch) (m : jmatch),
       e_root E = [36%N] -> top_nokeys p = true ->
       finditer E rf rs (mkPath false p) d ctx = Ok ms -> In m ms ->
       node_at d (m_parts m) = Some (m_val m) /\ m_path m = normpath (m_parts m)).
Proof.
  intros H.
  pose (d := JObj [([97%N], JNum (num_of_Z 1)); ([97%N], JNum (num_of_Z 2))]).
  pose (m := mkMatch (JNum (num_of_Z 2)) [PKey [97%N]] [36; 91; 39; 97; 39; 93]%N).
  specialize (H default_env (fun _ _ _ => None) (fun _ _ => None) (PCons (GSel SWild) PNil)
                d JNull [mkMatch (JNum (num_of_Z 1)) [PKey [97%N]] [36; 91; 39; 97; 39; 93]%N; m] m
                eq_refl eq_refl eq_refl (or_intror (or_introl eq_refl))).
  destruct H as [H _]. vm_compute in H. discriminate.
Qed.

(* ---------------------------------------------------------------------- *)
(* the printed path is in the normalized-path grammar *)

Lemma nhex_lhex n : (n < 16)%N -> is_lhex (nhex n) = true.
Proof.
  intros H. unfold is_lhex, nhex, is_ascii_digit. destruct (N.ltb_spec n 10) as [Hl|Hg].
  - apply orb_true_iff. left. apply andb_true_iff. split; apply N.leb_le; lia.
  - apply orb_true_iff. right. apply andb_true_iff. split; apply N.leb_le; lia.
Qed.

Lemma scan_name_S f c s' :
  scan_name (S f) (c :: s') =
  if N.eqb c 39 then Some s'
  else if N.eqb c 92 then
    match s' with
    | e :: s'' =>
        if N.eqb e 98 || N.eqb e 102 || N.eqb e 110 || N.eqb e 114 || N.eqb e 116 || N.eqb e 39 || N.eqb e 92
        then scan_name f s''
        else if N.eqb e 117 then
          match s'' with
          | 48%N :: 48%N :: h1 :: h2 :: s3 =>
              if is_lhex h1 && is_lhex h2 && (N.eqb h1 48 || N.eqb h1 49) then scan_name f s3 else None
          | _ => None
          end
        else None
    | [] => None
    end
  else if N.ltb c 32 then None
  else scan_name f s'.
Proof. reflexivity. Qed.

Lemma scan_name_chunk f c rest : scan_name (S f) (norm_char c ++ rest) = scan_name f rest.
Proof.
  revert c. apply char_split; try reflexivity.
  - intros c Hlt N8 N9 N10 N12 N13. rewrite norm_char_ctl by assumption.
    cbn [app]. rewrite scan_name_S. cbn [N.eqb orb]. cbv iota.
    change (N.eqb 92 39) with false. change (N.eqb 92 92) with true. cbv iota.
    change (N.eqb 117 98 || N.eqb 117 102 || N.eqb 117 110 || N.eqb 117 114 || N.eqb 117 116
            || N.eqb 117 39 || N.eqb 117 92) with false.
    change (N.eqb 117 117) with true. cbv iota.
    assert (H16 : (c / 16 = 0 \/ c / 16 = 1)%N).
    { assert (Hq : (c / 16 < 2)%N) by (apply N.div_lt_upper_bound; lia).
      revert Hq. generalize (c / 16)%N. intros q Hq. lia. }
    rewrite (nhex_lhex (c / 16)) by lia.
    rewrite (nhex_lhex (c mod 16)) by (apply N.mod_lt; lia).
    destruct H16 as [-> | ->]; reflexivity.
  - intros c Hge N34 N39 N92. rewrite norm_char_plain by assumption.
    cbn [app]. rewrite scan_name_S. neq_false c.
    replace (N.ltb c 32) with false by (symmetry; apply N.ltb_ge; lia). reflexivity.
Qed.

Lemma scan_name_norm k : forall fuel rest,
  (length k < fuel)%nat -> scan_name fuel (flat_map norm_char k ++ 39%N :: rest) = Some rest.
Proof.
  induction k as [|c k IH]; intros fuel rest Hf.
  - destruct fuel as [|f]; [cbn in Hf; lia|]. reflexivity.
  - destruct fuel as [|f]; [cbn in Hf; lia|].
    cbn [flat_map]. rewrite <- app_assoc. rewrite scan_name_chunk.
    apply IH. cbn in Hf. lia.
Qed.

Lemma norm_char_nonempty c : (1 <= length (norm_char c))%nat.
Proof.
  revert c. apply char_split; try (cbn; lia).
  - intros c Hlt N8 N9 N10 N12 N13. rewrite norm_char_ctl by assumption. cbn. lia.
  - intros c Hge N34 N39 N92. rewrite norm_char_plain by assumption. cbn. lia.
Qed.

Lemma flat_map_norm_length k : (length k <= length (flat_map norm_char k))%nat.
Proof.
  induction k as [|c k IH]; [cbn; lia|].
  cbn [flat_map]. rewrite app_length. pose proof (norm_char_nonempty c). cbn [length]. lia.
Qed.

Lemma scan_digits_digits ds rest :
  forallb is_ascii_digit ds = true -> scan_digits (ds ++ 93%N :: rest) = (ds, 93%N :: rest).
Proof.
  induction ds as [|c ds IH]; intros H.
  - reflexivity.
  - cbn [forallb] in H. apply andb_true_iff in H as [Hc Hd].
    cbn [app scan_digits]. rewrite Hc. rewrite IH by assumption. reflexivity.
Qed.

Lemma scan_segments_name f s' :
  scan_segments (S f) (91%N :: 39%N :: s') =
  match scan_name (S (length s')) s' with
  | Some (93%N :: rest) => scan_segments f rest
  | _ => false
  end.
Proof. reflexivity. Qed.

Lemma scan_segments_digit f c t :
  is_ascii_digit c = true ->
  scan_segments (S f) (91%N :: c :: t) =
  (let '(d, rest) := scan_digits (c :: t) in
   canonical_nonneg d && match rest with 93%N :: rest' => scan_segments f rest' | _ => false end).
Proof.
  intros H. apply digit_bounds in H.
  assert (Hc : (c = 48 \/ c = 49 \/ c = 50 \/ c = 51 \/ c = 52 \/ c = 53 \/ c = 54 \/
                c = 55 \/ c = 56 \/ c = 57)%N) by lia.
  repeat (destruct Hc as [Hc|Hc]; [subst c; reflexivity|]). subst c. reflexivity.
Qed.

Lemma norm_segment_key k rest :
  norm_segment (PKey k) ++ rest = (91 :: 39 :: flat_map norm_char k ++ 39 :: 93 :: rest)%N.
Proof. unfold norm_segment, norm_name. cbn [app]. rewrite <- !app_assoc. reflexivity. Qed.

Lemma norm_segment_idx i rest :
  norm_segment (PIdx i) ++ rest = (91 :: str_of_Z (Z.of_nat i) ++ 93 :: rest)%N.
Proof. unfold norm_segment. cbn [app]. rewrite <- app_assoc. reflexivity. Qed.

Lemma index_text_shape i :
  exists c ds, str_of_Z (Z.of_nat i) = c :: ds /\ is_ascii_digit c = true /\
               forallb is_ascii_digit (c :: ds) = true /\ canonical_nonneg (c :: ds) = true.
Proof.
  pose proof (canonical_str_of_Z (Z.of_nat i) (Nat2Z.is_nonneg i)) as Hcan.
  pose proof (canon_digits _ Hcan) as Hd.
  destruct (str_of_Z (Z.of_nat i)) as [|c ds]; [discriminate|].
  exists c, ds. split; [reflexivity|]. split; [|split; assumption].
  cbn [forallb] in Hd. apply andb_true_iff in Hd as [Hc _]. exact Hc.
Qed.

Lemma scan_segments_norm l : forall fuel,
  (length l < fuel)%nat ->
  scan_segments fuel (flat_map norm_segment l) = true.
Proof.
  induction l as [|p l IH]; intros fuel Hf.
  - destruct fuel; [cbn in Hf; lia|]. reflexivity.
  - destruct fuel as [|f]; [cbn in Hf; lia|].
    assert (Hf' : (length l < f)%nat) by (cbn in Hf; lia).
    cbn [flat_map]. destruct p as [k|i].
    + rewrite norm_segment_key. rewrite scan_segments_name.
      rewrite scan_name_norm.
      * apply (IH f Hf').
      * rewrite app_length. pose proof (flat_map_norm_length k). lia.
    + rewrite norm_segment_idx.
      destruct (index_text_shape i) as [c [ds [Es [Hc [Hd Hcan]]]]]. rewrite Es.
      cbn [app]. rewrite scan_segments_digit by assumption.
      change (c :: ds ++ 93 :: flat_map norm_segment l)%N
        with ((c :: ds) ++ 93 :: flat_map norm_segment l)%N.
      rewrite scan_digits_digits by assumption. rewrite Hcan. cbn [andb].
      apply (IH f Hf').
Qed.

Lemma norm_segment_nonempty p : (1 <= length (norm_segment p))%nat.
Proof. destruct p; cbn; lia. Qed.

Lemma flat_map_segment_length l : (length l <= length (flat_map norm_segment l))%nat.
Proof.
  induction l as [|p l IH]; [cbn; lia|].
  cbn [flat_map]. rewrite app_length. pose proof (norm_segment_nonempty p). cbn [length]. lia.
Qed.

Theorem normpath_valid : forall (l : loc), valid_normpath (normpath l) = true.
Proof.
  intros l. unfold normpath. cbn [valid_normpath].
  apply (scan_segments_norm l). pose proof (flat_map_segment_length l). lia.
Qed.

(* ---------------------------------------------------------------------- *)
(* the printed path determines the location *)

Definition unhex (h : N) : N := if N.ltb h 58 then (h - 48)%N else (h - 87)%N.

Lemma unhex_nhex n : unhex (nhex n) = n.
Proof.
  unfold unhex, nhex. destruct (N.ltb_spec n 10) as [Hl|Hg].
  - replace (N.ltb (48 + n) 58) with true by (symmetry; apply N.ltb_lt; lia). lia.
  - replace (N.ltb (87 + n) 58) with false by (symmetry; apply N.ltb_ge; lia). lia.
Qed.

(* reads one chunk of an escaped name; None at the closing quote *)
Definition dec_chunk (s : ustr) : option (N * ustr) :=
  match s with
  | [] => None
  | c :: s' =>
      if N.eqb c 39 then None
      else if N.eqb c 92 then
        match s' with
        | [] => None
        | e :: s'' =>
            if N.eqb e 39 then Some (39%N, s'')
            else if N.eqb e 92 then Some (92%N, s'')
            else if N.eqb e 98 then Some (8%N, s'')
            else if N.eqb e 102 then Some (12%N, s'')
            else if N.eqb e 110 then Some (10%N, s'')
            else if N.eqb e 114 then Some (13%N, s'')
            else if N.eqb e 116 then Some (9%N, s'')
            else match s'' with
                 | _ :: _ :: h1 :: h2 :: s3 => Some ((16 * unhex h1 + unhex h2)%N, s3)
                 | _ => None
                 end
        end
      else Some (c, s')
  end.

Lemma dec_chunk_norm c rest : dec_chunk (norm_char c ++ rest) = Some (c, rest).
Proof.
  revert c. apply char_split; try reflexivity.
  - intros c Hlt N8 N9 N10 N12 N13. rewrite norm_char_ctl by assumption.
    cbn [app dec_chunk]. change (N.eqb 92 39) with false. change (N.eqb 92 92) with true.
    cbv iota. cbn [N.eqb Pos.eqb]. cbv iota. rewrite !unhex_nhex.
    rewrite <- (N.div_mod c 16) by lia. reflexivity.
  - intros c Hge N34 N39 N92. rewrite norm_char_plain by assumption.
    cbn [app dec_chunk]. neq_false c. reflexivity.
Qed.

Lemma dec_chunk_quote rest : dec_chunk (39%N :: rest) = None.
Proof. reflexivity. Qed.

Lemma norm_chars_inj k1 : forall k2 x1 x2,
  flat_map norm_char k1 ++ 39%N :: x1 = flat_map norm_char k2 ++ 39%N :: x2 ->
  k1 = k2 /\ x1 = x2.
Proof.
  induction k1 as [|c1 k1 IH]; intros [|c2 k2] x1 x2 H.
  - cbn in H. injection H as ->. auto.
  - apply (f_equal dec_chunk) in H. cbn [flat_map] in H. rewrite <- app_assoc in H.
    rewrite dec_chunk_norm in H. cbn in H. discriminate.
  - apply (f_equal dec_chunk) in H. cbn [flat_map] in H. rewrite <- app_assoc in H.
    rewrite dec_chunk_norm in H. cbn in H. discriminate.
  - apply (f_equal dec_chunk) in H. cbn [flat_map] in H. rewrite <- !app_assoc in H.
    rewrite !dec_chunk_norm in H. injection H as -> H.
    destruct (IH _ _ _ H) as [-> ->]. auto.
Qed.

Lemma digits_93_inj d1 d2 r1 r2 :
  forallb is_ascii_digit d1 = true -> forallb is_ascii_digit d2 = true ->
  d1 ++ 93%N :: r1 = d2 ++ 93%N :: r2 -> d1 = d2 /\ r1 = r2.
Proof.
  intros H1 H2 H. apply (f_equal scan_digits) in H.
  rewrite !scan_digits_digits in H by assumption. injection H as -> ->. auto.
Qed.

Lemma segments_inj l1 : forall l2,
  flat_map norm_segment l1 = flat_map norm_segment l2 -> l1 = l2.
Proof.
  induction l1 as [|p1 l1 IH]; intros [|p2 l2] H.
  - reflexivity.
  - cbn [flat_map] in H. destruct p2; [rewrite norm_segment_key in H|rewrite norm_segment_idx in H];
      discriminate.
  - cbn [flat_map] in H. destruct p1; [rewrite norm_segment_key in H|rewrite norm_segment_idx in H];
      discriminate.
  - cbn [flat_map] in H. destruct p1 as [k1|i1]; destruct p2 as [k2|i2];
      rewrite ?norm_segment_key, ?norm_segment_idx in H.
    + injection H as H. apply norm_chars_inj in H as [-> H]. injection H as H.
      rewrite (IH _ H). reflexivity.
    + exfalso. destruct (index_text_shape i2) as [c [ds [Es [Hc _]]]]. rewrite Es in H.
      cbn [app] in H. injection H as H _. subst c. discriminate.
    + exfalso. destruct (index_text_shape i1) as [c [ds [Es [Hc _]]]]. rewrite Es in H.
      cbn [app] in H. injection H as H _. subst c. discriminate.
    + injection H as H.
      destruct (index_text_shape i1) as [c1 [ds1 [Es1 [_ [Hd1 _]]]]].
      destruct (index_text_shape i2) as [c2 [ds2 [Es2 [_ [Hd2 _]]]]].
      rewrite <- Es1 in Hd1. rewrite <- Es2 in Hd2.
      apply digits_93_inj in H as [Hs H]; [|assumption|assumption].
      apply (f_equal dec_value) in Hs.
      rewrite !dec_value_str_of_Z in Hs by apply Nat2Z.is_nonneg.
      apply Nat2Z.inj in Hs. subst i2. rewrite (IH _ H). reflexivity.
Qed.

Theorem normpath_injective : forall (l1 l2 : loc), normpath l1 = normpath l2 <-> l1 = l2.
Proof.
  intros l1 l2. split; [|intros ->; reflexivity].
  unfold normpath. intros H. injection H as H. apply segments_inj. assumption.
Qed.

(* ---------------------------------------------------------------------- *)
(* the query spelled by a normalized path selects exactly that node *)

Section PathQuery.
  Variable E : env.
  Variable rf : ustr -> reflags -> ustr -> option bool.
  Variable rs : ustr -> ustr -> option bool.

  Definition sel_of_part (p : part) : selector :=
    match p with PKey k => SName k | PIdx i => SIndex (Z.of_nat i) end.

  Definition child_of_part (m : jmatch) (p : part) (c : json) : jmatch :=
    match p with PKey k => child_key m k c | PIdx i => child_idx m i c end.

  Lemma path_of_loc_cons p l :
    path_of_loc (p :: l) = PCons (GList (LCons (sel_of_part p) LNil)) (path_of_loc l).
  Proof. destruct p; reflexivity. Qed.

  Lemma resolve_sels_nil root ctx m : resolve_sels E rf rs LNil root ctx m = Ok [].
  Proof. reflexivity. Qed.

  Lemma resolve_one_sel s root ctx m xs :
    resolve_sel E rf rs s root ctx m = Ok xs ->
    resolve_seg E rf rs (GList (LCons s LNil)) root ctx [m] = Ok xs.
  Proof.
    intros H. rewrite resolve_seg_list. cbn [map concat_results].
    rewrite resolve_sels_cons, H, resolve_sels_nil. cbn [bind]. rewrite !app_nil_r. reflexivity.
  Qed.

  Lemma resolve_index_nat m xs i c :
    m_val m = JArr xs -> nth_opt xs i = Some c ->
    resolve_index (Z.of_nat i) m = [child_idx m i c].
  Proof.
    intros Hv Hn. pose proof (nth_opt_lt _ _ _ Hn) as Hlt.
    unfold resolve_index. rewrite Hv. cbv zeta.
    assert (E0 : Z.ltb (Z.of_nat i) 0 = false) by (apply Z.ltb_ge; lia).
    rewrite !E0. cbn [orb].
    replace (Z.leb (Z.of_nat (length xs)) (Z.of_nat i)) with false by (symmetry; apply Z.leb_gt; lia).
    rewrite Nat2Z.id, Hn. unfold normalized_index. rewrite E0. cbn [andb]. rewrite Nat2Z.id.
    reflexivity.
  Qed.

  Lemma resolve_part root ctx m p c :
    step (m_val m) p = Some c ->
    resolve_sel E rf rs (sel_of_part p) root ctx m = Ok [child_of_part m p c].
  Proof.
    intros H. destruct p as [k|i]; cbn [sel_of_part resolve_sel child_of_part]; f_equal.
    - unfold resolve_name. destruct (m_val m); cbn [step] in H; try discriminate.
      rewrite H. reflexivity.
    - destruct (m_val m) eqn:Hv; cbn [step] in H; try discriminate.
      apply (resolve_index_nat m l i c Hv H).
  Qed.

  Lemma child_of_part_shape m p c :
    child_of_part m p c = mkMatch c (m_parts m ++ [p]) (m_path m ++ norm_segment p).
  Proof.
    destruct p as [k|i]; cbn [child_of_part].
    - unfold child_key. rewrite canonical_norm_name. reflexivity.
    - reflexivity.
  Qed.

  Lemma path_query_from root ctx l : forall m v,
    node_at (m_val m) l = Some v ->
    resolve_segs E rf rs (path_of_loc l) root ctx [m] =
    Ok [mkMatch v (m_parts m ++ l) (m_path m ++ flat_map norm_segment l)].
  Proof.
    induction l as [|p l IH]; intros m v H.
    - cbn in H. injection H as <-. cbn [path_of_loc map segs_of flat_map].
      rewrite resolve_segs_nil. rewrite !app_nil_r. destruct m; reflexivity.
    - cbn [node_at] in H. destruct (step (m_val m) p) as [c|] eqn:Es; [|discriminate].
      rewrite path_of_loc_cons, resolve_segs_cons.
      rewrite (resolve_one_sel _ root ctx m _ (resolve_part root ctx m p c Es)). cbn [bind].
      rewrite child_of_part_shape.
      rewrite (IH (mkMatch c (m_parts m ++ [p]) (m_path m ++ norm_segment p)) v H).
      cbn [m_parts m_path flat_map]. rewrite <- !app_assoc. reflexivity.
  Qed.

  Theorem path_query :
    forall (d ctx v : json) (l : loc),
      e_root E = [36%N] -> node_at d l = Some v ->
      finditer E rf rs (mkPath false (path_of_loc l)) d ctx = Ok [mkMatch v l (normpath l)].
  Proof.
    intros d ctx v l Hroot H. unfold finditer. cbn [p_segs p_fake].
    rewrite (path_query_from d ctx l (root_match E d) v H).
    unfold root_match. cbn [m_parts m_path]. rewrite Hroot. reflexivity.
  Qed.
End PathQuery.

(* ---------------------------------------------------------------------- *)
(* the pointer built from the parts *)

Lemma of_loc_cons p l :
  of_loc (p :: l) = (match p with PKey k => PStr k | PIdx i => PInt (Z.of_nat i) end) :: of_loc l.
Proof. reflexivity. Qed.

Lemma getitem_part l0 d p c :
  step d p = Some c ->
  getitem (RNode l0 d) (match p with PKey k => PStr k | PIdx i => PInt (Z.of_nat i) end) =
  Ok (RNode (l0 ++ [p]) c).
Proof.
  intros H. destruct p as [k|i]; destruct d; cbn [step] in H; try discriminate.
  - unfold getitem. cbn [rv_json]. rewrite H. reflexivity.
  - pose proof (nth_opt_lt _ _ _ H) as Hlt.
    unfold getitem. cbn [rv_json]. rewrite py_list_index_nonneg by lia.
    replace (Z.ltb (Z.of_nat i) (Z.of_nat (length l))) with true by (symmetry; apply Z.ltb_lt; lia).
    rewrite Nat2Z.id, H. reflexivity.
Qed.

Lemma resolve_of_loc l : forall l0 d v,
  node_at d l = Some v -> reduce_getitem (RNode l0 d) (of_loc l) = Ok (RNode (l0 ++ l) v).
Proof.
  induction l as [|p l IH]; intros l0 d v H.
  - cbn in H. injection H as <-. rewrite app_nil_r. reflexivity.
  - cbn [node_at] in H. destruct (step d p) as [c|] eqn:Es; [|discriminate].
    rewrite of_loc_cons. cbn [reduce_getitem]. rewrite (getitem_part l0 d p c Es). cbn [bind].
    rewrite (IH _ _ _ H). rewrite <- app_assoc. reflexivity.
Qed.

Lemma tokens_of_loc l : tokens (of_loc l) = map part_token l.
Proof.
  unfold tokens, of_loc. rewrite map_map. apply map_ext. intros [k|i]; reflexivity.
Qed.

Theorem pointer_of_location :
  forall (d : json) (l : loc) (v : json),
    node_at d l = Some v ->
    resolve (of_loc l) d = Ok (RNode l v) /\
    encode (of_loc l) = spell_loc l /\
    (forall mode, (mode = false \/ no_backslash (spell_loc l) = true) ->
       tokens_within_limits (map part_token l) = true ->
       exists p', Pointer.parse mode (encode (of_loc l)) = Ok p' /\ resolve p' d = Ok (RNode l v)).
Proof.
  intros d l v H.
  assert (Henc : encode (of_loc l) = spell_loc l).
  { rewrite encode_spell, tokens_of_loc. reflexivity. }
  split; [|split].
  - unfold resolve. apply (resolve_of_loc l [] d v H).
  - exact Henc.
  - intros mode Hm Hlim. rewrite Henc. apply (reach mode d l v H Hm Hlim).
Qed.

(* C03_location needs the document to have distinct member names in every object
   (see location_refuted); with that hypothesis it holds. *)
