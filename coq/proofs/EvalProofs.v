(* EvalProofs.v — the evaluator model (model/Eval.v) computes the specification
   (spec/Rfc9535.v) on every well-typed query; the statements used by props/C01, C02, C11, C13. *)
From Coq Require Import ZArith List Bool Lia.
From JP Require Import Base Json PyStr PySlice PyJsonStr Syntax Eval Rfc9535 Rfc9535Typing EvalCorr.
From JP Require Import SliceProofs EvalBasics SelProofs EvalEqns.
Import ListNotations.

(* ---- operands ---------------------------------------------------------------------- *)

(* operands of in / contains: additionally, a node list of two or more nodes is "no value" *)
Definition mrepr (a : fval) (x : option json) : Prop :=
  match a with
  | VVal v => x = Some v
  | VUndef => x = None
  | VNodes _ => x = None
  | VRegex _ _ => False
  end.

Lemma repr_mrepr a x : repr a x -> mrepr a x.
Proof. intros []; reflexivity. Qed.

Lemma substring_agrees a b : is_substring a b = substring_of a b.
Proof.
  induction b as [|c b IH]; cbn [is_substring substring_of]; [reflexivity|].
  rewrite IH. reflexivity.
Qed.

Lemma member_agrees a b x y :
  mrepr a x -> mrepr b y ->
  is_container_val b && filter_contains b a = member_of x y.
Proof.
  intros Ha Hb.
  destruct b as [ns|j| |p fl]; cbn [mrepr] in Hb; try contradiction; subst y.
  - destruct x as [[]|]; reflexivity.
  - destruct j as [| | |s|xs|ms]; try (destruct x as [[]|]; reflexivity).
    + destruct a as [ns|[]| |]; cbn [mrepr] in Ha; try contradiction; subst x; try reflexivity;
        cbn [is_container_val filter_contains member_of andb]; apply substring_agrees.
    + destruct a as [ns|u| |]; cbn [mrepr] in Ha; try contradiction; subst x; reflexivity.
    + destruct a as [ns|[]| |]; cbn [mrepr] in Ha; try contradiction; subst x; reflexivity.
  - destruct x as [[]|]; reflexivity.
Qed.

Lemma unpack_value v x :
  repr (unwrap v) x ->
  (exists j, unpack_arg TValue v = VVal j /\ x = Some j) \/ (unpack_arg TValue v = VUndef /\ x = None).
Proof.
  destruct v as [[|n [|n' ns]]|j| |p fl]; cbn [unwrap unpack_arg]; intros H; inversion H; subst; eauto.
Qed.

Lemma is_truthy_bool b : is_truthy (bool_val b) = b.
Proof. reflexivity. Qed.

Lemma filter_map_node (P : node -> bool) (ms : list jmatch) :
  map node_of (filter (fun m => P (node_of m)) ms) = filter P (map node_of ms).
Proof.
  induction ms as [|m ms IH]; [reflexivity|].
  cbn [map filter]. destruct (P (node_of m)); cbn [map]; rewrite IH; reflexivity.
Qed.

(* ---- singular queries ------------------------------------------------------------------ *)

Lemma singular_wt ext p : singular p = true -> wt_segs ext p = true /\ descent_ok p = true.
Proof.
  induction p as [|g r IH]; intros H; [split; reflexivity|].
  destruct g as [[]| |[|[] []]]; cbn [singular] in H; try discriminate H;
    destruct (IH H) as [H1 H2]; (split; [|exact H2]); rewrite wt_segs_cons, H1; reflexivity.
Qed.

Section Singular.
  Variable rf : ustr -> reflags -> ustr -> option bool.
  Variable rs : ustr -> ustr -> option bool.
  Variable keys : ustr.

  Lemma sel_name_le1 k n : length (sel_name k n) <= 1.
  Proof. unfold sel_name. destruct (snd n); cbn [length]; try lia. destruct (lookup k l); cbn [length]; lia. Qed.

  Lemma sel_index_le1 i n : length (sel_index i n) <= 1.
  Proof.
    unfold sel_index. destruct (snd n) as [| | | |xs|ms]; cbn [length]; try lia.
    - cbv zeta. match goal with |- context [if ?c then _ else _] => destruct c end; cbn [length]; [|lia].
      match goal with |- context [nth_opt ?a ?b] => destruct (nth_opt a b) end; cbn [length]; lia.
    - destruct (lookup (str_of_Z i) ms); cbn [length]; lia.
  Qed.

  Lemma singular_le p root ctx : singular p = true ->
    forall ns, length (segs_nodes rf rs keys p root ctx ns) <= length ns.
  Proof.
    induction p as [|g r IH]; intros H ns; [apply le_n|].
    destruct g as [[]| |[|[] []]]; cbn [singular] in H; try discriminate H;
      rewrite segs_nodes_cons; (etransitivity; [apply (IH H)|]);
      rewrite ?seg_nodes_sel, ?seg_nodes_list; apply length_flat_map_le1; intros n;
      rewrite ?sels_nodes_cons, ?sels_nodes_nil, ?app_nil_r.
    - exact (sel_name_le1 name n).
    - exact (sel_name_le1 name n).
    - exact (sel_index_le1 i n).
  Qed.
End Singular.

Lemma segment_eq_descent g : g = GDescent \/ g <> GDescent.
Proof. destruct g; [right; discriminate|left; reflexivity|right; discriminate]. Qed.

Lemma Forall2_weaken {A B} (R1 R2 : A -> B -> Prop) :
  (forall a b, R1 a b -> R2 a b) -> forall la lb, Forall2 R1 la lb -> Forall2 R2 la lb.
Proof. intros H la lb HF. induction HF; constructor; auto. Qed.

(* ---- the evaluator ------------------------------------------------------------------------ *)

Fixpoint all_fexprs (P : fexpr -> Prop) (es : fexprs) : Prop :=
  match es with ENil => True | ECons e r => P e /\ all_fexprs P r end.

Section Main.
  Variable E : env.
  Variable rf : ustr -> reflags -> ustr -> option bool.
  Variable rs : ustr -> ustr -> option bool.
  Variable ext : bool.

  Notation keys := (e_keys E).
  Notation eval_f := (Eval.eval_f E rf rs).
  Notation eval_fs := (Eval.eval_fs E rf rs).
  Notation resolve_sel := (Eval.resolve_sel E rf rs).
  Notation resolve_sels := (Eval.resolve_sels E rf rs).
  Notation resolve_seg := (Eval.resolve_seg E rf rs).
  Notation resolve_segs := (Eval.resolve_segs E rf rs).
  Notation q_nodes := (Rfc9535.q_nodes rf rs keys).
  Notation v_value := (Rfc9535.v_value rf rs keys).
  Notation vs_values := (Rfc9535.vs_values rf rs keys).
  Notation l_test := (Rfc9535.l_test rf rs keys).
  Notation sel_nodes := (Rfc9535.sel_nodes rf rs keys).
  Notation sels_nodes := (Rfc9535.sels_nodes rf rs keys).
  Notation seg_nodes := (Rfc9535.seg_nodes rf rs keys).
  Notation segs_nodes := (Rfc9535.segs_nodes rf rs keys).

  Definition nodes_ok e root ctx cur key : Prop :=
    exists ms, eval_f e root ctx cur key = Ok (VNodes ms) /\ map node_of ms = q_nodes e root ctx cur key.
  Definition comp_ok e root ctx cur key : Prop :=
    exists v, eval_f e root ctx cur key = Ok v /\ repr (unwrap v) (v_value e root ctx cur key).
  Definition memb_ok e root ctx cur key : Prop :=
    exists v, eval_f e root ctx cur key = Ok v /\ mrepr (unwrap v) (v_value e root ctx cur key).
  Definition log_ok e root ctx cur key : Prop :=
    exists v, eval_f e root ctx cur key = Ok v /\ is_truthy v = l_test e root ctx cur key.

  Lemma comp_memb e root ctx cur key : comp_ok e root ctx cur key -> memb_ok e root ctx cur key.
  Proof. intros (v & Hev & Hr). exists v. split; [exact Hev|]. apply repr_mrepr. exact Hr. Qed.

  Definition Pf (e : fexpr) : Prop :=
    dk_expr e = true -> forall root ctx cur key,
      (wt_nodes ext e = true -> nodes_ok e root ctx cur key) /\
      (wt_comparable ext e = true -> comp_ok e root ctx cur key) /\
      (wt_member ext e = true -> memb_ok e root ctx cur key) /\
      (wt_logical ext e = true -> log_ok e root ctx cur key).

  Definition Pfs (es : fexprs) : Prop := all_fexprs Pf es.

  Definition Psel (s : selector) : Prop :=
    wt_sel ext s = true -> dk_sel s = true -> forall root ctx m,
      exists ms, resolve_sel s root ctx m = Ok ms /\ map node_of ms = sel_nodes s root ctx (node_of m).

  Definition Psels (l : sels) : Prop :=
    wt_sels ext l = true -> dk_sels l = true -> forall root ctx m,
      exists ms, resolve_sels l root ctx m = Ok ms /\ map node_of ms = sels_nodes l root ctx (node_of m).

  Definition Pseg (g : segment) : Prop :=
    g <> GDescent -> wt_seg ext g = true -> dk_seg g = true -> forall root ctx ms,
      exists ms', resolve_seg g root ctx ms = Ok ms' /\
                  map node_of ms' = seg_nodes g root ctx (map node_of ms).

  Definition main_segs (p : segs) : Prop :=
    wt_segs ext p = true -> dk_segs p = true -> descent_ok p = true -> forall root ctx ms,
      exists ms', resolve_segs p root ctx ms = Ok ms' /\
                  map node_of ms' = segs_nodes p root ctx (map node_of ms).

  Definition Psegs (p : segs) : Prop :=
    main_segs p /\ match p with PNil => True | PCons g r => Pseg g /\ main_segs r end.

  (* ---- literals ---- *)

  Lemma lit_case e j :
    (forall root ctx cur key, eval_f e root ctx cur key = Ok (VVal j)) ->
    (forall root ctx cur key, v_value e root ctx cur key = Some j) ->
    wt_nodes ext e = false -> wt_logical ext e = false -> Pf e.
  Proof.
    intros Hev Hvv Hn Hl _ root ctx cur key.
    split; [|split; [|split]]; intros Hw; try congruence;
      exists (VVal j); (split; [apply Hev|]); rewrite Hvv; [constructor|reflexivity].
  Qed.

  Lemma case_FUndefined : Pf FUndefined.
  Proof.
    intros _ root ctx cur key. split; [|split; [|split]]; intros Hw; try discriminate Hw.
    exists VUndef. split; [reflexivity|constructor].
  Qed.

  Lemma case_FKey : Pf FKey.
  Proof.
    intros _ root ctx cur key. split; [|split; [|split]]; intros Hw; try discriminate Hw;
      exists (VVal key); (split; [reflexivity|]); [constructor|reflexivity].
  Qed.

  Lemma case_FRegex p fl : Pf (FRegex p fl).
  Proof.
    intros _ root ctx cur key. split; [|split; [|split]]; intros Hw; discriminate Hw.
  Qed.

  Lemma literals_ok es : wt_literals ext es = true -> forall root ctx cur key,
    exists vs, eval_fs es root ctx cur key = Ok vs /\
               map (fun v => match v with VVal j => j | _ => JNull end) vs = vs_values es root ctx cur key.
  Proof.
    induction es as [|e r IH]; intros Hw root ctx cur key.
    - exists []. split; reflexivity.
    - rewrite eval_fs_cons, vs_values_cons.
      destruct e; try discriminate Hw;
        (change (wt_literals ext r = true) in Hw;
         destruct (IH Hw root ctx cur key) as (vs & Hev & Hvs); rewrite Hev, <- Hvs;
         eexists; split; reflexivity).
  Qed.

  Lemma case_FList items : Pfs items -> Pf (FList items).
  Proof.
    intros _ _ root ctx cur key. split; [|split; [|split]]; intros Hw; try discriminate Hw.
    rewrite wt_member_list in Hw. destruct (literals_ok items Hw root ctx cur key) as (vs & Hev & Hvs).
    unfold memb_ok. rewrite eval_list, v_value_list, Hev, <- Hvs.
    eexists. split; reflexivity.
  Qed.

  Lemma case_FNot r : Pf r -> Pf (FNot r).
  Proof.
    intros Hr Hdk root ctx cur key. rewrite dk_expr_not in Hdk.
    split; [|split; [|split]]; intros Hw; try discriminate Hw.
    rewrite wt_logical_not in Hw. destruct (Hr Hdk root ctx cur key) as (_ & _ & _ & Hl).
    destruct (Hl Hw) as (v & Hev & Ht).
    unfold log_ok. rewrite eval_not, l_test_not, Hev, <- Ht.
    eexists. split; reflexivity.
  Qed.

  (* ---- infix operators ---- *)

  Lemma infix_eval l o r root ctx cur key lv rv :
    eval_f l root ctx cur key = Ok lv -> eval_f r root ctx cur key = Ok rv ->
    eval_f (FInfix l o r) root ctx cur key =
    Ok (bool_val (filter_compare rf (if is_logical o then lv else unwrap lv) o
                                    (if is_logical o then rv else unwrap rv))).
  Proof. intros Hl Hr. rewrite eval_infix, Hl, Hr. reflexivity. Qed.

  Lemma case_FInfix l o r : Pf l -> Pf r -> Pf (FInfix l o r).
  Proof.
    intros Hl Hr Hdk root ctx cur key. rewrite dk_expr_infix in Hdk.
    apply andb_true_iff in Hdk as [Hdkl Hdkr].
    destruct (Hl Hdkl root ctx cur key) as (_ & Hlc & Hlm & Hll).
    destruct (Hr Hdkr root ctx cur key) as (_ & Hrc & Hrm & Hrl).
    split; [|split; [|split]]; intros Hw; try discriminate Hw.
    unfold log_ok.
    assert (Hcmp : is_cmp o = true ->
                   exists v, eval_f (FInfix l o r) root ctx cur key = Ok v /\
                             is_truthy v = l_test (FInfix l o r) root ctx cur key).
    { intros Ho. rewrite (wt_logical_cmp ext l o r Ho) in Hw. apply andb_true_iff in Hw as [Hwl Hwr].
      destruct (Hlc Hwl) as (lv & Hevl & Hrl'). destruct (Hrc Hwr) as (rv & Hevr & Hrr').
      rewrite (infix_eval l o r root ctx cur key lv rv Hevl Hevr).
      replace (is_logical o) with false by (destruct o; try discriminate Ho; reflexivity).
      eexists. split; [reflexivity|].
      rewrite is_truthy_bool, (l_test_cmp rf rs keys l o r root ctx cur key Ho).
      apply compare_agrees; assumption. }
    destruct o; try (apply Hcmp; reflexivity); clear Hcmp.
    - (* and *)
      rewrite wt_logical_and in Hw. apply andb_true_iff in Hw as [Hwl Hwr].
      destruct (Hll Hwl) as (lv & Hevl & Htl). destruct (Hrl Hwr) as (rv & Hevr & Htr).
      rewrite (infix_eval l BAnd r root ctx cur key lv rv Hevl Hevr), l_test_and, <- Htl, <- Htr.
      eexists. split; reflexivity.
    - (* or *)
      rewrite wt_logical_or in Hw. apply andb_true_iff in Hw as [Hwl Hwr].
      destruct (Hll Hwl) as (lv & Hevl & Htl). destruct (Hrl Hwr) as (rv & Hevr & Htr).
      rewrite (infix_eval l BOr r root ctx cur key lv rv Hevl Hevr), l_test_or, <- Htl, <- Htr.
      eexists. split; reflexivity.
    - (* <> *)
      rewrite wt_logical_lg in Hw.
      apply andb_true_iff in Hw as [Hw Hwr]. apply andb_true_iff in Hw as [_ Hwl].
      destruct (Hlc Hwl) as (lv & Hevl & Hrl'). destruct (Hrc Hwr) as (rv & Hevr & Hrr').
      rewrite (infix_eval l BLg r root ctx cur key lv rv Hevl Hevr), l_test_lg.
      eexists. split; [reflexivity|]. rewrite is_truthy_bool.
      exact (compare_agrees rf _ _ _ _ BNe Hrl' Hrr' eq_refl).
    - (* in *)
      rewrite wt_logical_in in Hw.
      apply andb_true_iff in Hw as [Hw Hwr]. apply andb_true_iff in Hw as [_ Hwl].
      destruct (Hlm Hwl) as (lv & Hevl & Hrl'). destruct (Hrm Hwr) as (rv & Hevr & Hrr').
      rewrite (infix_eval l BIn r root ctx cur key lv rv Hevl Hevr), l_test_in.
      eexists. split; [reflexivity|]. rewrite is_truthy_bool.
      exact (member_agrees _ _ _ _ Hrl' Hrr').
    - (* contains *)
      rewrite wt_logical_contains in Hw.
      apply andb_true_iff in Hw as [Hw Hwr]. apply andb_true_iff in Hw as [_ Hwl].
      destruct (Hlm Hwl) as (lv & Hevl & Hrl'). destruct (Hrm Hwr) as (rv & Hevr & Hrr').
      rewrite (infix_eval l BContains r root ctx cur key lv rv Hevl Hevr), l_test_contains.
      eexists. split; [reflexivity|]. rewrite is_truthy_bool.
      exact (member_agrees _ _ _ _ Hrr' Hrl').
    - (* =~ *)
      rewrite wt_logical_re in Hw. destruct r; try discriminate Hw.
      apply andb_true_iff in Hw as [_ Hwl].
      destruct (Hlc Hwl) as (lv & Hevl & Hrl').
      rewrite (infix_eval l BRe (FRegex pattern flags) root ctx cur key lv (VRegex pattern flags) Hevl eq_refl),
        l_test_re.
      eexists. split; [reflexivity|]. rewrite is_truthy_bool.
      cbn [is_logical filter_compare unwrap].
      destruct Hrl' as [[]| |]; reflexivity.
  Qed.

  (* ---- queries in filter expressions ---- *)

  Lemma query_case e p v root ctx cur key :
    eval_f e root ctx cur key = (ns <- resolve_segs p root ctx [root_match E v] ;; Ok (VNodes ns)) ->
    q_nodes e root ctx cur key = segs_nodes p root ctx [([], v)] ->
    v_value e root ctx cur key =
      match segs_nodes p root ctx [([], v)] with [n] => Some (snd n) | _ => None end ->
    l_test e root ctx cur key =
      match segs_nodes p root ctx [([], v)] with [] => false | _ => true end ->
    main_segs p -> dk_segs p = true -> descent_ok p = true ->
    (wt_segs ext p = true -> nodes_ok e root ctx cur key) /\
    (singular p = true -> comp_ok e root ctx cur key) /\
    (wt_segs ext p = true -> memb_ok e root ctx cur key) /\
    (wt_segs ext p = true -> log_ok e root ctx cur key).
  Proof.
    intros Hev Hq Hv Hl Hmain Hdk Hdesc.
    assert (Hres : wt_segs ext p = true ->
                   exists ms, eval_f e root ctx cur key = Ok (VNodes ms) /\
                              map node_of ms = segs_nodes p root ctx [([], v)]).
    { intros Hwt. destruct (Hmain Hwt Hdk Hdesc root ctx [root_match E v]) as (ms & Hr & Hm).
      exists ms. rewrite Hev, Hr. split; [reflexivity|exact Hm]. }
    split; [|split; [|split]].
    - intros Hwt. destruct (Hres Hwt) as (ms & Hr & Hm). exists ms. rewrite Hq. auto.
    - intros Hs. destruct (singular_wt ext p Hs) as [Hwt _].
      destruct (Hres Hwt) as (ms & Hr & Hm). exists (VNodes ms). split; [exact Hr|].
      rewrite Hv. pose proof (singular_le rf rs keys p root ctx Hs [([], v)]) as Hle.
      rewrite <- Hm in Hle |- *. rewrite map_length in Hle. cbn [length] in Hle.
      destruct ms as [|n [|n' ms]]; cbn [length] in Hle; [constructor|constructor|lia].
    - intros Hwt. destruct (Hres Hwt) as (ms & Hr & Hm). exists (VNodes ms). split; [exact Hr|].
      rewrite Hv, <- Hm. destruct ms as [|n [|n' ms]]; reflexivity.
    - intros Hwt. destruct (Hres Hwt) as (ms & Hr & Hm). exists (VNodes ms). split; [exact Hr|].
      rewrite Hl, <- Hm. destruct ms as [|n ms]; reflexivity.
  Qed.

  Lemma case_FSelf p : Psegs p -> Pf (FSelf p).
  Proof.
    intros [Hmain _] Hdk root ctx cur key. rewrite dk_expr_self in Hdk.
    apply andb_true_iff in Hdk as [Hdesc Hdk].
    destruct (query_case (FSelf p) p cur root ctx cur key eq_refl eq_refl eq_refl eq_refl Hmain Hdk Hdesc)
      as (H1 & H2 & H3 & H4).
    split; [|split; [|split]]; intros Hw.
    - apply H1. exact Hw.
    - apply H2. exact Hw.
    - apply H3. exact Hw.
    - apply H4. exact Hw.
  Qed.

  Lemma case_FRoot fake p : Psegs p -> Pf (FRoot fake p).
  Proof.
    intros [Hmain _] Hdk root ctx cur key. rewrite dk_expr_root in Hdk.
    apply andb_true_iff in Hdk as [Hdesc Hdk].
    destruct (query_case (FRoot fake p) p (if fake then JArr [root] else root) root ctx cur key
                eq_refl eq_refl eq_refl eq_refl Hmain Hdk Hdesc) as (H1 & H2 & H3 & H4).
    split; [|split; [|split]]; intros Hw.
    - change ((ext || negb fake) && wt_segs ext p = true) in Hw.
      apply andb_true_iff in Hw as [_ Hw]. apply H1. exact Hw.
    - change ((ext || negb fake) && singular p = true) in Hw.
      apply andb_true_iff in Hw as [_ Hw]. apply H2. exact Hw.
    - apply H3. exact Hw.
    - change ((ext || negb fake) && wt_segs ext p = true) in Hw.
      apply andb_true_iff in Hw as [_ Hw]. apply H4. exact Hw.
  Qed.

  Lemma case_FCtx p : Psegs p -> Pf (FCtx p).
  Proof.
    intros [Hmain _] Hdk root ctx cur key. rewrite dk_expr_ctx in Hdk.
    apply andb_true_iff in Hdk as [Hdesc Hdk].
    destruct (query_case (FCtx p) p ctx root ctx cur key eq_refl eq_refl eq_refl eq_refl Hmain Hdk Hdesc)
      as (H1 & H2 & H3 & H4).
    split; [|split; [|split]]; intros Hw.
    - change (ext && wt_segs ext p = true) in Hw.
      apply andb_true_iff in Hw as [_ Hw]. apply H1. exact Hw.
    - change (ext && singular p = true) in Hw.
      apply andb_true_iff in Hw as [_ Hw]. apply H2. exact Hw.
    - apply H3. exact Hw.
    - change (ext && wt_segs ext p = true) in Hw.
      apply andb_true_iff in Hw as [_ Hw]. apply H4. exact Hw.
  Qed.

  (* ---- function extensions ---- *)

  Lemma eval_length a root ctx cur key v :
    eval_f a root ctx cur key = Ok v ->
    eval_f (FFunc tname_length (ECons a ENil)) root ctx cur key =
    Ok (match py_len (unpack_arg TValue v) with Some n => int_val n | None => VUndef end).
  Proof. intros H. rewrite eval_func, eval_fs_cons, H, eval_fs_nil. reflexivity. Qed.

  Lemma eval_count a root ctx cur key v :
    eval_f a root ctx cur key = Ok v ->
    eval_f (FFunc tname_count (ECons a ENil)) root ctx cur key =
    match py_len v with Some n => Ok (int_val n) | None => Err (EBuiltin BTypeError) end.
  Proof. intros H. rewrite eval_func, eval_fs_cons, H, eval_fs_nil. reflexivity. Qed.

  Lemma eval_valuef a root ctx cur key v :
    eval_f a root ctx cur key = Ok v ->
    eval_f (FFunc tname_value (ECons a ENil)) root ctx cur key = call_function rf rs tname_value [v].
  Proof. intros H. rewrite eval_func, eval_fs_cons, H, eval_fs_nil. reflexivity. Qed.

  Lemma eval_typeof a root ctx cur key v :
    eval_f a root ctx cur key = Ok v ->
    eval_f (FFunc tname_typeof (ECons a ENil)) root ctx cur key = call_function rf rs tname_typeof [v].
  Proof. intros H. rewrite eval_func, eval_fs_cons, H, eval_fs_nil. reflexivity. Qed.

  Lemma eval_match a b root ctx cur key va vb :
    eval_f a root ctx cur key = Ok va -> eval_f b root ctx cur key = Ok vb ->
    eval_f (FFunc tname_match (ECons a (ECons b ENil))) root ctx cur key =
    call_function rf rs tname_match [unpack_arg TValue va; unpack_arg TValue vb].
  Proof. intros Ha Hb. rewrite eval_func, !eval_fs_cons, Ha, Hb, eval_fs_nil. reflexivity. Qed.

  Lemma eval_search a b root ctx cur key va vb :
    eval_f a root ctx cur key = Ok va -> eval_f b root ctx cur key = Ok vb ->
    eval_f (FFunc tname_search (ECons a (ECons b ENil))) root ctx cur key =
    call_function rf rs tname_search [unpack_arg TValue va; unpack_arg TValue vb].
  Proof. intros Ha Hb. rewrite eval_func, !eval_fs_cons, Ha, Hb, eval_fs_nil. reflexivity. Qed.

  Lemma func_value_case name args root ctx cur key :
    Pfs args -> dk_exprs args = true ->
    wt_comparable ext (FFunc name args) = true -> comp_ok (FFunc name args) root ctx cur key.
  Proof.
    intros Hargs Hdk Hw. rewrite wt_comparable_func in Hw. unfold comp_ok.
    destruct (ustr_eqb name tname_length) eqn:HL.
    - (* length *)
      apply ustr_eqb_spec in HL. subst name.
      destruct args as [|a [|b r]]; try discriminate Hw.
      destruct Hargs as [Ha _]. rewrite dk_exprs_cons in Hdk. apply andb_true_iff in Hdk as [Hdka _].
      destruct (Ha Hdka root ctx cur key) as (_ & Hc & _).
      destruct (Hc (proj1 (wt_arg_comparable ext a Hw))) as (v & Hev & Hr).
      rewrite (eval_length a root ctx cur key v Hev).
      eexists. split; [reflexivity|].
      change (v_value (FFunc tname_length (ECons a ENil)) root ctx cur key)
        with (fn_length (v_value a root ctx cur key)).
      destruct (unpack_value v _ Hr) as [(j & -> & ->)|[-> ->]].
      + destruct j; cbn [py_len unwrap int_val fn_length]; constructor.
      + constructor.
    - destruct (ustr_eqb name tname_count) eqn:HC.
      + (* count *)
        apply ustr_eqb_spec in HC. subst name. cbn [orb] in Hw.
        destruct args as [|a [|b r]]; try discriminate Hw.
        destruct Hargs as [Ha _]. rewrite dk_exprs_cons in Hdk. apply andb_true_iff in Hdk as [Hdka _].
        destruct (Ha Hdka root ctx cur key) as (Hn & _). destruct (Hn Hw) as (ms & Hev & Hq).
        rewrite (eval_count a root ctx cur key _ Hev). cbn [py_len].
        eexists. split; [reflexivity|].
        change (v_value (FFunc tname_count (ECons a ENil)) root ctx cur key)
          with (Some (JNum (num_of_Z (Z.of_nat (length (q_nodes a root ctx cur key)))))).
        rewrite <- Hq, map_length. constructor.
      + (* value *)
        cbn [orb] in Hw. destruct (ustr_eqb name tname_value) eqn:HV.
        { apply ustr_eqb_spec in HV. subst name.
          destruct args as [|a [|b r]]; try discriminate Hw.
          destruct Hargs as [Ha _]. rewrite dk_exprs_cons in Hdk. apply andb_true_iff in Hdk as [Hdka _].
          destruct (Ha Hdka root ctx cur key) as (Hn & _). destruct (Hn Hw) as (ms & Hev & Hq).
          rewrite (eval_valuef a root ctx cur key _ Hev).
          change (v_value (FFunc tname_value (ECons a ENil)) root ctx cur key)
            with (fn_value (q_nodes a root ctx cur key)).
          rewrite <- Hq.
          destruct ms as [|n [|n' ms]]; (eexists; split; [reflexivity|]); constructor. }
        (* typeof *)
        destruct (ext && ustr_eqb name tname_typeof) eqn:HT; [|discriminate Hw].
        apply andb_true_iff in HT as [_ HT]. apply ustr_eqb_spec in HT. subst name.
        destruct args as [|a [|b r]]; try discriminate Hw.
        destruct Hargs as [Ha _]. rewrite dk_exprs_cons in Hdk. apply andb_true_iff in Hdk as [Hdka _].
        destruct (Ha Hdka root ctx cur key) as (Hn & _). destruct (Hn Hw) as (ms & Hev & Hq).
        rewrite (eval_typeof a root ctx cur key _ Hev).
        change (v_value (FFunc tname_typeof (ECons a ENil)) root ctx cur key)
          with (fn_typeof (q_nodes a root ctx cur key)).
        rewrite <- Hq.
        destruct ms as [|n [|n' ms]]; [| |]; (eexists; split; [reflexivity|]).
        * constructor.
        * cbn [map fn_typeof]. destruct n as [v ps pth]. cbn. destruct v; constructor.
        * constructor.
  Qed.

  Lemma func_logical_case name args root ctx cur key :
    Pfs args -> dk_exprs args = true ->
    wt_logical ext (FFunc name args) = true -> log_ok (FFunc name args) root ctx cur key.
  Proof.
    intros Hargs Hdk Hw. rewrite wt_logical_func in Hw. apply andb_true_iff in Hw as [Hname Hw].
    destruct args as [|a [|b [|c r]]]; try discriminate Hw.
    apply andb_true_iff in Hw as [Hwa Hwb].
    destruct Hargs as (Ha & Hb & _). rewrite !dk_exprs_cons in Hdk.
    apply andb_true_iff in Hdk as [Hdka Hdk]. apply andb_true_iff in Hdk as [Hdkb _].
    destruct (Ha Hdka root ctx cur key) as (_ & Hca & _).
    destruct (Hca (proj1 (wt_arg_comparable ext a Hwa))) as (va & Heva & Hra).
    destruct (Hb Hdkb root ctx cur key) as (_ & Hcb & _).
    destruct (Hcb (proj1 (wt_arg_comparable ext b Hwb))) as (vb & Hevb & Hrb).
    unfold log_ok.
    destruct (ustr_eqb name tname_match) eqn:HM.
    - apply ustr_eqb_spec in HM. subst name.
      rewrite (eval_match a b root ctx cur key va vb Heva Hevb).
      change (l_test (FFunc tname_match (ECons a (ECons b ENil))) root ctx cur key)
        with (fn_match rf (v_value a root ctx cur key) (v_value b root ctx cur key)).
      destruct (unpack_value va _ Hra) as [(ja & -> & ->)|[-> ->]];
        destruct (unpack_value vb _ Hrb) as [(jb & -> & ->)|[-> ->]].
      + destruct ja, jb; eexists; split; reflexivity.
      + destruct ja; eexists; split; reflexivity.
      + eexists; split; reflexivity.
      + eexists; split; reflexivity.
    - cbn [orb] in Hname. apply ustr_eqb_spec in Hname. subst name.
      rewrite (eval_search a b root ctx cur key va vb Heva Hevb).
      change (l_test (FFunc tname_search (ECons a (ECons b ENil))) root ctx cur key)
        with (fn_search rs (v_value a root ctx cur key) (v_value b root ctx cur key)).
      destruct (unpack_value va _ Hra) as [(ja & -> & ->)|[-> ->]];
        destruct (unpack_value vb _ Hrb) as [(jb & -> & ->)|[-> ->]].
      + destruct ja, jb; eexists; split; reflexivity.
      + destruct ja; eexists; split; reflexivity.
      + eexists; split; reflexivity.
      + eexists; split; reflexivity.
  Qed.

  Lemma case_FFunc name args : Pfs args -> Pf (FFunc name args).
  Proof.
    intros Hargs Hdk root ctx cur key. rewrite dk_expr_func in Hdk.
    split; [|split; [|split]]; intros Hw.
    - discriminate Hw.
    - apply func_value_case; assumption.
    - rewrite wt_member_func in Hw. apply comp_memb. apply func_value_case; assumption.
    - apply func_logical_case; assumption.
  Qed.

  (* ---- selectors ---- *)

  Lemma case_SName k : Psel (SName k).
  Proof. intros _ _ root ctx m. exists (resolve_name k m). split; [reflexivity|exact (name_corr k m)]. Qed.
  Lemma case_SIndex i : Psel (SIndex i).
  Proof. intros _ _ root ctx m. exists (resolve_index i m). split; [reflexivity|exact (index_corr i m)]. Qed.
  Lemma case_SSlice a b c : Psel (SSlice a b c).
  Proof. intros _ _ root ctx m. exists (resolve_slice a b c m). split; [reflexivity|exact (slice_corr a b c m)]. Qed.
  Lemma case_SWild : Psel SWild.
  Proof. intros _ _ root ctx m. exists (resolve_wild m). split; [reflexivity|exact (wild_corr m)]. Qed.
  Lemma case_SKeys : Psel SKeys.
  Proof. intros _ _ root ctx m. exists (resolve_keys E m). split; [reflexivity|exact (keys_corr E m)]. Qed.

  Lemma case_SFilter e : Pf e -> Psel (SFilter e).
  Proof.
    intros He Hwt Hdk root ctx m. rewrite wt_sel_filter in Hwt. rewrite dk_sel_filter in Hdk.
    rewrite resolve_sel_filter, sel_nodes_filter.
    apply concat_results_corr.
    change (snd (node_of m)) with (m_val m). change (fst (node_of m)) with (m_parts m).
    eapply Forall2_weaken; [|apply candidates_children].
    intros [[cur key] child] pc (H1 & H2 & H3). cbn [fst snd] in H1, H2, H3. subst cur key.
    destruct (He Hdk root ctx (snd pc) (part_value (fst pc))) as (_ & _ & _ & Hl).
    destruct (Hl Hwt) as (v & Hev & Ht). rewrite Hev, <- Ht. cbn [bind].
    eexists. split; [reflexivity|].
    destruct (is_truthy v); cbn [map]; [rewrite H3|]; reflexivity.
  Qed.

  Lemma case_LNil : Psels LNil.
  Proof. intros _ _ root ctx m. exists []. split; reflexivity. Qed.

  Lemma case_LCons s r : Psel s -> Psels r -> Psels (LCons s r).
  Proof.
    intros Hs Hr Hwt Hdk root ctx m.
    rewrite wt_sels_cons in Hwt. apply andb_true_iff in Hwt as [Hwt1 Hwt2].
    rewrite dk_sels_cons in Hdk. apply andb_true_iff in Hdk as [Hdk1 Hdk2].
    destruct (Hs Hwt1 Hdk1 root ctx m) as (x & Hx & Hxn).
    destruct (Hr Hwt2 Hdk2 root ctx m) as (y & Hy & Hyn).
    exists (x ++ y). rewrite resolve_sels_cons, sels_nodes_cons, Hx, Hy, map_app, Hxn, Hyn.
    split; reflexivity.
  Qed.

  (* ---- segments ---- *)

  Lemma case_GSel s : Psel s -> Pseg (GSel s).
  Proof.
    intros Hs _ Hwt Hdk root ctx ms.
    assert (Hwt' : wt_sel ext s = true).
    { rewrite wt_seg_sel in Hwt. destruct s; try discriminate Hwt; try reflexivity. exact Hwt. }
    rewrite dk_seg_sel in Hdk. rewrite resolve_seg_sel, seg_nodes_sel.
    apply concat_results_map_corr. intros m. apply Hs; assumption.
  Qed.

  Lemma case_GDescent : Pseg GDescent.
  Proof. intros H. contradiction H. reflexivity. Qed.

  Lemma case_GList items : Psels items -> Pseg (GList items).
  Proof.
    intros Hs _ Hwt Hdk root ctx ms.
    assert (Hwt' : wt_sels ext items = true).
    { rewrite wt_seg_list in Hwt. destruct items; [discriminate Hwt|exact Hwt]. }
    rewrite dk_seg_list in Hdk. rewrite resolve_seg_list, seg_nodes_list.
    apply concat_results_map_corr. intros m. apply Hs; assumption.
  Qed.

  Lemma case_PNil : Psegs PNil.
  Proof. split; [|exact I]. intros _ _ _ root ctx ms. exists ms. split; reflexivity. Qed.

  (* a descendant segment followed by a child segment: container descendants suffice *)
  Lemma descent_then g root ctx ms : g <> GDescent ->
    seg_nodes g root ctx (flat_map descendants (map node_of ms)) =
    seg_nodes g root ctx (map node_of (flat_map resolve_descent ms)).
  Proof.
    intros Hg. destruct g as [s| |items].
    - rewrite !seg_nodes_sel. apply descent_corr. intros n. apply sel_nodes_prim.
    - contradiction Hg. reflexivity.
    - rewrite !seg_nodes_list. apply descent_corr. intros n. apply sels_nodes_prim.
  Qed.

  Lemma case_PCons g r : Pseg g -> Psegs r -> Psegs (PCons g r).
  Proof.
    intros Hg [Hr Hr']. split; [|split; assumption].
    intros Hwt Hdk Hdesc root ctx ms.
    rewrite wt_segs_cons in Hwt. apply andb_true_iff in Hwt as [Hwt1 Hwt2].
    rewrite dk_segs_cons in Hdk. apply andb_true_iff in Hdk as [Hdk1 Hdk2].
    rewrite resolve_segs_cons, segs_nodes_cons.
    destruct (segment_eq_descent g) as [->|Hne].
    - (* descendant segment: take it together with the next one *)
      destruct r as [|g' r']; [discriminate Hdesc|].
      destruct Hr' as [Hg' Hr''].
      assert (Hne : g' <> GDescent) by (intros ->; discriminate Hdesc).
      assert (Hdesc' : descent_ok r' = true) by (destruct g'; [exact Hdesc|contradiction Hne; reflexivity|exact Hdesc]).
      rewrite wt_segs_cons in Hwt2. apply andb_true_iff in Hwt2 as [Hwt2 Hwt3].
      rewrite dk_segs_cons in Hdk2. apply andb_true_iff in Hdk2 as [Hdk2 Hdk3].
      rewrite resolve_seg_descent, seg_nodes_descent. cbn [bind].
      rewrite resolve_segs_cons, segs_nodes_cons.
      destruct (Hg' Hne Hwt2 Hdk2 root ctx (flat_map resolve_descent ms)) as (ms2 & Hev2 & Hn2).
      rewrite Hev2. cbn [bind].
      destruct (Hr'' Hwt3 Hdk3 Hdesc' root ctx ms2) as (ms3 & Hev3 & Hn3).
      exists ms3. split; [exact Hev3|].
      rewrite Hn3, Hn2, (descent_then g' root ctx ms Hne). reflexivity.
    - assert (Hdesc' : descent_ok r = true) by (destruct g; [exact Hdesc|contradiction Hne; reflexivity|exact Hdesc]).
      destruct (Hg Hne Hwt1 Hdk1 root ctx ms) as (ms1 & Hev1 & Hn1).
      rewrite Hev1. cbn [bind].
      destruct (Hr Hwt2 Hdk2 Hdesc' root ctx ms1) as (ms2 & Hev2 & Hn2).
      exists ms2. split; [exact Hev2|]. rewrite Hn2, Hn1. reflexivity.
  Qed.

  (* ---- the mutual induction ---- *)

  Theorem evaluator_correct :
    (forall e, Pf e) /\ (forall es, Pfs es) /\ (forall s, Psel s) /\ (forall l, Psels l) /\
    (forall g, Pseg g) /\ (forall p, Psegs p).
  Proof.
    apply syntax_mutind.
    - apply (lit_case FNil JNull); reflexivity.
    - exact case_FUndefined.
    - intros b. apply (lit_case (FBool b) (JBool b)); reflexivity.
    - intros z. apply (lit_case (FInt z) (JNum (num_of_Z z))); reflexivity.
    - intros n. apply (lit_case (FFloat n) (JNum n)); reflexivity.
    - intros s. apply (lit_case (FStr s) (JStr s)); reflexivity.
    - exact case_FRegex.
    - exact case_FList.
    - exact case_FNot.
    - intros l Hl o r Hr. apply case_FInfix; assumption.
    - exact case_FSelf.
    - exact case_FRoot.
    - exact case_FCtx.
    - exact case_FKey.
    - exact case_FFunc.
    - exact I.
    - intros e He r Hr. split; assumption.
    - exact case_SName.
    - exact case_SIndex.
    - exact case_SSlice.
    - exact case_SWild.
    - exact case_SKeys.
    - exact case_SFilter.
    - exact case_LNil.
    - intros s Hs r Hr. apply case_LCons; assumption.
    - exact case_GSel.
    - exact case_GDescent.
    - exact case_GList.
    - exact case_PNil.
    - intros g Hg r Hr. apply case_PCons; assumption.
  Qed.

  Lemma segs_correct p :
    wt_segs ext p = true -> dk_segs p = true -> descent_ok p = true -> forall root ctx ms,
      exists ms', resolve_segs p root ctx ms = Ok ms' /\
                  map node_of ms' = segs_nodes p root ctx (map node_of ms).
  Proof. destruct evaluator_correct as (_ & _ & _ & _ & _ & H). exact (proj1 (H p)). Qed.

  Lemma path_correct p d ctx :
    wt_path ext p = true -> dk_segs (p_segs p) = true ->
    exists ms, finditer E rf rs p d ctx = Ok ms /\ map node_of ms = path_nodes rf rs keys p d ctx.
  Proof.
    unfold wt_path. intros Hwt Hdk.
    apply andb_true_iff in Hwt as [Hwt Hdesc]. apply andb_true_iff in Hwt as [_ Hwt].
    exact (segs_correct (p_segs p) Hwt Hdk Hdesc d ctx [root_match E (if p_fake p then JArr [d] else d)]).
  Qed.

  Lemma filter_correct e root ctx m :
    wt_logical ext e = true -> dk_expr e = true ->
    exists ms, resolve_sel (SFilter e) root ctx m = Ok ms /\
               map node_of ms = sel_nodes (SFilter e) root ctx (node_of m).
  Proof.
    intros Hwt Hdk. destruct evaluator_correct as (_ & _ & H & _).
    apply (H (SFilter e)); [rewrite wt_sel_filter|rewrite dk_sel_filter]; assumption.
  Qed.
End Main.

(* ---- the statements of props/C13, C01, C02 ------------------------------------------------- *)

Section Statements.
  Variable E : env.
  Variable rf : ustr -> reflags -> ustr -> option bool.
  Variable rs : ustr -> ustr -> option bool.

  Lemma ext_path_correct p d ctx :
    ext_path p = true ->
    exists ms, finditer E rf rs p d ctx = Ok ms /\ map node_of ms = path_nodes rf rs (e_keys E) p d ctx.
  Proof.
    unfold ext_path. intros H. apply andb_true_iff in H as [Hwt Hdk].
    exact (path_correct E rf rs true p d ctx Hwt Hdk).
  Qed.

  Lemma compound_rest_correct d ctx rest :
    forallb (fun op => ext_path (snd op)) rest = true -> forall ms,
      exists ms', compound_finditer_rest E rf rs ms rest d ctx = Ok ms' /\
                  map node_of ms' = compound_nodes rf rs (e_keys E) (map node_of ms) rest d ctx.
  Proof.
    induction rest as [|[o p] rest IH]; intros Hall ms.
    - exists ms. split; reflexivity.
    - cbn [forallb snd] in Hall. apply andb_true_iff in Hall as [Hp Hall].
      destruct (ext_path_correct p d ctx Hp) as (ms' & Hev & Hn).
      cbn [compound_finditer_rest compound_nodes]. rewrite Hev. cbn [bind].
      destruct o.
      + rewrite <- Hn, <- map_app. apply IH. exact Hall.
      + rewrite <- Hn, map_map.
        change (map (fun x => snd (node_of x)) ms') with (map m_val ms').
        destruct (IH Hall (filter (fun m => py_in_list (m_val m) (map m_val ms')) ms)) as (r & Hr1 & Hr2).
        exists r. split; [exact Hr1|]. rewrite Hr2. f_equal.
        exact (filter_map_node (fun n => existsb (fun v => py_eq v (snd n)) (map m_val ms')) ms).
  Qed.

  Theorem semantics (q : query) (d ctx : json) :
    ext_query q = true ->
    exists ms, compound_finditer E rf rs q d ctx = Ok ms /\
               map node_of ms = query_nodes rf rs (e_keys E) q d ctx.
  Proof.
    unfold ext_query. intros H. apply andb_true_iff in H as [Hfirst Hrest].
    destruct (ext_path_correct (q_first q) d ctx Hfirst) as (ms & Hev & Hn).
    unfold compound_finditer, query_nodes. rewrite Hev, <- Hn. cbn [bind].
    apply compound_rest_correct. exact Hrest.
  Qed.

  Theorem std_eval (p : jpath) (d : json) :
    std_path p = true ->
    exists ms, finditer E rf rs p d (JObj []) = Ok ms /\
               map node_of ms = nodelist rf rs (e_keys E) (p_segs p) d.
  Proof.
    unfold std_path. intros H. apply andb_true_iff in H as [Hwt Hdk].
    destruct (path_correct E rf rs false p d (JObj []) Hwt Hdk) as (ms & Hev & Hn).
    exists ms. split; [exact Hev|]. rewrite Hn.
    unfold wt_path in Hwt. apply andb_true_iff in Hwt as [Hwt _]. apply andb_true_iff in Hwt as [Hfake _].
    cbn [orb] in Hfake. unfold path_nodes, nodelist. destruct (p_fake p); [discriminate Hfake|reflexivity].
  Qed.

  Theorem filter_agrees (e : fexpr) (root ctx : json) (m : jmatch) :
    wt_logical false e = true -> dk_expr e = true ->
    exists ms, resolve_sel E rf rs (SFilter e) root ctx m = Ok ms /\
               map node_of ms = sel_nodes rf rs (e_keys E) (SFilter e) root ctx (node_of m).
  Proof. apply filter_correct. Qed.

  Theorem exists_test (p : segs) (root ctx cur key : json) :
    wt_segs false p = true -> dk_segs p = true -> descent_ok p = true ->
    exists ns, eval_f E rf rs (FSelf p) root ctx cur key = Ok (VNodes ns) /\
               is_truthy (VNodes ns) = negb (Nat.eqb (length ns) 0) /\
               map node_of ns = segs_nodes rf rs (e_keys E) p root ctx [([], cur)].
  Proof.
    intros Hwt Hdk Hdesc.
    destruct (segs_correct E rf rs false p Hwt Hdk Hdesc root ctx [root_match E cur]) as (ns & Hev & Hn).
    exists ns. rewrite eval_self, Hev. split; [reflexivity|]. split; [|exact Hn].
    destruct ns; reflexivity.
  Qed.
End Statements.

(* re-exported under the names the props files use *)
Definition slice_agrees := SliceProofs.slice_agrees.
Definition compare_agrees := EvalBasics.compare_agrees.
Definition absent_eq := EvalBasics.absent_eq.
Definition order_domain := EvalBasics.order_domain.
Definition bool_never_number := EvalBasics.bool_never_number.
Definition findall_is_values := EvalBasics.findall_is_values.
Definition match_is_first := EvalBasics.match_is_first.
Definition compound_agree := EvalBasics.compound_agree.
Definition compound_shape := EvalBasics.compound_shape.
Definition lg_is_ne := EvalBasics.lg_is_ne.
Definition in_contains := EvalBasics.in_contains.
Definition wrong_kind := EvalBasics.wrong_kind.
Definition descendant_order := EvalBasics.descendant_order.
