(* PatchHeapRefine.v — (1) REFINEMENT: on a tree-shaped document the heap operations of
   model/PatchHeap.v compute, cell by cell, what the value model Patch.apply computes.

   [rep h v j F]: the heap value v denotes the JSON value j and occupies exactly the cells F,
   each of them once (so the structure is a tree: no cell is shared, there is no cycle). *)
From JP Require Import Base Json PyStr Pointer Patch PatchHeap PatchLemmas PatchHeapProofs.

Inductive rep (h : heap) : hval -> json -> list addr -> Prop :=
| rep_lit j : is_container j = false -> rep h (HLit j) j []
| rep_arr a xs js F :
    h_get h a = Some (CArr xs) -> reps h xs js F -> ~ In a F -> rep h (HRef a) (JArr js) (a :: F)
| rep_obj a ms js F :
    h_get h a = Some (CObj ms) -> map fst ms = map fst js ->
    reps h (map snd ms) (map snd js) F -> ~ In a F -> rep h (HRef a) (JObj js) (a :: F)
with reps (h : heap) : list hval -> list json -> list addr -> Prop :=
| reps_nil : reps h [] [] []
| reps_cons v j F vs js Fs :
    rep h v j F -> reps h vs js Fs -> (forall x, In x F -> ~ In x Fs) ->
    reps h (v :: vs) (j :: js) (F ++ Fs).

Scheme rep_min := Minimality for rep Sort Prop
  with reps_min := Minimality for reps Sort Prop.
Combined Scheme rep_mutind from rep_min, reps_min.

(* ---------------------------------------------------------------------- *)
(* Basic facts. *)

Lemma reps_length h vs js F : reps h vs js F -> length vs = length js.
Proof. induction 1; cbn; congruence. Qed.

(* only the cells of the footprint matter *)
Lemma rep_frame_mut h h' :
  (forall v j F, rep h v j F -> (forall x, In x F -> h_get h' x = h_get h x) -> rep h' v j F) /\
  (forall vs js F, reps h vs js F -> (forall x, In x F -> h_get h' x = h_get h x) -> reps h' vs js F).
Proof.
  apply rep_mutind.
  - intros j Hj _. constructor. exact Hj.
  - intros a xs js F Hg _ IH Hn Hs. apply rep_arr with (xs := xs); auto.
    + rewrite Hs by (left; reflexivity). exact Hg.
    + apply IH. intros x Hx. apply Hs. right. exact Hx.
  - intros a ms js F Hg Hk _ IH Hn Hs. apply rep_obj with (ms := ms); auto.
    + rewrite Hs by (left; reflexivity). exact Hg.
    + apply IH. intros x Hx. apply Hs. right. exact Hx.
  - intros _. constructor.
  - intros v j F vs js Fs _ IHv _ IHs Hd Hs. constructor; auto.
    + apply IHv. intros x Hx. apply Hs. apply in_or_app. auto.
    + apply IHs. intros x Hx. apply Hs. apply in_or_app. auto.
Qed.

Lemma rep_frame h h' v j F :
  rep h v j F -> (forall x, In x F -> h_get h' x = h_get h x) -> rep h' v j F.
Proof. apply rep_frame_mut. Qed.

Lemma reps_frame h h' vs js F :
  reps h vs js F -> (forall x, In x F -> h_get h' x = h_get h x) -> reps h' vs js F.
Proof. apply rep_frame_mut. Qed.

(* the footprint is made of reachable (hence, in a closed heap, allocated) cells *)
Lemma rep_reach_mut h :
  (forall v j F, rep h v j F -> forall x, In x F -> reach h v x) /\
  (forall vs js F, reps h vs js F -> forall x, In x F -> exists v, In v vs /\ reach h v x).
Proof.
  apply rep_mutind.
  - intros j _ x [].
  - intros a xs js F Hg _ IH _ x [<-|Hx]; [constructor|].
    destruct (IH x Hx) as [v [Hin Hr]]. eapply reach_step; eauto.
  - intros a ms js F Hg _ _ IH _ x [<-|Hx]; [constructor|].
    destruct (IH x Hx) as [v [Hin Hr]]. eapply reach_step; eauto.
  - intros x [].
  - intros v j F vs js Fs _ IHv _ IHs _ x Hx. apply in_app_or in Hx as [Hx|Hx].
    + exists v. split; [left; reflexivity|auto].
    + destruct (IHs x Hx) as [v' [Hin Hr]]. exists v'. split; [right; exact Hin|exact Hr].
Qed.

Lemma rep_alloc h v j F x : closed h -> valloc h v -> rep h v j F -> In x F -> x < h_next h.
Proof. intros Hc Hv Hr Hx. eapply reach_alloc; eauto. eapply (proj1 (rep_reach_mut h)); eauto. Qed.

(* reading agrees with the representation *)
Lemma all_some_map {A B} (f : A -> option B) l r :
  all_some (map f l) = Some r -> Forall2 (fun a b => f a = Some b) l r.
Proof.
  revert r; induction l as [|a l IH]; intros r H; cbn in H.
  - injection H as <-. constructor.
  - destruct (f a) as [b|] eqn:Ea; [|discriminate]. destruct (all_some (map f l)) as [r'|]; [|discriminate].
    cbn in H. injection H as <-. constructor; auto.
Qed.

Lemma hread_rep_mut h :
  (forall v j F, rep h v j F -> forall n j', hread n h v = Some j' -> j' = j) /\
  (forall vs js F, reps h vs js F -> forall n js', Forall2 (fun v j' => hread n h v = Some j') vs js' -> js' = js).
Proof.
  apply rep_mutind.
  - intros j _ n j' H. destruct n; cbn in H; congruence.
  - intros a xs js F Hg _ IH _ n j' H. destruct n as [|n]; [discriminate|]. cbn [hread] in H. rewrite Hg in H.
    destruct (all_some (map (hread n h) xs)) as [r|] eqn:E; [|discriminate]. cbn in H. injection H as <-.
    f_equal. eapply IH. apply all_some_map. exact E.
  - intros a ms js F Hg Hk _ IH _ n j' H. destruct n as [|n]; [discriminate|]. cbn [hread] in H. rewrite Hg in H.
    destruct (all_some (map (fun kv => option_map (pair (fst kv)) (hread n h (snd kv))) ms)) as [r|] eqn:E; [|discriminate].
    cbn in H. injection H as <-. f_equal. apply all_some_map in E.
    assert (Hr : map fst r = map fst ms /\ Forall2 (fun v j' => hread n h v = Some j') (map snd ms) (map snd r)).
    { clear -E. induction E as [|[k v] [k' j'] ms r Hkv _ [IH1 IH2]]; [split; [reflexivity|constructor]|].
      cbn [fst snd] in Hkv. destruct (hread n h v) as [jv|] eqn:Ev; [|discriminate]. cbn in Hkv.
      injection Hkv as <- <-. cbn [map fst snd]. split; [f_equal; exact IH1|constructor; auto]. }
    destruct Hr as [Hk' Hv']. pose proof (IH n _ Hv') as Hvals.
    rewrite Hk in Hk'. clear -Hk' Hvals. revert js Hk' Hvals.
    induction r as [|[k j] r IHr]; intros [|[k0 j0] js] Hk' Hvals; try discriminate; [reflexivity|].
    cbn in *. injection Hk' as -> Hk'. injection Hvals as -> Hvals. f_equal. apply IHr; auto.
  - intros n js' H. inversion H. reflexivity.
  - intros v j F vs js Fs _ IHv _ IHs _ n js' H. inversion H as [|v0 j0 vs0 js0 Hv Hvs]; subst.
    f_equal; [eapply IHv; eauto|eapply IHs; eauto].
Qed.

Lemma hread_rep h v j F n j' : rep h v j F -> hread n h v = Some j' -> j' = j.
Proof. intros H. apply (proj1 (hread_rep_mut h) _ _ _ H). Qed.

Lemma view_rep h v j F n j' : rep h v j F -> view n h v = Ok j' -> j' = j.
Proof. intros H Hv. apply view_ok in Hv. eapply hread_rep; eauto. Qed.

(* ---------------------------------------------------------------------- *)
(* deepcopy builds a tree-shaped copy in fresh cells. *)

Definition in_range (lo hi : nat) (F : list addr) : Prop := forall x, In x F -> lo <= x < hi.

Lemma ext_rep h h' v j F : ext h h' -> (forall x, In x F -> x < h_next h) -> rep h v j F -> rep h' v j F.
Proof. intros [_ [O _]] Hf Hr. eapply rep_frame; eauto. Qed.

Lemma ext_reps h h' vs js F : ext h h' -> (forall x, In x F -> x < h_next h) -> reps h vs js F -> reps h' vs js F.
Proof. intros [_ [O _]] Hf Hr. eapply reps_frame; eauto. Qed.

Section CopyChildren.
  Variable n : nat.
  Hypothesis IH : forall h v j F h' c,
    closed h -> (forall x, In x F -> x < h_next h) -> rep h v j F -> deepcopy n h v = Ok (h', c) ->
    exists F', rep h' c j F' /\ in_range (h_next h) (h_next h') F'.

  Lemma copy_list_rep : forall vs js Fs h0 h1 cs,
    reps h0 vs js Fs -> closed h0 -> (forall x, In x Fs -> x < h_next h0) ->
    copy_list (deepcopy n) h0 vs = Ok (h1, cs) ->
    ext h0 h1 /\ exists F', reps h1 cs js F' /\ in_range (h_next h0) (h_next h1) F'.
  Proof.
    induction vs as [|v0 vs IHvs]; intros js Fs h0 h1 cs Hrs Hc0 Hal0 Hl;
      inversion Hrs as [| v1 j1 F1 vs1 js1 Fs1 Hr1 Hrs1 Hd1]; subst; cbn in Hl.
    - injection Hl as <- <-. split; [apply ext_refl; auto|]. exists []. split; [constructor|intros x []].
    - destruct (deepcopy n h0 v0) as [[hx cx]|] eqn:Ex; [|discriminate]. cbn [bind fst snd] in Hl.
      destruct (copy_list (deepcopy n) hx vs) as [[hr cr]|] eqn:Er; [|discriminate].
      cbn [bind fst snd] in Hl. injection Hl as <- <-.
      destruct (deepcopy_spec _ _ _ _ _ Hc0 Ex) as [E1 _].
      assert (Hal1 : forall x, In x F1 -> x < h_next h0) by (intros x Hx; apply Hal0; apply in_or_app; auto).
      assert (Hals : forall x, In x Fs1 -> x < h_next h0) by (intros x Hx; apply Hal0; apply in_or_app; auto).
      destruct (IH _ _ _ _ _ _ Hc0 Hal1 Hr1 Ex) as [Fx [Rx Ix]].
      assert (Hrs' : reps hx vs js1 Fs1) by (eapply ext_reps; eauto).
      assert (Hals' : forall x, In x Fs1 -> x < h_next hx).
      { intros x Hx. specialize (Hals x Hx). destruct E1 as [N _]. lia. }
      destruct (IHvs _ _ _ _ _ Hrs' (ext_closed _ _ Hc0 E1) Hals' Er) as [E2 [Fr [Rr Ir]]].
      split; [eapply ext_trans; eauto|]. exists (Fx ++ Fr). split.
      + constructor; auto.
        * eapply ext_rep; eauto. intros x Hx. apply Ix in Hx. lia.
        * intros x Hx Hx'. apply Ix in Hx. apply Ir in Hx'. lia.
      + intros x Hx. destruct E1 as [N1 _]. destruct E2 as [N2 _].
        apply in_app_or in Hx as [Hx|Hx]; [apply Ix in Hx|apply Ir in Hx]; lia.
  Qed.

  Lemma copy_members_rep : forall ms jsv Fs h0 h1 cs,
    reps h0 (map snd ms) jsv Fs -> closed h0 -> (forall x, In x Fs -> x < h_next h0) ->
    copy_members (deepcopy n) h0 ms = Ok (h1, cs) ->
    ext h0 h1 /\ map fst cs = map fst ms /\
    exists F', reps h1 (map snd cs) jsv F' /\ in_range (h_next h0) (h_next h1) F'.
  Proof.
    induction ms as [|[k v0] ms IHms]; intros jsv Fs h0 h1 cs Hrs Hc0 Hal0 Hl; cbn [map snd] in Hrs;
      inversion Hrs as [| v1 j1 F1 vs1 js1 Fs1 Hr1 Hrs1 Hd1]; subst; cbn in Hl.
    - injection Hl as <- <-. split; [apply ext_refl; auto|]. split; [reflexivity|].
      exists []. split; [constructor|intros x []].
    - destruct (deepcopy n h0 v0) as [[hx cx]|] eqn:Ex; [|discriminate]. cbn [bind fst snd] in Hl.
      destruct (copy_members (deepcopy n) hx ms) as [[hr cr]|] eqn:Er; [|discriminate].
      cbn [bind fst snd] in Hl. injection Hl as <- <-.
      destruct (deepcopy_spec _ _ _ _ _ Hc0 Ex) as [E1 _].
      assert (Hal1 : forall x, In x F1 -> x < h_next h0) by (intros x Hx; apply Hal0; apply in_or_app; auto).
      assert (Hals : forall x, In x Fs1 -> x < h_next h0) by (intros x Hx; apply Hal0; apply in_or_app; auto).
      destruct (IH _ _ _ _ _ _ Hc0 Hal1 Hr1 Ex) as [Fx [Rx Ix]].
      assert (Hrs' : reps hx (map snd ms) js1 Fs1) by (eapply ext_reps; eauto).
      assert (Hals' : forall x, In x Fs1 -> x < h_next hx).
      { intros x Hx. specialize (Hals x Hx). destruct E1 as [N _]. lia. }
      destruct (IHms _ _ _ _ _ Hrs' (ext_closed _ _ Hc0 E1) Hals' Er) as [E2 [Hk [Fr [Rr Ir]]]].
      split; [eapply ext_trans; eauto|]. split; [cbn; f_equal; exact Hk|]. exists (Fx ++ Fr). split.
      + cbn [map snd]. constructor; auto.
        * eapply ext_rep; eauto. intros x Hx. apply Ix in Hx. lia.
        * intros x Hx Hx'. apply Ix in Hx. apply Ir in Hx'. lia.
      + intros x Hx. destruct E1 as [N1 _]. destruct E2 as [N2 _].
        apply in_app_or in Hx as [Hx|Hx]; [apply Ix in Hx|apply Ir in Hx]; lia.
  Qed.
End CopyChildren.

Lemma halloc_get h c : h_get (fst (halloc h c)) (snd (halloc h c)) = Some c.
Proof. cbn. rewrite Nat.eqb_refl. reflexivity. Qed.

Lemma halloc_old h c x : x < h_next h -> h_get (fst (halloc h c)) x = h_get h x.
Proof. intros H. cbn. destruct (Nat.eqb_spec x (h_next h)); [lia|reflexivity]. Qed.

Lemma deepcopy_rep n : forall h v j F h' c,
  closed h -> (forall x, In x F -> x < h_next h) -> rep h v j F -> deepcopy n h v = Ok (h', c) ->
  exists F', rep h' c j F' /\ in_range (h_next h) (h_next h') F'.
Proof.
  induction n as [|n IH]; intros h v j F h' c Hc Hal Hr H.
  - destruct v; cbn in H; [|discriminate]. injection H as <- <-. inversion Hr; subst.
    exists []. split; [constructor; auto|intros x []].
  - destruct v as [j0|a].
    { cbn in H. injection H as <- <-. inversion Hr; subst. exists []. split; [constructor; auto|intros x []]. }
    rewrite deepcopy_S in H.
    inversion Hr as [| a0 xs js F0 Hg Hrs Hn | a0 ms js F0 Hg Hk Hrs Hn]; subst; rewrite Hg in H.
    + destruct (copy_list (deepcopy n) h xs) as [[h1 cs]|] eqn:El; [|discriminate]. cbn [bind fst snd] in H.
      assert (Hal0 : forall x, In x F0 -> x < h_next h) by (intros x Hx; apply Hal; right; exact Hx).
      destruct (copy_list_rep n IH _ _ _ _ _ _ Hrs Hc Hal0 El) as [E1 [F' [R' I']]].
      destruct (halloc h1 (CArr cs)) as [h2 b] eqn:Ea. injection H as <- <-.
      assert (Eb : b = h_next h1 /\ h_next h2 = S (h_next h1)).
      { unfold halloc in Ea. injection Ea as <- <-. split; reflexivity. }
      destruct Eb as [-> Hn2].
      exists (h_next h1 :: F'). split.
      * apply rep_arr with (xs := cs).
        -- pose proof (halloc_get h1 (CArr cs)) as Hgg. rewrite Ea in Hgg. exact Hgg.
        -- eapply reps_frame; eauto. intros x Hx. apply I' in Hx.
           pose proof (halloc_old h1 (CArr cs) x ltac:(lia)) as Ho. rewrite Ea in Ho. exact Ho.
        -- intros Hx. apply I' in Hx. lia.
      * intros x [<-|Hx]; [destruct E1 as [N1 _]; lia|apply I' in Hx; lia].
    + destruct (copy_members (deepcopy n) h ms) as [[h1 cs]|] eqn:El; [|discriminate]. cbn [bind fst snd] in H.
      assert (Hal0 : forall x, In x F0 -> x < h_next h) by (intros x Hx; apply Hal; right; exact Hx).
      destruct (copy_members_rep n IH _ _ _ _ _ _ Hrs Hc Hal0 El) as [E1 [Hkk [F' [R' I']]]].
      destruct (halloc h1 (CObj cs)) as [h2 b] eqn:Ea. injection H as <- <-.
      assert (Eb : b = h_next h1 /\ h_next h2 = S (h_next h1)).
      { unfold halloc in Ea. injection Ea as <- <-. split; reflexivity. }
      destruct Eb as [-> Hn2].
      exists (h_next h1 :: F'). split.
      * apply rep_obj with (ms := cs).
        -- pose proof (halloc_get h1 (CObj cs)) as Hgg. rewrite Ea in Hgg. exact Hgg.
        -- congruence.
        -- eapply reps_frame; eauto. intros x Hx. apply I' in Hx.
           pose proof (halloc_old h1 (CObj cs) x ltac:(lia)) as Ho. rewrite Ea in Ho. exact Ho.
        -- intros Hx. apply I' in Hx. lia.
      * intros x [<-|Hx]; [destruct E1 as [N1 _]; lia|apply I' in Hx; lia].
Qed.

(* ---------------------------------------------------------------------- *)
(* What resolve_parent returns: locations of the document, or bare scalars. *)

Definition rv_ok (d : json) (r : rv) : Prop :=
  match r with
  | RNode l v => node_at d l = Some v
  | RVal s => is_container s = false
  end.

Lemma py_list_index_nth {A} (xs : list A) z i v : py_list_index xs z = Some (i, v) -> nth_opt xs i = Some v.
Proof.
  unfold py_list_index. destruct (_ || _); [discriminate|].
  match goal with |- context [nth_opt xs ?k] => destruct (nth_opt xs k) eqn:E end; [|discriminate].
  intros H. injection H as <- <-. exact E.
Qed.

Lemma getitem_ok d l v x r :
  node_at d l = Some v -> getitem (RNode l v) x = Ok r -> rv_ok d r.
Proof.
  intros Hn H. unfold getitem in H. cbn [rv_json] in H.
  assert (Hchild : forall p c, Json.step v p = Some c -> rv_ok d (RNode (l ++ [p]) c)).
  { intros p c Hs. cbn. rewrite node_at_app, Hn. cbn. rewrite Hs. reflexivity. }
  destruct v as [| b | n | s | xs | ms]; try discriminate.
  - destruct x as [z|k].
    + destruct (py_list_index xs z) as [[i c]|] eqn:E; [|discriminate]. injection H as <-.
      apply Hchild. cbn. eapply py_list_index_nth; eauto.
    + destruct (ustr_eqb k [ch_minus]); [discriminate|].
      destruct (starts_with_ch ch_hash k).
      * destruct (py_int (tl k)) as [[i|]|]; try discriminate.
        destruct (Z.leb _ i); [discriminate|]. injection H as <-. reflexivity.
      * destruct (index_of_text k) as [[z|s]|]; cbn [bind] in H; try discriminate.
        destruct (py_list_index xs z) as [[i c]|] eqn:E; [|discriminate]. injection H as <-.
        apply Hchild. cbn. eapply py_list_index_nth; eauto.
  - destruct x as [z|k].
    + destruct (lookup (str_of_Z z) ms) as [c|] eqn:E; [|discriminate]. injection H as <-. apply Hchild. exact E.
    + destruct (lookup k ms) as [c|] eqn:E; [injection H as <-; apply Hchild; exact E|].
      destruct k as [|c0 rest]; [discriminate|].
      destruct ((N.eqb c0 ch_tilde || N.eqb c0 ch_hash) && _); [|discriminate]. injection H as <-. reflexivity.
Qed.

Lemma getitem_rval s x : is_container s = false -> exists e, getitem (RVal s) x = Err e /\ e = EPointer KPtrType.
Proof. intros H. unfold getitem. cbn [rv_json]. destruct s; try discriminate; eauto. Qed.

(* a parent on which getitem did not raise a type error is a container *)
Lemma getitem_container r x :
  (exists r', getitem r x = Ok r') \/ getitem r x = Err (EPointer KPtrIndex) \/ getitem r x = Err (EPointer KPtrKey) ->
  is_container (rv_json r) = true.
Proof.
  unfold getitem. destruct (rv_json r); auto; intros [[r' H]|[H|H]]; discriminate.
Qed.

Lemma reduce_getitem_ok d ps : forall r r',
  rv_ok d r -> reduce_getitem r ps = Ok r' -> rv_ok d r'.
Proof.
  induction ps as [|x ps IH]; intros r r' Hr H; cbn in H.
  - injection H as <-. exact Hr.
  - destruct (getitem r x) as [c|] eqn:E; [|discriminate]. cbn [bind] in H.
    eapply IH; [|exact H]. destruct r as [l v|s].
    + eapply getitem_ok; eauto.
    + destruct (getitem_rval s x Hr) as [e [E' _]]. congruence.
Qed.

Lemma resolve_parent_inv p d parent obj :
  resolve_parent p d = Ok (parent, obj) ->
  match parent with Some par => rv_ok d par /\ is_container (rv_json par) = true | None => p = [] end /\
  match obj with Some o => rv_ok d o | None => True end.
Proof.
  intros H. unfold resolve_parent in H. destruct p as [|x p].
  - cbn in H. injection H as <- <-. split; reflexivity.
  - destruct (reduce_getitem (RNode [] d) (removelast (x :: p))) as [par|] eqn:Er; [|discriminate].
    cbn [bind] in H. assert (Hpar : rv_ok d par) by (eapply reduce_getitem_ok; eauto; reflexivity).
    destruct (last_opt (x :: p)) as [k|]; [|discriminate].
    destruct (getitem par k) as [r|e] eqn:Eg.
    + injection H as <- <-. split; [split; auto|].
      * apply (getitem_container par k). left. eauto.
      * destruct par as [l v|s]; [eapply getitem_ok; eauto|].
        destruct (getitem_rval s k Hpar) as [e [E' _]]. congruence.
    + destruct e as [k0|k0|k0|k0|b| |]; try discriminate.
      destruct k0; try discriminate; injection H as <- <-; (split; [split; auto|exact I]);
        apply (getitem_container par k); auto.
Qed.

(* ---------------------------------------------------------------------- *)
(* Replacing the subtree below one child. *)

Lemma reps_replace h : forall vs js F, reps h vs js F -> forall i v, nth_opt vs i = Some v ->
  exists j Fi, nth_opt js i = Some j /\ rep h v j Fi /\ (forall x, In x Fi -> In x F) /\
    forall h' j' Fi',
      (forall x, In x F -> ~ In x Fi -> h_get h' x = h_get h x) ->
      rep h' v j' Fi' -> (forall x, In x Fi' -> In x F -> In x Fi) ->
      exists F', reps h' vs (list_set js i j') F' /\ forall x, In x F' -> (In x F /\ ~ In x Fi) \/ In x Fi'.
Proof.
  induction 1 as [|v0 j0 F0 vs js Fs Hr0 Hrs IH Hd]; intros i v Hn; [destruct i; discriminate|].
  destruct i as [|i]; cbn in Hn.
  - injection Hn as <-. exists j0, F0. split; [reflexivity|]. split; [exact Hr0|]. split; [intros x Hx; apply in_or_app; auto|].
    intros h' j' Fi' Hfr Hr' Hsub. exists (Fi' ++ Fs). split.
    + cbn [list_set]. constructor; auto.
      * eapply reps_frame; eauto. intros x Hx. apply Hfr; [apply in_or_app; auto|]. intros Hx0. exact (Hd x Hx0 Hx).
      * intros x Hx Hxs. apply (Hd x); auto. apply Hsub; auto. apply in_or_app. auto.
    + intros x Hx. apply in_app_or in Hx as [Hx|Hx]; [right; exact Hx|left]. split; [apply in_or_app; auto|].
      intros Hx0. exact (Hd x Hx0 Hx).
  - destruct (IH i v Hn) as [j [Fi [Hj [Hri [Hsub IHr]]]]]. exists j, Fi. split; [exact Hj|]. split; [exact Hri|].
    split; [intros x Hx; apply in_or_app; right; auto|].
    intros h' j' Fi' Hfr Hr' Hsub'.
    destruct (IHr h' j' Fi') as [Fs' [Hrs' Hin']]; auto.
    { intros x Hx Hn'. apply Hfr; auto. apply in_or_app. auto. }
    { intros x Hx Hxs. apply Hsub'; auto. apply in_or_app. auto. }
    exists (F0 ++ Fs'). split.
    + cbn [list_set]. constructor; auto.
      * eapply rep_frame; eauto. intros x Hx. apply Hfr; [apply in_or_app; auto|].
        intros Hxi. exact (Hd x Hx (Hsub x Hxi)).
      * intros x Hx Hxs. destruct (Hin' x Hxs) as [[Hxs0 _]|Hxi]; [exact (Hd x Hx Hxs0)|].
        apply (Hd x Hx). apply Hsub. apply Hsub'; auto. apply in_or_app. auto.
    + intros x Hx. apply in_app_or in Hx as [Hx|Hx].
      * left. split; [apply in_or_app; auto|]. intros Hxi. exact (Hd x Hx (Hsub x Hxi)).
      * destruct (Hin' x Hx) as [[Hxs0 Hni]|Hxi]; [left; split; auto; apply in_or_app; auto|right; exact Hxi].
Qed.

(* ---------------------------------------------------------------------- *)
(* Members by position of the (first) key. *)

Fixpoint kindex (k : ustr) (ks : list ustr) : option nat :=
  match ks with
  | [] => None
  | k' :: r => if ustr_eqb k k' then Some 0 else option_map S (kindex k r)
  end.

Lemma lookup_kindex {A} k (ms : list (ustr * A)) :
  lookup k ms = match kindex k (map fst ms) with Some i => nth_opt (map snd ms) i | None => None end.
Proof.
  induction ms as [|[k' v] ms IH]; [reflexivity|]. cbn. destruct (ustr_eqb k k'); [reflexivity|].
  rewrite IH. destruct (kindex k (map fst ms)); reflexivity.
Qed.

Lemma upd_key_kindex js k f i j :
  kindex k (map fst js) = Some i -> nth_opt (map snd js) i = Some j ->
  map fst (upd_key js k f) = map fst js /\ map snd (upd_key js k f) = list_set (map snd js) i (f j).
Proof.
  revert i; induction js as [|[k' v] js IH]; intros i Hk Hn; [discriminate|]. cbn in *.
  destruct (ustr_eqb k k').
  - injection Hk as <-. cbn in Hn. injection Hn as <-. split; reflexivity.
  - destruct (kindex k (map fst js)) as [i'|]; [|discriminate]. cbn in Hk. injection Hk as <-.
    cbn in Hn. destruct (IH _ eq_refl Hn) as [E1 E2]. cbn. rewrite E1, E2. split; reflexivity.
Qed.

Lemma upd_idx_list_set xs i f j : nth_opt xs i = Some j -> upd_idx xs i f = list_set xs i (f j).
Proof.
  revert i; induction xs as [|x xs IH]; intros i H; [destruct i; discriminate|].
  destruct i as [|i]; cbn in *; [injection H as <-; reflexivity|]. rewrite (IH _ H). reflexivity.
Qed.

Lemma list_set_length {A} (xs : list A) i x : length (list_set xs i x) = length xs.
Proof. revert i; induction xs as [|y xs IH]; intros [|i]; cbn; auto. Qed.

Lemma map_fst_snd_eq {A B} (l l' : list (A * B)) :
  map fst l = map fst l' -> map snd l = map snd l' -> l = l'.
Proof.
  revert l'; induction l as [|[a b] l IH]; intros [|[a' b'] l'] H1 H2; try discriminate; [reflexivity|].
  cbn in *. injection H1 as -> H1. injection H2 as -> H2. f_equal. auto.
Qed.

(* ---------------------------------------------------------------------- *)
(* Navigation to a location, and replacement of the subtree found there. *)

Lemma rep_update l : forall h root d F, rep h root d F -> forall vp, hnode_at h root l = Some vp ->
  exists pv Fp, node_at d l = Some pv /\ rep h vp pv Fp /\ (forall x, In x Fp -> In x F) /\
    forall h' pv' Fp',
      (forall x, In x F -> ~ In x Fp -> h_get h' x = h_get h x) ->
      rep h' vp pv' Fp' -> (forall x, In x Fp' -> In x F -> In x Fp) ->
      exists F', rep h' root (set_at d l pv') F' /\ forall x, In x F' -> (In x F /\ ~ In x Fp) \/ In x Fp'.
Proof.
  induction l as [|p l IH]; intros h root d F Hr vp Hn.
  - cbn in Hn. injection Hn as <-. exists d, F. split; [reflexivity|]. split; [exact Hr|]. split; [auto|].
    intros h' pv' Fp' _ Hr' _. exists Fp'. rewrite set_at_nil. split; auto.
  - cbn [hnode_at] in Hn. destruct (hstep h root p) as [c|] eqn:Hs; [|discriminate].
    unfold hstep in Hs. destruct root as [j0|a0]; [discriminate|].
    inversion Hr as [| a1 xs js F0 Hg Hrs Hna | a1 ms js F0 Hg Hk Hrs Hna]; subst; rewrite Hg in Hs.
    + (* array *)
      destruct p as [k|i]; [discriminate|].
      destruct (reps_replace _ _ _ _ Hrs i c Hs) as [j [Fi [Hj [Hri [Hsub Hrepl]]]]].
      destruct (IH _ _ _ _ Hri vp Hn) as [pv [Fp [Hnode [Hrp [Hsubp Hupd]]]]].
      exists pv, Fp. split; [cbn; rewrite Hj; exact Hnode|]. split; [exact Hrp|].
      split; [intros x Hx; right; auto|].
      intros h' pv' Fp' Hfr Hr' Hsub'.
      destruct (Hupd h' pv' Fp') as [Fi' [Hri' Hin']]; auto.
      { intros x Hx Hnx. apply Hfr; auto. right. auto. }
      { intros x Hx Hxi. apply Hsub'; auto. right. auto. }
      destruct (Hrepl h' (set_at j l pv') Fi') as [Fs' [Hrs' Hins]]; auto.
      { intros x Hx Hnx. apply Hfr; [right; exact Hx|]. intros Hxp. apply Hnx. auto. }
      { intros x Hx Hxs. destruct (Hin' x Hx) as [[Hxi _]|Hxp]; auto. apply Hsubp. apply Hsub'; auto. right. exact Hxs. }
      exists (a0 :: Fs'). split.
      * rewrite set_at_idx, (upd_idx_list_set _ _ _ _ Hj). apply rep_arr with (xs := xs).
        -- rewrite (Hfr a0 (or_introl eq_refl)); [exact Hg|]. intros Hx. apply Hna. auto.
        -- exact Hrs'.
        -- intros Hx. destruct (Hins _ Hx) as [[Hx0 _]|Hxi]; [contradiction|].
           destruct (Hin' _ Hxi) as [[Hxi0 _]|Hxp]; [apply Hna; auto|].
           apply Hna. apply Hsub. apply Hsubp. apply Hsub'; auto. left. reflexivity.
      * intros x [<-|Hx]; [left; split; [left; reflexivity|]; intros Hxp; apply Hna; auto|].
        destruct (Hins _ Hx) as [[Hx0 Hni]|Hxi]; [left; split; [right; exact Hx0|]; intros Hxp; apply Hni; auto|].
        destruct (Hin' _ Hxi) as [[Hxi0 Hnp]|Hxp]; [left; split; [right; auto|exact Hnp]|right; exact Hxp].
    + (* object *)
      destruct p as [k|i]; [|discriminate].
      rewrite lookup_kindex in Hs. destruct (kindex k (map fst ms)) as [i|] eqn:Eki; [|discriminate].
      destruct (reps_replace _ _ _ _ Hrs i c Hs) as [j [Fi [Hj [Hri [Hsub Hrepl]]]]].
      destruct (IH _ _ _ _ Hri vp Hn) as [pv [Fp [Hnode [Hrp [Hsubp Hupd]]]]].
      assert (Hlk : lookup k js = Some j) by (rewrite lookup_kindex, <- Hk, Eki; exact Hj).
      exists pv, Fp. split; [cbn; rewrite Hlk; exact Hnode|]. split; [exact Hrp|].
      split; [intros x Hx; right; auto|].
      intros h' pv' Fp' Hfr Hr' Hsub'.
      destruct (Hupd h' pv' Fp') as [Fi' [Hri' Hin']]; auto.
      { intros x Hx Hnx. apply Hfr; auto. right. auto. }
      { intros x Hx Hxi. apply Hsub'; auto. right. auto. }
      destruct (Hrepl h' (set_at j l pv') Fi') as [Fs' [Hrs' Hins]]; auto.
      { intros x Hx Hnx. apply Hfr; [right; exact Hx|]. intros Hxp. apply Hnx. auto. }
      { intros x Hx Hxs. destruct (Hin' x Hx) as [[Hxi _]|Hxp]; auto. apply Hsubp. apply Hsub'; auto. right. exact Hxs. }
      rewrite Hk in Eki.
      destruct (upd_key_kindex js k (fun v => set_at v l pv') i j Eki Hj) as [Ek1 Ek2].
      exists (a0 :: Fs'). split.
      * rewrite set_at_key. apply rep_obj with (ms := ms).
        -- rewrite (Hfr a0 (or_introl eq_refl)); [exact Hg|]. intros Hx. apply Hna. auto.
        -- congruence.
        -- rewrite Ek2. exact Hrs'.
        -- intros Hx. destruct (Hins _ Hx) as [[Hx0 _]|Hxi]; [contradiction|].
           destruct (Hin' _ Hxi) as [[Hxi0 _]|Hxp]; [apply Hna; auto|].
           apply Hna. apply Hsub. apply Hsubp. apply Hsub'; auto. left. reflexivity.
      * intros x [<-|Hx]; [left; split; [left; reflexivity|]; intros Hxp; apply Hna; auto|].
        destruct (Hins _ Hx) as [[Hx0 Hni]|Hxi]; [left; split; [right; exact Hx0|]; intros Hxp; apply Hni; auto|].
        destruct (Hin' _ Hxi) as [[Hxi0 Hnp]|Hxp]; [left; split; [right; auto|exact Hnp]|right; exact Hxp].
Qed.

(* the heap can be walked along every location of the value *)
Lemma rep_nav l : forall h root d F pv, rep h root d F -> node_at d l = Some pv ->
  exists vp, hnode_at h root l = Some vp.
Proof.
  induction l as [|p l IH]; intros h root d F pv Hr Hn; [cbn; eauto|].
  cbn in Hn. destruct (Json.step d p) as [c|] eqn:Hs; [|discriminate].
  inversion Hr as [j Hj | a xs js F0 Hg Hrs Hna | a ms js F0 Hg Hk Hrs Hna]; subst.
  - destruct p; destruct d; discriminate.
  - destruct p as [k|i]; [discriminate|]. cbn in Hs. cbn [hnode_at hstep]. rewrite Hg.
    assert (Hex : exists v, nth_opt xs i = Some v).
    { pose proof (reps_length _ _ _ _ Hrs) as Hl. pose proof Hs as Hs'. rewrite nth_opt_nth_error in Hs'. rewrite nth_opt_nth_error.
      destruct (nth_error xs i) eqn:E; eauto. apply nth_error_None in E.
      assert (Hnn : nth_error js i <> None) by congruence. apply nth_error_Some in Hnn. lia. }
    destruct Hex as [v Hv]. rewrite Hv.
    destruct (reps_replace _ _ _ _ Hrs i v Hv) as [j [Fi [Hj [Hri _]]]].
    assert (j = c) by congruence. subst j. eapply IH; eauto.
  - destruct p as [k|i]; [|discriminate]. cbn in Hs. cbn [hnode_at hstep]. rewrite Hg.
    rewrite lookup_kindex in Hs. rewrite lookup_kindex. rewrite Hk.
    destruct (kindex k (map fst js)) as [i|]; [|discriminate].
    assert (Hex : exists v, nth_opt (map snd ms) i = Some v).
    { pose proof (reps_length _ _ _ _ Hrs) as Hl. pose proof Hs as Hs'. rewrite nth_opt_nth_error in Hs'. rewrite nth_opt_nth_error.
      destruct (nth_error (map snd ms) i) eqn:E; eauto. apply nth_error_None in E.
      assert (Hnn : nth_error (map snd js) i <> None) by congruence. apply nth_error_Some in Hnn. lia. }
    destruct Hex as [v Hv]. rewrite Hv.
    destruct (reps_replace _ _ _ _ Hrs i v Hv) as [j [Fi [Hj [Hri _]]]].
    assert (j = c) by congruence. subst j. eapply IH; eauto.
Qed.

(* ---------------------------------------------------------------------- *)
(* The container edits, on a represented list of children. *)

Section ListEdits.
  Variable h : heap.
  Variable v : hval. Variable j : json. Variable Fv : list addr.
  Hypothesis Hv : rep h v j Fv.

  Definition sub2 (F' F : list addr) : Prop := forall y, In y F' -> In y F \/ In y Fv.

  Lemma reps_append vs js F :
    reps h vs js F -> (forall y, In y Fv -> ~ In y F) ->
    exists F', reps h (vs ++ [v]) (js ++ [j]) F' /\ sub2 F' F.
  Proof.
    induction 1 as [|v0 j0 F0 vs js Fs Hr0 Hrs IH Hd]; intros Hdis.
    - exists (Fv ++ []). split; [cbn; constructor; [exact Hv|constructor|intros y _ []]|].
      intros y Hy. right. rewrite app_nil_r in Hy. exact Hy.
    - destruct IH as [F' [Hr' Hs']]. { intros y Hy Hy'. apply (Hdis y Hy). apply in_or_app. auto. }
      exists (F0 ++ F'). split.
      + cbn. constructor; auto. intros y Hy Hy'. destruct (Hs' y Hy') as [H1|H1]; [exact (Hd y Hy H1)|].
        apply (Hdis y H1). apply in_or_app. auto.
      + intros y Hy. apply in_app_or in Hy as [Hy|Hy]; [left; apply in_or_app; auto|].
        destruct (Hs' y Hy); [left; apply in_or_app; auto|right; auto].
  Qed.

  Lemma reps_insert i : forall vs js F,
    reps h vs js F -> (forall y, In y Fv -> ~ In y F) ->
    exists F', reps h (list_insert_nat vs i v) (list_insert_nat js i j) F' /\ sub2 F' F.
  Proof.
    induction i as [|i IH]; intros vs js F Hrs Hdis.
    - exists (Fv ++ F). split.
      + destruct Hrs; cbn; constructor; auto; try constructor; auto.
      + intros y Hy. apply in_app_or in Hy as [Hy|Hy]; auto.
    - destruct Hrs as [|v0 j0 F0 vs js Fs Hr0 Hrs Hd]; cbn.
      + exists (Fv ++ []). split; [constructor; [exact Hv|constructor|intros y _ []]|].
        intros y Hy. right. rewrite app_nil_r in Hy. exact Hy.
      + destruct (IH _ _ _ Hrs) as [F' [Hr' Hs']]. { intros y Hy Hy'. apply (Hdis y Hy). apply in_or_app. auto. }
        exists (F0 ++ F'). split.
        * constructor; auto. intros y Hy Hy'. destruct (Hs' y Hy') as [H1|H1]; [exact (Hd y Hy H1)|].
          apply (Hdis y H1). apply in_or_app. auto.
        * intros y Hy. apply in_app_or in Hy as [Hy|Hy]; [left; apply in_or_app; auto|].
          destruct (Hs' y Hy); [left; apply in_or_app; auto|right; auto].
  Qed.

  Lemma reps_set vs js F : reps h vs js F -> forall i, (forall y, In y Fv -> ~ In y F) ->
    exists F', reps h (list_set vs i v) (list_set js i j) F' /\ sub2 F' F.
  Proof.
    induction 1 as [|v0 j0 F0 vs js Fs Hr0 Hrs IH Hd]; intros i Hdis.
    - exists []. split; [destruct i; constructor|intros y []].
    - destruct i as [|i]; cbn.
      + exists (Fv ++ Fs). split.
        * constructor; auto. intros y Hy Hy'. apply (Hdis y Hy). apply in_or_app. auto.
        * intros y Hy. apply in_app_or in Hy as [Hy|Hy]; [right; auto|left; apply in_or_app; auto].
      + destruct (IH i) as [F' [Hr' Hs']]. { intros y Hy Hy'. apply (Hdis y Hy). apply in_or_app. auto. }
        exists (F0 ++ F'). split.
        * constructor; auto. intros y Hy Hy'. destruct (Hs' y Hy') as [H1|H1]; [exact (Hd y Hy H1)|].
          apply (Hdis y H1). apply in_or_app. auto.
        * intros y Hy. apply in_app_or in Hy as [Hy|Hy]; [left; apply in_or_app; auto|].
          destruct (Hs' y Hy); [left; apply in_or_app; auto|right; auto].
  Qed.
End ListEdits.

Lemma reps_del h vs js F : reps h vs js F -> forall i,
  exists F', reps h (list_del vs i) (list_del js i) F' /\ forall y, In y F' -> In y F.
Proof.
  induction 1 as [|v0 j0 F0 vs js Fs Hr0 Hrs IH Hd]; intros i.
  - exists []. split; [destruct i; constructor|intros y []].
  - destruct i as [|i]; cbn.
    + exists Fs. split; auto. intros y Hy. apply in_or_app. auto.
    + destruct (IH i) as [F' [Hr' Hs']]. exists (F0 ++ F'). split.
      * constructor; auto. intros y Hy Hy'. exact (Hd y Hy (Hs' y Hy')).
      * intros y Hy. apply in_app_or in Hy as [Hy|Hy]; apply in_or_app; auto.
Qed.

(* dict assignment / deletion, by position of the key *)
Lemma assoc_set_kindex {A} (ms : list (ustr * A)) k x :
  map fst (assoc_set ms k x) = match kindex k (map fst ms) with Some _ => map fst ms | None => map fst ms ++ [k] end /\
  map snd (assoc_set ms k x) = match kindex k (map fst ms) with
                               | Some i => list_set (map snd ms) i x
                               | None => map snd ms ++ [x]
                               end.
Proof.
  induction ms as [|[k' y] ms [IH1 IH2]]; [split; reflexivity|]. cbn. destruct (ustr_eqb k k'); [split; reflexivity|].
  cbn. rewrite IH1, IH2. destruct (kindex k (map fst ms)); split; reflexivity.
Qed.

Lemma assoc_del_kindex {A} (ms : list (ustr * A)) k :
  map fst (assoc_del ms k) = match kindex k (map fst ms) with Some i => list_del (map fst ms) i | None => map fst ms end /\
  map snd (assoc_del ms k) = match kindex k (map fst ms) with Some i => list_del (map snd ms) i | None => map snd ms end.
Proof.
  induction ms as [|[k' y] ms [IH1 IH2]]; [split; reflexivity|]. cbn. destruct (ustr_eqb k k'); [split; reflexivity|].
  cbn. rewrite IH1, IH2. destruct (kindex k (map fst ms)); split; reflexivity.
Qed.

Lemma dict_set_assoc ms k x : dict_set ms k x = assoc_set ms k x.
Proof. induction ms as [|[k' y] ms IH]; [reflexivity|]. cbn. rewrite IH. reflexivity. Qed.

Lemma dict_del_assoc ms k : dict_del ms k = assoc_del ms k.
Proof. induction ms as [|[k' y] ms IH]; [reflexivity|]. cbn. rewrite IH. reflexivity. Qed.

(* ---------------------------------------------------------------------- *)
(* An edited container cell represents the edited value. *)

Lemma py_insert_nat {A} (xs : list A) z x :
  py_insert xs z x = list_insert_nat xs (Z.to_nat (let n := Z.of_nat (length xs) in
                                                   if Z.ltb z 0 then Z.max 0 (n + z) else Z.min z n)) x.
Proof. reflexivity. Qed.

Lemma edit_rep h a c0 pv Fc e x jx Fx :
  h_get h a = Some (edit_cell e c0 x) ->
  match c0, pv with
  | CArr xs, JArr js => reps h xs js Fc
  | CObj ms, JObj js => map fst ms = map fst js /\ reps h (map snd ms) (map snd js) Fc
  | _, _ => False
  end ->
  ~ In a Fc -> rep h x jx Fx -> (forall y, In y Fx -> y <> a /\ ~ In y Fc) ->
  exists F', rep h (HRef a) (edit_json e pv jx) F' /\ forall y, In y F' -> y = a \/ In y Fc \/ In y Fx.
Proof.
  intros Hg Hch Hna Hx Hdis.
  assert (Hdis' : forall y, In y Fx -> ~ In y Fc) by (intros y Hy; apply Hdis; exact Hy).
  destruct c0 as [ms|xs]; destruct pv as [| | | |js|js]; try contradiction.
  - (* object *)
    destruct Hch as [Hk Hrs].
    assert (Hsame : h_get h a = Some (CObj ms) ->
                    exists F', rep h (HRef a) (JObj js) F' /\ forall y, In y F' -> y = a \/ In y Fc \/ In y Fx).
    { intros Hg'. exists (a :: Fc). split; [|intros y [<-|Hy]; auto]. apply rep_obj with (ms := ms); auto. }
    destruct e; cbn [edit_cell edit_json] in *; try (apply Hsame; exact Hg).
    + (* set key *)
      rewrite dict_set_assoc.
      destruct (assoc_set_kindex ms k x) as [K1 V1]. destruct (assoc_set_kindex js k jx) as [K2 V2].
      rewrite <- Hk in K2, V2.
      destruct (kindex k (map fst ms)) as [i|].
      * destruct (reps_set h x jx Fx Hx _ _ _ Hrs i Hdis') as [F' [Hr' Hs']].
        exists (a :: F'). split.
        -- apply rep_obj with (ms := assoc_set ms k x); [exact Hg|congruence|rewrite V1, V2; exact Hr'|].
           intros Hy. destruct (Hs' _ Hy) as [H1|H1]; [contradiction|]. destruct (Hdis _ H1). congruence.
        -- intros y [<-|Hy]; [auto|]. destruct (Hs' _ Hy); auto.
      * destruct (reps_append h x jx Fx Hx _ _ _ Hrs Hdis') as [F' [Hr' Hs']].
        exists (a :: F'). split.
        -- apply rep_obj with (ms := assoc_set ms k x); [exact Hg|congruence|rewrite V1, V2; exact Hr'|].
           intros Hy. destruct (Hs' _ Hy) as [H1|H1]; [contradiction|]. destruct (Hdis _ H1). congruence.
        -- intros y [<-|Hy]; [auto|]. destruct (Hs' _ Hy); auto.
    + (* del key *)
      rewrite dict_del_assoc.
      destruct (assoc_del_kindex ms k) as [K1 V1]. destruct (assoc_del_kindex js k) as [K2 V2].
      rewrite <- Hk in K2, V2.
      destruct (kindex k (map fst ms)) as [i|].
      * destruct (reps_del h _ _ _ Hrs i) as [F' [Hr' Hs']].
        exists (a :: F'). split.
        -- apply rep_obj with (ms := assoc_del ms k); [exact Hg|congruence|rewrite V1, V2; exact Hr'|].
           intros Hy. apply Hna. auto.
        -- intros y [<-|Hy]; auto.
      * exists (a :: Fc). split; [|intros y [<-|Hy]; auto].
        apply rep_obj with (ms := assoc_del ms k); [exact Hg|congruence|rewrite V1, V2; exact Hrs|exact Hna].
  - (* array *)
    pose proof (reps_length _ _ _ _ Hch) as Hlen.
    assert (Hsame : h_get h a = Some (CArr xs) ->
                    exists F', rep h (HRef a) (JArr js) F' /\ forall y, In y F' -> y = a \/ In y Fc \/ In y Fx).
    { intros Hg'. exists (a :: Fc). split; [|intros y [<-|Hy]; auto]. apply rep_arr with (xs := xs); auto. }
    destruct e; cbn [edit_cell edit_json] in *; try (apply Hsame; exact Hg).
    + destruct (reps_append h x jx Fx Hx _ _ _ Hch Hdis') as [F' [Hr' Hs']].
      exists (a :: F'). split.
      * apply rep_arr with (xs := xs ++ [x]); auto.
        intros Hy. destruct (Hs' _ Hy) as [H1|H1]; [contradiction|]. destruct (Hdis _ H1). congruence.
      * intros y [<-|Hy]; [auto|]. destruct (Hs' _ Hy); auto.
    + rewrite py_insert_nat in Hg. rewrite py_insert_nat. rewrite <- Hlen.
      match type of Hg with context [list_insert_nat xs ?i x] =>
        destruct (reps_insert h x jx Fx Hx i _ _ _ Hch Hdis') as [F' [Hr' Hs']] end.
      exists (a :: F'). split.
      * eapply rep_arr; eauto.
        intros Hy. destruct (Hs' _ Hy) as [H1|H1]; [contradiction|]. destruct (Hdis _ H1). congruence.
      * intros y [<-|Hy]; [auto|]. destruct (Hs' _ Hy); auto.
    + destruct (reps_set h x jx Fx Hx _ _ _ Hch i Hdis') as [F' [Hr' Hs']].
      exists (a :: F'). split.
      * apply rep_arr with (xs := list_set xs i x); auto.
        intros Hy. destruct (Hs' _ Hy) as [H1|H1]; [contradiction|]. destruct (Hdis _ H1). congruence.
      * intros y [<-|Hy]; [auto|]. destruct (Hs' _ Hy); auto.
    + destruct (reps_del h _ _ _ Hch i) as [F' [Hr' Hs']].
      exists (a :: F'). split.
      * apply rep_arr with (xs := list_del xs i); auto.
      * intros y [<-|Hy]; auto.
Qed.

(* ---------------------------------------------------------------------- *)
(* The in-place write refines [with_parent]. *)

Lemma deepcopy_err n : forall h v e, deepcopy n h v = Err e -> e = EOutOfFuel.
Proof.
  induction n as [|n IH]; intros h v e H; destruct v as [j|a]; cbn in H; try discriminate; try congruence.
  change (deepcopy (S n) h (HRef a) = Err e) in H. rewrite deepcopy_S in H.
  assert (Hl : forall xs h0 e0, copy_list (deepcopy n) h0 xs = Err e0 -> e0 = EOutOfFuel).
  { induction xs as [|x xs IHx]; intros h0 e0 Hc; cbn in Hc; [discriminate|].
    destruct (deepcopy n h0 x) as [[hx cx]|ex] eqn:Ex; cbn [bind fst snd] in Hc; [|injection Hc as <-; eauto].
    destruct (copy_list (deepcopy n) hx xs) as [[hr cr]|er] eqn:Er; cbn [bind] in Hc; [discriminate|].
    injection Hc as <-. eauto. }
  assert (Hm : forall ms h0 e0, copy_members (deepcopy n) h0 ms = Err e0 -> e0 = EOutOfFuel).
  { induction ms as [|[k x] ms IHx]; intros h0 e0 Hc; cbn in Hc; [discriminate|].
    destruct (deepcopy n h0 x) as [[hx cx]|ex] eqn:Ex; cbn [bind fst snd] in Hc; [|injection Hc as <-; eauto].
    destruct (copy_members (deepcopy n) hx ms) as [[hr cr]|er] eqn:Er; cbn [bind] in Hc; [discriminate|].
    injection Hc as <-. eauto. }
  destruct (h_get h a) as [[ms|xs]|]; [| |congruence].
  - destruct (copy_members (deepcopy n) h ms) as [[h1 cs]|e1] eqn:E1; cbn [bind fst snd] in H.
    + destruct (halloc h1 (CObj cs)); discriminate.
    + injection H as <-. eauto.
  - destruct (copy_list (deepcopy n) h xs) as [[h1 cs]|e1] eqn:E1; cbn [bind fst snd] in H.
    + destruct (halloc h1 (CArr cs)); discriminate.
    + injection H as <-. eauto.
Qed.

Lemma edit_json_novalue e pv x y : edit_takes_value e = false -> edit_json e pv x = edit_json e pv y.
Proof. destruct e; destruct pv; cbn; intros H; try discriminate; reflexivity. Qed.

Definition grown (h : heap) (F F' : list addr) : Prop := forall y, In y F' -> In y F \/ h_next h <= y.

Lemma hwrite_refines fuel h root d F par decide value xj Fv :
  closed h -> valloc h root -> rep h root d F ->
  rep h value xj Fv -> (forall y, In y Fv -> y < h_next h) ->
  rv_ok d par -> is_container (rv_json par) = true ->
  match hwrite fuel h root par decide value with
  | Ok h' => exists d' F',
      with_parent d par (fun pv => e <- decide pv ;; Ok (edit_json e pv xj)) = Ok d' /\
      rep h' root d' F' /\ grown h F F'
  | Err e => e = EOutOfFuel \/
      with_parent d par (fun pv => e <- decide pv ;; Ok (edit_json e pv xj)) = Err e
  end.
Proof.
  intros Hc Hv Hr Hrv Halv Hok Hcont. unfold hwrite, with_parent. destruct par as [l pv|s].
  2:{ destruct (decide s) as [e|err]; cbn [bind].
      - exists d, F. split; [reflexivity|]. split; [exact Hr|intros y Hy; auto].
      - right. reflexivity. }
  cbn in Hok, Hcont. destruct (decide pv) as [e|err]; cbn [bind]; [|right; reflexivity].
  destruct (rep_nav l _ _ _ _ _ Hr Hok) as [vp Hnav].
  destruct (rep_update l _ _ _ _ Hr vp Hnav) as [pv0 [Fp [Hnode [Hrp [Hsubp Hupd]]]]].
  assert (pv0 = pv) by congruence. subst pv0.
  assert (HalF : forall y, In y F -> y < h_next h) by (intros y Hy; eapply rep_alloc; eauto).
  (* the parent is a container cell *)
  assert (Hcell : exists a c0 Fc, vp = HRef a /\ Fp = a :: Fc /\ h_get h a = Some c0 /\ ~ In a Fc /\
            match c0, pv with
            | CArr xs, JArr js => reps h xs js Fc
            | CObj ms, JObj js => map fst ms = map fst js /\ reps h (map snd ms) (map snd js) Fc
            | _, _ => False
            end).
  { inversion Hrp as [j Hj | a xs js F0 Hg Hrs Hna | a ms js F0 Hg Hk Hrs Hna]; subst.
    - congruence.
    - exists a, (CArr xs), F0. auto.
    - exists a, (CObj ms), F0. auto 6. }
  destruct Hcell as [a [c0 [Fc [-> [-> [Hg [Hna Hch]]]]]]]. rewrite Hnav, Hg.
  assert (Ha : a < h_next h) by (apply HalF; apply Hsubp; left; reflexivity).
  (* one statement for both kinds of edit: the heap before the write, the (copied) value *)
  assert (Hcore : forall h1 x jx Fx, ext h h1 -> rep h1 x jx Fx -> in_range (h_next h) (h_next h1) Fx ->
            exists d' F', Ok (set_at d l (edit_json e pv jx)) = Ok d' /\
                          rep (hset h1 a (edit_cell e c0 x)) root d' F' /\ grown h F F').
  { intros h1 x jx Fx He Hx Hrange. set (h' := hset h1 a (edit_cell e c0 x)).
    assert (Hold : forall y, y < h_next h -> y <> a -> h_get h' y = h_get h y).
    { intros y Hy Hne. unfold h'. rewrite hset_other by exact Hne. apply He. exact Hy. }
    assert (Hch' : match c0, pv with
                   | CArr xs, JArr js => reps h' xs js Fc
                   | CObj ms, JObj js => map fst ms = map fst js /\ reps h' (map snd ms) (map snd js) Fc
                   | _, _ => False
                   end).
    { assert (Hfc : forall y, In y Fc -> h_get h' y = h_get h y).
      { intros y Hy. apply Hold; [apply HalF; apply Hsubp; right; exact Hy|]. intros ->. contradiction. }
      destruct c0; destruct pv; try contradiction.
      - destruct Hch as [Hk Hrs]. split; auto. eapply reps_frame; eauto.
      - eapply reps_frame; eauto. }
    assert (Hx' : rep h' x jx Fx).
    { eapply rep_frame; eauto. intros y Hy. unfold h'. apply hset_other. apply Hrange in Hy. lia. }
    destruct (edit_rep h' a c0 pv Fc e x jx Fx) as [Fp' [Hrp' Hsub']]; auto.
    { unfold h'. apply hset_same. }
    { intros y Hy. apply Hrange in Hy. split; [lia|]. intros Hyc.
      pose proof (HalF y (Hsubp y (or_intror Hyc))). lia. }
    destruct (Hupd h' (edit_json e pv jx) Fp') as [F' [Hr' Hin']]; auto.
    { intros y Hy Hny. apply Hold; [apply HalF; exact Hy|]. intros ->. apply Hny. left. reflexivity. }
    { intros y Hy HyF. destruct (Hsub' y Hy) as [->|[Hyc|Hyx]]; [left; reflexivity|right; exact Hyc|].
      apply Hrange in Hyx. pose proof (HalF y HyF). lia. }
    exists (set_at d l (edit_json e pv jx)), F'. split; [reflexivity|]. split; [exact Hr'|].
    intros y Hy. destruct (Hin' y Hy) as [[HyF _]|Hyp]; [left; exact HyF|].
    destruct (Hsub' y Hyp) as [->|[Hyc|Hyx]]; [left; apply Hsubp; left; reflexivity|left; apply Hsubp; right; exact Hyc|].
    right. apply Hrange in Hyx. lia. }
  destruct (edit_takes_value e) eqn:Et.
  - destruct (deepcopy fuel h value) as [[h1 x]|err] eqn:Ed; cbn [bind fst snd].
    + destruct (deepcopy_spec _ _ _ _ _ Hc Ed) as [He _].
      destruct (deepcopy_rep _ _ _ _ _ _ _ Hc Halv Hrv Ed) as [Fx [Hx Hrange]].
      exact (Hcore h1 x xj Fx He Hx Hrange).
    + left. eapply deepcopy_err; eauto.
  - rewrite (edit_cell_novalue e c0 value (HLit JNull) Et).
    rewrite (edit_json_novalue e pv xj JNull Et).
    assert (Hlit : rep h (HLit JNull) JNull []) by (constructor; reflexivity).
    apply (Hcore h (HLit JNull) JNull [] (ext_refl h Hc) Hlit). intros y [].
Qed.

(* ---------------------------------------------------------------------- *)
(* The value model's operations, written with the edit decisions. *)

Lemma with_parent_ext d par f g : (forall pv, f pv = g pv) -> with_parent d par f = with_parent d par g.
Proof. intros H. unfold with_parent. destruct par; rewrite H; reflexivity. Qed.

Lemma apply_add_edit kind path value d :
  apply_add kind path value d =
  (pr <- resolve_parent path d ;;
   let '(parent, obj) := pr in
   match parent with
   | None => Ok value
   | Some par =>
       target <- last_part path ;;
       with_parent d par (fun pv => e <- add_edit kind target obj pv ;; Ok (edit_json e pv value))
   end).
Proof.
  unfold apply_add. destruct (resolve_parent path d) as [[[par|] obj]|]; cbn [bind]; try reflexivity.
  destruct (last_part path) as [target|]; cbn [bind]; try reflexivity.
  apply with_parent_ext. intros pv. unfold add_edit.
  destruct pv as [| | | |xs|ms]; try reflexivity.
  destruct obj as [o|].
  - destruct (array_index_of target); reflexivity.
  - destruct kind; try reflexivity.
    match goal with |- (if ?c then _ else _) = _ => destruct c end; reflexivity.
Qed.

Lemma apply_remove_edit path d :
  apply_remove path d =
  (pr <- resolve_parent path d ;;
   let '(parent, obj) := pr in
   match parent with
   | None => Err (EPatch KPatch)
   | Some par =>
       target <- last_part path ;;
       with_parent d par (fun pv => e <- remove_edit target obj pv ;; Ok (edit_json e pv JNull))
   end).
Proof.
  unfold apply_remove. destruct (resolve_parent path d) as [[[par|] obj]|]; cbn [bind]; try reflexivity.
  destruct (last_part path) as [target|]; cbn [bind]; try reflexivity.
  apply with_parent_ext. intros pv. unfold remove_edit.
  destruct pv as [| | | |xs|ms]; try reflexivity; destruct obj as [o|]; try reflexivity.
  - destruct (array_index_of target) as [z|]; try reflexivity. cbn [bind].
    destruct (py_norm_index (length xs) z); reflexivity.
  - destruct (dict_has ms (member_name target)); reflexivity.
Qed.

Lemma apply_replace_edit path value d :
  apply_replace path value d =
  (pr <- resolve_parent path d ;;
   let '(parent, obj) := pr in
   match parent with
   | None => Ok value
   | Some par =>
       target <- last_part path ;;
       with_parent d par (fun pv => e <- replace_edit target obj pv ;; Ok (edit_json e pv value))
   end).
Proof.
  unfold apply_replace. destruct (resolve_parent path d) as [[[par|] obj]|]; cbn [bind]; try reflexivity.
  destruct (last_part path) as [target|]; cbn [bind]; try reflexivity.
  apply with_parent_ext. intros pv. unfold replace_edit.
  destruct pv as [| | | |xs|ms]; try reflexivity; destruct obj as [o|]; try reflexivity.
  destruct (array_index_of target) as [z|]; try reflexivity. cbn [bind].
  destruct (py_norm_index (length xs) z); reflexivity.
Qed.

Lemma apply_move_edit source dest d :
  apply_move source dest d =
  if is_relative_to dest source then Err (EPatch KPatch)
  else
    pr <- resolve_parent source d ;;
    let '(sparent, sobj) := pr in
    match sobj with
    | None => Err (EPatch KPatch)
    | Some so =>
        d1 <- (match sparent with
               | None => Ok d
               | Some par =>
                   target <- last_part source ;;
                   with_parent d par (fun pv => e <- move_edit target pv ;; Ok (edit_json e pv JNull))
               end) ;;
        apply_add AddStd dest (rv_json so) d1
    end.
Proof.
  unfold apply_move. destruct (is_relative_to dest source); [reflexivity|].
  destruct (resolve_parent source d) as [[sparent [so|]]|]; cbn [bind]; try reflexivity.
  destruct sparent as [par|]; [|reflexivity].
  destruct (last_part source) as [target|]; cbn [bind]; try reflexivity.
  assert (E : with_parent d par
                (fun pv => match pv with
                           | JArr xs =>
                               z <- array_index_of target ;;
                               match py_norm_index (length xs) z with
                               | Some i => Ok (JArr (list_del xs i))
                               | None => Err (EBuiltin BIndexError)
                               end
                           | JObj ms =>
                               if dict_has ms (member_name target) then Ok (JObj (dict_del ms (member_name target)))
                               else Err (EPatch KPatch)
                           | _ => Ok pv
                           end) =
              with_parent d par (fun pv => e <- move_edit target pv ;; Ok (edit_json e pv JNull))).
  { apply with_parent_ext. intros pv. unfold move_edit. destruct pv as [| | | |xs|ms]; try reflexivity.
    - destruct (array_index_of target) as [z|]; try reflexivity. cbn [bind].
      destruct (py_norm_index (length xs) z); reflexivity.
    - destruct (dict_has ms (member_name target)); reflexivity. }
  rewrite E. reflexivity.
Qed.

(* ---------------------------------------------------------------------- *)
(* Each heap operation refines its value-model counterpart. *)

(* the shape of all the refinement statements *)
Definition refines_at (h : heap) (F : list addr) (hr : result (heap * hval)) (vr : result json) : Prop :=
  match hr with
  | Ok (h', root') => exists d' F', vr = Ok d' /\ rep h' root' d' F' /\ grown h F F'
  | Err e => e = EOutOfFuel \/ vr = Err e
  end.

Lemma view_cases fuel h v j F :
  rep h v j F -> view fuel h v = Ok j \/ view fuel h v = Err EOutOfFuel.
Proof.
  intros Hr. unfold view. destruct (hread fuel h v) as [j'|] eqn:E; [|right; reflexivity].
  left. f_equal. eapply hread_rep; eauto.
Qed.

Lemma grown_refl h F : grown h F F.
Proof. intros y Hy. auto. Qed.

Lemma hadd_refines kind fuel h root d F path value xj Fv :
  closed h -> valloc h root -> rep h root d F ->
  rep h value xj Fv -> (forall y, In y Fv -> y < h_next h) ->
  refines_at h F (hadd kind fuel h path value root) (apply_add kind path xj d).
Proof.
  intros Hc Hv Hr Hrv Halv. unfold hadd. rewrite apply_add_edit.
  destruct (view_cases fuel _ _ _ _ Hr) as [->| ->]; [|left; reflexivity]. cbn [bind].
  destruct (resolve_parent path d) as [[parent obj]|err] eqn:Er; cbn [bind]; [|right; reflexivity].
  destruct (resolve_parent_inv _ _ _ _ Er) as [Hpar _].
  destruct parent as [par|].
  - destruct Hpar as [Hok Hcont]. destruct (last_part path) as [target|err]; cbn [bind]; [|right; reflexivity].
    pose proof (hwrite_refines fuel h root d F par (add_edit kind target obj) value xj Fv Hc Hv Hr Hrv Halv Hok Hcont) as H.
    destruct (hwrite fuel h root par (add_edit kind target obj) value) as [h'|err]; cbn [bind]; exact H.
  - destruct (deepcopy fuel h value) as [[h1 c]|err] eqn:Ed.
    + destruct (deepcopy_rep _ _ _ _ _ _ _ Hc Halv Hrv Ed) as [Fx [Hx Hrange]].
      exists xj, Fx. split; [reflexivity|]. split; [exact Hx|]. intros y Hy. right. apply Hrange in Hy. lia.
    + left. eapply deepcopy_err; eauto.
Qed.

Lemma hremove_refines fuel h root d F path :
  closed h -> valloc h root -> rep h root d F ->
  refines_at h F (hremove fuel h path root) (apply_remove path d).
Proof.
  intros Hc Hv Hr. unfold hremove. rewrite apply_remove_edit.
  destruct (view_cases fuel _ _ _ _ Hr) as [->| ->]; [|left; reflexivity]. cbn [bind].
  destruct (resolve_parent path d) as [[parent obj]|err] eqn:Er; cbn [bind]; [|right; reflexivity].
  destruct (resolve_parent_inv _ _ _ _ Er) as [Hpar _].
  destruct parent as [par|]; [|right; reflexivity].
  destruct Hpar as [Hok Hcont]. destruct (last_part path) as [target|err]; cbn [bind]; [|right; reflexivity].
  assert (Hlit : rep h (HLit JNull) JNull []) by (constructor; reflexivity).
  pose proof (hwrite_refines fuel h root d F par (remove_edit target obj) (HLit JNull) JNull [] Hc Hv Hr Hlit
                ltac:(intros y []) Hok Hcont) as H.
  destruct (hwrite fuel h root par (remove_edit target obj) (HLit JNull)) as [h'|err]; cbn [bind]; exact H.
Qed.

Lemma hreplace_refines fuel h root d F path value xj Fv :
  closed h -> valloc h root -> rep h root d F ->
  rep h value xj Fv -> (forall y, In y Fv -> y < h_next h) ->
  refines_at h F (hreplace fuel h path value root) (apply_replace path xj d).
Proof.
  intros Hc Hv Hr Hrv Halv. unfold hreplace. rewrite apply_replace_edit.
  destruct (view_cases fuel _ _ _ _ Hr) as [->| ->]; [|left; reflexivity]. cbn [bind].
  destruct (resolve_parent path d) as [[parent obj]|err] eqn:Er; cbn [bind]; [|right; reflexivity].
  destruct (resolve_parent_inv _ _ _ _ Er) as [Hpar _].
  destruct parent as [par|].
  - destruct Hpar as [Hok Hcont]. destruct (last_part path) as [target|err]; cbn [bind]; [|right; reflexivity].
    pose proof (hwrite_refines fuel h root d F par (replace_edit target obj) value xj Fv Hc Hv Hr Hrv Halv Hok Hcont) as H.
    destruct (hwrite fuel h root par (replace_edit target obj) value) as [h'|err]; cbn [bind]; exact H.
  - destruct (deepcopy fuel h value) as [[h1 c]|err] eqn:Ed.
    + destruct (deepcopy_rep _ _ _ _ _ _ _ Hc Halv Hrv Ed) as [Fx [Hx Hrange]].
      exists xj, Fx. split; [reflexivity|]. split; [exact Hx|]. intros y Hy. right. apply Hrange in Hy. lia.
    + left. eapply deepcopy_err; eauto.
Qed.

Lemma haddne_refines fuel h root d F path value xj Fv :
  closed h -> valloc h root -> rep h root d F ->
  rep h value xj Fv -> (forall y, In y Fv -> y < h_next h) ->
  refines_at h F (haddne fuel h path value root) (apply_addne path xj d).
Proof.
  intros Hc Hv Hr Hrv Halv. unfold haddne, apply_addne.
  destruct (view_cases fuel _ _ _ _ Hr) as [->| ->]; [|left; reflexivity]. cbn [bind].
  destruct (resolve_parent path d) as [[parent obj]|err] eqn:Er; cbn [bind]; [|right; reflexivity].
  match goal with |- refines_at _ _ (if ?c then _ else _) _ => destruct c end.
  - exists d, F. split; [reflexivity|]. split; [exact Hr|apply grown_refl].
  - eapply hadd_refines; eauto.
Qed.

Lemma htest_refines fuel h root d F path value xj Fv :
  closed h -> valloc h root -> rep h root d F -> rep h value xj Fv ->
  refines_at h F (htest fuel h path value root) (apply_test path xj d).
Proof.
  intros Hc Hv Hr Hrv. unfold htest, apply_test.
  destruct (view_cases fuel _ _ _ _ Hr) as [->| ->]; [|left; reflexivity]. cbn [bind].
  destruct (view_cases fuel _ _ _ _ Hrv) as [->| ->]; [|left; reflexivity]. cbn [bind].
  destruct (resolve_parent path d) as [[parent [o|]]|err]; cbn [bind]; try (right; reflexivity).
  destruct (json_eq (rv_json o) xj); [|right; reflexivity].
  exists d, F. split; [reflexivity|]. split; [exact Hr|apply grown_refl].
Qed.

(* ---------------------------------------------------------------------- *)
(* copy and move. *)

Lemma refines_at_weaken h0 h F hr vr :
  h_next h0 <= h_next h -> refines_at h F hr vr -> refines_at h0 F hr vr.
Proof.
  intros N H. destruct hr as [[h' r']|e]; cbn in *; auto.
  destruct H as [d' [F' [E [Hr Hg]]]]. exists d', F'. repeat split; auto.
  intros y Hy. destruct (Hg y Hy); auto. right. lia.
Qed.

Lemma refines_at_grown h F F1 hr vr :
  grown h F F1 -> refines_at h F1 hr vr -> refines_at h F hr vr.
Proof.
  intros G H. destruct hr as [[h' r']|e]; cbn in *; auto.
  destruct H as [d' [F' [E [Hr Hg]]]]. exists d', F'. repeat split; auto.
  intros y Hy. destruct (Hg y Hy) as [H1|H1]; auto.
Qed.

(* the heap value of an object found by resolve_parent *)
Lemma hval_of_rv_rep h root d F so :
  rep h root d F -> rv_ok d so ->
  exists sv Fs, hval_of_rv h root so = Some sv /\ rep h sv (rv_json so) Fs /\ forall y, In y Fs -> In y F.
Proof.
  intros Hr Hok. destruct so as [l v|s]; cbn in *.
  - destruct (rep_nav l _ _ _ _ _ Hr Hok) as [vp Hnav].
    destruct (rep_update l _ _ _ _ Hr vp Hnav) as [pv [Fp [Hnode [Hrp [Hsub _]]]]].
    exists vp, Fp. split; auto. split; auto. congruence.
  - exists (HLit s), []. split; auto. split; [constructor; exact Hok|intros y []].
Qed.

Lemma hcopy_refines fuel h root d F source dest :
  closed h -> valloc h root -> rep h root d F ->
  refines_at h F (hcopy fuel h source dest root) (apply_copy source dest d).
Proof.
  intros Hc Hv Hr. unfold hcopy, apply_copy.
  destruct (view_cases fuel _ _ _ _ Hr) as [->| ->]; [|left; reflexivity]. cbn [bind].
  destruct (resolve_parent source d) as [[sparent sobj]|err] eqn:Er; cbn [bind]; [|right; reflexivity].
  destruct (resolve_parent_inv _ _ _ _ Er) as [_ Hobj].
  destruct sobj as [so|]; [|right; reflexivity].
  destruct (hval_of_rv_rep _ _ _ _ _ Hr Hobj) as [sv [Fs [-> [Hrs Hsub]]]].
  assert (HalF : forall y, In y F -> y < h_next h) by (intros y Hy; eapply rep_alloc; eauto).
  destruct (deepcopy fuel h sv) as [[h1 c1]|err] eqn:Ed; cbn [bind fst snd]; [|left; eapply deepcopy_err; eauto].
  destruct (deepcopy_spec _ _ _ _ _ Hc Ed) as [He _].
  destruct (deepcopy_rep _ _ _ _ _ _ _ Hc ltac:(intros y Hy; apply HalF; apply Hsub; exact Hy) Hrs Ed) as [Fx [Hx Hrange]].
  apply (refines_at_weaken h h1); [apply He|].
  eapply hadd_refines; eauto.
  - eapply ext_closed; eauto.
  - destruct root; cbn in *; auto. destruct He. lia.
  - eapply ext_rep; eauto.
  - intros y Hy. apply Hrange in Hy. lia.
Qed.

Lemma getitem_child l pv k r :
  getitem (RNode l pv) k = Ok r -> (exists p0 v, r = RNode (l ++ [p0]) v) \/ (exists s, r = RVal s).
Proof.
  unfold getitem. cbn [rv_json]. intros H. destruct pv as [| b | n | s | xs | ms]; try discriminate.
  - destruct k as [z|k].
    + destruct (py_list_index xs z) as [[i c]|]; [|discriminate]. injection H as <-. left. cbn. eauto.
    + destruct (ustr_eqb k [ch_minus]); [discriminate|].
      destruct (starts_with_ch ch_hash k).
      * destruct (py_int (tl k)) as [[i|]|]; try discriminate.
        destruct (Z.leb _ i); [discriminate|]. injection H as <-. right. eauto.
      * destruct (index_of_text k) as [[z|s]|]; cbn [bind] in H; try discriminate.
        destruct (py_list_index xs z) as [[i c]|]; [|discriminate]. injection H as <-. left. cbn. eauto.
  - destruct k as [z|k].
    + destruct (lookup (str_of_Z z) ms) as [c|]; [|discriminate]. injection H as <-. left. cbn. eauto.
    + destruct (lookup k ms) as [c|]; [injection H as <-; left; cbn; eauto|].
      destruct k as [|c0 rest]; [discriminate|].
      destruct ((N.eqb c0 ch_tilde || N.eqb c0 ch_hash) && _); [|discriminate]. injection H as <-. right. eauto.
Qed.

Lemma resolve_parent_child p d par so :
  resolve_parent p d = Ok (Some par, Some so) ->
  (exists s, so = RVal s) \/ exists l pv p0 v, par = RNode l pv /\ so = RNode (l ++ [p0]) v.
Proof.
  intros H. pose proof (resolve_parent_inv _ _ _ _ H) as [[Hok _] _].
  unfold resolve_parent in H. destruct p as [|x p]; [discriminate|].
  destruct (reduce_getitem (RNode [] d) (removelast (x :: p))) as [par0|]; [|discriminate]. cbn [bind] in H.
  destruct (last_opt (x :: p)) as [k|]; [|discriminate].
  destruct (getitem par0 k) as [r|e] eqn:Eg.
  - injection H as <- <-. destruct par0 as [l pv|s].
    + destruct (getitem_child _ _ _ _ Eg) as [[p0 [v ->]]|[s ->]]; [right; eauto 6|left; eauto].
    + destruct (getitem_rval s k Hok) as [e [E' _]]. congruence.
  - destruct e as [k0|k0|k0|k0|b| |]; try discriminate. destruct k0; discriminate.
Qed.

Lemma hnode_at_app h l1 : forall v l2,
  hnode_at h v (l1 ++ l2) = match hnode_at h v l1 with Some c => hnode_at h c l2 | None => None end.
Proof. induction l1 as [|p l1 IH]; intros v l2; cbn; auto. destruct (hstep h v p); auto. Qed.

(* a child of a represented container lies inside the footprint of the children *)
Lemma rep_child h a pv Fc p0 sv :
  rep h (HRef a) pv (a :: Fc) -> hstep h (HRef a) p0 = Some sv ->
  exists v Fs, Json.step pv p0 = Some v /\ rep h sv v Fs /\ forall y, In y Fs -> In y Fc.
Proof.
  intros Hr Hs. unfold hstep in Hs.
  inversion Hr as [| a1 xs js F0 Hg Hrs Hna | a1 ms js F0 Hg Hk Hrs Hna]; subst; rewrite Hg in Hs.
  - destruct p0 as [k|i]; [discriminate|].
    destruct (reps_replace _ _ _ _ Hrs i sv Hs) as [j [Fi [Hj [Hri [Hsub _]]]]]. exists j, Fi. auto.
  - destruct p0 as [k|i]; [|discriminate].
    rewrite lookup_kindex in Hs. destruct (kindex k (map fst ms)) as [i|] eqn:Ek; [|discriminate].
    destruct (reps_replace _ _ _ _ Hrs i sv Hs) as [j [Fi [Hj [Hri [Hsub _]]]]]. exists j, Fi.
    split; auto. cbn. rewrite lookup_kindex, <- Hk, Ek. exact Hj.
Qed.

Lemma move_edit_novalue target pv e : move_edit target pv = Ok e -> edit_takes_value e = false.
Proof.
  unfold move_edit. destruct pv as [| | | |xs|ms]; try (intros H; injection H as <-; reflexivity).
  - destruct (array_index_of target) as [z|]; cbn [bind]; [|discriminate].
    destruct (py_norm_index (length xs) z); intros H; [injection H as <-; reflexivity|discriminate].
  - destruct (dict_has ms (member_name target)); intros H; [injection H as <-; reflexivity|discriminate].
Qed.

(* a write that copies nothing changes the parent cell only *)
Lemma hwrite_novalue fuel h root l pv decide value h1 :
  (forall e, decide pv = Ok e -> edit_takes_value e = false) ->
  hwrite fuel h root (RNode l pv) decide value = Ok h1 ->
  exists a, hnode_at h root l = Some (HRef a) /\ h_next h1 = h_next h /\
              forall y, y <> a -> h_get h1 y = h_get h y.
Proof.
  intros Hnv H. unfold hwrite in H. destruct (decide pv) as [e|] eqn:Ed; cbn [bind] in H; [|discriminate].
  destruct (hnode_at h root l) as [[j|a]|]; try discriminate.
  destruct (h_get h a) as [c0|]; [|discriminate]. rewrite (Hnv e eq_refl) in H. injection H as <-.
  exists a. split; auto. split; [reflexivity|]. intros y Hy. apply hset_other. exact Hy.
Qed.

Lemma hmove_refines fuel h root d F source dest :
  closed h -> valloc h root -> rep h root d F ->
  refines_at h F (hmove fuel h source dest root) (apply_move source dest d).
Proof.
  intros Hc Hv Hr. unfold hmove. rewrite apply_move_edit.
  destruct (is_relative_to dest source); [right; reflexivity|].
  destruct (view_cases fuel _ _ _ _ Hr) as [->| ->]; [|left; reflexivity]. cbn [bind].
  destruct (resolve_parent source d) as [[sparent sobj]|err] eqn:Er; cbn [bind]; [|right; reflexivity].
  destruct (resolve_parent_inv _ _ _ _ Er) as [Hpar Hobj].
  destruct sobj as [so|]; [|right; reflexivity].
  destruct (hval_of_rv_rep _ _ _ _ _ Hr Hobj) as [sv [Fs [Hsv [Hrs Hsub]]]]. rewrite Hsv.
  assert (HalF : forall y, In y F -> y < h_next h) by (intros y Hy; eapply rep_alloc; eauto).
  destruct sparent as [par|].
  2:{ cbn [bind]. eapply hadd_refines; eauto. }
  destruct Hpar as [Hok Hcont]. destruct (last_part source) as [target|err]; cbn [bind]; [|right; reflexivity].
  assert (Hlit : rep h (HLit JNull) JNull []) by (constructor; reflexivity).
  pose proof (hwrite_refines fuel h root d F par (move_edit target) (HLit JNull) JNull [] Hc Hv Hr Hlit
                ltac:(intros y []) Hok Hcont) as Hw.
  destruct (hwrite fuel h root par (move_edit target) (HLit JNull)) as [h1|err] eqn:Ew; cbn [bind].
  2:{ destruct Hw as [->|Hw]; [left; reflexivity|right]. rewrite Hw. reflexivity. }
  destruct Hw as [d1 [F1 [Hd1 [Hr1 Hg1]]]]. rewrite Hd1. cbn [bind].
  destruct (hwrite_step _ _ _ _ _ _ _ Hc Hv Ew) as [W [_ S]].
  pose proof (step_closed _ _ _ _ _ S) as Hc1. pose proof (step_valloc _ _ _ _ _ Hv S) as Hv1.
  assert (N : h_next h <= h_next h1) by apply S.
  (* the source object is still represented after the removal *)
  assert (Hsv1 : exists Fs1, rep h1 sv (rv_json so) Fs1 /\ forall y, In y Fs1 -> y < h_next h1).
  { destruct (resolve_parent_child _ _ _ _ Er) as [[s ->]|[l [pv [p0 [v [-> ->]]]]]].
    - cbn in *. injection Hsv as <-. exists []. split; [constructor; exact Hobj|intros y []].
    - cbn [rv_json rv_ok] in *.
      destruct (hwrite_novalue _ _ _ _ _ _ _ _ (fun e => move_edit_novalue target pv e) Ew) as [a [Hna [Hn1 Hoth]]].
      destruct (rep_update l _ _ _ _ Hr (HRef a) Hna) as [pv0 [Fp [Hnode [Hrp [Hsubp _]]]]].
      assert (pv0 = pv) by congruence. subst pv0.
      assert (Hfp : exists Fc, Fp = a :: Fc /\ ~ In a Fc).
      { inversion Hrp; subst; eauto. }
      destruct Hfp as [Fc [-> Hnac]].
      cbn [hval_of_rv] in Hsv. rewrite hnode_at_app, Hna in Hsv. cbn [hnode_at] in Hsv.
      destruct (hstep h (HRef a) p0) as [c|] eqn:Hst; [|discriminate]. injection Hsv as ->.
      destruct (rep_child _ _ _ _ _ _ Hrp Hst) as [v' [Fs2 [Hstep [Hr2 Hsub2]]]].
      assert (v' = v).
      { rewrite node_at_app, Hok in Hobj. cbn in Hobj. rewrite Hstep in Hobj. congruence. }
      subst v'. exists Fs2. split.
      + eapply rep_frame; eauto. intros y Hy. apply Hoth. intros ->. apply Hnac. auto.
      + intros y Hy. rewrite Hn1. apply HalF. apply Hsubp. right. auto. }
  destruct Hsv1 as [Fs1 [Hrs1 Hal1]].
  apply (refines_at_grown h F F1 _ _ Hg1). apply (refines_at_weaken h h1); [exact N|].
  eapply hadd_refines; eauto.
Qed.

(* ---------------------------------------------------------------------- *)
(* (1) REFINEMENT. *)

(* a stored value denotes x and lives in cells of its own, outside the document *)
Definition val_ok (h : heap) (root : hval) (v : hval) (x : json) : Prop :=
  exists Fv, rep h v x Fv /\ forall y, In y Fv -> y < h_next h /\ ~ reach h root y.

(* the value-model operation a stored operation denotes *)
Definition denotes (h : heap) (root : hval) (o : hop) (o' : pop) : Prop :=
  match o, o' with
  | HAdd p v, OpAdd p' x => p = p' /\ val_ok h root v x
  | HAddNe p v, OpAddNe p' x => p = p' /\ val_ok h root v x
  | HAddAp p v, OpAddAp p' x => p = p' /\ val_ok h root v x
  | HRemove p, OpRemove p' => p = p'
  | HReplace p v, OpReplace p' x => p = p' /\ val_ok h root v x
  | HMove f p, OpMove f' p' => f = f' /\ p = p'
  | HCopy f p, OpCopy f' p' => f = f' /\ p = p'
  | HTest p v, OpTest p' x => p = p' /\ val_ok h root v x
  | _, _ => False
  end.

Lemma hop_refines fuel h root d F o o' :
  closed h -> valloc h root -> rep h root d F -> denotes h root o o' ->
  refines_at h F (happly_op fuel h o root) (apply_op o' d).
Proof.
  intros Hc Hv Hr Hd.
  destruct o as [p v|p v|p v|p|p v|f p|f p|p v]; destruct o' as [p' x|p' x|p' x|p'|p' x|f' p'|f' p'|p' x];
    try contradiction; cbn [denotes happly_op apply_op] in *.
  - destruct Hd as [<- [Fv [Hrv Hal]]]. eapply hadd_refines; eauto. intros y Hy. apply (Hal y Hy).
  - destruct Hd as [<- [Fv [Hrv Hal]]]. eapply haddne_refines; eauto. intros y Hy. apply (Hal y Hy).
  - destruct Hd as [<- [Fv [Hrv Hal]]]. eapply hadd_refines; eauto. intros y Hy. apply (Hal y Hy).
  - subst p'. apply hremove_refines; auto.
  - destruct Hd as [<- [Fv [Hrv Hal]]]. eapply hreplace_refines; eauto. intros y Hy. apply (Hal y Hy).
  - destruct Hd as [<- <-]. apply hmove_refines; auto.
  - destruct Hd as [<- <-]. apply hcopy_refines; auto.
  - destruct Hd as [<- [Fv [Hrv Hal]]]. eapply htest_refines; eauto.
Qed.

Lemma val_ok_step W h root h' root' v x :
  closed h -> valloc h root -> step W h root h' root' -> val_ok h root v x -> val_ok h' root' v x.
Proof.
  intros Hc Hv S [Fv [Hr Hal]]. exists Fv. split.
  - eapply rep_frame; eauto. intros y Hy. destruct (Hal y Hy) as [Hy1 Hy2].
    destruct S as [_ [HW [Hfr _]]]. apply Hfr; auto. intros Hin. destruct (HW y Hin); [contradiction|lia].
  - intros y Hy. destruct (Hal y Hy) as [Hy1 Hy2]. split; [destruct S as [N _]; lia|].
    intros Hr'. destruct (step_reach _ _ _ _ _ _ Hc Hv S Hr'); [contradiction|lia].
Qed.

Lemma denotes_step W h root h' root' o o' :
  closed h -> valloc h root -> step W h root h' root' -> denotes h root o o' -> denotes h' root' o o'.
Proof.
  intros Hc Hv S Hd. destruct o; destruct o'; cbn in *; auto;
    destruct Hd as [Hp Hval]; split; auto; eapply val_ok_step; eauto.
Qed.

(* On a tree-shaped document, with the patch's values in cells of their own, the heap run and the
   value model agree: same result document (as a value), same error; the result is again
   tree-shaped.  (EOutOfFuel: the fuel given to the heap run did not suffice.) *)
Theorem refinement :
  forall fuel ops ops' h root d F,
    closed h -> valloc h root -> rep h root d F -> Forall2 (denotes h root) ops ops' ->
    match happly fuel h ops root with
    | Ok (h', root') => exists d' F', Patch.apply ops' d = Ok d' /\ rep h' root' d' F'
    | Err e => e = EOutOfFuel \/ Patch.apply ops' d = Err e
    end.
Proof.
  intros fuel ops. induction ops as [|o ops IH]; intros ops' h root d F Hc Hv Hr Hden;
    inversion Hden as [|o0 o' ops0 ops1 Hd Hds]; subst; cbn [happly Patch.apply].
  - exists d, F. auto.
  - pose proof (hop_refines fuel h root d F o o' Hc Hv Hr Hd) as H.
    destruct (happly_op fuel h o root) as [[h1 r1]|e] eqn:Eo; cbn [refines_at] in H.
    + destruct H as [d1 [F1 [-> [Hr1 _]]]]. cbn [fst snd].
      destruct (hop_step _ _ _ _ _ _ Hc Hv Eo) as [W [_ S]].
      apply (IH ops1 h1 r1 d1 F1); auto.
      * eapply step_closed; eauto.
      * eapply step_valloc; eauto.
      * clear -Hds Hc Hv S. induction Hds; constructor; auto. eapply denotes_step; eauto.
    + destruct H as [He|He]; [left; rewrite He; reflexivity|right; rewrite He; reflexivity].
Qed.

(* ---------------------------------------------------------------------- *)
(* A represented value can be read (with enough fuel). *)

Lemma all_some_Forall2 {A B} (f : A -> option B) l r :
  Forall2 (fun a b => f a = Some b) l r -> all_some (map f l) = Some r.
Proof. induction 1 as [|a b l r Hab _ IH]; [reflexivity|]. cbn. rewrite Hab, IH. reflexivity. Qed.

Lemma Forall2_impl {A B} (P Q : A -> B -> Prop) l l' :
  (forall a b, P a b -> Q a b) -> Forall2 P l l' -> Forall2 Q l l'.
Proof. intros H. induction 1; constructor; auto. Qed.

Lemma hread_S n : forall h v j, hread n h v = Some j -> hread (S n) h v = Some j.
Proof.
  induction n as [|n IH]; intros h v j H; destruct v as [j0|a]; try (cbn in *; exact H); try discriminate.
  cbn [hread] in H. change (hread (S (S n)) h (HRef a)) with
    (match h_get h a with
     | Some (CObj ms) =>
         option_map JObj (all_some (map (fun kv => option_map (pair (fst kv)) (hread (S n) h (snd kv))) ms))
     | Some (CArr xs) => option_map JArr (all_some (map (hread (S n) h) xs))
     | None => None
     end).
  destruct (h_get h a) as [[ms|xs]|]; [| |discriminate].
  - destruct (all_some (map (fun kv => option_map (pair (fst kv)) (hread n h (snd kv))) ms)) as [r|] eqn:E; [|discriminate].
    apply all_some_map in E. rewrite (all_some_Forall2 _ ms r); [exact H|].
    eapply Forall2_impl; [|exact E]. intros [k v] b Hb. cbn [fst snd] in *.
    destruct (hread n h v) as [jv|] eqn:Ev; [|discriminate]. rewrite (IH _ _ _ Ev). exact Hb.
  - destruct (all_some (map (hread n h) xs)) as [r|] eqn:E; [|discriminate].
    apply all_some_map in E. rewrite (all_some_Forall2 _ xs r); [exact H|].
    eapply Forall2_impl; [|exact E]. intros v b Hb. apply IH. exact Hb.
Qed.

Lemma hread_mono n m h v j : n <= m -> hread n h v = Some j -> hread m h v = Some j.
Proof. induction 1; auto. intros Hr. apply hread_S. auto. Qed.

Lemma rep_hread_mut h :
  (forall v j F, rep h v j F -> exists n, hread n h v = Some j) /\
  (forall vs js F, reps h vs js F -> exists n, Forall2 (fun v j => hread n h v = Some j) vs js).
Proof.
  apply rep_mutind.
  - intros j _. exists 0. reflexivity.
  - intros a xs js F Hg _ [n IH] _. exists (S n). cbn [hread]. rewrite Hg.
    rewrite (all_some_Forall2 _ xs js IH). reflexivity.
  - intros a ms js F Hg Hk _ [n IH] _. exists (S n). cbn [hread]. rewrite Hg.
    rewrite (all_some_Forall2 _ ms js); [reflexivity|].
    clear -Hk IH. revert js Hk IH. induction ms as [|[k v] ms IHm]; intros [|[k' j] js] Hk IH; try discriminate; [constructor|].
    cbn in *. injection Hk as -> Hk. inversion IH; subst. constructor; [cbn; rewrite H2; reflexivity|auto].
  - exists 0. constructor.
  - intros v j F vs js Fs _ [n1 IH1] _ [n2 IH2] _. exists (max n1 n2). constructor.
    + eapply hread_mono; [|exact IH1]. lia.
    + eapply Forall2_impl; [|exact IH2]. intros v0 j0 Hv. eapply hread_mono; [|exact Hv]. lia.
Qed.

Lemma rep_hread h v j F : rep h v j F -> exists n, hread n h v = Some j.
Proof. apply rep_hread_mut. Qed.

(* the refinement theorem, on what can be read *)
Corollary refinement_read :
  forall fuel ops ops' h root d F h' root',
    closed h -> valloc h root -> rep h root d F -> Forall2 (denotes h root) ops ops' ->
    happly fuel h ops root = Ok (h', root') ->
    exists d', Patch.apply ops' d = Ok d' /\ exists n, hread n h' root' = Some d'.
Proof.
  intros fuel ops ops' h root d F h' root' Hc Hv Hr Hden H.
  pose proof (refinement fuel ops ops' h root d F Hc Hv Hr Hden) as R. rewrite H in R.
  destruct R as [d' [F' [Ha Hr']]]. exists d'. split; auto. eapply rep_hread; eauto.
Qed.

(* ---------------------------------------------------------------------- *)
(* Documents (and operation values) loaded with hstore are tree-shaped, in fresh cells. *)

Definition store_list (st : heap -> json -> heap * hval) :=
  fix go (h : heap) (xs : list json) : heap * list hval :=
    match xs with
    | [] => (h, [])
    | x :: r => let '(h1, v) := st h x in let '(h2, vs) := go h1 r in (h2, v :: vs)
    end.

Definition store_members (st : heap -> json -> heap * hval) :=
  fix go (h : heap) (ms : list (ustr * json)) : heap * list (ustr * hval) :=
    match ms with
    | [] => (h, [])
    | (k, x) :: r => let '(h1, v) := st h x in let '(h2, vs) := go h1 r in (h2, (k, v) :: vs)
    end.

Lemma hstore_arr h xs :
  hstore h (JArr xs) =
  let '(h1, vs) := store_list hstore h xs in let '(h2, a) := halloc h1 (CArr vs) in (h2, HRef a).
Proof. reflexivity. Qed.

Lemma hstore_obj h ms :
  hstore h (JObj ms) =
  let '(h1, vs) := store_members hstore h ms in let '(h2, a) := halloc h1 (CObj vs) in (h2, HRef a).
Proof. reflexivity. Qed.

Definition stored (h : heap) (j : json) : Prop :=
  closed h -> ext h (fst (hstore h j)) /\
  exists F, rep (fst (hstore h j)) (snd (hstore h j)) j F /\ in_range (h_next h) (h_next (fst (hstore h j))) F.

Lemma alloc_rep_range h0 h1 c F :
  closed h0 -> ext h0 h1 -> in_range (h_next h0) (h_next h1) F ->
  (forall b, In b (crefs c) -> h_next h0 <= b < h_next h1) ->
  ext h0 (fst (halloc h1 c)) /\ snd (halloc h1 c) = h_next h1 /\ h_next (fst (halloc h1 c)) = S (h_next h1) /\
  h_get (fst (halloc h1 c)) (h_next h1) = Some c /\
  (forall y, In y F -> h_get (fst (halloc h1 c)) y = h_get h1 y) /\ ~ In (h_next h1) F.
Proof.
  intros Hc He Hr Hrefs. destruct (alloc_after h0 h1 c Hc He Hrefs) as [E2 [_ Hg]].
  split; [exact E2|]. split; [reflexivity|]. split; [reflexivity|]. split; [exact Hg|]. split.
  - intros y Hy. apply Hr in Hy. apply halloc_old. lia.
  - intros Hy. apply Hr in Hy. lia.
Qed.

Lemma reps_refs_range h vs js F lo hi :
  reps h vs js F -> in_range lo hi F -> forall b, In (HRef b) vs -> lo <= b < hi.
Proof.
  induction 1 as [|v j F0 vs js Fs Hr _ IH _]; intros Hrange b Hb; [contradiction|].
  destruct Hb as [->|Hb].
  - inversion Hr; subst; apply Hrange; left; reflexivity.
  - apply IH; auto. intros y Hy. apply Hrange. apply in_or_app. auto.
Qed.

Lemma hstore_stored j : forall h, stored h j.
Proof.
  induction j as [| b | n | s | xs IH | ms IH] using json_ind'; intros h Hc;
    try (cbn; split; [apply ext_refl; auto|]; exists []; split; [constructor; reflexivity|intros y []]).
  - (* arrays *)
    assert (Hl : forall h0, closed h0 ->
              ext h0 (fst (store_list hstore h0 xs)) /\
              exists F, reps (fst (store_list hstore h0 xs)) (snd (store_list hstore h0 xs)) xs F /\
                        in_range (h_next h0) (h_next (fst (store_list hstore h0 xs))) F).
    { induction IH as [|x xs Hx _ IHxs]; intros h0 Hc0; cbn [store_list].
      - split; [apply ext_refl; auto|]. exists []. split; [constructor|intros y []].
      - destruct (Hx h0 Hc0) as [E1 [Fx [Rx Ix]]]. destruct (hstore h0 x) as [hx vx]. cbn [fst snd] in *.
        destruct (IHxs hx (ext_closed _ _ Hc0 E1)) as [E2 [Fr [Rr Ir]]].
        destruct (store_list hstore hx xs) as [hr vr]. cbn [fst snd] in *.
        split; [eapply ext_trans; eauto|]. exists (Fx ++ Fr). split.
        + constructor; auto.
          * eapply ext_rep; eauto. intros y Hy. apply Ix in Hy. lia.
          * intros y Hy Hy'. apply Ix in Hy. apply Ir in Hy'. lia.
        + intros y Hy. destruct E1 as [N1 _]. destruct E2 as [N2 _].
          apply in_app_or in Hy as [Hy|Hy]; [apply Ix in Hy|apply Ir in Hy]; lia. }
    rewrite hstore_arr. destruct (Hl h Hc) as [E1 [F [R I]]].
    destruct (store_list hstore h xs) as [h1 vs]. cbn [fst snd] in *.
    destruct (alloc_rep_range h h1 (CArr vs) F Hc E1 I) as [E2 [Ea [En [Hg [Hold Hnin]]]]].
    { intros b Hb. apply in_crefs in Hb. eapply reps_refs_range; eauto. }
    destruct (halloc h1 (CArr vs)) as [h2 a]. cbn [fst snd] in *. subst a.
    split; [exact E2|]. exists (h_next h1 :: F). split.
    + apply rep_arr with (xs := vs); auto. eapply reps_frame; eauto.
    + intros y [<-|Hy]; [destruct E1; lia|apply I in Hy; lia].
  - (* objects *)
    assert (Hl : forall h0, closed h0 ->
              ext h0 (fst (store_members hstore h0 ms)) /\
              map fst (snd (store_members hstore h0 ms)) = map fst ms /\
              exists F, reps (fst (store_members hstore h0 ms)) (map snd (snd (store_members hstore h0 ms))) (map snd ms) F /\
                        in_range (h_next h0) (h_next (fst (store_members hstore h0 ms))) F).
    { induction IH as [|[k x] ms Hx _ IHms]; intros h0 Hc0; cbn [store_members].
      - split; [apply ext_refl; auto|]. split; [reflexivity|]. exists []. split; [constructor|intros y []].
      - cbn [snd] in Hx. destruct (Hx h0 Hc0) as [E1 [Fx [Rx Ix]]]. destruct (hstore h0 x) as [hx vx]. cbn [fst snd] in *.
        destruct (IHms hx (ext_closed _ _ Hc0 E1)) as [E2 [Hk [Fr [Rr Ir]]]].
        destruct (store_members hstore hx ms) as [hr vr]. cbn [fst snd map] in *.
        split; [eapply ext_trans; eauto|]. split; [f_equal; exact Hk|]. exists (Fx ++ Fr). split.
        + constructor; auto.
          * eapply ext_rep; eauto. intros y Hy. apply Ix in Hy. lia.
          * intros y Hy Hy'. apply Ix in Hy. apply Ir in Hy'. lia.
        + intros y Hy. destruct E1 as [N1 _]. destruct E2 as [N2 _].
          apply in_app_or in Hy as [Hy|Hy]; [apply Ix in Hy|apply Ir in Hy]; lia. }
    rewrite hstore_obj. destruct (Hl h Hc) as [E1 [Hk [F [R I]]]].
    destruct (store_members hstore h ms) as [h1 vs]. cbn [fst snd] in *.
    destruct (alloc_rep_range h h1 (CObj vs) F Hc E1 I) as [E2 [Ea [En [Hg [Hold Hnin]]]]].
    { intros b Hb. apply in_crefs in Hb. cbn [cvals] in Hb. eapply reps_refs_range; eauto. }
    destruct (halloc h1 (CObj vs)) as [h2 a]. cbn [fst snd] in *. subst a.
    split; [exact E2|]. exists (h_next h1 :: F). split.
    + apply rep_obj with (ms := vs); auto. eapply reps_frame; eauto.
    + intros y [<-|Hy]; [destruct E1; lia|apply I in Hy; lia].
Qed.

(* loading a document and the values of a patch gives the hypotheses of the refinement theorem *)
Theorem stored_document :
  forall h j, closed h ->
    let h' := fst (hstore h j) in let root := snd (hstore h j) in
    closed h' /\ valloc h' root /\ exists F, rep h' root j F /\ in_range (h_next h) (h_next h') F.
Proof.
  intros h j Hc h' root. destruct (hstore_stored j h Hc) as [He [F [Hr Hi]]].
  split; [eapply ext_closed; eauto|]. split; [|eauto].
  unfold h', root in *. destruct (snd (hstore h j)) as [l|a]; cbn; auto.
  assert (Hin : In a F) by (inversion Hr; subst; left; reflexivity).
  apply Hi in Hin. lia.
Qed.

Lemma closed_empty : closed hempty.
Proof. intros a c H. discriminate. Qed.

(* values loaded after the document live in cells of their own *)
Lemma ext_reach h h' root y : closed h -> valloc h root -> ext h h' -> reach h' root y -> reach h root y.
Proof.
  intros Hc Hv He Hr. apply (reach_frame h h' root y); auto.
  intros a Ha. apply He. eapply reach_alloc; eauto.
Qed.

Lemma val_ok_ext h h' root v x :
  closed h -> valloc h root -> ext h h' -> val_ok h root v x -> val_ok h' root v x.
Proof.
  intros Hc Hv He [Fv [Hr Hal]]. exists Fv. split.
  - eapply ext_rep; eauto. intros y Hy. apply (Hal y Hy).
  - intros y Hy. destruct (Hal y Hy) as [H1 H2]. split; [destruct He; lia|].
    intros Hr'. apply H2. eapply ext_reach; eauto.
Qed.

Theorem stored_value_ok :
  forall h root x, closed h -> valloc h root ->
    ext h (fst (hstore h x)) /\ val_ok (fst (hstore h x)) root (snd (hstore h x)) x.
Proof.
  intros h root x Hc Hv. destruct (hstore_stored x h Hc) as [He [F [Hr Hi]]]. split; [exact He|].
  exists F. split; [exact Hr|]. intros y Hy. apply Hi in Hy. split; [lia|].
  intros Hr'. pose proof (ext_reach _ _ _ _ Hc Hv He Hr') as Hr0.
  pose proof (reach_alloc _ _ _ Hc Hv Hr0). lia.
Qed.

Lemma valloc_ext h h' v : ext h h' -> valloc h v -> valloc h' v.
Proof. intros [N _] H. destruct v; cbn in *; auto. lia. Qed.

(* non-vacuity of the refinement theorem: a document and a value loaded with hstore, one add *)
Corollary refinement_stored_add :
  forall fuel (doc x : json) (p : pointer),
    let s0 := hstore hempty doc in
    let s1 := hstore (fst s0) x in
    match happly fuel (fst s1) [HAdd p (snd s1)] (snd s0) with
    | Ok (h', root') => exists d' F', Patch.apply [OpAdd p x] doc = Ok d' /\ rep h' root' d' F'
    | Err e => e = EOutOfFuel \/ Patch.apply [OpAdd p x] doc = Err e
    end.
Proof.
  intros fuel doc x p s0 s1.
  destruct (stored_document hempty doc closed_empty) as [Hc0 [Hv0 [F [Hr0 _]]]].
  destruct (stored_value_ok (fst s0) (snd s0) x Hc0 Hv0) as [He Hval].
  apply (refinement fuel [HAdd p (snd s1)] [OpAdd p x] (fst s1) (snd s0) doc F).
  - eapply ext_closed; eauto.
  - eapply valloc_ext; eauto.
  - eapply ext_rep; eauto. intros y Hy. eapply rep_alloc; eauto.
  - constructor; [|constructor]. cbn. split; [reflexivity|exact Hval].
Qed.
