(* TokenAliasProofs.v — alias token sequences (spec/TokenAlias.v) compile alike: both fail with the
   same error, or both succeed with queries that have the same normal form (TokPrint.norm_query;
   the only structural difference is an omitted slice step against an explicit 1).
   A relational symbolic execution of the parser model on two pointwise-aliased streams. *)
From Coq Require Import ZArith List Bool Lia.
From JP Require Import Base Json PyStr PyJsonStr Syntax Lex Parse Serialize TokPrint Gate TokenAlias.
From JP Require Import ParseEqns GateLemmas ParseSpec ReparseLemmas.
Import ListNotations.

(* ---- kinds ------------------------------------------------------------------------------------ *)

Lemma is_kind_alias k t t' :
  kcls (tk t) = kcls (tk t') -> k <> TUndefined -> k <> TMissing -> is_kind k t = is_kind k t'.
Proof.
  unfold is_kind. intros H H1 H2.
  destruct (tk t), (tk t'); cbn [kcls] in H; try discriminate H; try reflexivity;
    destruct k; try reflexivity; contradiction.
Qed.

Lemma binop_alias t t' : kcls (tk t) = kcls (tk t') -> binop_of_kind (tk t) = binop_of_kind (tk t').
Proof. intros H. destruct (tk t), (tk t'); cbn [kcls] in H; try discriminate H; reflexivity. Qed.

Lemma prec_alias t t' : kcls (tk t) = kcls (tk t') -> precedence_of (tk t) = precedence_of (tk t').
Proof. intros H. destruct (tk t), (tk t'); cbn [kcls] in H; try discriminate H; reflexivity. Qed.

Lemma tok_alias_refl t : tok_alias t t.
Proof.
  split; [reflexivity|]. unfold val_alias. destruct (tk t); try exact I; try reflexivity; try (split; reflexivity).
  destruct (slice_bound (tv t)); reflexivity.
Qed.

(* ---- results ---------------------------------------------------------------------------------- *)

Definition RR {A} (R : A -> A -> Prop) (r r' : result A) : Prop :=
  match r, r' with
  | Ok a, Ok a' => R a a'
  | Err e, Err e' => e = e'
  | _, _ => False
  end.

Lemma RR_bind {A B} (R : A -> A -> Prop) (R' : B -> B -> Prop) r r' (f f' : A -> result B) :
  RR R r r' -> (forall a a', R a a' -> RR R' (f a) (f' a')) -> RR R' (bind r f) (bind r' f').
Proof. intros Hr Hf. destruct r as [a|e], r' as [a'|e']; try contradiction Hr; [apply Hf; exact Hr|exact Hr]. Qed.

Lemma RR_eq {A} (R : A -> A -> Prop) (r r' : result A) : r = r' -> (forall a, R a a) -> RR R r r'.
Proof. intros -> HR. destruct r'; [apply HR|reflexivity]. Qed.

Lemma RR_weaken {A} (R R' : A -> A -> Prop) r r' : RR R r r' -> (forall a a', R a a' -> R' a a') -> RR R' r r'.
Proof. intros H HR. destruct r, r'; try contradiction H; [apply HR; exact H|exact H]. Qed.

Ltac rstep H := eapply RR_bind; [exact H|]; cbv beta.

(* ---- normal forms of what the parser builds --------------------------------------------------- *)

Lemma norm_segs_of l : norm_segs (segs_of l) = segs_of (map norm_seg l).
Proof. induction l as [|g l IH]; [reflexivity|]. cbn [segs_of map]. rewrite norm_segs_cons, IH. reflexivity. Qed.

Lemma norm_sels_of l : norm_sels (sels_of l) = sels_of (map norm_sel l).
Proof. induction l as [|g l IH]; [reflexivity|]. cbn [sels_of map]. rewrite norm_sels_cons, IH. reflexivity. Qed.

Lemma norm_exprs_of l : norm_exprs (fexprs_of l) = fexprs_of (map norm_expr l).
Proof. induction l as [|g l IH]; [reflexivity|]. cbn [fexprs_of map]. rewrite norm_exprs_cons, IH. reflexivity. Qed.

(* the compile-time checks only look at what normalisation keeps *)
Lemma fn_return_norm e : fn_return (norm_expr e) = fn_return e.
Proof. destruct e; try reflexivity. destruct (norm_float n) as [n' ->]. reflexivity. Qed.

Lemma is_path_norm e : is_path (norm_expr e) = is_path e.
Proof. exact (is_query_norm e). Qed.

Lemma singular_path_norm e : singular_query (path_segs (norm_expr e)) = singular_query (path_segs e).
Proof.
  change (path_segs (norm_expr e)) with (g_query_segs (norm_expr e)). rewrite query_segs_norm.
  rewrite !singular_eq. apply singular_norm.
Qed.

Lemma is_literal_or_nil_norm e : is_literal_or_nil (norm_expr e) = is_literal_or_nil e.
Proof. exact (is_literal_norm e). Qed.

Lemma check_uncompared_norm e : check_uncompared (norm_expr e) = check_uncompared e.
Proof. unfold check_uncompared. rewrite fn_return_norm, is_literal_or_nil_norm. reflexivity. Qed.

Lemma check_comparable_norm e : check_comparable (norm_expr e) = check_comparable e.
Proof.
  unfold check_comparable. rewrite is_path_norm, singular_path_norm.
  destruct (is_path e && negb (singular_query (path_segs e))); [reflexivity|].
  destruct e; try reflexivity. destruct (norm_float n) as [n' ->]. reflexivity.
Qed.

Lemma check_arg_norm t e : check_arg t (norm_expr e) = check_arg t e.
Proof. rewrite !check_arg_tr. apply arg_ok_norm. Qed.

Lemma check_args_norm ts l : check_args ts (map norm_expr l) = check_args ts l.
Proof.
  revert l. induction ts as [|t ts IH]; intros [|a l]; try reflexivity.
  cbn [map check_args]. rewrite check_arg_norm, IH. reflexivity.
Qed.

Lemma validate_function_norm name l : validate_function name (map norm_expr l) = validate_function name l.
Proof.
  unfold validate_function. destruct (fn_sig name) as [[ts t]|]; [|reflexivity].
  rewrite map_length, check_args_norm. reflexivity.
Qed.

Lemma check_uncompared_rel e e' : norm_expr e = norm_expr e' -> check_uncompared e = check_uncompared e'.
Proof. intros H. rewrite <- (check_uncompared_norm e), H. apply check_uncompared_norm. Qed.

Lemma check_comparable_rel e e' : norm_expr e = norm_expr e' -> check_comparable e = check_comparable e'.
Proof. intros H. rewrite <- (check_comparable_norm e), H. apply check_comparable_norm. Qed.

Lemma validate_function_rel name l l' :
  map norm_expr l = map norm_expr l' -> validate_function name l = validate_function name l'.
Proof. intros H. rewrite <- (validate_function_norm name l), H. apply validate_function_norm. Qed.

(* ---- two aliased streams ---------------------------------------------------------------------- *)

Definition SA (st st' : stream) : Prop :=
  tok_alias (s_cur st) (s_cur st') /\ Forall2 tok_alias (s_pushed st) (s_pushed st') /\
  Forall2 tok_alias (s_rest st) (s_rest st').

Lemma SA_cls st st' : SA st st' -> kcls (tk (s_cur st)) = kcls (tk (s_cur st')).
Proof. intros [[H _] _]. exact H. Qed.

Lemma SA_kind k st st' : SA st st' -> k <> TUndefined -> k <> TMissing ->
  is_kind k (s_cur st) = is_kind k (s_cur st').
Proof. intros H. apply is_kind_alias. exact (SA_cls st st' H). Qed.

Lemma advance_rel st st' : SA st st' -> RR SA (advance st) (advance st').
Proof.
  intros H. pose proof H as (Hc & Hp & Hr). unfold advance.
  destruct (s_pushed st) as [|p ps] eqn:E1, (s_pushed st') as [|p' ps'] eqn:E1'; try (inversion Hp; fail).
  - rewrite (is_kind_alias TEof _ _ (proj1 Hc)) by discriminate.
    destruct (is_kind TEof (s_cur st')); [exact H|].
    destruct (s_rest st) as [|t r] eqn:E2, (s_rest st') as [|t' r'] eqn:E2'; try (inversion Hr; fail).
    + cbn [RR]. repeat split; try constructor; reflexivity.
    + inversion Hr as [|? ? ? ? Ht Hr']; subst.
      rewrite (is_kind_alias TIllegal _ _ (proj1 Ht)) by discriminate.
      destruct (is_kind TIllegal t'); [reflexivity|]. cbn [RR]. repeat split; try constructor; try assumption; apply Ht.
  - inversion Hp as [|? ? ? ? Ht Hp']; subst. cbn [RR]. repeat split; try assumption; apply Ht.
Qed.

Definition Rtok (st st' : stream) (r r' : token * stream) : Prop :=
  (fst r = s_cur st /\ fst r' = s_cur st') /\ SA (snd r) (snd r').

Lemma next_token_rel st st' : SA st st' -> RR (Rtok st st') (next_token st) (next_token st').
Proof.
  intros H. unfold next_token. rstep (advance_rel st st' H). intros a a' Ha. cbn [RR]. split; [split; reflexivity|exact Ha].
Qed.

Definition Rpeek (r r' : token * stream) : Prop := tok_alias (fst r) (fst r') /\ SA (snd r) (snd r').

Lemma peek_rel st st' : SA st st' -> RR Rpeek (peek st) (peek st').
Proof.
  intros H. unfold peek. rstep (advance_rel st st' H). intros a a' (Hc & Hp & Hr). cbn [RR].
  split; [exact Hc|]. unfold push. repeat split; cbn [s_cur s_pushed s_rest fst snd]; try apply H; try exact Hr.
  apply Forall2_app; [exact Hp|constructor; [exact Hc|constructor]].
Qed.

Lemma push_rel st st' : SA st st' -> SA (push st (s_cur st)) (push st' (s_cur st')).
Proof.
  intros (Hc & Hp & Hr). unfold push. repeat split; cbn [s_cur s_pushed s_rest]; try apply Hc; try exact Hr.
  apply Forall2_app; [exact Hp|constructor; [exact Hc|constructor]].
Qed.

Lemma expect_rel st st' k : SA st st' -> k <> TUndefined -> k <> TMissing ->
  RR (fun _ _ => tk (s_cur st) = k /\ tk (s_cur st') = k) (expect st k) (expect st' k).
Proof.
  intros H K1 K2. unfold expect. rewrite <- (SA_kind k st st' H K1 K2).
  destruct (is_kind k (s_cur st)) eqn:Hk; [|reflexivity]. cbn [RR].
  split; [apply is_kind_eq; exact Hk|]. apply is_kind_eq. rewrite <- (SA_kind k st st' H K1 K2). exact Hk.
Qed.

Section Rel.
  Variable E : env.
  Variable re_ok : ustr -> option bool.
  Hypothesis H1 : index_in_range E 1 = true.

  Definition Qx {A} (R : A -> A -> Prop) (r r' : A * stream) : Prop := R (fst r) (fst r') /\ SA (snd r) (snd r').
  Definition Re (e e' : fexpr) : Prop := norm_expr e = norm_expr e'.
  Definition Rsel (s s' : selector) : Prop := norm_sel s = norm_sel s'.
  Definition Rsels (l l' : list selector) : Prop := map norm_sel l = map norm_sel l'.
  Definition Rsegs (l l' : list segment) : Prop := map norm_seg l = map norm_seg l'.
  Definition Res (l l' : list fexpr) : Prop := map norm_expr l = map norm_expr l'.

  Lemma rev_rel {A B} (f : A -> B) l l' : map f l = map f l' -> map f (rev l) = map f (rev l').
  Proof. intros H. rewrite !map_rev, H. reflexivity. Qed.

  (* the value condition of the current tokens, once the kind is known *)
  Lemma SA_val st st' k : SA st st' -> tk (s_cur st) = k -> val_alias k (tv (s_cur st)) (tv (s_cur st')).
  Proof. intros [[_ H] _] <-. exact H. Qed.

  Lemma decode_rel st st' :
    SA st st' -> tk (s_cur st) = tk (s_cur st') -> (tk (s_cur st) = TSQ \/ tk (s_cur st) = TDQ) ->
    decode_string E (s_cur st) = decode_string E (s_cur st') /\ tv (s_cur st) = tv (s_cur st').
  Proof.
    intros H Hk Hq. assert (Hv : tv (s_cur st) = tv (s_cur st')).
    { destruct Hq as [Hq|Hq]; pose proof (SA_val st st' _ H Hq) as Hv; exact Hv. }
    split; [|exact Hv]. unfold decode_string. rewrite Hk, Hv. reflexivity.
  Qed.

  (* ---- slices ---- *)

  Definition range_ok (o : option Z) : bool := match o with None => true | Some z => index_in_range E z end.

  Lemma parse_slice_eq st :
    parse_slice E st =
    (r1 <- next_token st ;;
     let '(start_tok, st1) := r1 in
     _ <- expect st1 TSliceStop ;;
     r2 <- next_token st1 ;;
     let '(stop_tok, st2) := r2 in
     _ <- expect st2 TSliceStep ;;
     a <- slice_bound (tv start_tok) ;; b <- slice_bound (tv stop_tok) ;; c <- slice_bound (tv (s_cur st2)) ;;
     if range_ok a && range_ok b && range_ok c then Ok (SSlice a b c, st2) else Err (EJsonPath KIndex)).
  Proof.
    unfold parse_slice. destruct (next_token st) as [[t1 st1]|]; [|reflexivity]. cbn [bind].
    destruct (expect st1 TSliceStop); [|reflexivity]. cbn [bind].
    destruct (next_token st1) as [[t2 st2]|]; [|reflexivity]. cbn [bind].
    destruct (expect st2 TSliceStep); [|reflexivity]. cbn [bind]. unfold slice_bound, range_ok.
    destruct (tv t1), (tv t2), (tv (s_cur st2)); reflexivity.
  Qed.

  Lemma parse_slice_rel st st' :
    SA st st' -> tk (s_cur st) = TSliceStart ->
    RR (Qx Rsel) (parse_slice E st) (parse_slice E st').
  Proof.
    intros H Hk. rewrite !parse_slice_eq.
    rstep (next_token_rel st st' H). intros [t1 st1] [t1' st1'] [[Ht1 Ht1'] H1s]. cbn [fst snd] in *.
    rstep (expect_rel st1 st1' TSliceStop H1s ltac:(discriminate) ltac:(discriminate)). intros _ _ [Hk1 _].
    rstep (next_token_rel st1 st1' H1s). intros [t2 st2] [t2' st2'] [[Ht2 Ht2'] H2s]. cbn [fst snd] in *.
    rstep (expect_rel st2 st2' TSliceStep H2s ltac:(discriminate) ltac:(discriminate)). intros _ _ [Hk2 _].
    subst t1 t1' t2 t2'.
    pose proof (SA_val st st' _ H Hk) as Hv1. cbn [val_alias] in Hv1. rewrite Hv1.
    destruct (slice_bound (tv (s_cur st'))) as [a|e]; [|reflexivity]. cbn [bind].
    pose proof (SA_val st1 st1' _ H1s Hk1) as Hv2. cbn [val_alias] in Hv2. rewrite Hv2.
    destruct (slice_bound (tv (s_cur st1'))) as [b|e]; [|reflexivity]. cbn [bind].
    pose proof (SA_val st2 st2' _ H2s Hk2) as Hv3. cbn [val_alias] in Hv3.
    destruct (slice_bound (tv (s_cur st2))) as [c|e], (slice_bound (tv (s_cur st2'))) as [c'|e'];
      try contradiction Hv3; [|exact Hv3]. cbn [bind].
    assert (Hok : range_ok c = range_ok c').
    { destruct c as [z|], c' as [z'|]; cbn [step_norm range_ok] in *; try reflexivity.
      - injection Hv3 as ->. reflexivity.
      - injection Hv3 as ->. exact H1.
      - injection Hv3 as <-. symmetry. exact H1. }
    rewrite Hok. destruct (_ && _); [|reflexivity]. cbn [RR]. split; [|exact H2s]. cbn [fst].
    unfold Rsel. destruct c as [z|], c' as [z'|]; cbn [step_norm norm_sel] in *; congruence.
  Qed.

  (* both current kinds, related: the diagonal, or undefined / missing *)
  Ltac kinds2 st st' Hcls :=
    let Hk := fresh "Hk" in let Hk' := fresh "Hk'" in
    destruct (tk (s_cur st)) eqn:Hk, (tk (s_cur st')) eqn:Hk'; cbn [kcls] in Hcls; try discriminate Hcls.

  (* ---- list literals ---- *)

  Lemma parse_list_items_rel f : forall st st' acc,
    SA st st' ->
    RR (Qx eq) (parse_list_items E f st acc) (parse_list_items E f st' acc).
  Proof.
    induction f as [|f IH]; intros st st' acc H; [reflexivity|].
    rewrite !parse_list_items_S. rewrite <- (SA_kind TRBracket st st' H) by discriminate.
    destruct (is_kind TRBracket (s_cur st)); [split; [reflexivity|exact H]|].
    eapply RR_bind with (R := eq).
    { pose proof (SA_cls st st' H) as Hcls. kinds2 st st' Hcls; try reflexivity.
      - destruct (decode_rel st st' H ltac:(congruence) (or_intror Hk)) as [-> _]. apply RR_eq; reflexivity.
      - destruct (decode_rel st st' H ltac:(congruence) (or_introl Hk)) as [-> _]. apply RR_eq; reflexivity.
      - pose proof (SA_val st st' _ H Hk) as Hv. cbn [val_alias] in Hv. apply RR_eq; [exact Hv|reflexivity].
      - pose proof (SA_val st st' _ H Hk) as Hv. cbn [val_alias] in Hv. apply RR_eq; [exact (proj1 Hv)|reflexivity]. }
    intros item item' <-.
    rstep (peek_rel st st' H). intros [nxt st1] [nxt' st1'] [Hn Hs1]. cbn [fst snd] in *.
    rewrite <- (is_kind_alias TRBracket nxt nxt' (proj1 Hn)) by discriminate.
    rewrite <- (is_kind_alias TComma nxt nxt' (proj1 Hn)) by discriminate.
    eapply RR_bind with (R := SA).
    { destruct (is_kind TRBracket nxt); [exact Hs1|]. destruct (is_kind TComma nxt); [|reflexivity].
      rstep (next_token_rel st1 st1' Hs1). intros r r' [_ Hs2]. exact Hs2. }
    intros st2 st2' Hs2. rstep (next_token_rel st2 st2' Hs2). intros r3 r3' [_ Hs3].
    apply IH. exact Hs3.
  Qed.

  (* ---- the mutual block ---- *)

  Definition RP_path (f : nat) : Prop :=
    forall in_filter st st' acc acc', SA st st' -> Rsegs acc acc' ->
      RR (Qx Rsegs) (parse_path E re_ok f in_filter st acc) (parse_path E re_ok f in_filter st' acc').
  Definition RP_sellist (f : nat) : Prop :=
    forall st st', SA st st' ->
      RR (Qx Rsels) (parse_selector_list E re_ok f st) (parse_selector_list E re_ok f st').
  Definition RP_filter (f : nat) : Prop :=
    forall st st', SA st st' -> RR (Qx Re) (parse_filter E re_ok f st) (parse_filter E re_ok f st').
  Definition RP_fs (f : nat) : Prop :=
    forall st st' prec, SA st st' ->
      RR (Qx Re) (parse_filter_selector E re_ok f st prec) (parse_filter_selector E re_ok f st' prec).
  Definition RP_infix (f : nat) : Prop :=
    forall st st' lhs lhs', SA st st' -> Re lhs lhs' ->
      RR (Qx Re) (parse_infix E re_ok f st lhs) (parse_infix E re_ok f st' lhs').
  Definition RP_primary (f : nat) : Prop :=
    forall st st', SA st st' -> RR (Qx Re) (parse_primary E re_ok f st) (parse_primary E re_ok f st').

  Lemma continue_rel f in_filter acc acc' g g' st st' :
    RP_path f -> SA st st' -> norm_seg g = norm_seg g' -> Rsegs acc acc' ->
    RR (Qx Rsegs) (continue_with E re_ok f in_filter acc g st) (continue_with E re_ok f in_filter acc' g' st').
  Proof.
    intros IH H Hg Hacc. unfold continue_with. rstep (next_token_rel st st' H). intros r r' [_ Hs1].
    apply IH; [exact Hs1|]. unfold Rsegs in *. cbn [map]. rewrite Hg, Hacc. reflexivity.
  Qed.

  Lemma path_step f : RP_path f -> RP_sellist f -> RP_path (S f).
  Proof.
    intros IHp IHs in_filter st st' acc acc' H Hacc. rewrite !parse_path_S.
    assert (Hexit : RR (Qx Rsegs) (Ok (rev acc, if in_filter then push st (s_cur st) else st))
                                  (Ok (rev acc', if in_filter then push st' (s_cur st') else st'))).
    { split; cbn [fst snd]; [apply rev_rel; exact Hacc|]. destruct in_filter; [apply push_rel|]; exact H. }
    pose proof (SA_cls st st' H) as Hcls. kinds2 st st' Hcls; try exact Hexit.
    - apply continue_rel; auto.
    - rstep (parse_slice_rel st st' H Hk). intros r r' [Hsel Hs1].
      apply continue_rel; auto. unfold Rsel in Hsel.
      change (GList (LCons (norm_sel (fst r)) LNil) = GList (LCons (norm_sel (fst r')) LNil)). rewrite Hsel. reflexivity.
    - pose proof (SA_val st st' _ H Hk) as Hv. cbn [val_alias] in Hv. rewrite Hv. apply continue_rel; auto.
    - pose proof (SA_val st st' _ H Hk) as Hv. cbn [val_alias] in Hv. rewrite Hv. apply continue_rel; auto.
    - apply continue_rel; auto.
    - apply continue_rel; auto.
    - rstep (IHs st st' H). intros r r' [Hl Hs1]. apply continue_rel; auto.
      rewrite !norm_seg_list, !norm_sels_of. unfold Rsels in Hl. rewrite Hl. reflexivity.
  Qed.

  Lemma int_item_form (st : stream) :
    (let v := tv (s_cur st) in
     if (Nat.ltb 1 (length v) && starts_with_ch 48 v) || starts_with [45; 48]%N v then syntax_error
     else if has_exponent v then syntax_error
     else z <- int_of_text v ;; if index_in_range E z then Ok (SIndex z, st) else Err (EJsonPath KIndex))
    = (z <- int_index_text (tv (s_cur st)) ;; if index_in_range E z then Ok (SIndex z, st) else Err (EJsonPath KIndex)).
  Proof. cbv zeta. unfold int_index_text. destruct (_ || _); [reflexivity|]. destruct (has_exponent _); reflexivity. Qed.

  Lemma sel_item_rel f st st' :
    RP_filter f -> SA st st' -> RR (Qx Rsel) (sel_item E re_ok f st) (sel_item E re_ok f st').
  Proof.
    intros IHf H. unfold sel_item.
    assert (Hsame : forall s, RR (Qx Rsel) (Ok (s, st)) (Ok (s, st'))) by (intros s; split; [reflexivity|exact H]).
    pose proof (SA_cls st st' H) as Hcls. kinds2 st st' Hcls; try reflexivity; try apply Hsame.
    - destruct (decode_rel st st' H ltac:(congruence) (or_intror Hk)) as [Hd Hv]. rewrite Hv, Hd.
      destruct (existsb _ _); [reflexivity|]. destruct (decode_string E (s_cur st')); [apply Hsame|reflexivity].
    - destruct (decode_rel st st' H ltac:(congruence) (or_introl Hk)) as [Hd Hv]. rewrite Hv, Hd.
      destruct (existsb _ _); [reflexivity|]. destruct (decode_string E (s_cur st')); [apply Hsame|reflexivity].
    - exact (parse_slice_rel st st' H Hk).
    - pose proof (SA_val st st' _ H Hk) as Hv. cbn [val_alias] in Hv. rewrite Hv. apply Hsame.
    - pose proof (SA_val st st' _ H Hk) as Hv. cbn [val_alias] in Hv. destruct Hv as [_ Hv].
      rewrite !int_item_form, Hv.
      destruct (int_index_text (tv (s_cur st'))) as [z|]; [|reflexivity]. cbn [bind].
      destruct (index_in_range E z); [apply Hsame|reflexivity].
    - destruct f as [|f']; [reflexivity|]. rstep (IHf st st' H). intros r r' [Hre Hs1].
      split; [|exact Hs1]. cbn [fst]. unfold Rsel, Re in *. rewrite !norm_sel_filter, Hre. reflexivity.
  Qed.

  Lemma items_rel f : RP_filter f -> forall g st st' acc acc',
    SA st st' -> Rsels acc acc' ->
    RR (Qx Rsels) (items_loop E re_ok f g st acc) (items_loop E re_ok f g st' acc').
  Proof.
    intros IHf. induction g as [|g IH]; intros st st' acc acc' H Hacc; [reflexivity|].
    rewrite !items_loop_S. rewrite <- (SA_kind TRBracket st st' H) by discriminate.
    destruct (is_kind TRBracket (s_cur st)).
    { destruct acc as [|a acc0], acc' as [|a' acc0']; try discriminate Hacc; [reflexivity|].
      split; [apply rev_rel; exact Hacc|exact H]. }
    rstep (sel_item_rel f st st' IHf H). intros [sel st1] [sel' st1'] [Hsel Hs1]. cbn [fst snd] in *.
    rstep (peek_rel st1 st1' Hs1). intros [nxt st2] [nxt' st2'] [Hn Hs2]. cbn [fst snd] in *.
    rewrite <- (is_kind_alias TEof nxt nxt' (proj1 Hn)) by discriminate.
    rewrite <- (is_kind_alias TRBracket nxt nxt' (proj1 Hn)) by discriminate.
    rewrite <- (is_kind_alias TComma nxt nxt' (proj1 Hn)) by discriminate.
    destruct (is_kind TEof nxt); [reflexivity|].
    eapply RR_bind with (R := SA).
    { destruct (is_kind TRBracket nxt); [exact Hs2|]. destruct (is_kind TComma nxt); [|reflexivity].
      rstep (next_token_rel st2 st2' Hs2). intros r r' [_ Hs3].
      rstep (peek_rel (snd r) (snd r') Hs3). intros pk2 pk2' [Hn2 Hs4].
      rewrite <- (is_kind_alias TRBracket _ _ (proj1 Hn2)) by discriminate.
      destruct (is_kind TRBracket (fst pk2)); [reflexivity|exact Hs4]. }
    intros st3 st3' Hs3. rstep (next_token_rel st3 st3' Hs3). intros r4 r4' [_ Hs4].
    apply IH; [exact Hs4|]. unfold Rsels, Rsel in *. cbn [map]. rewrite Hsel, Hacc. reflexivity.
  Qed.

  Lemma sellist_step f : RP_filter f -> RP_sellist (S f).
  Proof.
    intros IHf st st' H. rewrite !parse_selector_list_S.
    rstep (next_token_rel st st' H). intros r0 r0' [_ Hs1]. apply items_rel; [exact IHf|exact Hs1|reflexivity].
  Qed.

  Lemma filter_step f : RP_fs f -> RP_filter (S f).
  Proof.
    intros IH st st' H. rewrite !parse_filter_S.
    rstep (next_token_rel st st' H). intros r0 r0' [_ Hs1].
    rstep (IH (snd r0) (snd r0') 1 Hs1). intros r r' [Hre Hs2].
    rewrite (check_uncompared_rel _ _ Hre). destruct (check_uncompared (fst r')); [|reflexivity].
    split; assumption.
  Qed.

  Lemma fs_loop_rel f prec : RP_infix f -> forall g lhs lhs' st st',
    SA st st' -> Re lhs lhs' ->
    RR (Qx Re) (fs_loop E re_ok f prec g lhs st) (fs_loop E re_ok f prec g lhs' st').
  Proof.
    intros IHi. induction g as [|g IH]; intros lhs lhs' st st' H Hl; [reflexivity|].
    rewrite !fs_loop_S. rstep (peek_rel st st' H). intros [nxt st1] [nxt' st1'] [Hn Hs1]. cbn [fst snd] in *.
    rewrite <- (is_kind_alias TEof nxt nxt' (proj1 Hn)) by discriminate.
    rewrite <- (is_kind_alias TRBracket nxt nxt' (proj1 Hn)) by discriminate.
    rewrite <- (prec_alias nxt nxt' (proj1 Hn)), <- (binop_alias nxt nxt' (proj1 Hn)).
    destruct (_ || _); [split; assumption|].
    destruct (binop_of_kind (tk nxt)); [|split; assumption].
    rstep (next_token_rel st1 st1' Hs1). intros r r' [_ Hs2].
    rstep (IHi (snd r) (snd r') lhs lhs' Hs2 Hl). intros r2 r2' [Hre Hs3]. apply IH; assumption.
  Qed.

  Lemma fs_step f : RP_primary f -> RP_infix f -> RP_fs (S f).
  Proof.
    intros IHp IHi st st' prec H. rewrite !parse_filter_selector_S.
    rstep (IHp st st' H). intros l l' [Hre Hs1]. apply fs_loop_rel; assumption.
  Qed.

  Lemma infix_step f : RP_fs f -> RP_infix (S f).
  Proof.
    intros IH st st' lhs lhs' H Hl. rewrite !parse_infix_S.
    rstep (next_token_rel st st' H). intros [optok st1] [optok' st1'] [[Ho Ho'] Hs1]. cbn [fst snd] in *.
    subst optok optok'. rewrite <- (binop_alias _ _ (SA_cls st st' H)), <- (prec_alias _ _ (SA_cls st st' H)).
    destruct (binop_of_kind (tk (s_cur st))) as [o|]; [|reflexivity].
    rstep (IH st1 st1' (precedence_of (tk (s_cur st))) Hs1). intros [rhs st2] [rhs' st2'] [Hr Hs2]. cbn [fst snd] in *.
    rewrite (check_comparable_rel _ _ Hl), (check_comparable_rel _ _ Hr),
            (check_uncompared_rel _ _ Hl), (check_uncompared_rel _ _ Hr).
    match goal with |- RR _ (bind ?c _) _ => destruct c end; [|reflexivity]. cbn [bind].
    match goal with |- RR _ (bind ?c _) _ => destruct c end; [|reflexivity]. cbn [bind].
    split; [|exact Hs2]. cbn [fst]. unfold Re in *. cbn [norm_expr]. rewrite Hl, Hr. reflexivity.
  Qed.

  (* ---- parse_primary ---- *)

  Lemma sub_path_rel f st st' (mk : segs -> fexpr) :
    RP_path f -> SA st st' -> (forall p, norm_expr (mk p) = mk (norm_segs p)) ->
    RR (Qx Re) (sub_path E re_ok f st mk) (sub_path E re_ok f st' mk).
  Proof.
    intros IH H Hmk. unfold sub_path. rstep (next_token_rel st st' H). intros r0 r0' [_ Hs1].
    rstep (IH true (snd r0) (snd r0') [] [] Hs1 eq_refl). intros r r' [Hl Hs2].
    split; [|exact Hs2]. cbn [fst]. unfold Re, Rsegs in *. rewrite !Hmk, !norm_segs_of, Hl. reflexivity.
  Qed.

  Lemma regex_primary_rel st st' :
    SA st st' -> tk (s_cur st) = TRePattern ->
    RR (Qx Re) (regex_primary re_ok st) (regex_primary re_ok st').
  Proof.
    intros H Hk. unfold regex_primary. pose proof (SA_val st st' _ H Hk) as Hv. cbn [val_alias] in Hv.
    rstep (peek_rel st st' H). intros [nxt st1] [nxt' st1'] [Hn Hs1]. cbn [fst snd] in *.
    rewrite <- (is_kind_alias TReFlags nxt nxt' (proj1 Hn)) by discriminate. rewrite <- Hv.
    eapply RR_bind with (R := fun r r' : reflags * stream => fst r = fst r' /\ SA (snd r) (snd r')).
    { destruct (is_kind TReFlags nxt) eqn:Hkn; [|split; [reflexivity|exact Hs1]].
      rstep (next_token_rel st1 st1' Hs1). intros r r' [_ Hs2]. split; [|exact Hs2]. cbn [fst].
      destruct Hn as [_ Hvn]. rewrite (is_kind_eq _ _ Hkn) in Hvn. exact Hvn. }
    intros r r' [Hfl Hs2]. destruct (re_ok (tv (s_cur st))) as [[|]|]; try reflexivity.
    split; [|exact Hs2]. cbn [fst]. unfold Re. rewrite Hfl. reflexivity.
  Qed.

  Lemma grp_loop_rel f : RP_infix f -> forall g e e' st st',
    SA st st' -> Re e e' -> RR (Qx Re) (grp_loop E re_ok f g e st) (grp_loop E re_ok f g e' st').
  Proof.
    intros IHi. induction g as [|g IH]; intros e e' st st' H He; [reflexivity|].
    rewrite !grp_loop_S. rewrite <- (SA_kind TRParen st st' H), <- (SA_kind TEof st st' H) by discriminate.
    rewrite <- (binop_alias _ _ (SA_cls st st' H)).
    destruct (is_kind TRParen (s_cur st)); [split; assumption|].
    destruct (is_kind TEof (s_cur st)); [reflexivity|]. destruct (binop_of_kind _); [|reflexivity].
    rstep (IHi st st' e e' H He). intros r2 r2' [Hre Hs2]. apply IH; assumption.
  Qed.

  Lemma finish_call_rel name acc acc' st st' :
    SA st st' -> Res acc acc' ->
    RR (Qx Re) (finish_call E name acc st) (finish_call E name acc' st').
  Proof.
    intros H Hacc. unfold finish_call. destruct (e_well_typed E).
    - rewrite (validate_function_rel name (rev acc) (rev acc') (rev_rel _ _ _ Hacc)).
      destruct (validate_function name (rev acc')); [|reflexivity]. cbn [bind].
      split; [|exact H]. cbn [fst]. unfold Re. rewrite !norm_expr_func, !norm_exprs_of.
      rewrite (rev_rel _ _ _ Hacc). reflexivity.
    - destruct (fn_sig name); reflexivity.
  Qed.

  Lemma arg_primary_rel f st st' :
    RP_primary f -> SA st st' -> RR (Qx Re) (arg_primary E re_ok f st) (arg_primary E re_ok f st').
  Proof.
    intros IH H. unfold arg_primary. pose proof (SA_cls st st' H) as Hcls.
    kinds2 st st' Hcls; try reflexivity; apply IH; exact H.
  Qed.

  Lemma after_arg_rel pk pk' : Rpeek pk pk' -> RR SA (after_arg pk) (after_arg pk').
  Proof.
    intros [Hn Hs]. unfold after_arg.
    rewrite <- (is_kind_alias TRParen _ _ (proj1 Hn)), <- (is_kind_alias TComma _ _ (proj1 Hn)) by discriminate.
    destruct (is_kind TRParen (fst pk)); [exact Hs|]. destruct (is_kind TComma (fst pk)); [|reflexivity].
    rstep (next_token_rel (snd pk) (snd pk') Hs). intros r r' [_ H]. exact H.
  Qed.

  Lemma args_loop_rel f name : RP_primary f -> RP_infix f -> forall g st st' acc acc',
    SA st st' -> Res acc acc' ->
    RR (Qx Re) (args_loop E re_ok f name g st acc) (args_loop E re_ok f name g st' acc').
  Proof.
    intros IHp IHi. induction g as [|g IH]; intros st st' acc acc' H Hacc; [reflexivity|].
    rewrite !args_loop_S. rewrite <- (SA_kind TRParen st st' H) by discriminate.
    destruct (is_kind TRParen (s_cur st)); [apply finish_call_rel; assumption|].
    rstep (arg_primary_rel f st st' IHp H). intros a a' [Ha Hsa].
    generalize (fst a) (fst a') (snd a) (snd a') Ha Hsa. clear a a' Ha Hsa. generalize f at 2 4. intros h.
    induction h as [|h IHh]; intros e e' s1 s1' He Hs; [reflexivity|].
    rewrite !ops_loop_S. rstep (peek_rel s1 s1' Hs). intros pk pk' Hpk.
    rewrite <- (binop_alias _ _ (proj1 (proj1 Hpk))).
    destruct (binop_of_kind (tk (fst pk))).
    - rstep (next_token_rel (snd pk) (snd pk') (proj2 Hpk)). intros r r' [_ Hs2].
      rstep (IHi (snd r) (snd r') e e' Hs2 He). intros r2 r2' [Hre Hs3]. apply IHh; assumption.
    - rstep (after_arg_rel pk pk' Hpk). intros s2 s2' Hs2.
      rstep (next_token_rel s2 s2' Hs2). intros r3 r3' [_ Hs3].
      apply IH; [exact Hs3|]. unfold Res, Re in *. cbn [map]. rewrite He, Hacc. reflexivity.
  Qed.

  Lemma primary_step f : RP_path f -> RP_fs f -> RP_infix f -> RP_primary f -> RP_primary (S f).
  Proof.
    intros IHpath IHfs IHi IHp st st' H. rewrite !parse_primary_S.
    assert (Hsame : forall e, RR (Qx Re) (Ok (e, st)) (Ok (e, st'))) by (intros e; split; [reflexivity|exact H]).
    pose proof (SA_cls st st' H) as Hcls. kinds2 st st' Hcls; try reflexivity; try apply Hsame;
      try (apply sub_path_rel; [exact IHpath|exact H|reflexivity]).
    - (* TDQ *)
      destruct (decode_rel st st' H ltac:(congruence) (or_intror Hk)) as [-> _].
      destruct (decode_string E (s_cur st')); [apply Hsame|reflexivity].
    - (* TSQ *)
      destruct (decode_rel st st' H ltac:(congruence) (or_introl Hk)) as [-> _].
      destruct (decode_string E (s_cur st')); [apply Hsame|reflexivity].
    - exact (regex_primary_rel st st' H Hk).
    - (* function call *)
      pose proof (SA_val st st' _ H Hk) as Hv. cbn [val_alias] in Hv. rewrite <- Hv.
      rstep (next_token_rel st st' H). intros r0 r0' [_ Hs1].
      apply args_loop_rel; [exact IHp|exact IHi|exact Hs1|reflexivity].
    - pose proof (SA_val st st' _ H Hk) as Hv. cbn [val_alias] in Hv. rewrite Hv.
      destruct (parse_float_literal (tv (s_cur st'))); [apply Hsame|reflexivity].
    - pose proof (SA_val st st' _ H Hk) as Hv. cbn [val_alias] in Hv. rewrite (proj1 Hv).
      destruct (parse_int_literal (tv (s_cur st'))); [apply Hsame|reflexivity].
    - (* list literal *)
      rstep (next_token_rel st st' H). intros r0 r0' [_ Hs1].
      rstep (parse_list_items_rel f (snd r0) (snd r0') [] Hs1). intros r r' [Hl Hs2].
      split; [|exact Hs2]. cbn [fst]. rewrite Hl. reflexivity.
    - (* ! *)
      rstep (next_token_rel st st' H). intros r0 r0' [_ Hs1].
      rstep (IHfs (snd r0) (snd r0') 7 Hs1). intros r r' [Hre Hs2].
      rewrite (check_uncompared_rel _ _ Hre). destruct (check_uncompared (fst r')); [|reflexivity].
      split; [|exact Hs2]. cbn [fst bind]. unfold Re in *. cbn [norm_expr]. rewrite Hre. reflexivity.
    - (* ( *)
      rstep (next_token_rel st st' H). intros r0 r0' [_ Hs1].
      rstep (IHfs (snd r0) (snd r0') 1 Hs1). intros r r' [Hre Hs2].
      rstep (next_token_rel (snd r) (snd r') Hs2). intros r1 r1' [_ Hs3].
      apply grp_loop_rel; assumption.
  Qed.

  Definition RPS (f : nat) : Prop :=
    RP_path f /\ RP_sellist f /\ RP_filter f /\ RP_fs f /\ RP_infix f /\ RP_primary f.

  Theorem parser_rel f : RPS f.
  Proof.
    induction f as [|f (IHpath & IHsl & IHfilter & IHfs & IHi & IHp)].
    - repeat split; intro; intros; reflexivity.
    - repeat split.
      + apply path_step; assumption.
      + apply sellist_step; assumption.
      + apply filter_step; assumption.
      + apply fs_step; assumption.
      + apply infix_step; assumption.
      + apply primary_step; assumption.
  Qed.

  (* ---- paths, compound queries, compile_tokens ---- *)

  Definition Rpath (p p' : jpath) : Prop := norm_path p = norm_path p'.

  Lemma parse_one_rel fuel st st' :
    SA st st' -> RR (Qx Rpath) (parse_one E re_ok fuel st) (parse_one E re_ok fuel st').
  Proof.
    intros H. unfold parse_one.
    rewrite <- (SA_kind TRoot st st' H), <- (SA_kind TFakeRoot st st' H) by discriminate.
    eapply RR_bind with (R := SA).
    { destruct (_ || _); [|exact H]. rstep (next_token_rel st st' H). intros r r' [_ Hs]. exact Hs. }
    intros st1 st1' Hs1. destruct (parser_rel fuel) as (Hpath & _).
    rstep (Hpath false st1 st1' [] [] Hs1 eq_refl). intros r r' [Hl Hs2]. cbv zeta.
    rewrite <- (SA_kind TEof _ _ Hs2), <- (SA_kind TIntersect _ _ Hs2), <- (SA_kind TUnion _ _ Hs2) by discriminate.
    destruct (_ || _); [|reflexivity]. split; [|exact Hs2]. cbn [fst].
    unfold Rpath, norm_path, Rsegs in *. cbn [p_fake p_segs]. rewrite !norm_segs_of, Hl. reflexivity.
  Qed.

  Definition Rrest (l l' : list (setop * jpath)) : Prop :=
    map (fun op => (fst op, norm_path (snd op))) l = map (fun op => (fst op, norm_path (snd op))) l'.

  Lemma compile_rest_rel pfuel : forall fuel st st' acc acc',
    SA st st' -> Rrest acc acc' ->
    RR Rrest (compile_rest E re_ok fuel pfuel st acc) (compile_rest E re_ok fuel pfuel st' acc').
  Proof.
    induction fuel as [|fuel IH]; intros st st' acc acc' H Hacc; [reflexivity|].
    cbn [compile_rest]. rewrite <- (SA_kind TEof st st' H) by discriminate.
    destruct (is_kind TEof (s_cur st)); [exact (rev_rel _ _ _ Hacc)|].
    rstep (peek_rel st st' H). intros pk pk' [Hn Hs1].
    rewrite <- (is_kind_alias TEof _ _ (proj1 Hn)) by discriminate.
    destruct (is_kind TEof (fst pk)); [reflexivity|]. cbv zeta.
    rewrite <- (SA_kind TUnion _ _ Hs1), <- (SA_kind TIntersect _ _ Hs1) by discriminate.
    destruct (is_kind TUnion (s_cur (snd pk))).
    { rstep (next_token_rel (snd pk) (snd pk') Hs1). intros r r' [_ Hs2].
      rstep (parse_one_rel pfuel (snd r) (snd r') Hs2). intros p p' [Hp Hs3].
      apply IH; [exact Hs3|]. unfold Rrest, Rpath in *. cbn [map fst snd]. rewrite Hp, Hacc. reflexivity. }
    destruct (is_kind TIntersect (s_cur (snd pk))); [|reflexivity].
    rstep (next_token_rel (snd pk) (snd pk') Hs1). intros r r' [_ Hs2].
    rstep (parse_one_rel pfuel (snd r) (snd r') Hs2). intros p p' [Hp Hs3].
    apply IH; [exact Hs3|]. unfold Rrest, Rpath in *. cbn [map fst snd]. rewrite Hp, Hacc. reflexivity.
  Qed.

  Theorem compile_tokens_rel ts ts' :
    alias ts ts' ->
    RR (fun q q' => norm_query q = norm_query q') (compile_tokens E re_ok ts) (compile_tokens E re_ok ts').
  Proof.
    intros Ha. unfold compile_tokens. cbv zeta. unfold init_stream.
    assert (Hlen : length ts = length ts') by (induction Ha; cbn [length]; congruence).
    rewrite <- Hlen.
    assert (Hinit : SA (mkStream (mkTok TIllegal []) [] ts) (mkStream (mkTok TIllegal []) [] ts')).
    { split; [apply tok_alias_refl|split; [constructor|exact Ha]]. }
    rstep (advance_rel _ _ Hinit). intros st st' Hs.
    rstep (parse_one_rel (4 * length ts + 16) st st' Hs). intros p p' [Hp Hs1].
    rstep (compile_rest_rel (4 * length ts + 16) (S (length ts)) (snd p) (snd p') [] [] Hs1 eq_refl).
    intros rest rest' Hrest. cbn [RR]. unfold norm_query. cbn [q_first q_rest].
    unfold Rpath in Hp. unfold Rrest in Hrest. rewrite Hp, Hrest. reflexivity.
  Qed.
End Rel.

(* ---- the statement ------------------------------------------------------------------------------ *)

Theorem alias_compile :
  forall (E : env) re_ok (ts ts' : list token),
    in_range (e_min_index E) (e_max_index E) 1%Z = true ->
    alias ts ts' ->
    match compile_tokens E re_ok ts, compile_tokens E re_ok ts' with
    | Ok q, Ok q' => norm_query q = norm_query q'
    | Err e, Err e' => e = e'
    | _, _ => False
    end.
Proof. intros E re_ok ts ts' H1 Ha. exact (compile_tokens_rel E re_ok H1 ts ts' Ha). Qed.

(* ---- which spellings are aliases --------------------------------------------------------------- *)

(* a kind whose value the parser never reads: any two values *)
Definition value_free (k : tkind) : bool :=
  match k with
  | TSQ | TDQ | TProperty | TBare | TFunction | TRePattern | TReFlags | TInt | TFloat
  | TSliceStart | TSliceStop | TSliceStep => false
  | _ => true
  end.

Lemma value_free_alias k v v' : value_free k = true -> tok_alias (mkTok k v) (mkTok k v').
Proof. intros H. split; [reflexivity|]. destruct k; try discriminate H; exact I. Qed.

Lemma undefined_missing_alias v v' : tok_alias (mkTok TUndefined v) (mkTok TMissing v').
Proof. split; [reflexivity|exact I]. Qed.

Lemma step_omitted_alias : tok_alias (mkTok TSliceStep []) (mkTok TSliceStep [49%N]).
Proof. split; [reflexivity|]. vm_compute. reflexivity. Qed.

Example word_operators :
  tok_alias (mkTok TAnd [97; 110; 100]%N) (mkTok TAnd [38; 38]%N) /\
  tok_alias (mkTok TOr [111; 114]%N) (mkTok TOr [124; 124]%N) /\
  tok_alias (mkTok TNot [110; 111; 116]%N) (mkTok TNot [33]%N) /\
  tok_alias (mkTok TTrue [84; 114; 117; 101]%N) (mkTok TTrue [116; 114; 117; 101]%N) /\
  tok_alias (mkTok TNil [78; 111; 110; 101]%N) (mkTok TNil [110; 117; 108; 108]%N).
Proof. repeat split. Qed.

(* 1.50 ~ 1.5 ,  1.5e1 ~ 15.0 *)
Example float_spellings :
  tok_alias (mkTok TFloat [49; 46; 53; 48]%N) (mkTok TFloat [49; 46; 53]%N) /\
  tok_alias (mkTok TFloat [49; 46; 53; 101; 49]%N) (mkTok TFloat [49; 53; 46; 48]%N).
Proof. split; (split; [reflexivity|vm_compute; reflexivity]). Qed.

(* an integer with an exponent reads as the same literal (1e2 = 100) but is NOT an alias of the
   plain integer: as a bracketed index the exponent form is a syntax error *)
Example int_exponent_literal_only :
  parse_int_literal [49; 101; 50]%N = parse_int_literal [49; 48; 48]%N /\
  int_index_text [49; 101; 50]%N = syntax_error /\ int_index_text [49; 48; 48]%N = Ok 100%Z.
Proof. vm_compute. repeat split; reflexivity. Qed.
