(* LexShapes.v — more shapes of lexer-produced tokens: a regular-expression pattern token is
   non-empty with no '/' after its first character, a function token has the shape
   [a-z][a-z_0-9]+ (what spec/Printable.v calls regex_ok / fname_ok). *)
From Coq Require Import ZArith NArith List Bool Lia.
From JP Require Import Base Json PyStr PyJsonStr Syntax Gen_unicode Lex Parse Serialize Printable.
From JP Require Import PyStrLemmas ParseSpec LexProofs.
Import ListNotations.

Definition tok_ok2 (t : token) : Prop :=
  match tk t with
  | TRePattern => regex_ok (tv t) = true
  | TFunction => fname_ok (tv t) = true
  | _ => True
  end.

Lemma until_slash_noslash s p r : until_slash s = Some (p, r) -> contains_ch 47 p = false.
Proof.
  revert p r. induction s as [|c s IH]; intros p r H; [discriminate H|]. cbn [until_slash] in H.
  destruct (N.eqb c 47) eqn:Hc; [injection H as <- _; reflexivity|].
  destruct (until_slash s) as [[a r']|]; [|discriminate H]. injection H as <- _.
  rewrite contains_ch_cons, (N.eqb_sym 47 c), Hc. exact (IH a r' eq_refl).
Qed.

Lemma match_regex_ok s p fl r : match_regex s = Some (p, fl, r) -> regex_ok p = true.
Proof.
  unfold match_regex. intros H. split_matches H; try discriminate H.
  match goal with Hu : until_slash _ = Some _ |- _ => pose proof (until_slash_noslash _ _ _ Hu) as Hn end.
  injection H as <- _ _. cbn [regex_ok]. rewrite Hn. reflexivity.
Qed.

Lemma match_function_ok s n r : match_function s = Some (n, r) -> fname_ok n = true.
Proof.
  unfold match_function. intros H. destruct s as [|c s']; [discriminate H|].
  destruct (is_lower c) eqn:Hc; [|discriminate H].
  destruct (span fn_rest s') as [a r0] eqn:Hs. pose proof (span_forall _ _ _ _ Hs) as Ha.
  destruct a as [|a0 a']; [discriminate H|]. split_matches H; try discriminate H.
  injection H as <- _. cbn [fname_ok]. rewrite Hc. exact Ha.
Qed.

Definition step_ok2 (st : lex_step) : Prop :=
  match st with LTok ts _ => Forall tok_ok2 ts | LIllegal _ => True end.

Ltac simple_alt2 :=
  let x := fresh "x" in let Hx := fresh "Hx" in
  intros x Hx; split_matches Hx; try discriminate Hx; injection Hx as <-;
  cbn [step_ok2]; repeat (apply Forall_cons; [exact I|]); apply Forall_nil.

Lemma step1_ok2 E s : step_ok2 (step1 E s).
Proof.
  unfold step1. destruct s as [|c s']; [apply Forall_nil|]. cbv zeta.
  match goal with |- context [first_some ?l] => destruct (first_some l) as [st|] eqn:Hfs end; [|exact I].
  revert st Hfs. apply first_some_P.
  repeat apply Forall_cons; try apply Forall_nil; try solve [simple_alt2].
  - (* RE_PATTERN *)
    intros x Hx. destruct (match_regex (c :: s')) as [[[p fl] r]|] eqn:Hm; [|discriminate Hx].
    injection Hx as <-. cbn [step_ok2]. apply Forall_cons; [exact (match_regex_ok _ _ _ _ Hm)|].
    apply Forall_cons; [exact I|apply Forall_nil].
  - (* FUNCTION *)
    intros x Hx. destruct (match_function (c :: s')) as [[n r]|] eqn:Hm; [|discriminate Hx].
    injection Hx as <-. cbn [step_ok2]. apply Forall_cons; [exact (match_function_ok _ _ _ Hm)|apply Forall_nil].
  - (* environment tokens *)
    intros x Hx. destruct (match_env (env_tokens E) (c :: s')) as [[[k t] r]|] eqn:Hm; [|discriminate Hx].
    injection Hx as <-. apply (match_env_kind _ _ _ _ _ (env_tokens_kinds E)) in Hm.
    cbn [step_ok2]. apply Forall_cons; [|apply Forall_nil].
    destruct k; try discriminate Hm; exact I.
Qed.

Lemma tokenize_fuel_ok2 E : forall fuel s, Forall tok_ok2 (tokenize_fuel fuel E s).
Proof.
  induction fuel as [|f IH]; intros s; [apply Forall_nil|].
  cbn [tokenize_fuel]. destruct s as [|c s']; [apply Forall_nil|].
  pose proof (step1_ok2 E (c :: s')) as Hs.
  destruct (step1 E (c :: s')) as [ts rest|c0].
  - destruct (Nat.ltb (length rest) (length (c :: s'))).
    + apply Forall_app. split; [exact Hs|apply IH].
    + apply Forall_cons; [exact I|apply Forall_nil].
  - apply Forall_cons; [exact I|apply Forall_nil].
Qed.

Theorem tokenize_ok2 E s : Forall tok_ok2 (tokenize E s).
Proof. apply tokenize_fuel_ok2. Qed.
