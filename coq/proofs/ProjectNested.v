(* ProjectNested.v — C19 on a wider domain: selections may be repeated, and a node may be
   selected whole AFTER some of its descendants were selected (the later whole-node selection
   overwrites what the earlier ones built, with the same values).  The only order excluded is a
   descendant selected after its ancestor was selected whole: there model/Project.v answers
   EUnsupported (see [patch_all_whole_then_descendant] at the end). *)
From Coq Require Import Sorting.Sorted Sorting.Permutation.
From JP Require Import Base Json Syntax Eval Project ProjectSpec PatchCompose ProjectProofs.

(* ---------------------------------------------------------------------- *)
(* The domain. *)

Definition strict_prefix (a b : loc) : bool := is_prefix_loc a b && Nat.ltb (length a) (length b).

(* no selection is a proper descendant of an EARLIER selection *)
Fixpoint ancestors_last (sels : list loc) : bool :=
  match sels with
  | [] => true
  | l :: rest => forallb (fun l' => negb (strict_prefix l l')) rest && ancestors_last rest
  end.

Definition selections_nested_ok (sels : list loc) : bool :=
  forallb (fun l => match l with [] => false | _ => true end) sels && ancestors_last sels && ascending sels.

Lemma ancestors_last_cons l ls :
  ancestors_last (l :: ls) = true <->
  (forall l', In l' ls -> strict_prefix l l' = false) /\ ancestors_last ls = true.
Proof.
  cbn [ancestors_last]. rewrite andb_true_iff, forallb_forall. split.
  - intros [H1 H2]. split; auto. intros l' Hin. apply negb_true_iff. auto.
  - intros [H1 H2]. split; auto. intros l' Hin. apply negb_true_iff. auto.
Qed.

Lemma ancestors_last_app a b :
  ancestors_last (a ++ b) = true ->
  ancestors_last a = true /\ ancestors_last b = true /\
  forall x y, In x a -> In y b -> strict_prefix x y = false.
Proof.
  induction a as [|l a IH]; intros H.
  - repeat split; auto; contradiction.
  - cbn [app] in H. apply ancestors_last_cons in H as [H1 H2]. destruct (IH H2) as [Ha [Hb Hab]].
    split; [|split; [exact Hb|]].
    + apply ancestors_last_cons. split; auto. intros l' Hin. apply H1. apply in_or_app. auto.
    + intros x y Hx Hy. destruct Hx as [<-|Hx]; [apply H1; apply in_or_app; auto | apply Hab; auto].
Qed.

Lemma strict_prefix_cons p a b : strict_prefix (p :: a) (p :: b) = strict_prefix a b.
Proof. unfold strict_prefix. cbn [is_prefix_loc length]. rewrite part_eqb_refl. reflexivity. Qed.

Lemma ancestors_last_tails p ls : ancestors_last ls = true -> ancestors_last (tails_under p ls) = true.
Proof.
  induction ls as [|l ls IH]; intros H; [reflexivity|].
  apply ancestors_last_cons in H as [H1 H2]. rewrite tails_under_cons.
  destruct l as [|q r]; [exact (IH H2)|]. destruct (part_eqb p q) eqn:E; [|exact (IH H2)].
  apply part_eqb_spec in E. subst q. cbn [app]. apply ancestors_last_cons. split; [|exact (IH H2)].
  intros r' Hin. apply in_tails_under in Hin. rewrite <- (strict_prefix_cons p). apply H1. exact Hin.
Qed.

(* non-nested selections are a special case *)
Lemma non_nested_ancestors_last ls : non_nested ls = true -> ancestors_last ls = true.
Proof.
  induction ls as [|l ls IH]; intros H; [reflexivity|].
  apply non_nested_cons in H as [H1 H2]. apply ancestors_last_cons. split; auto.
  intros l' Hin. destruct (H1 l' Hin) as [Ha _]. unfold strict_prefix. rewrite Ha. reflexivity.
Qed.

Lemma selections_ok_nested_ok ls : selections_ok ls = true -> selections_nested_ok ls = true.
Proof.
  unfold selections_ok, selections_nested_ok. intros H. apply andb_true_iff in H as [H Ha].
  apply andb_true_iff in H as [Hn Hnn]. rewrite Hn, Ha, (non_nested_ancestors_last _ Hnn). reflexivity.
Qed.

(* ---------------------------------------------------------------------- *)
(* The tree patch_all builds: as in ProjectProofs, but a part that is itself selected ends up as
   a leaf holding the value of its LAST whole selection. *)

Fixpoint last_empty (g : pairs) : option json :=
  match g with
  | [] => None
  | (l, x) :: g' =>
      match last_empty g' with
      | Some y => Some y
      | None => match l with [] => Some x | _ => None end
      end
  end.

Lemma last_empty_none g : last_empty g = None <-> find_empty g = None.
Proof.
  induction g as [|[l x] g IH]; [split; auto|]. cbn [last_empty find_empty].
  destruct l as [|q r].
  - split; [|discriminate]. destruct (last_empty g); discriminate.
  - destruct (last_empty g); [split; [discriminate|]; intros H; apply IH in H; discriminate|]. exact IH.
Qed.

Lemma last_empty_some g x : last_empty g = Some x -> In ([], x) g.
Proof.
  induction g as [|[l y] g IH]; cbn [last_empty]; [discriminate|].
  destruct (last_empty g) as [z|].
  - intros H. injection H as ->. right. auto.
  - destruct l; [|discriminate]. intros H. injection H as ->. left. reflexivity.
Qed.

Lemma last_empty_snoc_empty g x : last_empty (g ++ [([], x)]) = Some x.
Proof. induction g as [|[l y] g IH]; [reflexivity|]. cbn [app last_empty]. rewrite IH. reflexivity. Qed.

Lemma last_empty_snoc_cons g q r x : last_empty (g ++ [(q :: r, x)]) = last_empty g.
Proof. induction g as [|[l y] g IH]; [reflexivity|]. cbn [app last_empty]. rewrite IH. reflexivity. Qed.

Definition slot_n (h : pairs) : ptree :=
  match last_empty h with
  | Some x => PLeaf x
  | None => match patch_all h [] with Ok o => PNode o | Err _ => PNode [] end
  end.

Definition expected_n (g : pairs) : list (part * ptree) :=
  map (fun p => (p, slot_n (group p g))) (first_keys g).

Lemma patch_all_expected_n n : forall g,
  find_empty g = None -> Forall (fun lx => length (fst lx) <= n) g ->
  ancestors_last (map fst g) = true ->
  patch_all g [] = Ok (expected_n g).
Proof.
  induction n as [|n IHn]; intros g.
  - intros Hne Hlen _. destruct g as [|[l x] g]; [reflexivity|]. exfalso.
    apply find_empty_none in Hne. apply Forall_cons_iff in Hne as [Hne _].
    apply Forall_cons_iff in Hlen as [Hlen _]. cbn [fst] in *. destruct l; [congruence|cbn in Hlen; lia].
  - induction g as [|[l x] g0 IHg] using rev_ind; intros Hne Hlen Hnn; [reflexivity|].
    pose proof Hne as Hne'. apply find_empty_none in Hne'. apply Forall_app in Hne' as [Hne0 Hnel].
    apply Forall_cons_iff in Hnel as [Hnel _]. cbn [fst] in Hnel.
    apply Forall_app in Hlen as [Hlen0 Hlenl]. apply Forall_cons_iff in Hlenl as [Hlenl _].
    cbn [fst] in Hlenl.
    rewrite map_app in Hnn. cbn [map fst] in Hnn.
    destruct (ancestors_last_app _ _ Hnn) as [Hnn0 [_ Hap]].
    assert (Hne0' : find_empty g0 = None) by (apply find_empty_none; exact Hne0).
    specialize (IHg Hne0' Hlen0 Hnn0).
    rewrite patch_all_app, IHg. cbn [bind]. rewrite patch_all_single.
    destruct l as [|p rest]; [congruence|]. clear Hnel.
    assert (Hgrp : forall q, group q (g0 ++ [(p :: rest, x)]) =
                             group q g0 ++ (if part_eqb q p then [(rest, x)] else [])).
    { intros q. rewrite group_app, group_single. reflexivity. }
    assert (Hgq : forall q, q <> p -> group q (g0 ++ [(p :: rest, x)]) = group q g0).
    { intros q Hq. rewrite Hgrp. apply part_eqb_neq in Hq. rewrite Hq. apply app_nil_r. }
    assert (Hsub : forall h, (forall r y, In (r, y) h -> In (p :: r, y) (g0 ++ [(p :: rest, x)])) ->
                             find_empty h = None -> ancestors_last (map fst h) = true ->
                             patch_all h [] = Ok (expected_n h)).
    { intros h Hin Hfeh Hnnh. apply IHn; auto. apply Forall_forall. intros [r y] Hry. cbn [fst].
      specialize (Hin r y Hry).
      assert (Hl : Forall (fun lx => length (fst lx) <= S n) (g0 ++ [(p :: rest, x)])).
      { apply Forall_app. split; auto. }
      rewrite Forall_forall in Hl. specialize (Hl _ Hin). cbn in Hl. lia. }
    assert (Hnng : forall q, ancestors_last (map fst (group q (g0 ++ [(p :: rest, x)]))) = true).
    { intros q. rewrite map_fst_group. apply ancestors_last_tails. rewrite map_app. exact Hnn. }
    assert (Hnng0 : ancestors_last (map fst (group p g0)) = true).
    { rewrite map_fst_group. apply ancestors_last_tails. exact Hnn0. }
    unfold expected_n at 2. rewrite first_keys_snoc.
    destruct rest as [|r1 rest'].
    + (* the part itself is selected: a leaf, new or overwriting whatever was built under p *)
      cbn [patch_obj].
      assert (Hslot : slot_n (group p (g0 ++ [([p], x)])) = PLeaf x).
      { unfold slot_n. rewrite Hgrp, part_eqb_refl, last_empty_snoc_empty. reflexivity. }
      destruct (pmem p (first_keys g0)) eqn:Hm.
      * unfold expected_n at 1. apply f_equal.
        apply pt_set_map_old.
        -- apply first_keys_NoDup.
        -- apply pmem_In. exact Hm.
        -- exact Hslot.
        -- intros q Hq. rewrite Hgq; auto.
      * apply pmem_not_In in Hm as Hnew. unfold expected_n at 1. rewrite pt_set_map_new by exact Hnew.
        rewrite map_app. cbn [map]. apply f_equal.
        apply (f_equal2 (@app _)); [|exact (f_equal (fun t => [(p, t)]) (eq_sym Hslot))].
        apply map_ext_in. intros q Hq. rewrite Hgq; auto. intros ->. contradiction.
    + (* a longer location: walk or create the node under p; p was not selected whole before *)
      assert (Hfe : last_empty (group p g0) = None).
      { destruct (last_empty (group p g0)) as [y|] eqn:Ef; auto. exfalso.
        apply last_empty_some in Ef. apply in_group in Ef.
        assert (Hc : strict_prefix [p] (p :: r1 :: rest') = false).
        { apply Hap; [apply in_map_iff; exists ([p], y); auto|left; reflexivity]. }
        unfold strict_prefix in Hc. cbn in Hc. rewrite part_eqb_refl in Hc. discriminate. }
      assert (Hfe0 : find_empty (group p g0) = None) by (apply last_empty_none; exact Hfe).
      assert (Hp0 : patch_all (group p g0) [] = Ok (expected_n (group p g0))).
      { apply Hsub; auto. intros r y Hry. apply in_or_app. left. apply in_group. exact Hry. }
      assert (Hfe1 : last_empty (group p (g0 ++ [(p :: r1 :: rest', x)])) = None).
      { rewrite Hgrp, part_eqb_refl, last_empty_snoc_cons. exact Hfe. }
      assert (Hp1 : patch_all (group p (g0 ++ [(p :: r1 :: rest', x)])) [] =
                    Ok (expected_n (group p (g0 ++ [(p :: r1 :: rest', x)])))).
      { apply Hsub; auto; [intros r y Hry; apply in_group; exact Hry|apply last_empty_none; exact Hfe1]. }
      assert (Hstep : patch_obj (r1 :: rest') (expected_n (group p g0)) x =
                      Ok (expected_n (group p (g0 ++ [(p :: r1 :: rest', x)])))).
      { rewrite <- Hp1. rewrite Hgrp, part_eqb_refl. rewrite patch_all_app, Hp0. cbn [bind].
        apply eq_sym, patch_all_single. }
      assert (Hslot : slot_n (group p (g0 ++ [(p :: r1 :: rest', x)])) =
                      PNode (expected_n (group p (g0 ++ [(p :: r1 :: rest', x)])))).
      { unfold slot_n. rewrite Hfe1, Hp1. reflexivity. }
      change (patch_obj (p :: r1 :: rest') (expected_n g0) x) with
        (match pt_lookup p (expected_n g0) with
         | None => sub <- patch_obj (r1 :: rest') [] x ;; Ok (pt_set (expected_n g0) p (PNode sub))
         | Some (PNode ms) => sub <- patch_obj (r1 :: rest') ms x ;; Ok (pt_set (expected_n g0) p (PNode sub))
         | Some (PLeaf d) => d' <- patch_value (r1 :: rest') d x ;; Ok (pt_set (expected_n g0) p (PLeaf d'))
         end).
      unfold expected_n at 1. rewrite pt_lookup_map.
      destruct (pmem p (first_keys g0)) eqn:Hm.
      * unfold slot_n at 1. rewrite Hfe, Hp0. rewrite Hstep. cbn [bind]. f_equal.
        unfold expected_n at 1.
        apply pt_set_map_old.
        -- apply first_keys_NoDup.
        -- apply pmem_In. exact Hm.
        -- exact Hslot.
        -- intros q Hq. rewrite Hgq; auto.
      * apply pmem_not_In in Hm as Hnew. apply group_nil_iff in Hnew as Hg0.
        rewrite Hg0 in Hstep. change (expected_n []) with (@nil (part * ptree)) in Hstep.
        rewrite Hstep. cbn [bind]. f_equal.
        unfold expected_n at 1. rewrite pt_set_map_new by exact Hnew.
        rewrite map_app. cbn [map].
        apply (f_equal2 (@app _)); [|exact (f_equal (fun t => [(p, t)]) (eq_sym Hslot))].
        apply map_ext_in. intros q Hq. rewrite Hgq; auto. intros ->. contradiction.
Qed.

(* ---------------------------------------------------------------------- *)
(* The value of the built tree is json_eq to the specification's tree. *)

Lemma patch_all_ok_n g :
  find_empty g = None -> ancestors_last (map fst g) = true -> patch_all g [] = Ok (expected_n g).
Proof.
  intros Hfe Hnn. apply (patch_all_expected_n (list_max (map (fun lx => length (fst lx)) g))); auto.
  apply Forall_forall. intros lx Hin.
  pose proof (proj1 (list_max_le (map (fun lx => length (fst lx)) g) _) (Nat.le_refl _)) as H.
  rewrite Forall_forall in H. apply H. apply in_map_iff. exists lx. auto.
Qed.

Lemma slot_n_node g :
  find_empty g = None -> ancestors_last (map fst g) = true -> slot_n g = PNode (expected_n g).
Proof.
  intros Hfe Hnn. unfold slot_n. rewrite (proj2 (last_empty_none g) Hfe), (patch_all_ok_n g Hfe Hnn). reflexivity.
Qed.

Lemma child_facts_n v g p c :
  wf_json v = true -> plocated v g ->
  ancestors_last (map fst g) = true -> ascending (map fst g) = true ->
  In p (first_keys g) -> step v p = Some c ->
  wf_json c = true /\ plocated c (group p g) /\ group p g <> [] /\
  ancestors_last (map fst (group p g)) = true /\ ascending (map fst (group p g)) = true.
Proof.
  intros Hwf Hloc Hnn Hasc Hin Hs. repeat split.
  - eapply wf_step; eauto.
  - eapply plocated_group; eauto.
  - intros E. apply group_nil_iff in E. contradiction.
  - rewrite map_fst_group. apply ancestors_last_tails. exact Hnn.
  - rewrite map_fst_group. apply ascending_tails. exact Hasc.
Qed.

Lemma project_slot_n v : forall g,
  wf_json v = true -> plocated v g -> g <> [] ->
  ancestors_last (map fst g) = true -> ascending (map fst g) = true ->
  exists t, project_tree v (map fst g) = Some t /\ json_eq (fix_sparse (slot_n g)) t = true.
Proof.
  induction v as [| b | n | s | xs IH | ms IH] using json_ind'; intros g Hwf Hloc Hne Hnn Hasc.
  all: destruct (find_empty g) as [x0|] eqn:Hfe.
  (* a selected node keeps its whole value *)
  all: try (pose proof (Hloc _ _ (find_empty_some _ _ Hfe)) as Hx; simpl in Hx; injection Hx as <-;
            eexists; split; [apply project_tree_here; eapply selected_here_some; eauto|];
            unfold slot_n; destruct (last_empty g) as [y|] eqn:Hle;
              [pose proof (Hloc _ _ (last_empty_some _ _ Hle)) as Hy; simpl in Hy; injection Hy as <-;
               cbn [fix_sparse]; apply json_eq_refl; exact Hwf
              |apply last_empty_none in Hle; congruence]).
  (* nothing is selected below a scalar *)
  all: try (exfalso; destruct g as [|[l x] g]; [congruence|]; cbn [find_empty] in Hfe;
            destruct l as [|p r]; [discriminate|]; specialize (Hloc _ _ (or_introl eq_refl));
            destruct p; simpl in Hloc; discriminate).
  - (* array *)
    rewrite (slot_n_node g Hfe Hnn).
    pose proof (first_keys_nonempty g Hne Hfe) as Hkne.
    destruct (first_keys_sorted g) as [ks [Ek Hs]]; auto.
    { intros l x Hin. pose proof (Hloc _ _ Hin) as Hl.
      apply find_empty_none in Hfe. rewrite Forall_forall in Hfe. specialize (Hfe _ Hin). cbn [fst] in Hfe.
      destruct l as [|p r]; [congruence|]. destruct p as [k|i]; [simpl in Hl; discriminate|]. eauto. }
    set (F := fun i => fix_sparse (slot_n (group (PIdx i) g))).
    assert (HF : Forall2 (fun a b => json_eq a b = true) (map F ks) (kept_arr (map fst g) xs 0)).
    { apply kept_arr_merge; auto.
      - intros i Hi. assert (Hin : In (PIdx i) (first_keys g)) by (rewrite Ek; apply in_map; exact Hi).
        destruct (key_step _ _ _ Hloc Hin) as [c Hc]. simpl in Hc. apply nth_opt_In in Hc. lia.
      - intros i _ Hi. rewrite <- map_fst_group.
        assert (Hg : group (PIdx i) g = []); [|rewrite Hg; reflexivity].
        apply group_nil_iff. rewrite Ek. intros Hin. apply in_map_iff in Hin as [j [Ej Hj]].
        injection Ej as ->. contradiction.
      - intros i c Hi Hn. rewrite Nat.sub_0_r in Hn.
        assert (Hin : In (PIdx i) (first_keys g)) by (rewrite Ek; apply in_map; exact Hi).
        destruct (child_facts_n _ g (PIdx i) c Hwf Hloc Hnn Hasc Hin Hn) as [Hwc [Hlc [Hgc [Hnc Hac]]]].
        rewrite Forall_forall in IH. destruct (nth_opt_In _ _ _ Hn) as [Hcin _].
        destruct (IH c Hcin _ Hwc Hlc Hgc Hnc Hac) as [t [Hp Ht]].
        rewrite map_fst_group in Hp. split; [|exists t; split; auto].
        rewrite <- map_fst_group. intros E. apply map_eq_nil in E. contradiction. }
    rewrite project_tree_arr, (selected_here_none g Hfe).
    destruct ks as [|k ks']; [rewrite Ek in Hkne; contradiction|].
    rewrite fix_sparse_node. unfold expected_n. rewrite Ek. cbn [map]. rewrite !map_map. cbn [snd].
    inversion HF as [|a b la lb Hab Hrest Ea Eb]. subst.
    eexists. split; [reflexivity|]. apply json_eq_arr.
    constructor; auto.
  - (* object *)
    rewrite (slot_n_node g Hfe Hnn).
    pose proof (first_keys_nonempty g Hne Hfe) as Hkne.
    apply wf_obj in Hwf as Hwo. destruct Hwo as [Hkd _]. apply keys_distinct_NoDup in Hkd.
    assert (Hkeys : forall p, In p (first_keys g) -> exists k c, p = PKey k /\ lookup k ms = Some c).
    { intros p Hin. destruct (key_step _ _ _ Hloc Hin) as [c Hc].
      destruct p as [k|i]; simpl in Hc; [eauto|discriminate]. }
    assert (Hmem : forall k c, In (PKey k) (first_keys g) -> lookup k ms = Some c ->
                   tails_under (PKey k) (map fst g) <> [] /\
                   exists t, project_tree c (tails_under (PKey k) (map fst g)) = Some t /\
                             json_eq (fix_sparse (slot_n (group (PKey k) g))) t = true).
    { intros k c Hin Hl.
      destruct (child_facts_n _ g (PKey k) c Hwf Hloc Hnn Hasc Hin Hl) as [Hwc [Hlc [Hgc [Hnc Hac]]]].
      rewrite Forall_forall in IH. specialize (IH (k, c) (lookup_In _ _ _ Hl)). cbn [snd] in IH.
      destruct (IH _ Hwc Hlc Hgc Hnc Hac) as [t [Hp Ht]].
      rewrite map_fst_group in Hp. split; [|exists t; split; auto].
      rewrite <- map_fst_group. intros E. apply map_eq_nil in E. contradiction. }
    set (kept := kept_obj (map fst g) ms).
    assert (Hlen : length (first_keys g) = length kept).
    { rewrite <- (map_length pname (first_keys g)), <- (map_length fst kept).
      apply Permutation_length. apply NoDup_Permutation.
      - apply pname_NoDup; [|apply first_keys_NoDup]. apply Forall_forall. intros p Hin.
        destruct (Hkeys p Hin) as [k [c [-> _]]]. exact I.
      - apply kept_obj_NoDup. exact Hkd.
      - intros k. split.
        + intros Hin. apply in_map_iff in Hin as [p [<- Hin]].
          destruct (Hkeys p Hin) as [k' [c [-> Hl]]]. cbn [pname].
          destruct (Hmem k' c Hin Hl) as [Hne' [t [Hp _]]].
          eapply lookup_In_fst. eapply kept_obj_lookup; eauto.
        + intros Hin. apply kept_obj_in in Hin as [_ Hne'].
          apply in_map_iff. exists (PKey k). split; [reflexivity|].
          destruct (pmem (PKey k) (first_keys g)) eqn:Hm; [apply pmem_In; exact Hm|].
          exfalso. apply Hne'. apply pmem_not_In in Hm. apply group_nil_iff in Hm.
          rewrite <- map_fst_group, Hm. reflexivity. }
    rewrite project_tree_obj, (selected_here_none g Hfe). fold kept.
    destruct (first_keys g) as [|p0 keys'] eqn:Ek; [contradiction|].
    destruct kept as [|kv kept'] eqn:Ekept; [discriminate|]. rewrite <- Ekept in *.
    eexists. split; [reflexivity|].
    rewrite fix_sparse_node. unfold expected_n. rewrite Ek.
    destruct (Hkeys p0 (or_introl eq_refl)) as [k0 [c0 [-> Hl0]]].
    cbn [map]. rewrite !map_map. cbn [fst snd].
    change ((pname (PKey k0), fix_sparse (slot_n (group (PKey k0) g))) ::
            map (fun x => (pname x, fix_sparse (slot_n (group x g)))) keys')
      with (map (fun x => (pname x, fix_sparse (slot_n (group x g)))) (PKey k0 :: keys')).
    apply json_eq_obj.
    + rewrite map_length. exact Hlen.
    + apply Forall_forall. intros [k u] Hin. apply in_map_iff in Hin as [p [Ep Hin]].
      injection Ep as <- <-. cbn [fst snd].
      destruct (Hkeys p Hin) as [k' [c [-> Hl]]]. cbn [pname].
      destruct (Hmem k' c Hin Hl) as [Hne' [t [Hp Ht]]].
      exists t. split; auto. eapply kept_obj_lookup; eauto.
Qed.

(* ---------------------------------------------------------------------- *)
(* The statements. *)

Lemma project_core_n v (g : pairs) :
  wf_json v = true -> plocated v g ->
  find_empty g = None -> ancestors_last (map fst g) = true -> ascending (map fst g) = true ->
  exists obj, patch_all g [] = Ok obj /\
    match project_tree v (map fst g) with
    | Some t => json_eq (fix_sparse (PNode obj)) t = true
    | None => g = [] /\ fix_sparse (PNode obj) = JObj []
    end.
Proof.
  intros Hwf Hloc Hfe Hnn Hasc. exists (expected_n g). split; [apply patch_all_ok_n; auto|].
  destruct g as [|lx g'] eqn:Eg.
  - cbn [map]. rewrite project_tree_nil. split; reflexivity.
  - rewrite <- Eg in *.
    destruct (project_slot_n v g Hwf Hloc) as [t [Hp Ht]]; auto; [rewrite Eg; discriminate|].
    rewrite Hp. rewrite (slot_n_node g Hfe Hnn) in Ht. exact Ht.
Qed.

Lemma nested_ok_parts ls :
  selections_nested_ok ls = true ->
  Forall (fun l => l <> []) ls /\ ancestors_last ls = true /\ ascending ls = true.
Proof.
  unfold selections_nested_ok. intros H. apply andb_true_iff in H as [H Ha]. apply andb_true_iff in H as [Hn Hnn].
  repeat split; auto. apply Forall_forall. intros l Hin. rewrite forallb_forall in Hn.
  specialize (Hn l Hin). destruct l; [discriminate|discriminate].
Qed.

Theorem relative_nested_gen :
  forall (E : env) rf rs (exprs : list query) (m : jmatch) (sels : list jmatch),
    is_container (m_val m) = true -> wf_json (m_val m) = true ->
    selected E rf rs exprs (m_val m) = Ok sels ->
    located' (m_val m) sels ->
    selections_nested_ok (map m_parts sels) = true ->
    exists j, select_one E rf rs ProjRelative exprs m = Ok (Some j) /\
      match project_tree (m_val m) (map m_parts sels) with
      | Some t => json_eq j t = true
      | None => sels = [] /\ j = JObj []
      end.
Proof.
  intros E rf rs exprs m sels Hc Hwf Hs Hloc Hok.
  apply nested_ok_parts in Hok as [Hne [Hnn Hasc]].
  set (g := map (fun s => (m_parts s, m_val s)) sels : pairs).
  assert (Hfst : map (@fst loc json) g = map m_parts sels).
  { unfold g. rewrite map_map. reflexivity. }
  destruct (project_core_n (m_val m) g) as [obj [Hp Hr]]; auto.
  - intros l x Hin. apply in_map_iff in Hin as [s [Es Hin]]. injection Es as <- <-. apply Hloc. exact Hin.
  - apply find_empty_none. apply Forall_forall. intros lx Hin.
    apply in_map_iff in Hin as [s [<- Hin]]. cbn [fst]. rewrite Forall_forall in Hne. apply Hne.
    apply in_map. exact Hin.
  - rewrite Hfst. exact Hnn.
  - rewrite Hfst. exact Hasc.
  - exists (fix_sparse (PNode obj)). split.
    + unfold select_one. rewrite Hc, Hs. cbn [negb bind]. fold g. rewrite Hp. reflexivity.
    + rewrite Hfst in Hr. destruct (project_tree (m_val m) (map m_parts sels)); auto.
      destruct Hr as [Hg Hj]. split; auto. unfold g in Hg. destruct sels; [reflexivity|discriminate].
Qed.

Lemma strict_prefix_app pre a b : strict_prefix (pre ++ a) (pre ++ b) = strict_prefix a b.
Proof. induction pre as [|p pre IH]; [reflexivity|]. cbn [app]. rewrite strict_prefix_cons. exact IH. Qed.

Lemma ancestors_last_prefix pre ls : ancestors_last (map (fun l => pre ++ l) ls) = ancestors_last ls.
Proof.
  induction ls as [|l ls IH]; [reflexivity|]. cbn [map ancestors_last]. rewrite IH. f_equal.
  apply forallb_map_ext. intros a. rewrite strict_prefix_app. reflexivity.
Qed.

Theorem root_nested_gen :
  forall (E : env) rf rs (exprs : list query) (d : json) (m : jmatch) (sels : list jmatch),
    is_container (m_val m) = true -> wf_json d = true ->
    node_at d (m_parts m) = Some (m_val m) ->
    selected E rf rs exprs (m_val m) = Ok sels ->
    located' (m_val m) sels ->
    selections_nested_ok (map m_parts sels) = true ->
    exists j, select_one E rf rs ProjRoot exprs m = Ok (Some j) /\
      match project_root d (m_parts m) (map m_parts sels) with
      | Some t => json_eq j t = true
      | None => sels = [] /\ j = JObj []
      end.
Proof.
  intros E rf rs exprs d m sels Hc Hwf Hat Hs Hloc Hok.
  apply nested_ok_parts in Hok as [Hne [Hnn Hasc]].
  set (g := map (fun s => (m_parts m ++ m_parts s, m_val s)) sels : pairs).
  assert (Hfst : map (@fst loc json) g = map (fun l => m_parts m ++ l) (map m_parts sels)).
  { unfold g. rewrite !map_map. reflexivity. }
  destruct (project_core_n d g) as [obj [Hp Hr]]; auto.
  - intros l x Hin. apply in_map_iff in Hin as [s [Es Hin]]. injection Es as <- <-.
    rewrite node_at_app, Hat. apply Hloc. exact Hin.
  - apply find_empty_none. apply Forall_forall. intros lx Hin.
    apply in_map_iff in Hin as [s [<- Hin]]. cbn [fst]. rewrite Forall_forall in Hne.
    intros E0. apply app_eq_nil in E0 as [_ E0]. revert E0. apply Hne. apply in_map. exact Hin.
  - rewrite Hfst, ancestors_last_prefix. exact Hnn.
  - rewrite Hfst, ascending_prefix. exact Hasc.
  - exists (fix_sparse (PNode obj)). split.
    + unfold select_one. rewrite Hc, Hs. cbn [negb bind]. fold g. rewrite Hp. reflexivity.
    + unfold project_root. rewrite Hfst in Hr.
      destruct (project_tree d (map (fun l => m_parts m ++ l) (map m_parts sels))); auto.
      destruct Hr as [Hg Hj]. split; auto. unfold g in Hg. destruct sels; [reflexivity|discriminate].
Qed.

(* ---- keys-only selections --------------------------------------------------------- *)


Lemma fda_keys a : forall b, all_keys a = true -> first_diff_ascending a b = true.
Proof.
  induction a as [|p a IH]; intros b Ha; [reflexivity|]. cbn in Ha. apply andb_true_iff in Ha as [Hp Ha].
  destruct p as [k|i]; [|discriminate]. destruct b as [|[k'|j] b]; try reflexivity.
  cbn. destruct (ustr_eqb k k'); auto.
Qed.

Lemma keys_only_ascending ls : keys_only ls = true -> ascending ls = true.
Proof.
  induction ls as [|l ls IH]; intros H; [reflexivity|]. cbn [keys_only forallb] in H.
  apply andb_true_iff in H as [Hl Hls]. cbn [ascending]. rewrite (IH Hls), andb_true_r.
  apply forallb_forall. intros b _. apply fda_keys. destruct l; [discriminate|exact Hl].
Qed.

Lemma keys_only_nested_ok ls :
  keys_only ls = true -> ancestors_last ls = true -> selections_nested_ok ls = true.
Proof.
  intros Hk Ha. unfold selections_nested_ok. rewrite Ha, (keys_only_ascending _ Hk), !andb_true_r.
  unfold keys_only in Hk. apply forallb_forall. intros l Hin. rewrite forallb_forall in Hk.
  specialize (Hk l Hin). destruct l; [discriminate|reflexivity].
Qed.

(* ---------------------------------------------------------------------- *)
(* Any order: a descendant selected after its ancestor walks into the copied value and assigns
   the same value there (model/Project.v [patch_value]).  The domain: whenever one selection is
   a prefix of another, the remainder consists of member names only. *)

Definition NK (ls : list loc) : Prop :=
  forall a b t, In a ls -> In b ls -> rem_prefix a b = Some t -> all_keys t = true.

Lemma nested_keys_NK ls : nested_keys ls = true <-> NK ls.
Proof.
  unfold nested_keys, NK. rewrite forallb_forall. split.
  - intros H a b t Ha Hb Hr. specialize (H a Ha). rewrite forallb_forall in H. specialize (H b Hb).
    rewrite Hr in H. exact H.
  - intros H a Ha. apply forallb_forall. intros b Hb. destruct (rem_prefix a b) as [t|] eqn:E; [|reflexivity].
    exact (H a b t Ha Hb E).
Qed.

Lemma rem_prefix_cons p a b : rem_prefix (p :: a) (p :: b) = rem_prefix a b.
Proof. cbn. rewrite part_eqb_refl. reflexivity. Qed.

Lemma rem_prefix_app pre a b : rem_prefix (pre ++ a) (pre ++ b) = rem_prefix a b.
Proof. induction pre as [|p pre IH]; [reflexivity|]. cbn [app]. rewrite rem_prefix_cons. exact IH. Qed.

Lemma rem_prefix_eq a : forall b t, rem_prefix a b = Some t -> b = a ++ t.
Proof.
  induction a as [|x a IH]; intros b t H; cbn in H; [injection H as ->; reflexivity|].
  destruct b as [|y b]; [discriminate|]. destruct (part_eqb x y) eqn:E; [|discriminate].
  apply part_eqb_spec in E. subst y. cbn. f_equal. auto.
Qed.

Lemma NK_incl ls ls' : (forall x, In x ls' -> In x ls) -> NK ls -> NK ls'.
Proof. intros Hi H a b t Ha Hb. apply H; auto. Qed.

Lemma NK_tails p ls : NK ls -> NK (tails_under p ls).
Proof.
  intros H a b t Ha Hb Hr. apply in_tails_under in Ha, Hb. apply (H (p :: a) (p :: b) t Ha Hb).
  rewrite rem_prefix_cons. exact Hr.
Qed.

Lemma NK_prefix pre ls : NK ls -> NK (map (fun l => pre ++ l) ls).
Proof.
  intros H a b t Ha Hb Hr. apply in_map_iff in Ha as [a' [<- Ha]]. apply in_map_iff in Hb as [b' [<- Hb]].
  rewrite rem_prefix_app in Hr. exact (H a' b' t Ha Hb Hr).
Qed.

Lemma keys_only_NK ls : keys_only ls = true -> NK ls.
Proof.
  intros Hk a b t Ha Hb Hr. unfold keys_only in Hk. rewrite forallb_forall in Hk. specialize (Hk b Hb).
  apply rem_prefix_eq in Hr. subst b. destruct (a ++ t) eqn:E; [destruct a; [cbn in E; subst; reflexivity|discriminate]|].
  rewrite <- E in Hk. unfold all_keys. rewrite forallb_app in Hk. apply andb_true_iff in Hk as [_ Hk]. exact Hk.
Qed.

Lemma non_nested_NK ls : non_nested ls = true -> NK ls.
Proof.
  assert (Hpre : forall x y u, rem_prefix x y = Some u -> is_prefix_loc x y = true).
  { induction x as [|p x IHx]; intros [|q y] u Hu; cbn in *; auto; try discriminate.
    destruct (part_eqb p q); [|discriminate]. cbn. eauto. }
  assert (Hself : forall x u, rem_prefix x x = Some u -> u = []).
  { intros x u Hu. apply rem_prefix_eq in Hu. rewrite <- (app_nil_r x) in Hu at 1. apply app_inv_head in Hu. auto. }
  induction ls as [|l ls IH]; intros H a b t Ha Hb Hr; [contradiction|].
  apply non_nested_cons in H as [H1 H2].
  destruct Ha as [<-|Ha]; destruct Hb as [<-|Hb].
  - rewrite (Hself _ _ Hr). reflexivity.
  - destruct (H1 b Hb) as [Hc _]. rewrite (Hpre _ _ _ Hr) in Hc. discriminate.
  - destruct (H1 a Ha) as [_ Hc]. rewrite (Hpre _ _ _ Hr) in Hc. discriminate.
  - exact (IH H2 a b t Ha Hb Hr).
Qed.

(* assigning, inside a copied value, the value that is already there changes nothing *)
Lemma dict_set_same ms k (x : json) : lookup k ms = Some x -> Patch.dict_set ms k x = ms.
Proof.
  induction ms as [|[k' y] ms IH]; cbn; intros H; [discriminate|].
  destruct (ustr_eqb k k'); [injection H as ->; reflexivity|]. rewrite IH; auto.
Qed.

Lemma patch_value_same t : forall d x,
  t <> [] -> all_keys t = true -> node_at d t = Some x -> patch_value t d x = Ok d.
Proof.
  induction t as [|p t IH]; intros d x Hne Hk Hn; [contradiction|].
  cbn [all_keys forallb] in Hk. apply andb_true_iff in Hk as [Hp Hk]. destruct p as [k|i]; [|discriminate].
  cbn [node_at] in Hn. destruct (step d (PKey k)) as [c|] eqn:Hs; [|discriminate].
  destruct d as [| | | | |ms]; try discriminate. cbn in Hs.
  destruct t as [|q t'].
  - cbn in Hn. injection Hn as <-. cbn. rewrite (dict_set_same _ _ _ Hs). reflexivity.
  - change (patch_value (PKey k :: q :: t') (JObj ms) x)
      with (match lookup k ms with
            | Some c => c' <- patch_value (q :: t') c x ;; Ok (JObj (Patch.dict_set ms k c'))
            | None => c' <- patch_value (q :: t') (JObj []) x ;; Ok (JObj (Patch.dict_set ms k c'))
            end).
    rewrite Hs. rewrite (IH c x); auto; [|discriminate]. cbn [bind]. rewrite (dict_set_same _ _ _ Hs). reflexivity.
Qed.

Lemma find_empty_app_some g1 g2 y : find_empty g1 = Some y -> find_empty (g1 ++ g2) = Some y.
Proof.
  induction g1 as [|[l z] g IH]; cbn [find_empty app]; [discriminate|]. destruct l; auto.
Qed.

Lemma plocated_incl v g g' : (forall lx, In lx g' -> In lx g) -> plocated v g -> plocated v g'.
Proof. intros Hi H l x Hin. apply H. apply Hi. exact Hin. Qed.

(* patch_all builds the tree [expected] of ProjectProofs (a part that is selected whole at any
   time ends up as a leaf), whatever the order of the selections *)
Lemma patch_all_expected_d n : forall v g,
  plocated v g -> find_empty g = None -> Forall (fun lx => length (fst lx) <= n) g ->
  NK (map fst g) ->
  patch_all g [] = Ok (expected g).
Proof.
  induction n as [|n IHn]; intros v g.
  - intros _ Hne Hlen _. destruct g as [|[l x] g]; [reflexivity|]. exfalso.
    apply find_empty_none in Hne. apply Forall_cons_iff in Hne as [Hne _].
    apply Forall_cons_iff in Hlen as [Hlen _]. cbn [fst] in *. destruct l; [congruence|cbn in Hlen; lia].
  - induction g as [|[l x] g0 IHg] using rev_ind; intros Hloc Hne Hlen Hnk; [reflexivity|].
    pose proof Hne as Hne'. apply find_empty_none in Hne'. apply Forall_app in Hne' as [Hne0 Hnel].
    apply Forall_cons_iff in Hnel as [Hnel _]. cbn [fst] in Hnel.
    apply Forall_app in Hlen as [Hlen0 Hlenl]. apply Forall_cons_iff in Hlenl as [Hlenl _].
    cbn [fst] in Hlenl.
    assert (Hloc0 : plocated v g0) by (eapply plocated_incl; [|exact Hloc]; intros lx Hx; apply in_or_app; auto).
    assert (Hnk0 : NK (map fst g0)).
    { eapply NK_incl; [|exact Hnk]. intros y Hy. rewrite map_app. apply in_or_app. auto. }
    assert (Hne0' : find_empty g0 = None) by (apply find_empty_none; exact Hne0).
    specialize (IHg Hloc0 Hne0' Hlen0 Hnk0).
    rewrite patch_all_app, IHg. cbn [bind]. rewrite patch_all_single.
    destruct l as [|p rest]; [congruence|]. clear Hnel.
    (* the child of v under p *)
    pose proof (Hloc (p :: rest) x ltac:(apply in_or_app; right; left; reflexivity)) as Hx.
    cbn [node_at] in Hx. destruct (step v p) as [c|] eqn:Hstep; [|discriminate].
    assert (Hgrp : forall q, group q (g0 ++ [(p :: rest, x)]) =
                             group q g0 ++ (if part_eqb q p then [(rest, x)] else [])).
    { intros q. rewrite group_app, group_single. reflexivity. }
    assert (Hgq : forall q, q <> p -> group q (g0 ++ [(p :: rest, x)]) = group q g0).
    { intros q Hq. rewrite Hgrp. apply part_eqb_neq in Hq. rewrite Hq. apply app_nil_r. }
    (* sub-results from the induction on the depth, in the child c *)
    assert (Hsub : forall h, (forall r y, In (r, y) h -> In (p :: r, y) (g0 ++ [(p :: rest, x)])) ->
                             find_empty h = None -> patch_all h [] = Ok (expected h)).
    { intros h Hin Hfeh. apply (IHn c); auto.
      - intros r y Hry. specialize (Hloc _ _ (Hin r y Hry)). cbn [node_at] in Hloc. rewrite Hstep in Hloc. exact Hloc.
      - apply Forall_forall. intros [r y] Hry. cbn [fst]. specialize (Hin r y Hry).
        assert (Hl : Forall (fun lx => length (fst lx) <= S n) (g0 ++ [(p :: rest, x)])).
        { apply Forall_app. split; auto. }
        rewrite Forall_forall in Hl. specialize (Hl _ Hin). cbn in Hl. lia.
      - intros a b t Ha Hb Hr. apply in_map_iff in Ha as [[a' ya] [Ea Ha]]. apply in_map_iff in Hb as [[b' yb] [Eb Hb]].
        cbn in Ea, Eb. subst a' b'.
        apply (Hnk (p :: a) (p :: b) t).
        + apply in_map_iff. exists (p :: a, ya). split; auto.
        + apply in_map_iff. exists (p :: b, yb). split; auto.
        + rewrite rem_prefix_cons. exact Hr. }
    (* a whole selection of p, whenever it happened, has the value c *)
    assert (Hwhole : forall y, In ([], y) (group p g0) -> y = c).
    { intros y Hy. apply in_group in Hy. specialize (Hloc0 _ _ Hy). cbn in Hloc0. rewrite Hstep in Hloc0. congruence. }
    unfold expected at 2. rewrite first_keys_snoc.
    destruct rest as [|r1 rest'].
    + (* the part itself is selected: a leaf, new or overwriting whatever was built under p *)
      cbn in Hx. injection Hx as ->.
      cbn [patch_obj].
      assert (Hslot : slot_of (group p (g0 ++ [([p], x)])) = PLeaf x).
      { unfold slot_of. rewrite Hgrp, part_eqb_refl.
        destruct (find_empty (group p g0)) as [y|] eqn:Ef.
        - rewrite (find_empty_app_some _ _ _ Ef). rewrite (Hwhole y (find_empty_some _ _ Ef)). reflexivity.
        - rewrite (find_empty_app_none _ _ Ef). reflexivity. }
      destruct (pmem p (first_keys g0)) eqn:Hm.
      * unfold expected at 1. apply f_equal.
        apply pt_set_map_old.
        -- apply first_keys_NoDup.
        -- apply pmem_In. exact Hm.
        -- exact Hslot.
        -- intros q Hq. rewrite Hgq; auto.
      * apply pmem_not_In in Hm as Hnew. unfold expected at 1. rewrite pt_set_map_new by exact Hnew.
        rewrite map_app. cbn [map]. apply f_equal.
        apply (f_equal2 (@app _)); [|exact (f_equal (fun t => [(p, t)]) (eq_sym Hslot))].
        apply map_ext_in. intros q Hq. rewrite Hgq; auto. intros ->. contradiction.
    + (* a longer location *)
      change (patch_obj (p :: r1 :: rest') (expected g0) x) with
        (match pt_lookup p (expected g0) with
         | None => sub <- patch_obj (r1 :: rest') [] x ;; Ok (pt_set (expected g0) p (PNode sub))
         | Some (PNode ms) => sub <- patch_obj (r1 :: rest') ms x ;; Ok (pt_set (expected g0) p (PNode sub))
         | Some (PLeaf d) => d' <- patch_value (r1 :: rest') d x ;; Ok (pt_set (expected g0) p (PLeaf d'))
         end).
      unfold expected at 1. rewrite pt_lookup_map.
      destruct (find_empty (group p g0)) as [y|] eqn:Ef.
      * (* p was selected whole before: the walk enters the copied value and changes nothing *)
        pose proof (find_empty_some _ _ Ef) as Hy. pose proof (Hwhole y Hy) as ->.
        assert (Hm : pmem p (first_keys g0) = true).
        { apply pmem_In. apply in_first_keys. apply in_group in Hy. eauto. }
        rewrite Hm. unfold slot_of at 1. rewrite Ef.
        assert (Hkeys : all_keys (r1 :: rest') = true).
        { apply (Hnk [p] (p :: r1 :: rest')).
          - apply in_map_iff. exists ([p], c). split; auto. apply in_or_app. left. apply in_group. exact Hy.
          - apply in_map_iff. exists (p :: r1 :: rest', x). split; auto. apply in_or_app. right. left. reflexivity.
          - rewrite rem_prefix_cons. reflexivity. }
        rewrite (patch_value_same (r1 :: rest') c x); auto; [|discriminate]. cbn [bind]. f_equal.
        unfold expected at 1. apply pt_set_map_old.
        -- apply first_keys_NoDup.
        -- apply pmem_In. exact Hm.
        -- unfold slot_of. rewrite Hgrp, part_eqb_refl, (find_empty_app_some _ _ _ Ef). reflexivity.
        -- intros q Hq. rewrite Hgq; auto.
      * (* as in ProjectProofs: walk or create the node under p *)
        assert (Hp0 : patch_all (group p g0) [] = Ok (expected (group p g0))).
        { apply Hsub; auto. intros r y Hry. apply in_or_app. left. apply in_group. exact Hry. }
        assert (Hfe1 : find_empty (group p (g0 ++ [(p :: r1 :: rest', x)])) = None).
        { rewrite Hgrp, part_eqb_refl. rewrite find_empty_app_none by exact Ef. reflexivity. }
        assert (Hp1 : patch_all (group p (g0 ++ [(p :: r1 :: rest', x)])) [] =
                      Ok (expected (group p (g0 ++ [(p :: r1 :: rest', x)])))).
        { apply Hsub; auto. intros r y Hry. apply in_group. exact Hry. }
        assert (Hstp : patch_obj (r1 :: rest') (expected (group p g0)) x =
                        Ok (expected (group p (g0 ++ [(p :: r1 :: rest', x)])))).
        { rewrite <- Hp1. rewrite Hgrp, part_eqb_refl. rewrite patch_all_app, Hp0. cbn [bind].
          apply eq_sym, patch_all_single. }
        assert (Hslot : slot_of (group p (g0 ++ [(p :: r1 :: rest', x)])) =
                        PNode (expected (group p (g0 ++ [(p :: r1 :: rest', x)])))).
        { unfold slot_of. rewrite Hfe1, Hp1. reflexivity. }
        destruct (pmem p (first_keys g0)) eqn:Hm.
        -- unfold slot_of at 1. rewrite Ef, Hp0. rewrite Hstp. cbn [bind]. f_equal.
           unfold expected at 1.
           apply pt_set_map_old.
           ++ apply first_keys_NoDup.
           ++ apply pmem_In. exact Hm.
           ++ exact Hslot.
           ++ intros q Hq. rewrite Hgq; auto.
        -- apply pmem_not_In in Hm as Hnew. apply group_nil_iff in Hnew as Hg0.
           rewrite Hg0 in Hstp. change (expected []) with (@nil (part * ptree)) in Hstp.
           rewrite Hstp. cbn [bind]. f_equal.
           unfold expected at 1. rewrite pt_set_map_new by exact Hnew.
           rewrite map_app. cbn [map].
           apply (f_equal2 (@app _)); [|exact (f_equal (fun t => [(p, t)]) (eq_sym Hslot))].
           apply map_ext_in. intros q Hq. rewrite Hgq; auto. intros ->. contradiction.
Qed.

Lemma slot_of_node_d v g :
  plocated v g -> find_empty g = None -> NK (map fst g) -> slot_of g = PNode (expected g).
Proof.
  intros Hloc Hfe Hnk. unfold slot_of. rewrite Hfe.
  rewrite (patch_all_expected_d (list_max (map (fun lx => length (fst lx)) g)) v g); auto.
  apply Forall_forall. intros lx Hin.
  pose proof (proj1 (list_max_le (map (fun lx => length (fst lx)) g) _) (Nat.le_refl _)) as H.
  rewrite Forall_forall in H. apply H. apply in_map_iff. exists lx. auto.
Qed.

Lemma child_facts_d v g p c :
  wf_json v = true -> plocated v g ->
  NK (map fst g) -> ascending (map fst g) = true ->
  In p (first_keys g) -> step v p = Some c ->
  wf_json c = true /\ plocated c (group p g) /\ group p g <> [] /\
  NK (map fst (group p g)) /\ ascending (map fst (group p g)) = true.
Proof.
  intros Hwf Hloc Hnn Hasc Hin Hs. repeat split.
  - eapply wf_step; eauto.
  - eapply plocated_group; eauto.
  - intros E. apply group_nil_iff in E. contradiction.
  - rewrite map_fst_group. apply NK_tails. exact Hnn.
  - rewrite map_fst_group. apply ascending_tails. exact Hasc.
Qed.

Lemma project_slot_d v : forall g,
  wf_json v = true -> plocated v g -> g <> [] ->
  NK (map fst g) -> ascending (map fst g) = true ->
  exists t, project_tree v (map fst g) = Some t /\ json_eq (fix_sparse (slot_of g)) t = true.
Proof.
  induction v as [| b | n | s | xs IH | ms IH] using json_ind'; intros g Hwf Hloc Hne Hnn Hasc.
  all: destruct (find_empty g) as [x0|] eqn:Hfe.
  (* a selected node keeps its whole value *)
  all: try (pose proof (Hloc _ _ (find_empty_some _ _ Hfe)) as Hx; simpl in Hx; injection Hx as <-;
            eexists; split; [apply project_tree_here; eapply selected_here_some; eauto|];
            unfold slot_of; rewrite Hfe; cbn [fix_sparse]; apply json_eq_refl; exact Hwf).
  (* nothing is selected below a scalar *)
  all: try (exfalso; destruct g as [|[l x] g]; [congruence|]; cbn [find_empty] in Hfe;
            destruct l as [|p r]; [discriminate|]; specialize (Hloc _ _ (or_introl eq_refl));
            destruct p; simpl in Hloc; discriminate).
  - (* array *)
    rewrite (slot_of_node_d _ g Hloc Hfe Hnn).
    pose proof (first_keys_nonempty g Hne Hfe) as Hkne.
    destruct (first_keys_sorted g) as [ks [Ek Hs]]; auto.
    { intros l x Hin. pose proof (Hloc _ _ Hin) as Hl.
      apply find_empty_none in Hfe. rewrite Forall_forall in Hfe. specialize (Hfe _ Hin). cbn [fst] in Hfe.
      destruct l as [|p r]; [congruence|]. destruct p as [k|i]; [simpl in Hl; discriminate|]. eauto. }
    set (F := fun i => fix_sparse (slot_of (group (PIdx i) g))).
    assert (HF : Forall2 (fun a b => json_eq a b = true) (map F ks) (kept_arr (map fst g) xs 0)).
    { apply kept_arr_merge; auto.
      - intros i Hi. assert (Hin : In (PIdx i) (first_keys g)) by (rewrite Ek; apply in_map; exact Hi).
        destruct (key_step _ _ _ Hloc Hin) as [c Hc]. simpl in Hc. apply nth_opt_In in Hc. lia.
      - intros i _ Hi. rewrite <- map_fst_group.
        assert (Hg : group (PIdx i) g = []); [|rewrite Hg; reflexivity].
        apply group_nil_iff. rewrite Ek. intros Hin. apply in_map_iff in Hin as [j [Ej Hj]].
        injection Ej as ->. contradiction.
      - intros i c Hi Hn. rewrite Nat.sub_0_r in Hn.
        assert (Hin : In (PIdx i) (first_keys g)) by (rewrite Ek; apply in_map; exact Hi).
        destruct (child_facts_d _ g (PIdx i) c Hwf Hloc Hnn Hasc Hin Hn) as [Hwc [Hlc [Hgc [Hnc Hac]]]].
        rewrite Forall_forall in IH. destruct (nth_opt_In _ _ _ Hn) as [Hcin _].
        destruct (IH c Hcin _ Hwc Hlc Hgc Hnc Hac) as [t [Hp Ht]].
        rewrite map_fst_group in Hp. split; [|exists t; split; auto].
        rewrite <- map_fst_group. intros E. apply map_eq_nil in E. contradiction. }
    rewrite project_tree_arr, (selected_here_none g Hfe).
    destruct ks as [|k ks']; [rewrite Ek in Hkne; contradiction|].
    rewrite fix_sparse_node. unfold expected. rewrite Ek. cbn [map]. rewrite !map_map. cbn [snd].
    inversion HF as [|a b la lb Hab Hrest Ea Eb]. subst.
    eexists. split; [reflexivity|]. apply json_eq_arr.
    constructor; auto.
  - (* object *)
    rewrite (slot_of_node_d _ g Hloc Hfe Hnn).
    pose proof (first_keys_nonempty g Hne Hfe) as Hkne.
    apply wf_obj in Hwf as Hwo. destruct Hwo as [Hkd _]. apply keys_distinct_NoDup in Hkd.
    assert (Hkeys : forall p, In p (first_keys g) -> exists k c, p = PKey k /\ lookup k ms = Some c).
    { intros p Hin. destruct (key_step _ _ _ Hloc Hin) as [c Hc].
      destruct p as [k|i]; simpl in Hc; [eauto|discriminate]. }
    assert (Hmem : forall k c, In (PKey k) (first_keys g) -> lookup k ms = Some c ->
                   tails_under (PKey k) (map fst g) <> [] /\
                   exists t, project_tree c (tails_under (PKey k) (map fst g)) = Some t /\
                             json_eq (fix_sparse (slot_of (group (PKey k) g))) t = true).
    { intros k c Hin Hl.
      destruct (child_facts_d _ g (PKey k) c Hwf Hloc Hnn Hasc Hin Hl) as [Hwc [Hlc [Hgc [Hnc Hac]]]].
      rewrite Forall_forall in IH. specialize (IH (k, c) (lookup_In _ _ _ Hl)). cbn [snd] in IH.
      destruct (IH _ Hwc Hlc Hgc Hnc Hac) as [t [Hp Ht]].
      rewrite map_fst_group in Hp. split; [|exists t; split; auto].
      rewrite <- map_fst_group. intros E. apply map_eq_nil in E. contradiction. }
    set (kept := kept_obj (map fst g) ms).
    assert (Hlen : length (first_keys g) = length kept).
    { rewrite <- (map_length pname (first_keys g)), <- (map_length fst kept).
      apply Permutation_length. apply NoDup_Permutation.
      - apply pname_NoDup; [|apply first_keys_NoDup]. apply Forall_forall. intros p Hin.
        destruct (Hkeys p Hin) as [k [c [-> _]]]. exact I.
      - apply kept_obj_NoDup. exact Hkd.
      - intros k. split.
        + intros Hin. apply in_map_iff in Hin as [p [<- Hin]].
          destruct (Hkeys p Hin) as [k' [c [-> Hl]]]. cbn [pname].
          destruct (Hmem k' c Hin Hl) as [Hne' [t [Hp _]]].
          eapply lookup_In_fst. eapply kept_obj_lookup; eauto.
        + intros Hin. apply kept_obj_in in Hin as [_ Hne'].
          apply in_map_iff. exists (PKey k). split; [reflexivity|].
          destruct (pmem (PKey k) (first_keys g)) eqn:Hm; [apply pmem_In; exact Hm|].
          exfalso. apply Hne'. apply pmem_not_In in Hm. apply group_nil_iff in Hm.
          rewrite <- map_fst_group, Hm. reflexivity. }
    rewrite project_tree_obj, (selected_here_none g Hfe). fold kept.
    destruct (first_keys g) as [|p0 keys'] eqn:Ek; [contradiction|].
    destruct kept as [|kv kept'] eqn:Ekept; [discriminate|]. rewrite <- Ekept in *.
    eexists. split; [reflexivity|].
    rewrite fix_sparse_node. unfold expected. rewrite Ek.
    destruct (Hkeys p0 (or_introl eq_refl)) as [k0 [c0 [-> Hl0]]].
    cbn [map]. rewrite !map_map. cbn [fst snd].
    change ((pname (PKey k0), fix_sparse (slot_of (group (PKey k0) g))) ::
            map (fun x => (pname x, fix_sparse (slot_of (group x g)))) keys')
      with (map (fun x => (pname x, fix_sparse (slot_of (group x g)))) (PKey k0 :: keys')).
    apply json_eq_obj.
    + rewrite map_length. exact Hlen.
    + apply Forall_forall. intros [k u] Hin. apply in_map_iff in Hin as [p [Ep Hin]].
      injection Ep as <- <-. cbn [fst snd].
      destruct (Hkeys p Hin) as [k' [c [-> Hl]]]. cbn [pname].
      destruct (Hmem k' c Hin Hl) as [Hne' [t [Hp Ht]]].
      exists t. split; auto. eapply kept_obj_lookup; eauto.
Qed.

Lemma project_core_d v (g : pairs) :
  wf_json v = true -> plocated v g ->
  find_empty g = None -> NK (map fst g) -> ascending (map fst g) = true ->
  exists obj, patch_all g [] = Ok obj /\
    match project_tree v (map fst g) with
    | Some t => json_eq (fix_sparse (PNode obj)) t = true
    | None => g = [] /\ fix_sparse (PNode obj) = JObj []
    end.
Proof.
  intros Hwf Hloc Hfe Hnn Hasc.
  pose proof (slot_of_node_d v g Hloc Hfe Hnn) as Hnode.
  assert (Hp : patch_all g [] = Ok (expected g)).
  { unfold slot_of in Hnode. rewrite Hfe in Hnode. destruct (patch_all g []) as [o|e] eqn:E.
    - injection Hnode as ->. reflexivity.
    - exfalso.
      rewrite (patch_all_expected_d (list_max (map (fun lx => length (fst lx)) g)) v g) in E; auto; [discriminate|].
      apply Forall_forall. intros lx Hin.
      pose proof (proj1 (list_max_le (map (fun lx => length (fst lx)) g) _) (Nat.le_refl _)) as H'.
      rewrite Forall_forall in H'. apply H'. apply in_map_iff. exists lx. auto. }
  exists (expected g). split; [exact Hp|].
  destruct g as [|lx g'] eqn:Eg.
  - cbn [map]. rewrite project_tree_nil. split; reflexivity.
  - rewrite <- Eg in *.
    destruct (project_slot_d v g Hwf Hloc) as [t [Hpt Ht]]; auto; [rewrite Eg; discriminate|].
    rewrite Hpt. rewrite Hnode in Ht. exact Ht.
Qed.

(* the widest domain: selections in any order, repeated or nested in one another, provided that
   below an already selected node only member names follow (and array indices arrive ascending) *)
Lemma deep_ok_parts ls :
  selections_deep_ok ls = true -> Forall (fun l => l <> []) ls /\ NK ls /\ ascending ls = true.
Proof.
  unfold selections_deep_ok. intros H. apply andb_true_iff in H as [H Ha]. apply andb_true_iff in H as [Hn Hnn].
  split; [|split; [apply nested_keys_NK; exact Hnn|exact Ha]].
  apply Forall_forall. intros l Hin. rewrite forallb_forall in Hn. specialize (Hn l Hin). destruct l; discriminate.
Qed.

Lemma selections_ok_deep_ok ls : selections_ok ls = true -> selections_deep_ok ls = true.
Proof.
  unfold selections_ok, selections_deep_ok. intros H. apply andb_true_iff in H as [H Ha].
  apply andb_true_iff in H as [Hn Hnn]. rewrite Hn, Ha.
  rewrite (proj2 (nested_keys_NK ls) (non_nested_NK ls Hnn)). reflexivity.
Qed.

Lemma keys_only_deep_ok ls : keys_only ls = true -> selections_deep_ok ls = true.
Proof.
  intros Hk. unfold selections_deep_ok.
  rewrite (keys_only_ascending _ Hk), (proj2 (nested_keys_NK ls) (keys_only_NK ls Hk)), !andb_true_r.
  unfold keys_only in Hk. apply forallb_forall. intros l Hin. rewrite forallb_forall in Hk.
  specialize (Hk l Hin). destruct l; [discriminate|reflexivity].
Qed.

Theorem relative_deep :
  forall (E : env) rf rs (exprs : list query) (m : jmatch) (sels : list jmatch),
    is_container (m_val m) = true -> wf_json (m_val m) = true ->
    selected E rf rs exprs (m_val m) = Ok sels ->
    located' (m_val m) sels ->
    selections_deep_ok (map m_parts sels) = true ->
    exists j, select_one E rf rs ProjRelative exprs m = Ok (Some j) /\
      match project_tree (m_val m) (map m_parts sels) with
      | Some t => json_eq j t = true
      | None => sels = [] /\ j = JObj []
      end.
Proof.
  intros E rf rs exprs m sels Hc Hwf Hs Hloc Hok.
  apply deep_ok_parts in Hok as [Hne [Hnn Hasc]].
  set (g := map (fun s => (m_parts s, m_val s)) sels : pairs).
  assert (Hfst : map (@fst loc json) g = map m_parts sels).
  { unfold g. rewrite map_map. reflexivity. }
  destruct (project_core_d (m_val m) g) as [obj [Hp Hr]]; auto.
  - intros l x Hin. apply in_map_iff in Hin as [s [Es Hin]]. injection Es as <- <-. apply Hloc. exact Hin.
  - apply find_empty_none. apply Forall_forall. intros lx Hin.
    apply in_map_iff in Hin as [s [<- Hin]]. cbn [fst]. rewrite Forall_forall in Hne. apply Hne.
    apply in_map. exact Hin.
  - rewrite Hfst. exact Hnn.
  - rewrite Hfst. exact Hasc.
  - exists (fix_sparse (PNode obj)). split.
    + unfold select_one. rewrite Hc, Hs. cbn [negb bind]. fold g. rewrite Hp. reflexivity.
    + rewrite Hfst in Hr. destruct (project_tree (m_val m) (map m_parts sels)); auto.
      destruct Hr as [Hg Hj]. split; auto. unfold g in Hg. destruct sels; [reflexivity|discriminate].
Qed.

Theorem root_deep :
  forall (E : env) rf rs (exprs : list query) (d : json) (m : jmatch) (sels : list jmatch),
    is_container (m_val m) = true -> wf_json d = true ->
    node_at d (m_parts m) = Some (m_val m) ->
    selected E rf rs exprs (m_val m) = Ok sels ->
    located' (m_val m) sels ->
    selections_deep_ok (map m_parts sels) = true ->
    exists j, select_one E rf rs ProjRoot exprs m = Ok (Some j) /\
      match project_root d (m_parts m) (map m_parts sels) with
      | Some t => json_eq j t = true
      | None => sels = [] /\ j = JObj []
      end.
Proof.
  intros E rf rs exprs d m sels Hc Hwf Hat Hs Hloc Hok.
  apply deep_ok_parts in Hok as [Hne [Hnn Hasc]].
  set (g := map (fun s => (m_parts m ++ m_parts s, m_val s)) sels : pairs).
  assert (Hfst : map (@fst loc json) g = map (fun l => m_parts m ++ l) (map m_parts sels)).
  { unfold g. rewrite !map_map. reflexivity. }
  destruct (project_core_d d g) as [obj [Hp Hr]]; auto.
  - intros l x Hin. apply in_map_iff in Hin as [s [Es Hin]]. injection Es as <- <-.
    rewrite node_at_app, Hat. apply Hloc. exact Hin.
  - apply find_empty_none. apply Forall_forall. intros lx Hin.
    apply in_map_iff in Hin as [s [<- Hin]]. cbn [fst]. rewrite Forall_forall in Hne.
    intros E0. apply app_eq_nil in E0 as [_ E0]. revert E0. apply Hne. apply in_map. exact Hin.
  - rewrite Hfst. apply NK_prefix. exact Hnn.
  - rewrite Hfst, ascending_prefix. exact Hasc.
  - exists (fix_sparse (PNode obj)). split.
    + unfold select_one. rewrite Hc, Hs. cbn [negb bind]. fold g. rewrite Hp. reflexivity.
    + unfold project_root. rewrite Hfst in Hr.
      destruct (project_tree d (map (fun l => m_parts m ++ l) (map m_parts sels))); auto.
      destruct Hr as [Hg Hj]. split; auto. unfold g in Hg. destruct sels; [reflexivity|discriminate].
Qed.

(* ---- the keys-only statements: nested and repeated selections in ANY order ----------- *)

Theorem relative_nested :
  forall (E : env) rf rs (exprs : list query) (m : jmatch) (sels : list jmatch),
    is_container (m_val m) = true -> wf_json (m_val m) = true ->
    selected E rf rs exprs (m_val m) = Ok sels ->
    located' (m_val m) sels ->
    keys_only (map m_parts sels) = true ->
    exists j, select_one E rf rs ProjRelative exprs m = Ok (Some j) /\
      match project_tree (m_val m) (map m_parts sels) with
      | Some t => json_eq j t = true
      | None => sels = [] /\ j = JObj []
      end.
Proof. intros. apply relative_deep; auto. apply keys_only_deep_ok; auto. Qed.

(* the match's own location is unrestricted (it may pass through array indices) *)
Theorem root_nested :
  forall (E : env) rf rs (exprs : list query) (d : json) (m : jmatch) (sels : list jmatch),
    is_container (m_val m) = true -> wf_json d = true ->
    node_at d (m_parts m) = Some (m_val m) ->
    selected E rf rs exprs (m_val m) = Ok sels ->
    located' (m_val m) sels ->
    keys_only (map m_parts sels) = true ->
    exists j, select_one E rf rs ProjRoot exprs m = Ok (Some j) /\
      match project_root d (m_parts m) (map m_parts sels) with
      | Some t => json_eq j t = true
      | None => sels = [] /\ j = JObj []
      end.
Proof. intros. apply root_deep; auto. apply keys_only_deep_ok; auto. Qed.

(* the flat projection does not look at the locations at all *)
Theorem flat_nested :
  forall (E : env) rf rs (exprs : list query) (m : jmatch) (sels : list jmatch),
    is_container (m_val m) = true ->
    selected E rf rs exprs (m_val m) = Ok sels ->
    select_one E rf rs ProjFlat exprs m = Ok (Some (JArr (map m_val sels))) /\
    project_flat (map m_val sels) = match sels with [] => None | _ => Some (JArr (map m_val sels)) end.
Proof.
  intros E rf rs exprs m sels Hc Hs. split; [apply flat_spec; auto|]. destruct sels; reflexivity.
Qed.

(* ---- examples ------------------------------------------------------------------------- *)

(* a descendant selected AFTER its ancestor was selected whole, and the other order: both give the
   whole value, as project_tree says *)
Example whole_then_descendant :
  let a := [97%N] in let b := [98%N] in let one := JNum (num_of_Z 1) in
  let v := JObj [(a, JObj [(b, one)])] in
  let sels := [([PKey a], JObj [(b, one)]); ([PKey a; PKey b], one)] in
  let run g := option_map (fun o => fix_sparse (PNode o)) (match patch_all g [] with Ok o => Some o | Err _ => None end) in
  keys_only (map fst sels) = true /\ ancestors_last (map fst sels) = false /\
  run sels = Some v /\ run (rev sels) = Some v /\ project_tree v (map fst sels) = Some v.
Proof. cbv zeta. repeat split; vm_compute; reflexivity. Qed.

(* outside every domain above: an array index below an already selected node.  The model's walk
   creates a dict inside the copied list and then would add an integer key to it: EUnsupported
   (the implementation goes on and loses the sibling 9: select("a", "a[0][0]") on
   {"a": [[1, 9], [2]]} gives {"a": [[1], [2]]}, where project_tree keeps the whole of a). *)
Example index_below_selected_node :
  let a := [97%N] in let n z := JNum (num_of_Z z) in
  let va := JArr [JArr [n 1%Z; n 9%Z]; JArr [n 2%Z]] in
  let v := JObj [(a, va)] in
  let sels := [([PKey a], va); ([PKey a; PIdx 0; PIdx 0], n 1%Z)] in
  selections_deep_ok (map fst sels) = false /\
  patch_all sels [] = Err EUnsupported /\ project_tree v (map fst sels) = Some v.
Proof. cbv zeta. repeat split; vm_compute; reflexivity. Qed.

Lemma deep_domains ls :
  (selections_ok ls = true -> selections_deep_ok ls = true) /\
  (keys_only ls = true -> selections_deep_ok ls = true).
Proof. split; [apply selections_ok_deep_ok|apply keys_only_deep_ok]. Qed.
