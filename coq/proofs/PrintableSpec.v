(* PrintableSpec.v — a second symbolic execution of the parser model: what it returns is
   reparsable (spec/Reparsable.v), printable (spec/Printable.v) and float-stable
   (spec/NormDomain.v); the float conditions come from FloatDomain.parsed_float_ok.  Errors are irrelevant here; the stream invariant is only that
   every token has the lexer's shape (LexShapes.tok_ok2). *)
From Coq Require Import ZArith List Bool Lia.
From JP Require Import Base Json PyStr PyJsonStr Syntax Lex Parse Serialize TokPrint Printable Gate Reparsable NormDomain.
From JP Require Import ParseEqns GateLemmas ParseSpec ReparseLemmas LexShapes PrintParseBase FloatDomain.
Import ListNotations.

Definition isinfix (e : fexpr) : bool := match e with FInfix _ _ _ => true | _ => false end.

Lemma parse_int_literal_int s e : parse_int_literal s = Ok e -> exists z, e = FInt z.
Proof.
  intros H. destruct (parse_int_literal_cases s) as [Hc|[Hc|[Hc|[z Hc]]]]; rewrite Hc in H; try discriminate H.
  - destruct (int_of_text s); [|discriminate H]. injection H as <-. eauto.
  - injection H as <-. eauto.
Qed.

(* no registered function takes a Logical-typed parameter, so an infix argument never validates *)
Lemma fn_sig_no_logical name ts t : fn_sig name = Some (ts, t) -> Forall (fun x => x <> TyLogical) ts.
Proof.
  unfold fn_sig, u.
  repeat match goal with |- context [ustr_eqb name ?l] => destruct (ustr_eqb name l) end;
    intros H; try discriminate H; injection H as <- _; repeat constructor; discriminate.
Qed.

Lemma check_args_noinfix ts args :
  Forall (fun x => x <> TyLogical) ts -> check_args ts args = true -> Forall (fun a => isinfix a = false) args.
Proof.
  intros Hts. revert args. induction Hts as [|t ts Ht _ IH]; intros [|a args] H; try discriminate H; [constructor|].
  cbn [check_args] in H. apply andb_true_iff in H as [Ha Hr]. constructor; [|exact (IH args Hr)].
  destruct a; try reflexivity. destruct t; try discriminate Ha. contradiction Ht. reflexivity.
Qed.

Lemma validate_noinfix name args u :
  validate_function name args = Ok u -> Forall (fun a => isinfix a = false) args.
Proof.
  unfold validate_function. destruct (fn_sig name) as [[ts t]|] eqn:Hs; [|discriminate].
  destruct (negb _); [discriminate|]. destruct (check_args ts args) eqn:Hc; [|discriminate]. intros _.
  exact (check_args_noinfix ts args (fn_sig_no_logical name ts t Hs) Hc).
Qed.

Section PSpec.
  Variable E : env.
  Variable re_ok : ustr -> option bool.
  Hypothesis H1 : one_in_range E = true.

  Definition post {A} (r : result A) (Q : A -> Prop) : Prop :=
    match r with Ok a => Q a | Err _ => True end.

  Lemma post_bind {A B} (r : result A) (f : A -> result B) (Q : A -> Prop) (Q' : B -> Prop) :
    post r Q -> (forall a, Q a -> post (f a) Q') -> post (bind r f) Q'.
  Proof. intros Hr Hf. destruct r as [a|e]; [apply Hf; exact Hr|exact I]. Qed.

  Lemma post_any {A B} (r : result A) (f : A -> result B) (Q' : B -> Prop) :
    (forall a, post (f a) Q') -> post (bind r f) Q'.
  Proof. intros Hf. destruct r as [a|e]; [apply Hf|exact I]. Qed.

  Lemma post_weaken {A} (r : result A) (Q Q' : A -> Prop) :
    post r Q -> (forall a, Q a -> Q' a) -> post r Q'.
  Proof. intros H HQ. destruct r as [a|e]; [apply HQ; exact H|exact I]. Qed.

  Ltac bstep H := eapply post_bind; [exact H|]; cbv beta.

  (* ---- the stream ---- *)

  Definition sall (st : stream) : Prop :=
    tok_ok2 (s_cur st) /\ Forall tok_ok2 (s_pushed st) /\ Forall tok_ok2 (s_rest st).

  Lemma advance_post st : sall st -> post (advance st) sall.
  Proof.
    intros (Hc & Hp & Hr). unfold advance. destruct (s_pushed st) as [|t ps] eqn:Hps.
    - destruct (is_kind TEof (s_cur st)); [repeat split; try assumption; rewrite Hps; constructor|].
      destruct (s_rest st) as [|t r] eqn:Hrs; [repeat split; constructor|].
      destruct (is_kind TIllegal t); [exact I|]. inversion Hr; subst. repeat split; [assumption|constructor|assumption].
    - inversion Hp; subst. repeat split; assumption.
  Qed.

  Lemma next_token_post st : sall st -> post (next_token st) (fun r => fst r = s_cur st /\ sall (snd r)).
  Proof. intros H. unfold next_token. bstep (advance_post st H). intros st' H'. split; [reflexivity|exact H']. Qed.

  Lemma peek_post st : sall st -> post (peek st) (fun r => sall (snd r)).
  Proof.
    intros H. unfold peek. bstep (advance_post st H). intros st' (Hc & Hp & Hr).
    repeat split; cbn [snd push s_cur s_pushed s_rest]; [exact (proj1 H)| |exact Hr].
    apply Forall_app. split; [exact Hp|constructor; [exact Hc|constructor]].
  Qed.

  Lemma push_sall st : sall st -> sall (push st (s_cur st)).
  Proof.
    intros (Hc & Hp & Hr). repeat split; cbn [push s_cur s_pushed s_rest]; [exact Hc| |exact Hr].
    apply Forall_app. split; [exact Hp|constructor; [exact Hc|constructor]].
  Qed.

  (* ---- what is tracked ---- *)

  Notation st_expr := NormDomain.fl_expr.
  Notation st_exprs := NormDomain.fl_exprs.
  Notation st_sel := NormDomain.fl_sel.
  Notation st_sels := NormDomain.fl_sels.
  Notation st_seg := NormDomain.fl_seg.
  Notation st_segs := NormDomain.fl_segs.

  Definition RE (e : fexpr) : Prop := rp_expr E e = true /\ pr_expr re_ok e = true /\ st_expr e = true.
  Definition RS (s : selector) : Prop := rp_sel E s = true /\ pr_sel re_ok s = true /\ st_sel s = true.
  Definition RG (g : segment) : Prop := rp_seg E g = true /\ pr_seg re_ok g = true /\ st_seg g = true.
  Definition LIT (e : fexpr) : Prop := is_lit e = true /\ pr_expr re_ok e = true /\ st_expr e = true.
  Definition AR (e : fexpr) : Prop := (arg_form e = true \/ isinfix e = true) /\ RE e.

  Ltac r3 := (split; [reflexivity|split; reflexivity]).

  Lemma RSs_of l : Forall RS l ->
    rp_sels E (sels_of l) = true /\ pr_sels re_ok (sels_of l) = true /\ st_sels (sels_of l) = true.
  Proof.
    intros H. induction H as [|s l (Hr & Hp & Hs) _ (IHr & IHp & IHs)]; [r3|].
    cbn [sels_of]. change (rp_sels E (LCons s (sels_of l))) with (rp_sel E s && rp_sels E (sels_of l)).
    change (st_sels (LCons s (sels_of l))) with (st_sel s && st_sels (sels_of l)).
    change (pr_sels re_ok (LCons s (sels_of l))) with (pr_sel re_ok s && pr_sels re_ok (sels_of l)).
    rewrite Hr, IHr, Hp, IHp, Hs, IHs. r3.
  Qed.

  Lemma RGs_of l : Forall RG l ->
    rp_segs E (segs_of l) = true /\ pr_segs re_ok (segs_of l) = true /\ st_segs (segs_of l) = true.
  Proof.
    intros H. induction H as [|g l (Hr & Hp & Hs) _ (IHr & IHp & IHs)]; [r3|].
    cbn [segs_of]. change (rp_segs E (PCons g (segs_of l))) with (rp_seg E g && rp_segs E (segs_of l)).
    change (st_segs (PCons g (segs_of l))) with (st_seg g && st_segs (segs_of l)).
    change (pr_segs re_ok (PCons g (segs_of l))) with (pr_seg re_ok g && pr_segs re_ok (segs_of l)).
    rewrite Hr, IHr, Hp, IHp, Hs, IHs. r3.
  Qed.

  Lemma LITs_of l : Forall LIT l ->
    pr_lits re_ok (fexprs_of l) = true /\ st_exprs (fexprs_of l) = true.
  Proof.
    intros H. induction H as [|e l (Hl & Hp & Hs) _ (IHp & IHs)]; [split; reflexivity|].
    cbn [fexprs_of]. change (st_exprs (ECons e (fexprs_of l))) with (st_expr e && st_exprs (fexprs_of l)).
    change (pr_lits re_ok (ECons e (fexprs_of l))) with (is_lit e && pr_expr re_ok e && pr_lits re_ok (fexprs_of l)).
    rewrite Hl, Hp, IHp, Hs, IHs. split; reflexivity.
  Qed.

  Lemma ARs_of l : Forall (fun e => arg_form e = true /\ RE e) l ->
    rp_args E (fexprs_of l) = true /\ pr_exprs re_ok (fexprs_of l) = true /\ st_exprs (fexprs_of l) = true.
  Proof.
    intros H. induction H as [|e l (Ha & Hr & Hp & Hs) _ (IHr & IHp & IHs)]; [r3|].
    cbn [fexprs_of].
    change (rp_args E (ECons e (fexprs_of l))) with (arg_form e && rp_expr E e && rp_args E (fexprs_of l)).
    change (st_exprs (ECons e (fexprs_of l))) with (st_expr e && st_exprs (fexprs_of l)).
    change (pr_exprs re_ok (ECons e (fexprs_of l))) with (pr_expr re_ok e && pr_exprs re_ok (fexprs_of l)).
    rewrite Ha, Hr, IHr, Hp, IHp, Hs, IHs. r3.
  Qed.

  Lemma Forall_rev' {A} (P : A -> Prop) l : Forall P l -> Forall P (rev l).
  Proof. intros H. apply Forall_forall. intros x Hx. rewrite Forall_forall in H. apply H. apply in_rev. exact Hx. Qed.

  Lemma float_lit t e : parse_float_literal t = Ok e -> LIT e /\ RE e /\ arg_form e = true.
  Proof.
    intros H. destruct (parse_float_literal_float t e H) as [n ->].
    destruct (parsed_float_ok t n H) as [Hok Hst].
    repeat split; try reflexivity; assumption.
  Qed.

  Lemma int_lit s e : parse_int_literal s = Ok e -> LIT e /\ RE e /\ arg_form e = true.
  Proof. intros H. destruct (parse_int_literal_int s e H) as [z ->]. repeat split; reflexivity. Qed.

  (* ---- slices, list literals ---- *)

  Lemma parse_slice_post st :
    sall st -> post (parse_slice E st) (fun r => RS (fst r) /\ bare_form (fst r) = true /\ sall (snd r)).
  Proof.
    intros Hs. unfold parse_slice.
    bstep (next_token_post st Hs). intros [t1 st1] [_ Hs1]. cbn [fst snd] in *.
    apply post_any. intros _.
    bstep (next_token_post st1 Hs1). intros [t2 st2] [_ Hs2]. cbn [fst snd] in *.
    apply post_any. intros _. cbv zeta.
    apply post_any. intros a. apply post_any. intros b. apply post_any. intros c.
    match goal with |- context [if ?x then _ else _] => destruct x end; [|exact I].
    cbn [post fst snd]. split; [|split; [reflexivity|exact Hs2]].
    split; [cbn [rp_sel]; destruct c; [reflexivity|exact H1]|split; reflexivity].
  Qed.

  Lemma parse_list_items_post f : forall st acc,
    sall st -> Forall LIT acc ->
    post (parse_list_items E f st acc) (fun r => Forall LIT (fst r) /\ sall (snd r)).
  Proof.
    induction f as [|f IH]; intros st acc Hs Hacc; [exact I|].
    rewrite parse_list_items_S.
    destruct (is_kind TRBracket (s_cur st)); [split; [apply Forall_rev'; exact Hacc|exact Hs]|].
    eapply post_bind with (Q := LIT).
    { destruct (tk (s_cur st)); try exact I; try r3.
      - apply post_any. intros s. r3.
      - apply post_any. intros s. r3.
      - destruct (parse_float_literal _) as [e|] eqn:H; [|exact I]. exact (proj1 (float_lit _ _ H)).
      - destruct (parse_int_literal _) as [e|] eqn:H; [|exact I]. exact (proj1 (int_lit _ _ H)). }
    intros item Hitem.
    bstep (peek_post st Hs). intros [nxt st1] Hs1. cbn [fst snd] in *.
    eapply post_bind with (Q := sall).
    { destruct (is_kind TRBracket nxt); [exact Hs1|]. destruct (is_kind TComma nxt); [|exact I].
      bstep (next_token_post st1 Hs1). intros r [_ Hs2]. exact Hs2. }
    intros st2 Hs2. bstep (next_token_post st2 Hs2). intros r3 [_ Hs3].
    apply IH; [exact Hs3|constructor; assumption].
  Qed.

  (* ---- the mutual block ---- *)

  Definition Qe (r : fexpr * stream) : Prop := RE (fst r) /\ sall (snd r).

  Definition SP_path (f : nat) : Prop :=
    forall in_filter st acc, sall st -> Forall RG acc ->
      post (parse_path E re_ok f in_filter st acc) (fun r => Forall RG (fst r) /\ sall (snd r)).
  Definition SP_sellist (f : nat) : Prop :=
    forall st, sall st -> post (parse_selector_list E re_ok f st) (fun r => Forall RS (fst r) /\ sall (snd r)).
  Definition SP_filter (f : nat) : Prop :=
    forall st, sall st -> post (parse_filter E re_ok f st) Qe.
  Definition SP_fs (f : nat) : Prop :=
    forall st prec, sall st -> post (parse_filter_selector E re_ok f st prec) Qe.
  Definition SP_infix (f : nat) : Prop :=
    forall st lhs, sall st -> RE lhs -> post (parse_infix E re_ok f st lhs) (fun r => Qe r /\ isinfix (fst r) = true).
  Definition SP_primary (f : nat) : Prop :=
    forall st, sall st ->
      post (parse_primary E re_ok f st)
           (fun r => Qe r /\ (arg_kindb (tk (s_cur st)) = true -> arg_form (fst r) = true)).

  Lemma continue_post f in_filter acc g st :
    SP_path f -> sall st -> RG g -> Forall RG acc ->
    post (continue_with E re_ok f in_filter acc g st) (fun r => Forall RG (fst r) /\ sall (snd r)).
  Proof.
    intros IH Hs Hg Hacc. unfold continue_with. bstep (next_token_post st Hs). intros r [_ Hs1].
    apply IH; [exact Hs1|constructor; assumption].
  Qed.

  Lemma RG_bare s : bare_form s = true -> RS s -> RG (GSel s).
  Proof.
    intros Hb (Hr & Hp & Hs). split; [|split; [exact Hp|exact Hs]].
    change (rp_seg E (GSel s)) with (bare_form s && rp_sel E s). rewrite Hb, Hr. reflexivity.
  Qed.

  Lemma path_step f : SP_path f -> SP_sellist f -> SP_path (S f).
  Proof.
    intros IHp IHs in_filter st acc Hs Hacc. rewrite parse_path_S.
    assert (Hexit : post (Ok (rev acc, if in_filter then push st (s_cur st) else st))
                         (fun r => Forall RG (fst r) /\ sall (snd r))).
    { split; [apply Forall_rev'; exact Hacc|]. destruct in_filter; [apply push_sall|]; exact Hs. }
    destruct (tk (s_cur st)); try exact Hexit.
    - apply continue_post; auto. apply RG_bare; [reflexivity|r3].
    - bstep (parse_slice_post st Hs). intros r (Hrs & Hb & Hs1).
      apply continue_post; auto. apply RG_bare; assumption.
    - apply continue_post; auto. apply RG_bare; [reflexivity|r3].
    - apply continue_post; auto. apply RG_bare; [reflexivity|r3].
    - apply continue_post; auto. r3.
    - apply continue_post; auto. apply RG_bare; [reflexivity|r3].
    - bstep (IHs st Hs). intros r [Hl Hs1]. apply continue_post; auto.
      exact (RSs_of (fst r) Hl).
  Qed.

  Lemma sel_item_post f st :
    SP_filter f -> sall st -> post (sel_item E re_ok f st) (fun r => RS (fst r) /\ sall (snd r)).
  Proof.
    intros IHf Hs. unfold sel_item.
    destruct (tk (s_cur st)); try exact I; try (split; [r3|exact Hs]).
    - destruct (existsb _ _); [exact I|]. apply post_any. intros s. split; [r3|exact Hs].
    - destruct (existsb _ _); [exact I|]. apply post_any. intros s. split; [r3|exact Hs].
    - eapply post_weaken; [exact (parse_slice_post st Hs)|]. intros r (H & _ & H'). split; assumption.
    - cbv zeta. destruct (_ || _); [exact I|]. destruct (has_exponent _); [exact I|].
      apply post_any. intros z. destruct (index_in_range E z); [|exact I]. split; [r3|exact Hs].
    - destruct f as [|f']; [exact I|]. bstep (IHf st Hs). intros r [Hre Hs1].
      split; [exact Hre|exact Hs1].
  Qed.

  Lemma items_post f : SP_filter f -> forall g st acc,
    sall st -> Forall RS acc ->
    post (items_loop E re_ok f g st acc) (fun r => Forall RS (fst r) /\ sall (snd r)).
  Proof.
    intros IHf. induction g as [|g IH]; intros st acc Hs Hacc; [exact I|].
    rewrite items_loop_S. destruct (is_kind TRBracket (s_cur st)).
    { destruct acc; [exact I|]. split; [apply Forall_rev'; exact Hacc|exact Hs]. }
    bstep (sel_item_post f st IHf Hs). intros [sel st1] [Hsel Hs1]. cbn [fst snd] in *.
    bstep (peek_post st1 Hs1). intros [nxt st2] Hs2. cbn [fst snd] in *.
    destruct (is_kind TEof nxt); [exact I|].
    eapply post_bind with (Q := sall).
    { destruct (is_kind TRBracket nxt); [exact Hs2|]. destruct (is_kind TComma nxt); [|exact I].
      bstep (next_token_post st2 Hs2). intros r [_ Hs3].
      bstep (peek_post (snd r) Hs3). intros pk2 Hs4.
      destruct (is_kind TRBracket (fst pk2)); [exact I|exact Hs4]. }
    intros st3 Hs3. bstep (next_token_post st3 Hs3). intros r4 [_ Hs4].
    apply IH; [exact Hs4|constructor; assumption].
  Qed.

  Lemma sellist_step f : SP_filter f -> SP_sellist (S f).
  Proof.
    intros IHf st Hs. rewrite parse_selector_list_S.
    bstep (next_token_post st Hs). intros r0 [_ Hs1]. apply items_post; [exact IHf|exact Hs1|constructor].
  Qed.

  Lemma filter_step f : SP_fs f -> SP_filter (S f).
  Proof.
    intros IH st Hs. rewrite parse_filter_S.
    bstep (next_token_post st Hs). intros r0 [_ Hs1].
    bstep (IH (snd r0) 1 Hs1). intros r Hr. apply post_any. intros _. exact Hr.
  Qed.

  Lemma fs_loop_post f prec : SP_infix f -> forall g lhs st,
    sall st -> RE lhs -> post (fs_loop E re_ok f prec g lhs st) Qe.
  Proof.
    intros IHi. induction g as [|g IH]; intros lhs st Hs Hl; [exact I|].
    rewrite fs_loop_S. bstep (peek_post st Hs). intros [nxt st1] Hs1. cbn [fst snd] in *.
    destruct (_ || _); [split; assumption|].
    destruct (binop_of_kind (tk nxt)); [|split; assumption].
    bstep (next_token_post st1 Hs1). intros r [_ Hs2].
    bstep (IHi (snd r) lhs Hs2 Hl). intros r2 [[Hre Hs3] _]. apply IH; assumption.
  Qed.

  Lemma fs_step f : SP_primary f -> SP_infix f -> SP_fs (S f).
  Proof.
    intros IHp IHi st prec Hs. rewrite parse_filter_selector_S.
    bstep (IHp st Hs). intros l [[Hre Hs1] _]. apply fs_loop_post; assumption.
  Qed.

  Lemma RE_infix l o r : RE l -> RE r -> RE (FInfix l o r).
  Proof.
    intros (Hrl & Hpl & Hsl) (Hrr & Hpr & Hsr).
    change (RE (FInfix l o r)) with
      (rp_expr E l && rp_expr E r = true /\ pr_expr re_ok l && pr_expr re_ok r = true /\ st_expr l && st_expr r = true).
    rewrite Hrl, Hrr, Hpl, Hpr, Hsl, Hsr. r3.
  Qed.

  Lemma infix_step f : SP_fs f -> SP_infix (S f).
  Proof.
    intros IH st lhs Hs Hl. rewrite parse_infix_S.
    bstep (next_token_post st Hs). intros [optok st1] [_ Hs1]. cbn [fst snd] in *.
    destruct (binop_of_kind (tk optok)) as [o|]; [|exact I].
    bstep (IH st1 (precedence_of (tk optok)) Hs1). intros [rhs st2] [Hr Hs2]. cbn [fst snd] in *.
    apply post_any. intros _. apply post_any. intros _.
    split; [split; [apply RE_infix; assumption|exact Hs2]|reflexivity].
  Qed.

  Lemma sub_path_post f st (mk : segs -> fexpr) :
    SP_path f -> sall st ->
    (forall p, rp_expr E (mk p) = rp_segs E p /\ st_expr (mk p) = st_segs p /\
               pr_expr re_ok (mk p) = pr_segs re_ok p /\ arg_form (mk p) = true) ->
    post (sub_path E re_ok f st mk) (fun r => Qe r /\ arg_form (fst r) = true).
  Proof.
    intros IH Hs Hmk. unfold sub_path. bstep (next_token_post st Hs). intros r0 [_ Hs1].
    bstep (IH true (snd r0) [] Hs1 (Forall_nil _)). intros r [Hl Hs2].
    destruct (Hmk (segs_of (fst r))) as (E1 & E2 & E3 & E4). destruct (RGs_of (fst r) Hl) as (Hr & Hp & Hst).
    split; [split; [|exact Hs2]|exact E4]. cbn [fst]. split; [rewrite E1; exact Hr|split; [rewrite E3; exact Hp|rewrite E2; exact Hst]].
  Qed.

  Lemma regex_primary_post st :
    sall st -> tk (s_cur st) = TRePattern -> post (regex_primary re_ok st) Qe.
  Proof.
    intros Hs Hk. unfold regex_primary. bstep (peek_post st Hs). intros [nxt st1] Hs1. cbn [fst snd] in *.
    eapply post_bind with (Q := fun r : reflags * stream => sall (snd r)).
    { destruct (is_kind TReFlags nxt); [|exact Hs1]. bstep (next_token_post st1 Hs1). intros r' [_ H]. exact H. }
    intros r Hs2. destruct (re_ok (tv (s_cur st))) as [[|]|] eqn:Hre; try exact I.
    split; [|exact Hs2]. split; [reflexivity|]. split; [|reflexivity]. cbn [fst snd].
    change (pr_expr re_ok (FRegex (tv (s_cur st)) (fst r)))
      with (regex_ok (tv (s_cur st)) && match re_ok (tv (s_cur st)) with Some true => true | _ => false end).
    rewrite Hre. pose proof (proj1 Hs) as Ht. unfold tok_ok2 in Ht. rewrite Hk in Ht. rewrite Ht. reflexivity.
  Qed.

  Lemma grp_loop_post f : SP_infix f -> forall g e st,
    sall st -> RE e -> post (grp_loop E re_ok f g e st) Qe.
  Proof.
    intros IHi. induction g as [|g IH]; intros e st Hs He; [exact I|].
    rewrite grp_loop_S. destruct (is_kind TRParen (s_cur st)); [split; assumption|].
    destruct (is_kind TEof (s_cur st)); [exact I|]. destruct (binop_of_kind _); [|exact I].
    bstep (IHi st e Hs He). intros r2 [[Hre Hs2] _]. apply IH; assumption.
  Qed.

  Lemma finish_call_post name acc st :
    sall st -> fname_ok name = true -> Forall AR acc ->
    post (finish_call E name acc st) (fun r => Qe r /\ arg_form (fst r) = true).
  Proof.
    intros Hs Hn Hacc. unfold finish_call. destruct (e_well_typed E).
    - destruct (validate_function name (rev acc)) as [u|] eqn:Hv; [|exact I]. cbn [bind post fst snd].
      pose proof (validate_noinfix _ _ _ Hv) as Hni.
      assert (Hall : Forall (fun e => arg_form e = true /\ RE e) (rev acc)).
      { apply Forall_forall. intros e He. rewrite Forall_forall in Hni. specialize (Hni e He).
        pose proof (Forall_rev' _ _ Hacc) as Hr. rewrite Forall_forall in Hr. destruct (Hr e He) as [[Ha|Hi] Hre].
        - split; assumption.
        - rewrite Hi in Hni. discriminate Hni. }
      destruct (ARs_of _ Hall) as (Hr & Hp & Hst).
      split; [split; [|exact Hs]|reflexivity]. cbn [fst snd]. split; [exact Hr|]. split; [|exact Hst].
      change (pr_expr re_ok (FFunc name (fexprs_of (rev acc)))) with (fname_ok name && pr_exprs re_ok (fexprs_of (rev acc))).
      rewrite Hn, Hp. reflexivity.
    - destruct (fn_sig name); exact I.
  Qed.

  Lemma arg_primary_post f st :
    SP_primary f -> sall st -> post (arg_primary E re_ok f st) (fun r => AR (fst r) /\ sall (snd r)).
  Proof.
    intros IH Hs. unfold arg_primary.
    destruct (tk (s_cur st)) eqn:Hk; try exact I;
      (eapply post_weaken; [exact (IH st Hs)|]; intros r [[Hre Hs1] Ha]; rewrite Hk in Ha;
       split; [split; [left; apply Ha; reflexivity|exact Hre]|exact Hs1]).
  Qed.

  Lemma after_arg_post pk : sall (snd pk) -> post (after_arg pk) sall.
  Proof.
    intros Hs. unfold after_arg. destruct (is_kind TRParen (fst pk)); [exact Hs|].
    destruct (is_kind TComma (fst pk)); [|exact I]. bstep (next_token_post (snd pk) Hs). intros r [_ H]. exact H.
  Qed.

  Lemma args_loop_post f name : SP_primary f -> SP_infix f -> fname_ok name = true -> forall g st acc,
    sall st -> Forall AR acc ->
    post (args_loop E re_ok f name g st acc) (fun r => Qe r /\ arg_form (fst r) = true).
  Proof.
    intros IHp IHi Hn. induction g as [|g IH]; intros st acc Hs Hacc; [exact I|].
    rewrite args_loop_S. destruct (is_kind TRParen (s_cur st)); [apply finish_call_post; assumption|].
    bstep (arg_primary_post f st IHp Hs). intros a [Ha Hsa].
    generalize (fst a) (snd a) Ha Hsa. clear a Ha Hsa. generalize f at 2. intros h.
    induction h as [|h IHh]; intros e st' He Hs'; [exact I|].
    rewrite ops_loop_S. bstep (peek_post st' Hs'). intros pk Hs1.
    destruct (binop_of_kind (tk (fst pk))).
    - bstep (next_token_post (snd pk) Hs1). intros r [_ Hs2].
      bstep (IHi (snd r) e Hs2 (proj2 He)). intros r2 [[Hre Hs3] Hinf].
      apply IHh; [split; [right; exact Hinf|exact Hre]|exact Hs3].
    - bstep (after_arg_post pk Hs1). intros st2 Hs2. bstep (next_token_post st2 Hs2). intros r3 [_ Hs3].
      apply IH; [exact Hs3|constructor; assumption].
  Qed.

  Lemma primary_step f : SP_path f -> SP_fs f -> SP_infix f -> SP_primary f -> SP_primary (S f).
  Proof.
    intros IHpath IHfs IHi IHp st Hs. rewrite parse_primary_S.
    assert (Hlit : forall e, RE e -> arg_form e = true ->
              post (Ok (e, st)) (fun r => Qe r /\ (arg_kindb (tk (s_cur st)) = true -> arg_form (fst r) = true))).
    { intros e He Ha. split; [split; assumption|intros _; exact Ha]. }
    assert (Hlit' : forall e, RE e -> arg_kindb (tk (s_cur st)) = false ->
              post (Ok (e, st)) (fun r => Qe r /\ (arg_kindb (tk (s_cur st)) = true -> arg_form (fst r) = true))).
    { intros e He Hk. split; [split; assumption|]. rewrite Hk. intros H. discriminate H. }
    assert (Hsub : forall mk,
              (forall p, rp_expr E (mk p) = rp_segs E p /\ st_expr (mk p) = st_segs p /\
                         pr_expr re_ok (mk p) = pr_segs re_ok p /\ arg_form (mk p) = true) ->
              post (sub_path E re_ok f st mk)
                   (fun r => Qe r /\ (arg_kindb (tk (s_cur st)) = true -> arg_form (fst r) = true))).
    { intros mk Hmk. eapply post_weaken; [exact (sub_path_post f st mk IHpath Hs Hmk)|].
      intros r [Hq Ha]. split; [exact Hq|intros _; exact Ha]. }
    destruct (tk (s_cur st)) eqn:Hk; try exact I.
    - apply Hsub. intros p. repeat split.
    - apply Hsub. intros p. repeat split.
    - apply Hsub. intros p. repeat split.
    - apply Hlit; [r3|reflexivity].
    - apply Hsub. intros p. repeat split.
    - apply post_any. intros s. apply Hlit; [r3|reflexivity].
    - apply post_any. intros s. apply Hlit; [r3|reflexivity].
    - eapply post_weaken; [exact (regex_primary_post st Hs Hk)|]. intros r Hq. split; [exact Hq|intros H; discriminate H].
    - (* TFunction *)
      bstep (next_token_post st Hs). intros r0 [_ Hs1].
      assert (Hn : fname_ok (tv (s_cur st)) = true).
      { pose proof (proj1 Hs) as Ht. unfold tok_ok2 in Ht. rewrite Hk in Ht. exact Ht. }
      eapply post_weaken; [exact (args_loop_post f _ IHp IHi Hn f (snd r0) [] Hs1 (Forall_nil _))|].
      intros r [Hq Ha]. split; [exact Hq|intros _; exact Ha].
    - destruct (parse_float_literal _) as [e|] eqn:H; [|exact I]. cbn [bind].
      destruct (float_lit _ _ H) as (_ & Hre & Ha). apply Hlit; assumption.
    - destruct (parse_int_literal _) as [e|] eqn:H; [|exact I]. cbn [bind].
      destruct (int_lit _ _ H) as (_ & Hre & Ha). apply Hlit; assumption.
    - apply Hlit; [r3|reflexivity].
    - apply Hlit; [r3|reflexivity].
    - apply Hlit; [r3|reflexivity].
    - apply Hlit'; [r3|reflexivity].
    - apply Hlit'; [r3|reflexivity].
    - (* list literal *)
      bstep (next_token_post st Hs). intros r0 [_ Hs1].
      bstep (parse_list_items_post f (snd r0) [] Hs1 (Forall_nil _)). intros r [Hl Hs2].
      split; [|intros H; discriminate H]. split; [|exact Hs2]. destruct (LITs_of (fst r) Hl) as [Hpl Hsl].
      split; [reflexivity|split; [exact Hpl|exact Hsl]].
    - (* ! *)
      bstep (next_token_post st Hs). intros r0 [_ Hs1].
      bstep (IHfs (snd r0) 7 Hs1). intros r [Hre Hs2]. apply post_any. intros _.
      split; [|intros H; discriminate H]. split; [exact Hre|exact Hs2].
    - (* ( *)
      bstep (next_token_post st Hs). intros r0 [_ Hs1].
      bstep (IHfs (snd r0) 1 Hs1). intros r [Hre Hs2].
      bstep (next_token_post (snd r) Hs2). intros r1 [_ Hs3].
      eapply post_weaken; [exact (grp_loop_post f IHi f (fst r) (snd r1) Hs3 Hre)|].
      intros r2 Hq. split; [exact Hq|intros H; discriminate H].
  Qed.

  Definition SPS (f : nat) : Prop :=
    SP_path f /\ SP_sellist f /\ SP_filter f /\ SP_fs f /\ SP_infix f /\ SP_primary f.

  Theorem parser_printable f : SPS f.
  Proof.
    induction f as [|f (IHpath & IHsl & IHfilter & IHfs & IHi & IHp)].
    - repeat split; intro; intros; exact I.
    - repeat split.
      + apply path_step; assumption.
      + apply sellist_step; assumption.
      + apply filter_step; assumption.
      + apply fs_step; assumption.
      + apply infix_step; assumption.
      + apply primary_step; assumption.
  Qed.

  (* ---- paths, compound queries ---- *)

  Definition RP (p : jpath) : Prop :=
    rp_segs E (p_segs p) = true /\ pr_segs re_ok (p_segs p) = true /\ st_segs (p_segs p) = true.

  Lemma parse_one_post fuel st :
    sall st -> post (parse_one E re_ok fuel st) (fun r => RP (fst r) /\ sall (snd r)).
  Proof.
    intros Hs. unfold parse_one.
    eapply post_bind with (Q := sall).
    { destruct (_ || _); [|exact Hs]. bstep (next_token_post st Hs). intros r [_ H]. exact H. }
    intros st1 Hs1. destruct (parser_printable fuel) as (Hpath & _).
    bstep (Hpath false st1 [] Hs1 (Forall_nil _)). intros r [Hl Hs2]. cbv zeta.
    destruct (_ || _); [|exact I]. split; [exact (RGs_of (fst r) Hl)|exact Hs2].
  Qed.

  Lemma compile_rest_post pfuel : forall fuel st acc,
    sall st -> Forall (fun op => RP (snd op)) acc ->
    post (compile_rest E re_ok fuel pfuel st acc) (Forall (fun op => RP (snd op))).
  Proof.
    induction fuel as [|fuel IH]; intros st acc Hs Hacc; [exact I|].
    cbn [compile_rest]. destruct (is_kind TEof (s_cur st)); [apply Forall_rev'; exact Hacc|].
    bstep (peek_post st Hs). intros pk Hs1. destruct (is_kind TEof (fst pk)); [exact I|]. cbv zeta.
    destruct (is_kind TUnion (s_cur (snd pk))).
    { bstep (next_token_post (snd pk) Hs1). intros r [_ Hs2].
      bstep (parse_one_post pfuel (snd r) Hs2). intros p [Hp Hs3].
      apply IH; [exact Hs3|constructor; assumption]. }
    destruct (is_kind TIntersect (s_cur (snd pk))); [|exact I].
    bstep (next_token_post (snd pk) Hs1). intros r [_ Hs2].
    bstep (parse_one_post pfuel (snd r) Hs2). intros p [Hp Hs3].
    apply IH; [exact Hs3|constructor; assumption].
  Qed.

  Lemma compile_tokens_post toks :
    Forall tok_ok2 toks ->
    post (compile_tokens E re_ok toks)
         (fun q => reparsable E q = true /\ printable re_ok q = true /\ floats_stable q = true).
  Proof.
    intros Htoks. unfold compile_tokens. cbv zeta. unfold init_stream.
    assert (Hinit : sall (mkStream (mkTok TIllegal []) [] toks)) by (repeat split; [constructor|exact Htoks]).
    bstep (advance_post _ Hinit). intros st Hs.
    eapply post_bind; [apply parse_one_post; exact Hs|]. cbv beta. intros p [(Hr & Hp & Hst) Hs1].
    eapply post_bind; [apply compile_rest_post; [exact Hs1|apply Forall_nil]|]. cbv beta. intros rest Hrest.
    cbn [post]. unfold reparsable, floats_stable, printable. cbn [q_first q_rest].
    rewrite Forall_forall in Hrest.
    rewrite Hr, Hp, Hst. cbn [andb].
    repeat split; apply forallb_forall; intros op Hin; destruct (Hrest op Hin) as (H1' & H2' & H3'); assumption.
  Qed.
End PSpec.
