(* FluentProofs.v — the iterator machine of Fluent.v refines list slicing. *)
From JP Require Import Base Fluent ListSpec.

Section Proofs.
  Variable A : Type.
  Notation iter := (iter A).

  (* abstraction: what an iterator will still yield *)
  Fixpoint abs (it : iter) : list A :=
    match it with
    | IList l => l
    | ISlice src n => firstn n (abs src)
    end.

  Lemma next_abs it :
    match next A it with
    | None => abs it = []
    | Some (x, it') => abs it = x :: abs it'
    end.
  Proof.
    induction it as [l | src IH n]; simpl.
    - destruct l; reflexivity.
    - destruct n as [|n]; simpl; [reflexivity|].
      destruct (next A src) as [[x src']|]; simpl.
      + rewrite IH. reflexivity.
      + rewrite IH. reflexivity.
  Qed.

  Lemma bound_abs it : bound A it = length (abs it).
  Proof.
    induction it as [l | src IH n]; simpl; [reflexivity|].
    rewrite firstn_length, IH. reflexivity.
  Qed.

  Lemma pull_abs n it :
    fst (pull A n it) = firstn n (abs it) /\ abs (snd (pull A n it)) = skipn n (abs it).
  Proof.
    revert it; induction n as [|n IH]; intros it; simpl; [split; reflexivity|].
    pose proof (next_abs it) as H.
    destruct (next A it) as [[x it']|]; simpl.
    - specialize (IH it'). destruct (pull A n it') as [xs it''] eqn:E; simpl in *.
      rewrite H; simpl. destruct IH as [IH1 IH2]. split; congruence.
    - rewrite H. split; reflexivity.
  Qed.

  Lemma drain_op_abs it : drain_op A it = abs it.
  Proof.
    unfold drain_op. rewrite (proj1 (pull_abs _ _)), bound_abs. apply firstn_all.
  Qed.

  (* deque(maxlen=n) keeps the last n *)
  Lemma lastn_app_le n (l : list A) x :
    lastn A n (l ++ [x]) = match n with O => [] | S m => lastn A m l ++ [x] end.
  Proof.
    unfold lastn. rewrite app_length; simpl. destruct n as [|m].
    - replace (length l + 1 - 0) with (length (l ++ [x])) by (rewrite app_length; simpl; lia).
      apply skipn_all.
    - replace (length l + 1 - S m) with (length l - m) by lia.
      rewrite skipn_app.
      replace (length l - m - length l) with 0 by lia. reflexivity.
  Qed.

  Lemma lastn_length n (l : list A) : length (lastn A n l) = Nat.min n (length l).
  Proof. unfold lastn. rewrite skipn_length. lia. Qed.

  Lemma lastn_short n (l : list A) : length l <= n -> lastn A n l = l.
  Proof. intros H. unfold lastn. replace (length l - n) with 0 by lia. reflexivity. Qed.

  Lemma tl_skipn k (l : list A) : tl (skipn k l) = skipn (S k) l.
  Proof. revert l; induction k as [|k IH]; intros [|y l]; simpl; auto. apply (IH l). Qed.

  Lemma push_lastn n (pre : list A) x :
    deque_push A n (lastn A n pre) x = lastn A n (pre ++ [x]).
  Proof.
    rewrite lastn_app_le. unfold deque_push. destruct n as [|m]; [reflexivity|].
    rewrite lastn_length.
    destruct (Nat.ltb (Nat.min (S m) (length pre)) (S m)) eqn:E.
    - apply Nat.ltb_lt in E. rewrite !lastn_short by lia. reflexivity.
    - apply Nat.ltb_ge in E. f_equal. unfold lastn. rewrite tl_skipn. f_equal. lia.
  Qed.

  Lemma deque_fold n (xs pre : list A) :
    fold_left (deque_push A n) xs (lastn A n pre) = lastn A n (pre ++ xs).
  Proof.
    revert pre; induction xs as [|x xs IH]; intros pre; simpl.
    - rewrite app_nil_r. reflexivity.
    - rewrite push_lastn, IH, <- app_assoc. reflexivity.
  Qed.

  Lemma deque_of_lastn n (xs : list A) : deque_of A n xs = lastn A n xs.
  Proof.
    unfold deque_of. change (@nil A) with (lastn A n []). rewrite deque_fold. reflexivity.
  Qed.

  (* ---- per-operation commutation ---------------------------------------- *)

  Lemma set_nth_map {B C} (f : B -> C) l i x :
    map f (set_nth l i x) = set_nth (map f l) i (f x).
  Proof. revert i; induction l; intros [|i]; simpl; auto. f_equal. apply IHl. Qed.

  Lemma nth_opt_map {B C} (f : B -> C) l i :
    nth_opt (map f l) i = option_map f (nth_opt l i).
  Proof. revert i; induction l; intros [|i]; simpl; auto. Qed.

  Lemma last_opt_lastn1 (l : list A) : hd_error (lastn A 1 l) = last_opt l.
  Proof.
    induction l as [|x l IH]; [reflexivity|].
    destruct l as [|y l]; [reflexivity|].
    change (last_opt (x :: y :: l)) with (last_opt (y :: l)).
    rewrite <- IH. unfold lastn. simpl length.
    replace (S (S (length l)) - 1) with (S (length l)) by lia.
    replace (S (length l) - 1) with (length l) by lia. reflexivity.
  Qed.

  Lemma map_repeat {B C} (f : B -> C) x n : map f (repeat x n) = repeat (f x) n.
  Proof. induction n; simpl; congruence. Qed.

  Lemma step_refines st o :
    map abs (fst (fstep A st o)) = fst (sstep A (map abs st) o) /\
    snd (fstep A st o) = snd (sstep A (map abs st) o).
  Proof.
    destruct o as [q n|q n|q n|q n|q n|q|q]; simpl;
      rewrite nth_opt_map; destruct (nth_opt st q) as [it|] eqn:Eq; simpl; auto.
    - (* limit *) unfold limit, neg. destruct (Z.ltb n 0); simpl; auto.
      rewrite set_nth_map. auto.
    - (* drop *) unfold drop, neg. destruct (Z.ltb n 0); simpl; auto.
      destruct (Z.ltb 0 n) eqn:E; simpl; rewrite set_nth_map.
      + rewrite (proj2 (pull_abs _ _)). auto.
      + replace (Z.to_nat n) with 0 by lia. auto.
    - (* tail *) unfold tail, neg. destruct (Z.ltb n 0); simpl; auto.
      rewrite set_nth_map. simpl. rewrite deque_of_lastn, drain_op_abs. auto.
    - (* take *) unfold take, neg. destruct (Z.ltb n 0); simpl; auto.
      pose proof (pull_abs (Z.to_nat n) it) as [H1 H2].
      destruct (pull A (Z.to_nat n) it) as [xs it']; simpl in *.
      rewrite map_app, set_nth_map; simpl. rewrite H1, H2. auto.
    - (* tee *) unfold tee, neg. destruct (Z.ltb n 0); simpl; auto.
      rewrite map_app, set_nth_map, map_repeat; simpl. rewrite drain_op_abs.
      rewrite !repeat_length. auto.
    - (* first_one *) unfold first_one. pose proof (next_abs it) as H.
      destruct (next A it) as [[x it']|]; simpl; rewrite set_nth_map, H; simpl; auto.
    - (* last_one *) unfold last_one, first_one. simpl.
      rewrite deque_of_lastn, drain_op_abs.
      rewrite <- last_opt_lastn1.
      destruct (lastn A 1 (abs it)) as [|x r] eqn:E; simpl; rewrite set_nth_map; simpl; auto.
      assert (Hl : length (lastn A 1 (abs it)) <= 1) by (rewrite lastn_length; lia).
      rewrite E in Hl. destruct r; simpl in Hl; [auto|lia].
  Qed.

  Lemma run_refines ops st :
    map abs (fst (run A ops st)) = fst (srun A ops (map abs st)) /\
    snd (run A ops st) = snd (srun A ops (map abs st)).
  Proof.
    revert st; induction ops as [|o ops IH]; intros st; simpl; auto.
    pose proof (step_refines st o) as [H1 H2].
    destruct (fstep A st o) as [st' ev]; destruct (sstep A (map abs st) o) as [sst' sev]; simpl in *.
    subst sev. rewrite <- H1. specialize (IH st').
    destruct (run A ops st') as [st'' ev']; destruct (srun A ops (map abs st')) as [sst'' sev']; simpl in *.
    destruct IH as [IH1 IH2]. subst. auto.
  Qed.

  Theorem observe_refines ops xs : observe A ops xs = sobserve A ops xs.
  Proof.
    unfold observe, sobserve.
    pose proof (run_refines ops [IList xs]) as [H1 H2]. simpl in *.
    destruct (run A ops [IList xs]) as [st ev]; destruct (srun A ops [xs]) as [sst sev]; simpl in *.
    subst sev. f_equal. rewrite <- H1. apply map_ext. intros. apply drain_op_abs.
  Qed.

  (* negative counts: refused, nothing changes *)
  Theorem negative_refused st o q n :
    (o = OLimit q n \/ o = ODrop q n \/ o = OTail q n \/ o = OTake q n \/ o = OTee q n) ->
    (n < 0)%Z -> q < length st ->
    fstep A st o = (st, [EvValueError]).
  Proof.
    intros Ho Hn Hq.
    assert (Hlt : Z.ltb n 0 = true) by (apply Z.ltb_lt; exact Hn).
    assert (exists it, nth_opt st q = Some it) as [it Hit].
    { rewrite nth_opt_nth_error. destruct (nth_error st q) eqn:E; eauto.
      apply nth_error_None in E. lia. }
    destruct Ho as [->|[->|[->|[->| ->]]]]; simpl; rewrite Hit;
      unfold limit, drop, tail, take, tee; rewrite Hlt; reflexivity.
  Qed.
End Proofs.
