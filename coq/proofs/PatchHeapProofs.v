(* PatchHeapProofs.v — aliasing facts about JSON Patch application, on the heap model
   (model/PatchHeap.v): what is written (frame), what the result shares with the patch and
   with other documents (independence), in-place application, and freshness of copies. *)
From JP Require Import Base Json PyStr Pointer Patch PatchHeap.

(* ---------------------------------------------------------------------- *)
(* Heaps. *)

Lemma hset_get h a c b : h_get (hset h a c) b = if Nat.eqb b a then Some c else h_get h b.
Proof. reflexivity. Qed.

Lemma hset_same h a c : h_get (hset h a c) a = Some c.
Proof. rewrite hset_get, Nat.eqb_refl. reflexivity. Qed.

Lemma hset_other h a c b : b <> a -> h_get (hset h a c) b = h_get h b.
Proof. intros H. rewrite hset_get. apply Nat.eqb_neq in H. rewrite H. reflexivity. Qed.

Lemma hset_next h a c : h_next (hset h a c) = h_next h.
Proof. reflexivity. Qed.

Definition vrefs (v : hval) : list addr := match v with HRef a => [a] | HLit _ => [] end.
Definition crefs (c : cell) : list addr := flat_map vrefs (cvals c).

Lemma in_crefs c b : In b (crefs c) <-> In (HRef b) (cvals c).
Proof.
  unfold crefs. rewrite in_flat_map. split.
  - intros [v [Hv Hb]]. destruct v; cbn in Hb; [contradiction|]. destruct Hb as [->|[]]. exact Hv.
  - intros H. exists (HRef b). split; auto. left. reflexivity.
Qed.

(* every cell is allocated and refers to allocated cells only *)
Definition closed (h : heap) : Prop :=
  forall a c, h_get h a = Some c -> a < h_next h /\ forall b, In b (crefs c) -> b < h_next h.

Definition valloc (h : heap) (v : hval) : Prop :=
  match v with HRef a => a < h_next h | HLit _ => True end.

(* addresses reachable from a value *)
Inductive reach (h : heap) : hval -> addr -> Prop :=
| reach_here a : reach h (HRef a) a
| reach_step a c v b : h_get h a = Some c -> In v (cvals c) -> reach h v b -> reach h (HRef a) b.

Lemma reach_alloc h v b : closed h -> valloc h v -> reach h v b -> b < h_next h.
Proof.
  intros Hc Hv H. induction H as [a | a c v b Hg Hin _ IH]; [exact Hv|].
  apply IH. destruct v as [j|a']; [exact I|]. cbn. apply (Hc a c Hg). apply in_crefs. exact Hin.
Qed.

(* h' extends h: nothing allocated is changed, the new cells refer to new cells only *)
Definition ext (h h' : heap) : Prop :=
  h_next h <= h_next h' /\
  (forall a, a < h_next h -> h_get h' a = h_get h a) /\
  (forall a c, h_next h <= a -> h_get h' a = Some c ->
     a < h_next h' /\ forall b, In b (crefs c) -> h_next h <= b < h_next h').

Lemma ext_refl h : closed h -> ext h h.
Proof.
  intros Hc. repeat split; auto.
  - destruct (Hc a c H0). lia.
  - destruct (Hc a c H0). lia.
  - destruct (Hc a c H0) as [Ha _]. lia.
Qed.

Lemma ext_trans h1 h2 h3 : ext h1 h2 -> ext h2 h3 -> ext h1 h3.
Proof.
  intros [N12 [O12 F12]] [N23 [O23 F23]]. split; [lia|]. split.
  - intros a Ha. rewrite O23 by lia. apply O12. exact Ha.
  - intros a c Ha Hg. destruct (Nat.lt_ge_cases a (h_next h2)) as [Hlt|Hge].
    + rewrite O23 in Hg by exact Hlt. destruct (F12 a c Ha Hg) as [Ha' Hr]. split; [lia|].
      intros b Hb. specialize (Hr b Hb). lia.
    + destruct (F23 a c Hge Hg) as [Ha' Hr]. split; [exact Ha'|].
      intros b Hb. specialize (Hr b Hb). lia.
Qed.

Lemma ext_closed h h' : closed h -> ext h h' -> closed h'.
Proof.
  intros Hc [N [O F]] a c Hg. destruct (Nat.lt_ge_cases a (h_next h)) as [Hlt|Hge].
  - rewrite O in Hg by exact Hlt. destruct (Hc a c Hg) as [Ha Hr]. split; [lia|].
    intros b Hb. specialize (Hr b Hb). lia.
  - destruct (F a c Hge Hg) as [Ha Hr]. split; [exact Ha|]. intros b Hb. specialize (Hr b Hb). lia.
Qed.

Lemma alloc_after h0 h1 c :
  closed h0 -> ext h0 h1 -> (forall b, In b (crefs c) -> h_next h0 <= b < h_next h1) ->
  ext h0 (fst (halloc h1 c)) /\
  h_next h0 <= snd (halloc h1 c) < h_next (fst (halloc h1 c)) /\
  h_get (fst (halloc h1 c)) (snd (halloc h1 c)) = Some c.
Proof.
  intros Hc He Hr. pose proof (ext_closed _ _ Hc He) as Hc1. destruct He as [N [O F]].
  cbn. split; [|split; [lia|rewrite Nat.eqb_refl; reflexivity]].
  split; [cbn; lia|]. split.
  - intros a Ha. cbn. destruct (Nat.eqb_spec a (h_next h1)); [lia|]. apply O. exact Ha.
  - intros a c0 Ha Hg. cbn in *. destruct (Nat.eqb_spec a (h_next h1)) as [->|Hne].
    + injection Hg as <-. split; [lia|]. intros b Hb. specialize (Hr b Hb). lia.
    + destruct (F a c0 Ha Hg) as [Ha' Hr']. split; [lia|]. intros b Hb. specialize (Hr' b Hb). lia.
Qed.

(* ---------------------------------------------------------------------- *)
(* deepcopy allocates a fresh, self-contained copy and changes nothing else. *)

Definition copy_list (cp : heap -> hval -> result (heap * hval)) :=
  fix go (h : heap) (xs : list hval) : result (heap * list hval) :=
    match xs with
    | [] => Ok (h, [])
    | x :: r => c <- cp h x ;; cs <- go (fst c) r ;; Ok (fst cs, snd c :: snd cs)
    end.

Definition copy_members (cp : heap -> hval -> result (heap * hval)) :=
  fix go (h : heap) (ms : list (ustr * hval)) : result (heap * list (ustr * hval)) :=
    match ms with
    | [] => Ok (h, [])
    | (k, x) :: r => c <- cp h x ;; cs <- go (fst c) r ;; Ok (fst cs, (k, snd c) :: snd cs)
    end.

Lemma deepcopy_S f h a :
  deepcopy (S f) h (HRef a) =
  match h_get h a with
  | Some (CArr xs) =>
      r <- copy_list (deepcopy f) h xs ;;
      let '(h2, b) := halloc (fst r) (CArr (snd r)) in Ok (h2, HRef b)
  | Some (CObj ms) =>
      r <- copy_members (deepcopy f) h ms ;;
      let '(h2, b) := halloc (fst r) (CObj (snd r)) in Ok (h2, HRef b)
  | None => Err EOutOfFuel
  end.
Proof. reflexivity. Qed.

Definition vfresh (h h' : heap) (v : hval) : Prop :=
  match v with HLit _ => True | HRef b => h_next h <= b < h_next h' end.

Lemma vfresh_mono h0 h1 h2 h3 v :
  h_next h0 <= h_next h1 -> h_next h2 <= h_next h3 -> vfresh h1 h2 v -> vfresh h0 h3 v.
Proof. destruct v; cbn; auto. lia. Qed.

Definition copy_ok (h h' : heap) (v : hval) : Prop := ext h h' /\ vfresh h h' v.

Lemma deepcopy_spec f : forall h v h' c,
  closed h -> deepcopy f h v = Ok (h', c) -> ext h h' /\ vfresh h h' c.
Proof.
  induction f as [|f IH]; intros h v h' c Hc H.
  - destruct v; cbn in H; [|discriminate]. injection H as <- <-. split; [apply ext_refl; auto|exact I].
  - destruct v as [j|a]; [cbn in H; injection H as <- <-; split; [apply ext_refl; auto|exact I]|].
    rewrite deepcopy_S in H.
    assert (Hlist : forall xs h0 h1 cs, closed h0 -> copy_list (deepcopy f) h0 xs = Ok (h1, cs) ->
                    ext h0 h1 /\ Forall (vfresh h0 h1) cs).
    { induction xs as [|x r IHr]; intros h0 h1 cs Hc0 Hl; cbn in Hl.
      - injection Hl as <- <-. split; [apply ext_refl; auto|constructor].
      - destruct (deepcopy f h0 x) as [[hx cx]|] eqn:Ex; [|discriminate]. cbn [bind fst snd] in Hl.
        destruct (copy_list (deepcopy f) hx r) as [[hr cr]|] eqn:Er; [|discriminate].
        cbn [bind fst snd] in Hl. injection Hl as <- <-.
        destruct (IH _ _ _ _ Hc0 Ex) as [E1 F1].
        destruct (IHr _ _ _ (ext_closed _ _ Hc0 E1) Er) as [E2 F2].
        split; [eapply ext_trans; eauto|]. constructor.
        + eapply vfresh_mono; [| |exact F1]; [lia|apply E2].
        + eapply Forall_impl; [|exact F2]. intros v0 Hv. eapply vfresh_mono; [| |exact Hv]; [apply E1|lia]. }
    assert (Hmem : forall ms h0 h1 cs, closed h0 -> copy_members (deepcopy f) h0 ms = Ok (h1, cs) ->
                    ext h0 h1 /\ Forall (fun kv => vfresh h0 h1 (snd kv)) cs).
    { induction ms as [|[k x] r IHr]; intros h0 h1 cs Hc0 Hl; cbn in Hl.
      - injection Hl as <- <-. split; [apply ext_refl; auto|constructor].
      - destruct (deepcopy f h0 x) as [[hx cx]|] eqn:Ex; [|discriminate]. cbn [bind fst snd] in Hl.
        destruct (copy_members (deepcopy f) hx r) as [[hr cr]|] eqn:Er; [|discriminate].
        cbn [bind fst snd] in Hl. injection Hl as <- <-.
        destruct (IH _ _ _ _ Hc0 Ex) as [E1 F1].
        destruct (IHr _ _ _ (ext_closed _ _ Hc0 E1) Er) as [E2 F2].
        split; [eapply ext_trans; eauto|]. constructor.
        + cbn [snd]. eapply vfresh_mono; [| |exact F1]; [lia|apply E2].
        + eapply Forall_impl; [|exact F2]. intros v0 Hv. eapply vfresh_mono; [| |exact Hv]; [apply E1|lia]. }
    destruct (h_get h a) as [[ms|xs]|]; [| |discriminate].
    + destruct (copy_members (deepcopy f) h ms) as [[h1 cs]|] eqn:El; [|discriminate].
      cbn [bind fst snd] in H. destruct (Hmem _ _ _ _ Hc El) as [E1 F1].
      assert (Hr : forall b, In b (crefs (CObj cs)) -> h_next h <= b < h_next h1).
      { intros b Hb. apply in_crefs in Hb. cbn [cvals] in Hb. apply in_map_iff in Hb as [[k v0] [Ev Hin]].
        cbn in Ev. subst v0. rewrite Forall_forall in F1. exact (F1 _ Hin). }
      destruct (alloc_after h h1 (CObj cs) Hc E1 Hr) as [E2 [Hb _]].
      destruct (halloc h1 (CObj cs)) as [h2 b]. injection H as <- <-. cbn [fst snd] in *. split; auto.
    + destruct (copy_list (deepcopy f) h xs) as [[h1 cs]|] eqn:El; [|discriminate].
      cbn [bind fst snd] in H. destruct (Hlist _ _ _ _ Hc El) as [E1 F1].
      assert (Hr : forall b, In b (crefs (CArr cs)) -> h_next h <= b < h_next h1).
      { intros b Hb. apply in_crefs in Hb. cbn [cvals] in Hb. rewrite Forall_forall in F1. exact (F1 _ Hb). }
      destruct (alloc_after h h1 (CArr cs) Hc E1 Hr) as [E2 [Hb _]].
      destruct (halloc h1 (CArr cs)) as [h2 b]. injection H as <- <-. cbn [fst snd] in *. split; auto.
Qed.

(* ---------------------------------------------------------------------- *)
(* One or several operations, abstractly: the cells written are listed in W; every other
   allocated cell is unchanged; written cells only lose references or gain references to cells
   allocated since; cells allocated since refer to such cells only; the root is kept or fresh. *)

Definition step (W : list addr) (h : heap) (root : hval) (h' : heap) (root' : hval) : Prop :=
  h_next h <= h_next h' /\
  (forall w, In w W -> reach h root w \/ h_next h <= w) /\
  (forall a, a < h_next h -> ~ In a W -> h_get h' a = h_get h a) /\
  (forall a c', a < h_next h -> h_get h' a = Some c' ->
     exists c, h_get h a = Some c /\ forall b, In b (crefs c') -> In b (crefs c) \/ h_next h <= b) /\
  (forall a c', h_next h <= a -> h_get h' a = Some c' -> forall b, In b (crefs c') -> h_next h <= b) /\
  (root' = root \/ vfresh h h' root') /\
  closed h'.

Lemma reach_lit h j b : ~ reach h (HLit j) b.
Proof. intros H. inversion H. Qed.

Definition vnew (h : heap) (v : hval) : Prop :=
  match v with HLit _ => True | HRef b => h_next h <= b end.

Lemma vfresh_vnew h h' v : vfresh h h' v -> vnew h v.
Proof. destruct v; cbn; auto. lia. Qed.

(* what is reachable afterwards was reachable before, or has been allocated since *)
Lemma reach_sub W h root h' root' :
  closed h -> step W h root h' root' ->
  forall v b, reach h' v b ->
    (vnew h v -> h_next h <= b) /\
    (valloc h v -> reach h v b \/ h_next h <= b).
Proof.
  intros Hc [N [_ [_ [Hold [Hnew _]]]]] v b H.
  induction H as [a | a c' v b Hg Hin Hr [IHf IHo]].
  - split; [cbn; lia|]. intros _. left. constructor.
  - split.
    + intros Hf. cbn in Hf. destruct v as [j|a']; [exfalso; eapply reach_lit; eauto|].
      apply IHf. cbn. apply (Hnew a c' Hf Hg). apply in_crefs. exact Hin.
    + intros Ha. cbn in Ha. destruct v as [j|a']; [exfalso; eapply reach_lit; eauto|].
      destruct (Hold a c' Ha Hg) as [c [Hgc Hrefs]].
      destruct (Hrefs a' ltac:(apply in_crefs; exact Hin)) as [Hin0|Hfresh].
      * assert (Ha' : valloc h (HRef a')) by (cbn; apply (Hc a c Hgc); exact Hin0).
        destruct (IHo Ha') as [Hr0|Hb]; [|right; exact Hb].
        left. eapply reach_step; [exact Hgc| |exact Hr0]. apply in_crefs. exact Hin0.
      * right. apply IHf. exact Hfresh.
Qed.

Lemma step_reach W h root h' root' b :
  closed h -> valloc h root -> step W h root h' root' ->
  reach h' root' b -> reach h root b \/ h_next h <= b.
Proof.
  intros Hc Hv Hs Hr. destruct (reach_sub _ _ _ _ _ Hc Hs _ _ Hr) as [Hf Ho].
  destruct Hs as [_ [_ [_ [_ [_ [[->|Hfr] _]]]]]]; [apply Ho; exact Hv|].
  right. apply Hf. eapply vfresh_vnew; eauto.
Qed.

Lemma step_valloc W h root h' root' :
  valloc h root -> step W h root h' root' -> valloc h' root'.
Proof.
  intros Hv [N [_ [_ [_ [_ [[->|Hfr] _]]]]]].
  - destruct root; cbn in *; auto. lia.
  - destruct root'; cbn in *; auto. lia.
Qed.

Lemma step_closed W h root h' root' : step W h root h' root' -> closed h'.
Proof. intros H. apply H. Qed.

Lemma step_trans W1 W2 h r h1 r1 h2 r2 :
  closed h -> valloc h r -> step W1 h r h1 r1 -> step W2 h1 r1 h2 r2 -> step (W1 ++ W2) h r h2 r2.
Proof.
  intros Hc Hv S1 S2. pose proof (step_closed _ _ _ _ _ S1) as Hc1. pose proof (step_valloc _ _ _ _ _ Hv S1) as Hv1.
  pose proof S1 as [N1 [Wr1 [Fr1 [Old1 [New1 [Rt1 _]]]]]].
  pose proof S2 as [N2 [Wr2 [Fr2 [Old2 [New2 [Rt2 Cl2]]]]]].
  split; [lia|]. split; [|split; [|split; [|split; [|split]]]].
  - intros w Hw. apply in_app_or in Hw as [Hw|Hw]; [apply Wr1; exact Hw|].
    destruct (Wr2 w Hw) as [Hr|Hn]; [|right; lia]. eapply step_reach; eauto.
  - intros a Ha Hn. rewrite Fr2; [apply Fr1; auto|lia|]; intros Hin; apply Hn; apply in_or_app; auto.
  - intros a c2 Ha Hg. destruct (Old2 a c2 ltac:(lia) Hg) as [c1 [Hg1 Hr2]].
    destruct (Old1 a c1 Ha Hg1) as [c [Hg0 Hr1]]. exists c. split; auto.
    intros b Hb. destruct (Hr2 b Hb) as [Hb1|Hb1]; [apply Hr1; exact Hb1|right; lia].
  - intros a c2 Ha Hg b Hb. destruct (Nat.lt_ge_cases a (h_next h1)) as [Hlt|Hge].
    + destruct (Old2 a c2 Hlt Hg) as [c1 [Hg1 Hr2]].
      destruct (Hr2 b Hb) as [Hb1|Hb1]; [exact (New1 a c1 Ha Hg1 b Hb1)|lia].
    + pose proof (New2 a c2 Hge Hg b Hb). lia.
  - destruct Rt2 as [->|F2]; [destruct Rt1 as [->|F1]; [left; reflexivity|right]|right].
    + eapply vfresh_mono; [| |exact F1]; lia.
    + eapply vfresh_mono; [| |exact F2]; lia.
  - exact Cl2.
Qed.

(* building blocks: pure extension, and one write after an extension *)
Lemma step_ext h h1 root root' :
  closed h -> ext h h1 -> (root' = root \/ vfresh h h1 root') -> step [] h root h1 root'.
Proof.
  intros Hc He Hr. pose proof (ext_closed _ _ Hc He) as Hc1. destruct He as [N [O F]].
  split; [exact N|]. split; [intros w []|]. split; [intros a Ha _; apply O; exact Ha|].
  split; [|split; [|split; auto]].
  - intros a c' Ha Hg. rewrite O in Hg by exact Ha. exists c'. split; auto.
  - intros a c' Ha Hg b Hb. apply (proj2 (F a c' Ha Hg) b Hb).
Qed.

Lemma step_write h h1 root a c0 c :
  closed h -> ext h h1 -> reach h root a -> a < h_next h -> h_get h a = Some c0 ->
  (forall b, In b (crefs c) -> In b (crefs c0) \/ h_next h <= b < h_next h1) ->
  step [a] h root (hset h1 a c) root.
Proof.
  intros Hc He Hra Ha Hg0 Hrefs. pose proof (ext_closed _ _ Hc He) as Hc1. destruct He as [N [O F]].
  split; [exact N|]. split; [intros w [<-|[]]; left; exact Hra|]. split; [|split; [|split; [|split]]].
  - intros x Hx Hn. rewrite hset_other; [apply O; exact Hx|]. intros ->. apply Hn. left. reflexivity.
  - intros x c' Hx Hg. rewrite hset_get in Hg. destruct (Nat.eqb_spec x a) as [->|Hne].
    + injection Hg as <-. exists c0. split; auto. intros b Hb. destruct (Hrefs b Hb); [left; auto|right; lia].
    + rewrite O in Hg by exact Hx. exists c'. split; auto.
  - intros x c' Hx Hg b Hb. rewrite hset_get in Hg. destruct (Nat.eqb_spec x a) as [->|Hne]; [lia|].
    apply (proj2 (F x c' Hx Hg) b Hb).
  - left. reflexivity.
  - intros x c' Hg. rewrite hset_get in Hg. rewrite hset_next. destruct (Nat.eqb_spec x a) as [->|Hne].
    + injection Hg as <-. split; [lia|]. intros b Hb. destruct (Hrefs b Hb) as [Hb0|Hb0]; [|lia].
      pose proof (proj2 (Hc a c0 Hg0) b Hb0). lia.
    + apply (Hc1 x c' Hg).
Qed.

(* ---------------------------------------------------------------------- *)
(* Container edits and the single in-place write. *)

Lemma in_list_insert_nat {A} (xs : list A) i x v :
  In v (list_insert_nat xs i x) -> In v xs \/ v = x.
Proof.
  revert xs; induction i as [|i IH]; intros xs H.
  - destruct xs; cbn in H; destruct H as [<-|H]; auto; try contradiction.
  - destruct xs as [|y xs]; cbn in H.
    + destruct H as [<-|[]]. auto.
    + destruct H as [<-|H]; [left; left; reflexivity|]. destruct (IH _ H); auto. left. right. exact H0.
Qed.

Lemma in_list_set {A} (xs : list A) i x v : In v (list_set xs i x) -> In v xs \/ v = x.
Proof.
  revert i; induction xs as [|y xs IH]; intros i H; cbn in H; [contradiction|].
  destruct i as [|i]; cbn in H.
  - destruct H as [<-|H]; auto. left. right. exact H.
  - destruct H as [<-|H]; [left; left; reflexivity|]. destruct (IH _ H); auto. left. right. exact H0.
Qed.

Lemma in_list_del {A} (xs : list A) i v : In v (list_del xs i) -> In v xs.
Proof.
  revert i; induction xs as [|y xs IH]; intros i H; cbn in H; [contradiction|].
  destruct i as [|i]; cbn in H; [right; exact H|]. destruct H as [<-|H]; [left; reflexivity|right; eauto].
Qed.

Lemma in_assoc_set {A} (ms : list (ustr * A)) k x v :
  In v (map snd (assoc_set ms k x)) -> In v (map snd ms) \/ v = x.
Proof.
  induction ms as [|[k' y] ms IH]; cbn; intros H.
  - destruct H as [<-|[]]. auto.
  - destruct (ustr_eqb k k'); cbn in H.
    + destruct H as [<-|H]; auto.
    + destruct H as [<-|H]; auto. destruct (IH H); auto.
Qed.

Lemma in_assoc_del {A} (ms : list (ustr * A)) k v :
  In v (map snd (assoc_del ms k)) -> In v (map snd ms).
Proof.
  induction ms as [|[k' y] ms IH]; cbn; intros H; [contradiction|].
  destruct (ustr_eqb k k'); cbn in H; auto. destruct H as [<-|H]; auto.
Qed.

Lemma edit_cell_vals e c x v :
  In v (cvals (edit_cell e c x)) -> In v (cvals c) \/ (edit_takes_value e = true /\ v = x).
Proof.
  destruct e; destruct c as [ms|xs]; cbn; auto; intros H.
  - apply in_app_or in H as [H|[<-|[]]]; auto.
  - unfold py_insert in H. apply in_list_insert_nat in H as [H|H]; auto.
  - apply in_assoc_set in H as [H|H]; auto.
  - apply in_list_set in H as [H|H]; auto.
  - left. eapply in_list_del; eauto.
  - left. eapply in_assoc_del; eauto.
Qed.

Lemma edit_cell_novalue e c x y : edit_takes_value e = false -> edit_cell e c x = edit_cell e c y.
Proof. destruct e; destruct c; cbn; intros H; try discriminate; reflexivity. Qed.

Lemma hstep_in h v p c : hstep h v p = Some c -> exists a cl, v = HRef a /\ h_get h a = Some cl /\ In c (cvals cl).
Proof.
  unfold hstep. destruct v as [j|a]; [discriminate|]. destruct (h_get h a) as [[ms|xs]|] eqn:Hg; [| |discriminate].
  - destruct p as [k|i]; [|discriminate]. intros H. exists a, (CObj ms). repeat split; auto. cbn.
    clear Hg. induction ms as [|[k' y] ms IH]; cbn in H; [discriminate|].
    destruct (ustr_eqb k k'); [injection H as ->; left; reflexivity|right; auto].
  - destruct p as [k|i]; [discriminate|]. intros H. exists a, (CArr xs). repeat split; auto. cbn.
    rewrite nth_opt_nth_error in H. eapply nth_error_In; eauto.
Qed.

Lemma hnode_at_reach h l : forall v a, hnode_at h v l = Some (HRef a) -> reach h v a.
Proof.
  induction l as [|p l IH]; intros v a H; cbn in H.
  - injection H as ->. constructor.
  - destruct (hstep h v p) as [c|] eqn:Hs; [|discriminate].
    destruct (hstep_in _ _ _ _ Hs) as [a0 [cl [-> [Hg Hin]]]]. eapply reach_step; eauto.
Qed.

(* what hwrite does: nothing, or one write of an edited cell after (possibly) one copy *)
Lemma hwrite_spec fuel h root par decide value h' :
  closed h -> valloc h root -> hwrite fuel h root par decide value = Ok h' ->
  h' = h \/
  exists a c0 e h1 x,
    reach h root a /\ a < h_next h /\ h_get h a = Some c0 /\ ext h h1 /\ vfresh h h1 x /\
    h' = hset h1 a (edit_cell e c0 x) /\
    (edit_takes_value e = true -> deepcopy fuel h value = Ok (h1, x)) /\
    (edit_takes_value e = false -> h1 = h).
Proof.
  intros Hc Hv H. unfold hwrite in H. destruct par as [l pv|v].
  2:{ destruct (decide v); cbn in H; [injection H as <-; left; reflexivity|discriminate]. }
  destruct (decide pv) as [e|]; cbn [bind] in H; [|discriminate].
  destruct (hnode_at h root l) as [[j|a]|] eqn:Hn; try discriminate.
  destruct (h_get h a) as [c0|] eqn:Hg; [|discriminate].
  pose proof (hnode_at_reach _ _ _ _ Hn) as Hr. pose proof (reach_alloc _ _ _ Hc Hv Hr) as Ha.
  right. destruct (edit_takes_value e) eqn:Et.
  - destruct (deepcopy fuel h value) as [[h1 x]|] eqn:Ed; [|discriminate]. cbn [bind fst snd] in H.
    injection H as <-. destruct (deepcopy_spec _ _ _ _ _ Hc Ed) as [He Hf].
    exists a, c0, e, h1, x.
    split; [exact Hr|split; [exact Ha|split; [exact Hg|split; [exact He|split; [exact Hf|
    split; [reflexivity|split; [intros _; reflexivity|intros E'; congruence]]]]]]].
  - injection H as <-. exists a, c0, e, h, (HLit JNull).
    split; [exact Hr|split; [exact Ha|split; [exact Hg|split; [apply ext_refl; exact Hc|split; [exact I|
    split; [f_equal; apply edit_cell_novalue; exact Et|split; [intros E'; congruence|reflexivity]]]]]]].
Qed.

Lemma hwrite_step fuel h root par decide value h' :
  closed h -> valloc h root -> hwrite fuel h root par decide value = Ok h' ->
  exists W, length W <= 1 /\ step W h root h' root.
Proof.
  intros Hc Hv H. destruct (hwrite_spec _ _ _ _ _ _ _ Hc Hv H) as [->|[a [c0 [e [h1 [x [Hr [Ha [Hg [He [Hf [-> _]]]]]]]]]]]].
  - exists []. split; [cbn; lia|]. apply step_ext; auto. apply ext_refl; auto.
  - exists [a]. split; [cbn; lia|]. eapply step_write; eauto.
    intros b Hb. apply in_crefs in Hb. apply edit_cell_vals in Hb as [Hb|[_ Hb]].
    + left. apply in_crefs. exact Hb.
    + right. subst x. exact Hf.
Qed.

(* ---------------------------------------------------------------------- *)
(* Every operation is a step writing at most two cells. *)

Lemma step_refl h root : closed h -> step [] h root h root.
Proof. intros Hc. apply step_ext; auto. apply ext_refl; auto. Qed.

Lemma view_ok fuel h v d : view fuel h v = Ok d -> hread fuel h v = Some d.
Proof. unfold view. destruct (hread fuel h v); [congruence|discriminate]. Qed.

Lemma hadd_step kind fuel h path value root h' root' :
  closed h -> valloc h root -> hadd kind fuel h path value root = Ok (h', root') ->
  exists W, length W <= 1 /\ step W h root h' root'.
Proof.
  intros Hc Hv H. unfold hadd in H.
  destruct (view fuel h root) as [d|]; [|discriminate]. cbn [bind] in H.
  destruct (resolve_parent path d) as [[[par|] obj]|]; [| |discriminate]; cbn [bind] in H.
  - destruct (last_part path) as [target|]; [|discriminate]. cbn [bind] in H.
    destruct (hwrite fuel h root par (add_edit kind target obj) value) as [h1|] eqn:Hw; [|discriminate].
    cbn [bind] in H. injection H as <- <-. eapply hwrite_step; eauto.
  - destruct (deepcopy_spec _ _ _ _ _ Hc H) as [He Hf]. exists []. split; [cbn; lia|].
    apply step_ext; auto.
Qed.

Lemma hop_step fuel h o root h' root' :
  closed h -> valloc h root -> happly_op fuel h o root = Ok (h', root') ->
  exists W, length W <= 2 /\ step W h root h' root'.
Proof.
  intros Hc Hv H. destruct o as [p v|p v|p v|p|p v|f p|f p|p v]; cbn [happly_op] in H.
  - destruct (hadd_step _ _ _ _ _ _ _ _ Hc Hv H) as [W [HW S]]. exists W. split; [lia|exact S].
  - unfold haddne in H. destruct (view fuel h root) as [d|]; [|discriminate]. cbn [bind] in H.
    destruct (resolve_parent p d) as [[parent obj]|]; [|discriminate]. cbn [bind] in H.
    match type of H with (if ?c then _ else _) = _ => destruct c end.
    + injection H as <- <-. exists []. split; [cbn; lia|]. apply step_refl; auto.
    + destruct (hadd_step _ _ _ _ _ _ _ _ Hc Hv H) as [W [HW S]]. exists W. split; [lia|exact S].
  - destruct (hadd_step _ _ _ _ _ _ _ _ Hc Hv H) as [W [HW S]]. exists W. split; [lia|exact S].
  - unfold hremove in H. destruct (view fuel h root) as [d|]; [|discriminate]. cbn [bind] in H.
    destruct (resolve_parent p d) as [[[par|] obj]|]; try discriminate; cbn [bind] in H.
    destruct (last_part p) as [target|]; [|discriminate]. cbn [bind] in H.
    destruct (hwrite fuel h root par (remove_edit target obj) (HLit JNull)) as [h1|] eqn:Hw; [|discriminate].
    cbn [bind] in H. injection H as <- <-.
    destruct (hwrite_step _ _ _ _ _ _ _ Hc Hv Hw) as [W [HW S]]. exists W. split; [lia|exact S].
  - unfold hreplace in H. destruct (view fuel h root) as [d|]; [|discriminate]. cbn [bind] in H.
    destruct (resolve_parent p d) as [[[par|] obj]|]; [| |discriminate]; cbn [bind] in H.
    + destruct (last_part p) as [target|]; [|discriminate]. cbn [bind] in H.
      destruct (hwrite fuel h root par (replace_edit target obj) v) as [h1|] eqn:Hw; [|discriminate].
      cbn [bind] in H. injection H as <- <-.
      destruct (hwrite_step _ _ _ _ _ _ _ Hc Hv Hw) as [W [HW S]]. exists W. split; [lia|exact S].
    + destruct (deepcopy_spec _ _ _ _ _ Hc H) as [He Hf]. exists []. split; [cbn; lia|].
      apply step_ext; auto.
  - unfold hmove in H. destruct (is_relative_to p f); [discriminate|].
    destruct (view fuel h root) as [d|]; [|discriminate]. cbn [bind] in H.
    destruct (resolve_parent f d) as [[sparent [so|]]|]; try discriminate; cbn [bind] in H.
    destruct (hval_of_rv h root so) as [sv|]; [|discriminate].
    assert (H1 : exists h1 W1, length W1 <= 1 /\ step W1 h root h1 root /\ hadd AddStd fuel h1 p sv root = Ok (h', root')).
    { destruct sparent as [par|].
      - destruct (last_part f) as [target|]; [|discriminate]. cbn [bind] in H.
        destruct (hwrite fuel h root par (move_edit target) (HLit JNull)) as [h1|] eqn:Hw; [|discriminate].
        cbn [bind] in H. destruct (hwrite_step _ _ _ _ _ _ _ Hc Hv Hw) as [W [HW S]]. eauto.
      - cbn [bind] in H. exists h, []. split; [cbn; lia|]. split; [apply step_refl; auto|exact H]. }
    destruct H1 as [h1 [W1 [HW1 [S1 Ha]]]].
    destruct (hadd_step _ _ _ _ _ _ _ _ (step_closed _ _ _ _ _ S1) (step_valloc _ _ _ _ _ Hv S1) Ha) as [W2 [HW2 S2]].
    exists (W1 ++ W2). split; [rewrite app_length; lia|]. eapply step_trans; eauto.
  - unfold hcopy in H. destruct (view fuel h root) as [d|]; [|discriminate]. cbn [bind] in H.
    destruct (resolve_parent f d) as [[sparent [so|]]|]; try discriminate; cbn [bind] in H.
    destruct (hval_of_rv h root so) as [sv|]; [|discriminate].
    destruct (deepcopy fuel h sv) as [[h1 c1]|] eqn:Ed; [|discriminate]. cbn [bind fst snd] in H.
    destruct (deepcopy_spec _ _ _ _ _ Hc Ed) as [He Hf].
    assert (S1 : step [] h root h1 root) by (apply step_ext; auto).
    destruct (hadd_step _ _ _ _ _ _ _ _ (step_closed _ _ _ _ _ S1) (step_valloc _ _ _ _ _ Hv S1) H) as [W2 [HW2 S2]].
    exists ([] ++ W2). split; [cbn; lia|]. eapply step_trans; eauto.
  - unfold htest in H. destruct (view fuel h root) as [d|]; [|discriminate]. cbn [bind] in H.
    destruct (view fuel h v) as [x|]; [|discriminate]. cbn [bind] in H.
    destruct (resolve_parent p d) as [[parent [o|]]|]; try discriminate; cbn [bind] in H.
    destruct (json_eq (rv_json o) x); [|discriminate]. injection H as <- <-.
    exists []. split; [cbn; lia|]. apply step_refl; auto.
Qed.

Lemma happly_step fuel ops : forall h root h' root',
  closed h -> valloc h root -> happly fuel h ops root = Ok (h', root') ->
  exists W, length W <= 2 * length ops /\ step W h root h' root'.
Proof.
  induction ops as [|o ops IH]; intros h root h' root' Hc Hv H; cbn [happly] in H.
  - injection H as <- <-. exists []. split; [cbn; lia|]. apply step_refl; auto.
  - destruct (happly_op fuel h o root) as [[h1 r1]|] eqn:Ho; [|discriminate]. cbn [fst snd] in H.
    destruct (hop_step _ _ _ _ _ _ Hc Hv Ho) as [W1 [HW1 S1]].
    destruct (IH _ _ _ _ (step_closed _ _ _ _ _ S1) (step_valloc _ _ _ _ _ Hv S1) H) as [W2 [HW2 S2]].
    exists (W1 ++ W2). split; [rewrite app_length; cbn [length]; lia|]. eapply step_trans; eauto.
Qed.

(* ---------------------------------------------------------------------- *)
(* (2) FRAME: only cells of the document are written; the patch is never changed. *)

Theorem frame :
  forall fuel h ops root h' root',
    closed h -> valloc h root -> happly fuel h ops root = Ok (h', root') ->
    forall a, a < h_next h -> ~ reach h root a -> h_get h' a = h_get h a.
Proof.
  intros fuel h ops root h' root' Hc Hv H a Ha Hn.
  destruct (happly_step _ _ _ _ _ _ Hc Hv H) as [W [_ [_ [HW [Hfr _]]]]].
  apply Hfr; auto. intros Hin. destruct (HW a Hin); [contradiction|lia].
Qed.

(* reading a value only depends on the cells reachable from it *)
Lemma hread_frame h h' fuel : forall v,
  (forall a, reach h v a -> h_get h' a = h_get h a) -> hread fuel h' v = hread fuel h v.
Proof.
  induction fuel as [|f IH]; intros v Hsame; destruct v as [j|a]; try reflexivity.
  cbn [hread]. rewrite (Hsame a (reach_here h a)).
  destruct (h_get h a) as [[ms|xs]|] eqn:Hg; try reflexivity.
  - f_equal. f_equal. apply map_ext_in. intros [k v] Hin. cbn [fst snd]. f_equal. apply IH.
    intros b Hb. apply Hsame. eapply reach_step; eauto. cbn. apply in_map_iff. exists (k, v). auto.
  - f_equal. f_equal. apply map_ext_in. intros v Hin. apply IH.
    intros b Hb. apply Hsame. eapply reach_step; eauto.
Qed.

Lemma reach_frame h h' v b :
  (forall a, reach h v a -> h_get h' a = h_get h a) -> (reach h' v b <-> reach h v b).
Proof.
  intros Hsame. split; intros H.
  - induction H as [a | a c v b Hg Hin Hr IH]; [constructor|].
    rewrite (Hsame a (reach_here h a)) in Hg. eapply reach_step; eauto. apply IH.
    intros x Hx. apply Hsame. eapply reach_step; eauto.
  - induction H as [a | a c v b Hg Hin Hr IH]; [constructor|].
    eapply reach_step; [rewrite (Hsame a (reach_here h a)); exact Hg|exact Hin|]. apply IH.
    intros x Hx. apply Hsame. eapply reach_step; eauto.
Qed.

(* the cells of the patch: those reachable from the values its operations store *)
Definition owned (h : heap) (ops : list hop) (a : addr) : Prop :=
  exists o v, In o ops /\ In v (hop_values o) /\ reach h v a.

(* the patch's cells are allocated and none of them belongs to the document *)
Definition patch_separate (h : heap) (ops : list hop) (root : hval) : Prop :=
  (forall o v, In o ops -> In v (hop_values o) -> valloc h v) /\
  (forall a, owned h ops a -> ~ reach h root a).

Theorem patch_cells_unchanged :
  forall fuel h ops root h' root',
    closed h -> valloc h root -> patch_separate h ops root ->
    happly fuel h ops root = Ok (h', root') ->
    forall a, owned h ops a -> h_get h' a = h_get h a.
Proof.
  intros fuel h ops root h' root' Hc Hv [Hal Hsep] H a Ho.
  pose proof Ho as [o [v [Hin [Hiv Hr]]]].
  apply (frame fuel h ops root h' root' Hc Hv H).
  - apply (reach_alloc h v a Hc (Hal o v Hin Hiv) Hr).
  - apply Hsep. exact Ho.
Qed.

(* hence: the stored operations denote the same value-model operations before and after, whatever
   the patch did - also when a later operation edits inside a container an earlier one added *)
Theorem patch_unchanged :
  forall fuel h ops root h' root',
    closed h -> valloc h root -> patch_separate h ops root ->
    happly fuel h ops root = Ok (h', root') ->
    (forall n o, In o ops -> hop_read n h' o = hop_read n h o) /\
    (forall a, owned h' ops a <-> owned h ops a).
Proof.
  intros fuel h ops root h' root' Hc Hv Hsep H.
  pose proof (patch_cells_unchanged _ _ _ _ _ _ Hc Hv Hsep H) as Hsame.
  assert (Hval : forall o v, In o ops -> In v (hop_values o) -> forall a, reach h v a -> h_get h' a = h_get h a).
  { intros o v Hin Hiv a Hr. apply Hsame. exists o, v. auto. }
  split.
  - intros n o Hin. destruct o as [p v|p v|p v|p|p v|f p|f p|p v]; cbn [hop_read]; try reflexivity;
      rewrite (hread_frame h h' n v); auto; apply (Hval _ v Hin); left; reflexivity.
  - intros a. split; intros [o [v [Hin [Hiv Hr]]]]; exists o, v; repeat split; auto;
      apply (reach_frame h h' v a (Hval o v Hin Hiv)); exact Hr.
Qed.

(* ---------------------------------------------------------------------- *)
(* (3) INDEPENDENCE. *)

(* the result shares no cell with the patch *)
Theorem result_independent_of_patch :
  forall fuel h ops root h' root',
    closed h -> valloc h root -> patch_separate h ops root ->
    happly fuel h ops root = Ok (h', root') ->
    forall a, reach h' root' a -> ~ owned h' ops a.
Proof.
  intros fuel h ops root h' root' Hc Hv Hsep H a Hr Ho.
  apply (proj2 (patch_unchanged _ _ _ _ _ _ Hc Hv Hsep H) a) in Ho.
  destruct (happly_step _ _ _ _ _ _ Hc Hv H) as [W [_ S]].
  destruct (step_reach _ _ _ _ _ _ Hc Hv S Hr) as [Hr0|Hn].
  - exact (proj2 Hsep a Ho Hr0).
  - destruct Ho as [o [v [Hin [Hiv Hrv]]]].
    pose proof (reach_alloc _ _ _ Hc (proj1 Hsep o v Hin Hiv) Hrv). lia.
Qed.

(* two applications (of the same or of different patches) to two documents that share no cell give
   results that share no cell *)
Theorem results_independent :
  forall fuel h ops1 ops2 root1 root2 h1 r1 h2 r2,
    closed h -> valloc h root1 -> valloc h root2 ->
    (forall a, reach h root1 a -> ~ reach h root2 a) ->
    happly fuel h ops1 root1 = Ok (h1, r1) ->
    happly fuel h1 ops2 root2 = Ok (h2, r2) ->
    forall a, reach h2 r1 a -> ~ reach h2 r2 a.
Proof.
  intros fuel h ops1 ops2 root1 root2 h1 r1 h2 r2 Hc Hv1 Hv2 Hdis A1 A2 a Hr1 Hr2.
  destruct (happly_step _ _ _ _ _ _ Hc Hv1 A1) as [W1 [_ S1]].
  pose proof (step_closed _ _ _ _ _ S1) as Hc1.
  assert (Hv2' : valloc h1 root2).
  { destruct root2; cbn in *; auto. destruct S1 as [N _]. lia. }
  destruct (happly_step _ _ _ _ _ _ Hc1 Hv2' A2) as [W2 [_ S2]].
  (* the second document is untouched by the first application *)
  assert (Hdoc2 : forall x, reach h root2 x -> h_get h1 x = h_get h x).
  { intros x Hx. apply (frame fuel h ops1 root1 h1 r1 Hc Hv1 A1).
    - apply (reach_alloc h root2 x Hc Hv2 Hx).
    - intros Hx1. exact (Hdis x Hx1 Hx). }
  assert (Hr2h : forall x, reach h1 root2 x <-> reach h root2 x) by (intros x; apply reach_frame; exact Hdoc2).
  (* the first result is untouched by the second application *)
  assert (Hres1 : forall x, reach h1 r1 x -> h_get h2 x = h_get h1 x).
  { intros x Hx. apply (frame fuel h1 ops2 root2 h2 r2 Hc1 Hv2' A2).
    - apply (reach_alloc h1 r1 x Hc1 (step_valloc _ _ _ _ _ Hv1 S1) Hx).
    - intros Hx2. apply Hr2h in Hx2.
      destruct (step_reach _ _ _ _ _ _ Hc Hv1 S1 Hx) as [Hx1|Hn]; [exact (Hdis x Hx1 Hx2)|].
      pose proof (reach_alloc _ _ _ Hc Hv2 Hx2). lia. }
  apply (reach_frame h1 h2 r1 a Hres1) in Hr1.
  destruct (step_reach _ _ _ _ _ _ Hc1 Hv2' S2 Hr2) as [Hr2'|Hn2].
  - apply Hr2h in Hr2'.
    destruct (step_reach _ _ _ _ _ _ Hc Hv1 S1 Hr1) as [Hx1|Hn]; [exact (Hdis a Hx1 Hr2')|].
    pose proof (reach_alloc _ _ _ Hc Hv2 Hr2'). lia.
  - pose proof (reach_alloc _ _ _ Hc1 (step_valloc _ _ _ _ _ Hv1 S1) Hr1). lia.
Qed.

(* ---------------------------------------------------------------------- *)
(* (4) IN PLACE. *)

Definition nonempty (p : pointer) : bool := match p with [] => false | _ => true end.

(* the operations that cannot replace the root *)
Definition keeps_root (o : hop) : bool :=
  match o with
  | HAdd p _ | HAddNe p _ | HAddAp p _ | HReplace p _ => nonempty p
  | HMove _ p | HCopy _ p => nonempty p
  | HRemove _ | HTest _ _ => true
  end.

Lemma resolve_parent_some p d parent obj :
  nonempty p = true -> resolve_parent p d = Ok (parent, obj) -> exists par, parent = Some par.
Proof.
  intros Hp H. unfold resolve_parent in H. destruct p as [|x p]; [discriminate|].
  destruct (reduce_getitem (RNode [] d) (removelast (x :: p))) as [par|]; [|discriminate]. cbn [bind] in H.
  destruct (last_opt (x :: p)); [|discriminate].
  destruct (getitem par p0) as [r|e].
  - injection H as <- _. eauto.
  - destruct e as [k|k|k|k|b| |]; try discriminate. destruct k; try discriminate; injection H as <- _; eauto.
Qed.

Lemma hadd_root kind fuel h path value root h' root' :
  nonempty path = true -> hadd kind fuel h path value root = Ok (h', root') -> root' = root.
Proof.
  intros Hp H. unfold hadd in H.
  destruct (view fuel h root) as [d|]; [|discriminate]. cbn [bind] in H.
  destruct (resolve_parent path d) as [[parent obj]|] eqn:Er; [|discriminate]. cbn [bind] in H.
  destruct (resolve_parent_some _ _ _ _ Hp Er) as [par ->].
  destruct (last_part path); [|discriminate]. cbn [bind] in H.
  destruct (hwrite fuel h root par _ value); [|discriminate]. cbn [bind] in H. injection H as _ <-. reflexivity.
Qed.

Lemma hop_root fuel h o root h' root' :
  keeps_root o = true -> happly_op fuel h o root = Ok (h', root') -> root' = root.
Proof.
  intros Hk H. destruct o as [p v|p v|p v|p|p v|f p|f p|p v]; cbn [happly_op keeps_root] in *.
  - eapply hadd_root; eauto.
  - unfold haddne in H. destruct (view fuel h root) as [d|]; [|discriminate]. cbn [bind] in H.
    destruct (resolve_parent p d) as [[parent obj]|]; [|discriminate]. cbn [bind] in H.
    match type of H with (if ?c then _ else _) = _ => destruct c end.
    + injection H as _ <-. reflexivity.
    + eapply hadd_root; eauto.
  - eapply hadd_root; eauto.
  - unfold hremove in H. destruct (view fuel h root) as [d|]; [|discriminate]. cbn [bind] in H.
    destruct (resolve_parent p d) as [[[par|] obj]|]; try discriminate; cbn [bind] in H.
    destruct (last_part p); [|discriminate]. cbn [bind] in H.
    destruct (hwrite fuel h root par _ (HLit JNull)); [|discriminate]. cbn [bind] in H.
    injection H as _ <-. reflexivity.
  - unfold hreplace in H. destruct (view fuel h root) as [d|]; [|discriminate]. cbn [bind] in H.
    destruct (resolve_parent p d) as [[parent obj]|] eqn:Er; [|discriminate]. cbn [bind] in H.
    destruct (resolve_parent_some _ _ _ _ Hk Er) as [par ->].
    destruct (last_part p); [|discriminate]. cbn [bind] in H.
    destruct (hwrite fuel h root par _ v); [|discriminate]. cbn [bind] in H. injection H as _ <-. reflexivity.
  - unfold hmove in H. destruct (is_relative_to p f); [discriminate|].
    destruct (view fuel h root) as [d|]; [|discriminate]. cbn [bind] in H.
    destruct (resolve_parent f d) as [[sparent [so|]]|]; try discriminate; cbn [bind] in H.
    destruct (hval_of_rv h root so) as [sv|]; [|discriminate].
    match type of H with (h1 <- ?x ;; _) = _ => destruct x as [h1|] end; [|discriminate].
    cbn [bind] in H. eapply hadd_root; eauto.
  - unfold hcopy in H. destruct (view fuel h root) as [d|]; [|discriminate]. cbn [bind] in H.
    destruct (resolve_parent f d) as [[sparent [so|]]|]; try discriminate; cbn [bind] in H.
    destruct (hval_of_rv h root so) as [sv|]; [|discriminate].
    destruct (deepcopy fuel h sv) as [[h1 c1]|]; [|discriminate]. cbn [bind fst snd] in H.
    eapply hadd_root; eauto.
  - unfold htest in H. destruct (view fuel h root) as [d|]; [|discriminate]. cbn [bind] in H.
    destruct (view fuel h v) as [x|]; [|discriminate]. cbn [bind] in H.
    destruct (resolve_parent p d) as [[parent [o|]]|]; try discriminate; cbn [bind] in H.
    destruct (json_eq (rv_json o) x); [|discriminate]. injection H as _ <-. reflexivity.
Qed.

(* unless an operation addresses the root (add / addne / addap / replace with the empty path, move /
   copy to the empty path), the object returned is the object given *)
Theorem in_place_root :
  forall fuel ops h root h' root',
    forallb keeps_root ops = true -> happly fuel h ops root = Ok (h', root') -> root' = root.
Proof.
  intros fuel ops. induction ops as [|o ops IH]; intros h root h' root' Hk H; cbn [happly] in H.
  - injection H as _ <-. reflexivity.
  - cbn [forallb] in Hk. apply andb_true_iff in Hk as [Ho Hk].
    destruct (happly_op fuel h o root) as [[h1 r1]|] eqn:E; [|discriminate]. cbn [fst snd] in H.
    rewrite (IH _ _ _ _ Hk H). eapply hop_root; eauto.
Qed.

(* at most two cells of the document are written per operation (the parent of the path, and the
   parent of the source for a move); every other allocated cell is as it was *)
Theorem in_place_writes :
  forall fuel h ops root h' root',
    closed h -> valloc h root -> happly fuel h ops root = Ok (h', root') ->
    exists W, length W <= 2 * length ops /\
      (forall w, In w W -> reach h root w \/ h_next h <= w) /\
      (forall a, a < h_next h -> ~ In a W -> h_get h' a = h_get h a).
Proof.
  intros fuel h ops root h' root' Hc Hv H.
  destruct (happly_step _ _ _ _ _ _ Hc Hv H) as [W [HW [_ [Hw [Hfr _]]]]]. eauto.
Qed.

(* ---------------------------------------------------------------------- *)
(* (5) COPY: whatever an application puts into a cell of the document is a copy: it reaches only
   cells allocated during the application - none of the document as it was (so not the source of a
   copy or move), none of the patch. *)

Theorem inserted_is_fresh :
  forall fuel h ops root h' root',
    closed h -> valloc h root -> happly fuel h ops root = Ok (h', root') ->
    forall a c' v, a < h_next h -> h_get h' a = Some c' -> In v (cvals c') ->
      (exists c, h_get h a = Some c /\ In v (cvals c)) \/
      (forall b, reach h' v b -> h_next h <= b).
Proof.
  intros fuel h ops root h' root' Hc Hv H a c' v Ha Hg Hin.
  destruct (happly_step _ _ _ _ _ _ Hc Hv H) as [W [_ S]].
  pose proof S as [_ [_ [_ [Hold _]]]].
  destruct (Hold a c' Ha Hg) as [c [Hgc Hrefs]].
  destruct v as [j|b0].
  - right. intros b Hb. exfalso. eapply reach_lit; eauto.
  - destruct (Hrefs b0 ltac:(apply in_crefs; exact Hin)) as [Hb0|Hb0].
    + left. exists c. split; auto. apply in_crefs. exact Hb0.
    + right. intros b Hb. apply (proj1 (reach_sub _ _ _ _ _ Hc S _ _ Hb)). exact Hb0.
Qed.

(* a new root (add / replace at the root, copy / move to the root) is a copy too *)
Theorem new_root_is_fresh :
  forall fuel h ops root h' root',
    closed h -> valloc h root -> happly fuel h ops root = Ok (h', root') ->
    root' = root \/ forall b, reach h' root' b -> h_next h <= b.
Proof.
  intros fuel h ops root h' root' Hc Hv H.
  destruct (happly_step _ _ _ _ _ _ Hc Hv H) as [W [_ S]].
  pose proof S as [_ [_ [_ [_ [_ [[->|Hf] _]]]]]]; [left; reflexivity|right].
  intros b Hb. apply (proj1 (reach_sub _ _ _ _ _ Hc S _ _ Hb)). eapply vfresh_vnew; eauto.
Qed.

(* in particular the new entry shares no cell with the document as it was, nor with the patch *)
Corollary inserted_disjoint :
  forall fuel h ops root h' root',
    closed h -> valloc h root -> patch_separate h ops root ->
    happly fuel h ops root = Ok (h', root') ->
    forall a c' v, a < h_next h -> h_get h' a = Some c' -> In v (cvals c') ->
      (exists c, h_get h a = Some c /\ In v (cvals c)) \/
      (forall b, reach h' v b -> ~ reach h root b /\ ~ owned h ops b).
Proof.
  intros fuel h ops root h' root' Hc Hv Hsep H a c' v Ha Hg Hin.
  destruct (inserted_is_fresh _ _ _ _ _ _ Hc Hv H a c' v Ha Hg Hin) as [Hl|Hr]; [left; exact Hl|right].
  intros b Hb. specialize (Hr b Hb). split.
  - intros Hx. pose proof (reach_alloc _ _ _ Hc Hv Hx). lia.
  - intros [o [x [Hio [Hix Hrx]]]]. pose proof (reach_alloc _ _ _ Hc (proj1 Hsep o x Hio Hix) Hrx). lia.
Qed.

(* ---------------------------------------------------------------------- *)
(* Construction of a patch copies the caller's values: the patch owns fresh cells only, so it is
   separate from every document that existed before, and from the caller's operations. *)

Lemma ext_reach_new h h' v b : closed h -> ext h h' -> vnew h v -> reach h' v b -> h_next h <= b.
Proof.
  intros Hc He Hn Hr.
  assert (S : step [] h (HLit JNull) h' (HLit JNull)) by (apply step_ext; auto).
  apply (proj1 (reach_sub _ _ _ _ _ Hc S _ _ Hr)). exact Hn.
Qed.

Lemma hbuild_spec fuel ops : forall h h' ops',
  closed h -> hbuild fuel h ops = Ok (h', ops') ->
  ext h h' /\ forall o v, In o ops' -> In v (hop_values o) -> vfresh h h' v.
Proof.
  induction ops as [|o ops IH]; intros h h' ops' Hc H; cbn [hbuild] in H.
  - injection H as <- <-. split; [apply ext_refl; auto|intros o v []].
  - assert (Hone : forall p v (mk : pointer -> hval -> hop),
              (forall p v, hop_values (mk p v) = [v]) ->
              (r <- (c <- deepcopy fuel h v ;; Ok (fst c, mk p (snd c))) ;;
               rs <- hbuild fuel (fst r) ops ;; Ok (fst rs, snd r :: snd rs)) = Ok (h', ops') ->
              ext h h' /\ forall o v, In o ops' -> In v (hop_values o) -> vfresh h h' v).
    { intros p v mk Hmk H'. destruct (deepcopy fuel h v) as [[h1 c]|] eqn:Ed; [|discriminate].
      cbn [bind fst snd] in H'. destruct (hbuild fuel h1 ops) as [[h2 ops2]|] eqn:Eb; [|discriminate].
      cbn [bind fst snd] in H'. injection H' as <- <-.
      destruct (deepcopy_spec _ _ _ _ _ Hc Ed) as [He Hf].
      destruct (IH _ _ _ (ext_closed _ _ Hc He) Eb) as [He2 Hf2].
      split; [eapply ext_trans; eauto|]. intros o' v' [<-|Hin] Hv'.
      - rewrite Hmk in Hv'. destruct Hv' as [<-|[]]. eapply vfresh_mono; [| |exact Hf]; [lia|apply He2].
      - eapply vfresh_mono; [| |exact (Hf2 o' v' Hin Hv')]; [apply He|lia]. }
    assert (Hnone : (rs <- hbuild fuel h ops ;; Ok (fst rs, o :: snd rs)) = Ok (h', ops') -> hop_values o = [] ->
              ext h h' /\ forall o v, In o ops' -> In v (hop_values o) -> vfresh h h' v).
    { intros H' Hv0. destruct (hbuild fuel h ops) as [[h2 ops2]|] eqn:Eb; [|discriminate].
      cbn [bind fst snd] in H'. injection H' as <- <-. destruct (IH _ _ _ Hc Eb) as [He2 Hf2].
      split; auto. intros o' v' [<-|Hin] Hv'; [rewrite Hv0 in Hv'; contradiction|eauto]. }
    destruct o as [p v|p v|p v|p|p v|f p|f p|p v].
    + apply (Hone p v HAdd); auto.
    + apply (Hone p v HAddNe); auto.
    + apply (Hone p v HAddAp); auto.
    + apply Hnone; auto.
    + apply (Hone p v HReplace); auto.
    + apply Hnone; auto.
    + apply Hnone; auto.
    + apply (Hone p v HTest); auto.
Qed.

Theorem build_separate :
  forall fuel h ops h' ops' root,
    closed h -> valloc h root -> hbuild fuel h ops = Ok (h', ops') ->
    closed h' /\ valloc h' root /\ patch_separate h' ops' root /\
    (forall a, owned h' ops' a -> h_next h <= a).
Proof.
  intros fuel h ops h' ops' root Hc Hv H. destruct (hbuild_spec _ _ _ _ _ Hc H) as [He Hf].
  pose proof (ext_closed _ _ Hc He) as Hc'.
  assert (Hown : forall a, owned h' ops' a -> h_next h <= a).
  { intros a [o [v [Hio [Hiv Hr]]]]. eapply ext_reach_new; eauto. eapply vfresh_vnew. eauto. }
  split; [exact Hc'|]. split; [destruct root; cbn in *; auto; destruct He; lia|]. split; [split|exact Hown].
  - intros o v Hio Hiv. specialize (Hf o v Hio Hiv). destruct v; cbn in *; auto. lia.
  - intros a Ho Hr. specialize (Hown a Ho).
    assert (Hr0 : reach h root a).
    { apply (reach_frame h h' root a); auto. intros x Hx. apply He. eapply reach_alloc; eauto. }
    pose proof (reach_alloc _ _ _ Hc Hv Hr0). lia.
Qed.

(* ---------------------------------------------------------------------- *)
(* A concrete run (non-vacuity): the patch [add /a/- {"x":[1]} ; add /a/0/x/- 2 ; copy /a/0 -> /b]
   built from the caller's operation values and applied to {"a": [], "b": null}: applied in place,
   the caller's value and the patch are as they were, the copy is independent of its source. *)

Example heap_run :
  let one := JNum (num_of_Z 1) in let two := JNum (num_of_Z 2) in
  let ka := [97%N] in let kb := [98%N] in let kx := [120%N] in
  let fuel := 10%nat in
  let s0 := hstore hempty (JObj [(ka, JArr []); (kb, JNull)]) in
  let doc := snd s0 in
  let s1 := hstore (fst s0) (JObj [(kx, JArr [one])]) in          (* the caller's value *)
  let cv := snd s1 in
  let caller := [HAdd [PStr ka; PStr [45%N]] cv; HAdd [PStr ka; PInt 0; PStr kx; PStr [45%N]] (HLit two);
                 HCopy [PStr ka; PInt 0] [PStr kb]] in
  exists h2 ops h3 root',
    hbuild fuel (fst s1) caller = Ok (h2, ops) /\
    happly fuel h2 ops doc = Ok (h3, root') /\
    root' = doc /\
    hread fuel h3 root' =
      Some (JObj [(ka, JArr [JObj [(kx, JArr [one; two])]]); (kb, JObj [(kx, JArr [one; two])])]) /\
    hread fuel h3 cv = Some (JObj [(kx, JArr [one])]) /\
    map (hop_read fuel h3) ops = map (hop_read fuel h2) ops.
Proof.
  cbv zeta. do 4 eexists.
  split; [vm_compute; reflexivity|]. split; [vm_compute; reflexivity|].
  split; [vm_compute; reflexivity|]. split; [vm_compute; reflexivity|].
  split; vm_compute; reflexivity.
Qed.
