(* FloatRepr.v — the float reread from its repr denotes the same rational:
   parse_float_literal (float_repr n) = Ok (FFloat n')  ->  num_eqb n n' = true. *)
From JP Require Import Base Json PyStr Syntax Lex Parse Serialize PyStrLemmas ParseEqns.
Local Open Scope Z_scope.

Lemma parse_float_is_float t e : parse_float_literal t = Ok e -> exists n', e = FFloat n'.
Proof.
  intros H. destruct (parse_float_literal_cases t) as [H'|[H'|[n H']]]; rewrite H' in H;
    try discriminate H. injection H as <-. eauto.
Qed.

(* ---------------------------------------------------------------------- *)
(* powers of ten, stripping, digits *)

Lemma pow10_pow n : pow10 n = 10 ^ Z.of_nat n.
Proof.
  induction n as [|n IH]; [reflexivity|]. cbn [pow10]. rewrite IH, Nat2Z.inj_succ, Z.pow_succ_r by lia.
  reflexivity.
Qed.

Lemma is_pow10_S f p :
  is_pow10 (S f) p =
  if Z.eqb p 1 then Some 0
  else if Z.eqb (p mod 10) 0 then option_map (Z.add 1) (is_pow10 f (p / 10)) else None.
Proof. reflexivity. Qed.

Lemma is_pow10_sound f : forall p k, is_pow10 f p = Some k -> p = 10 ^ k /\ 0 <= k.
Proof.
  induction f as [|f IH]; intros p k H; [discriminate|]. rewrite is_pow10_S in H.
  destruct (Z.eqb_spec p 1) as [->|Hp].
  - injection H as <-. split; [reflexivity|lia].
  - destruct (Z.eqb_spec (p mod 10) 0) as [Hm|Hm]; [|discriminate].
    destruct (is_pow10 f (p / 10)) as [k'|] eqn:E; [|discriminate]. unfold option_map in H. assert (Ek : k = 1 + k') by congruence. clear H. subst k.
    destruct (IH _ _ E) as [Hq Hk]. split; [|lia].
    replace (1 + k') with (Z.succ k') by lia. rewrite Z.pow_succ_r by lia. rewrite <- Hq.
    pose proof (Z.div_mod p 10 ltac:(lia)). lia.
Qed.

Lemma strip_zeros_sound f : forall m k m' k',
  0 < m -> strip_zeros f m k = (m', k') -> m = m' * 10 ^ (k' - k) /\ k <= k' /\ 0 < m'.
Proof.
  induction f as [|f IH]; intros m k m' k' Hm H; cbn [strip_zeros] in H.
  - injection H as <- <-. rewrite Z.sub_diag. cbn. lia.
  - destruct (Z.eqb_spec (m mod 10) 0) as [Hz|Hz]; destruct (Z.eqb_spec m 0) as [H0|H0]; cbn [negb andb] in H;
      try (injection H as <- <-; rewrite Z.sub_diag; cbn; lia).
    pose proof (Z.div_mod m 10 ltac:(lia)) as Hd.
    destruct (IH (m / 10) (k + 1) m' k') as [E [Hk Hp]]; auto.
    { apply Z.div_str_pos. lia. }
    split; [|lia].
    replace (k' - k) with (Z.succ (k' - (k + 1))) by lia. rewrite Z.pow_succ_r by lia. lia.
Qed.

Lemma fold_dstep_app b : forall acc,
  fold_left dstep b acc = acc * pow10 (length b) + fold_left dstep b 0.
Proof.
  induction b as [|c b IH]; intros acc; cbn [fold_left length pow10]; [lia|].
  rewrite (IH (dstep acc c)), (IH (dstep 0 c)). unfold dstep. lia.
Qed.

Lemma dec_value_app a b : dec_value (a ++ b) = dec_value a * pow10 (length b) + dec_value b.
Proof. rewrite !dec_value_fold, fold_left_app. apply fold_dstep_app. Qed.

Lemma dec_value_zeros j : dec_value (repeat 48%N j) = 0.
Proof.
  induction j as [|j IH]; [reflexivity|]. cbn [repeat].
  change (48%N :: repeat 48%N j) with ([48%N] ++ repeat 48%N j). rewrite dec_value_app, IH. reflexivity.
Qed.

Lemma zeros_digits j : forallb is_ascii_digit (repeat 48%N j) = true.
Proof. induction j; [reflexivity|]. cbn. exact IHj. Qed.

Lemma span_app p ds rest :
  forallb p ds = true -> match rest with [] => True | c :: _ => p c = false end ->
  span p (ds ++ rest) = (ds, rest).
Proof.
  intros Hd Hr. induction ds as [|c ds IH]; cbn [app].
  - destruct rest as [|c r]; [reflexivity|]. cbn [span]. rewrite Hr. reflexivity.
  - cbn [forallb] in Hd. apply andb_true_iff in Hd as [Hc Hd]. cbn [span]. rewrite Hc, (IH Hd). reflexivity.
Qed.

(* ---------------------------------------------------------------------- *)
(* splitting the texts float_repr produces *)

Definition sign_txt (neg : bool) : ustr := if neg then [45%N] else [].

Lemma digit_not c : is_ascii_digit c = true -> c <> 45%N /\ c <> 46%N /\ c <> 101%N.
Proof. intros H. apply digit_bounds in H. lia. Qed.

Definition strip_sign (s : ustr) : bool * ustr :=
  match s with 45%N :: t => (true, t) | _ => (false, s) end.

Lemma split_number_eq s :
  split_number s =
  let '(neg, s1) := strip_sign s in
  let '(ip, s2) := span is_ascii_digit s1 in
  let '(fp, s3) := match s2 with 46%N :: t => span is_ascii_digit t | _ => ([], s2) end in
  match s3 with
  | [] => Some (neg, ip, fp, 0%Z)
  | e :: t =>
      if N.eqb e 101 || N.eqb e 69 then
        let '(eneg, t') := match t with
                           | 45%N :: r => (true, r)
                           | 43%N :: r => (false, r)
                           | _ => (false, t)
                           end in
        if all_digits t' then Some (neg, ip, fp, if eneg then (- dec_value t')%Z else dec_value t') else None
      else None
  end.
Proof. reflexivity. Qed.

Lemma split_sign neg body c r :
  body = c :: r -> is_ascii_digit c = true -> strip_sign (sign_txt neg ++ body) = (neg, body).
Proof.
  intros -> Hc. destruct neg; [reflexivity|]. cbn [sign_txt app]. unfold strip_sign.
  destruct (digit_not c Hc) as [H45 _].
  destruct c as [|p]; [reflexivity|].
  repeat (destruct p as [p|p|]; try reflexivity; try congruence).
Qed.

(* -ddd.fff *)
Lemma split_plain neg ip fp :
  ip <> [] -> forallb is_ascii_digit ip = true -> forallb is_ascii_digit fp = true ->
  split_number (sign_txt neg ++ ip ++ 46%N :: fp) = Some (neg, ip, fp, 0).
Proof.
  intros Hne Hip Hfp. destruct ip as [|c r] eqn:Eip; [contradiction|]. rewrite <- Eip in *.
  assert (Hc : is_ascii_digit c = true).
  { rewrite Eip in Hip. cbn [forallb] in Hip. apply andb_true_iff in Hip as [Hc _]. exact Hc. }
  rewrite split_number_eq.
  rewrite (split_sign neg (ip ++ 46%N :: fp) c (r ++ 46%N :: fp)); [|rewrite Eip; reflexivity|exact Hc].
  rewrite (span_app is_ascii_digit ip (46%N :: fp) Hip) by reflexivity.
  rewrite <- (app_nil_r fp) at 1. rewrite (span_app is_ascii_digit fp [] Hfp) by exact I.
  reflexivity.
Qed.

(* -d.fffe+xx *)
Lemma split_exp neg ip fp (eneg : bool) etxt :
  ip <> [] -> forallb is_ascii_digit ip = true -> forallb is_ascii_digit fp = true ->
  all_digits etxt = true ->
  split_number (sign_txt neg ++ ip ++ 46%N :: fp ++ 101%N :: (if eneg then 45%N else 43%N) :: etxt) =
  Some (neg, ip, fp, if eneg then - dec_value etxt else dec_value etxt).
Proof.
  intros Hne Hip Hfp Het. destruct ip as [|c r] eqn:Eip; [contradiction|]. rewrite <- Eip in *.
  assert (Hc : is_ascii_digit c = true).
  { rewrite Eip in Hip. cbn [forallb] in Hip. apply andb_true_iff in Hip as [Hc _]. exact Hc. }
  rewrite split_number_eq.
  rewrite (split_sign neg _ c (r ++ 46%N :: fp ++ 101%N :: (if eneg then 45%N else 43%N) :: etxt));
    [|rewrite Eip; reflexivity|exact Hc].
  rewrite (span_app is_ascii_digit ip _ Hip) by reflexivity.
  rewrite (span_app is_ascii_digit fp _ Hfp) by reflexivity.
  change (N.eqb 101 101 || N.eqb 101 69) with true. cbv iota.
  destruct eneg; rewrite Het; reflexivity.
Qed.

(* significant digits *)
Lemma drop_zeros_split s : exists j, s = repeat 48%N j ++ drop_zeros s.
Proof.
  induction s as [|c s [j IH]]; [exists 0%nat; reflexivity|]. cbn [drop_zeros].
  destruct (N.eqb_spec c 48) as [->|Hc]; [exists (S j); cbn [repeat app]; f_equal; exact IH|exists 0%nat; reflexivity].
Qed.

Lemma rev_repeat {A} (x : A) j : rev (repeat x j) = repeat x j.
Proof.
  induction j as [|j IH]; [reflexivity|]. cbn [repeat rev]. rewrite IH.
  clear IH. induction j as [|j IH]; [reflexivity|]. cbn [repeat app]. f_equal. exact IH.
Qed.

Lemma sig_digits_split D ds tz :
  sig_digits D = (ds, tz) -> exists lz, D = repeat 48%N lz ++ ds ++ repeat 48%N tz.
Proof.
  unfold sig_digits. intros H. injection H as Hds Htz. rewrite Hds in Htz.
  destruct (drop_zeros_split D) as [lz HD]. destruct (drop_zeros_split (rev (drop_zeros D))) as [j Hr].
  assert (Ha : drop_zeros D = ds ++ repeat 48%N j).
  { rewrite <- (rev_involutive (drop_zeros D)), Hr, rev_app_distr, rev_repeat, Hds. reflexivity. }
  exists lz. rewrite HD at 1. f_equal. rewrite Ha. f_equal. f_equal.
  rewrite Ha, app_length, repeat_length in Htz. lia.
Qed.

Lemma dec_value_lead_zeros j ds : dec_value (repeat 48%N j ++ ds) = dec_value ds.
Proof. rewrite dec_value_app, dec_value_zeros. lia. Qed.

Lemma dec_value_trail_zeros ds j : dec_value (ds ++ repeat 48%N j) = dec_value ds * 10 ^ Z.of_nat j.
Proof. rewrite dec_value_app, dec_value_zeros, repeat_length, pow10_pow. lia. Qed.

Lemma sig_digits_value D ds tz : sig_digits D = (ds, tz) -> dec_value D = dec_value ds * 10 ^ Z.of_nat tz.
Proof.
  intros H. destruct (sig_digits_split D ds tz H) as [lz ->].
  rewrite dec_value_lead_zeros, dec_value_trail_zeros. reflexivity.
Qed.

(* what parse_float_literal computes from the split *)
Lemma parse_float_of_split s neg ip fp ex n' :
  split_number s = Some (neg, ip, fp, ex) -> parse_float_literal s = Ok (FFloat n') ->
  (dec_value (ip ++ fp) = 0 /\ n' = mkNum true 0 1) \/
  exists mant tz, 0 <= tz /\ dec_value (ip ++ fp) = mant * 10 ^ tz /\
    let e10 := tz + ex - Z.of_nat (length fp) in
    let smant := if neg then - mant else mant in
    (0 <= e10 /\ n' = mkNum true (smant * pow10 (Z.to_nat e10)) 1) \/
    (e10 < 0 /\ exists p, pow10 (Z.to_nat (- e10)) = Zpos p /\ n' = mkNum true smant p).
Proof.
  intros Hs Hp. unfold parse_float_literal in Hp. rewrite Hs in Hp.
  destruct (sig_digits (ip ++ fp)) as [ds tz] eqn:Hsig. pose proof (sig_digits_value _ _ _ Hsig) as Hval.
  destruct ds as [|d ds'].
  - left. split; [rewrite Hval; reflexivity|]. destruct neg; [discriminate Hp|congruence].
  - right. exists (dec_value (d :: ds')), (Z.of_nat tz). split; [lia|]. split; [exact Hval|].
    cbv zeta in Hp |- *. destruct (Z.leb 310 _); [discriminate|]. destruct (_ || _); [discriminate|].
    unfold mk_float in Hp.
    destruct (Z.leb_spec 0 (Z.of_nat tz + ex - Z.of_nat (length fp))) as [He|He].
    + left. split; auto. congruence.
    + right. split; auto.
      destruct (pow10 (Z.to_nat (- (Z.of_nat tz + ex - Z.of_nat (length fp))))) as [|p|p] eqn:Epw; try discriminate.
      exists p. split; auto. congruence.
Qed.

(* the arithmetic: mantissa with mant*10^tz = m*10^j at exponent z-k-j+tz is m*10^z / 10^k *)
Lemma value_final (n n' : num) (neg : bool) m z k j mant tz e10 :
  n_num n = (if neg then - (m * 10 ^ z) else m * 10 ^ z) -> Zpos (n_den n) = 10 ^ k ->
  0 <= z -> 0 <= k -> 0 <= j -> 0 <= tz -> mant * 10 ^ tz = m * 10 ^ j -> e10 = z - k - j + tz ->
  ((0 <= e10 /\ n' = mkNum true ((if neg then - mant else mant) * pow10 (Z.to_nat e10)) 1) \/
   (e10 < 0 /\ exists p, pow10 (Z.to_nat (- e10)) = Zpos p /\ n' = mkNum true (if neg then - mant else mant) p)) ->
  num_eqb n n' = true.
Proof.
  intros Hn Hd Hz Hk Hj Htz Hm He H. unfold num_eqb. apply Z.eqb_eq.
  assert (Hnz : 10 ^ tz * 10 ^ j <> 0) by (apply Z.neq_mul_0; split; apply Z.pow_nonzero; lia).
  destruct H as [[Hge ->]|[Hlt [p [Hp ->]]]]; cbn [n_num n_den]; rewrite Hn, Hd, ?pow10_pow.
  - rewrite Z2Nat.id by lia. subst e10.
    apply (Z.mul_cancel_r _ _ _ Hnz).
    assert (E1 : 10 ^ (z - k - j + tz) * 10 ^ k * 10 ^ j = 10 ^ z * 10 ^ tz).
    { rewrite <- !Z.pow_add_r by lia. f_equal. lia. }
    destruct neg.
    + transitivity (- (m * 10 ^ j * (10 ^ z * 10 ^ tz))); [ring|]. rewrite <- Hm, <- E1. ring.
    + transitivity (m * 10 ^ j * (10 ^ z * 10 ^ tz)); [ring|]. rewrite <- Hm, <- E1. ring.
  - rewrite <- Hp, pow10_pow, Z2Nat.id by lia. subst e10.
    apply (Z.mul_cancel_r _ _ _ Hnz).
    assert (E1 : 10 ^ z * 10 ^ (- (z - k - j + tz)) * 10 ^ tz = 10 ^ k * 10 ^ j).
    { rewrite <- !Z.pow_add_r by lia. f_equal. lia. }
    destruct neg.
    + transitivity (- (m * 10 ^ j * (10 ^ z * 10 ^ (- (z - k - j + tz)) * 10 ^ tz))); [ring|].
      rewrite E1, <- Hm. ring.
    + transitivity (m * 10 ^ j * (10 ^ z * 10 ^ (- (z - k - j + tz)) * 10 ^ tz)); [ring|].
      rewrite E1, <- Hm. ring.
Qed.

(* one layout of the repr: from the split of the text to the value *)
Lemma reread_case (n n' : num) (neg : bool) m z k j s ip fp ex :
  n_num n = (if neg then - (m * 10 ^ z) else m * 10 ^ z) -> Zpos (n_den n) = 10 ^ k ->
  0 <= z -> 0 <= k -> 0 <= j -> 0 < m ->
  split_number s = Some (neg, ip, fp, ex) -> parse_float_literal s = Ok (FFloat n') ->
  dec_value (ip ++ fp) = m * 10 ^ j -> ex - Z.of_nat (length fp) = z - k - j ->
  num_eqb n n' = true.
Proof.
  intros Hn Hd Hz Hk Hj Hm Hs Hp Hv He.
  destruct (parse_float_of_split _ _ _ _ _ _ Hs Hp) as [[H0 _]|(mant & tz & Htz & Hval & Hform)].
  - exfalso. rewrite Hv in H0. assert (0 < 10 ^ j) by (apply Z.pow_pos_nonneg; lia). nia.
  - cbv zeta in Hform.
    eapply (value_final n n' neg m z k j mant tz _ Hn Hd Hz Hk Hj Htz); [| |exact Hform]; [congruence|lia].
Qed.

Lemma all_digits_of ds : ds <> [] -> forallb is_ascii_digit ds = true -> all_digits ds = true.
Proof. intros Hne H. destruct ds; [contradiction|]. exact H. Qed.

Theorem float_reread_value n t n' :
  float_repr n = Ok t -> parse_float_literal t = Ok (FFloat n') -> num_eqb n n' = true.
Proof.
  unfold float_repr. intros Hr Hp.
  destruct (is_pow10 400 (Zpos (n_den n))) as [k|] eqn:Ek; [|discriminate].
  destruct (is_pow10_sound _ _ _ Ek) as [Hden Hk]. cbv zeta in Hr.
  destruct (Z.eqb_spec (Z.abs (n_num n)) 0) as [H0|H0].
  - (* zero *)
    assert (Hn : n_num n = 0) by lia. rewrite Hn in Hr. cbn in Hr. injection Hr as <-.
    vm_compute in Hp. injection Hp as <-. unfold num_eqb. cbn [n_num n_den]. rewrite Hn. reflexivity.
  - destruct (strip_zeros 400 (Z.abs (n_num n)) 0) as [m z] eqn:Es.
    destruct (strip_zeros_sound 400 (Z.abs (n_num n)) 0 m z ltac:(lia) Es) as [Hm0 [Hz Hm]]. rewrite Z.sub_0_r in Hm0.
    set (neg := Z.ltb (n_num n) 0) in *.
    assert (Hnum : n_num n = if neg then - (m * 10 ^ z) else m * 10 ^ z).
    { unfold neg. destruct (Z.ltb_spec (n_num n) 0); lia. }
    set (digits := dec_of_nonneg m) in *.
    assert (Hcan : canonical_nonneg digits = true) by (apply canonical_dec_of_nonneg; lia).
    pose proof (canon_digits _ Hcan) as Hdig.
    assert (Hval : dec_value digits = m) by (apply dec_value_of_nonneg; lia).
    assert (Hdne : digits <> []) by (intros E; rewrite E in Hcan; discriminate).
    set (nd := Z.of_nat (length digits)) in *.
    assert (Hnd : 0 < nd) by (unfold nd; destruct digits; [contradiction|cbn [length]; lia]).
    destruct (Z.ltb 15 nd); [discriminate|].
    set (pt := nd + z - k) in *.
    change (if neg then [45%N] else []) with (sign_txt neg) in Hr.
    destruct (Z.ltb (-4) pt && Z.leb pt 16).
    + destruct (Z.leb_spec pt 0) as [Hpt|Hpt].
      * (* 0.000ddd *)
        injection Hr as <-.
        pose proof (split_plain neg [48%N] (repeat 48%N (Z.to_nat (- pt)) ++ digits)) as Hs.
        rewrite forallb_app, zeros_digits, Hdig in Hs. specialize (Hs ltac:(discriminate) eq_refl eq_refl).
        eapply (reread_case n n' neg m z k 0 _ _ _ _ Hnum Hden Hz Hk (Z.le_refl 0) Hm Hs Hp).
        -- change ([48%N] ++ repeat 48%N (Z.to_nat (- pt)) ++ digits)
             with (repeat 48%N (S (Z.to_nat (- pt))) ++ digits).
           rewrite dec_value_lead_zeros, Hval. cbn. lia.
        -- rewrite app_length, repeat_length. fold nd. unfold pt in *. lia.
      * destruct (Z.leb_spec nd pt) as [Hle|Hgt].
        -- (* ddd000.0 *)
           injection Hr as <-.
           pose proof (split_plain neg (digits ++ repeat 48%N (Z.to_nat (pt - nd))) [48%N]) as Hs.
           rewrite forallb_app, zeros_digits, Hdig in Hs.
           rewrite <- app_assoc in Hs. specialize (Hs ltac:(destruct digits; [contradiction|discriminate]) eq_refl eq_refl).
           eapply (reread_case n n' neg m z k (pt - nd + 1) _ _ _ _ Hnum Hden Hz Hk ltac:(lia) Hm Hs Hp).
           ++ rewrite <- app_assoc.
              change (repeat 48%N (Z.to_nat (pt - nd)) ++ [48%N]) with (repeat 48%N (Z.to_nat (pt - nd)) ++ repeat 48%N 1).
              rewrite <- repeat_app, dec_value_trail_zeros, Hval. f_equal. f_equal. lia.
           ++ cbn [length]. unfold pt in *. lia.
        -- (* dd.ddd *)
           injection Hr as <-.
           pose proof (split_plain neg (firstn (Z.to_nat pt) digits) (skipn (Z.to_nat pt) digits)) as Hs.
           assert (Hf : forallb is_ascii_digit (firstn (Z.to_nat pt) digits) = true /\
                        forallb is_ascii_digit (skipn (Z.to_nat pt) digits) = true).
           { rewrite <- (firstn_skipn (Z.to_nat pt) digits), forallb_app in Hdig.
             apply andb_true_iff in Hdig. exact Hdig. }
           destruct Hf as [Hf1 Hf2].
           assert (Hfne : firstn (Z.to_nat pt) digits <> []).
           { destruct digits; [contradiction|]. destruct (Z.to_nat pt) eqn:E; [lia|discriminate]. }
           specialize (Hs Hfne Hf1 Hf2).
           eapply (reread_case n n' neg m z k 0 _ _ _ _ Hnum Hden Hz Hk (Z.le_refl 0) Hm Hs Hp).
           ++ rewrite firstn_skipn, Hval. cbn. lia.
           ++ rewrite skipn_length. unfold pt, nd in *. lia.
    + (* d.ddde+xx *)
      set (e := pt - 1) in *.
      set (etxt0 := dec_of_nonneg (Z.abs e)) in *.
      assert (Hecan : canonical_nonneg etxt0 = true) by (apply canonical_dec_of_nonneg; lia).
      pose proof (canon_digits _ Hecan) as Hedig.
      assert (Heval : dec_value etxt0 = Z.abs e) by (apply dec_value_of_nonneg; lia).
      assert (Hene : etxt0 <> []) by (intros E; rewrite E in Hecan; discriminate).
      set (etxt := match etxt0 with [_] => 48%N :: etxt0 | _ => etxt0 end) in *.
      assert (Het : all_digits etxt = true /\ dec_value etxt = Z.abs e).
      { unfold etxt. destruct etxt0 as [|c [|c' r]]; [contradiction| |].
        - split; [exact Hedig|]. change [48%N; c] with (repeat 48%N 1 ++ [c]).
          rewrite dec_value_lead_zeros. exact Heval.
        - split; [exact Hedig|exact Heval]. }
      destruct Het as [Het1 Het2].
      destruct digits as [|d rest] eqn:Edig; [contradiction|].
      cbn [forallb] in Hdig. apply andb_true_iff in Hdig as [Hd Hrest].
      injection Hr as <-.
      set (eneg := Z.ltb e 0) in *.
      assert (Hex : (if eneg then - dec_value etxt else dec_value etxt) = e).
      { unfold eneg. rewrite Het2. destruct (Z.ltb_spec e 0); lia. }
      destruct rest as [|d2 rest'].
      * (* one digit: d.0e+xx *)
        pose proof (split_exp neg [d] [48%N] eneg etxt) as Hs.
        specialize (Hs ltac:(discriminate)). cbn [forallb] in Hs. rewrite Hd in Hs.
        specialize (Hs eq_refl eq_refl Het1). rewrite Hex in Hs.
        eapply (reread_case n n' neg m z k 1 _ _ _ _ Hnum Hden Hz Hk ltac:(lia) Hm Hs Hp).
        -- change ([d] ++ [48%N]) with ([d] ++ repeat 48%N 1). rewrite dec_value_trail_zeros, Hval. reflexivity.
        -- cbn [length]. unfold e, pt, nd in *. cbn [length] in *. lia.
      * pose proof (split_exp neg [d] (d2 :: rest') eneg etxt) as Hs.
        specialize (Hs ltac:(discriminate)). cbn [forallb] in Hs. rewrite Hd in Hs.
        specialize (Hs eq_refl Hrest Het1). rewrite Hex in Hs.
        eapply (reread_case n n' neg m z k 0 _ _ _ _ Hnum Hden Hz Hk (Z.le_refl 0) Hm Hs Hp).
        -- change ([d] ++ d2 :: rest') with (d :: d2 :: rest'). rewrite Hval. cbn. lia.
        -- unfold e, pt, nd in *. cbn [length] in *. lia.
Qed.
