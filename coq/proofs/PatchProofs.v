(* PatchProofs.v — the theorems behind props/C05.v, props/C15.v and props/C20.v. *)
From JP Require Import Base Json PyStr Pointer Patch Rfc6901 Rfc6902 Edit PointerDomain PatchCorr
  PatchLemmas PatchCompose PointerNormal.
Local Open Scope Z_scope.
Arguments str_of_Z : simpl never.
Arguments array_index : simpl never.

(* ---------------------------------------------------------------------- *)
(* C05 *)

Lemma op_refines1 o r d : corresponds o r -> refines1 (apply_op o d) (rfc_op r d).
Proof.
  intros H. destruct H; cbn [apply_op].
  - apply refines1_of_option. apply add_lrel; auto.
  - apply refines1_of_option. apply remove_lrel; auto.
  - apply refines1_of_option. apply replace_lrel; auto.
  - apply move_refines1; auto.
  - apply copy_refines1; auto.
  - apply test_refines1; auto.
Qed.

Lemma translate_perr e : perr e -> exists k, translate e = EPatch k.
Proof.
  destruct e as [k0 | k | k0 | k | b | |]; cbn [perr]; try contradiction; intros _.
  - exists KPatch. reflexivity.
  - destruct k; [exists KPatch|exists KPatchTest]; reflexivity.
Qed.

Lemma refines_translate r o :
  refines1 r o -> refines (match r with Ok d' => Ok d' | Err e => Err (translate e) end) o.
Proof.
  destruct o; cbn [refines1 refines].
  - intros ->. reflexivity.
  - intros [e [-> He]]. destruct (translate_perr e He) as [k Hk]. exists k. rewrite Hk. reflexivity.
  - intros ->. reflexivity.
Qed.

Lemma apply_single o d :
  Patch.apply [o] d = match apply_op o d with Ok d' => Ok d' | Err e => Err (translate e) end.
Proof. cbn [Patch.apply]. destruct (apply_op o d); reflexivity. Qed.

Lemma apply_refines :
  forall (ops : list pop) (rops : list rop) (d : json),
    Forall2 corresponds ops rops ->
    refines (Patch.apply ops d) (rfc_apply rops d).
Proof.
  intros ops rops d H. revert d. induction H as [|o r ops rops Hc _ IH]; intros d.
  - reflexivity.
  - cbn [Patch.apply rfc_apply].
    pose proof (op_refines1 o r d Hc) as R.
    destruct (rfc_op r d) as [d'| |]; cbn [refines1] in R.
    + rewrite R. apply IH.
    + destruct R as [e [-> He]]. destruct (translate_perr e He) as [k Hk].
      exists k. rewrite Hk. reflexivity.
    + rewrite R. reflexivity.
Qed.

Lemma apply_no_builtin :
  forall (ops : list pop) (rops : list rop) (d : json) (e : exn),
    Forall2 corresponds ops rops -> Patch.apply ops d = Err e -> exists k, e = EPatch k.
Proof.
  intros ops rops d e H Ha. pose proof (apply_refines ops rops d H) as R.
  destruct (rfc_apply rops d); cbn [refines] in R.
  - congruence.
  - destruct R as [k R]. exists k. congruence.
  - exists KPatchTest. congruence.
Qed.

Lemma addne_refines1 p v d : std_pointer p ->
  refines1 (apply_addne p v d) (doc_addne (tokens p) v d).
Proof.
  intros Hp. destruct (snoc_case p) as [->|[p' [x ->]]].
  - reflexivity.
  - pose proof (add_lrel _ v d Hp) as Hadd. apply refines1_of_option in Hadd.
    rewrite tokens_snoc in *. unfold doc_addne. rewrite last_opt_snoc, removelast_last.
    unfold rfc_get, rfc_eval.
    pose proof (resolve_parent_std p' x d Hp) as H.
    destruct (rfc_eval_from [] d (tokens p')) as [[l pv]|]; cbn [option_map snd].
    2:{ destruct H as [k H].
        assert (E : apply_addne (p' ++ [x]) v d = apply_add AddStd (p' ++ [x]) v d).
        { unfold apply_addne, apply_add. rewrite H. reflexivity. }
        rewrite E. exact Hadd. }
    destruct H as [Hrp Hgi].
    destruct Hgi as [ms c -> Hl Hs Hg | ms -> Hl Hs Hg | xs z c -> -> Hai Hz Hn Hs Hg
                  | xs z -> -> Hai Hz Hs Hg | xs -> -> Hs Hg | xs s -> -> Hd Hai Hs Hg | Hc Hs Hg].
    + rewrite Hl. unfold apply_addne. rewrite Hrp. unfold lastres. rewrite Hg. cbn [bind].
      rewrite last_opt_snoc. cbn [rv_json]. unfold dict_has, member_name. rewrite Hl. reflexivity.
    + rewrite Hl.
      assert (E : apply_addne (p' ++ [x]) v d = apply_add AddStd (p' ++ [x]) v d).
      { unfold apply_addne. rewrite Hrp. unfold lastres. rewrite Hg. cbn [bind].
        rewrite last_opt_snoc. cbn [rv_json]. unfold dict_has, member_name. rewrite Hl. reflexivity. }
      rewrite E. exact Hadd.
    + assert (E : apply_addne (p' ++ [PInt z]) v d = apply_add AddStd (p' ++ [PInt z]) v d).
      { unfold apply_addne. rewrite Hrp. unfold lastres. rewrite Hg. cbn [bind].
        rewrite last_opt_snoc. reflexivity. }
      rewrite E. exact Hadd.
    + assert (E : apply_addne (p' ++ [PInt z]) v d = apply_add AddStd (p' ++ [PInt z]) v d).
      { unfold apply_addne. rewrite Hrp. unfold lastres. rewrite Hg. cbn [bind].
        rewrite last_opt_snoc. reflexivity. }
      rewrite E. exact Hadd.
    + assert (E : apply_addne (p' ++ [PStr [ch_minus]]) v d = apply_add AddStd (p' ++ [PStr [ch_minus]]) v d).
      { unfold apply_addne. rewrite Hrp. unfold lastres. rewrite Hg. cbn [bind].
        rewrite last_opt_snoc. reflexivity. }
      rewrite E. exact Hadd.
    + assert (E : apply_addne (p' ++ [PStr s]) v d = apply_add AddStd (p' ++ [PStr s]) v d).
      { unfold apply_addne, apply_add. rewrite Hrp. unfold lastres. rewrite Hg. reflexivity. }
      rewrite E. exact Hadd.
    + assert (E : apply_addne (p' ++ [x]) v d = apply_add AddStd (p' ++ [x]) v d).
      { unfold apply_addne, apply_add. rewrite Hrp. unfold lastres. rewrite Hg. reflexivity. }
      rewrite E. destruct pv; try discriminate Hc; exact Hadd.
Qed.

Lemma addap_refines1 p v d : std_pointer p ->
  refines1 (apply_add AddAp p v d) (doc_addap (tokens p) v d).
Proof.
  intros Hp. destruct (snoc_case p) as [->|[p' [x ->]]].
  - reflexivity.
  - pose proof (apply_add_snoc AddAp p' x v d Hp) as Hadd. apply refines1_of_option in Hadd.
    rewrite tokens_snoc. unfold doc_addap. rewrite last_opt_snoc, removelast_last.
    unfold rfc_get, rfc_eval.
    pose proof (descent _ (rfc_add_descends v) (tokens p') (part_text x) d) as E.
    pose proof (descent _ (rfc_add_descends v) (tokens p') ([ch_minus] : ustr) d) as E'.
    cbv beta in E, E'.
    destruct (rfc_eval_from [] d (tokens p')) as [[l pv]|]; cbn [option_map snd].
    2:{ rewrite E. exact Hadd. }
    cbn [local_add] in Hadd. unfold local_addap in Hadd.
    destruct pv; try (rewrite E; exact Hadd).
    destruct (array_index (part_text x)) as [z|]; try (rewrite E; exact Hadd).
    destruct (Z.leb (Z.of_nat (length l0)) z); [|rewrite E; exact Hadd].
    match type of E' with ?L = _ =>
      change (refines1 (apply_add AddAp (p' ++ [x]) v d) (of_option L)) end.
    rewrite E'. exact Hadd.
Qed.

Lemma addne_refines :
  forall (p : pointer) (v d : json),
    std_pointer p -> refines (Patch.apply [OpAddNe p v] d) (doc_addne (tokens p) v d).
Proof.
  intros p v d Hp. rewrite apply_single. apply refines_translate. apply addne_refines1; auto.
Qed.

Lemma addap_refines :
  forall (p : pointer) (v d : json),
    std_pointer p -> refines (Patch.apply [OpAddAp p v] d) (doc_addap (tokens p) v d).
Proof.
  intros p v d Hp. rewrite apply_single. apply refines_translate. apply addap_refines1; auto.
Qed.

(* ---------------------------------------------------------------------- *)
(* C15: the three forms of a patch *)

Definition ptr (mode : bool) (s : ustr) : result pointer :=
  match Pointer.parse mode s with
  | Ok p => Ok p
  | Err (EPointer _) => Err (EPatch KPatch)
  | Err e => Err e
  end.

Lemma ptr_ok mode s p : ptr mode s = Ok p -> Pointer.parse mode s = Ok p.
Proof.
  unfold ptr. destruct (Pointer.parse mode s) as [q|e]; [auto|].
  destruct e; discriminate.
Qed.

Lemma ptr_reload mode s p :
  ptr mode s = Ok p -> (mode = false \/ no_backslash (encode p) = true) ->
  ptr mode (encode p) = Ok p.
Proof.
  intros H Hm. apply ptr_ok in H. unfold ptr. rewrite (parse_roundtrip mode s p H Hm). reflexivity.
Qed.

Lemma build_op_unfold mode o :
  build_op mode o =
  match od_op o with
  | NAdd => p <- ptr mode (od_path o) ;; Ok (OpAdd p (od_value o))
  | NAddNe => p <- ptr mode (od_path o) ;; Ok (OpAddNe p (od_value o))
  | NAddAp => p <- ptr mode (od_path o) ;; Ok (OpAddAp p (od_value o))
  | NRemove => p <- ptr mode (od_path o) ;; Ok (OpRemove p)
  | NReplace => p <- ptr mode (od_path o) ;; Ok (OpReplace p (od_value o))
  | NMove => f <- ptr mode (od_from o) ;; p <- ptr mode (od_path o) ;; Ok (OpMove f p)
  | NCopy => f <- ptr mode (od_from o) ;; p <- ptr mode (od_path o) ;; Ok (OpCopy f p)
  | NTest => p <- ptr mode (od_path o) ;; Ok (OpTest p (od_value o))
  end.
Proof. reflexivity. Qed.

(* one loaded operation *)
Lemma build_op_spec mode o q : build_op mode o = Ok q ->
  od_op (asdict q) = od_op o /\
  match od_op o with
  | NRemove | NMove | NCopy => True
  | _ => od_value (asdict q) = od_value o
  end /\
  ((mode = false \/ (no_backslash (od_path (asdict q)) = true /\ no_backslash (od_from (asdict q)) = true)) ->
   build_op mode (asdict q) = Ok q).
Proof.
  rewrite build_op_unfold. intros H.
  destruct (od_op o) eqn:Eop;
    try (destruct (ptr mode (od_from o)) as [f|e] eqn:Ef; [|discriminate]; cbn [bind] in H);
    (destruct (ptr mode (od_path o)) as [p|e] eqn:Ep; [|discriminate]); cbn [bind] in H;
    injection H as <-; cbn [asdict od_op od_value od_path od_from];
    (split; [reflexivity|]); (split; [auto|]); intros Hm;
    rewrite build_op_unfold; cbn [asdict od_op od_value od_path od_from].
  all: try (rewrite (ptr_reload mode _ _ Ef) by (destruct Hm as [Hm|[_ Hm]]; auto); cbn [bind]).
  all: rewrite (ptr_reload mode _ _ Ep) by (destruct Hm as [Hm|[Hm _]]; auto); reflexivity.
Qed.

Lemma map_result_Forall2 {A B} (f : A -> result B) : forall l l',
  map_result f l = Ok l' -> Forall2 (fun a b => f a = Ok b) l l'.
Proof.
  induction l as [|a l IH]; intros l' H; cbn [map_result] in H.
  - injection H as <-. constructor.
  - destruct (f a) as [b|e] eqn:Ea; [|discriminate]. cbn [bind] in H.
    destruct (map_result f l) as [bs|e]; [|discriminate]. cbn [bind] in H.
    injection H as <-. constructor; auto.
Qed.

Lemma build_names :
  forall (mode : bool) (ods : list opdoc) (pops : list pop),
    build mode ods = Ok pops -> map od_op (asdicts pops) = map od_op ods.
Proof.
  intros mode ods pops H. apply map_result_Forall2 in H.
  induction H as [|o q ods pops Hq _ IH]; [reflexivity|].
  unfold asdicts in *. cbn [map]. rewrite IH.
  destruct (build_op_spec mode o q Hq) as [-> _]. reflexivity.
Qed.

Lemma build_values :
  forall (mode : bool) (ods : list opdoc) (pops : list pop),
    build mode ods = Ok pops ->
    Forall2 (fun o d => match od_op d with
                        | NRemove | NMove | NCopy => True
                        | _ => od_value o = od_value d
                        end) (asdicts pops) ods.
Proof.
  intros mode ods pops H. apply map_result_Forall2 in H.
  induction H as [|o q ods pops Hq _ IH]; [constructor|].
  unfold asdicts in *. cbn [map]. constructor; [|exact IH].
  destruct (build_op_spec mode o q Hq) as [_ [Hv _]]. exact Hv.
Qed.

Lemma build_reload :
  forall (mode : bool) (ods : list opdoc) (pops : list pop),
    build mode ods = Ok pops ->
    (mode = false \/ Forall (fun o => no_backslash (od_path o) = true /\ no_backslash (od_from o) = true) (asdicts pops)) ->
    build mode (asdicts pops) = Ok pops.
Proof.
  intros mode ods pops H Hm. apply map_result_Forall2 in H. unfold build.
  induction H as [|o q ods pops Hq _ IH]; [reflexivity|].
  unfold asdicts in *. cbn [map map_result].
  destruct (build_op_spec mode o q Hq) as [_ [_ Hr]].
  rewrite Hr.
  - cbn [bind]. rewrite IH; [reflexivity|].
    destruct Hm as [Hm|Hm]; [left; exact Hm|right]. cbn [map] in Hm.
    apply Forall_cons_iff in Hm as [_ Hm]. exact Hm.
  - destruct Hm as [Hm|Hm]; [left; exact Hm|right]. cbn [map] in Hm.
    apply Forall_cons_iff in Hm as [Hm _]. exact Hm.
Qed.

(* ---------------------------------------------------------------------- *)
(* C20 *)

Lemma compose :
  forall (d : json) (l : loc) (v x : json),
    wf_json d = true -> node_at d l = Some v ->
    let p := of_loc l in
    Patch.apply [OpTest p v] d = Ok d /\
    (exists d', replace_at d l x = Some d' /\ Patch.apply [OpReplace p x] d = Ok d') /\
    (l <> [] -> exists d', delete_at d l = Some d' /\ Patch.apply [OpRemove p] d = Ok d') /\
    (l = [] -> exists k, Patch.apply [OpRemove p] d = Err (EPatch k)).
Proof. exact PatchCompose.compose. Qed.

Lemma replace_at_exact :
  forall (d : json) (l : loc) (x d' : json),
    replace_at d l x = Some d' ->
    node_at d' l = Some x /\
    forall l', (forall k, l' <> l ++ k) -> (forall k, l <> l' ++ k) -> node_at d' l' = node_at d l'.
Proof. exact PatchCompose.replace_at_exact. Qed.

(* ---------------------------------------------------------------------- *)
(* The add-like operations on the wider domain: only the tokens leading to the parent need to be
   standard when the parent is not an array (the last token is used literally as a member name).
   For an array parent the extension spellings of an index are outside RFC 6902 and the model
   follows Python's list semantics instead: see the refutations at the end. *)

Lemma add_refines_parent :
  forall (p : pointer) (v d : json),
    std_parent p -> parent_not_array (tokens p) d ->
    refines (Patch.apply [OpAdd p v] d) (rfc_op (RAdd (tokens p) v) d).
Proof.
  intros p v d Hp Hna. rewrite apply_single. apply refines_translate. cbn [apply_op rfc_op].
  apply refines1_of_option. apply add_lrel_parent; auto.
Qed.

Lemma addne_refines1_parent p v d :
  std_parent p -> parent_not_array (tokens p) d ->
  refines1 (apply_addne p v d) (doc_addne (tokens p) v d).
Proof.
  intros Hp Hna. destruct (snoc_case p) as [->|[p' [x ->]]].
  - reflexivity.
  - pose proof (add_lrel_parent _ v d Hp Hna) as Hadd. apply refines1_of_option in Hadd.
    rewrite tokens_snoc in *. unfold doc_addne. rewrite last_opt_snoc, removelast_last.
    unfold rfc_get, rfc_eval.
    pose proof (std_parent_snoc _ _ Hp) as Hstd. pose proof (parent_not_array_eval _ _ _ Hna) as Hev.
    pose proof (reduce_std p' Hstd [] d) as Hred.
    assert (Herr : forall e, resolve_parent (p' ++ [x]) d = Err e ->
                   apply_addne (p' ++ [x]) v d = apply_add AddStd (p' ++ [x]) v d).
    { intros e He. unfold apply_addne, apply_add. rewrite He. reflexivity. }
    destruct (rfc_eval_from [] d (tokens p')) as [[l pv]|] eqn:Ev; cbn [option_map snd].
    2:{ destruct Hred as [k Hred]. rewrite (Herr (EPointer k)); [exact Hadd|].
        rewrite resolve_parent_snoc, Hred. reflexivity. }
    destruct pv as [| b | n | s | xs | ms].
    5:{ exfalso. exact (Hev l xs Ev). }
    5:{ destruct (lastres_obj l ms x) as [o Ho].
        destruct (lookup (part_text x) ms) as [c|] eqn:Hl.
        - unfold apply_addne. rewrite resolve_parent_snoc, Hred. cbn [bind]. rewrite Ho. cbn [bind].
          rewrite last_opt_snoc. cbn [rv_json]. unfold dict_has, member_name. rewrite Hl. reflexivity.
        - assert (E : apply_addne (p' ++ [x]) v d = apply_add AddStd (p' ++ [x]) v d).
          { unfold apply_addne. rewrite resolve_parent_snoc, Hred. cbn [bind]. rewrite Ho. cbn [bind].
            rewrite last_opt_snoc. cbn [rv_json]. unfold dict_has, member_name. rewrite Hl. reflexivity. }
          rewrite E. exact Hadd. }
    all: rewrite (Herr (EPointer KPtrType));
      [exact Hadd | rewrite resolve_parent_snoc, Hred; cbn [bind]; apply lastres_scalar; reflexivity].
Qed.

Lemma addap_refines1_parent p v d :
  std_parent p -> parent_not_array (tokens p) d ->
  refines1 (apply_add AddAp p v d) (doc_addap (tokens p) v d).
Proof.
  intros Hp Hna. destruct (snoc_case p) as [->|[p' [x ->]]].
  - reflexivity.
  - rewrite tokens_snoc in *.
    pose proof (std_parent_snoc _ _ Hp) as Hstd. pose proof (parent_not_array_eval _ _ _ Hna) as Hev.
    pose proof (apply_add_snoc_noarr AddAp p' x v d Hstd Hev) as Hadd. apply refines1_of_option in Hadd.
    unfold doc_addap. rewrite last_opt_snoc, removelast_last. unfold rfc_get, rfc_eval.
    pose proof (descent _ (rfc_add_descends v) (tokens p') (part_text x) d) as E. cbv beta in E.
    destruct (rfc_eval_from [] d (tokens p')) as [[l pv]|] eqn:Ev; cbn [option_map snd].
    2:{ rewrite E. exact Hadd. }
    cbn [local_add] in Hadd. unfold local_addap in Hadd.
    destruct pv; try (rewrite E; exact Hadd). exfalso. exact (Hev _ _ Ev).
Qed.

Lemma addne_refines_parent :
  forall (p : pointer) (v d : json),
    std_parent p -> parent_not_array (tokens p) d ->
    refines (Patch.apply [OpAddNe p v] d) (doc_addne (tokens p) v d).
Proof.
  intros p v d Hp Hna. rewrite apply_single. apply refines_translate. apply addne_refines1_parent; auto.
Qed.

Lemma addap_refines_parent :
  forall (p : pointer) (v d : json),
    std_parent p -> parent_not_array (tokens p) d ->
    refines (Patch.apply [OpAddAp p v] d) (doc_addap (tokens p) v d).
Proof.
  intros p v d Hp Hna. rewrite apply_single. apply refines_translate. apply addap_refines1_parent; auto.
Qed.

(* the full domain of the three theorems: every token standard, or the tokens up to the parent
   standard and the parent not an array; the std_pointer theorems are the first disjunct *)
Definition add_domain (p : pointer) (d : json) : Prop :=
  std_pointer p \/ (std_parent p /\ parent_not_array (tokens p) d).

Lemma std_pointer_add_domain p d : std_pointer p -> add_domain p d.
Proof. intros H. left. exact H. Qed.

Theorem add_refines_wide :
  forall (p : pointer) (v d : json),
    add_domain p d -> refines (Patch.apply [OpAdd p v] d) (rfc_op (RAdd (tokens p) v) d).
Proof.
  intros p v d [Hp|[Hp Hna]]; [|apply add_refines_parent; auto].
  rewrite apply_single. apply refines_translate. apply op_refines1. constructor. exact Hp.
Qed.

Theorem addne_refines_wide :
  forall (p : pointer) (v d : json),
    add_domain p d -> refines (Patch.apply [OpAddNe p v] d) (doc_addne (tokens p) v d).
Proof. intros p v d [Hp|[Hp Hna]]; [apply addne_refines|apply addne_refines_parent]; auto. Qed.

Theorem addap_refines_wide :
  forall (p : pointer) (v d : json),
    add_domain p d -> refines (Patch.apply [OpAddAp p v] d) (doc_addap (tokens p) v d).
Proof. intros p v d [Hp|[Hp Hna]]; [apply addap_refines|apply addap_refines_parent]; auto. Qed.

(* the cases the seeded regression exercises: member names that look like key tokens, with and
   without the sibling the token would fall back to *)
Lemma std_parent_single x : normal_part x -> std_parent [x].
Proof. intros H. split; [constructor; [exact H|constructor]|reflexivity]. Qed.

Example add_keylike_member_names :
  let a := [97%N] in let ha := [35%N; 97%N] in let ta := [126%N; 97%N] in
  let one := JNum (num_of_Z 1) in let two := JNum (num_of_Z 2) in
  std_parent [PStr ha] /\ ~ std_pointer [PStr ha] /\
  Patch.apply [OpAdd [PStr ha] two] (JObj [(a, one)]) = Ok (JObj [(a, one); (ha, two)]) /\
  Patch.apply [OpAdd [PStr ha] two] (JObj []) = Ok (JObj [(ha, two)]) /\
  Patch.apply [OpAddNe [PStr ta] two] (JObj [(a, one)]) = Ok (JObj [(a, one); (ta, two)]) /\
  Patch.apply [OpAddNe [PStr ta] two] (JObj [(a, one); (ta, one)]) = Ok (JObj [(a, one); (ta, one)]) /\
  Patch.apply [OpAddAp [PStr ha] two] (JObj [(a, one)]) = Ok (JObj [(a, one); (ha, two)]).
Proof.
  cbv zeta. split; [apply std_parent_single; vm_compute; reflexivity|].
  split; [intros [_ H]; vm_compute in H; discriminate|].
  repeat split; vm_compute; reflexivity.
Qed.

(* for an ARRAY parent the wider domain is false: the model follows Python's list semantics for
   the extension spellings of an index, RFC 6902 says error *)
Example add_negative_index_refuted :
  let one := JNum (num_of_Z 1) in let two := JNum (num_of_Z 2) in let nine := JNum (num_of_Z 9) in
  std_parent [PInt (-1)] /\
  Patch.apply [OpAdd [PInt (-1)] nine] (JArr [one; two]) = Ok (JArr [one; nine; two]) /\
  rfc_op (RAdd (tokens [PInt (-1)]) nine) (JArr [one; two]) = OError /\
  Patch.apply [OpAddNe [PInt (-1)] nine] (JArr [one; two]) = Ok (JArr [one; nine; two]) /\
  doc_addne (tokens [PInt (-1)]) nine (JArr [one; two]) = OError.
Proof.
  cbv zeta. split; [apply std_parent_single; vm_compute; reflexivity|].
  repeat split; vm_compute; reflexivity.
Qed.

Example addap_extension_index_refuted :
  let one := JNum (num_of_Z 1) in let nine := JNum (num_of_Z 9) in
  let h5 := PStr [35%N; 53%N] in
  std_parent [h5] /\ std_parent [PInt (-5)] /\
  Patch.apply [OpAddAp [h5] nine] (JArr [one]) = Ok (JArr [one; nine]) /\
  doc_addap (tokens [h5]) nine (JArr [one]) = OError /\
  Patch.apply [OpAddAp [PInt (-5)] nine] (JArr [one]) = Ok (JArr [one; nine]) /\
  doc_addap (tokens [PInt (-5)]) nine (JArr [one]) = OError.
Proof.
  cbv zeta. split; [apply std_parent_single; vm_compute; reflexivity|].
  split; [apply std_parent_single; vm_compute; reflexivity|].
  repeat split; vm_compute; reflexivity.
Qed.
