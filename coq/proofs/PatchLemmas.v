(* PatchLemmas.v — lemmas behind C05 / C15 / C20:
   container primitives of the model vs the RFC 6902 element/member functions,
   [set_at] vs structural descent, one-step agreement of [getitem] with [rfc_step]
   for standard pointers, and the refinement of each single patch operation. *)
From JP Require Import Base Json PyStr Pointer Patch Rfc6901 Rfc6902 Edit PointerDomain PatchCorr.
From JP Require PyStrLemmas.

Local Open Scope Z_scope.

Arguments max_int_index : simpl never.
Arguments min_int_index : simpl never.
Arguments spec_max_index : simpl never.

(* ---------------------------------------------------------------------- *)
(* Generic list facts. *)

Lemma snoc_case {A} (l : list A) : l = [] \/ exists l' x, l = l' ++ [x].
Proof.
  destruct l as [|y l]; auto. right.
  destruct (exists_last (l:=y :: l)) as [l' [x E]]; [discriminate|]. eauto.
Qed.

Lemma last_opt_snoc {A} (l : list A) x : last_opt (l ++ [x]) = Some x.
Proof.
  induction l as [|y l IH]; simpl; auto.
  destruct (l ++ [x]) eqn:E; auto. destruct l; discriminate.
Qed.

Lemma nth_opt_lt {A} (l : list A) i : (i < length l)%nat -> exists c, nth_opt l i = Some c.
Proof.
  revert i; induction l as [|y l IH]; intros [|i] H; simpl in *; try lia; eauto.
  apply IH. lia.
Qed.

Lemma nth_opt_some_lt {A} (l : list A) i c : nth_opt l i = Some c -> (i < length l)%nat.
Proof.
  revert i; induction l as [|y l IH]; intros [|i] H; simpl in *; try discriminate; try lia.
  apply IH in H. lia.
Qed.

(* ---------------------------------------------------------------------- *)
(* Model container primitives = RFC 6902 element / member functions. *)

Lemma dict_set_member_set ms k v : dict_set ms k v = member_set ms k v.
Proof. reflexivity. Qed.

Lemma member_remove_present ms k c :
  lookup k ms = Some c -> member_remove ms k = Some (dict_del ms k).
Proof.
  induction ms as [|[k' v'] ms IH]; simpl; intros H; [discriminate|].
  destruct (ustr_eqb k k'); auto. rewrite IH; auto.
Qed.

Lemma member_remove_absent ms k : lookup k ms = None -> member_remove ms k = None.
Proof.
  induction ms as [|[k' v'] ms IH]; simpl; intros H; auto.
  destruct (ustr_eqb k k'); [discriminate|]. rewrite IH; auto.
Qed.

Lemma elem_insert_ok xs i (v : json) :
  (i <= length xs)%nat -> elem_insert xs i v = Some (list_insert_nat xs i v).
Proof.
  revert xs; induction i as [|i IH]; intros xs H.
  - destruct xs; reflexivity.
  - destruct xs as [|x xs]; simpl in *; [lia|]. rewrite IH by lia. reflexivity.
Qed.

Lemma list_insert_nat_end {A} (xs : list A) v : list_insert_nat xs (length xs) v = xs ++ [v].
Proof. induction xs as [|x xs IH]; simpl; auto. rewrite IH; auto. Qed.

Lemma elem_remove_ok xs i : (i < length xs)%nat -> elem_remove xs i = Some (list_del xs i).
Proof.
  revert i; induction xs as [|x xs IH]; intros i H; simpl in *; [lia|].
  destruct i as [|i]; auto. rewrite IH by lia. reflexivity.
Qed.

Lemma elem_replace_ok xs i v : (i < length xs)%nat -> elem_replace xs i v = Some (list_set xs i v).
Proof.
  revert i; induction xs as [|x xs IH]; intros i H; simpl in *; [lia|].
  destruct i as [|i]; auto. rewrite IH by lia. reflexivity.
Qed.

Lemma py_insert_in_range {A} (xs : list A) z v :
  0 <= z <= Z.of_nat (length xs) -> py_insert xs z v = list_insert_nat xs (Z.to_nat z) v.
Proof.
  intros H. unfold py_insert.
  destruct (Z.ltb_spec z 0); [lia|]. rewrite Z.min_l by lia. reflexivity.
Qed.

Lemma py_norm_index_in_range len z :
  0 <= z < Z.of_nat len -> py_norm_index len z = Some (Z.to_nat z).
Proof.
  intros H. unfold py_norm_index.
  destruct (Z.ltb_spec z 0); [lia|].
  destruct (Z.ltb_spec z 0); [lia|]. destruct (Z.leb_spec (Z.of_nat len) z); [lia|]. reflexivity.
Qed.

Lemma py_list_index_in_range {A} (xs : list A) z c :
  0 <= z -> nth_opt xs (Z.to_nat z) = Some c -> py_list_index xs z = Some (Z.to_nat z, c).
Proof.
  intros H Hn. unfold py_list_index.
  pose proof (nth_opt_some_lt _ _ _ Hn) as Hlt.
  destruct (Z.ltb_spec z 0); [lia|].
  destruct (Z.ltb_spec z 0); [lia|]. destruct (Z.leb_spec (Z.of_nat (length xs)) z); [lia|].
  simpl. rewrite Hn. reflexivity.
Qed.

Lemma py_list_index_beyond {A} (xs : list A) z :
  Z.of_nat (length xs) <= z -> py_list_index xs z = None.
Proof.
  intros H. unfold py_list_index.
  destruct (Z.ltb_spec z 0); [lia|].
  destruct (Z.ltb_spec z 0); [lia|]. destruct (Z.leb_spec (Z.of_nat (length xs)) z); [|lia]. reflexivity.
Qed.

(* ---------------------------------------------------------------------- *)
(* set_at, one level at a time. *)

Fixpoint upd_key (ms : list (ustr * json)) (k : ustr) (f : json -> json) : list (ustr * json) :=
  match ms with
  | [] => []
  | (k', v) :: ms' => if ustr_eqb k k' then (k', f v) :: ms' else (k', v) :: upd_key ms' k f
  end.

Fixpoint upd_idx (xs : list json) (i : nat) (f : json -> json) : list json :=
  match xs, i with
  | [], _ => []
  | v :: xs', O => f v :: xs'
  | v :: xs', S i' => v :: upd_idx xs' i' f
  end.

Lemma set_at_nil d x : set_at d [] x = x.
Proof. destruct d; reflexivity. Qed.

Lemma set_at_key ms k l x :
  set_at (JObj ms) (PKey k :: l) x = JObj (upd_key ms k (fun v => set_at v l x)).
Proof.
  simpl. f_equal. induction ms as [|[k' v] ms IH]; simpl; auto.
  destruct (ustr_eqb k k'); auto. rewrite IH. reflexivity.
Qed.

Lemma set_at_idx xs i l x :
  set_at (JArr xs) (PIdx i :: l) x = JArr (upd_idx xs i (fun v => set_at v l x)).
Proof.
  simpl. f_equal. revert i; induction xs as [|v xs IH]; intros i; simpl.
  - destruct i; auto.
  - destruct i as [|i]; auto. rewrite IH. reflexivity.
Qed.

Lemma upd_key_member_set ms k f c :
  lookup k ms = Some c -> upd_key ms k f = member_set ms k (f c).
Proof.
  induction ms as [|[k' v] ms IH]; simpl; intros H; [discriminate|].
  destruct (ustr_eqb k k').
  - injection H as ->. reflexivity.
  - rewrite IH; auto.
Qed.

Lemma upd_idx_elem_replace xs i f c :
  nth_opt xs i = Some c -> elem_replace xs i (f c) = Some (upd_idx xs i f).
Proof.
  revert i; induction xs as [|v xs IH]; intros i H; simpl in *; [discriminate|].
  destruct i as [|i].
  - injection H as ->. reflexivity.
  - rewrite (IH _ H). reflexivity.
Qed.

Lemma set_at_app d l1 l2 c x :
  node_at d l1 = Some c -> set_at d (l1 ++ l2) x = set_at d l1 (set_at c l2 x).
Proof.
  revert d; induction l1 as [|p l1 IH]; intros d H; simpl in H.
  - injection H as ->. simpl. rewrite set_at_nil. reflexivity.
  - destruct (step d p) as [c0|] eqn:Hs; [|discriminate].
    destruct p as [k|i]; destruct d; simpl in Hs; try discriminate.
    + rewrite <- app_comm_cons, !set_at_key. f_equal.
      rewrite !(upd_key_member_set _ _ _ _ Hs). rewrite (IH _ H). reflexivity.
    + rewrite <- app_comm_cons, !set_at_idx. f_equal.
      pose proof (upd_idx_elem_replace l i (fun v => set_at v (l1 ++ l2) x) _ Hs) as E1.
      pose proof (upd_idx_elem_replace l i (fun v => set_at v l1 (set_at c l2 x)) _ Hs) as E2.
      simpl in E1, E2. rewrite (IH _ H) in E1. congruence.
Qed.

(* replace_at on a valid location is set_at *)
Lemma replace_at_set_at d l x c :
  node_at d l = Some c -> replace_at d l x = Some (set_at d l x).
Proof.
  revert d; induction l as [|p l IH]; intros d H.
  - rewrite set_at_nil. reflexivity.
  - simpl in H. destruct (step d p) as [c0|] eqn:Hs; [|discriminate].
    destruct p as [k|i]; destruct d; simpl in Hs; try discriminate.
    + rewrite set_at_key. simpl. rewrite Hs. rewrite (IH _ H). simpl.
      rewrite (upd_key_member_set _ _ _ _ Hs). reflexivity.
    + rewrite set_at_idx. simpl. rewrite Hs. rewrite (IH _ H).
      rewrite (upd_idx_elem_replace _ _ (fun v => set_at v l x) _ Hs). reflexivity.
Qed.

(* ---------------------------------------------------------------------- *)
(* RFC 6901 evaluation: accumulated location, concatenation, node_at. *)

Lemma rfc_eval_from_shift l0 v ts :
  rfc_eval_from l0 v ts = option_map (fun lc => (l0 ++ fst lc, snd lc)) (rfc_eval_from [] v ts).
Proof.
  revert l0 v; induction ts as [|t ts IH]; intros l0 v; simpl.
  - rewrite app_nil_r. reflexivity.
  - destruct (rfc_step v t) as [[p c]|]; simpl; auto.
    rewrite (IH (l0 ++ [p])), (IH [p]).
    destruct (rfc_eval_from [] c ts) as [[l c']|]; simpl; auto. rewrite <- app_assoc. reflexivity.
Qed.

Lemma rfc_eval_from_app l v ts1 ts2 :
  rfc_eval_from l v (ts1 ++ ts2) =
  match rfc_eval_from l v ts1 with Some (l', v') => rfc_eval_from l' v' ts2 | None => None end.
Proof.
  revert l v; induction ts1 as [|t ts1 IH]; intros l v; simpl; auto.
  destruct (rfc_step v t) as [[p c]|]; auto.
Qed.

Lemma rfc_step_step v t p c : rfc_step v t = Some (p, c) -> step v p = Some c.
Proof.
  unfold rfc_step. destruct v; try discriminate.
  - destruct (array_index t) as [z|]; [|discriminate].
    destruct (Z.ltb z (Z.of_nat (length l))); [|discriminate].
    destruct (nth_opt l (Z.to_nat z)) as [c0|] eqn:Hn; [|discriminate].
    intros H; injection H as <- <-. exact Hn.
  - destruct (lookup t l) as [c0|] eqn:Hl; [|discriminate].
    intros H; injection H as <- <-. exact Hl.
Qed.

Lemma rfc_eval_from_node ts : forall l0 v l c,
  rfc_eval_from l0 v ts = Some (l, c) -> exists l', l = l0 ++ l' /\ node_at v l' = Some c.
Proof.
  induction ts as [|t ts IH]; intros l0 v l c H; simpl in H.
  - injection H as <- <-. exists []. rewrite app_nil_r. auto.
  - destruct (rfc_step v t) as [[p c0]|] eqn:Hs; [|discriminate].
    apply IH in H as [l' [-> Hn]]. exists (p :: l'). split.
    + rewrite <- app_assoc. reflexivity.
    + simpl. rewrite (rfc_step_step _ _ _ _ Hs). exact Hn.
Qed.

Lemma rfc_eval_node ts d l c : rfc_eval_from [] d ts = Some (l, c) -> node_at d l = Some c.
Proof. intros H. apply rfc_eval_from_node in H as [l' [-> Hn]]. exact Hn. Qed.

(* ---------------------------------------------------------------------- *)
(* Structural descent = evaluate the parent, act locally, put back with set_at. *)

Definition descends (f : list ustr -> json -> option json) : Prop :=
  forall t t' rest d, f (t :: t' :: rest) d = on_child d t (f (t' :: rest)).

Lemma descent f : descends f -> forall ts t d,
  f (ts ++ [t]) d = match rfc_eval_from [] d ts with
                    | Some (l, pv) => option_map (set_at d l) (f [t] pv)
                    | None => None
                    end.
Proof.
  intros Hf. induction ts as [|t0 ts IH]; intros t d.
  - simpl. destruct (f [t] d); simpl; rewrite ?set_at_nil; reflexivity.
  - rewrite <- app_comm_cons.
    destruct (ts ++ [t]) as [|t' rest] eqn:E; [destruct ts; discriminate|].
    rewrite Hf. rewrite <- E. clear E t' rest.
    unfold on_child. simpl rfc_eval_from. unfold rfc_step, elem_index.
    destruct d as [| | | |xs|ms]; try reflexivity.
    + destruct (array_index t0) as [z|]; [|reflexivity].
      destruct (Z.ltb z (Z.of_nat (length xs))); [|reflexivity].
      destruct (nth_opt xs (Z.to_nat z)) as [c|] eqn:Hn; [|reflexivity].
      rewrite IH. rewrite (rfc_eval_from_shift ([] ++ [PIdx (Z.to_nat z)])).
      destruct (rfc_eval_from [] c ts) as [[l pv]|]; simpl; [|reflexivity].
      destruct (f [t] pv) as [y|]; simpl; [|reflexivity].
      pose proof (upd_idx_elem_replace xs (Z.to_nat z) (fun v => set_at v l y) c Hn) as E.
      simpl in E. rewrite E. simpl. f_equal. f_equal.
      revert E; generalize (Z.to_nat z); clear; intros i _.
      revert i; induction xs as [|v xs IH]; intros [|i]; simpl; auto. rewrite IH. reflexivity.
    + destruct (lookup t0 ms) as [c|] eqn:Hl; [|reflexivity].
      rewrite IH. rewrite (rfc_eval_from_shift ([] ++ [PKey t0])).
      destruct (rfc_eval_from [] c ts) as [[l pv]|]; simpl; [|reflexivity].
      destruct (f [t] pv) as [y|]; simpl; [|reflexivity].
      rewrite <- (upd_key_member_set ms t0 (fun v => set_at v l y) c Hl).
      f_equal. f_equal. clear. induction ms as [|[k' v] ms IH]; simpl; auto.
      destruct (ustr_eqb t0 k'); auto. rewrite IH. reflexivity.
Qed.

Lemma rfc_add_descends v : descends (fun p => rfc_add p v).
Proof. intros t t' rest d. reflexivity. Qed.
Lemma rfc_remove_descends : descends rfc_remove.
Proof. intros t t' rest d. reflexivity. Qed.
Lemma rfc_replace_descends v : descends (fun p => rfc_replace p v).
Proof. intros t t' rest d. reflexivity. Qed.

(* ---------------------------------------------------------------------- *)
(* Index texts. *)

Lemma digit_not_minus c : is_ascii_digit c = true -> N.eqb c ch_minus = false.
Proof.
  unfold is_ascii_digit, ch_minus. intros H. apply andb_true_iff in H as [H1 H2].
  apply N.leb_le in H1. apply N.eqb_neq. lia.
Qed.

Lemma canonical_re s : canonical_nonneg s = true -> re_index_match s = true.
Proof.
  destruct s as [|c [|c' r]]; simpl; auto.
  intros H. pose proof H as H'.
  apply andb_true_iff in H' as [H1 _]. apply andb_true_iff in H1 as [H1 _].
  rewrite (digit_not_minus _ H1). exact H.
Qed.

Lemma re_nominus_canonical s :
  re_index_match s = true -> starts_with_ch ch_minus s = false ->
  canonical_nonneg s = true /\ int_of_index_text s = dec_value s.
Proof.
  destruct s as [|c [|c' r]]; simpl; try discriminate.
  - intros H Hm. rewrite Hm. auto.
  - intros H Hm. rewrite Hm in *. auto.
Qed.

Lemma leading_zero_not_canonical s :
  Nat.ltb 1 (length s) && starts_with_ch ch_0 s = true -> canonical_nonneg s = false.
Proof.
  destruct s as [|c [|c' r]]; simpl; try discriminate.
  intros H. unfold ch_0 in H. rewrite H. rewrite andb_false_r. reflexivity.
Qed.

Lemma canonical_all_digits s : canonical_nonneg s = true -> forallb is_ascii_digit s = true.
Proof.
  destruct s as [|c [|c' r]]; simpl; try discriminate.
  - intros ->. reflexivity.
  - intros H. apply andb_true_iff in H as [_ H]. exact H.
Qed.

Lemma fold_dec_nonneg s : forall acc, 0 <= acc -> forallb is_ascii_digit s = true ->
  0 <= fold_left (fun a c => 10 * a + digit_val c) s acc.
Proof.
  induction s as [|c s IH]; intros acc Ha H; cbn [forallb fold_left] in *; auto.
  apply andb_true_iff in H as [Hc Hs]. apply IH; auto.
  unfold is_ascii_digit in Hc. apply andb_true_iff in Hc as [H1 _]. apply N.leb_le in H1.
  unfold digit_val. lia.
Qed.

Lemma dec_value_nonneg s : forallb is_ascii_digit s = true -> 0 <= dec_value s.
Proof. intros H. unfold dec_value. apply fold_dec_nonneg; auto. lia. Qed.

Lemma toe_parts t : token_outside_extensions t = true ->
  starts_with_ch ch_hash t = false /\ starts_with_ch ch_tilde t = false /\
  (re_index_match t = true -> starts_with_ch ch_minus t = false).
Proof.
  unfold token_outside_extensions, int_like_token. intros H.
  apply andb_true_iff in H as [H _]. apply andb_true_iff in H as [H H3].
  apply andb_true_iff in H as [H1 H2].
  apply negb_true_iff in H1, H2, H3. repeat split; auto.
  intros Hre. rewrite Hre in H3. exact H3.
Qed.

(* what normal_part says about an integer part ... *)
Lemma normal_int z : normal_part (PInt z) -> token_outside_extensions (str_of_Z z) = true ->
  array_index (str_of_Z z) = Some z /\ 0 <= z.
Proof.
  unfold normal_part. cbn [part_text]. generalize (str_of_Z z) as t. intros t Hn Ht.
  unfold index_of_text in Hn.
  destruct (Nat.ltb 1 (length t) && starts_with_ch ch_0 t); [discriminate|].
  destruct (re_index_match t) eqn:Hre; [|discriminate]. cbn [negb] in Hn.
  destruct (Z.ltb (int_of_index_text t) min_int_index || Z.ltb max_int_index (int_of_index_text t));
    [discriminate|].
  injection Hn as Hz.
  apply toe_parts in Ht as [_ [_ Hm]]. specialize (Hm Hre).
  destruct (re_nominus_canonical _ Hre Hm) as [Hc Hv].
  unfold array_index. rewrite Hc. split.
  - congruence.
  - rewrite <- Hz, Hv. apply dec_value_nonneg. apply canonical_all_digits. exact Hc.
Qed.

(* ... and about a string part *)
Lemma normal_str s : normal_part (PStr s) -> array_index s = None.
Proof.
  unfold normal_part. cbn [part_text]. intros Hn. unfold index_of_text in Hn.
  unfold array_index.
  destruct (Nat.ltb 1 (length s) && starts_with_ch ch_0 s) eqn:H0.
  - rewrite (leading_zero_not_canonical _ H0). reflexivity.
  - destruct (re_index_match s) eqn:Hre; cbn [negb] in Hn.
    + destruct (Z.ltb (int_of_index_text s) min_int_index || Z.ltb max_int_index (int_of_index_text s));
        discriminate.
    + destruct (canonical_nonneg s) eqn:Hc; auto.
      apply canonical_re in Hc. congruence.
Qed.

(* ---------------------------------------------------------------------- *)
(* One step of the model on a standard part, classified. *)

Definition std_part (x : ppart) : Prop :=
  normal_part x /\ token_outside_extensions (part_text x) = true.

Inductive gi_case (l : loc) (pv : json) (x : ppart) : Prop :=
| GObjHit ms c :
    pv = JObj ms -> lookup (part_text x) ms = Some c ->
    rfc_step pv (part_text x) = Some (PKey (part_text x), c) ->
    getitem (RNode l pv) x = Ok (RNode (l ++ [PKey (part_text x)]) c) -> gi_case l pv x
| GObjMiss ms :
    pv = JObj ms -> lookup (part_text x) ms = None ->
    rfc_step pv (part_text x) = None ->
    getitem (RNode l pv) x = Err (EPointer KPtrKey) -> gi_case l pv x
| GArrHit xs z c :
    pv = JArr xs -> x = PInt z -> array_index (part_text x) = Some z ->
    0 <= z < Z.of_nat (length xs) -> nth_opt xs (Z.to_nat z) = Some c ->
    rfc_step pv (part_text x) = Some (PIdx (Z.to_nat z), c) ->
    getitem (RNode l pv) x = Ok (RNode (l ++ [PIdx (Z.to_nat z)]) c) -> gi_case l pv x
| GArrBeyond xs z :
    pv = JArr xs -> x = PInt z -> array_index (part_text x) = Some z ->
    Z.of_nat (length xs) <= z ->
    rfc_step pv (part_text x) = None ->
    getitem (RNode l pv) x = Err (EPointer KPtrIndex) -> gi_case l pv x
| GArrDash xs :
    pv = JArr xs -> x = PStr [ch_minus] ->
    rfc_step pv (part_text x) = None ->
    getitem (RNode l pv) x = Err (EPointer KPtrIndex) -> gi_case l pv x
| GArrBad xs s :
    pv = JArr xs -> x = PStr s -> ustr_eqb s [ch_minus] = false -> array_index s = None ->
    rfc_step pv (part_text x) = None ->
    getitem (RNode l pv) x = Err (EPointer KPtrType) -> gi_case l pv x
| GScalar :
    is_container pv = false ->
    rfc_step pv (part_text x) = None ->
    getitem (RNode l pv) x = Err (EPointer KPtrType) -> gi_case l pv x.

Lemma getitem_std l pv x : std_part x -> gi_case l pv x.
Proof.
  intros [Hn Ht]. destruct pv as [| b | n | s0 | xs | ms].
  - apply GScalar; reflexivity.
  - apply GScalar; reflexivity.
  - apply GScalar; reflexivity.
  - apply GScalar; reflexivity.
  - destruct x as [z|s].
    + destruct (normal_int z Hn Ht) as [Hai Hz]. cbn [part_text] in *.
      destruct (Z.ltb_spec z (Z.of_nat (length xs))) as [Hlt|Hge].
      * destruct (nth_opt_lt xs (Z.to_nat z)) as [c Hc]; [lia|].
        apply (GArrHit l _ _ xs z c); auto.
        -- unfold rfc_step. cbn [part_text]. rewrite Hai.
           destruct (Z.ltb_spec z (Z.of_nat (length xs))); [|lia]. rewrite Hc. reflexivity.
        -- unfold getitem. cbn [rv_json]. rewrite (py_list_index_in_range xs z c Hz Hc). reflexivity.
      * apply (GArrBeyond l _ _ xs z); auto.
        -- unfold rfc_step. cbn [part_text]. rewrite Hai.
           destruct (Z.ltb_spec z (Z.of_nat (length xs))); [lia|]. reflexivity.
        -- unfold getitem. cbn [rv_json]. rewrite (py_list_index_beyond xs z Hge). reflexivity.
    + pose proof (normal_str s Hn) as Hai. cbn [part_text] in *.
      destruct (ustr_eqb s [ch_minus]) eqn:Hd.
      * apply ustr_eqb_spec in Hd. subst s. apply (GArrDash l _ _ xs); auto.
      * apply toe_parts in Ht as [Hh _].
        apply (GArrBad l _ _ xs s); auto.
        -- unfold rfc_step. cbn [part_text]. rewrite Hai. reflexivity.
        -- unfold getitem. cbn [rv_json]. rewrite Hd, Hh.
           unfold normal_part in Hn. cbn [part_text] in Hn. rewrite Hn. reflexivity.
  - destruct (lookup (part_text x) ms) as [c|] eqn:Hl.
    + apply (GObjHit l _ _ ms c); auto.
      * unfold rfc_step. rewrite Hl. reflexivity.
      * unfold getitem. cbn [rv_json]. destruct x as [z|s]; cbn [part_text] in *; rewrite Hl; reflexivity.
    + apply (GObjMiss l _ _ ms); auto.
      * unfold rfc_step. rewrite Hl. reflexivity.
      * unfold getitem. cbn [rv_json]. destruct x as [z|s]; cbn [part_text] in *; rewrite Hl; auto.
        destruct s as [|c rest]; auto.
        apply toe_parts in Ht as [Hh [Htl _]]. cbn [starts_with_ch] in Hh, Htl.
        rewrite Hh, Htl. reflexivity.
Qed.

(* ---------------------------------------------------------------------- *)
(* Whole-pointer resolution of a standard pointer = RFC 6901 evaluation. *)

Lemma std_pointer_cons x p : std_pointer (x :: p) -> std_part x /\ std_pointer p.
Proof.
  intros [Hn Ho]. apply Forall_cons_iff in Hn as [Hx Hn].
  simpl in Ho. apply andb_true_iff in Ho as [Ho1 Ho2].
  repeat split; auto.
Qed.

Lemma std_pointer_snoc p x : std_pointer (p ++ [x]) -> std_pointer p /\ std_part x.
Proof.
  intros [Hn Ho]. apply Forall_app in Hn as [Hp Hx]. apply Forall_cons_iff in Hx as [Hx _].
  unfold tokens, outside_extensions in Ho. rewrite map_app, forallb_app in Ho.
  apply andb_true_iff in Ho as [Ho1 Ho2]. simpl in Ho2. rewrite andb_true_r in Ho2.
  repeat split; auto.
Qed.

Lemma tokens_snoc p x : tokens (p ++ [x]) = tokens p ++ [part_text x].
Proof. unfold tokens. rewrite map_app. reflexivity. Qed.

Lemma reduce_std p : std_pointer p -> forall l v,
  match rfc_eval_from l v (tokens p) with
  | Some (l', v') => reduce_getitem (RNode l v) p = Ok (RNode l' v')
  | None => exists k, reduce_getitem (RNode l v) p = Err (EPointer k)
  end.
Proof.
  induction p as [|x p IH]; intros Hp l v.
  - reflexivity.
  - apply std_pointer_cons in Hp as [Hx Hp]. specialize (IH Hp).
    cbn [tokens map rfc_eval_from reduce_getitem]. fold (tokens p).
    destruct (getitem_std l v x Hx) as
      [ms c _ _ Hs Hg | ms _ _ Hs Hg | xs z c _ _ _ _ _ Hs Hg | xs z _ _ _ _ Hs Hg
      | xs _ _ Hs Hg | xs s _ _ _ _ Hs Hg | _ Hs Hg ];
      rewrite Hs, Hg; cbn [bind]; first [apply IH | eauto].
Qed.

Definition lastres (par : rv) (x : ppart) : result (option rv * option rv) :=
  match getitem par x with
  | Ok r => Ok (Some par, Some r)
  | Err (EPointer KPtrIndex) | Err (EPointer KPtrKey) => Ok (Some par, None)
  | Err e => Err e
  end.

Lemma resolve_parent_snoc p x d :
  resolve_parent (p ++ [x]) d =
  (parent <- reduce_getitem (RNode [] d) p ;; lastres parent x).
Proof.
  unfold resolve_parent.
  destruct (p ++ [x]) as [|y q] eqn:E; [destruct p; discriminate|].
  rewrite <- E. rewrite removelast_last, last_opt_snoc. reflexivity.
Qed.

Lemma last_part_snoc p x : last_part (p ++ [x]) = Ok x.
Proof. unfold last_part. rewrite last_opt_snoc. reflexivity. Qed.

(* the outcome of resolve_parent on a standard non-root pointer *)
Lemma resolve_parent_std p x d : std_pointer (p ++ [x]) ->
  match rfc_eval_from [] d (tokens p) with
  | Some (l, pv) => resolve_parent (p ++ [x]) d = lastres (RNode l pv) x /\ gi_case l pv x
  | None => exists k, resolve_parent (p ++ [x]) d = Err (EPointer k)
  end.
Proof.
  intros Hp. apply std_pointer_snoc in Hp as [Hp Hx].
  rewrite resolve_parent_snoc.
  pose proof (reduce_std p Hp [] d) as H.
  destruct (rfc_eval_from [] d (tokens p)) as [[l pv]|].
  - rewrite H. split; [reflexivity|]. apply getitem_std; auto.
  - destruct H as [k H]. rewrite H. exists k. reflexivity.
Qed.

(* ---------------------------------------------------------------------- *)
(* Refinement vocabulary for a single operation (before error translation). *)

Definition perr (e : exn) : Prop :=
  match e with EPointer _ | EPatch _ => True | _ => False end.

Definition lrel (r : result json) (o : option json) : Prop :=
  match o with Some y => r = Ok y | None => exists e, r = Err e /\ perr e end.

Definition refines1 (r : result json) (o : outcome) : Prop :=
  match o with
  | OOk d => r = Ok d
  | OError => exists e, r = Err e /\ perr e
  | OTestFailed => r = Err (EPatch KPatchTest)
  end.

Lemma refines1_of_option r o : lrel r o -> refines1 r (of_option o).
Proof. destruct o; auto. Qed.

Lemma with_parent_lrel d l pv F o :
  lrel (F pv) o -> lrel (with_parent d (RNode l pv) F) (option_map (set_at d l) o).
Proof.
  unfold with_parent. destruct o as [y|]; simpl.
  - intros ->. reflexivity.
  - intros [e [-> He]]. exists e. auto.
Qed.

Lemma lrel_err e : perr e -> lrel (Err e) None.
Proof. intros H. exists e. auto. Qed.

Arguments str_of_Z : simpl never.
Arguments array_index : simpl never.

Ltac zdec := repeat match goal with
  | |- context [Z.leb ?a ?b] => destruct (Z.leb_spec a b); try lia
  | |- context [Z.ltb ?a ?b] => destruct (Z.ltb_spec a b); try lia
  | |- context [Z.eqb ?a ?b] => destruct (Z.eqb_spec a b); try lia
  end.

Lemma array_index_dash : array_index [ch_minus] = None.
Proof. reflexivity. Qed.

Lemma insert_index_num xs t z : array_index t = Some z ->
  insert_index xs t = if Z.leb z (Z.of_nat (length xs)) then Some (Z.to_nat z) else None.
Proof.
  intros H. unfold insert_index. destruct (ustr_eqb t [ch_minus]) eqn:E.
  - apply ustr_eqb_spec in E. subst t. rewrite array_index_dash in H. discriminate.
  - rewrite H. reflexivity.
Qed.

Lemma insert_index_bad xs s : ustr_eqb s [ch_minus] = false -> array_index s = None ->
  insert_index xs s = None.
Proof. intros H1 H2. unfold insert_index. rewrite H1, H2. reflexivity. Qed.

Lemma elem_index_num xs t z : array_index t = Some z ->
  elem_index xs t = if Z.ltb z (Z.of_nat (length xs)) then Some (Z.to_nat z) else None.
Proof. intros H. unfold elem_index. rewrite H. reflexivity. Qed.

Lemma elem_index_none xs t : array_index t = None -> elem_index xs t = None.
Proof. intros H. unfold elem_index. rewrite H. reflexivity. Qed.

(* ---------------------------------------------------------------------- *)
(* add (all three flavours), on a non-root standard pointer. *)

Definition local_addap (t : ustr) (v pv : json) : option json :=
  match pv with
  | JArr xs =>
      match array_index t with
      | Some z => if Z.leb (Z.of_nat (length xs)) z then rfc_add [[ch_minus]] v pv else rfc_add [t] v pv
      | None => rfc_add [t] v pv
      end
  | _ => rfc_add [t] v pv
  end.

Definition local_add (kind : add_kind) (t : ustr) (v pv : json) : option json :=
  match kind with AddStd => rfc_add [t] v pv | AddAp => local_addap t v pv end.

Lemma apply_add_snoc kind p x v d : std_pointer (p ++ [x]) ->
  lrel (apply_add kind (p ++ [x]) v d)
    (match rfc_eval_from [] d (tokens p) with
     | Some (l, pv) => option_map (set_at d l) (local_add kind (part_text x) v pv)
     | None => None
     end).
Proof.
  intros Hp. pose proof (resolve_parent_std p x d Hp) as H. unfold apply_add.
  destruct (rfc_eval_from [] d (tokens p)) as [[l pv]|].
  2:{ destruct H as [k H]. rewrite H. cbn [bind]. apply lrel_err. exact I. }
  destruct H as [Hrp Hgi]. rewrite Hrp. unfold lastres.
  destruct Hgi as [ms c -> Hl _ Hg | ms -> Hl _ Hg | xs z c -> -> Hai Hz Hn _ Hg
                  | xs z -> -> Hai Hz _ Hg | xs -> -> _ Hg | xs s -> -> Hd Hai _ Hg | Hc _ Hg];
    rewrite Hg; cbn [bind]; rewrite ?last_part_snoc; cbn [bind].
  - apply with_parent_lrel. unfold member_name. rewrite dict_set_member_set.
    destruct kind; reflexivity.
  - apply with_parent_lrel. unfold member_name. rewrite dict_set_member_set.
    destruct kind; reflexivity.
  - apply with_parent_lrel. cbn [array_index_of bind part_text] in *.
    rewrite py_insert_in_range by lia.
    assert (E : rfc_add [str_of_Z z] v (JArr xs) = Some (JArr (list_insert_nat xs (Z.to_nat z) v))).
    { cbn [rfc_add]. rewrite (insert_index_num _ _ _ Hai). zdec. cbv beta iota.
      rewrite elem_insert_ok by lia. reflexivity. }
    destruct kind; cbn [local_add local_addap]; [rewrite E; reflexivity|].
    rewrite Hai. zdec. rewrite E. reflexivity.
  - apply with_parent_lrel. cbn [part_text orb] in *.
    destruct kind; cbn [local_add local_addap].
    + cbn [rfc_add]. rewrite (insert_index_num _ _ _ Hai). zdec.
      * subst z. cbv beta iota. rewrite Nat2Z.id. rewrite elem_insert_ok by lia. rewrite list_insert_nat_end. reflexivity.
      * apply lrel_err. exact I.
    + rewrite Hai. zdec. cbn [rfc_add]. change (insert_index xs [ch_minus]) with (Some (length xs)).
      cbv beta iota. rewrite elem_insert_ok by lia. rewrite list_insert_nat_end. reflexivity.
  - apply with_parent_lrel. cbn [part_text] in *.
    assert (E : rfc_add [([ch_minus] : ustr)] v (JArr xs) = Some (JArr (xs ++ [v]))).
    { cbn [rfc_add]. change (insert_index xs [ch_minus]) with (Some (length xs)).
      cbv beta iota. rewrite elem_insert_ok by lia. rewrite list_insert_nat_end. reflexivity. }
    destruct kind; cbn [local_add local_addap]. 1: rewrite E; reflexivity.
    rewrite array_index_dash, E. reflexivity.
  - cbn [part_text].
    assert (E : rfc_add [s] v (JArr xs) = None).
    { cbn [rfc_add]. rewrite insert_index_bad; auto. }
    destruct kind; cbn [local_add local_addap]; [|rewrite Hai]; rewrite E; apply lrel_err; exact I.
  - destruct pv; try discriminate Hc; destruct kind; apply lrel_err; exact I.
Qed.

(* remove and replace, on a non-root standard pointer. *)

Lemma apply_remove_snoc p x d : std_pointer (p ++ [x]) ->
  lrel (apply_remove (p ++ [x]) d)
    (match rfc_eval_from [] d (tokens p) with
     | Some (l, pv) => option_map (set_at d l) (rfc_remove [part_text x] pv)
     | None => None
     end).
Proof.
  intros Hp. pose proof (resolve_parent_std p x d Hp) as H. unfold apply_remove.
  destruct (rfc_eval_from [] d (tokens p)) as [[l pv]|].
  2:{ destruct H as [k H]. rewrite H. cbn [bind]. apply lrel_err. exact I. }
  destruct H as [Hrp Hgi]. rewrite Hrp. unfold lastres.
  destruct Hgi as [ms c -> Hl _ Hg | ms -> Hl _ Hg | xs z c -> -> Hai Hz Hn _ Hg
                  | xs z -> -> Hai Hz _ Hg | xs -> -> _ Hg | xs s -> -> Hd Hai _ Hg | Hc _ Hg];
    rewrite Hg; cbn [bind]; rewrite ?last_part_snoc; cbn [bind].
  - apply with_parent_lrel. unfold member_name, dict_has. rewrite Hl.
    cbn [rfc_remove]. rewrite (member_remove_present _ _ _ Hl). reflexivity.
  - apply with_parent_lrel. cbn [rfc_remove]. rewrite (member_remove_absent _ _ Hl).
    apply lrel_err. exact I.
  - apply with_parent_lrel. cbn [array_index_of bind part_text] in *.
    rewrite py_norm_index_in_range by lia.
    cbn [rfc_remove]. rewrite (elem_index_num _ _ _ Hai). zdec. cbv beta iota.
    rewrite elem_remove_ok by lia. reflexivity.
  - apply with_parent_lrel. cbn [part_text] in *.
    cbn [rfc_remove]. rewrite (elem_index_num _ _ _ Hai). zdec. apply lrel_err. exact I.
  - apply with_parent_lrel. cbn [part_text].
    cbn [rfc_remove]. rewrite (elem_index_none _ _ array_index_dash). apply lrel_err. exact I.
  - cbn [part_text]. cbn [rfc_remove]. rewrite (elem_index_none _ _ Hai). apply lrel_err. exact I.
  - destruct pv; try discriminate Hc; apply lrel_err; exact I.
Qed.

Lemma apply_replace_snoc p x v d : std_pointer (p ++ [x]) ->
  lrel (apply_replace (p ++ [x]) v d)
    (match rfc_eval_from [] d (tokens p) with
     | Some (l, pv) => option_map (set_at d l) (rfc_replace [part_text x] v pv)
     | None => None
     end).
Proof.
  intros Hp. pose proof (resolve_parent_std p x d Hp) as H. unfold apply_replace.
  destruct (rfc_eval_from [] d (tokens p)) as [[l pv]|].
  2:{ destruct H as [k H]. rewrite H. cbn [bind]. apply lrel_err. exact I. }
  destruct H as [Hrp Hgi]. rewrite Hrp. unfold lastres.
  destruct Hgi as [ms c -> Hl _ Hg | ms -> Hl _ Hg | xs z c -> -> Hai Hz Hn _ Hg
                  | xs z -> -> Hai Hz _ Hg | xs -> -> _ Hg | xs s -> -> Hd Hai _ Hg | Hc _ Hg];
    rewrite Hg; cbn [bind]; rewrite ?last_part_snoc; cbn [bind].
  - apply with_parent_lrel. unfold member_name. rewrite dict_set_member_set.
    cbn [rfc_replace]. rewrite Hl. reflexivity.
  - apply with_parent_lrel. cbn [rfc_replace]. rewrite Hl.
    apply lrel_err. exact I.
  - apply with_parent_lrel. cbn [array_index_of bind part_text] in *.
    rewrite py_norm_index_in_range by lia.
    cbn [rfc_replace]. rewrite (elem_index_num _ _ _ Hai). zdec. cbv beta iota.
    rewrite elem_replace_ok by lia. reflexivity.
  - apply with_parent_lrel. cbn [part_text] in *.
    cbn [rfc_replace]. rewrite (elem_index_num _ _ _ Hai). zdec. apply lrel_err. exact I.
  - apply with_parent_lrel. cbn [part_text].
    cbn [rfc_replace]. rewrite (elem_index_none _ _ array_index_dash). apply lrel_err. exact I.
  - cbn [part_text]. cbn [rfc_replace]. rewrite (elem_index_none _ _ Hai). apply lrel_err. exact I.
  - destruct pv; try discriminate Hc; apply lrel_err; exact I.
Qed.

(* ---------------------------------------------------------------------- *)
(* Whole operations. *)

Lemma add_lrel p v d : std_pointer p -> lrel (apply_add AddStd p v d) (rfc_add (tokens p) v d).
Proof.
  intros Hp. destruct (snoc_case p) as [->|[p' [x ->]]].
  - reflexivity.
  - rewrite tokens_snoc.
    pose proof (descent _ (rfc_add_descends v) (tokens p') (part_text x) d) as E.
    cbv beta in E. rewrite E. apply (apply_add_snoc AddStd); auto.
Qed.

Lemma remove_lrel p d : std_pointer p -> lrel (apply_remove p d) (rfc_remove (tokens p) d).
Proof.
  intros Hp. destruct (snoc_case p) as [->|[p' [x ->]]].
  - apply lrel_err. exact I.
  - rewrite tokens_snoc. rewrite (descent _ rfc_remove_descends).
    apply apply_remove_snoc; auto.
Qed.

Lemma replace_lrel p v d : std_pointer p -> lrel (apply_replace p v d) (rfc_replace (tokens p) v d).
Proof.
  intros Hp. destruct (snoc_case p) as [->|[p' [x ->]]].
  - reflexivity.
  - rewrite tokens_snoc.
    pose proof (descent _ (rfc_replace_descends v) (tokens p') (part_text x) d) as E.
    cbv beta in E. rewrite E. apply apply_replace_snoc; auto.
Qed.

(* what resolve_parent finds for a standard pointer *)
Lemma resolve_obj_std p d : std_pointer p ->
  match rfc_eval_from [] d (tokens p) with
  | Some (l, v) => exists par, resolve_parent p d = Ok (par, Some (RNode l v))
  | None => (exists k, resolve_parent p d = Err (EPointer k)) \/
            (exists par, resolve_parent p d = Ok (par, None))
  end.
Proof.
  intros Hp. destruct (snoc_case p) as [->|[p' [x ->]]].
  - exists None. reflexivity.
  - rewrite tokens_snoc, rfc_eval_from_app.
    pose proof (resolve_parent_std p' x d Hp) as H.
    destruct (rfc_eval_from [] d (tokens p')) as [[l pv]|]; [|left; exact H].
    destruct H as [Hrp Hgi]. rewrite Hrp. unfold lastres. cbn [rfc_eval_from].
    destruct Hgi as [ms c _ _ Hs Hg | ms _ _ Hs Hg | xs z c _ _ _ _ _ Hs Hg | xs z _ _ _ _ Hs Hg
                    | xs _ _ Hs Hg | xs s _ _ _ _ Hs Hg | _ Hs Hg ];
      rewrite Hs, Hg; eauto.
Qed.

Lemma test_refines1 p v d : std_pointer p ->
  refines1 (apply_test p v d) (rfc_op (RTest (tokens p) v) d).
Proof.
  intros Hp. pose proof (resolve_obj_std p d Hp) as H.
  unfold apply_test, rfc_op, rfc_get, rfc_eval.
  destruct (rfc_eval_from [] d (tokens p)) as [[l c]|]; cbn [option_map snd].
  - destruct H as [par H]. rewrite H. cbn [bind rv_json].
    destruct (json_eq c v); reflexivity.
  - destruct H as [[k H]|[par H]]; rewrite H; cbn [bind]; eexists; split; try reflexivity; exact I.
Qed.

Lemma copy_refines1 f p d : std_pointer f -> std_pointer p ->
  refines1 (apply_copy f p d) (rfc_op (RCopy (tokens f) (tokens p)) d).
Proof.
  intros Hf Hp. pose proof (resolve_obj_std f d Hf) as H.
  unfold apply_copy, rfc_op, rfc_get, rfc_eval.
  destruct (rfc_eval_from [] d (tokens f)) as [[l c]|]; cbn [option_map snd].
  - destruct H as [par H]. rewrite H. cbn [bind rv_json].
    apply refines1_of_option. apply add_lrel; auto.
  - destruct H as [[k H]|[par H]]; rewrite H; cbn [bind]; eexists; split; try reflexivity; exact I.
Qed.

Lemma proper_prefix_spec (a b : list ustr) :
  proper_prefix a b = Nat.ltb (length a) (length b) && tokens_eqb (firstn (length a) b) a.
Proof.
  revert b; induction a as [|x a IH]; intros [|y b]; simpl; auto.
  rewrite IH. rewrite (ustr_eqb_sym x y).
  change (S (length a) <? S (length b))%nat with (length a <? length b)%nat.
  destruct (length a <? length b)%nat; simpl; [|rewrite andb_false_r]; auto.
Qed.

Lemma is_relative_to_prefix dest source :
  is_relative_to dest source = proper_prefix (tokens source) (tokens dest).
Proof.
  unfold is_relative_to. rewrite proper_prefix_spec. unfold tokens. rewrite !map_length. reflexivity.
Qed.

Lemma move_refines1 f p d : std_pointer f -> std_pointer p ->
  refines1 (apply_move f p d) (rfc_op (RMove (tokens f) (tokens p)) d).
Proof.
  intros Hf Hp. unfold apply_move, rfc_op. rewrite is_relative_to_prefix.
  destruct (proper_prefix (tokens f) (tokens p)).
  { eexists; split; [reflexivity|exact I]. }
  destruct (snoc_case f) as [->|[f' [x ->]]].
  - change (resolve_parent [] d) with (Ok (None, Some (RNode [] d)) : result (option rv * option rv)).
    cbn [bind rv_json]. cbn.
    apply refines1_of_option. apply add_lrel; auto.
  - pose proof (resolve_parent_std f' x d Hf) as H.
    unfold rfc_get, rfc_eval. rewrite tokens_snoc, rfc_eval_from_app.
    rewrite (descent _ rfc_remove_descends).
    destruct (rfc_eval_from [] d (tokens f')) as [[l pv]|].
    2:{ destruct H as [k H]. rewrite H. cbn [bind option_map]. eexists; split; [reflexivity|exact I]. }
    destruct H as [Hrp Hgi]. rewrite Hrp. unfold lastres. cbn [rfc_eval_from].
    destruct Hgi as [ms c -> Hl Hs Hg | ms -> Hl Hs Hg | xs z c -> -> Hai Hz Hn Hs Hg
                  | xs z -> -> Hai Hz Hs Hg | xs -> -> Hs Hg | xs s -> -> Hd Hai Hs Hg | Hc Hs Hg];
    rewrite Hg, Hs; cbn [bind option_map snd]; rewrite ?last_part_snoc; cbn [bind];
    try (eexists; split; [reflexivity|exact I]).
    + unfold with_parent, member_name, dict_has. rewrite Hl. cbn [bind rv_json].
      cbn [rfc_remove]. rewrite (member_remove_present _ _ _ Hl). cbn [option_map].
      apply refines1_of_option. apply add_lrel; auto.
    + unfold with_parent. cbn [array_index_of bind part_text rv_json] in *.
      rewrite py_norm_index_in_range by lia. cbn [bind].
      cbn [rfc_remove]. rewrite (elem_index_num _ _ _ Hai). zdec. cbv beta iota.
      rewrite elem_remove_ok by lia. cbn [option_map].
      apply refines1_of_option. apply add_lrel; auto.
Qed.

(* ---------------------------------------------------------------------- *)
(* The add-like operations never resolve their last token: when the parent is not an array the
   last part may be anything (a key-like '#name' / '~name', a negative number, ...). *)

Lemma std_pointer_std_parent p : std_pointer p -> std_parent p.
Proof.
  intros [Hn Ho]. split; auto. unfold parent_outside_extensions, outside_extensions in *.
  apply forallb_forall. intros t Hin. rewrite forallb_forall in Ho. apply Ho.
  generalize Hin. generalize (tokens p). clear. intros ts.
  induction ts as [|a ts IH]; [contradiction|]. destruct ts as [|b ts]; [contradiction|].
  intros [<-|Hin]; [left; reflexivity|right; apply IH; exact Hin].
Qed.

Lemma std_parent_snoc p x : std_parent (p ++ [x]) -> std_pointer p.
Proof.
  intros [Hn Ho]. apply Forall_app in Hn as [Hp _]. split; auto.
  unfold parent_outside_extensions in Ho. rewrite tokens_snoc, removelast_last in Ho. exact Ho.
Qed.

Lemma getitem_obj_cases l ms x :
  (exists r, getitem (RNode l (JObj ms)) x = Ok r) \/
  getitem (RNode l (JObj ms)) x = Err (EPointer KPtrKey).
Proof.
  unfold getitem. cbn [rv_json]. destruct x as [z|k].
  - destruct (lookup (str_of_Z z) ms); eauto.
  - destruct (lookup k ms); eauto. destruct k as [|c rest]; auto.
    destruct ((N.eqb c ch_tilde || N.eqb c ch_hash) &&
              match lookup rest ms with Some _ => true | None => false end); eauto.
Qed.

Lemma lastres_obj l ms x :
  exists o, lastres (RNode l (JObj ms)) x = Ok (Some (RNode l (JObj ms)), o).
Proof.
  unfold lastres. destruct (getitem_obj_cases l ms x) as [[r ->]| ->]; eauto.
Qed.

Lemma lastres_scalar l pv x :
  is_container pv = false -> lastres (RNode l pv) x = Err (EPointer KPtrType).
Proof. intros H. unfold lastres, getitem. destruct pv; try discriminate H; reflexivity. Qed.

Definition eval_not_array (ts : list ustr) (d : json) : Prop :=
  forall l xs, rfc_eval_from [] d ts <> Some (l, JArr xs).

Lemma parent_not_array_eval ts t d : parent_not_array (ts ++ [t]) d -> eval_not_array ts d.
Proof.
  unfold parent_not_array, eval_not_array, rfc_get, rfc_eval. rewrite removelast_last.
  intros H l xs E. apply (H xs). rewrite E. reflexivity.
Qed.

Lemma apply_add_snoc_noarr kind p x v d :
  std_pointer p -> eval_not_array (tokens p) d ->
  lrel (apply_add kind (p ++ [x]) v d)
    (match rfc_eval_from [] d (tokens p) with
     | Some (l, pv) => option_map (set_at d l) (local_add kind (part_text x) v pv)
     | None => None
     end).
Proof.
  intros Hp Hna. unfold apply_add. rewrite resolve_parent_snoc.
  pose proof (reduce_std p Hp [] d) as H.
  destruct (rfc_eval_from [] d (tokens p)) as [[l pv]|] eqn:Ev.
  2:{ destruct H as [k H]. rewrite H. cbn [bind]. apply lrel_err. exact I. }
  rewrite H. cbn [bind]. destruct pv as [| b | n | s | xs | ms].
  5:{ exfalso. exact (Hna l xs Ev). }
  5:{ destruct (lastres_obj l ms x) as [o ->]. cbn [bind]. rewrite last_part_snoc. cbn [bind].
      apply with_parent_lrel. unfold member_name. rewrite dict_set_member_set.
      destruct kind; reflexivity. }
  all: rewrite lastres_scalar by reflexivity; cbn [bind]; destruct kind; apply lrel_err; exact I.
Qed.

Lemma add_lrel_parent p v d :
  std_parent p -> parent_not_array (tokens p) d ->
  lrel (apply_add AddStd p v d) (rfc_add (tokens p) v d).
Proof.
  intros Hp Hna. destruct (snoc_case p) as [->|[p' [x ->]]].
  - reflexivity.
  - rewrite tokens_snoc in *.
    pose proof (descent _ (rfc_add_descends v) (tokens p') (part_text x) d) as E.
    cbv beta in E. rewrite E. apply (apply_add_snoc_noarr AddStd).
    + eapply std_parent_snoc; eauto.
    + eapply parent_not_array_eval; eauto.
Qed.

(* ---------------------------------------------------------------------- *)
(* An index kept as a string token (a pointer built from parts): the canonical spelling of
   len(parent) appends exactly like the int, and like RFC 6902 says. *)

Lemma getitem_len_int l xs :
  getitem (RNode l (JArr xs)) (PInt (Z.of_nat (length xs))) = Err (EPointer KPtrIndex).
Proof. unfold getitem. cbn [rv_json]. rewrite py_list_index_beyond by lia. reflexivity. Qed.

Lemma getitem_len_str l xs :
  getitem (RNode l (JArr xs)) (PStr (str_of_Z (Z.of_nat (length xs)))) = Err (EPointer KPtrIndex).
Proof.
  set (n := Z.of_nat (length xs)). assert (Hn : 0 <= n) by (unfold n; lia).
  pose proof (PyStrLemmas.canonical_str_of_Z n Hn) as Hcan.
  pose proof (PyStrLemmas.dec_value_str_of_Z n Hn) as Hval.
  set (s := str_of_Z n) in *.
  assert (Hhead : exists c r, s = c :: r /\ is_ascii_digit c = true).
  { destruct s as [|c [|c' r]]; cbn in Hcan; [discriminate|eauto|].
    apply andb_true_iff in Hcan as [Hc _]. apply andb_true_iff in Hc as [Hc _]. eauto. }
  destruct Hhead as [c [r [Es Hc]]].
  unfold getitem. cbn [rv_json].
  assert (Hdash : ustr_eqb s [ch_minus] = false).
  { apply ustr_eqb_neq. rewrite Es. intros E. injection E as -> _. discriminate. }
  assert (Hhash : starts_with_ch ch_hash s = false).
  { rewrite Es. cbn. apply N.eqb_neq. intros ->. discriminate. }
  rewrite Hdash, Hhash.
  assert (Hidx : index_of_text s = Ok (PInt n) \/ index_of_text s = Err (EPointer KPtrIndex)).
  { unfold index_of_text.
    destruct (Nat.ltb 1 (length s) && starts_with_ch ch_0 s) eqn:H0.
    { rewrite (leading_zero_not_canonical _ H0) in Hcan. discriminate. }
    rewrite (canonical_re _ Hcan). cbn [negb].
    assert (Hm : starts_with_ch ch_minus s = false).
    { rewrite Es. cbn. apply digit_not_minus. exact Hc. }
    destruct (re_nominus_canonical s (canonical_re _ Hcan) Hm) as [_ Hint]. rewrite Hint, Hval.
    destruct (Z.ltb n min_int_index || Z.ltb max_int_index n); auto. }
  destruct Hidx as [-> | ->]; cbn [bind]; [|reflexivity].
  rewrite py_list_index_beyond by (unfold n; lia). reflexivity.
Qed.

Lemma add_len_token p d l xs v (x : ppart) :
  reduce_getitem (RNode [] d) p = Ok (RNode l (JArr xs)) ->
  x = PInt (Z.of_nat (length xs)) \/ x = PStr (str_of_Z (Z.of_nat (length xs))) ->
  apply_add AddStd (p ++ [x]) v d = Ok (set_at d l (JArr (xs ++ [v]))).
Proof.
  intros Hp Hx. unfold apply_add. rewrite resolve_parent_snoc, Hp. cbn [bind]. unfold lastres.
  assert (Hg : getitem (RNode l (JArr xs)) x = Err (EPointer KPtrIndex)).
  { destruct Hx as [-> | ->]; [apply getitem_len_int|apply getitem_len_str]. }
  rewrite Hg. cbn [bind]. rewrite last_part_snoc. cbn [bind with_parent].
  destruct Hx as [-> | ->].
  - cbn. rewrite Z.eqb_refl. reflexivity.
  - cbn [orb]. rewrite ustr_eqb_refl, orb_true_r. reflexivity.
Qed.

(* the point of the fix: the string token spelling len(parent) behaves as the int *)
Theorem add_len_string_as_int p d l xs v :
  reduce_getitem (RNode [] d) p = Ok (RNode l (JArr xs)) ->
  apply_add AddStd (p ++ [PStr (str_of_Z (Z.of_nat (length xs)))]) v d =
  apply_add AddStd (p ++ [PInt (Z.of_nat (length xs))]) v d.
Proof.
  intros Hp. rewrite (add_len_token p d l xs v _ Hp (or_intror eq_refl)).
  rewrite (add_len_token p d l xs v _ Hp (or_introl eq_refl)). reflexivity.
Qed.

(* and on the domain of the C05 / C15 theorems nothing changes: a standard pointer never holds an
   index as a string token *)
Lemma normal_str_not_len s n : normal_part (PStr s) -> ustr_eqb s (str_of_Z (Z.of_nat n)) = false.
Proof.
  intros Hn. apply ustr_eqb_neq. intros ->. pose proof (normal_str _ Hn) as Ha.
  unfold array_index in Ha. rewrite (PyStrLemmas.canonical_str_of_Z (Z.of_nat n)) in Ha by lia. discriminate.
Qed.

(* the new behaviour is what RFC 6902 says for that token: "len" as an index token appends *)
Lemma rfc_add_len_token xs v :
  rfc_add [str_of_Z (Z.of_nat (length xs))] v (JArr xs) = Some (JArr (xs ++ [v])).
Proof.
  set (n := Z.of_nat (length xs)). assert (Hn : 0 <= n) by (unfold n; lia).
  assert (Hai : array_index (str_of_Z n) = Some n).
  { unfold array_index. rewrite (PyStrLemmas.canonical_str_of_Z n Hn), (PyStrLemmas.dec_value_str_of_Z n Hn). reflexivity. }
  cbn [rfc_add]. rewrite (insert_index_num xs _ n Hai). unfold n. rewrite Z.leb_refl, Nat2Z.id. cbv beta iota.
  rewrite elem_insert_ok by lia. rewrite list_insert_nat_end. reflexivity.
Qed.

Theorem add_len_string_rfc p d l xs v :
  std_pointer p -> rfc_eval_from [] d (tokens p) = Some (l, JArr xs) ->
  let x := PStr (str_of_Z (Z.of_nat (length xs))) in
  exists d', apply_add AddStd (p ++ [x]) v d = Ok d' /\ rfc_add (tokens (p ++ [x])) v d = Some d'.
Proof.
  intros Hp He x. pose proof (reduce_std p Hp [] d) as Hr. rewrite He in Hr.
  exists (set_at d l (JArr (xs ++ [v]))). split.
  - apply (add_len_token p d l xs v x Hr). right. reflexivity.
  - rewrite tokens_snoc.
    pose proof (descent _ (rfc_add_descends v) (tokens p) (part_text x) d) as E. cbv beta in E.
    rewrite E, He. cbn [part_text x]. unfold x. cbn [part_text]. rewrite rfc_add_len_token. reflexivity.
Qed.
