(* ParseSpec.v — one symbolic execution of the parser model, tracking at the same time
   (1) the gate predicate of what is returned (used when well_typed = True), and
   (2) under the flag [Trk], the push-back stream invariant (at most one pushed-back token, every
       token well-shaped) and the family of every error.
   With Trk := False this is the gate (arbitrary token lists); with Trk := True and lexer-produced
   tokens it is the error-family theorem. *)
From Coq Require Import ZArith List Bool Lia.
From JP Require Import Base Json PyStr PyJsonStr Syntax Lex Parse Gate ParseEqns GateLemmas.
Import ListNotations.

(* a token whose text int() is applied to carries text int() accepts (or non-ASCII digits) *)
Definition int_text_ok (s : ustr) : Prop := py_int s <> Some None.

Definition tok_ok (t : token) : Prop :=
  match tk t with
  | TInt => has_exponent (tv t) = false -> int_text_ok (tv t)
  | TSliceStart | TSliceStop | TSliceStep => tv t = [] \/ int_text_ok (tv t)
  | _ => True
  end.

Definition fam (e : exn) : Prop :=
  jsonpath_family e = true \/ outside_model e = true \/ e = EOutOfFuel.

Lemma tkind_eqb_eq a b : tkind_eqb a b = true -> a = b.
Proof. destruct a, b; intros H; try discriminate H; reflexivity. Qed.

Lemma is_kind_eq k t : is_kind k t = true -> tk t = k.
Proof. unfold is_kind. apply tkind_eqb_eq. Qed.

Section Spec.
  Variable E : env.
  Variable re_ok : ustr -> option bool.
  Variable Trk : Prop.

  Notation lo := (e_min_index E).
  Notation hi := (e_max_index E).
  Notation gate_expr := (Gate.gate_expr lo hi).
  Notation gate_sel := (Gate.gate_sel lo hi).
  Notation gate_seg := (Gate.gate_seg lo hi).
  Notation gate_segs := (Gate.gate_segs lo hi).

  Definition G (P : Prop) : Prop := e_well_typed E = true -> P.

  Definition post {A} (r : result A) (Q : A -> Prop) : Prop :=
    match r with Ok a => Q a | Err e => Trk -> fam e end.

  Lemma post_bind {A B} (r : result A) (f : A -> result B) (Q : A -> Prop) (Q' : B -> Prop) :
    post r Q -> (forall a, Q a -> post (f a) Q') -> post (bind r f) Q'.
  Proof. intros Hr Hf. destruct r as [a|e]; [apply Hf; exact Hr|exact Hr]. Qed.

  Lemma post_ok {A} (a : A) (Q : A -> Prop) : Q a -> post (Ok a) Q.
  Proof. intros H. exact H. Qed.

  Lemma post_err {A} e (Q : A -> Prop) : fam e -> post (Err e) Q.
  Proof. intros H _. exact H. Qed.

  Lemma post_syntax {A} (Q : A -> Prop) : post syntax_error Q.
  Proof. apply post_err. left. reflexivity. Qed.

  Lemma post_jp {A} k (Q : A -> Prop) : post (Err (EJsonPath k)) Q.
  Proof. apply post_err. left. reflexivity. Qed.

  Lemma post_unsupported {A} (Q : A -> Prop) : post (Err EUnsupported) Q.
  Proof. apply post_err. right. left. reflexivity. Qed.

  Lemma post_fuel {A} (Q : A -> Prop) : post (Err EOutOfFuel) Q.
  Proof. apply post_err. right. right. reflexivity. Qed.

  Lemma post_weaken {A} (r : result A) (Q Q' : A -> Prop) :
    post r Q -> (forall a, Q a -> Q' a) -> post r Q'.
  Proof. intros H HQ. destruct r as [a|e]; [apply HQ; exact H|exact H]. Qed.

  (* ---- the stream ---- *)

  Definition sinv (st : stream) : Prop :=
    Trk -> length (s_pushed st) <= 1 /\ tok_ok (s_cur st) /\
         Forall tok_ok (s_pushed st) /\ Forall tok_ok (s_rest st).
  Definition emp (st : stream) : Prop := Trk -> s_pushed st = [].

  Lemma eof_ok : tok_ok eof_tok.
  Proof. exact I. Qed.

  Lemma advance_post st :
    sinv st ->
    post (advance st) (fun st' => sinv st' /\ emp st' /\
                                  (Trk -> forall t, s_pushed st = [t] -> s_cur st' = t)).
  Proof.
    intros Hinv. unfold advance.
    destruct (s_pushed st) as [|t ps] eqn:Hp.
    - destruct (is_kind TEof (s_cur st)).
      + apply post_ok. split; [exact Hinv|]. split; [intros _; exact Hp|]. intros _ t Ht. discriminate Ht.
      + destruct (s_rest st) as [|t r] eqn:Hr.
        * apply post_ok. split; [|split].
          -- intros _. cbn. repeat split; auto.
          -- intros _. reflexivity.
          -- intros _ t Ht. discriminate Ht.
        * destruct (is_kind TIllegal t); [apply post_syntax|].
          apply post_ok. split; [|split].
          -- intros HS. destruct (Hinv HS) as (_ & _ & _ & Hrest). rewrite Hr in Hrest.
             cbn. repeat split; auto; inversion Hrest; assumption.
          -- intros _. reflexivity.
          -- intros _ t' Ht. discriminate Ht.
    - apply post_ok. split; [|split].
      + intros HS. destruct (Hinv HS) as (Hlen & _ & Hpush & Hrest). rewrite Hp in Hlen, Hpush.
        cbn [length] in Hlen. destruct ps; [|cbn [length] in Hlen; lia].
        cbn. repeat split; auto. inversion Hpush; assumption.
      + intros HS. destruct (Hinv HS) as (Hlen & _). rewrite Hp in Hlen. cbn [length] in Hlen.
        destruct ps; [reflexivity|cbn [length] in Hlen; lia].
      + intros _ t' Ht. injection Ht as -> _. reflexivity.
  Qed.

  Lemma next_token_post st :
    sinv st ->
    post (next_token st) (fun r => fst r = s_cur st /\ sinv (snd r) /\ emp (snd r) /\
                                   (Trk -> forall t, s_pushed st = [t] -> s_cur (snd r) = t)).
  Proof.
    intros Hinv. unfold next_token. apply (post_bind _ _ _ _ (advance_post st Hinv)).
    intros st' (H1 & H2 & H3). apply post_ok. cbn [fst snd]. auto.
  Qed.

  Lemma peek_post st :
    sinv st ->
    post (peek st) (fun r => s_cur (snd r) = s_cur st /\ sinv (snd r) /\
                             (Trk -> s_pushed (snd r) = [fst r])).
  Proof.
    intros Hinv. unfold peek. apply (post_bind _ _ _ _ (advance_post st Hinv)).
    intros st' (H1 & H2 & _). apply post_ok. cbn [fst snd].
    split; [reflexivity|]. split.
    - intros HS. destruct (H1 HS) as (_ & Hc & _ & Hr). destruct (Hinv HS) as (_ & Hc0 & _).
      unfold push. cbn [s_cur s_pushed s_rest]. rewrite (H2 HS). cbn. repeat split; auto.
    - intros HS. unfold push. cbn [s_cur s_pushed s_rest]. rewrite (H2 HS). reflexivity.
  Qed.

  Lemma push_cur_sinv st : sinv st -> emp st -> sinv (push st (s_cur st)).
  Proof.
    intros Hinv Hemp HS. destruct (Hinv HS) as (_ & Hc & _ & Hr).
    unfold push. cbn [s_cur s_pushed s_rest]. rewrite (Hemp HS). cbn. repeat split; auto.
  Qed.

  Lemma sinv_cur st : sinv st -> Trk -> tok_ok (s_cur st).
  Proof. intros H HS. exact (proj1 (proj2 (H HS))). Qed.

  (* ---- literals ---- *)

  Lemma int_of_text_post s : (Trk -> int_text_ok s) -> post (int_of_text s) (fun _ => True).
  Proof.
    intros H. unfold int_of_text. destruct (py_int s) as [[z|]|] eqn:Hp.
    - exact I.
    - intros HS. exfalso. apply (H HS). exact Hp.
    - apply post_unsupported.
  Qed.

  Lemma decode_string_post t : post (decode_string E t) (fun _ => True).
  Proof.
    unfold decode_string. destruct (e_unicode_escape E); [|exact I].
    match goal with |- context [json_loads_str ?v] => destruct (json_loads_str v) end;
      [exact I|apply post_syntax].
  Qed.

  Lemma parse_int_literal_post s :
    (Trk -> has_exponent s = false -> int_text_ok s) ->
    post (parse_int_literal s) (fun e => gate_expr e = true).
  Proof.
    intros H. unfold parse_int_literal. destruct (has_exponent s) eqn:He; cbn [negb].
    - destruct (split_number s) as [[[[neg ip] fp] ex]|]; [|apply post_unsupported].
      destruct (Z.eqb (dec_value ip) 0); [reflexivity|].
      destruct (Z.leb 400 ex); [apply post_syntax|].
      destruct (Z.ltb 20 ex || Z.ltb ex 0); [apply post_unsupported|].
      cbv zeta. match goal with |- context [if ?c then _ else _] => destruct c end;
        [apply post_unsupported|reflexivity].
    - apply (post_bind _ _ (fun _ => True)).
      + apply int_of_text_post. intros HS. apply H; [exact HS|reflexivity].
      + intros z _. reflexivity.
  Qed.

  Lemma parse_float_literal_post s : post (parse_float_literal s) (fun e => gate_expr e = true).
  Proof.
    destruct (parse_float_literal_cases s) as [->|[->|[n ->]]];
      [apply post_unsupported|apply post_syntax|reflexivity].
  Qed.

  Ltac bstep_core H := eapply post_bind; [exact H|]; cbv beta.

  Lemma tok_ok_slice t :
    tok_ok t -> (tk t = TSliceStart \/ tk t = TSliceStop \/ tk t = TSliceStep) ->
    tv t = [] \/ int_text_ok (tv t).
  Proof. unfold tok_ok. intros H [Hk|[Hk|Hk]]; rewrite Hk in H; exact H. Qed.

  Lemma tok_ok_int t : tok_ok t -> tk t = TInt -> has_exponent (tv t) = false -> int_text_ok (tv t).
  Proof. unfold tok_ok. intros H Hk. rewrite Hk in H. exact H. Qed.

  Lemma expect_post st k : post (expect st k) (fun _ => tk (s_cur st) = k).
  Proof.
    unfold expect. destruct (is_kind k (s_cur st)) eqn:Hk; [|apply post_syntax].
    apply post_ok. apply is_kind_eq. exact Hk.
  Qed.

  Lemma check_uncompared_post e : post (check_uncompared e) (fun _ => g_testable e = true).
  Proof.
    destruct (check_uncompared e) as [u|x] eqn:H.
    - exact (check_uncompared_testable e u H).
    - apply post_err. left. unfold check_uncompared in H.
      destruct (fn_return e) as [[]|]; try (injection H as <-; reflexivity);
        destruct (is_literal_or_nil e); try discriminate H; injection H as <-; reflexivity.
  Qed.

  Lemma check_comparable_post e : post (check_comparable e) (fun _ => g_comparable e = true).
  Proof.
    destruct (check_comparable e) as [u|x] eqn:H.
    - exact (check_comparable_comparable e u H).
    - apply post_err. left. unfold check_comparable in H.
      destruct (is_path e && negb (singular_query (path_segs e))); [injection H as <-; reflexivity|].
      destruct e; try discriminate H.
      destruct (fn_return (FFunc name args)) as [[]|]; try discriminate H; injection H as <-; reflexivity.
  Qed.

  Lemma validate_function_post name args :
    post (validate_function name args)
         (fun _ => exists ts t, gate_sig name = Some (ts, t) /\ g_args_ok ts args = true).
  Proof.
    destruct (validate_function name args) as [u|x] eqn:H.
    - exact (validate_function_gate name args u H).
    - apply post_err. left. unfold validate_function in H.
      destruct (fn_sig name) as [[ts t]|]; [|injection H as <-; reflexivity].
      destruct (negb (Nat.eqb (length args) (length ts))); [injection H as <-; reflexivity|].
      destruct (check_args ts args); [discriminate H|injection H as <-; reflexivity].
  Qed.

  (* ---- slices and list literals ---- *)

  Lemma slice_bound_post t :
    (Trk -> tv t = [] \/ int_text_ok (tv t)) ->
    post (match tv t with [] => Ok None | txt => z <- int_of_text txt ;; Ok (Some z) end)
         (fun _ : option Z => True).
  Proof.
    intros H. destruct (tv t) as [|c s] eqn:Ht; [exact I|].
    eapply post_bind; [apply int_of_text_post|intros z _; exact I].
    intros HS. destruct (H HS) as [Hn|Hok]; [discriminate Hn|exact Hok].
  Qed.

  Lemma parse_slice_post st :
    sinv st -> (Trk -> tk (s_cur st) = TSliceStart) ->
    post (parse_slice E st) (fun r => gate_sel (fst r) = true /\ sinv (snd r)).
  Proof.
    intros Hinv Hk. unfold parse_slice.
    bstep_core (next_token_post st Hinv). intros [start_tok st1] (Hs & Hinv1 & _). cbn [fst snd] in *.
    bstep_core (expect_post st1 TSliceStop). intros _ Hk1.
    bstep_core (next_token_post st1 Hinv1). intros [stop_tok st2] (Hs1 & Hinv2 & _). cbn [fst snd] in *.
    bstep_core (expect_post st2 TSliceStep). intros _ Hk2.
    cbv zeta.
    eapply post_bind; [apply slice_bound_post|intros a _].
    { intros HS. apply tok_ok_slice; [|left; rewrite Hs; exact (Hk HS)].
      rewrite Hs. exact (sinv_cur st Hinv HS). }
    eapply post_bind; [apply slice_bound_post|intros b _].
    { intros HS. apply tok_ok_slice; [|right; left; rewrite Hs1; exact Hk1].
      rewrite Hs1. exact (sinv_cur st1 Hinv1 HS). }
    eapply post_bind; [apply slice_bound_post|intros c _].
    { intros HS. apply tok_ok_slice; [|right; right; exact Hk2]. exact (sinv_cur st2 Hinv2 HS). }
    match goal with |- context [if ?x then _ else _] => destruct x eqn:Hr end; [|apply post_jp].
    apply post_ok. cbn [fst snd]. split; [exact Hr|exact Hinv2].
  Qed.

  Lemma parse_list_items_post f : forall st acc,
    sinv st -> forallb gate_expr acc = true ->
    post (parse_list_items E f st acc) (fun r => forallb gate_expr (fst r) = true /\ sinv (snd r)).
  Proof.
    induction f as [|f IH]; intros st acc Hinv Hacc; [apply post_fuel|].
    rewrite parse_list_items_S.
    destruct (is_kind TRBracket (s_cur st)).
    { apply post_ok. cbn [fst snd]. rewrite forallb_rev. auto. }
    eapply post_bind with (Q := fun item => gate_expr item = true).
    { destruct (tk (s_cur st)) eqn:Hk; try apply post_syntax; try reflexivity.
      - eapply post_bind; [apply decode_string_post|intros s _; reflexivity].
      - eapply post_bind; [apply decode_string_post|intros s _; reflexivity].
      - apply parse_float_literal_post.
      - apply parse_int_literal_post. intros HS. apply tok_ok_int; [exact (sinv_cur st Hinv HS)|exact Hk]. }
    intros item Hitem.
    bstep_core (peek_post st Hinv). intros [nxt st1] (_ & Hinv1 & _). cbn [fst snd] in *.
    eapply post_bind with (Q := fun st2 => sinv st2).
    { destruct (is_kind TRBracket nxt); [exact Hinv1|].
      destruct (is_kind TComma nxt); [|apply post_syntax].
      bstep_core (next_token_post st1 Hinv1). intros r (_ & Hinv2 & _). exact Hinv2. }
    intros st2 Hinv2.
    bstep_core (next_token_post st2 Hinv2). intros r3 (_ & Hinv3 & _).
    apply IH; [exact Hinv3|]. cbn [forallb]. rewrite Hitem, Hacc. reflexivity.
  Qed.

  (* ---- the specifications of the mutual block ---- *)

  Definition Qpath (r : list segment * stream) : Prop :=
    G (gate_segs (segs_of (fst r)) = true) /\ sinv (snd r).
  Definition Qsl (r : list selector * stream) : Prop :=
    fst r <> [] /\ G (forallb gate_sel (fst r) = true) /\ sinv (snd r).
  Definition Qe (r : fexpr * stream) : Prop :=
    G (gate_expr (fst r) = true) /\ sinv (snd r).

  Definition SPEC_path (f : nat) : Prop :=
    forall in_filter st acc, sinv st -> emp st -> G (forallb gate_seg acc = true) ->
      post (parse_path E re_ok f in_filter st acc) Qpath.
  Definition SPEC_sellist (f : nat) : Prop :=
    forall st, sinv st -> post (parse_selector_list E re_ok f st) Qsl.
  Definition SPEC_filter (f : nat) : Prop :=
    forall st, sinv st ->
      post (parse_filter E re_ok f st) (fun r => g_testable (fst r) = true /\ Qe r).
  Definition SPEC_fs (f : nat) : Prop :=
    forall st prec, sinv st -> post (parse_filter_selector E re_ok f st prec) Qe.
  Definition SPEC_infix (f : nat) : Prop :=
    forall st lhs, sinv st -> (Trk -> binop_of_kind (tk (s_cur st)) <> None) ->
      G (gate_expr lhs = true) -> post (parse_infix E re_ok f st lhs) Qe.
  Definition SPEC_primary (f : nat) : Prop :=
    forall st, sinv st -> post (parse_primary E re_ok f st) Qe.

  (* ---- parse_path ---- *)

  Lemma continue_post f in_filter acc g st :
    SPEC_path f -> sinv st -> G (gate_seg g = true) -> G (forallb gate_seg acc = true) ->
    post (continue_with E re_ok f in_filter acc g st) Qpath.
  Proof.
    intros IH Hinv Hg Hacc. unfold continue_with.
    bstep_core (next_token_post st Hinv). intros r (_ & Hinv1 & Hemp1 & _).
    apply IH; [exact Hinv1|exact Hemp1|]. intros Hwt. cbn [forallb]. rewrite (Hg Hwt), (Hacc Hwt). reflexivity.
  Qed.

  Lemma path_exit (in_filter : bool) st acc :
    sinv st -> emp st -> G (forallb gate_seg acc = true) ->
    post (Ok (rev acc, if in_filter then push st (s_cur st) else st)) Qpath.
  Proof.
    intros Hinv Hemp Hacc. apply post_ok. split; cbn [fst snd].
    - intros Hwt. rewrite gate_segs_of, forallb_rev. exact (Hacc Hwt).
    - destruct in_filter; [apply push_cur_sinv; assumption|exact Hinv].
  Qed.

  Lemma path_step f : SPEC_path f -> SPEC_sellist f -> SPEC_path (S f).
  Proof.
    intros IHp IHs in_filter st acc Hinv Hemp Hacc. rewrite parse_path_S.
    destruct (tk (s_cur st)) eqn:Hk; try (apply path_exit; assumption).
    - (* TKeys *) apply continue_post; auto. intros _. reflexivity.
    - (* TSliceStart *)
      bstep_core (parse_slice_post st Hinv (fun _ => Hk)). intros r (Hg & Hinv1).
      apply continue_post; auto. intros _. exact Hg.
    - (* TProperty *) apply continue_post; auto. intros _. reflexivity.
    - (* TBare *) apply continue_post; auto. intros _. reflexivity.
    - (* TDDot *) apply continue_post; auto. intros _. reflexivity.
    - (* TWild *) apply continue_post; auto. intros _. reflexivity.
    - (* TLBracket *)
      bstep_core (IHs st Hinv). intros r (Hne & Hg & Hinv1).
      apply continue_post; auto. intros Hwt. rewrite gate_seg_list_of by exact Hne. exact (Hg Hwt).
  Qed.

  (* ---- parse_selector_list ---- *)

  Lemma sel_item_post f st :
    SPEC_filter f -> sinv st ->
    post (sel_item E re_ok f st) (fun r => G (gate_sel (fst r) = true) /\ sinv (snd r)).
  Proof.
    intros IHf Hinv. unfold sel_item.
    destruct (tk (s_cur st)) eqn:Hk; try apply post_syntax.
    - (* TKeys *) apply post_ok. split; [intros _; reflexivity|exact Hinv].
    - (* TDQ *)
      destruct (existsb _ _); [apply post_syntax|].
      eapply post_bind; [apply decode_string_post|intros s _].
      apply post_ok. split; [intros _; reflexivity|exact Hinv].
    - (* TSQ *)
      destruct (existsb _ _); [apply post_syntax|].
      eapply post_bind; [apply decode_string_post|intros s _].
      apply post_ok. split; [intros _; reflexivity|exact Hinv].
    - (* TSliceStart *)
      eapply post_weaken; [apply (parse_slice_post st Hinv (fun _ => Hk))|].
      intros r (Hg & Hinv1). split; [intros _; exact Hg|exact Hinv1].
    - (* TBare *) apply post_ok. split; [intros _; reflexivity|exact Hinv].
    - (* TInt *)
      cbv zeta. destruct (_ || _); [apply post_syntax|].
      destruct (has_exponent (tv (s_cur st))) eqn:Hex; [apply post_syntax|].
      eapply post_bind; [apply int_of_text_post|intros z _].
      { intros HS. apply tok_ok_int; [exact (sinv_cur st Hinv HS)|exact Hk|exact Hex]. }
      destruct (index_in_range E z) eqn:Hr; [|apply post_jp].
      apply post_ok. split; [intros _; exact Hr|exact Hinv].
    - (* TWild *) apply post_ok. split; [intros _; reflexivity|exact Hinv].
    - (* TFilter *)
      destruct f as [|f']; [apply post_fuel|].
      bstep_core (IHf st Hinv). intros r (Ht & Hg & Hinv1).
      apply post_ok. cbn [fst snd]. split; [|exact Hinv1].
      intros Hwt. rewrite gate_sel_filter, Ht, (Hg Hwt). reflexivity.
  Qed.

  Lemma items_post f : SPEC_filter f -> forall g st acc,
    sinv st -> G (forallb gate_sel acc = true) -> post (items_loop E re_ok f g st acc) Qsl.
  Proof.
    intros IHf. induction g as [|g IH]; intros st acc Hinv Hacc; [apply post_fuel|].
    rewrite items_loop_S.
    destruct (is_kind TRBracket (s_cur st)).
    { destruct acc as [|x acc]; [apply post_syntax|].
      apply post_ok. split; [|split]; cbn [fst snd].
      - cbn [rev]. intros H. apply app_eq_nil in H. destruct H as [_ H]. discriminate H.
      - intros Hwt. rewrite forallb_rev. exact (Hacc Hwt).
      - exact Hinv. }
    bstep_core (sel_item_post f st IHf Hinv). intros [sel st1] (Hsel & Hinv1). cbn [fst snd] in *.
    bstep_core (peek_post st1 Hinv1). intros [nxt st2] (_ & Hinv2 & _). cbn [fst snd] in *.
    destruct (is_kind TEof nxt); [apply post_syntax|].
    eapply post_bind with (Q := fun st3 => sinv st3).
    { destruct (is_kind TRBracket nxt); [exact Hinv2|].
      destruct (is_kind TComma nxt); [|apply post_syntax].
      bstep_core (next_token_post st2 Hinv2). intros r (_ & Hinv3 & _).
      bstep_core (peek_post (snd r) Hinv3). intros pk2 (_ & Hinv4 & _).
      destruct (is_kind TRBracket (fst pk2)); [apply post_syntax|exact Hinv4]. }
    intros st3 Hinv3.
    bstep_core (next_token_post st3 Hinv3). intros r4 (_ & Hinv4 & _).
    apply IH; [exact Hinv4|]. intros Hwt. cbn [forallb]. rewrite (Hsel Hwt), (Hacc Hwt). reflexivity.
  Qed.

  Lemma sellist_step f : SPEC_filter f -> SPEC_sellist (S f).
  Proof.
    intros IHf st Hinv. rewrite parse_selector_list_S.
    bstep_core (next_token_post st Hinv). intros r0 (_ & Hinv1 & _).
    apply items_post; [exact IHf|exact Hinv1|intros _; reflexivity].
  Qed.

  (* ---- parse_filter, parse_filter_selector, parse_infix ---- *)

  Lemma filter_step f : SPEC_fs f -> SPEC_filter (S f).
  Proof.
    intros IH st Hinv. rewrite parse_filter_S.
    bstep_core (next_token_post st Hinv). intros r0 (_ & Hinv1 & _).
    bstep_core (IH (snd r0) 1 Hinv1). intros r (Hg & Hinv2).
    bstep_core (check_uncompared_post (fst r)). intros _ Ht.
    apply post_ok. split; [exact Ht|]. split; assumption.
  Qed.

  Lemma fs_loop_post f prec : SPEC_infix f -> forall g lhs st,
    sinv st -> G (gate_expr lhs = true) -> post (fs_loop E re_ok f prec g lhs st) Qe.
  Proof.
    intros IHi. induction g as [|g IH]; intros lhs st Hinv Hlhs; [apply post_fuel|].
    rewrite fs_loop_S.
    bstep_core (peek_post st Hinv). intros [nxt st1] (_ & Hinv1 & Hp1). cbn [fst snd] in *.
    destruct (_ || _); [apply post_ok; split; assumption|].
    destruct (binop_of_kind (tk nxt)) as [o|] eqn:Hb; [|apply post_ok; split; assumption].
    bstep_core (next_token_post st1 Hinv1). intros r (_ & Hinv2 & _ & Hcur2).
    assert (Hop : Trk -> binop_of_kind (tk (s_cur (snd r))) <> None).
    { intros HS. rewrite (Hcur2 HS nxt (Hp1 HS)), Hb. discriminate. }
    bstep_core (IHi (snd r) lhs Hinv2 Hop Hlhs). intros r2 (Hg2 & Hinv3).
    apply IH; assumption.
  Qed.

  Lemma fs_step f : SPEC_primary f -> SPEC_infix f -> SPEC_fs (S f).
  Proof.
    intros IHp IHi st prec Hinv. rewrite parse_filter_selector_S.
    bstep_core (IHp st Hinv). intros l (Hg & Hinv1).
    apply fs_loop_post; assumption.
  Qed.

  Lemma infix_gate lhs o rhs :
    G (gate_expr lhs = true) -> G (gate_expr rhs = true) ->
    G (is_comparison_op o = true -> g_comparable lhs = true /\ g_comparable rhs = true) ->
    (is_logical_op o = true -> g_testable lhs = true /\ g_testable rhs = true) ->
    G (gate_expr (FInfix lhs o rhs) = true).
  Proof.
    intros Hl Hr Hcmp Hlog Hwt. rewrite gate_expr_infix, (Hl Hwt), (Hr Hwt). specialize (Hcmp Hwt).
    destruct o; cbn [g_is_comparison is_comparison_op is_logical_op andb] in *;
      try (destruct (Hcmp eq_refl) as [-> ->]); try (destruct (Hlog eq_refl) as [-> ->]); reflexivity.
  Qed.

  Lemma infix_step f : SPEC_fs f -> SPEC_infix (S f).
  Proof.
    intros IH st lhs Hinv Hop Hlhs. rewrite parse_infix_S.
    bstep_core (next_token_post st Hinv). intros [optok st1] (Ho & Hinv1 & _). cbn [fst snd] in *.
    destruct (binop_of_kind (tk optok)) as [o|] eqn:Hb.
    2:{ intros HS. exfalso. apply (Hop HS). rewrite <- Ho. exact Hb. }
    bstep_core (IH st1 (precedence_of (tk optok)) Hinv1). intros [rhs st2] (Hg & Hinv2). cbn [fst snd] in *.
    eapply post_bind with
      (Q := fun _ : unit => G (is_comparison_op o = true -> g_comparable lhs = true /\ g_comparable rhs = true)).
    { destruct (e_well_typed E) eqn:Hwt; cbn [andb].
      - destruct (is_comparison_op o); [|apply post_ok; intros _ H; discriminate H].
        bstep_core (check_comparable_post lhs). intros _ H1.
        eapply post_weaken; [apply (check_comparable_post rhs)|]. intros u2 H2 _ _. split; assumption.
      - apply post_ok. intros H. unfold G in H. rewrite Hwt in H. discriminate H. }
    intros _ Hcmp.
    eapply post_bind with
      (Q := fun _ : unit => is_logical_op o = true -> g_testable lhs = true /\ g_testable rhs = true).
    { destruct (is_logical_op o); [|apply post_ok; intros H; discriminate H].
      bstep_core (check_uncompared_post lhs). intros _ H1.
      eapply post_weaken; [apply (check_uncompared_post rhs)|]. intros u2 H2 _. split; assumption. }
    intros _ Hlog.
    apply post_ok. split; [|exact Hinv2]. cbn [fst]. apply infix_gate; assumption.
  Qed.

  (* ---- parse_primary ---- *)

  Lemma sub_path_post f st mk :
    SPEC_path f -> sinv st -> (forall p, gate_expr (mk p) = gate_segs p) ->
    post (sub_path E re_ok f st mk) Qe.
  Proof.
    intros IH Hinv Hmk. unfold sub_path.
    bstep_core (next_token_post st Hinv). intros r0 (_ & Hinv1 & Hemp1 & _).
    bstep_core (IH true (snd r0) [] Hinv1 Hemp1 (fun _ => eq_refl)). intros r (Hg & Hinv2).
    apply post_ok. split; [|exact Hinv2]. cbn [fst]. intros Hwt. rewrite Hmk. exact (Hg Hwt).
  Qed.

  Lemma regex_primary_post st : sinv st -> post (regex_primary re_ok st) Qe.
  Proof.
    intros Hinv. unfold regex_primary.
    bstep_core (peek_post st Hinv). intros [nxt st1] (_ & Hinv1 & _). cbn [fst snd] in *.
    eapply post_bind with (Q := fun r : reflags * stream => sinv (snd r)).
    { destruct (is_kind TReFlags nxt); [|exact Hinv1].
      bstep_core (next_token_post st1 Hinv1). intros r' (_ & Hinv2 & _). exact Hinv2. }
    intros r Hinv2.
    destruct (re_ok (tv (s_cur st))) as [[|]|]; [|apply post_syntax|apply post_unsupported].
    apply post_ok. split; [intros _; reflexivity|exact Hinv2].
  Qed.

  Lemma grp_loop_post f : SPEC_infix f -> forall g e st,
    sinv st -> G (gate_expr e = true) -> post (grp_loop E re_ok f g e st) Qe.
  Proof.
    intros IHi. induction g as [|g IH]; intros e st Hinv He; [apply post_fuel|].
    rewrite grp_loop_S.
    destruct (is_kind TRParen (s_cur st)); [apply post_ok; split; assumption|].
    destruct (is_kind TEof (s_cur st)); [apply post_syntax|].
    destruct (binop_of_kind (tk (s_cur st))) as [o|] eqn:Hb; [|apply post_syntax].
    assert (Hop : Trk -> binop_of_kind (tk (s_cur st)) <> None) by (intros _; rewrite Hb; discriminate).
    bstep_core (IHi st e Hinv Hop He). intros r2 (Hg2 & Hinv2).
    apply IH; assumption.
  Qed.

  Lemma finish_call_post name acc st :
    sinv st -> G (forallb gate_expr acc = true) -> post (finish_call E name acc st) Qe.
  Proof.
    intros Hinv Hacc. unfold finish_call.
    destruct (e_well_typed E) eqn:Hwt.
    - bstep_core (validate_function_post name (rev acc)). intros _ (ts & t & Hsig & Hargs).
      apply post_ok. split; [|exact Hinv]. cbn [fst]. intros _.
      rewrite gate_expr_func, gate_exprs_of, forallb_rev, (Hacc Hwt), Hsig, fexprs_list_of, Hargs.
      reflexivity.
    - destruct (fn_sig name); [apply post_unsupported|apply post_jp].
  Qed.

  Lemma arg_primary_post f st : SPEC_primary f -> sinv st -> post (arg_primary E re_ok f st) Qe.
  Proof.
    intros IH Hinv. unfold arg_primary.
    destruct (tk (s_cur st)); try apply post_syntax; apply IH; exact Hinv.
  Qed.

  Lemma after_arg_post pk : sinv (snd pk) -> post (after_arg pk) (fun st2 => sinv st2).
  Proof.
    intros Hinv. unfold after_arg.
    destruct (is_kind TRParen (fst pk)); [exact Hinv|].
    destruct (is_kind TComma (fst pk)); [|apply post_syntax].
    bstep_core (next_token_post (snd pk) Hinv). intros r (_ & Hinv2 & _). exact Hinv2.
  Qed.

  Lemma args_loop_post f name : SPEC_primary f -> SPEC_infix f -> forall g st acc,
    sinv st -> G (forallb gate_expr acc = true) -> post (args_loop E re_ok f name g st acc) Qe.
  Proof.
    intros IHp IHi. induction g as [|g IH]; intros st acc Hinv Hacc; [apply post_fuel|].
    rewrite args_loop_S.
    destruct (is_kind TRParen (s_cur st)); [apply finish_call_post; assumption|].
    bstep_core (arg_primary_post f st IHp Hinv). intros a (Hga & Hinva).
    generalize (fst a) (snd a) Hga Hinva. clear a Hga Hinva.
    generalize f at 2. intros h. induction h as [|h IHh]; intros e st' He Hinv'; [apply post_fuel|].
    rewrite ops_loop_S.
    bstep_core (peek_post st' Hinv'). intros pk (_ & Hinv1 & Hp1).
    destruct (binop_of_kind (tk (fst pk))) as [o|] eqn:Hb.
    - bstep_core (next_token_post (snd pk) Hinv1). intros r (_ & Hinv2 & _ & Hcur2).
      assert (Hop : Trk -> binop_of_kind (tk (s_cur (snd r))) <> None).
      { intros HS. rewrite (Hcur2 HS (fst pk) (Hp1 HS)), Hb. discriminate. }
      bstep_core (IHi (snd r) e Hinv2 Hop He). intros r2 (Hg2 & Hinv3).
      apply IHh; assumption.
    - bstep_core (after_arg_post pk Hinv1). intros st2 Hinv2.
      bstep_core (next_token_post st2 Hinv2). intros r3 (_ & Hinv3 & _).
      apply IH; [exact Hinv3|]. intros Hwt. cbn [forallb]. rewrite (He Hwt), (Hacc Hwt). reflexivity.
  Qed.

  Lemma primary_step f :
    SPEC_path f -> SPEC_fs f -> SPEC_infix f -> SPEC_primary f -> SPEC_primary (S f).
  Proof.
    intros IHpath IHfs IHi IHp st Hinv. rewrite parse_primary_S.
    assert (Hlit : forall e, gate_expr e = true -> post (Ok (e, st)) Qe).
    { intros e He. apply post_ok. split; [intros _; exact He|exact Hinv]. }
    destruct (tk (s_cur st)) eqn:Hk; try apply post_syntax; try (apply Hlit; reflexivity).
    - (* TRoot *) apply sub_path_post; auto.
    - (* TFakeRoot *) apply sub_path_post; auto.
    - (* TSelf *) apply sub_path_post; auto.
    - (* TFilterCtx *) apply sub_path_post; auto.
    - (* TDQ *) eapply post_bind; [apply decode_string_post|intros s _]. apply Hlit. reflexivity.
    - (* TSQ *) eapply post_bind; [apply decode_string_post|intros s _]. apply Hlit. reflexivity.
    - (* TRePattern *) apply regex_primary_post. exact Hinv.
    - (* TFunction *)
      bstep_core (next_token_post st Hinv). intros r0 (_ & Hinv1 & _).
      apply args_loop_post; auto. intros _. reflexivity.
    - (* TFloat *)
      eapply post_bind; [apply parse_float_literal_post|intros e He]. apply Hlit. exact He.
    - (* TInt *)
      eapply post_bind; [apply parse_int_literal_post|intros e He; apply Hlit; exact He].
      intros HS. apply tok_ok_int; [exact (sinv_cur st Hinv HS)|exact Hk].
    - (* TLBracket *)
      bstep_core (next_token_post st Hinv). intros r0 (_ & Hinv1 & _).
      bstep_core (parse_list_items_post f (snd r0) [] Hinv1 eq_refl). intros r (Hg & Hinv2).
      apply post_ok. split; [|exact Hinv2]. cbn [fst]. intros _.
      rewrite gate_expr_list, gate_exprs_of. exact Hg.
    - (* TNot *)
      bstep_core (next_token_post st Hinv). intros r0 (_ & Hinv1 & _).
      bstep_core (IHfs (snd r0) 7 Hinv1). intros r (Hg & Hinv2).
      bstep_core (check_uncompared_post (fst r)). intros _ Ht.
      apply post_ok. split; [|exact Hinv2]. cbn [fst]. intros Hwt.
      rewrite gate_expr_not, Ht, (Hg Hwt). reflexivity.
    - (* TLParen *)
      bstep_core (next_token_post st Hinv). intros r0 (_ & Hinv1 & _).
      bstep_core (IHfs (snd r0) 1 Hinv1). intros r (Hg & Hinv2).
      bstep_core (next_token_post (snd r) Hinv2). intros r1 (_ & Hinv3 & _).
      apply grp_loop_post; assumption.
  Qed.

  (* ---- the induction on fuel ---- *)

  Definition SPECS (f : nat) : Prop :=
    SPEC_path f /\ SPEC_sellist f /\ SPEC_filter f /\ SPEC_fs f /\ SPEC_infix f /\ SPEC_primary f.

  Theorem parser_spec f : SPECS f.
  Proof.
    induction f as [|f (IHpath & IHsl & IHfilter & IHfs & IHi & IHp)].
    - repeat split; intro; intros; apply post_fuel.
    - repeat split.
      + apply path_step; assumption.
      + apply sellist_step; assumption.
      + apply filter_step; assumption.
      + apply fs_step; assumption.
      + apply infix_step; assumption.
      + apply primary_step; assumption.
  Qed.
End Spec.
