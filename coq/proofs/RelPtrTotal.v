(* RelPtrTotal.v — facts about the SPECIFICATION of Relative JSON Pointers (spec/RelPtrDraft.v):
   up-then-down is the identity, steps beyond the base are forbidden, and the draft grammar
   is inhabited for every abstract relative pointer with non-negative steps (printer + round trip). *)
From JP Require Import Base Json PyStr Rfc6901 RelPtrDraft PyStrLemmas.
From Coq Require Import List ZArith Lia Bool.
Import ListNotations.
Local Open Scope Z_scope.

(* ---------------------------------------------------------------------- *)
(* Theorem A *)

Theorem up_then_down_identity (base : list ustr) (k : nat) :
  (k <= length base)%nat ->
  draft_apply (mkDRel (Z.of_nat k) 0%Z (DPtr (skipn (length base - k) base))) base = Some base.
Proof.
  intros Hk. unfold draft_apply. cbn [d_steps d_offset d_suffix].
  replace (Z.ltb (Z.of_nat (length base)) (Z.of_nat k)) with false
    by (symmetry; apply Z.ltb_ge; lia).
  rewrite Nat2Z.id. cbn [Z.eqb]. rewrite firstn_skipn. reflexivity.
Qed.

Theorem beyond_base_forbidden (base : list ustr) (steps off : Z) (sfx : dsuffix) :
  Z.of_nat (length base) < steps -> draft_apply (mkDRel steps off sfx) base = None.
Proof.
  intros H. unfold draft_apply. cbn [d_steps]. apply Z.ltb_lt in H. rewrite H. reflexivity.
Qed.

(* ---------------------------------------------------------------------- *)
(* Theorem B *)

Definition draft_print_suffix (sfx : dsuffix) : ustr :=
  match sfx with DHash => [ch_hash] | DPtr ts => rfc_spell ts end.

Definition draft_print (rel : drel) : ustr :=
  dec_of_nonneg (d_steps rel) ++
  (if Z.eqb (d_offset rel) 0 then [] else
     (if Z.ltb (d_offset rel) 0 then ch_minus else ch_plus) :: dec_of_nonneg (Z.abs (d_offset rel))) ++
  draft_print_suffix (d_suffix rel).

Definition nondigit_head (s : ustr) : Prop :=
  match s with c :: _ => is_ascii_digit c = false | [] => True end.

Lemma take_digits_app d rest :
  forallb is_ascii_digit d = true -> nondigit_head rest -> take_digits (d ++ rest) = (d, rest).
Proof.
  intros Hd Hr. induction d as [|c d IH].
  - cbn [app]. destruct rest as [|c r]; [reflexivity|]. cbn [take_digits].
    cbn in Hr. rewrite Hr. reflexivity.
  - cbn [forallb] in Hd. apply andb_true_iff in Hd. destruct Hd as [Hc Hd].
    cbn [app take_digits]. rewrite Hc, (IH Hd). reflexivity.
Qed.

Lemma print_suffix_head sfx :
  match draft_print_suffix sfx with
  | c :: _ => c = ch_hash \/ c = ch_slash
  | [] => sfx = DPtr []
  end.
Proof.
  destruct sfx as [|ts]; cbn.
  - left; reflexivity.
  - destruct ts; cbn; [reflexivity|right; reflexivity].
Qed.

Lemma print_suffix_nondigit sfx : nondigit_head (draft_print_suffix sfx).
Proof.
  pose proof (print_suffix_head sfx) as H. unfold nondigit_head.
  destruct (draft_print_suffix sfx) as [|c r]; [exact I|].
  destruct H as [-> | ->]; reflexivity.
Qed.

Lemma draft_suffix_print sfx : draft_suffix (draft_print_suffix sfx) = Some sfx.
Proof.
  destruct sfx as [|ts]; unfold draft_suffix; cbn [draft_print_suffix].
  - rewrite ustr_eqb_refl. reflexivity.
  - replace (ustr_eqb (rfc_spell ts) [ch_hash]) with false.
    + rewrite rfc_syntax_spell, rfc_tokens_spell. reflexivity.
    + symmetry. destruct ts as [|t ts]; reflexivity.
Qed.

Theorem draft_parse_print (rel : drel) :
  0 <= d_steps rel -> draft_parse (draft_print rel) = Some rel.
Proof.
  destruct rel as [steps off sfx]. cbn [d_steps d_offset d_suffix]. intros Hs.
  unfold draft_print. cbn [d_steps d_offset d_suffix].
  pose proof (canonical_dec_of_nonneg steps Hs) as Hcs.
  pose proof (canon_digits _ Hcs) as Hds.
  pose proof (dec_value_of_nonneg steps Hs) as Hvs.
  unfold draft_parse.
  destruct (Z.eqb off 0) eqn:E0.
  - apply Z.eqb_eq in E0. subst off. cbn [app].
    rewrite (take_digits_app _ _ Hds (print_suffix_nondigit sfx)).
    rewrite Hcs, Hvs. cbn [negb].
    pose proof (print_suffix_head sfx) as Hh.
    pose proof (draft_suffix_print sfx) as Hp.
    destruct (draft_print_suffix sfx) as [|c r].
    + subst sfx. reflexivity.
    + replace (N.eqb c ch_plus || N.eqb c ch_minus)%bool with false
        by (destruct Hh as [-> | ->]; reflexivity).
      rewrite Hp. reflexivity.
  - apply Z.eqb_neq in E0.
    assert (Ha : 0 <= Z.abs off) by lia.
    pose proof (canonical_dec_of_nonneg _ Ha) as Hca.
    pose proof (canon_digits _ Hca) as Hda.
    pose proof (dec_value_of_nonneg _ Ha) as Hva.
    set (sg := if Z.ltb off 0 then ch_minus else ch_plus).
    assert (Hsg : is_ascii_digit sg = false) by (unfold sg; destruct (Z.ltb off 0); reflexivity).
    cbn [app].
    rewrite (take_digits_app (dec_of_nonneg steps) (sg :: _) Hds Hsg).
    rewrite Hcs, Hvs. cbn [negb].
    replace (N.eqb sg ch_plus || N.eqb sg ch_minus)%bool with true
      by (unfold sg; destruct (Z.ltb off 0); reflexivity).
    rewrite (take_digits_app _ _ Hda (print_suffix_nondigit sfx)).
    rewrite Hca, Hva.
    replace (Z.eqb (Z.abs off) 0) with false by (symmetry; apply Z.eqb_neq; lia).
    cbn [andb negb]. rewrite draft_suffix_print.
    f_equal. f_equal. unfold sg. destruct (Z.ltb off 0) eqn:El.
    + apply Z.ltb_lt in El. cbn. lia.
    + apply Z.ltb_ge in El. cbn. lia.
Qed.

(* the draft grammar accepts the printed text *)
Corollary draft_syntax_print (rel : drel) :
  0 <= d_steps rel -> draft_syntax (draft_print rel) = true.
Proof. intros H. unfold draft_syntax. rewrite (draft_parse_print rel H). reflexivity. Qed.

Print Assumptions up_then_down_identity.
Print Assumptions beyond_base_forbidden.
Print Assumptions draft_parse_print.
Print Assumptions draft_syntax_print.
