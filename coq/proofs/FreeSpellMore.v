(* FreeSpellMore.v — (1) the canonical string form of a printable, reparsable query is one of its
   free spellings (so the C10 / C17 round trip is an instance of FreeParseProofs.free_spelling). *)
From Coq Require Import ZArith List Bool Lia.
From JP Require Import Base Json PyStr PyJsonStr Syntax Gen_unicode Lex Parse Serialize TokPrint Printable
                       Gate Reparsable TokensOk FreeSpell NormPath PyStrLemmas LocationProofs LexProofs LexSteps
                       StringRoundTrip PrintLexProofs FreeSpellProofs NormDomain RoundTrip FreeParseProofs.
Import ListNotations.

(* ---------------------------------------------------------------------- *)
(* the tokens of the canonical printer are those of the shorthand printer on the bracketed query *)

Lemma brk_sel_short s : short_form s = true -> brk_sel s = s.
Proof. destruct s; try discriminate; reflexivity. Qed.

Lemma brk_idem_mut :
  (forall e, brk_expr (brk_expr e) = brk_expr e) /\
  (forall es, brk_exprs (brk_exprs es) = brk_exprs es) /\
  (forall s, brk_sel (brk_sel s) = brk_sel s) /\
  (forall l, brk_sels (brk_sels l) = brk_sels l) /\
  (forall g, brk_seg (brk_seg g) = brk_seg g) /\
  (forall p, brk_segs (brk_segs p) = brk_segs p).
Proof.
  apply syntax_mutind; try reflexivity.
  - intros items IH. cbn [brk_expr]. rewrite IH. reflexivity.
  - intros r IH. cbn [brk_expr]. rewrite IH. reflexivity.
  - intros l IHl o r IHr. cbn [brk_expr]. rewrite IHl, IHr. reflexivity.
  - intros p IH. cbn [brk_expr]. rewrite IH. reflexivity.
  - intros fake p IH. cbn [brk_expr]. rewrite IH. reflexivity.
  - intros p IH. cbn [brk_expr]. rewrite IH. reflexivity.
  - intros name args IH. cbn [brk_expr]. rewrite IH. reflexivity.
  - intros e IHe r IHr. cbn [brk_exprs]. rewrite IHe, IHr. reflexivity.
  - intros e IH. cbn [brk_sel]. rewrite IH. reflexivity.
  - intros s IHs r IHr. cbn [brk_sels]. rewrite IHs, IHr. reflexivity.
  - intros s IH. cbn [brk_seg]. destruct (short_form s) eqn:Hs.
    + cbn [brk_seg brk_sels]. rewrite (brk_sel_short s Hs). reflexivity.
    + cbn [brk_seg]. assert (Hs' : short_form (brk_sel s) = false) by (destruct s; try discriminate Hs; reflexivity).
      rewrite Hs', IH. reflexivity.
  - intros items IH. cbn [brk_seg]. rewrite IH. reflexivity.
  - intros g IHg r IHr. cbn [brk_segs]. rewrite IHg, IHr. reflexivity.
Qed.

Lemma bracketed_idem q : bracketed (bracketed q) = bracketed q.
Proof.
  destruct brk_idem_mut as (_ & _ & _ & _ & _ & G).
  unfold bracketed, brk_path. cbn [q_first q_rest p_fake p_segs]. rewrite G. f_equal.
  rewrite map_map. apply map_ext. intros [o p]. cbn [fst snd p_fake p_segs]. rewrite G. reflexivity.
Qed.

Section ShBrk.
  Variable E : env.

  Lemma sh_brk_mut :
    (forall e, sh_expr_toks E (brk_expr e) = expr_toks E e /\
               forall par, sh_canon_toks E (brk_expr e) par = canon_toks E e par) /\
    (forall es, sh_exprs_toks E (brk_exprs es) = exprs_toks E es) /\
    (forall s, sh_sel_toks E (brk_sel s) = sel_toks E s) /\
    (forall l, sh_sels_toks E (brk_sels l) = sels_toks E l) /\
    (forall g, sh_seg_toks E (brk_seg g) = seg_toks E g) /\
    (forall p, sh_segs_toks E (brk_segs p) = segs_toks E p).
  Proof.
    apply syntax_mutind.
    - split; reflexivity.
    - split; reflexivity.
    - intros b. split; [|intros par]; destruct b; reflexivity.
    - intros z. split; reflexivity.
    - intros n. split; reflexivity.
    - intros s. split; reflexivity.
    - intros p fl. split; reflexivity.
    - intros items IH. split; [|intros par]; cbn [brk_expr];
        change (sh_expr_toks E (FList (brk_exprs items))) with
          (xs <- sh_exprs_toks E (brk_exprs items) ;; Ok (mkTok TLBracket [91%N] :: sep_by [comma] xs ++ [mkTok TRBracket [93%N]]));
        try change (sh_canon_toks E (FList (brk_exprs items)) par) with
          (xs <- sh_exprs_toks E (brk_exprs items) ;; Ok (mkTok TLBracket [91%N] :: sep_by [comma] xs ++ [mkTok TRBracket [93%N]]));
        rewrite IH; reflexivity.
    - intros r [IH1 IH2]. split.
      + cbn [brk_expr]. rewrite ek_not.
        change (sh_expr_toks E (FNot (brk_expr r))) with (x <- sh_expr_toks E (brk_expr r) ;; Ok (mkTok TNot [33%N] :: wrap_toks (brk_expr r) x)).
        rewrite IH1. destruct (expr_toks E r); [|reflexivity]. cbn [bind]. do 2 f_equal. destruct r; reflexivity.
      + intros par. cbn [brk_expr]. rewrite ck_not.
        change (sh_canon_toks E (FNot (brk_expr r)) par) with
          (a <- sh_canon_toks E (brk_expr r) 7 ;; let x := mkTok TNot [33%N] :: a in
           Ok (if Nat.ltb 7 par then lparen :: x ++ [rparen] else x)).
        rewrite IH2. reflexivity.
    - intros l [IHl1 IHl2] o r [IHr1 IHr2].
      assert (Hwl : forall x, wrap_toks (brk_expr l) x = wrap_toks l x) by (intros x; destruct l; reflexivity).
      assert (Hwr : forall x, wrap_toks (brk_expr r) x = wrap_toks r x) by (intros x; destruct r; reflexivity).
      split.
      + cbn [brk_expr]. rewrite ek_infix.
        change (sh_expr_toks E (FInfix (brk_expr l) o (brk_expr r))) with
          (a <- sh_expr_toks E (brk_expr l) ;; b <- sh_expr_toks E (brk_expr r) ;;
           Ok (if is_logical o then lparen :: (a ++ op_token o :: b) ++ [rparen]
               else wrap_toks (brk_expr l) a ++ op_token o :: wrap_toks (brk_expr r) b)).
        rewrite IHl1, IHr1. destruct (expr_toks E l); [|reflexivity]. cbn [bind].
        destruct (expr_toks E r); [|reflexivity]. cbn [bind]. rewrite Hwl, Hwr. reflexivity.
      + intros par. cbn [brk_expr]. destruct (is_logical o) eqn:El.
        * destruct o; try discriminate.
          -- rewrite ck_and.
             change (sh_canon_toks E (FInfix (brk_expr l) BAnd (brk_expr r)) par) with
               (a <- sh_canon_toks E (brk_expr l) 4 ;; b <- sh_canon_toks E (brk_expr r) 4 ;;
                let x := a ++ op_token BAnd :: b in Ok (if Nat.leb 4 par then lparen :: x ++ [rparen] else x)).
             rewrite IHl2, IHr2. reflexivity.
          -- rewrite ck_or.
             change (sh_canon_toks E (FInfix (brk_expr l) BOr (brk_expr r)) par) with
               (a <- sh_canon_toks E (brk_expr l) 3 ;; b <- sh_canon_toks E (brk_expr r) 3 ;;
                let x := a ++ op_token BOr :: b in Ok (if Nat.leb 3 par then lparen :: x ++ [rparen] else x)).
             rewrite IHl2, IHr2. reflexivity.
        * rewrite (ck_cmp E l o r par El).
          assert (Hc : sh_canon_toks E (FInfix (brk_expr l) o (brk_expr r)) par =
                       (a <- sh_expr_toks E (brk_expr l) ;; b <- sh_expr_toks E (brk_expr r) ;;
                        let x := wrap_toks (brk_expr l) a ++ op_token o :: wrap_toks (brk_expr r) b in
                        Ok (if Nat.leb 7 par then lparen :: x ++ [rparen] else x))).
          { destruct o; try discriminate El; reflexivity. }
          rewrite Hc, IHl1, IHr1. destruct (expr_toks E l); [|reflexivity]. cbn [bind].
          destruct (expr_toks E r); [|reflexivity]. cbn [bind]. cbv zeta. rewrite Hwl, Hwr. reflexivity.
    - intros p IH. split; [|intros par]; cbn [brk_expr];
        [change (sh_expr_toks E (FSelf (brk_segs p))) with (x <- sh_segs_toks E (brk_segs p) ;; Ok (mkTok TSelf (e_self E) :: x))
        |change (sh_canon_toks E (FSelf (brk_segs p)) par) with (x <- sh_segs_toks E (brk_segs p) ;; Ok (mkTok TSelf (e_self E) :: x))];
        rewrite IH; reflexivity.
    - intros fake p IH. split; [|intros par]; cbn [brk_expr];
        [change (sh_expr_toks E (FRoot fake (brk_segs p))) with
           (x <- sh_segs_toks E (brk_segs p) ;; Ok ((if fake then mkTok TFakeRoot (e_fake_root E) else mkTok TRoot (e_root E)) :: x))
        |change (sh_canon_toks E (FRoot fake (brk_segs p)) par) with
           (x <- sh_segs_toks E (brk_segs p) ;; Ok ((if fake then mkTok TFakeRoot (e_fake_root E) else mkTok TRoot (e_root E)) :: x))];
        rewrite IH; reflexivity.
    - intros p IH. split; [|intros par]; cbn [brk_expr];
        [change (sh_expr_toks E (FCtx (brk_segs p))) with (x <- sh_segs_toks E (brk_segs p) ;; Ok (mkTok TFilterCtx (e_filter_context E) :: x))
        |change (sh_canon_toks E (FCtx (brk_segs p)) par) with (x <- sh_segs_toks E (brk_segs p) ;; Ok (mkTok TFilterCtx (e_filter_context E) :: x))];
        rewrite IH; reflexivity.
    - split; reflexivity.
    - intros name args IH. split; [|intros par]; cbn [brk_expr];
        [change (sh_expr_toks E (FFunc name (brk_exprs args))) with
           (xs <- sh_exprs_toks E (brk_exprs args) ;; Ok (mkTok TFunction name :: sep_by [comma] xs ++ [rparen]))
        |change (sh_canon_toks E (FFunc name (brk_exprs args)) par) with
           (xs <- sh_exprs_toks E (brk_exprs args) ;; Ok (mkTok TFunction name :: sep_by [comma] xs ++ [rparen]))];
        rewrite IH; reflexivity.
    - reflexivity.
    - intros e [IHe _] r IHr. cbn [brk_exprs].
      change (sh_exprs_toks E (ECons (brk_expr e) (brk_exprs r))) with
        (x <- sh_expr_toks E (brk_expr e) ;; xs <- sh_exprs_toks E (brk_exprs r) ;; Ok (x :: xs)).
      rewrite IHe, IHr. reflexivity.
    - intros k. reflexivity.
    - intros i. reflexivity.
    - intros a b c. reflexivity.
    - reflexivity.
    - reflexivity.
    - intros e [_ IH]. cbn [brk_sel].
      change (sh_sel_toks E (SFilter (brk_expr e))) with (x <- sh_canon_toks E (brk_expr e) 1 ;; Ok (mkTok TFilter [63%N] :: x)).
      rewrite IH. reflexivity.
    - reflexivity.
    - intros s IHs r IHr. cbn [brk_sels].
      change (sh_sels_toks E (LCons (brk_sel s) (brk_sels r))) with
        (x <- sh_sel_toks E (brk_sel s) ;; xs <- sh_sels_toks E (brk_sels r) ;; Ok (x :: xs)).
      rewrite IHs, IHr. reflexivity.
    - intros s IH. destruct s; try reflexivity.
      cbn [brk_seg short_form brk_sel]. rewrite gk_sel_other by exact I.
      change (sh_seg_toks E (GSel (SFilter (brk_expr e)))) with (sh_sel_toks E (SFilter (brk_expr e))).
      exact IH.
    - reflexivity.
    - intros items IH. cbn [brk_seg].
      change (sh_seg_toks E (GList (brk_sels items))) with
        (xs <- sh_sels_toks E (brk_sels items) ;; Ok (mkTok TLBracket [91%N] :: sep_by [comma] xs ++ [mkTok TRBracket [93%N]])).
      rewrite IH. reflexivity.
    - reflexivity.
    - intros g IHg r IHr. cbn [brk_segs].
      change (sh_segs_toks E (PCons (brk_seg g) (brk_segs r))) with
        (x <- sh_seg_toks E (brk_seg g) ;; xs <- sh_segs_toks E (brk_segs r) ;; Ok (x ++ xs)).
      rewrite IHg, IHr. reflexivity.
  Qed.

  Lemma sh_query_toks_bracketed q : sh_query_toks E (bracketed q) = query_toks E q.
  Proof.
    destruct sh_brk_mut as (_ & _ & _ & _ & _ & G).
    assert (Hp : forall p, sh_path_toks E (brk_path p) = path_toks E p).
    { intros p. unfold sh_path_toks, path_toks, brk_path. cbn [p_segs p_fake]. rewrite G. reflexivity. }
    unfold sh_query_toks, query_toks, bracketed. cbn [q_first q_rest]. rewrite Hp.
    destruct (path_toks E (q_first q)); [|reflexivity]. cbn [bind]. f_equal.
    induction (q_rest q) as [|[o p] l IH]; [reflexivity|].
    cbn [map sh_rest_toks rest_toks fst snd]. rewrite Hp, IH. reflexivity.
  Qed.
End ShBrk.

(* ---------------------------------------------------------------------- *)
(* chains with an open end *)

Section Canon.
  Variable E : env.
  Variable ro : ustr -> option bool.
  Hypothesis HT : tokens_ok E = true.

  Fixpoint chain' (items : list item) (tail : ustr) : Prop :=
    match items with
    | [] => True
    | (w, l) :: r => blanks w = true /\ lexeme_ok E l /\ fits l (render r tail) = true /\ chain' r tail
    end.

  Lemma chain_ok_open items : chain' items [] -> chain_ok E items [].
  Proof.
    induction items as [|[w l] r IH]; intros H; [reflexivity|].
    cbn [chain' chain_ok] in *. destruct H as (H1 & H2 & H3 & H4). auto.
  Qed.

  Lemma render_tail items tail : render items tail = render items [] ++ tail.
  Proof.
    induction items as [|[w l] r IH]; [reflexivity|]. cbn [render]. rewrite IH, <- !app_assoc. reflexivity.
  Qed.

  Lemma render_app a b tail : render (a ++ b) tail = render a (render b tail).
  Proof. induction a as [|[w l] r IH]; [reflexivity|]. cbn [app render]. rewrite IH. reflexivity. Qed.

  Lemma chain'_app a b tail : chain' a (render b tail) -> chain' b tail -> chain' (a ++ b) tail.
  Proof.
    induction a as [|[w l] r IH]; intros Ha Hb; [exact Hb|].
    cbn [app chain'] in *. destruct Ha as (H1 & H2 & H3 & H4). rewrite render_app. auto.
  Qed.

  Lemma lexemes_of_app t1 l1 t2 l2 : lexemes_of t1 l1 -> lexemes_of t2 l2 -> lexemes_of (t1 ++ t2) (l1 ++ l2).
  Proof. intros H1 H2. induction H1; cbn [app]; try (constructor; assumption). exact H2. Qed.

  Definition nolead (items : list item) : Prop := match items with (w, _) :: _ => w = [] | [] => True end.
  Definition lead (w : ustr) (items : list item) : list item :=
    match items with (_, l) :: r => (w, l) :: r | [] => [] end.

  (* [x] is written as lexemes for the tokens [ts], and may be followed by any text in [D] *)
  Definition spl (x : ustr) (ts : list token) (D : ustr -> Prop) : Prop :=
    exists items, nolead items /\ render items [] = x /\ lexemes_of ts (map snd items) /\
                  (x <> [] -> items <> []) /\ forall tail, D tail -> chain' items tail.

  Lemma spl_nil D : spl [] [] D.
  Proof. exists []. repeat split; try reflexivity; try constructor. intros H. contradiction. Qed.

  Lemma spl_weaken x ts (D D' : ustr -> Prop) : (forall t, D' t -> D t) -> spl x ts D -> spl x ts D'.
  Proof. intros H (items & H1 & H2 & H3 & H4 & H5). exists items. repeat split; auto. Qed.

  Lemma spl_leaf l ts (D : ustr -> Prop) :
    lexemes_of ts [l] -> lexeme_ok E l -> (forall tail, D tail -> fits l tail = true) -> spl (lex_text l) ts D.
  Proof.
    intros Hl Hok Hf. exists [([], l)]. split; [reflexivity|]. split; [cbn [render]; rewrite app_nil_r; reflexivity|].
    split; [exact Hl|]. split; [intros _; discriminate|]. intros tail Ht. cbn [chain' render]. auto.
  Qed.

  Lemma spl_app x1 t1 (D1 : ustr -> Prop) x2 t2 D2 :
    spl x1 t1 D1 -> spl x2 t2 D2 -> (forall tail, D2 tail -> D1 (x2 ++ tail)) -> spl (x1 ++ x2) (t1 ++ t2) D2.
  Proof.
    intros (i1 & N1 & R1 & L1 & E1 & C1) (i2 & N2 & R2 & L2 & E2 & C2) HD.
    destruct i1 as [|it1 r1].
    - cbn [render] in R1. subst x1. destruct t1; [|inversion L1]. exists i2. cbn [app]. repeat split; auto.
    - exists ((it1 :: r1) ++ i2). split; [destruct it1; exact N1|].
      split; [rewrite render_app, render_tail, R1, R2; reflexivity|].
      split; [rewrite map_app; apply lexemes_of_app; assumption|]. split; [intros _; discriminate|].
      intros tail Ht. apply chain'_app; [|apply C2; exact Ht].
      rewrite render_tail, R2. apply C1. apply HD. exact Ht.
  Qed.

  Lemma lead_render w items tail : nolead items -> items <> [] -> render (lead w items) tail = w ++ render items tail.
  Proof. destruct items as [|[w0 l] r]; [contradiction|]. cbn [nolead]. intros -> _. reflexivity. Qed.

  Lemma lead_chain w items tail : nolead items -> blanks w = true -> chain' items tail -> chain' (lead w items) tail.
  Proof. destruct items as [|[w0 l] r]; [auto|]. cbn [nolead lead chain']. intros -> Hw (_ & H2 & H3 & H4). auto. Qed.

  Lemma lead_snd w items : map snd (lead w items) = map snd items.
  Proof. destruct items as [|[w0 l] r]; reflexivity. Qed.

  (* a single space between two parts *)
  Lemma spl_space x1 t1 (D1 : ustr -> Prop) x2 t2 D2 :
    spl x1 t1 D1 -> spl x2 t2 D2 -> x1 <> [] -> x2 <> [] ->
    (forall tail, D2 tail -> D1 (32%N :: x2 ++ tail)) -> spl (x1 ++ 32%N :: x2) (t1 ++ t2) D2.
  Proof.
    intros (i1 & N1 & R1 & L1 & E1 & C1) (i2 & N2 & R2 & L2 & E2 & C2) Hx1 Hx2 HD.
    specialize (E1 Hx1). specialize (E2 Hx2).
    exists (i1 ++ lead [32%N] i2). split; [destruct i1 as [|[w l] r]; [contradiction|exact N1]|].
    split; [rewrite render_app, render_tail, R1, (lead_render [32%N] i2 [] N2 E2), R2; reflexivity|].
    split; [rewrite map_app, lead_snd; apply lexemes_of_app; assumption|].
    split; [intros _; destruct i1; [contradiction|discriminate]|].
    intros tail Ht. apply chain'_app; [|apply lead_chain; [exact N2|reflexivity|apply C2; exact Ht]].
    rewrite (lead_render [32%N] i2 tail N2 E2), render_tail, R2. apply C1. apply (HD tail Ht).
  Qed.
End Canon.

(* ---------------------------------------------------------------------- *)
(* the canonical text, construct by construct *)

Lemma DE_word tail : DE tail -> hd_ok (fun c => negb (is_word c) && negb (N.eqb c 40)) tail = true.
Proof. intros H. destruct H; reflexivity. Qed.

Lemma DE_int tail :
  DE tail ->
  hd_ok (fun c => negb (is_udigit c) && negb (N.eqb c 46) && negb (is_word c)) tail && no_colon tail = true.
Proof.
  intros H. destruct H as [|r|r|r|c r Hc]; try reflexivity.
  apply andb_true_iff. split; [reflexivity|]. unfold no_colon. rewrite skip_ws_32.
  apply opstart_cases in Hc. repeat (destruct Hc as [Hc|Hc]; [subst c; reflexivity|]). subst c. reflexivity.
Qed.

Lemma DE_float tail : DE tail -> hd_ok (fun c => negb (is_udigit c) && negb (N.eqb c 101) && negb (N.eqb c 69)) tail = true.
Proof. intros H. destruct H; reflexivity. Qed.

Lemma DE_flag tail : DE tail -> hd_ok (fun c => negb (is_flag c)) tail = true.
Proof. intros H. destruct H; reflexivity. Qed.

Lemma DE_udigit tail : DE tail -> hd_ok (fun c => negb (is_udigit c)) tail = true.
Proof. intros H. destruct H; reflexivity. Qed.

Lemma nonsign_hd tail : nonsign_head tail -> hd_ok (fun c => negb (sign_char c)) tail = true.
Proof. destruct tail as [|c r]; [reflexivity|]. cbn [nonsign_head hd_ok]. intros ->. reflexivity. Qed.

Lemma op_token_text o : tv (op_token o) = binop_text o.
Proof. destruct o; reflexivity. Qed.

Lemma canon_quoted s : quoted_body 39 (TokPrint.canonical_body s) = true.
Proof.
  unfold quoted_body. rewrite canonical_body_norm.
  rewrite (scan_quoted_norm s (S (length (flat_map norm_char s))) []) by lia. apply ustr_eqb_refl.
Qed.

Lemma canon_spells s : str_spells s false (TokPrint.canonical_body s).
Proof.
  split; [apply canon_quoted|]. split.
  - change (TokPrint.canonical_body s) with (canon_body s). apply canon_body_no_control.
  - unfold requote. change (TokPrint.canonical_body s) with (canon_body s). apply string_round_trip.
Qed.

Lemma good_head_nonempty x : good_head x -> x <> [].
Proof. intros [c [y [-> _]]]. discriminate. Qed.

Lemma join_nonempty sep x xs : x <> [] -> join_sep sep (x :: xs) <> [].
Proof.
  intros Hx. destruct xs as [|y r]; [exact Hx|].
  change (join_sep sep (x :: y :: r)) with (x ++ sep ++ join_sep sep (y :: r)).
  intros H. apply app_eq_nil in H as [H _]. contradiction.
Qed.

Section CanonCases.
  Variable E : env.
  Variable ro : ustr -> option bool.
  Hypothesis HT : tokens_ok E = true.

  Notation spl := (spl E).
  Definition anyD : ustr -> Prop := fun _ => True.

  (* leaves *)
  Lemma fixed_leaf k v (D : ustr -> Prop) :
    In (k, v) fixed_tokens -> (forall tail, D tail -> fits (X k v) tail = true) -> spl v [mkTok k v] D.
  Proof.
    intros Hin Hf. apply (spl_leaf E (X k v)); [apply lo_tok; apply lo_nil|left; exact Hin|exact Hf].
  Qed.

  Ltac infixed := unfold fixed_tokens; cbn [In]; repeat (try (left; reflexivity); right).

  Lemma ident_leaf k t : In (k, t) (ident_tokens E) -> spl t [mkTok k t] nonsign_head.
  Proof.
    intros Hin. apply (spl_leaf E (X k t)); [apply lo_tok; apply lo_nil|right; left; exact Hin|].
    intros tail Ht. unfold X, fits. cbn [tk]. unfold ident_tokens in Hin. cbn [In] in Hin.
    repeat (destruct Hin as [Hin|Hin]; [injection Hin as <- _; apply nonsign_hd; exact Ht|]). contradiction.
  Qed.

  Lemma lbr_leaf D : spl [91%N] [mkTok TLBracket [91%N]] D.
  Proof. apply fixed_leaf; [infixed|reflexivity]. Qed.
  Lemma rbr_leaf D : spl [93%N] [mkTok TRBracket [93%N]] D.
  Proof. apply fixed_leaf; [infixed|reflexivity]. Qed.
  Lemma lpar_leaf D : spl [40%N] [lparen] D.
  Proof. apply fixed_leaf; [infixed|reflexivity]. Qed.
  Lemma rpar_leaf D : spl [41%N] [rparen] D.
  Proof. apply fixed_leaf; [infixed|reflexivity]. Qed.
  Lemma comma_leaf D : spl [44%N] [comma] D.
  Proof. apply fixed_leaf; [infixed|reflexivity]. Qed.

  Lemma op_leaf o : spl (binop_text o) [op_token o] (fun tail => exists r, tail = 32%N :: r).
  Proof.
    apply (spl_weaken E _ _ (fun tail => exists r, tail = 32%N :: r) _ (fun t H => H)).
    rewrite <- op_token_text.
    apply (spl_leaf E (XTok (op_token o))); [apply lo_tok; apply lo_nil| |].
    - left. destruct o; cbn [op_token tk tv]; infixed.
    - intros tail [r ->]. destruct o; reflexivity.
  Qed.

  Lemma string_leaf s D : spl (canonical_string s) [mkTok TSQ (TokPrint.canonical_body s)] D.
  Proof.
    rewrite canonical_string_body.
    apply (spl_leaf E (XStr false (TokPrint.canonical_body s))).
    - apply (lo_str s false (TokPrint.canonical_body s)); [apply canon_spells|apply lo_nil].
    - apply canon_quoted.
    - reflexivity.
  Qed.

  Lemma int_leaf z : spl (str_of_Z z) [mkTok TInt (str_of_Z z)] DE.
  Proof.
    apply (spl_leaf E (X TInt (str_of_Z z))); [apply lo_tok; apply lo_nil| |].
    - right. right. left. split; [reflexivity|exists z; reflexivity].
    - intros tail Ht. apply DE_int. exact Ht.
  Qed.

  (* brackets, parentheses *)
  Lemma bracket_spl J S : spl J S DE -> spl (91%N :: J ++ [93%N]) (mkTok TLBracket [91%N] :: S ++ [mkTok TRBracket [93%N]]) anyD.
  Proof.
    intros H.
    change (spl ([91%N] ++ (J ++ [93%N])) ([mkTok TLBracket [91%N]] ++ (S ++ [mkTok TRBracket [93%N]])) anyD).
    apply (spl_app E [91%N] [mkTok TLBracket [91%N]] anyD (J ++ [93%N]) (S ++ [mkTok TRBracket [93%N]]) anyD);
      [apply lbr_leaf| |intros; exact I].
    apply (spl_app E J S DE [93%N] [mkTok TRBracket [93%N]] anyD); [exact H|apply rbr_leaf|].
    intros tail _. apply DE_rb.
  Qed.

  Lemma paren_spl x tx : spl x tx DE -> spl (40%N :: x ++ [41%N]) (lparen :: tx ++ [rparen]) anyD.
  Proof.
    intros H.
    change (spl ([40%N] ++ (x ++ [41%N])) ([lparen] ++ (tx ++ [rparen])) anyD).
    apply (spl_app E [40%N] [lparen] anyD (x ++ [41%N]) (tx ++ [rparen]) anyD); [apply lpar_leaf| |intros; exact I].
    apply (spl_app E x tx DE [41%N] [rparen] anyD); [exact H|apply rpar_leaf|]. intros tail _. apply DE_rp.
  Qed.

  Lemma spl_cons1 c t (D1 : ustr -> Prop) x ts D2 :
    spl [c] [t] D1 -> spl x ts D2 -> (forall tail, D2 tail -> D1 (x ++ tail)) -> spl (c :: x) (t :: ts) D2.
  Proof. intros H1 H2 HD. exact (spl_app E [c] [t] D1 x ts D2 H1 H2 HD). Qed.

  Lemma any_DE x ts : spl x ts anyD -> spl x ts DE.
  Proof. apply spl_weaken. intros; exact I. Qed.

  Lemma wrap_spl e a ta : spl a ta DE -> spl (wrap_operand e a) (wrap_toks e ta) DE.
  Proof.
    intros H. destruct e; try exact H. cbn [wrap_operand wrap_toks].
    destruct (is_logical o); [exact H|]. apply any_DE. apply paren_spl. exact H.
  Qed.

  Lemma infix_spl X1 X2 t1 t2 o :
    spl X1 t1 DE -> spl X2 t2 DE -> X1 <> [] -> good_head X2 ->
    spl (X1 ++ Serialize.sp :: binop_text o ++ Serialize.sp :: X2) (t1 ++ op_token o :: t2) DE.
  Proof.
    intros H1 H2 Hne Hh. unfold Serialize.sp.
    apply (spl_space E X1 t1 DE (binop_text o ++ 32%N :: X2) (op_token o :: t2)).
    - exact H1.
    - change (op_token o :: t2) with ([op_token o] ++ t2).
      apply (spl_space E (binop_text o) [op_token o] (fun tail => exists r, tail = 32%N :: r) X2 t2 DE);
        [apply op_leaf|exact H2| |apply good_head_nonempty; exact Hh|].
      + destruct o; discriminate.
      + intros tail _. eexists. reflexivity.
    - exact Hne.
    - destruct o; discriminate.
    - intros tail _. rewrite <- app_assoc. apply DE_binop.
  Qed.

  Lemma join_spl xs tss :
    Forall2 (fun x t => spl x t DE /\ x <> []) xs tss ->
    spl (join_sep [44; 32]%N xs) (sep_by [comma] tss) DE.
  Proof.
    induction 1 as [|x t xs tss [H1 Hx] HF IH]; [apply spl_nil|].
    destruct HF as [|x2 t2 xs' tss' [Hb2 Hx2] HF']; [exact H1|].
    change (join_sep [44; 32]%N (x :: x2 :: xs')) with (x ++ [44%N] ++ 32%N :: join_sep [44; 32]%N (x2 :: xs')).
    change (sep_by [comma] (t :: t2 :: tss')) with (t ++ [comma] ++ sep_by [comma] (t2 :: tss')).
    apply (spl_app E x t DE); [exact H1| |intros tail _; apply DE_comma].
    apply (spl_space E [44%N] [comma] anyD); [apply comma_leaf|exact IH|discriminate|apply join_nonempty; exact Hx2|].
    intros; exact I.
  Qed.

  Fixpoint rp_exprs (es : fexprs) : bool :=
    match es with ENil => true | ECons e r => rp_expr E e && rp_exprs r end.

  Lemma rp_args_exprs es : rp_args E es = true -> rp_exprs es = true.
  Proof.
    induction es as [|e r IH]; [reflexivity|]. intros H.
    change (rp_args E (ECons e r)) with (arg_form e && rp_expr E e && rp_args E r) in H.
    apply andb_true_iff in H as [H Hr]. apply andb_true_iff in H as [_ He].
    cbn [rp_exprs]. rewrite He, (IH Hr). reflexivity.
  Qed.

  Lemma pr_lits_rp es : pr_lits ro es = true -> rp_exprs es = true.
  Proof.
    induction es as [|e r IH]; [reflexivity|]. intros H.
    change (pr_lits ro (ECons e r)) with (is_lit e && pr_expr ro e && pr_lits ro r) in H.
    apply andb_true_iff in H as [H Hr]. apply andb_true_iff in H as [Hl _].
    cbn [rp_exprs]. rewrite (IH Hr). destruct e; try discriminate Hl; reflexivity.
  Qed.

  (* the statements of the mutual induction *)
  Definition Ce (e : fexpr) : Prop :=
    pr_expr ro e = true -> rp_expr E e = true ->
    (forall x ts, expr_text E e = Ok x -> expr_toks E e = Ok ts -> spl x ts DE) /\
    (forall par x ts, canon_text E e par = Ok x -> canon_toks E e par = Ok ts -> spl x ts DE).
  Definition Ces (es : fexprs) : Prop :=
    pr_exprs ro es = true -> rp_exprs es = true ->
    forall xs tss, exprs_text E es = Ok xs -> exprs_toks E es = Ok tss ->
      Forall2 (fun x t => spl x t DE /\ x <> []) xs tss.
  Definition Cs (s : selector) : Prop :=
    pr_sel ro s = true -> rp_sel E s = true ->
    forall x ts, sel_text E s = Ok x -> sel_toks E s = Ok ts -> spl x ts DE /\ x <> [].
  Definition Css (l : sels) : Prop :=
    pr_sels ro l = true -> rp_sels E l = true ->
    forall xs tss, sels_text E l = Ok xs -> sels_toks E l = Ok tss ->
      Forall2 (fun x t => spl x t DE /\ x <> []) xs tss.
  Definition Cg (g : segment) : Prop :=
    pr_seg ro g = true -> rp_seg E g = true ->
    forall x ts, seg_text E g = Ok x -> seg_toks E g = Ok ts -> spl x ts anyD.
  Definition Cp (p : segs) : Prop :=
    pr_segs ro p = true -> rp_segs E p = true ->
    forall x ts, segs_text E p = Ok x -> segs_toks E p = Ok ts -> spl x ts anyD.

  Lemma Ce_leaf e :
    PrintLexProofs.is_compound e = false ->
    (forall x ts, expr_text E e = Ok x -> expr_toks E e = Ok ts -> spl x ts DE) ->
    (forall x ts, expr_text E e = Ok x -> expr_toks E e = Ok ts -> spl x ts DE) /\
    (forall par x ts, canon_text E e par = Ok x -> canon_toks E e par = Ok ts -> spl x ts DE).
  Proof.
    intros Hc H. split; [exact H|]. intros par x ts Hx Ht.
    rewrite ct_leaf in Hx by exact Hc. rewrite ck_leaf in Ht by exact Hc. apply H; assumption.
  Qed.

  Lemma word_leaf k v : In (k, v) fixed_tokens ->
    (forall tail, fits (X k v) tail = hd_ok (fun c => negb (is_word c) && negb (N.eqb c 40)) tail) ->
    spl v [mkTok k v] DE.
  Proof. intros Hin Hf. apply fixed_leaf; [exact Hin|]. intros tail Ht. rewrite Hf. apply DE_word. exact Ht. Qed.

  Lemma c_nil : Ce FNil.
  Proof.
    intros _ _. apply Ce_leaf; [reflexivity|]. intros x ts Hx Ht. injection Hx as <-. injection Ht as <-.
    apply word_leaf; [infixed|reflexivity].
  Qed.
  Lemma c_undefined : Ce FUndefined.
  Proof.
    intros _ _. apply Ce_leaf; [reflexivity|]. intros x ts Hx Ht. injection Hx as <-. injection Ht as <-.
    apply word_leaf; [infixed|reflexivity].
  Qed.
  Lemma c_bool b : Ce (FBool b).
  Proof.
    intros _ _. apply Ce_leaf; [reflexivity|]. intros x ts Hx Ht.
    destruct b; injection Hx as <-; injection Ht as <-; (apply word_leaf; [infixed|reflexivity]).
  Qed.
  Lemma c_int z : Ce (FInt z).
  Proof.
    intros _ _. apply Ce_leaf; [reflexivity|]. intros x ts Hx Ht. injection Hx as <-. injection Ht as <-.
    apply int_leaf.
  Qed.
  Lemma c_float n : Ce (FFloat n).
  Proof.
    intros _ _. apply Ce_leaf; [reflexivity|]. intros x ts Hx Ht.
    change (expr_text E (FFloat n)) with (float_repr n) in Hx. rewrite ek_float, Hx in Ht. cbn [bind] in Ht.
    injection Ht as <-.
    apply (spl_leaf E (X TFloat x)); [apply lo_tok; apply lo_nil| |].
    - right. right. right. split; [reflexivity|exists n; exact Hx].
    - intros tail Hd. apply DE_float. exact Hd.
  Qed.
  Lemma c_str s : Ce (FStr s).
  Proof.
    intros _ _. apply Ce_leaf; [reflexivity|]. intros x ts Hx Ht. injection Hx as <-. injection Ht as <-.
    apply string_leaf.
  Qed.
  Lemma c_regex p fl : Ce (FRegex p fl).
  Proof.
    intros Hpr _. apply Ce_leaf; [reflexivity|]. cbn [pr_expr] in Hpr. apply andb_true_iff in Hpr as [Hp _].
    intros x ts Hx Ht. injection Hx as <-. injection Ht as <-.
    apply (spl_leaf E (XRegex p (flags_text fl))); [apply lo_regex; apply lo_nil| |].
    - split; [exact Hp|apply flags_text_flags].
    - intros tail Hd. apply DE_flag. exact Hd.
  Qed.
  Lemma c_key : Ce FKey.
  Proof.
    intros _ _. apply Ce_leaf; [reflexivity|]. intros x ts Hx Ht. injection Hx as <-. injection Ht as <-.
    apply (spl_weaken E _ _ nonsign_head); [apply DE_nonsign|]. apply ident_leaf. cbn; tauto.
  Qed.

  Lemma c_list items : Ces items -> Ce (FList items).
  Proof.
    intros IH Hpr _. apply Ce_leaf; [reflexivity|]. cbn [pr_expr] in Hpr.
    intros x ts Hx Ht. rewrite et_list in Hx. rewrite ek_list in Ht.
    apply bind_ok in Hx as [xs [Hxs Hx]]. apply bind_ok in Ht as [tss [Htss Ht]].
    injection Hx as <-. injection Ht as <-. apply any_DE. apply bracket_spl. apply join_spl.
    apply (IH (pr_lits_exprs ro items Hpr) (pr_lits_rp items Hpr) xs tss Hxs Htss).
  Qed.

  Definition ne61 (tail : ustr) : Prop := hd_ok (fun c => negb (N.eqb c 61)) tail = true.

  Lemma good_head_ne61 x tail : good_head x -> ne61 (x ++ tail).
  Proof.
    intros [c [y [-> [_ [_ H]]]]]. unfold ne61. cbn [app hd_ok]. apply negb_true_iff. apply N.eqb_neq. exact H.
  Qed.

  Lemma not_leaf : spl [33%N] [mkTok TNot [33%N]] ne61.
  Proof. apply fixed_leaf; [infixed|]. intros tail H. exact H. Qed.

  Lemma c_not r : Ce r -> Ce (FNot r).
  Proof.
    intros IH Hpr Hrp. cbn [pr_expr] in Hpr. change (rp_expr E (FNot r)) with (rp_expr E r) in Hrp.
    destruct (IH Hpr Hrp) as [IH1 IH2]. destruct (expr_head E ro HT r Hpr) as [Hh1 Hh2].
    split.
    - intros x ts Hx Ht. rewrite et_not in Hx. rewrite ek_not in Ht.
      apply bind_ok in Hx as [a [Ha Hx]]. apply bind_ok in Ht as [ta [Hta Ht]].
      injection Hx as <-. injection Ht as <-.
      apply (spl_cons1 33%N _ ne61); [apply not_leaf| |].
      + apply wrap_spl. apply IH1; assumption.
      + intros tail _. apply good_head_ne61. apply wrap_head. apply Hh1. exact Ha.
    - intros par x ts Hx Ht. rewrite ct_not in Hx. rewrite ck_not in Ht.
      apply bind_ok in Hx as [a [Ha Hx]]. apply bind_ok in Ht as [ta [Hta Ht]]. cbv zeta in Hx, Ht.
      assert (Hcore : spl (33%N :: a) (mkTok TNot [33%N] :: ta) DE).
      { apply (spl_cons1 33%N _ ne61); [apply not_leaf|apply (IH2 7%nat); assumption|].
        intros tail _. apply good_head_ne61. apply (Hh2 7%nat). exact Ha. }
      destruct (Nat.ltb 7 par); injection Hx as <-; injection Ht as <-; [|exact Hcore].
      apply any_DE. apply (paren_spl (33%N :: a) (mkTok TNot [33%N] :: ta)). exact Hcore.
  Qed.

  Lemma c_infix l o r : Ce l -> Ce r -> Ce (FInfix l o r).
  Proof.
    intros IHl IHr Hpr Hrp. cbn [pr_expr] in Hpr. apply andb_true_iff in Hpr as [Hpl Hpr].
    change (rp_expr E (FInfix l o r)) with (rp_expr E l && rp_expr E r) in Hrp.
    apply andb_true_iff in Hrp as [Hrl Hrr].
    destruct (IHl Hpl Hrl) as [IHl1 IHl2]. destruct (IHr Hpr Hrr) as [IHr1 IHr2].
    destruct (expr_head E ro HT l Hpl) as [Hhl1 Hhl2]. destruct (expr_head E ro HT r Hpr) as [Hhr1 Hhr2].
    assert (Hcmp : forall a b ta tb,
               expr_text E l = Ok a -> expr_text E r = Ok b -> expr_toks E l = Ok ta -> expr_toks E r = Ok tb ->
               spl (wrap_operand l a ++ Serialize.sp :: binop_text o ++ Serialize.sp :: wrap_operand r b)
                   (wrap_toks l ta ++ op_token o :: wrap_toks r tb) DE).
    { intros a b ta tb Ha Hb Hta Htb. apply infix_spl.
      - apply wrap_spl. apply IHl1; assumption.
      - apply wrap_spl. apply IHr1; assumption.
      - apply good_head_nonempty. apply wrap_head. apply Hhl1. exact Ha.
      - apply wrap_head. apply Hhr1. exact Hb. }
    split.
    - intros x ts Hx Ht. rewrite et_infix in Hx. rewrite ek_infix in Ht.
      apply bind_ok in Hx as [a [Ha Hx]]. apply bind_ok in Hx as [b [Hb Hx]].
      apply bind_ok in Ht as [ta [Hta Ht]]. apply bind_ok in Ht as [tb [Htb Ht]].
      destruct (is_logical o); injection Hx as <-; injection Ht as <-; [|apply Hcmp; assumption].
      apply any_DE. apply paren_spl. apply infix_spl; [apply IHl1; assumption|apply IHr1; assumption| |apply Hhr1; exact Hb].
      apply good_head_nonempty. apply Hhl1. exact Ha.
    - intros par x ts Hx Ht. destruct (is_logical o) eqn:El.
      + destruct o; try discriminate.
        * rewrite ct_and in Hx. rewrite ck_and in Ht.
          apply bind_ok in Hx as [a [Ha Hx]]. apply bind_ok in Hx as [b [Hb Hx]].
          apply bind_ok in Ht as [ta [Hta Ht]]. apply bind_ok in Ht as [tb [Htb Ht]]. cbv zeta in Hx, Ht.
          assert (Hcore : spl (a ++ [32; 38; 38; 32]%N ++ b) (ta ++ op_token BAnd :: tb) DE).
          { apply (infix_spl a b ta tb BAnd); [apply (IHl2 4%nat); assumption|apply (IHr2 4%nat); assumption| |apply (Hhr2 4%nat); exact Hb].
            apply good_head_nonempty. apply (Hhl2 4%nat). exact Ha. }
          destruct (Nat.leb 4 par); injection Hx as <-; injection Ht as <-; [apply any_DE; apply paren_spl; exact Hcore|exact Hcore].
        * rewrite ct_or in Hx. rewrite ck_or in Ht.
          apply bind_ok in Hx as [a [Ha Hx]]. apply bind_ok in Hx as [b [Hb Hx]].
          apply bind_ok in Ht as [ta [Hta Ht]]. apply bind_ok in Ht as [tb [Htb Ht]]. cbv zeta in Hx, Ht.
          assert (Hcore : spl (a ++ [32; 124; 124; 32]%N ++ b) (ta ++ op_token BOr :: tb) DE).
          { apply (infix_spl a b ta tb BOr); [apply (IHl2 3%nat); assumption|apply (IHr2 3%nat); assumption| |apply (Hhr2 3%nat); exact Hb].
            apply good_head_nonempty. apply (Hhl2 3%nat). exact Ha. }
          destruct (Nat.leb 3 par); injection Hx as <-; injection Ht as <-; [apply any_DE; apply paren_spl; exact Hcore|exact Hcore].
      + rewrite (ct_cmp E l o r par El) in Hx. rewrite (ck_cmp E l o r par El) in Ht.
        apply bind_ok in Hx as [a [Ha Hx]]. apply bind_ok in Hx as [b [Hb Hx]].
        apply bind_ok in Ht as [ta [Hta Ht]]. apply bind_ok in Ht as [tb [Htb Ht]]. cbv zeta in Hx, Ht.
        destruct (Nat.leb 7 par); injection Hx as <-; injection Ht as <-;
          [apply any_DE; apply paren_spl; apply Hcmp; assumption|apply Hcmp; assumption].
  Qed.

  (* identifiers followed by segments *)
  Lemma ident_segs k t p xs tss :
    In (k, t) (ident_tokens E) -> segs_text E p = Ok xs -> spl xs tss anyD ->
    spl (t ++ xs) (mkTok k t :: tss) DE.
  Proof.
    intros Hin Hxs Hs. change (mkTok k t :: tss) with ([mkTok k t] ++ tss).
    apply (spl_app E t [mkTok k t] nonsign_head xs tss DE); [apply ident_leaf; exact Hin|apply any_DE; exact Hs|].
    intros tail Hd. apply (segs_text_nonsign E p xs tail Hxs). apply DE_nonsign. exact Hd.
  Qed.

  Lemma c_self p : Cp p -> Ce (FSelf p).
  Proof.
    intros IH Hpr Hrp. apply Ce_leaf; [reflexivity|]. cbn [pr_expr] in Hpr.
    change (rp_expr E (FSelf p)) with (rp_segs E p) in Hrp.
    intros x ts Hx Ht. rewrite et_self in Hx. rewrite ek_self in Ht.
    apply bind_ok in Hx as [xs [Hxs Hx]]. apply bind_ok in Ht as [tss [Htss Ht]].
    injection Hx as <-. injection Ht as <-.
    apply (ident_segs TSelf _ p); [cbn; tauto|exact Hxs|apply IH; assumption].
  Qed.

  Lemma c_root fake p : Cp p -> Ce (FRoot fake p).
  Proof.
    intros IH Hpr Hrp. apply Ce_leaf; [reflexivity|]. cbn [pr_expr] in Hpr.
    change (rp_expr E (FRoot fake p)) with (rp_segs E p) in Hrp.
    intros x ts Hx Ht. rewrite et_root in Hx. rewrite ek_root in Ht.
    apply bind_ok in Hx as [xs [Hxs Hx]]. apply bind_ok in Ht as [tss [Htss Ht]].
    injection Hx as <-. injection Ht as <-.
    destruct fake; [apply (ident_segs TFakeRoot _ p)|apply (ident_segs TRoot _ p)];
      try (cbn; tauto); try exact Hxs; apply IH; assumption.
  Qed.

  Lemma c_ctx p : Cp p -> Ce (FCtx p).
  Proof.
    intros IH Hpr Hrp. apply Ce_leaf; [reflexivity|]. cbn [pr_expr] in Hpr.
    change (rp_expr E (FCtx p)) with (rp_segs E p) in Hrp.
    intros x ts Hx Ht. rewrite et_ctx in Hx. rewrite ek_ctx in Ht.
    apply bind_ok in Hx as [xs [Hxs Hx]]. apply bind_ok in Ht as [tss [Htss Ht]].
    injection Hx as <-. injection Ht as <-.
    apply (ident_segs TFilterCtx _ p); [cbn; tauto|exact Hxs|apply IH; assumption].
  Qed.

  Definition nsp (tail : ustr) : Prop := hd_ok (fun c => negb (py_isspace c)) tail = true.

  Lemma good_head_nsp x tail : good_head x -> nsp (x ++ tail).
  Proof. intros [c [y [-> [H _]]]]. unfold nsp. cbn [app hd_ok]. rewrite H. reflexivity. Qed.

  Lemma c_func name args : Ces args -> Ce (FFunc name args).
  Proof.
    intros IH Hpr Hrp. apply Ce_leaf; [reflexivity|]. cbn [pr_expr] in Hpr. apply andb_true_iff in Hpr as [Hn Hpa].
    change (rp_expr E (FFunc name args)) with (rp_args E args) in Hrp.
    intros x ts Hx Ht. rewrite et_func in Hx. rewrite ek_func in Ht.
    apply bind_ok in Hx as [xs [Hxs Hx]]. apply bind_ok in Ht as [tss [Htss Ht]].
    injection Hx as <-. injection Ht as <-.
    pose proof (join_spl xs tss (IH Hpa (rp_args_exprs args Hrp) xs tss Hxs Htss)) as HJ.
    replace (name ++ 40%N :: join_sep [44; 32]%N xs ++ [41%N])
      with ((name ++ [40%N]) ++ (join_sep [44; 32]%N xs ++ [41%N])) by (rewrite <- app_assoc; reflexivity).
    change (mkTok TFunction name :: sep_by [comma] tss ++ [rparen]) with ([mkTok TFunction name] ++ (sep_by [comma] tss ++ [rparen])).
    apply (spl_app E (name ++ [40%N]) [mkTok TFunction name] nsp).
    - apply (spl_leaf E (XFunc name [])); [apply lo_func; apply lo_nil|split; [exact Hn|reflexivity]|intros tail H; exact H].
    - apply (spl_app E _ _ DE [41%N] [rparen] DE); [exact HJ|apply rpar_leaf|intros tail _; apply DE_rp].
    - intros tail _. rewrite <- app_assoc.
      destruct (exprs_join_head E ro HT args xs Hpa Hxs) as [-> | Hh]; [reflexivity|apply good_head_nsp; exact Hh].
  Qed.

  Lemma c_enil : Ces ENil.
  Proof. intros _ _ xs tss Hx Ht. injection Hx as <-. injection Ht as <-. constructor. Qed.

  Lemma c_econs e r : Ce e -> Ces r -> Ces (ECons e r).
  Proof.
    intros IHe IHr Hpr Hrp xs tss Hx Ht. cbn [pr_exprs] in Hpr. cbn [rp_exprs] in Hrp.
    apply andb_true_iff in Hpr as [Hpe Hpr]. apply andb_true_iff in Hrp as [Hre Hrr].
    rewrite est_cons in Hx. rewrite esk_cons in Ht.
    apply bind_ok in Hx as [x [Hxe Hx]]. apply bind_ok in Hx as [xs' [Hxr Hx]].
    apply bind_ok in Ht as [t [Hte Ht]]. apply bind_ok in Ht as [tss' [Htr Ht]].
    injection Hx as <-. injection Ht as <-. constructor; [|apply IHr; assumption].
    split; [apply (proj1 (IHe Hpe Hre)); assumption|].
    apply good_head_nonempty. apply (proj1 (expr_head E ro HT e Hpe)). exact Hxe.
  Qed.

  (* selectors *)
  Lemma c_sname k : Cs (SName k).
  Proof.
    intros _ _ x ts Hx Ht. injection Hx as <-. injection Ht as <-. split; [apply string_leaf|].
    rewrite canonical_string_body. discriminate.
  Qed.

  Lemma c_sindex i : Cs (SIndex i).
  Proof.
    intros _ _ x ts Hx Ht. injection Hx as <-. injection Ht as <-. split; [apply int_leaf|].
    apply good_head_nonempty. apply dec_shape_head. apply str_of_Z_shape.
  Qed.

  Lemma c_sslice a b c : Cs (SSlice a b c).
  Proof.
    intros _ _ x ts Hx Ht. rewrite slice_sel_text in Hx. injection Hx as <-. injection Ht as <-.
    split; [|unfold slice_text; intros H; apply app_eq_nil in H as [_ H]; discriminate].
    apply (spl_leaf E (XSlice (opt_text a) [] [] (opt_text b) [] []
                              (match c with Some z => str_of_Z z | None => [49%N] end))).
    - apply lo_slice. apply lo_nil.
    - cbn [lexeme_ok]. repeat split; try reflexivity.
      + destruct a as [z|]; [right; exists z; reflexivity|left; reflexivity].
      + destruct b as [z|]; [right; exists z; reflexivity|left; reflexivity].
      + destruct c as [z|]; [exists z; reflexivity|exists 1%Z; reflexivity].
    - intros tail Hd. apply DE_udigit. exact Hd.
  Qed.

  Lemma c_swild : Cs SWild.
  Proof.
    intros _ _ x ts Hx Ht. injection Hx as <-. injection Ht as <-. split; [|discriminate].
    apply fixed_leaf; [infixed|reflexivity].
  Qed.

  Lemma c_skeys : Cs SKeys.
  Proof.
    intros _ _ x ts Hx Ht. injection Hx as <-. injection Ht as <-. split.
    - apply (spl_weaken E _ _ nonsign_head); [apply DE_nonsign|]. apply ident_leaf. cbn; tauto.
    - apply good_head_nonempty. apply (ident_head0 E TKeys _ HT (base_keys E)).
  Qed.

  Lemma c_sfilter e : Ce e -> Cs (SFilter e).
  Proof.
    intros IH Hpr Hrp x ts Hx Ht. cbn [pr_sel] in Hpr. change (rp_sel E (SFilter e)) with (rp_expr E e) in Hrp.
    rewrite st_filter in Hx. rewrite sk_filter in Ht.
    apply bind_ok in Hx as [a [Ha Hx]]. apply bind_ok in Ht as [ta [Hta Ht]].
    injection Hx as <-. injection Ht as <-. split; [|discriminate].
    apply (spl_cons1 63%N _ anyD); [apply fixed_leaf; [infixed|reflexivity]| |intros; exact I].
    apply (proj2 (IH Hpr Hrp) 1%nat); assumption.
  Qed.

  Lemma c_lnil : Css LNil.
  Proof. intros _ _ xs tss Hx Ht. injection Hx as <-. injection Ht as <-. constructor. Qed.

  Lemma c_lcons s r : Cs s -> Css r -> Css (LCons s r).
  Proof.
    intros IHs IHr Hpr Hrp xs tss Hx Ht. cbn [pr_sels] in Hpr.
    change (rp_sels E (LCons s r)) with (rp_sel E s && rp_sels E r) in Hrp.
    apply andb_true_iff in Hpr as [Hps Hpr]. apply andb_true_iff in Hrp as [Hrs Hrr].
    rewrite sst_cons in Hx. rewrite ssk_cons in Ht.
    apply bind_ok in Hx as [x [Hxe Hx]]. apply bind_ok in Hx as [xs' [Hxr Hx]].
    apply bind_ok in Ht as [t [Hte Ht]]. apply bind_ok in Ht as [tss' [Htr Ht]].
    injection Hx as <-. injection Ht as <-. constructor; [apply IHs; assumption|apply IHr; assumption].
  Qed.

  (* segments *)
  Lemma c_gsel s : Cs s -> Cg (GSel s).
  Proof.
    intros IH Hpr Hrp x ts Hx Ht. cbn [pr_seg] in Hpr.
    change (rp_seg E (GSel s)) with (bare_form s && rp_sel E s) in Hrp. apply andb_true_iff in Hrp as [Hb Hrp].
    destruct s as [k|i|a b c| | |e]; try discriminate Hb.
    - injection Hx as <-. injection Ht as <-.
      apply (bracket_spl (canonical_string k) (tk1 TSQ (TokPrint.canonical_body k))). apply string_leaf.
    - rewrite gt_slice in Hx. rewrite gk_slice in Ht.
      apply bind_ok in Hx as [y [Hy Hx]]. apply bind_ok in Ht as [ty [Hty Ht]].
      injection Hx as <-. injection Ht as <-. apply bracket_spl. apply (proj1 (IH Hpr Hrp y ty Hy Hty)).
    - injection Hx as <-. injection Ht as <-.
      apply (bracket_spl [42%N] (tk1 TWild [42%N])). apply fixed_leaf; [infixed|reflexivity].
    - injection Hx as <-. injection Ht as <-.
      apply (bracket_spl (e_keys E) (tk1 TKeys (e_keys E))). apply (proj1 (c_skeys eq_refl eq_refl _ _ eq_refl eq_refl)).
  Qed.

  Lemma c_gdescent : Cg GDescent.
  Proof.
    intros _ _ x ts Hx Ht. injection Hx as <-. injection Ht as <-. apply fixed_leaf; [infixed|reflexivity].
  Qed.

  Lemma c_glist items : Css items -> Cg (GList items).
  Proof.
    intros IH Hpr Hrp x ts Hx Ht. cbn [pr_seg] in Hpr. change (rp_seg E (GList items)) with (rp_sels E items) in Hrp.
    rewrite gt_list in Hx. rewrite gk_list in Ht.
    apply bind_ok in Hx as [xs [Hxs Hx]]. apply bind_ok in Ht as [tss [Htss Ht]].
    injection Hx as <-. injection Ht as <-. apply bracket_spl. apply join_spl. apply IH; assumption.
  Qed.

  Lemma c_pnil : Cp PNil.
  Proof. intros _ _ x ts Hx Ht. injection Hx as <-. injection Ht as <-. apply spl_nil. Qed.

  Lemma c_pcons g r : Cg g -> Cp r -> Cp (PCons g r).
  Proof.
    intros IHg IHr Hpr Hrp x ts Hx Ht. cbn [pr_segs] in Hpr.
    change (rp_segs E (PCons g r)) with (rp_seg E g && rp_segs E r) in Hrp.
    apply andb_true_iff in Hpr as [Hpg Hpr]. apply andb_true_iff in Hrp as [Hrg Hrr].
    rewrite pt_cons in Hx. rewrite pk_cons in Ht.
    apply bind_ok in Hx as [xg [Hxg Hx]]. apply bind_ok in Hx as [xr [Hxr Hx]].
    apply bind_ok in Ht as [tg [Htg Ht]]. apply bind_ok in Ht as [tr [Htr Ht]].
    injection Hx as <-. injection Ht as <-.
    apply (spl_app E xg tg anyD xr tr anyD); [apply IHg; assumption|apply IHr; assumption|intros; exact I].
  Qed.

  Theorem canon_all :
    (forall e, Ce e) /\ (forall es, Ces es) /\ (forall s, Cs s) /\ (forall l, Css l) /\ (forall g, Cg g) /\ (forall p, Cp p).
  Proof.
    apply (syntax_mutind Ce Ces Cs Css Cg Cp).
    - exact c_nil.
    - exact c_undefined.
    - exact c_bool.
    - exact c_int.
    - exact c_float.
    - exact c_str.
    - exact c_regex.
    - exact c_list.
    - exact c_not.
    - intros; apply c_infix; assumption.
    - exact c_self.
    - exact c_root.
    - exact c_ctx.
    - exact c_key.
    - exact c_func.
    - exact c_enil.
    - intros; apply c_econs; assumption.
    - exact c_sname.
    - exact c_sindex.
    - exact c_sslice.
    - exact c_swild.
    - exact c_skeys.
    - exact c_sfilter.
    - exact c_lnil.
    - intros; apply c_lcons; assumption.
    - exact c_gsel.
    - exact c_gdescent.
    - exact c_glist.
    - exact c_pnil.
    - intros; apply c_pcons; assumption.
  Qed.

  (* paths and compound queries *)
  Lemma path_spl p x ts :
    pr_segs ro (p_segs p) = true -> rp_segs E (p_segs p) = true ->
    path_text E p = Ok x -> path_toks E p = Ok ts -> spl x ts nonsign_head /\ good_head x.
  Proof.
    intros Hpr Hrp Hx Ht. unfold path_text in Hx. unfold path_toks in Ht.
    apply bind_ok in Hx as [xs [Hxs Hx]]. apply bind_ok in Ht as [tss [Htss Ht]].
    injection Hx as <-. injection Ht as <-.
    destruct canon_all as [_ [_ [_ [_ [_ Hp]]]]].
    pose proof (Hp (p_segs p) Hpr Hrp xs tss Hxs Htss) as Hs.
    assert (G : forall k t, In (k, t) (ident_tokens E) -> spl (t ++ xs) (mkTok k t :: tss) nonsign_head).
    { intros k t Hin. change (mkTok k t :: tss) with ([mkTok k t] ++ tss).
      apply (spl_app E t [mkTok k t] nonsign_head xs tss nonsign_head);
        [apply ident_leaf; exact Hin|apply (spl_weaken E _ _ anyD); [intros; exact I|exact Hs]|].
      intros tail Hd. apply (segs_text_nonsign E (p_segs p) xs tail Hxs Hd). }
    destruct (p_fake p).
    - split; [apply G; cbn; tauto|apply (ident_head E TFakeRoot _ _ HT (base_fake E))].
    - split; [apply G; cbn; tauto|apply (ident_head E TRoot _ _ HT (base_root E))].
  Qed.

  Lemma rest_spl l : forall x1 t1 x ts,
    forallb (fun op => pr_segs ro (p_segs (snd op))) l = true ->
    forallb (fun op => rp_segs E (p_segs (snd op))) l = true ->
    spl x1 t1 nonsign_head -> x1 <> [] ->
    rest_text E l = Ok x -> rest_toks E l = Ok ts -> spl (x1 ++ x) (t1 ++ ts) nonsign_head.
  Proof.
    induction l as [|[o p] l' IH]; intros x1 t1 x ts Hpr Hrp H1 Hne Hx Ht; cbn [rest_text rest_toks] in Hx, Ht.
    - injection Hx as <-. injection Ht as <-. rewrite !app_nil_r. exact H1.
    - cbn [forallb snd] in Hpr, Hrp.
      apply andb_true_iff in Hpr as [Hp1 Hp2]. apply andb_true_iff in Hrp as [Hr1 Hr2].
      apply bind_ok in Hx as [xp [Hxp Hx]]. apply bind_ok in Hx as [xs [Hxs Hx]].
      apply bind_ok in Ht as [tp [Htp Ht]]. apply bind_ok in Ht as [tss [Htss Ht]].
      injection Hx as <-. injection Ht as <-.
      destruct (path_spl p xp tp Hp1 Hr1 Hxp Htp) as [Hsp Hhp].
      assert (G : forall k t, In (k, t) (ident_tokens E) -> In (k, t) (env_base E) ->
                  spl ((x1 ++ 32%N :: t ++ 32%N :: xp) ++ xs) ((t1 ++ mkTok k t :: tp) ++ tss) nonsign_head).
      { intros k t Hin Hb. apply IH; try assumption.
        - apply (spl_space E x1 t1 nonsign_head (t ++ 32%N :: xp) (mkTok k t :: tp) nonsign_head); try assumption.
          + change (mkTok k t :: tp) with ([mkTok k t] ++ tp).
            apply (spl_space E t [mkTok k t] nonsign_head xp tp nonsign_head);
              [apply ident_leaf; exact Hin|exact Hsp| | |intros; reflexivity].
            * apply good_head_nonempty. rewrite <- (app_nil_r t). apply (ident_head E k t [] HT Hb).
            * apply good_head_nonempty. exact Hhp.
          + apply good_head_nonempty. apply (ident_head E k t _ HT Hb).
          + intros; reflexivity.
        - intros H. apply app_eq_nil in H as [_ H]. discriminate H. }
      unfold Serialize.sp.
      destruct o.
      + specialize (G TUnion (e_union E)). rewrite <- !app_assoc in G. cbn [app] in G. rewrite <- !app_assoc in G.
        cbn [app] in G. apply G; [cbn; tauto|apply base_union].
      + specialize (G TIntersect (e_intersection E)). rewrite <- !app_assoc in G. cbn [app] in G. rewrite <- !app_assoc in G.
        cbn [app] in G. apply G; [cbn; tauto|apply base_inter].
  Qed.

  Theorem query_spl q t ts :
    printable ro q = true -> reparsable E q = true ->
    query_text E q = Ok t -> query_toks E q = Ok ts -> spl t ts nonsign_head.
  Proof.
    unfold printable, reparsable, query_text, query_toks. intros Hpr Hrp Hx Ht.
    apply andb_true_iff in Hpr as [Hp1 Hp2]. apply andb_true_iff in Hrp as [Hr1 Hr2].
    apply bind_ok in Hx as [xp [Hxp Hx]]. apply bind_ok in Hx as [xs [Hxs Hx]].
    apply bind_ok in Ht as [tp [Htp Ht]]. apply bind_ok in Ht as [tss [Htss Ht]].
    injection Hx as <-. injection Ht as <-.
    destruct (path_spl (q_first q) xp tp Hp1 Hr1 Hxp Htp) as [Hsp Hhp].
    apply (rest_spl (q_rest q)); try assumption. apply good_head_nonempty. exact Hhp.
  Qed.
End CanonCases.

(* (1) the canonical text of a printable, reparsable query is one of its free spellings: the marked
   query is the fully bracketed one, every separator is the printer's own *)
Theorem query_text_spells_as :
  forall (E : env) re_ok (q : query) (t : ustr) (ts : list token),
    tokens_ok E = true -> printable re_ok q = true -> reparsable E q = true ->
    query_text E q = Ok t -> query_toks E q = Ok ts -> spells_as E q t ts.
Proof.
  intros E ro q t ts HT Hpr Hrp Hx Ht.
  destruct (query_spl E ro HT q t ts Hpr Hrp Hx Ht) as (items & _ & Hr & Hl & _ & Hc).
  exists (bracketed q), ts, items, []. split; [apply bracketed_idem|].
  split; [rewrite sh_query_toks_bracketed; exact Ht|]. split; [exact Hl|].
  assert (Hck : chain_ok E items []) by (apply chain_ok_open; apply Hc; exact I).
  split; [exact Hck|]. split; [symmetry; exact Hr|].
  rewrite <- (lex_chain E HT items [] Hck), Hr. symmetry.
  apply (lex_print_env E ro q t ts HT Hpr Hrp Hx Ht).
Qed.

Theorem query_text_spells :
  forall (E : env) re_ok (q : query) (t : ustr),
    tokens_ok E = true -> printable re_ok q = true -> reparsable E q = true ->
    query_text E q = Ok t -> spells E q t.
Proof.
  intros E ro q t HT Hpr Hrp Hx.
  destruct (query_toks E q) as [ts|e] eqn:Ht.
  - exists ts. apply (query_text_spells_as E ro q t ts HT Hpr Hrp Hx Ht).
  - destruct (text_toks_ok E q t Hx) as [ts H]. rewrite Ht in H. discriminate H.
Qed.

(* the C10/C17 round trip (lex_print_env followed by parse_print) is the instance of free_spelling at the
   canonical text *)
Corollary canonical_round_trip :
  forall (E : env) re_ok (q : query) (t : ustr),
    tokens_ok E = true -> e_well_typed E = true -> e_unicode_escape E = true ->
    c10_domain E re_ok q = true -> query_text E q = Ok t ->
    exists q', compile E re_ok t = Ok q' /\ norm_query q' = norm_query q.
Proof.
  intros E ro q t HT WT UE HD Hx.
  destruct (c10_domain_parts E ro q HD) as [_ [Hpr [Hrp _]]].
  apply (free_spelling E ro q t HT WT UE HD). apply (query_text_spells E ro q t HT Hpr Hrp Hx).
Qed.
