(* RegexParseProofs.v — the pattern parser of rt/Regex.v on the text of the dialect (spec/RegexText.v):
   parse_regex (regex_text x) = POk r [] for an r with the language of x. *)
From Coq Require Import NArith List Bool Lia.
From JP Require Import Base PyStr Regex RegexSem RegexText RegexProofs.
Import ListNotations.
Local Open Scope N_scope.

(* ---------------------------------------------------------------------- *)
(* the parser's local functions, named *)

Definition pquant (q : N) (a : re) : re :=
  if N.eqb q 42 then RStar a else if N.eqb q 43 then RSeq a (RStar a) else RAlt REps a.

Definition is_q (q : N) : bool := N.eqb q 42 || N.eqb q 43 || N.eqb q 63.

Definition patom (f : nat) (dotall : bool) (c : N) (s' : ustr) : parsed re :=
  if N.eqb c 40 then
    let body := match s' with
                | 63%N :: 58%N :: s'' => Some s''
                | 63%N :: _ => None
                | _ => Some s'
                end in
    match body with
    | None => PUnsupported
    | Some b =>
        match parse_alt f dotall b with
        | POk r (41%N :: rest) => POk r rest
        | POk _ _ => PInvalid
        | PInvalid => PInvalid
        | PUnsupported => PUnsupported
        end
    end
  else if N.eqb c 91 then
    match s' with
    | 94%N :: s'' => match parse_class (S (length s'')) s'' [] with
                     | POk rs rest => POk (RSet true rs) rest
                     | PInvalid => PInvalid | PUnsupported => PUnsupported end
    | _ => match parse_class (S (length s')) s' [] with
           | POk rs rest => POk (RSet false rs) rest
           | PInvalid => PInvalid | PUnsupported => PUnsupported end
    end
  else if N.eqb c 46 then POk (any_char dotall) s'
  else if N.eqb c 92 then
    match s' with
    | e :: s'' => if is_alnum e then PUnsupported else POk (RSet false [(e, e)]) s''
    | [] => PInvalid
    end
  else if N.eqb c 42 || N.eqb c 43 || N.eqb c 63 then PInvalid
  else if N.eqb c 94 || N.eqb c 36 || N.eqb c 123 || N.eqb c 125 then PUnsupported
  else POk (RSet false [(c, c)]) s'.

Definition pseq (f : nat) (dotall : bool) : nat -> ustr -> re -> parsed re :=
  fix parse_seq (g : nat) (s : ustr) (acc : re) : parsed re :=
    match g with
    | O => PInvalid
    | S g' =>
        match s with
        | [] => POk acc []
        | c :: s' =>
            if N.eqb c 124 || N.eqb c 41 then POk acc s
            else
              match patom f dotall c s' with
              | PInvalid => PInvalid
              | PUnsupported => PUnsupported
              | POk a rest =>
                  match rest with
                  | q :: rest' =>
                      if N.eqb q 42 || N.eqb q 43 || N.eqb q 63 then
                        match rest' with
                        | q2 :: _ => if N.eqb q2 42 || N.eqb q2 43 || N.eqb q2 63 then PUnsupported
                                     else parse_seq g' rest' (RSeq acc (pquant q a))
                        | [] => parse_seq g' rest' (RSeq acc (pquant q a))
                        end
                      else if N.eqb q 123 then PUnsupported
                      else parse_seq g' rest (RSeq acc a)
                  | [] => POk (RSeq acc a) []
                  end
              end
        end
    end.

Lemma parse_alt_S f dotall s :
  parse_alt (S f) dotall s =
  match pseq f dotall (S (length s)) s REps with
  | POk r (124%N :: rest) =>
      match parse_alt f dotall rest with
      | POk r2 rest2 => POk (RAlt r r2) rest2
      | PInvalid => PInvalid
      | PUnsupported => PUnsupported
      end
  | other => other
  end.
Proof. reflexivity. Qed.

Lemma pseq_S f dotall g c s' acc :
  pseq f dotall (S g) (c :: s') acc =
  if N.eqb c 124 || N.eqb c 41 then POk acc (c :: s')
  else match patom f dotall c s' with
       | PInvalid => PInvalid
       | PUnsupported => PUnsupported
       | POk a rest =>
           match rest with
           | q :: rest' =>
               if is_q q then
                 match rest' with
                 | q2 :: _ => if is_q q2 then PUnsupported else pseq f dotall g rest' (RSeq acc (pquant q a))
                 | [] => pseq f dotall g rest' (RSeq acc (pquant q a))
                 end
               else if N.eqb q 123 then PUnsupported
               else pseq f dotall g rest (RSeq acc a)
           | [] => POk (RSeq acc a) []
           end
       end.
Proof. reflexivity. Qed.

Lemma pseq_nil f dotall g acc : pseq f dotall (S g) [] acc = POk acc [].
Proof. reflexivity. Qed.

(* ---------------------------------------------------------------------- *)
(* the expression the parser builds for a syntax tree *)

Section Built.
  Variable dotall : bool.

  Fixpoint built_alt (x : ralt) : re :=
    match x with
    | Alt1 s => built_seq REps s
    | AltCons s r => RAlt (built_seq REps s) (built_alt r)
    end
  with built_seq (acc : re) (x : rseq) : re :=
    match x with
    | SNil => acc
    | SCons a q r => built_seq (RSeq acc (quant_re q (built_atom a))) r
    end
  with built_atom (x : ratom) : re :=
    match x with
    | AChar c _ => re_char c
    | ADot => any_char dotall
    | AClass neg items => RSet neg (rev (map item_range items))
    | AGroup _ b => built_alt b
    end.
End Built.

(* ---------------------------------------------------------------------- *)
(* characters *)

Lemma one_of_false c l : one_of c l = false -> forall d, In d l -> c <> d.
Proof.
  unfold one_of. intros H d Hin ->. assert (existsb (N.eqb d) l = true); [|congruence].
  apply existsb_exists. exists d. split; [exact Hin|apply N.eqb_refl].
Qed.

Lemma raw_ok_ne c d :
  raw_ok c = true -> In d [124; 41; 40; 91; 46; 92; 42; 43; 63; 94; 36; 123; 125] -> c <> d.
Proof. unfold raw_ok. rewrite negb_true_iff. intros H. exact (one_of_false c _ H d). Qed.

Lemma class_raw_ok_ne c d : class_raw_ok c = true -> In d [93; 92; 91] -> c <> d.
Proof. unfold class_raw_ok. rewrite negb_true_iff. intros H. exact (one_of_false c _ H d). Qed.

Lemma class_hi_ok_ne c d : class_hi_ok c = true -> In d [93; 92] -> c <> d.
Proof. unfold class_hi_ok. rewrite negb_true_iff. intros H. exact (one_of_false c _ H d). Qed.

Lemma eqb_ne c d : c <> d -> N.eqb c d = false.
Proof. intros H. apply N.eqb_neq. exact H. Qed.

(* a character with which no quantifier, brace, bar or closing parenthesis begins *)
Definition plain_start (c : N) : Prop := is_q c = false /\ c <> 123 /\ c <> 124 /\ c <> 41.

Lemma plain_start_raw c : raw_ok c = true -> plain_start c.
Proof.
  intros H. pose proof (raw_ok_ne c) as Hn. unfold plain_start, is_q.
  rewrite (eqb_ne c 42), (eqb_ne c 43), (eqb_ne c 63) by (apply Hn; [exact H|cbn; tauto]).
  repeat split; try reflexivity; apply Hn; try exact H; cbn; tauto.
Qed.

Lemma plain_start_const c : In c [92; 46; 91; 40] -> plain_start c.
Proof.
  cbn [In]. intros H. repeat (destruct H as [<-|H]; [repeat split; try reflexivity; discriminate|]). contradiction H.
Qed.

Lemma atom_head a : valid_atom a = true -> exists c t, atom_text a = c :: t /\ plain_start c.
Proof.
  destruct a as [c [|]| |neg items|cap b]; cbn [valid_atom atom_text char_text]; intros H.
  - exists 92, [c]. split; [reflexivity|apply plain_start_const; cbn; tauto].
  - exists c, []. split; [reflexivity|apply plain_start_raw; exact H].
  - exists 46, []. split; [reflexivity|apply plain_start_const; cbn; tauto].
  - eexists 91, _. split; [reflexivity|apply plain_start_const; cbn; tauto].
  - eexists 40, _. split; [reflexivity|apply plain_start_const; cbn; tauto].
Qed.

Definition stop (rest : ustr) : Prop := match rest with [] => True | c :: _ => c = 124 \/ c = 41 end.
(* no quantifier and no brace comes next *)
Definition nq (s : ustr) : Prop := match s with [] => True | c :: _ => is_q c = false /\ c <> 123 end.

Lemma stop_nq rest : stop rest -> nq rest.
Proof. destruct rest as [|c t]; [auto|]. intros [->| ->]; split; try reflexivity; discriminate. Qed.

Lemma seq_head sq rest : valid_seq sq = true -> stop rest -> nq (seq_text sq ++ rest).
Proof.
  destruct sq as [|a q r]; cbn [valid_seq seq_text]; intros H Hs; [apply stop_nq; exact Hs|].
  apply andb_true_iff in H as [Ha _]. destruct (atom_head a Ha) as (c & t & -> & Hq & H123 & _).
  cbn [app nq]. auto.
Qed.

Lemma alt_head x rest : valid_alt x = true -> nq (alt_text x ++ 41 :: rest).
Proof.
  destruct x as [s|s r]; cbn [valid_alt alt_text]; intros H.
  - apply seq_head; [exact H|right; reflexivity].
  - apply andb_true_iff in H as [H _]. rewrite <- app_assoc. apply seq_head; [exact H|left; reflexivity].
Qed.

Lemma seq_text_nil sq : valid_seq sq = true -> seq_text sq = [] -> sq = SNil.
Proof.
  destruct sq as [|a q r]; [reflexivity|]. cbn [valid_seq seq_text]. intros H E.
  apply andb_true_iff in H as [Ha _]. destruct (atom_head a Ha) as (c & t & Et & _). rewrite Et in E. discriminate E.
Qed.

(* ---------------------------------------------------------------------- *)
(* bracket classes *)

Lemma item_head i :
  exists d t, item_text i = d :: t /\ (raw_start i = Some d \/ (raw_start i = None /\ d = 92)).
Proof.
  destruct i as [c [|]|lo [|] hi]; cbn [item_text char_text raw_start app]; eexists _, _; (split; [reflexivity|]); auto.
Qed.

(* after a single character: a "-" comes next only as the last character of the class *)
Lemma class_next items rest :
  valid_items true items = true ->
  exists d t, flat_map item_text items ++ 93 :: rest = d :: t /\ (d = 45 -> exists t', t = 93 :: t').
Proof.
  destruct items as [|i items]; [intros _; exists 93, rest; split; [reflexivity|discriminate]|].
  cbn [valid_items flat_map]. intros H. apply andb_true_iff in H as [H _]. apply andb_true_iff in H as [_ Hc].
  rewrite andb_true_r in Hc. unfold starts_with in Hc.
  destruct i as [c [|]|lo [|] hi]; cbn [item_text char_text raw_start app] in *.
  - eexists 92, _. split; [reflexivity|discriminate].
  - eexists c, _. split; [reflexivity|]. intros ->. change (N.eqb 45 45) with true in Hc. cbv iota in Hc.
    destruct items; [|discriminate Hc]. eexists. reflexivity.
  - eexists 92, _. split; [reflexivity|discriminate].
  - eexists lo, _. split; [reflexivity|]. intros ->. change (N.eqb 45 45) with true in Hc. discriminate Hc.
Qed.

(* the look-ahead of parse_class after a single character does not see a range *)
Lemma no_range_ahead (A : Type) items rest (x : N -> ustr -> A) (y : A) :
  valid_items true items = true ->
  match flat_map item_text items ++ 93 :: rest with
  | d :: e :: s'' => if N.eqb d 45 && negb (N.eqb e 93) then x e s'' else y
  | _ => y
  end = y.
Proof.
  intros Hv. destruct (class_next items rest Hv) as (d & t & -> & Hd).
  destruct t as [|e s'']; [reflexivity|]. destruct (N.eqb_spec d 45) as [E|E]; [|reflexivity].
  destruct (Hd E) as [t' Et]. injection Et as -> _. reflexivity.
Qed.

Lemma parse_class_items items : forall p fuel acc rest,
  valid_items p items = true -> (length (flat_map item_text items) < fuel)%nat ->
  (items <> [] \/ acc <> []) ->
  parse_class fuel (flat_map item_text items ++ 93 :: rest) acc = POk (rev (map item_range items) ++ acc) rest.
Proof.
  induction items as [|i items IH]; intros p fuel acc rest Hv Hf Hne.
  - destruct fuel as [|f]; [cbn in Hf; lia|]. cbn [flat_map app parse_class]. change (N.eqb 93 93) with true. cbv iota.
    destruct acc; [destruct Hne as [H|H]; contradiction H; reflexivity|reflexivity].
  - cbn [valid_items] in Hv. apply andb_true_iff in Hv as [Hv Hr]. apply andb_true_iff in Hv as [Hi _].
    cbn [flat_map map rev] in *. rewrite app_length in Hf. rewrite <- !app_assoc. cbn [app].
    assert (Hgoal : forall f', (length (flat_map item_text items) < f')%nat ->
              parse_class f' (flat_map item_text items ++ 93 :: rest) (item_range i :: acc) =
              POk (rev (map item_range items) ++ [item_range i] ++ acc) rest).
    { intros f' Hf'. apply (IH (is_single i)); [exact Hr|exact Hf'|right; discriminate]. }
    destruct i as [c [|]|lo [|] hi]; cbn [item_text char_text valid_item item_range length is_single app] in *.
    + (* \c *)
      destruct fuel as [|f]; [lia|]. cbn [app parse_class].
      change (N.eqb 92 93) with false. change (N.eqb 92 92) with true. cbv iota.
      unfold esc_ok in Hi. apply negb_true_iff in Hi. rewrite Hi.
      rewrite (no_range_ahead _ items rest _ _ Hr). apply (Hgoal f). lia.
    + (* c *)
      pose proof (class_raw_ok_ne c) as Hn.
      destruct fuel as [|f]; [lia|]. cbn [app]. cbn [parse_class].
      rewrite (eqb_ne c 93), (eqb_ne c 92), (eqb_ne c 91) by (apply Hn; [exact Hi|cbn; tauto]).
      rewrite (no_range_ahead _ items rest _ _ Hr). apply (Hgoal f). lia.
    + (* \lo-hi *)
      apply andb_true_iff in Hi as [Hi Hle]. apply andb_true_iff in Hi as [Hlo Hhi].
      pose proof (class_hi_ok_ne hi) as Hm.
      destruct fuel as [|f]; [lia|]. cbn [app parse_class].
      change (N.eqb 92 93) with false. change (N.eqb 92 92) with true. cbv iota.
      unfold esc_ok in Hlo. apply negb_true_iff in Hlo. rewrite Hlo.
      change (N.eqb 45 45) with true. rewrite (eqb_ne hi 93), (eqb_ne hi 92) by (apply Hm; [exact Hhi|cbn; tauto]).
      cbn [andb negb]. apply N.leb_le in Hle. rewrite (proj2 (N.ltb_ge hi lo) Hle).
      apply (Hgoal f). lia.
    + (* lo-hi *)
      apply andb_true_iff in Hi as [Hi Hle]. apply andb_true_iff in Hi as [Hlo Hhi].
      pose proof (class_raw_ok_ne lo) as Hn. pose proof (class_hi_ok_ne hi) as Hm.
      destruct fuel as [|f]; [lia|]. cbn [app]. cbn [parse_class].
      rewrite (eqb_ne lo 93), (eqb_ne lo 92), (eqb_ne lo 91) by (apply Hn; [exact Hlo|cbn; tauto]).
      change (N.eqb 45 45) with true. rewrite (eqb_ne hi 93), (eqb_ne hi 92) by (apply Hm; [exact Hhi|cbn; tauto]).
      cbn [andb negb]. apply N.leb_le in Hle. rewrite (proj2 (N.ltb_ge hi lo) Hle).
      apply (Hgoal f). lia.
Qed.

(* ---------------------------------------------------------------------- *)
(* the parser on the text of a syntax tree *)

Scheme ralt_mind := Induction for ralt Sort Prop
  with rseq_mind := Induction for rseq Sort Prop
  with ratom_mind := Induction for ratom Sort Prop.
Combined Scheme rsyntax_mutind from ralt_mind, rseq_mind, ratom_mind.

Lemma pquant_text q a :
  match quant_text q with
  | [qc] => is_q qc = true /\ pquant qc a = quant_re q a
  | _ => q = Q1
  end.
Proof. destruct q; cbn; auto. Qed.

Section ParseText.
  Variable dotall : bool.
  Notation built_alt := (built_alt dotall).
  Notation built_seq := (built_seq dotall).
  Notation built_atom := (built_atom dotall).

  Definition Palt (x : ralt) : Prop :=
    valid_alt x = true -> forall f rest, (length (alt_text x) < f)%nat ->
    (rest = [] \/ exists t, rest = 41 :: t) ->
    parse_alt f dotall (alt_text x ++ rest) = POk (built_alt x) rest.

  Definition Pseq (x : rseq) : Prop :=
    valid_seq x = true -> forall f g acc rest, (length (seq_text x) <= f)%nat -> (length (seq_text x) < g)%nat ->
    stop rest ->
    pseq f dotall g (seq_text x ++ rest) acc = POk (built_seq acc x) rest.

  Definition Patom (x : ratom) : Prop :=
    valid_atom x = true -> forall f rest, (length (atom_text x) <= f)%nat ->
    exists c t, atom_text x = c :: t /\ patom f dotall c (t ++ rest) = POk (built_atom x) rest.

  Lemma patom_raw f c s' : raw_ok c = true -> patom f dotall c s' = POk (re_char c) s'.
  Proof.
    intros H. pose proof (raw_ok_ne c) as Hn. unfold patom.
    rewrite (eqb_ne c 40), (eqb_ne c 91), (eqb_ne c 46), (eqb_ne c 92), (eqb_ne c 42), (eqb_ne c 43), (eqb_ne c 63),
            (eqb_ne c 94), (eqb_ne c 36), (eqb_ne c 123), (eqb_ne c 125) by (apply Hn; [exact H|cbn; tauto]).
    reflexivity.
  Qed.

  Lemma patom_class_pos f s' :
    (forall t, s' <> 94 :: t) ->
    patom f dotall 91 s' =
    match parse_class (S (length s')) s' [] with
    | POk rs rest => POk (RSet false rs) rest
    | PInvalid => PInvalid | PUnsupported => PUnsupported end.
  Proof.
    intros H. unfold patom. change (N.eqb 91 40) with false. change (N.eqb 91 91) with true. cbv iota.
    destruct s' as [|d t]; [reflexivity|]. destruct d as [|p]; [reflexivity|].
    repeat match goal with q : positive |- _ => destruct q; try reflexivity end. contradiction (H t). reflexivity.
  Qed.

  Lemma patom_group_cap f s' :
    (forall t, s' <> 63 :: t) ->
    patom f dotall 40 s' =
    match parse_alt f dotall s' with
    | POk r (41 :: rest) => POk r rest
    | POk _ _ => PInvalid
    | PInvalid => PInvalid
    | PUnsupported => PUnsupported
    end.
  Proof.
    intros H. unfold patom. change (N.eqb 40 40) with true. cbv iota.
    destruct s' as [|d t]; [reflexivity|]. destruct d as [|p]; [reflexivity|].
    repeat match goal with q : positive |- _ => destruct q; try reflexivity end. contradiction (H t). reflexivity.
  Qed.

  Theorem parse_text_all : (forall x, Palt x) /\ (forall x, Pseq x) /\ (forall x, Patom x).
  Proof.
    apply rsyntax_mutind.
    - (* Alt1 *) intros s IH Hv f rest Hf Hrest. cbn [valid_alt alt_text built_alt] in *.
      destruct f as [|f]; [lia|]. rewrite parse_alt_S.
      rewrite (IH Hv f (S (length (seq_text s ++ rest))) REps rest); [| lia | rewrite app_length; lia |].
      + destruct Hrest as [->|[t ->]]; reflexivity.
      + destruct Hrest as [->|[t ->]]; [exact I|right; reflexivity].
    - (* AltCons *) intros s IHs r IHr Hv f rest Hf Hrest. cbn [valid_alt alt_text built_alt] in *.
      apply andb_true_iff in Hv as [Hs Hr]. rewrite app_length in Hf. cbn [length] in Hf.
      destruct f as [|f]; [lia|]. rewrite parse_alt_S. rewrite <- app_assoc. cbn [app].
      rewrite (IHs Hs f (S (length (seq_text s ++ 124 :: alt_text r ++ rest))) REps (124 :: alt_text r ++ rest));
        [| lia | rewrite app_length; lia | left; reflexivity].
      rewrite (IHr Hr f rest); [reflexivity|lia|exact Hrest].
    - (* SNil *) intros _ f g acc rest _ Hg Hs. cbn [seq_text app built_seq] in *.
      destruct g as [|g]; [lia|]. destruct rest as [|c t]; [reflexivity|].
      rewrite pseq_S. destruct Hs as [-> | ->]; reflexivity.
    - (* SCons *) intros a IHa q r IHr Hv f g acc rest Hf Hg Hs. cbn [valid_seq seq_text built_seq] in *.
      apply andb_true_iff in Hv as [Ha Hr]. rewrite !app_length in Hf, Hg.
      destruct (atom_head a Ha) as (c0 & t0 & Et0 & Hq0 & _ & H124 & H41).
      destruct (IHa Ha f (quant_text q ++ seq_text r ++ rest) ltac:(lia)) as (c & t & Et & Hat).
      rewrite Et in Et0. injection Et0 as -> ->.
      assert (Hla : (1 <= length (atom_text a))%nat) by (rewrite Et; cbn [length]; lia).
      destruct g as [|g]; [lia|]. rewrite <- !app_assoc. rewrite Et. cbn [app]. rewrite pseq_S.
      rewrite (eqb_ne c0 124 H124), (eqb_ne c0 41 H41). cbn [orb]. rewrite Hat.
      pose proof (seq_head r rest Hr Hs) as Hnq.
      pose proof (pquant_text q (built_atom a)) as Hpq.
      destruct (quant_text q) as [|qc [|? ?]] eqn:Eq.
      + (* no quantifier *) subst q. cbn [app quant_re].
        destruct (seq_text r ++ rest) as [|q0 w] eqn:Ew.
        * apply app_eq_nil in Ew as [Er ->]. rewrite (seq_text_nil r Hr Er). reflexivity.
        * destruct Hnq as [Hq H123]. rewrite Hq, (eqb_ne q0 123 H123). rewrite <- Ew.
          apply IHr; [exact Hr|lia|cbn [length] in Hg; lia|exact Hs].
      + (* a quantifier *) destruct Hpq as [Hisq Hpq]. cbn [app]. rewrite Hisq, Hpq.
        assert (Hrec : pseq f dotall g (seq_text r ++ rest) (RSeq acc (quant_re q (built_atom a))) =
                       POk (built_seq (RSeq acc (quant_re q (built_atom a))) r) rest).
        { apply IHr; [exact Hr|lia|cbn [length] in Hg; lia|exact Hs]. }
        destruct (seq_text r ++ rest) as [|q2 w] eqn:Ew; [exact Hrec|].
        destruct Hnq as [Hq2 _]. rewrite Hq2. exact Hrec.
      + destruct q; discriminate Eq.
    - (* AChar *) intros c e Hv f rest Hf. cbn [valid_atom atom_text built_atom char_text] in *. destruct e.
      + exists 92, [c]. split; [reflexivity|]. cbn [app]. unfold patom.
        change (N.eqb 92 40) with false. change (N.eqb 92 91) with false. change (N.eqb 92 46) with false.
        change (N.eqb 92 92) with true. cbv iota. unfold esc_ok in Hv. apply negb_true_iff in Hv. rewrite Hv. reflexivity.
      + exists c, []. split; [reflexivity|]. apply patom_raw. exact Hv.
    - (* ADot *) intros _ f rest _. exists 46, []. split; reflexivity.
    - (* AClass *) intros neg items Hv f rest _. cbn [valid_atom atom_text built_atom] in *.
      unfold valid_class in Hv. destruct items as [|i0 items0] eqn:Eitems; [discriminate Hv|]. rewrite <- Eitems in *.
      apply andb_true_iff in Hv as [Hcaret Hv'].
      assert (Hne : items <> []) by (rewrite Eitems; discriminate).
      eexists 91, _. split; [reflexivity|].
      rewrite <- !app_assoc. cbn [app]. destruct neg; cbn [app].
      + unfold patom. change (N.eqb 91 40) with false. change (N.eqb 91 91) with true. cbv iota.
        rewrite (parse_class_items items false); [rewrite app_nil_r; reflexivity|exact Hv'| |left; exact Hne].
        rewrite app_length. cbn [length]. lia.
      + cbn [orb] in Hcaret. apply negb_true_iff in Hcaret.
        rewrite patom_class_pos.
        * rewrite (parse_class_items items false); [rewrite app_nil_r; reflexivity|exact Hv'| |left; exact Hne].
          rewrite app_length. cbn [length]. lia.
        * intros t' E. rewrite Eitems in E. cbn [flat_map] in E.
          destruct (item_head i0) as (d & t & Et & Hd). rewrite Et in E. rewrite <- !app_assoc in E. cbn [app] in E.
          injection E as -> _. unfold starts_with in Hcaret.
          destruct Hd as [Hd|[_ Hd]]; [rewrite Hd in Hcaret; discriminate Hcaret|discriminate Hd].
    - (* AGroup *) intros cap b IH Hv f rest Hf. cbn [valid_atom atom_text built_atom] in *.
      eexists 40, _. split; [reflexivity|].
      rewrite <- !app_assoc. cbn [app].
      destruct cap; cbn [app length] in *; rewrite ?app_length in Hf; cbn [length] in Hf.
      + pose proof (alt_head b rest Hv) as Hnq.
        rewrite patom_group_cap.
        * rewrite (IH Hv f (41 :: rest)); [reflexivity|lia|right; eexists; reflexivity].
        * intros t E. rewrite E in Hnq. destruct Hnq as [Hq _]. discriminate Hq.
      + unfold patom. change (N.eqb 40 40) with true. cbv iota.
        rewrite (IH Hv f (41 :: rest)); [reflexivity|lia|right; eexists; reflexivity].
  Qed.

  Theorem parse_regex_text x :
    valid_alt x = true -> parse_regex dotall (regex_text x) = POk (built_alt x) [].
  Proof.
    intros Hv. unfold parse_regex, regex_text. destruct parse_text_all as [H _].
    pose proof (H x Hv (S (length (alt_text x))) [] ltac:(lia) (or_introl eq_refl)) as Hp.
    rewrite app_nil_r in Hp. rewrite Hp. reflexivity.
  Qed.
End ParseText.

(* ---------------------------------------------------------------------- *)
(* what the parser builds has the language of the syntax tree *)

Section Equiv.
  Variable icase dotall : bool.
  Notation matches := (matches icase).

  Lemma seq_assoc a b c s : matches (RSeq (RSeq a b) c) s <-> matches (RSeq a (RSeq b c)) s.
  Proof.
    rewrite !seq_inv. split.
    - intros (s12 & s3 & -> & H12 & H3). apply seq_inv in H12 as (s1 & s2 & -> & H1 & H2).
      exists s1, (s2 ++ s3). split; [rewrite app_assoc; reflexivity|]. split; [exact H1|constructor; assumption].
    - intros (s1 & s23 & -> & H1 & H23). apply seq_inv in H23 as (s2 & s3 & -> & H2 & H3).
      exists (s1 ++ s2), s3. split; [rewrite app_assoc; reflexivity|]. split; [constructor; assumption|exact H3].
  Qed.

  Lemma in_class_rev rs c : in_class (rev rs) c <-> in_class rs c.
  Proof.
    unfold in_class. split; intros (lo & hi & Hin & H); exists lo, hi; (split; [|exact H]).
    - apply in_rev. exact Hin.
    - apply in_rev in Hin. exact Hin.
  Qed.

  Lemma set_rev neg rs s : matches (RSet neg (rev rs)) s <-> matches (RSet neg rs) s.
  Proof.
    rewrite !set_inv.
    assert (Hh : forall c, class_hit icase (rev rs) c <-> class_hit icase rs c).
    { intros c. unfold class_hit. split; intros (d & Hs & Hd); exists d; (split; [exact Hs|]); apply in_class_rev; exact Hd. }
    split; intros (c & -> & H); exists c; (split; [reflexivity|]); unfold class_has in *; destruct neg;
      try (apply Hh; exact H); intros H'; apply H; apply Hh; exact H'.
  Qed.

  Lemma quant_congr q a a' :
    (forall s, matches a' s <-> matches a s) -> forall s, matches (quant_re q a') s <-> matches (quant_re q a) s.
  Proof.
    intros Ha s. destruct q; cbn [quant_re]; unfold re_plus, re_opt.
    - apply Ha.
    - apply star_congr. exact Ha.
    - apply seq_congr; [exact Ha|apply star_congr; exact Ha].
    - apply alt_congr; [reflexivity|exact Ha].
  Qed.

  Theorem built_equiv :
    (forall x, re_equiv icase (built_alt dotall x) (alt_re dotall x)) /\
    (forall x, forall acc, re_equiv icase (built_seq dotall acc x) (RSeq acc (seq_re dotall x))) /\
    (forall x, re_equiv icase (built_atom dotall x) (atom_re dotall x)).
  Proof.
    apply rsyntax_mutind; unfold re_equiv.
    - intros sq IH s. cbn [built_alt alt_re]. rewrite IH. apply seq_eps_l.
    - intros sq IHs r IHr s. cbn [built_alt alt_re]. apply alt_congr; [|exact IHr].
      intros w. rewrite IHs. apply seq_eps_l.
    - intros acc s. cbn [built_seq seq_re]. symmetry. apply seq_eps_r.
    - intros a IHa q r IHr acc s. cbn [built_seq seq_re]. rewrite IHr, seq_assoc.
      apply seq_congr; [reflexivity|]. intros w. apply seq_congr; [|reflexivity]. apply quant_congr. exact IHa.
    - intros c e s. reflexivity.
    - intros s. reflexivity.
    - intros neg items s. cbn [built_atom atom_re]. apply set_rev.
    - intros cap b IH s. exact (IH s).
  Qed.
End Equiv.

(* ---------------------------------------------------------------------- *)
(* the pattern text of the dialect is parsed to its meaning *)

Theorem regex_text_parses icase dotall x :
  valid_alt x = true ->
  exists r', parse_regex dotall (regex_text x) = POk r' [] /\ re_equiv icase r' (alt_re dotall x).
Proof.
  intros Hv. exists (built_alt dotall x). split; [apply parse_regex_text; exact Hv|].
  apply (proj1 (built_equiv icase dotall)).
Qed.

Theorem regex_fullmatch_text icase dotall x s :
  valid_alt x = true -> icase && (negb (is_ascii (regex_text x)) || negb (is_ascii s)) = false ->
  (regex_fullmatch (regex_text x) icase dotall s = Some (Some true) <-> matches icase (alt_re dotall x) s) /\
  (regex_fullmatch (regex_text x) icase dotall s = Some (Some false) <-> ~ matches icase (alt_re dotall x) s).
Proof.
  intros Hv Hf. destruct (regex_text_parses icase dotall x Hv) as (r' & Hp & He).
  destruct (regex_fullmatch_spec _ icase dotall r' [] s Hp Hf) as [H1 H2].
  rewrite H1, H2, (He s). split; reflexivity.
Qed.

Theorem regex_search_text x s :
  valid_alt x = true ->
  (regex_search (regex_text x) s = Some (Some true) <-> matches_somewhere false (alt_re false x) s) /\
  (regex_search (regex_text x) s = Some (Some false) <-> ~ matches_somewhere false (alt_re false x) s).
Proof.
  intros Hv. destruct (regex_text_parses false false x Hv) as (r' & Hp & He).
  destruct (regex_search_spec _ r' [] s Hp) as [H1 H2].
  assert (Hs : matches_somewhere false r' s <-> matches_somewhere false (alt_re false x) s).
  { unfold matches_somewhere. split; intros (pre & mid & post & E & H); exists pre, mid, post;
      (split; [exact E|]); apply He; exact H. }
  rewrite H1, H2, Hs. split; reflexivity.
Qed.

(* ---------------------------------------------------------------------- *)
(* an instance:   a[b-d\-]*|(?:.x)+   *)

Definition example_rx : ralt :=
  AltCons
    (SCons (AChar 97 false) Q1
      (SCons (AClass false [CRange 98 false 100; CChar 45 true]) QStar SNil))
    (Alt1 (SCons (AGroup false (Alt1 (SCons ADot Q1 (SCons (AChar 120 false) Q1 SNil)))) QPlus SNil)).

Example example_rx_text :
  regex_text example_rx = [97; 91; 98; 45; 100; 92; 45; 93; 42; 124; 40; 63; 58; 46; 120; 41; 43].
Proof. reflexivity. Qed.

Example example_rx_search s :
  regex_search (regex_text example_rx) s = Some (Some true) <->
  matches_somewhere false (alt_re false example_rx) s.
Proof. apply regex_search_text. reflexivity. Qed.

(* a class with the delicate spellings:   [-\.-z^a-]   is  "-", the range "." to "z", "^", "a", "-"  *)
Definition example_class : ralt :=
  Alt1 (SCons (AClass false [CChar 45 false; CRange 46 true 122; CChar 94 false; CChar 97 false; CChar 45 false])
              Q1 SNil).

Example example_class_text :
  regex_text example_class = [91; 45; 92; 46; 45; 122; 94; 97; 45; 93] /\ valid_alt example_class = true.
Proof. split; reflexivity. Qed.

(* In a bracket class an escaped character followed by "-" begins a range, as for Python's re:
   "[\.-z]" is the range "." to "z" (it matches "a", not "-").  (Before the repair of parse_class the
   three characters . - z were read.) *)
Example class_escape_then_dash :
  parse_regex false [91; 92; 46; 45; 122; 93] = POk (RSeq REps (RSet false [(46, 122)])) [] /\
  regex_fullmatch [91; 92; 46; 45; 122; 93] false false [97] = Some (Some true) /\
  regex_fullmatch [91; 92; 46; 45; 122; 93] false false [45] = Some (Some false).
Proof. repeat split; vm_compute; reflexivity. Qed.

(* Under IGNORECASE the model answers for ASCII text only: Python folds the Kelvin sign onto "k" *)
Example icase_non_ascii_subject :
  regex_fullmatch [107] true false [8490] = None /\ regex_fullmatch [107] true false [75] = Some (Some true).
Proof. split; vm_compute; reflexivity. Qed.
