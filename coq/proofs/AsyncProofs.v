(* AsyncProofs.v — the asynchronous evaluation model equals the synchronous one. *)
From JP Require Import Base Json PyStr PySlice PyJsonStr Syntax Eval EvalAsync.

Section AsyncProofs.
  Variable E : env.
  Variable re_full : ustr -> reflags -> ustr -> option bool.
  Variable re_search : ustr -> ustr -> option bool.

  Notation eval_f := (eval_f E re_full re_search).
  Notation eval_fs := (eval_fs E re_full re_search).
  Notation resolve_sel := (resolve_sel E re_full re_search).
  Notation resolve_sels := (resolve_sels E re_full re_search).
  Notation resolve_seg := (resolve_seg E re_full re_search).
  Notation resolve_segs := (resolve_segs E re_full re_search).
  Notation eval_f_async := (eval_f_async E re_full re_search).
  Notation eval_fs_async := (eval_fs_async E re_full re_search).
  Notation resolve_sel_async := (resolve_sel_async E re_full re_search).
  Notation resolve_sels_async := (resolve_sels_async E re_full re_search).
  Notation resolve_seg_async := (resolve_seg_async E re_full re_search).
  Notation resolve_segs_async := (resolve_segs_async E re_full re_search).

  Lemma map_ext_in' {A B} (f g : A -> B) l : (forall x, f x = g x) -> map f l = map g l.
  Proof. intros H. apply map_ext. exact H. Qed.

  Lemma twins :
    (forall e root ctx cur key, eval_f_async e root ctx cur key = eval_f e root ctx cur key) /\
    (forall es root ctx cur key, eval_fs_async es root ctx cur key = eval_fs es root ctx cur key) /\
    (forall s root ctx m, resolve_sel_async s root ctx m = resolve_sel s root ctx m) /\
    (forall l root ctx m, resolve_sels_async l root ctx m = resolve_sels l root ctx m) /\
    (forall g root ctx ms, resolve_seg_async g root ctx ms = resolve_seg g root ctx ms) /\
    (forall p root ctx ms, resolve_segs_async p root ctx ms = resolve_segs p root ctx ms).
  Proof.
    apply syntax_mutind; intros; cbn [EvalAsync.eval_f_async EvalAsync.eval_fs_async
      EvalAsync.resolve_sel_async EvalAsync.resolve_sels_async EvalAsync.resolve_seg_async
      EvalAsync.resolve_segs_async Eval.eval_f Eval.eval_fs Eval.resolve_sel Eval.resolve_sels
      Eval.resolve_seg Eval.resolve_segs]; try reflexivity.
    all: try solve [ repeat match goal with
                            | H : forall _ _ _ _, _ = _ |- _ => rewrite H; clear H
                            | H : forall _ _ _, _ = _ |- _ => rewrite H; clear H
                            end; reflexivity ].
  Qed.

  Theorem finditer_async_eq p d ctx :
    finditer_async E re_full re_search p d ctx = finditer E re_full re_search p d ctx.
  Proof. unfold finditer_async, finditer. apply twins. Qed.

  Theorem findall_async_eq p d ctx :
    findall_async E re_full re_search p d ctx = findall E re_full re_search p d ctx.
  Proof. unfold findall_async, findall. rewrite finditer_async_eq. reflexivity. Qed.

  Lemma compound_findall_rest_async_eq rest : forall objs d ctx,
    compound_findall_rest_async E re_full re_search objs rest d ctx =
    compound_findall_rest E re_full re_search objs rest d ctx.
  Proof.
    induction rest as [|[o p] rest IH]; intros objs d ctx; simpl; [reflexivity|].
    rewrite findall_async_eq. destruct (findall E re_full re_search p d ctx); simpl; [|reflexivity].
    destruct o; apply IH.
  Qed.

  Theorem compound_findall_async_eq q d ctx :
    compound_findall_async E re_full re_search q d ctx = compound_findall E re_full re_search q d ctx.
  Proof.
    unfold compound_findall_async, compound_findall. rewrite findall_async_eq.
    destruct (findall E re_full re_search (q_first q) d ctx); simpl; [|reflexivity].
    apply compound_findall_rest_async_eq.
  Qed.

  Lemma compound_finditer_rest_async_eq rest : forall ms d ctx,
    compound_finditer_rest_async E re_full re_search ms rest d ctx =
    compound_finditer_rest E re_full re_search ms rest d ctx.
  Proof.
    induction rest as [|[o p] rest IH]; intros ms d ctx; simpl; [reflexivity|].
    rewrite finditer_async_eq. destruct (finditer E re_full re_search p d ctx); simpl; [|reflexivity].
    destruct o; apply IH.
  Qed.

  Theorem compound_finditer_async_eq q d ctx :
    compound_finditer_async E re_full re_search q d ctx = compound_finditer E re_full re_search q d ctx.
  Proof.
    unfold compound_finditer_async, compound_finditer. rewrite finditer_async_eq.
    destruct (finditer E re_full re_search (q_first q) d ctx); simpl; [|reflexivity].
    apply compound_finditer_rest_async_eq.
  Qed.
End AsyncProofs.
