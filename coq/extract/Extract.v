(* Extraction of the executable model and specification functions.
   ExtrOcamlBasic only: bool, option, unit, list, prod, sumbool map to OCaml's;
   nat, positive, N, Z stay inductive.  No Extract Constant. *)
From Coq Require Import Extraction ExtrOcamlBasic.
From JP Require Import Base Json PyStr Fluent ListSpec Pointer RelPointer Patch Rfc6901 RelPtrDraft PointerDomain Rfc6902 Edit Syntax Eval EvalAsync Regex Rfc9535 Rfc9535Typing NormPath Project ProjectSpec Lex Parse Serialize Cache Gate Cli CliSpec TokPrint Printable Reparsable NormDomain TokensOk.
Extraction Language OCaml.
Extraction "extract/model.ml"
  Fluent.observe ListSpec.sobserve
  Json.py_eq Json.json_eq Json.wf_json Json.node_at
  Pointer.parse Pointer.make Pointer.encode Pointer.resolve Pointer.resolve_default Pointer.exists_
  Pointer.resolve_parent Pointer.ptr_eqb Pointer.is_relative_to Pointer.parent Pointer.truediv
  Pointer.join Pointer.from_parts Pointer.tokens
  RelPointer.rel_parse RelPointer.to_text RelPointer.to_
  Rfc6901.rfc6901_syntax Rfc6901.rfc_tokens Rfc6901.rfc_spell Rfc6901.rfc_eval Rfc6901.spell_loc Rfc6901.rfc_step
  RelPtrDraft.draft_parse RelPtrDraft.draft_apply RelPtrDraft.offset_applicable
  PointerDomain.no_backslash PointerDomain.outside_extensions PointerDomain.tokens_within_limits
  PointerDomain.no_leading_blank
  Patch.apply Patch.apply_op Patch.build Patch.asdicts Patch.translate
  Rfc6902.rfc_apply Rfc6902.rfc_op Edit.replace_at Edit.delete_at Edit.doc_addne Edit.doc_addap Pointer.of_loc
  Syntax.default_env Syntax.fexprs_of Syntax.sels_of Syntax.segs_of
  Eval.finditer Eval.findall Eval.match_ Eval.compound_findall Eval.compound_finditer Eval.filter_compare Eval.eval_f
  EvalAsync.compound_finditer_async EvalAsync.compound_findall_async
  Regex.regex_fullmatch Regex.regex_search
  Rfc9535.nodelist Rfc9535.query_nodes Rfc9535.rfc_compare Rfc9535.l_test Rfc9535.rfc_slice_indices
  Rfc9535Typing.std_query Rfc9535Typing.ext_query
  NormPath.normpath NormPath.valid_normpath
  Lex.tokenize Parse.compile Parse.fn_sig Serialize.query_text Cache.finditer_c Cache.cache_positions Cache.cacheable Cache.any_cacheable Cache.volatile
  TokPrint.query_toks TokPrint.norm_query Parse.compile_tokens
  Gate.gate_query TokensOk.tokens_ok NormDomain.c10_domain NormDomain.floats_stable Reparsable.floats_ok Cli.cli_run Cli.attrs_defined CliSpec.demanded CliSpec.rejections
  Project.select Project.select_one ProjectSpec.project_tree ProjectSpec.selections_ok ProjectSpec.selections_deep_ok ProjectSpec.keys_only ProjectSpec.project_flat ProjectSpec.project_root.
