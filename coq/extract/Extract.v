(* Extraction of the executable model and specification functions.
   ExtrOcamlBasic only: bool, option, unit, list, prod, sumbool map to OCaml's;
   nat, positive, N, Z stay inductive.  No Extract Constant. *)
From Coq Require Import Extraction ExtrOcamlBasic.
From JP Require Import Base Json Fluent ListSpec.
Extraction Language OCaml.
Extraction "extract/model.ml"
  Fluent.observe ListSpec.sobserve.
