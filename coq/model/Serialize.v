(* Serialize.v — implementation model of the string forms: path.py (__str__ of JSONPath and
   CompoundJSONPath), selectors.py (__str__ of every selector), filter.py (__str__ of every
   expression node and BooleanExpression._canonical_string), serialize.py (canonical_string),
   as repaired by the fix: commits.
   repr(float) is modelled for decimal literals of at most 15 significant digits (shortest
   round-trip repr is then the decimal itself); other floats answer EUnsupported. *)
From JP Require Import Base Json PyStr PyJsonStr Syntax.

Definition sp : N := 32.
Definition str_lit (l : list N) : ustr := l.

Definition binop_text (o : binop) : ustr :=
  match o with
  | BAnd => [38; 38] | BOr => [124; 124] | BEq => [61; 61] | BNe => [33; 61] | BLg => [60; 62]
  | BLt => [60] | BGt => [62] | BLe => [60; 61] | BGe => [62; 61] | BIn => [105; 110]
  | BContains => [99; 111; 110; 116; 97; 105; 110; 115] | BRe => [61; 126]
  end%N.

(* decimal digits of a positive integer with trailing zeros stripped, and how many were stripped *)
Fixpoint strip_zeros (fuel : nat) (m : Z) (k : Z) : Z * Z :=
  match fuel with
  | O => (m, k)
  | S f => if Z.eqb (m mod 10) 0 && negb (Z.eqb m 0) then strip_zeros f (m / 10) (k + 1)%Z else (m, k)
  end.

Fixpoint is_pow10 (fuel : nat) (p : Z) : option Z :=
  match fuel with
  | O => None
  | S f => if Z.eqb p 1 then Some 0%Z
           else if Z.eqb (p mod 10) 0 then option_map (Z.add 1) (is_pow10 f (p / 10)) else None
  end.

(* repr(float) for mant / 10^k *)
Definition float_repr (n : num) : result ustr :=
  match is_pow10 400 (Zpos (n_den n)) with
  | None => Err EUnsupported
  | Some k =>
      let neg := Z.ltb (n_num n) 0 in
      let m0 := Z.abs (n_num n) in
      if Z.eqb m0 0 then Ok (if neg then [45; 48; 46; 48]%N else [48; 46; 48]%N)
      else
        let '(m, z) := strip_zeros 400 m0 0%Z in
        let digits := dec_of_nonneg m in
        let nd := Z.of_nat (length digits) in
        if Z.ltb 15 nd then Err EUnsupported
        else
          (* value = 0.d1d2...dn * 10^pt  with pt = nd + z - k *)
          let pt := (nd + z - k)%Z in
          let sign := if neg then [45%N] else [] in
          if Z.ltb (-4) pt && Z.leb pt 16 then
            if Z.leb pt 0 then
              Ok (sign ++ [48; 46]%N ++ repeat 48%N (Z.to_nat (- pt)) ++ digits)
            else if Z.leb nd pt then
              Ok (sign ++ digits ++ repeat 48%N (Z.to_nat (pt - nd)) ++ [46; 48]%N)
            else
              Ok (sign ++ firstn (Z.to_nat pt) digits ++ 46%N :: skipn (Z.to_nat pt) digits)
          else
            let e := (pt - 1)%Z in
            let mant := match digits with
                        | d :: [] => [d; 46; 48]%N          (* FloatLiteral.__str__ adds ".0" *)
                        | d :: rest => d :: 46%N :: rest
                        | [] => []
                        end in
            let etxt := dec_of_nonneg (Z.abs e) in
            let etxt := match etxt with [_] => 48%N :: etxt | _ => etxt end in
            Ok (sign ++ mant ++ 101%N :: (if Z.ltb e 0 then 45%N else 43%N) :: etxt)
  end.

Definition flags_text (fl : reflags) : ustr :=
  (if f_a fl then [97%N] else []) ++ (if f_i fl then [105%N] else []) ++
  (if f_m fl then [109%N] else []) ++ (if f_s fl then [115%N] else []).

Fixpoint join_sep (sep : ustr) (l : list ustr) : ustr :=
  match l with
  | [] => []
  | [x] => x
  | x :: r => x ++ sep ++ join_sep sep r
  end.

Fixpoint all_ok {A} (l : list (result A)) : result (list A) :=
  match l with
  | [] => Ok []
  | r :: l' => x <- r ;; xs <- all_ok l' ;; Ok (x :: xs)
  end.

(* InfixExpression._operand: a comparison / membership operand keeps its parentheses *)
Definition wrap_operand (e : fexpr) (x : ustr) : ustr :=
  match e with
  | FInfix _ o _ => if is_logical o then x else 40%N :: x ++ [41%N]
  | _ => x
  end.

Section Serialize.
  Variable E : env.

  (* str(expression) *)
  Fixpoint expr_text (e : fexpr) {struct e} : result ustr :=
    match e with
    | FNil => Ok [110; 105; 108]%N
    | FUndefined => Ok [117; 110; 100; 101; 102; 105; 110; 101; 100]%N
    | FBool true => Ok [116; 114; 117; 101]%N
    | FBool false => Ok [102; 97; 108; 115; 101]%N
    | FInt z => Ok (str_of_Z z)
    | FFloat n => float_repr n
    | FStr s => Ok (canonical_string s)
    | FRegex p fl => Ok (47%N :: p ++ 47%N :: flags_text fl)
    | FList items => xs <- exprs_text items ;; Ok (91%N :: join_sep [44; 32]%N xs ++ [93%N])
    | FNot r => x <- expr_text r ;; Ok (33%N :: wrap_operand r x)
    | FInfix l o r =>
        a <- expr_text l ;; b <- expr_text r ;;
        Ok (if is_logical o then 40%N :: (a ++ sp :: binop_text o ++ sp :: b) ++ [41%N]
            else wrap_operand l a ++ sp :: binop_text o ++ sp :: wrap_operand r b)
    | FSelf p => x <- segs_text p ;; Ok (e_self E ++ x)
    | FRoot fake p => x <- segs_text p ;; Ok ((if fake then e_fake_root E else e_root E) ++ x)
    | FCtx p => x <- segs_text p ;; Ok (e_filter_context E ++ x)
    | FKey => Ok (e_key E)
    | FFunc name args => xs <- exprs_text args ;; Ok (name ++ 40%N :: join_sep [44; 32]%N xs ++ [41%N])
    end
  with exprs_text (es : fexprs) {struct es} : result (list ustr) :=
    match es with
    | ENil => Ok []
    | ECons e r => x <- expr_text e ;; xs <- exprs_text r ;; Ok (x :: xs)
    end
  (* BooleanExpression._canonical_string(expression, parent_precedence) *)
  with canon_text (e : fexpr) (parent : nat) {struct e} : result ustr :=
    match e with
    | FInfix l BAnd r =>
        a <- canon_text l 4 ;; b <- canon_text r 4 ;;
        let x := a ++ [32; 38; 38; 32]%N ++ b in
        Ok (if Nat.leb 4 parent then 40%N :: x ++ [41%N] else x)
    | FInfix l BOr r =>
        a <- canon_text l 3 ;; b <- canon_text r 3 ;;
        let x := a ++ [32; 124; 124; 32]%N ++ b in
        Ok (if Nat.leb 3 parent then 40%N :: x ++ [41%N] else x)
    | FNot r =>
        a <- canon_text r 7 ;;
        let x := 33%N :: a in
        Ok (if Nat.ltb 7 parent then 40%N :: x ++ [41%N] else x)
    | FInfix l o r =>
        a <- expr_text l ;; b <- expr_text r ;;
        let x := wrap_operand l a ++ sp :: binop_text o ++ sp :: wrap_operand r b in
        Ok (if Nat.leb 7 parent then 40%N :: x ++ [41%N] else x)
    (* everything else is str(expression): the same text as expr_text, written out so that the
       recursion stays structural *)
    | FNil => Ok [110; 105; 108]%N
    | FUndefined => Ok [117; 110; 100; 101; 102; 105; 110; 101; 100]%N
    | FBool true => Ok [116; 114; 117; 101]%N
    | FBool false => Ok [102; 97; 108; 115; 101]%N
    | FInt z => Ok (str_of_Z z)
    | FFloat n => float_repr n
    | FStr s => Ok (canonical_string s)
    | FRegex p fl => Ok (47%N :: p ++ 47%N :: flags_text fl)
    | FList items => xs <- exprs_text items ;; Ok (91%N :: join_sep [44; 32]%N xs ++ [93%N])
    | FSelf p => x <- segs_text p ;; Ok (e_self E ++ x)
    | FRoot fake p => x <- segs_text p ;; Ok ((if fake then e_fake_root E else e_root E) ++ x)
    | FCtx p => x <- segs_text p ;; Ok (e_filter_context E ++ x)
    | FKey => Ok (e_key E)
    | FFunc name args => xs <- exprs_text args ;; Ok (name ++ 40%N :: join_sep [44; 32]%N xs ++ [41%N])
    end
  (* str(selector) inside a bracketed list (shorthand = False) *)
  with sel_text (s : selector) {struct s} : result ustr :=
    match s with
    | SName k => Ok (canonical_string k)
    | SIndex i => Ok (str_of_Z i)
    | SSlice a b c =>
        let o (x : option Z) (dflt : ustr) := match x with Some z => str_of_Z z | None => dflt end in
        Ok (o a [] ++ 58%N :: o b [] ++ 58%N :: o c [49%N])
    | SWild => Ok [42%N]
    | SKeys => Ok (e_keys E)
    | SFilter e => x <- canon_text e 1 ;; Ok (63%N :: x)
    end
  with sels_text (l : sels) {struct l} : result (list ustr) :=
    match l with
    | LNil => Ok []
    | LCons s r => x <- sel_text s ;; xs <- sels_text r ;; Ok (x :: xs)
    end
  with seg_text (g : segment) {struct g} : result ustr :=
    match g with
    | GSel (SName k) => Ok (91%N :: canonical_string k ++ [93%N])          (* shorthand = True *)
    | GSel SWild => Ok [91; 42; 93]%N
    | GSel SKeys => Ok (91%N :: e_keys E ++ [93%N])
    | GSel ((SSlice _ _ _) as s) => x <- sel_text s ;; Ok (91%N :: x ++ [93%N])   (* JSONPath.__str__ brackets a bare slice *)
    | GSel s => sel_text s                                                  (* never built by the parser *)
    | GDescent => Ok [46; 46]%N
    | GList items => xs <- sels_text items ;; Ok (91%N :: join_sep [44; 32]%N xs ++ [93%N])
    end
  with segs_text (p : segs) {struct p} : result ustr :=
    match p with
    | PNil => Ok []
    | PCons g r => x <- seg_text g ;; xs <- segs_text r ;; Ok (x ++ xs)
    end.

  (* JSONPath.__str__ *)
  Definition path_text (p : jpath) : result ustr :=
    x <- segs_text (p_segs p) ;; Ok ((if p_fake p then e_fake_root E else e_root E) ++ x).

  (* CompoundJSONPath.__str__ *)
  Fixpoint rest_text (rest : list (setop * jpath)) : result ustr :=
    match rest with
    | [] => Ok []
    | (o, p) :: rest' =>
        x <- path_text p ;; xs <- rest_text rest' ;;
        Ok (sp :: (match o with OpUnion => e_union E | OpIntersect => e_intersection E end) ++ sp :: x ++ xs)
    end.

  Definition query_text (q : query) : result ustr :=
    x <- path_text (q_first q) ;; xs <- rest_text (q_rest q) ;; Ok (x ++ xs).
End Serialize.
