(* Parse.v — implementation model of jsonpath/stream.py (TokenStream), jsonpath/parse.py (Parser),
   the compile loop of jsonpath/env.py and the compile-time checks of env.py / path.py /
   selectors.py (as repaired by the fix: commits).  One definition per parse_* method, recursing
   on explicit fuel; [EOutOfFuel] is the error value when it runs out (never, for fuel = 4n+16).

   Oracles / outside the model:
   - [re_ok pattern] : does re.compile accept the pattern? (None = outside the regex dialect)
   - integer text with non-ASCII digits, float literals with more than 15 significant digits or
     exponents between 21 and 399: EUnsupported
   - environments with well_typed = False (introspection-based validation): EUnsupported *)
From JP Require Import Base Json PyStr PyJsonStr Syntax Lex.

(* ---- stream.py ------------------------------------------------------------------- *)

Record stream := mkStream { s_cur : token; s_pushed : list token; s_rest : list token }.

Definition eof_tok : token := mkTok TEof [].
Definition is_kind (k : tkind) (t : token) : bool := tkind_eqb (tk t) k.
Definition syntax_error {A} : result A := Err (EJsonPath KSyntax).

(* __next__ : advance; the generator raises JSONPathSyntaxError when it reaches an ILLEGAL token *)
Definition advance (st : stream) : result stream :=
  match s_pushed st with
  | t :: ps => Ok (mkStream t ps (s_rest st))
  | [] =>
      if is_kind TEof (s_cur st) then Ok st
      else match s_rest st with
           | [] => Ok (mkStream eof_tok [] [])
           | t :: r => if is_kind TIllegal t then syntax_error else Ok (mkStream t [] r)
           end
  end.

(* next_token: returns the token that was current *)
Definition next_token (st : stream) : result (token * stream) :=
  st' <- advance st ;; Ok (s_cur st, st').

(* push(tok): pushed.append(current); current = tok *)
Definition push (st : stream) (t : token) : stream :=
  mkStream t (s_pushed st ++ [s_cur st]) (s_rest st).

(* peek: current = next(self); result = self.current; self.push(current) *)
Definition peek (st : stream) : result (token * stream) :=
  st' <- advance st ;; Ok (s_cur st', push st' (s_cur st)).

Definition expect (st : stream) (k : tkind) : result unit :=
  if is_kind k (s_cur st) then Ok tt else syntax_error.

Definition init_stream (toks : list token) : result stream :=
  advance (mkStream (mkTok TIllegal []) [] toks).     (* the dummy first token has kind "" (not EOF) *)

(* ---- function registry (env.setup_function_extensions) and typing ------------------ *)

Inductive etype := TyValue | TyLogical | TyNodes.

Definition u (l : list N) : ustr := l.
Definition fn_sig (name : ustr) : option (list etype * etype) :=
  if ustr_eqb name (u [108; 101; 110; 103; 116; 104]%N) then Some ([TyValue], TyValue)                  (* length *)
  else if ustr_eqb name (u [99; 111; 117; 110; 116]%N) then Some ([TyNodes], TyValue)                   (* count *)
  else if ustr_eqb name (u [118; 97; 108; 117; 101]%N) then Some ([TyNodes], TyValue)                   (* value *)
  else if ustr_eqb name (u [109; 97; 116; 99; 104]%N) then Some ([TyValue; TyValue], TyLogical)         (* match *)
  else if ustr_eqb name (u [115; 101; 97; 114; 99; 104]%N) then Some ([TyValue; TyValue], TyLogical)    (* search *)
  else if ustr_eqb name (u [105; 115; 105; 110; 115; 116; 97; 110; 99; 101]%N) then Some ([TyNodes; TyValue], TyLogical)  (* isinstance *)
  else if ustr_eqb name (u [105; 115]%N) then Some ([TyNodes; TyValue], TyLogical)                       (* is *)
  else if ustr_eqb name (u [116; 121; 112; 101; 111; 102]%N) then Some ([TyNodes], TyValue)             (* typeof *)
  else if ustr_eqb name (u [116; 121; 112; 101]%N) then Some ([TyNodes], TyValue)                       (* type *)
  else None.

Definition etype_eqb (a b : etype) : bool :=
  match a, b with TyValue, TyValue | TyLogical, TyLogical | TyNodes, TyNodes => true | _, _ => false end.

(* JSONPath.singular_query *)
Fixpoint singular_query (p : segs) : bool :=
  match p with
  | PNil => true
  | PCons (GSel (SName _)) r => singular_query r
  | PCons (GSel (SIndex _)) r => singular_query r
  | PCons (GList (LCons (SName _) LNil)) r => singular_query r
  | PCons (GList (LCons (SIndex _) LNil)) r => singular_query r
  | _ => false
  end.

Definition is_path (e : fexpr) : bool := match e with FSelf _ | FRoot _ _ | FCtx _ => true | _ => false end.
Definition path_segs (e : fexpr) : segs := match e with FSelf p | FRoot _ p | FCtx p => p | _ => PNil end.
Definition is_literal_or_nil (e : fexpr) : bool :=
  match e with FNil | FBool _ | FInt _ | FFloat _ | FStr _ | FRegex _ _ => true | _ => false end.
Definition fn_return (e : fexpr) : option etype :=
  match e with FFunc name _ => option_map snd (fn_sig name) | _ => None end.

(* Parser._raise_for_non_comparable_function *)
Definition check_comparable (e : fexpr) : result unit :=
  if is_path e && negb (singular_query (path_segs e)) then Err (EJsonPath KType)
  else match e with
       | FFunc _ _ => match fn_return e with
                      | Some TyValue => Ok tt
                      | Some _ => Err (EJsonPath KType)
                      | None => Ok tt
                      end
       | _ => Ok tt
       end.

(* Parser._raise_for_uncompared *)
Definition check_uncompared (e : fexpr) : result unit :=
  match fn_return e with
  | Some TyValue => Err (EJsonPath KType)
  | _ => if is_literal_or_nil e then syntax_error else Ok tt
  end.

(* JSONPathEnvironment.check_well_typedness, one argument *)
Definition check_arg (t : etype) (a : fexpr) : bool :=
  match t with
  | TyValue =>
      (match a with FNil | FUndefined | FBool _ | FInt _ | FFloat _ | FStr _ | FRegex _ _ | FList _ | FKey => true | _ => false end)
      || (is_path a && singular_query (path_segs a))
      || (match fn_return a with Some TyValue => true | _ => false end)
  | TyLogical => is_path a || (match a with FInfix _ _ _ => true | _ => false end)
  | TyNodes => is_path a || (match fn_return a with Some TyNodes => true | _ => false end)
  end.

Fixpoint check_args (ts : list etype) (args : list fexpr) : bool :=
  match ts, args with
  | [], [] => true
  | t :: ts', a :: args' => check_arg t a && check_args ts' args'
  | _, _ => false
  end.

(* env.validate_function_extension_signature (well_typed = True) *)
Definition validate_function (name : ustr) (args : list fexpr) : result unit :=
  match fn_sig name with
  | None => Err (EJsonPath KName)
  | Some (ts, _) =>
      if negb (Nat.eqb (length args) (length ts)) then Err (EJsonPath KType)
      else if check_args ts args then Ok tt else Err (EJsonPath KType)
  end.

(* ---- literals ----------------------------------------------------------------------- *)

(* Parser._decode_string_literal *)
Definition decode_string (E : env) (t : token) : result ustr :=
  if e_unicode_escape E then
    let value := match tk t with
                 | TSQ => replace2 92 39 [39%N] (replace1 34 [92; 34]%N (tv t))
                 | _ => tv t
                 end in
    match json_loads_str value with
    | Some s => Ok s
    | None => syntax_error
    end
  else Ok (tv t).

Definition has_exponent (s : ustr) : bool := contains_ch 101 s || contains_ch 69 s.

(* int(text) for lexer-produced integer text: None when non-ASCII digits are involved *)
Definition int_of_text (s : ustr) : result Z :=
  match py_int s with
  | Some (Some z) => Ok z
  | Some None => Err (EBuiltin BValueError)
  | None => Err EUnsupported
  end.

(* split  -ddd.fffE+xx  into sign, integer digits, fraction digits, exponent *)
Definition split_number (s : ustr) : option (bool * ustr * ustr * Z) :=
  let '(neg, s1) := match s with 45%N :: t => (true, t) | _ => (false, s) end in
  let '(ip, s2) := span is_ascii_digit s1 in
  let '(fp, s3) := match s2 with 46%N :: t => span is_ascii_digit t | _ => ([], s2) end in
  match s3 with
  | [] => Some (neg, ip, fp, 0%Z)
  | e :: t =>
      if N.eqb e 101 || N.eqb e 69 then
        let '(eneg, t') := match t with
                           | 45%N :: r => (true, r)
                           | 43%N :: r => (false, r)
                           | _ => (false, t)
                           end in
        if all_digits t' then Some (neg, ip, fp, if eneg then (- dec_value t')%Z else dec_value t') else None
      else None
  end.

Fixpoint pow10 (n : nat) : Z := match n with O => 1%Z | S n' => (10 * pow10 n')%Z end.

(* Parser.parse_integer_literal *)
Definition parse_int_literal (s : ustr) : result fexpr :=
  if negb (has_exponent s) then z <- int_of_text s ;; Ok (FInt z)
  else match split_number s with
       | None => Err EUnsupported
       | Some (neg, ip, fp, ex) =>
           if Z.eqb (dec_value ip) 0 then Ok (FInt 0)            (* int(float("0e999")) = 0, whatever the exponent *)
           else if Z.leb 400 ex then syntax_error               (* float overflow -> inf -> OverflowError -> syntax error *)
           else if Z.ltb 20 ex || Z.ltb ex 0 then Err EUnsupported
           else
             let z := (dec_value ip * pow10 (Z.to_nat ex))%Z in
             if Z.ltb 9007199254740992 z then Err EUnsupported   (* would be rounded by float() *)
             else Ok (FInt (if neg then - z else z)%Z)
       end.

(* the significant digits of a digit string (zeros stripped at both ends) and how many trailing
   zeros were dropped *)
Fixpoint drop_zeros (s : ustr) : ustr :=
  match s with
  | c :: s' => if N.eqb c 48 then drop_zeros s' else s
  | [] => []
  end.

Definition sig_digits (ds : ustr) : ustr * nat :=
  let a := drop_zeros ds in
  let b := rev (drop_zeros (rev a)) in
  (b, length a - length b).

(* the float  (-)0.d1..dn * 10^(n + zexp)  as an exact rational, lowest power of ten *)
Definition mk_float (neg : bool) (ds : ustr) (zexp : Z) : result fexpr :=
  let m := dec_value ds in
  let m := if neg then (- m)%Z else m in
  if Z.leb 0 zexp then Ok (FFloat (mkNum true (m * pow10 (Z.to_nat zexp)) 1))
  else match pow10 (Z.to_nat (- zexp)) with
       | Zpos p => Ok (FFloat (mkNum true m p))
       | _ => Err EUnsupported
       end.

(* Parser.parse_float_literal: float(text).  Modelled (exactly, as the rational the decimal text
   denotes) for at most 15 significant digits and a normalised decimal exponent pt
   (value = 0.d1..dn * 10^pt) between -290 and 300; a value of 10^309 or more is inf in the code
   (a syntax error); zero is zero whatever the exponent; everything else is outside the model. *)
Definition parse_float_literal (s : ustr) : result fexpr :=
  match split_number s with
  | None => Err EUnsupported
  | Some (neg, ip, fp, ex) =>
      let '(ds, tz) := sig_digits (ip ++ fp) in
      match ds with
      | [] => if neg then Err EUnsupported                     (* -0.0: the rationals have no signed zero *)
              else Ok (FFloat (mkNum true 0 1))
      | _ =>
          let nd := Z.of_nat (length ds) in
          let zexp := (Z.of_nat tz + ex - Z.of_nat (length fp))%Z in
          let pt := (nd + zexp)%Z in
          if Z.leb 310 pt then syntax_error
          else if Z.ltb 15 nd || Z.ltb 300 pt || Z.ltb pt (-290) then Err EUnsupported
          else mk_float neg ds zexp
      end
  end.

Definition flags_of (s : ustr) : reflags :=
  mkFlags (contains_ch 97 s) (contains_ch 105 s) (contains_ch 109 s) (contains_ch 115 s).

Section Parser.
  Variable E : env.
  Variable re_ok : ustr -> option bool.

  Definition index_in_range (z : Z) : bool := Z.leb (e_min_index E) z && Z.leb z (e_max_index E).

  Definition binop_of_kind (k : tkind) : option binop :=
    match k with
    | TAnd => Some BAnd | TContains => Some BContains | TEq => Some BEq | TGe => Some BGe | TGt => Some BGt
    | TIn => Some BIn | TLe => Some BLe | TLg => Some BLg | TLt => Some BLt | TNe => Some BNe
    | TOr => Some BOr | TRe => Some BRe
    | _ => None
    end.

  (* PRECEDENCES.get(kind, PRECEDENCE_LOWEST) *)
  Definition precedence_of (k : tkind) : nat :=
    match k with
    | TAnd => 4 | TContains => 6 | TEq => 5 | TGe => 5 | TGt => 5 | TIn => 6 | TLe => 5 | TLg => 5 | TLt => 5
    | TNe => 5 | TNot => 7 | TOr => 3 | TRe => 5 | TRParen => 1
    | _ => 1
    end.

  Definition is_comparison_op (o : binop) : bool :=
    match o with BEq | BGe | BGt | BLe | BLt | BNe | BRe => true | _ => false end.
  Definition is_logical_op (o : binop) : bool := match o with BAnd | BOr => true | _ => false end.

  (* Parser.parse_slice: cur = SLICE_START on entry, SLICE_STEP on exit *)
  Definition parse_slice (st : stream) : result (selector * stream) :=
    r1 <- next_token st ;;
    let '(start_tok, st1) := r1 in
    _ <- expect st1 TSliceStop ;;
    r2 <- next_token st1 ;;
    let '(stop_tok, st2) := r2 in
    _ <- expect st2 TSliceStep ;;
    let step_tok := s_cur st2 in
    let bound (t : token) : result (option Z) :=
      match tv t with [] => Ok None | txt => z <- int_of_text txt ;; Ok (Some z) end in
    a <- bound start_tok ;; b <- bound stop_tok ;; c <- bound step_tok ;;
    let ok (o : option Z) := match o with None => true | Some z => index_in_range z end in
    if ok a && ok b && ok c then Ok (SSlice a b c, st2) else Err (EJsonPath KIndex).

  (* Parser.parse_list_literal: cur = '[' on entry, ']' on exit *)
  Fixpoint parse_list_items (fuel : nat) (st : stream) (acc : list fexpr) : result (list fexpr * stream) :=
    match fuel with
    | O => Err EOutOfFuel
    | S f =>
        if is_kind TRBracket (s_cur st) then Ok (rev acc, st)
        else
          item <- (match tk (s_cur st) with
                   | TFalse => Ok (FBool false)
                   | TTrue => Ok (FBool true)
                   | TFloat => parse_float_literal (tv (s_cur st))
                   | TInt => parse_int_literal (tv (s_cur st))
                   | TNil => Ok FNil
                   | TDQ | TSQ => s <- decode_string E (s_cur st) ;; Ok (FStr s)
                   | _ => syntax_error
                   end) ;;
          pk <- peek st ;;
          let '(nxt, st1) := pk in
          st2 <- (if is_kind TRBracket nxt then Ok st1
                  else if is_kind TComma nxt then r <- next_token st1 ;; Ok (snd r)
                  else syntax_error) ;;
          r3 <- next_token st2 ;;
          parse_list_items f (snd r3) (item :: acc)
    end.

  Fixpoint parse_path (fuel : nat) (in_filter : bool) (st : stream) (acc : list segment) {struct fuel}
    : result (list segment * stream) :=
    match fuel with
    | O => Err EOutOfFuel
    | S f =>
        let continue_with (g : segment) (st' : stream) :=
          r <- next_token st' ;; parse_path f in_filter (snd r) (g :: acc) in
        match tk (s_cur st) with
        | TProperty | TBare => continue_with (GSel (SName (tv (s_cur st)))) st
        | TSliceStart => r <- parse_slice st ;; continue_with (GSel (fst r)) (snd r)
        | TWild => continue_with (GSel SWild) st
        | TKeys => continue_with (GSel SKeys) st
        | TDDot => continue_with GDescent st
        | TLBracket => r <- parse_selector_list f st ;; continue_with (GList (sels_of (fst r))) (snd r)
        | _ => Ok (rev acc, if in_filter then push st (s_cur st) else st)
        end
    end
  (* Parser.parse_selector_list: cur = '[' on entry, ']' on exit *)
  with parse_selector_list (fuel : nat) (st : stream) {struct fuel} : result (list selector * stream) :=
    match fuel with
    | O => Err EOutOfFuel
    | S f =>
        r0 <- next_token st ;;
        (fix items (g : nat) (st : stream) (acc : list selector) {struct g} : result (list selector * stream) :=
           match g with
           | O => Err EOutOfFuel
           | S g' =>
               if is_kind TRBracket (s_cur st) then
                 (match acc with [] => syntax_error | _ => Ok (rev acc, st) end)
               else
                 it <- (match tk (s_cur st) with
                        | TInt =>
                            let v := tv (s_cur st) in
                            if (Nat.ltb 1 (length v) && starts_with_ch 48 v) || starts_with [45; 48]%N v then syntax_error
                            else if has_exponent v then syntax_error
                            else z <- int_of_text v ;;
                                 if index_in_range z then Ok (SIndex z, st) else Err (EJsonPath KIndex)
                        | TBare => Ok (SName (tv (s_cur st)), st)
                        | TKeys => Ok (SKeys, st)
                        | TDQ | TSQ =>
                            if existsb (fun c => N.ltb c 32) (tv (s_cur st)) then syntax_error
                            else s <- decode_string E (s_cur st) ;; Ok (SName s, st)
                        | TSliceStart => parse_slice st
                        | TWild => Ok (SWild, st)
                        | TFilter => match f with
                                     | O => Err EOutOfFuel
                                     | S _ => r <- parse_filter f st ;; Ok (SFilter (fst r), snd r)
                                     end
                        | _ => syntax_error
                        end) ;;
                 let '(sel, st1) := it in
                 pk <- peek st1 ;;
                 let '(nxt, st2) := pk in
                 if is_kind TEof nxt then syntax_error
                 else
                   st3 <- (if is_kind TRBracket nxt then Ok st2
                           else if is_kind TComma nxt then
                             r <- next_token st2 ;;
                             pk2 <- peek (snd r) ;;
                             if is_kind TRBracket (fst pk2) then syntax_error else Ok (snd pk2)
                           else syntax_error) ;;
                   r4 <- next_token st3 ;;
                   items g' (snd r4) (sel :: acc)
           end) f (snd r0) []
    end
  (* Parser.parse_filter: cur = '?' on entry, last token of the expression on exit *)
  with parse_filter (fuel : nat) (st : stream) {struct fuel} : result (fexpr * stream) :=
    match fuel with
    | O => Err EOutOfFuel
    | S f =>
        r0 <- next_token st ;;
        r <- parse_filter_selector f (snd r0) 1 ;;
        _ <- check_uncompared (fst r) ;;
        Ok r
    end
  (* Parser.parse_filter_selector *)
  with parse_filter_selector (fuel : nat) (st : stream) (prec : nat) {struct fuel} : result (fexpr * stream) :=
    match fuel with
    | O => Err EOutOfFuel
    | S f =>
        l <- parse_primary f st ;;
        (fix loop (g : nat) (lhs : fexpr) (st : stream) {struct g} : result (fexpr * stream) :=
           match g with
           | O => Err EOutOfFuel
           | S g' =>
               pk <- peek st ;;
               let '(nxt, st1) := pk in
               if is_kind TEof nxt || is_kind TRBracket nxt || Nat.ltb (precedence_of (tk nxt)) prec then Ok (lhs, st1)
               else match binop_of_kind (tk nxt) with
                    | None => Ok (lhs, st1)
                    | Some _ =>
                        r <- next_token st1 ;;
                        r2 <- parse_infix f (snd r) lhs ;;
                        loop g' (fst r2) (snd r2)
                    end
           end) f (fst l) (snd l)
    end
  (* Parser.parse_infix_expression: cur = the operator on entry *)
  with parse_infix (fuel : nat) (st : stream) (lhs : fexpr) {struct fuel} : result (fexpr * stream) :=
    match fuel with
    | O => Err EOutOfFuel
    | S f =>
        r0 <- next_token st ;;
        let '(optok, st1) := r0 in
        match binop_of_kind (tk optok) with
        | None => Err (EBuiltin BKeyError)          (* BINARY_OPERATORS[tok.kind] *)
        | Some o =>
            r <- parse_filter_selector f st1 (precedence_of (tk optok)) ;;
            let '(rhs, st2) := r in
            _ <- (if e_well_typed E && is_comparison_op o
                  then (_ <- check_comparable lhs ;; check_comparable rhs) else Ok tt) ;;
            _ <- (if is_logical_op o then (_ <- check_uncompared lhs ;; check_uncompared rhs) else Ok tt) ;;
            Ok (FInfix lhs o rhs, st2)
        end
    end
  (* token_map[kind](stream) *)
  with parse_primary (fuel : nat) (st : stream) {struct fuel} : result (fexpr * stream) :=
    match fuel with
    | O => Err EOutOfFuel
    | S f =>
        let cur := s_cur st in
        let sub_path (mk : segs -> fexpr) :=
          r0 <- next_token st ;;
          r <- parse_path f true (snd r0) [] ;;
          Ok (mk (segs_of (fst r)), snd r) in
        match tk cur with
        | TDQ | TSQ => s <- decode_string E cur ;; Ok (FStr s, st)
        | TFakeRoot => sub_path (FRoot true)
        | TRoot => sub_path (FRoot false)
        | TSelf => sub_path FSelf
        | TFilterCtx => sub_path FCtx
        | TFalse => Ok (FBool false, st)
        | TTrue => Ok (FBool true, st)
        | TFloat => e <- parse_float_literal (tv cur) ;; Ok (e, st)
        | TInt => e <- parse_int_literal (tv cur) ;; Ok (e, st)
        | TKey => Ok (FKey, st)
        | TMissing | TUndefined => Ok (FUndefined, st)
        | TNil => Ok (FNil, st)
        | TLBracket =>
            r0 <- next_token st ;;
            r <- parse_list_items f (snd r0) [] ;;
            Ok (FList (fexprs_of (fst r)), snd r)
        | TNot =>
            (* parse_prefix_expression *)
            r0 <- next_token st ;;
            r <- parse_filter_selector f (snd r0) 7 ;;
            _ <- check_uncompared (fst r) ;;
            Ok (FNot (fst r), snd r)
        | TLParen =>
            (* parse_grouped_expression *)
            r0 <- next_token st ;;
            r <- parse_filter_selector f (snd r0) 1 ;;
            r1 <- next_token (snd r) ;;
            (fix grp (g : nat) (e : fexpr) (st : stream) {struct g} : result (fexpr * stream) :=
               match g with
               | O => Err EOutOfFuel
               | S g' =>
                   if is_kind TRParen (s_cur st) then Ok (e, st)
                   else if is_kind TEof (s_cur st) then syntax_error
                   else match binop_of_kind (tk (s_cur st)) with
                        | None => syntax_error
                        | Some _ => r2 <- parse_infix f st e ;; grp g' (fst r2) (snd r2)
                        end
               end) f (fst r) (snd r1)
        | TRePattern =>
            pk <- peek st ;;
            let '(nxt, st1) := pk in
            r <- (if is_kind TReFlags nxt then r' <- next_token st1 ;; Ok (flags_of (tv nxt), snd r')
                  else Ok (flags_of [], st1)) ;;
            match re_ok (tv cur) with
            | None => Err EUnsupported
            | Some false => syntax_error
            | Some true => Ok (FRegex (tv cur) (fst r), snd r)
            end
        | TFunction =>
            (* parse_function_extension *)
            r0 <- next_token st ;;
            (fix args (g : nat) (st : stream) (acc : list fexpr) {struct g} : result (fexpr * stream) :=
               match g with
               | O => Err EOutOfFuel
               | S g' =>
                   if is_kind TRParen (s_cur st) then
                     (if e_well_typed E then
                        _ <- validate_function (tv cur) (rev acc) ;;
                        Ok (FFunc (tv cur) (fexprs_of (rev acc)), st)
                      else match fn_sig (tv cur) with
                           | None => Err (EJsonPath KName)
                           | Some _ => Err EUnsupported
                           end)
                   else
                     a <- (match tk (s_cur st) with
                           | TDQ | TSQ | TFakeRoot | TRoot | TSelf | TFilterCtx | TFalse | TTrue | TFloat | TInt
                           | TKey | TNil | TFunction => parse_primary f st
                           | _ => syntax_error
                           end) ;;
                     (fix ops (h : nat) (e : fexpr) (st : stream) {struct h} : result (fexpr * stream) :=
                        match h with
                        | O => Err EOutOfFuel
                        | S h' =>
                            pk <- peek st ;;
                            match binop_of_kind (tk (fst pk)) with
                            | Some _ =>
                                r <- next_token (snd pk) ;;
                                r2 <- parse_infix f (snd r) e ;;
                                ops h' (fst r2) (snd r2)
                            | None =>
                                st2 <- (if is_kind TRParen (fst pk) then Ok (snd pk)
                                        else if is_kind TComma (fst pk) then r <- next_token (snd pk) ;; Ok (snd r)
                                        else syntax_error) ;;
                                r3 <- next_token st2 ;;
                                args g' (snd r3) (e :: acc)
                            end
                        end) f (fst a) (snd a)
               end) f (snd r0) []
        | TEof | TRBracket => syntax_error
        | _ => syntax_error
        end
    end.

  (* Parser.parse: one JSONPath; the trailing check runs when the generator is exhausted *)
  Definition parse_one (fuel : nat) (st : stream) : result (jpath * stream) :=
    let fake := is_kind TFakeRoot (s_cur st) in
    st1 <- (if is_kind TRoot (s_cur st) || is_kind TFakeRoot (s_cur st)
            then r <- next_token st ;; Ok (snd r) else Ok st) ;;
    r <- parse_path fuel false st1 [] ;;
    let st2 := snd r in
    if is_kind TEof (s_cur st2) || is_kind TIntersect (s_cur st2) || is_kind TUnion (s_cur st2)
    then Ok (mkPath fake (segs_of (fst r)), st2)
    else syntax_error.

  (* JSONPathEnvironment.compile *)
  Fixpoint compile_rest (fuel : nat) (pfuel : nat) (st : stream) (acc : list (setop * jpath))
    : result (list (setop * jpath)) :=
    match fuel with
    | O => Err EOutOfFuel
    | S f =>
        if is_kind TEof (s_cur st) then Ok (rev acc)
        else
          pk <- peek st ;;
          if is_kind TEof (fst pk) then syntax_error
          else
            let st1 := snd pk in
            if is_kind TUnion (s_cur st1) then
              r <- next_token st1 ;; p <- parse_one pfuel (snd r) ;;
              compile_rest f pfuel (snd p) ((OpUnion, fst p) :: acc)
            else if is_kind TIntersect (s_cur st1) then
              r <- next_token st1 ;; p <- parse_one pfuel (snd r) ;;
              compile_rest f pfuel (snd p) ((OpIntersect, fst p) :: acc)
            else syntax_error
    end.

  Definition compile_tokens (toks : list token) : result query :=
    let fuel := 4 * length toks + 16 in
    st <- init_stream toks ;;
    p <- parse_one fuel st ;;
    rest <- compile_rest (S (length toks)) fuel (snd p) [] ;;
    Ok (mkQuery (fst p) rest).

  Definition compile (text : ustr) : result query := compile_tokens (tokenize E text).
End Parser.
