(* Fluent.v — implementation model of jsonpath/fluent_api.py : class Query.
   A Query owns one iterator [_it]; every method rewraps or consumes it.
   Iterators are modelled operationally: [next] pulls one element.

   rt assumptions (CPython itertools / collections, as documented):
   - itertools.islice(it, n)     : lazy, pulls from [it] only while n > 0
   - next(islice(it, n, n), None): pulls n elements (or until exhausted)
   - collections.deque(it, maxlen=n): drains [it], keeping the last n
   - itertools.tee(it, n)        : n independent iterators over what remained
   - list(islice(it, n))         : pulls up to n elements into a list          *)
From JP Require Import Base.

Section Fluent.
  Variable A : Type.

  Inductive iter :=
  | IList (l : list A)                 (* list_iterator / generator / deque iterator *)
  | ISlice (src : iter) (n : nat).     (* itertools.islice(src, n) with n still to go *)

  Fixpoint next (it : iter) : option (A * iter) :=
    match it with
    | IList [] => None
    | IList (x :: l) => Some (x, IList l)
    | ISlice _ O => None
    | ISlice src (S n) =>
        match next src with
        | None => None
        | Some (x, src') => Some (x, ISlice src' n)
        end
    end.

  (* an upper bound on how many elements can still be pulled; used as fuel *)
  Fixpoint bound (it : iter) : nat :=
    match it with
    | IList l => length l
    | ISlice src n => Nat.min n (bound src)
    end.

  (* pull up to n elements: returns them and the advanced iterator *)
  Fixpoint pull (n : nat) (it : iter) : list A * iter :=
    match n with
    | O => ([], it)
    | S n' =>
        match next it with
        | None => ([], it)
        | Some (x, it') => let '(xs, it'') := pull n' it' in (x :: xs, it'')
        end
    end.

  (* operational drain: pull until exhausted *)
  Definition drain_op (it : iter) : list A := fst (pull (bound it) it).

  (* collections.deque(maxlen=n).append *)
  Definition deque_push (n : nat) (q : list A) (x : A) : list A :=
    match n with
    | O => []
    | _ => if Nat.ltb (length q) n then q ++ [x] else tl q ++ [x]
    end.
  Definition deque_of (n : nat) (xs : list A) : list A := fold_left (deque_push n) xs [].

  (* ---- the Query methods; counts are Python ints (Z) ------------------- *)

  Definition limit (n : Z) (it : iter) : result iter :=
    if Z.ltb n 0 then Err (EBuiltin BValueError) else Ok (ISlice it (Z.to_nat n)).

  Definition drop (n : Z) (it : iter) : result iter :=
    if Z.ltb n 0 then Err (EBuiltin BValueError)
    else if Z.ltb 0 n then Ok (snd (pull (Z.to_nat n) it)) else Ok it.

  Definition tail (n : Z) (it : iter) : result iter :=
    if Z.ltb n 0 then Err (EBuiltin BValueError)
    else Ok (IList (deque_of (Z.to_nat n) (drain_op it))).

  Definition first_one (it : iter) : option A * iter :=
    match next it with
    | None => (None, it)
    | Some (x, it') => (Some x, it')
    end.

  (* last_one: self.tail(1) rewraps self._it, then next(iter(self)) *)
  Definition last_one (it : iter) : option A * iter :=
    first_one (IList (deque_of 1 (drain_op it))).

  (* take: Query(list(islice(self._it, n))) — islice refuses a negative stop *)
  Definition take (n : Z) (it : iter) : result (iter * iter) :=
    if Z.ltb n 0 then Err (EBuiltin BValueError)
    else let '(xs, it') := pull (Z.to_nat n) it in Ok (IList xs, it').

  (* tee: itertools.tee refuses a negative n *)
  Definition tee (n : Z) (it : iter) : result (list iter) :=
    if Z.ltb n 0 then Err (EBuiltin BValueError)
    else Ok (repeat (IList (drain_op it)) (Z.to_nat n)).

  (* ---- programs over several live queries ------------------------------ *)

  Inductive op :=
  | OLimit (q : nat) (n : Z) | ODrop (q : nat) (n : Z) | OTail (q : nat) (n : Z)
  | OTake (q : nat) (n : Z) | OTee (q : nat) (n : Z)
  | OFirst (q : nat) | OLast (q : nat).

  Inductive event := EvItem (x : option A) | EvValueError | EvNew (k : nat).

  Fixpoint set_nth {B} (l : list B) (i : nat) (x : B) : list B :=
    match l, i with
    | [], _ => []
    | _ :: l', O => x :: l'
    | y :: l', S i' => y :: set_nth l' i' x
    end.

  Definition state := list iter.

  Definition fstep (st : state) (o : op) : state * list event :=
    let on (q : nat) (f : iter -> state * list event) :=
      match nth_opt st q with Some it => f it | None => (st, []) end in
    match o with
    | OLimit q n => on q (fun it => match limit n it with
                                    | Ok it' => (set_nth st q it', [])
                                    | Err _ => (st, [EvValueError]) end)
    | ODrop q n => on q (fun it => match drop n it with
                                   | Ok it' => (set_nth st q it', [])
                                   | Err _ => (st, [EvValueError]) end)
    | OTail q n => on q (fun it => match tail n it with
                                   | Ok it' => (set_nth st q it', [])
                                   | Err _ => (st, [EvValueError]) end)
    | OTake q n => on q (fun it => match take n it with
                                   | Ok (new, it') => (set_nth st q it' ++ [new], [EvNew 1])
                                   | Err _ => (st, [EvValueError]) end)
    | OTee q n => on q (fun it => match tee n it with
                                  | Ok news => (set_nth st q (IList []) ++ news, [EvNew (length news)])
                                  | Err _ => (st, [EvValueError]) end)
    | OFirst q => on q (fun it => let '(x, it') := first_one it in (set_nth st q it', [EvItem x]))
    | OLast q => on q (fun it => let '(x, it') := last_one it in (set_nth st q it', [EvItem x]))
    end.

  Fixpoint run (ops : list op) (st : state) : state * list event :=
    match ops with
    | [] => (st, [])
    | o :: ops' =>
        let '(st', ev) := fstep st o in
        let '(st'', ev') := run ops' st' in
        (st'', ev ++ ev')
    end.

  (* what the user finally sees: the events, then every query drained *)
  Definition observe (ops : list op) (xs : list A) : list event * list (list A) :=
    let '(st, ev) := run ops [IList xs] in (ev, map drain_op st).

End Fluent.

Arguments IList {A}.
Arguments ISlice {A}.
Arguments EvItem {A}. Arguments EvValueError {A}. Arguments EvNew {A}.
