(* Cli.v — implementation model of the decision logic of jsonpath/cli.py: which library outcome
   ends in which exit status, stdout/stderr behaviour and traceback, for each sub-command.
   The handlers' try/except structure is NOT written by hand: it is regenerated from the source
   on every run (gen/Gen_cli.v, translator/gen_cli.py) and interpreted here, so the theorems in
   props/C18.v are re-checked against what cli.py says now.
   argparse, file objects, json.dump and process exit are runtime: the harness runs
   jsonpath.cli.main() on the full option grid (partial). *)
From JP Require Import Base Gen_cli.

Definition cname := list N.
Fixpoint cname_eqb (a b : cname) : bool :=
  match a, b with
  | [], [] => true
  | x :: a', y :: b' => N.eqb x y && cname_eqb a' b'
  | _, _ => false
  end.

(* is class c a (reflexive, transitive) subclass of k, per the generated hierarchy? *)
Fixpoint subclass_fuel (fuel : nat) (c k : cname) : bool :=
  match fuel with
  | O => false
  | S f =>
      cname_eqb c k ||
      match find (fun e => cname_eqb (fst e) c) exc_hierarchy with
      | Some (_, bases) => existsb (fun b => subclass_fuel f b k) bases
      | None => false
      end
  end.
Definition subclass (c k : cname) : bool := subclass_fuel 8 c k.

(* what the user observes *)
Record observed := mkObs {
  o_status : nat;            (* process exit status *)
  o_stdout : bool;           (* the JSON serialisation of the result is written *)
  o_stderr_lines : nat;      (* lines written by the handler itself *)
  o_traceback : bool         (* an exception reaches the interpreter's top level *)
}.

Definition clause := (list cname * bool * nat * bool)%type.

(* one try statement: the first clause whose classes include a superclass of the raised exception *)
Fixpoint handle (clauses : list clause) (raised : cname) (debug : bool) : observed :=
  match clauses with
  | [] => mkObs 1 false 0 true                         (* uncaught: traceback, status 1 *)
  | (classes, reraise, writes, exits) :: rest =>
      if existsb (fun k => subclass raised k) classes then
        if reraise && debug then mkObs 1 false 0 true
        else if exits then mkObs 1 false writes false
        else mkObs 0 false writes false                 (* swallowed: the handler would go on *)
      else handle rest raised debug
  end.

Inductive command := CmdPath | CmdPointer | CmdPatch.

(* where in the handler the library call fails: index of the try statement *)
Definition tries_of (c : command) : list (list clause) :=
  match c with CmdPath => cli_path_tries | CmdPointer => cli_pointer_tries | CmdPatch => cli_patch_tries end.

(* an outcome: success, or exception class raised inside the n-th try statement *)
Inductive cli_outcome := Success | Raises (stage : nat) (cls : cname).

Definition cli_run (c : command) (debug : bool) (o : cli_outcome) : observed :=
  match o with
  | Success => mkObs 0 true 0 false
  | Raises stage cls =>
      match nth_error (tries_of c) stage with
      | Some clauses => handle clauses cls debug
      | None => mkObs 1 false 0 true
      end
  end.

(* every attribute a handler reads is a destination its parser defines *)
Definition attrs_defined (c : command) : bool :=
  let '(reads, dests) := match c with
                         | CmdPath => (cli_path_reads, cli_path_dests)
                         | CmdPointer => (cli_pointer_reads, cli_pointer_dests)
                         | CmdPatch => (cli_patch_reads, cli_patch_dests)
                         end in
  forallb (fun r => existsb (cname_eqb r) dests || cname_eqb r [102; 117; 110; 99]%N) reads.   (* "func" is set by set_defaults *)
