(* Pointer.v — implementation model of jsonpath/pointer.py : class JSONPointer
   (as repaired by the fix: commits listed in known_findings.json).
   Code-shaped: same guards in the same order as the Python.

   Not modelled (the functions answer EUnsupported, the harness skips those cases):
   - uri_decode=True (urllib.parse.unquote)
   - the "unicode-escape" codec on text that contains a backslash            *)
From JP Require Import Base Json PyStr.

Inductive ppart := PInt (z : Z) | PStr (s : ustr).
Definition pointer := list ppart.       (* JSONPointer.parts; _s is [encode parts] *)

Definition max_int_index : Z := 9007199254740991.    (* 2**53 - 1 *)
Definition min_int_index : Z := (-9007199254740991).

(* str(p) for a part *)
Definition part_text (p : ppart) : ustr :=
  match p with PInt z => str_of_Z z | PStr s => s end.

(* JSONPointer._encode *)
Definition encode_token (t : ustr) : ustr :=
  replace1 ch_slash [ch_tilde; ch_1] (replace1 ch_tilde [ch_tilde; ch_0] t).

Definition encode (parts : pointer) : ustr :=
  match parts with
  | [] => []
  | _ => ch_slash :: join_with ch_slash (map (fun p => encode_token (part_text p)) parts)
  end.

(* JSONPointer._index *)
Definition index_of_text (s : ustr) : result ppart :=
  if Nat.ltb 1 (length s) && starts_with_ch ch_0 s then Ok (PStr s)
  else if negb (re_index_match s) then Ok (PStr s)
  else
    let z := int_of_index_text s in
    if Z.ltb z min_int_index || Z.ltb max_int_index z then Err (EPointer KPtrIndex)
    else Ok (PInt z).

(* JSONPointer._unicode_escape *)
Definition unicode_escape (s : ustr) : result ustr :=
  if negb (contains_ch ch_backslash s) then Ok s else Err EUnsupported.

Definition decode_token (t : ustr) : ustr :=
  replace2 ch_tilde ch_0 [ch_tilde] (replace2 ch_tilde ch_1 [ch_slash] t).

(* JSONPointer._parse (uri_decode = False) *)
Definition parse (unicode_esc : bool) (s : ustr) : result pointer :=
  s1 <- (if unicode_esc then unicode_escape s else Ok s) ;;
  let s2 := lstrip s1 in
  match s2 with
  | c :: _ => if negb (N.eqb c ch_slash) then Err (EPointer KPtrSyntax)
              else map_result (fun t => index_of_text (decode_token t)) (tl (split_on ch_slash s2))
  | [] => Ok []
  end.

(* JSONPointer.__init__(pointer, parts=...) : `parts or self._parse(pointer)` *)
Definition make (unicode_esc : bool) (s : ustr) (parts : pointer) : result pointer :=
  match parts with [] => parse unicode_esc s | _ => Ok parts end.

(* ---- resolution ----------------------------------------------------------- *)

(* What _getitem returns: a node of the document (with its location), or — for the
   non-standard '#'/'~' tokens — a bare key or index value. *)
Inductive rv := RNode (l : loc) (v : json) | RVal (v : json).
Definition rv_json (r : rv) : json := match r with RNode _ v => v | RVal v => v end.
Definition rv_child (r : rv) (p : part) (v : json) : rv :=
  match r with RNode l _ => RNode (l ++ [p]) v | RVal _ => RVal v end.

(* Python list indexing obj[z] *)
Definition py_list_index {A} (l : list A) (z : Z) : option (nat * A) :=
  let n := Z.of_nat (length l) in
  let i := if Z.ltb z 0 then (n + z)%Z else z in
  if Z.ltb i 0 || Z.leb n i then None
  else match nth_opt l (Z.to_nat i) with Some x => Some (Z.to_nat i, x) | None => None end.

(* JSONPointer._getitem *)
Definition getitem (cur : rv) (key : ppart) : result rv :=
  match rv_json cur with
  | JStr _ => Err (EPointer KPtrType)
  | JObj members =>
      match key with
      | PStr k =>
          match lookup k members with
          | Some v => Ok (rv_child cur (PKey k) v)
          | None =>
              match k with
              | c :: rest =>
                  if (N.eqb c ch_tilde || N.eqb c ch_hash) &&
                     (match lookup rest members with Some _ => true | None => false end)
                  then Ok (RVal (JStr rest))
                  else Err (EPointer KPtrKey)
              | [] => Err (EPointer KPtrKey)
              end
          end
      | PInt z =>
          (* getitem(dict, int) raises KeyError; retried with str(key) *)
          match lookup (str_of_Z z) members with
          | Some v => Ok (rv_child cur (PKey (str_of_Z z)) v)
          | None => Err (EPointer KPtrKey)
          end
      end
  | JArr items =>
      match key with
      | PInt z =>
          match py_list_index items z with
          | Some (i, v) => Ok (rv_child cur (PIdx i) v)
          | None => Err (EPointer KPtrIndex)
          end
      | PStr k =>
          (* getitem(list, str) raises TypeError *)
          if ustr_eqb k [ch_minus] then Err (EPointer KPtrIndex)
          else if starts_with_ch ch_hash k then
            match py_int (tl k) with
            | None => Err EUnsupported
            | Some None => Err (EPointer KPtrType)
            | Some (Some i) =>
                if Z.leb (Z.of_nat (length items)) i then Err (EPointer KPtrIndex)
                else Ok (RVal (JNum (num_of_Z i)))
            end
          else
            idx <- index_of_text k ;;
            match idx with
            | PInt z =>
                match py_list_index items z with
                | Some (i, v) => Ok (rv_child cur (PIdx i) v)
                | None => Err (EPointer KPtrIndex)
                end
            | PStr _ => Err (EPointer KPtrType)
            end
      end
  | _ => Err (EPointer KPtrType)
  end.

Fixpoint reduce_getitem (cur : rv) (parts : pointer) : result rv :=
  match parts with
  | [] => Ok cur
  | k :: parts' => c <- getitem cur k ;; reduce_getitem c parts'
  end.

(* JSONPointer.resolve(data) and resolve(data, default=...) *)
Definition resolve (p : pointer) (d : json) : result rv := reduce_getitem (RNode [] d) p.

Definition resolve_default (p : pointer) (d : json) (dflt : json) : result rv :=
  match resolve p d with
  | Ok r => Ok r
  | Err e => if is_resolution_error e then Ok (RVal dflt) else Err e
  end.

(* JSONPointer.exists *)
Definition exists_ (p : pointer) (d : json) : result bool :=
  match resolve p d with
  | Ok _ => Ok true
  | Err e => if is_resolution_error e then Ok false else Err e
  end.

(* JSONPointer.resolve_parent: (parent, obj) with obj = None for UNDEFINED;
   parent = None for the root pointer *)
Definition resolve_parent (p : pointer) (d : json) : result (option rv * option rv) :=
  match p with
  | [] => r <- resolve p d ;; Ok (None, Some r)
  | _ =>
      parent <- reduce_getitem (RNode [] d) (removelast p) ;;
      match last_opt p with
      | None => Err (EBuiltin BIndexError)     (* unreachable: p is non-empty *)
      | Some k =>
          match getitem parent k with
          | Ok r => Ok (Some parent, Some r)
          | Err (EPointer KPtrIndex) | Err (EPointer KPtrKey) => Ok (Some parent, None)
          | Err e => Err e
          end
      end
  end.

(* ---- navigation ---------------------------------------------------------- *)

Definition tokens (p : pointer) : list ustr := map part_text p.

Fixpoint tokens_eqb (a b : list ustr) : bool :=
  match a, b with
  | [], [] => true
  | x :: a', y :: b' => ustr_eqb x y && tokens_eqb a' b'
  | _, _ => false
  end.

(* JSONPointer.__eq__ *)
Definition ptr_eqb (a b : pointer) : bool := tokens_eqb (tokens a) (tokens b).

(* JSONPointer.is_relative_to *)
Definition is_relative_to (self other : pointer) : bool :=
  Nat.ltb (length other) (length self) &&
  tokens_eqb (firstn (length other) (tokens self)) (tokens other).

(* JSONPointer.parent *)
Definition parent (p : pointer) : pointer :=
  match p with [] => p | _ => removelast p end.

(* JSONPointer.__truediv__ (other is a str) *)
Definition truediv (p : pointer) (other : ustr) : result pointer :=
  o <- unicode_escape (lstrip other) ;;
  if starts_with_ch ch_slash o then parse false o
  else
    ps <- map_result (fun t => index_of_text (decode_token t)) (split_on ch_slash o) ;;
    Ok (p ++ ps).

(* JSONPointer.join, variadic *)
Fixpoint join (p : pointer) (parts : list ustr) : result pointer :=
  match parts with
  | [] => Ok p
  | t :: parts' => p' <- truediv p t ;; join p' parts'
  end.

(* JSONPointer.from_parts (uri_decode = False): every part through str() *)
Definition from_parts (unicode_esc : bool) (parts : pointer) : result pointer :=
  map_result (fun p =>
                t <- (if unicode_esc then unicode_escape (part_text p) else Ok (part_text p)) ;;
                Ok (PStr t)) parts.

(* JSONPointer.from_match: the match's parts taken verbatim — str for member names (even
   when they look like integers), int for array indices *)
Definition of_loc (l : loc) : pointer :=
  map (fun p => match p with PKey k => PStr k | PIdx i => PInt (Z.of_nat i) end) l.
