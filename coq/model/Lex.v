(* Lex.v — implementation model of jsonpath/lex.py (as repaired by the fix: commits).
   One master regular expression of ordered alternatives, scanned with finditer: at each
   position the FIRST alternative (in list order) that matches wins; each alternative is
   modelled by its own matcher, with the backtracking that alternative can do.
   Unicode classes: \d and \w (for \b) use the tables generated from the running
   interpreter (gen/Gen_unicode.v); \s is str.isspace. *)
From JP Require Import Base PyStr Syntax Gen_unicode.

Inductive tkind :=
| TRoot | TFakeRoot | TSelf | TKey | TUnion | TIntersect | TFilterCtx | TKeys
| TDQ | TSQ | TRePattern | TReFlags | TSliceStart | TSliceStop | TSliceStep | TFunction
| TProperty | TBare | TFloat | TInt | TDDot | TAnd | TOr | TWild | TFilter | TIn | TTrue | TFalse
| TNil | TContains | TUndefined | TMissing | TLBracket | TRBracket | TComma
| TEq | TNe | TLg | TLe | TGe | TRe | TLt | TGt | TNot | TLParen | TRParen | TEof | TIllegal.

Record token := mkTok { tk : tkind; tv : ustr }.

Definition tkind_eqb (a b : tkind) : bool :=
  match a, b with
  | TRoot, TRoot | TFakeRoot, TFakeRoot | TSelf, TSelf | TKey, TKey | TUnion, TUnion | TIntersect, TIntersect
  | TFilterCtx, TFilterCtx | TKeys, TKeys | TDQ, TDQ | TSQ, TSQ | TRePattern, TRePattern | TReFlags, TReFlags
  | TSliceStart, TSliceStart | TSliceStop, TSliceStop | TSliceStep, TSliceStep | TFunction, TFunction
  | TProperty, TProperty | TBare, TBare | TFloat, TFloat | TInt, TInt | TDDot, TDDot | TAnd, TAnd | TOr, TOr
  | TWild, TWild | TFilter, TFilter | TIn, TIn | TTrue, TTrue | TFalse, TFalse | TNil, TNil | TContains, TContains
  | TUndefined, TUndefined | TMissing, TMissing | TLBracket, TLBracket | TRBracket, TRBracket | TComma, TComma
  | TEq, TEq | TNe, TNe | TLg, TLg | TLe, TLe | TGe, TGe | TRe, TRe | TLt, TLt | TGt, TGt | TNot, TNot
  | TLParen, TLParen | TRParen, TRParen | TEof, TEof | TIllegal, TIllegal => true
  | _, _ => false
  end.

(* ---- character classes ---------------------------------------------------------- *)

Definition is_udigit (c : N) : bool :=
  is_ascii_digit c || existsb (fun z => N.leb z c && N.leb c (z + 9)) nd_zeros.

Definition is_ascii_alpha (c : N) : bool := (N.leb 65 c && N.leb c 90) || (N.leb 97 c && N.leb c 122).

(* \w *)
Definition is_word (c : N) : bool :=
  if N.ltb c 128 then is_ascii_alpha c || is_ascii_digit c || N.eqb c 95
  else existsb (fun r => N.leb (fst r) c && N.leb c (snd r)) word_ranges.

(* key_pattern = [\u0080-\U0010FFFFa-zA-Z_][\u0080-\U0010FFFFa-zA-Z0-9_-]* *)
Definition key_first (c : N) : bool := N.leb 128 c || is_ascii_alpha c || N.eqb c 95.
Definition key_rest (c : N) : bool := key_first c || is_ascii_digit c || N.eqb c 45.

Fixpoint span (p : N -> bool) (s : ustr) : ustr * ustr :=
  match s with
  | c :: s' => if p c then let '(a, b) := span p s' in (c :: a, b) else ([], s)
  | [] => ([], [])
  end.

Definition match_key (s : ustr) : option (ustr * ustr) :=
  match s with
  | c :: s' => if key_first c then let '(a, b) := span key_rest s' in Some (c :: a, b) else None
  | [] => None
  end.

(* \b after a token that ends in a word character: next char is not a word char (or end) *)
Definition at_boundary (rest : ustr) : bool :=
  match rest with [] => true | c :: _ => negb (is_word c) end.

(* a literal word followed by \b *)
Definition match_word (w : ustr) (s : ustr) : option ustr :=
  if starts_with w s then
    let rest := skipn (length w) s in
    if at_boundary rest then Some rest else None
  else None.

Definition match_lit (w : ustr) (s : ustr) : option ustr :=
  if starts_with w s then Some (skipn (length w) s) else None.

(* ---- the alternatives --------------------------------------------------------------- *)

(* quoted string body up to the closing quote q:  (?:[^q\\]|\\.)*q  *)
Fixpoint scan_quoted (q : N) (fuel : nat) (s : ustr) : option (ustr * ustr) :=
  match fuel with
  | O => None
  | S f =>
      match s with
      | [] => None
      | c :: s' =>
          if N.eqb c q then Some ([], s')
          else if N.eqb c 92 then
            match s' with
            | e :: s'' => match scan_quoted q f s'' with
                          | Some (v, r) => Some (c :: e :: v, r)
                          | None => None
                          end
            | [] => None
            end
          else match scan_quoted q f s' with
               | Some (v, r) => Some (c :: v, r)
               | None => None
               end
      end
  end.

(* RE_PATTERN: a slash, at least one character (lazily) up to the next slash, then flags from aims *)
Fixpoint until_slash (s : ustr) : option (ustr * ustr) :=
  match s with
  | [] => None
  | c :: s' => if N.eqb c 47 then Some ([], s')
               else match until_slash s' with Some (a, r) => Some (c :: a, r) | None => None end
  end.

Definition is_flag (c : N) : bool := N.eqb c 97 || N.eqb c 105 || N.eqb c 109 || N.eqb c 115.

Definition match_regex (s : ustr) : option (ustr * ustr * ustr) :=
  match s with
  | 47%N :: c :: s' =>
      match until_slash s' with
      | Some (p, r) => let '(fl, r') := span is_flag r in Some (c :: p, fl, r')
      | None => None
      end
  | _ => None
  end.

(* (?:-?\d+)? : greedy, empty when there is no digit after the optional minus *)
Definition opt_int (s : ustr) : ustr * ustr :=
  match s with
  | 45%N :: s' =>
      let '(d, r) := span is_udigit s' in
      match d with [] => ([], s) | _ => (45%N :: d, r) end
  | _ => span is_udigit s
  end.

Definition skip_ws (s : ustr) : ustr := snd (span py_isspace s).

(* LSLICE: optional signed int, ws, colon, ws, optional signed int, ws, optionally colon ws optional signed int;
   result: start, stop, step, rest *)
Definition match_slice (s : ustr) : option (ustr * ustr * ustr * ustr) :=
  let after_colon (start : ustr) (r : ustr) : option (ustr * ustr * ustr * ustr) :=
    let r1 := skip_ws r in
    let '(stop, r2) := opt_int r1 in
    let r3 := skip_ws r2 in
    match r3 with
    | 58%N :: r4 =>
        let r5 := skip_ws r4 in
        let '(step, r6) := opt_int r5 in
        Some (start, stop, step, r6)
    | _ => Some (start, stop, [], r3)
    end in
  let try (start : ustr) (r : ustr) :=
    match skip_ws r with
    | 58%N :: r' => after_colon start r'
    | _ => None
    end in
  let '(start, r) := opt_int s in
  match try start r with
  | Some x => Some x
  | None => match start with [] => None | _ => try [] s end
  end.

(* ([a-z][a-z_0-9]+)\(\s*  *)
Definition is_lower (c : N) : bool := N.leb 97 c && N.leb c 122.
Definition fn_rest (c : N) : bool := is_lower c || N.eqb c 95 || is_ascii_digit c.

Definition match_function (s : ustr) : option (ustr * ustr) :=
  match s with
  | c :: s' =>
      if is_lower c then
        let '(a, r) := span fn_rest s' in
        match a, r with
        | _ :: _, 40%N :: r' => Some (c :: a, skip_ws r')
        | _, _ => None
        end
      else None
  | [] => None
  end.

(* -?\d+\.\d*(?:[eE][+-]?\d+)? *)
Definition opt_exponent (s : ustr) : ustr * ustr :=
  match s with
  | e :: s' =>
      if N.eqb e 101 || N.eqb e 69 then
        let '(sign, s'') := match s' with
                            | c :: t => if N.eqb c 43 || N.eqb c 45 then ([c], t) else ([], s')
                            | [] => ([], s')
                            end in
        let '(d, r) := span is_udigit s'' in
        match d with [] => ([], s) | _ => (e :: sign ++ d, r) end
      else ([], s)
  | [] => ([], s)
  end.

Definition match_float (s : ustr) : option (ustr * ustr) :=
  let '(sign, s1) := match s with 45%N :: t => ([45%N], t) | _ => ([], s) end in
  let '(d, s2) := span is_udigit s1 in
  match d, s2 with
  | _ :: _, 46%N :: s3 =>
      let '(frac, s4) := span is_udigit s3 in
      let '(ex, s5) := opt_exponent s4 in
      Some (sign ++ d ++ 46%N :: frac ++ ex, s5)
  | _, _ => None
  end.

(* -?\d+([eE][+\-]?\d+)?\b  -> text, exponent sign is '-' ?, rest *)
Definition match_int (s : ustr) : option (ustr * bool * ustr) :=
  let '(sign, s1) := match s with 45%N :: t => ([45%N], t) | _ => ([], s) end in
  let '(d, s2) := span is_udigit s1 in
  match d with
  | [] => None
  | _ =>
      let '(ex, s3) := opt_exponent s2 in
      if at_boundary s3 then
        Some (sign ++ d ++ ex, match ex with _ :: 45%N :: _ => true | _ => false end, s3)
      else None          (* fewer digits or no exponent leave a word character next: no match *)
  end.

Definition w (l : list N) : ustr := l.
Definition s_and := w [97; 110; 100]%N.
Definition s_or := w [111; 114]%N.
Definition s_in := w [105; 110]%N.
Definition s_not := w [110; 111; 116]%N.
Definition s_rue := w [114; 117; 101]%N.
Definition s_alse := w [97; 108; 115; 101]%N.
Definition s_il := w [105; 108]%N.
Definition s_ull := w [117; 108; 108]%N.
Definition s_one := w [111; 110; 101]%N.
Definition s_contains := w [99; 111; 110; 116; 97; 105; 110; 115]%N.
Definition s_undefined := w [117; 110; 100; 101; 102; 105; 110; 101; 100]%N.
Definition s_missing := w [109; 105; 115; 115; 105; 110; 103]%N.

(* [Xx]word\b *)
Definition match_cap (up lo : N) (tail : ustr) (s : ustr) : option (ustr * ustr) :=
  match s with
  | c :: s' =>
      if N.eqb c up || N.eqb c lo then
        match match_word tail s' with
        | Some r => Some (c :: tail, r)
        | None => None
        end
      else None
  | [] => None
  end.

(* the environment's identifier tokens, stably sorted by length, longest first, empty ones dropped *)
Definition env_tokens (E : env) : list (tkind * ustr) :=
  let base := [(TRoot, e_root E); (TFakeRoot, e_fake_root E); (TSelf, e_self E); (TKey, e_key E);
               (TUnion, e_union E); (TIntersect, e_intersection E); (TFilterCtx, e_filter_context E);
               (TKeys, e_keys E)] in
  let nonempty := filter (fun kt => match snd kt with [] => false | _ => true end) base in
  (* stable insertion sort by length descending *)
  fold_right (fun kt acc =>
                (fix ins (l : list (tkind * ustr)) : list (tkind * ustr) :=
                   match l with
                   | [] => [kt]
                   | x :: l' => if Nat.ltb (length (snd kt)) (length (snd x)) then x :: ins l' else kt :: l
                   end) acc) [] nonempty.

Fixpoint match_env (toks : list (tkind * ustr)) (s : ustr) : option (tkind * ustr * ustr) :=
  match toks with
  | [] => None
  | (k, t) :: toks' =>
      match match_lit t s with
      | Some r => Some (k, t, r)
      | None => match_env toks' s
      end
  end.

(* one step of the scanner: the tokens emitted (possibly none, for SKIP) and the rest *)
Inductive lex_step := LTok (ts : list token) (rest : ustr) | LIllegal (c : N).

Definition first_some {A} (l : list (option A)) : option A :=
  fold_right (fun o acc => match o with Some x => Some x | None => acc end) None l.

Definition step1 (E : env) (s : ustr) : lex_step :=
  match s with
  | [] => LTok [] []
  | c :: s' =>
      let simple (k : tkind) (lit : ustr) : option lex_step :=
        match match_lit lit s with Some r => Some (LTok [mkTok k lit] r) | None => None end in
      let word (k : tkind) (lit : ustr) : option lex_step :=
        match match_word lit s with Some r => Some (LTok [mkTok k lit] r) | None => None end in
      let cap (k : tkind) (up lo : N) (tail : ustr) : option lex_step :=
        match match_cap up lo tail s with Some (v, r) => Some (LTok [mkTok k v] r) | None => None end in
      let alts : list (option lex_step) :=
        [ (* DOUBLE_QUOTE_STRING, SINGLE_QUOTE_STRING *)
          (if N.eqb c 34 then match scan_quoted 34 (S (length s')) s' with
                              | Some (v, r) => Some (LTok [mkTok TDQ v] r) | None => None end else None);
          (if N.eqb c 39 then match scan_quoted 39 (S (length s')) s' with
                              | Some (v, r) => Some (LTok [mkTok TSQ v] r) | None => None end else None);
          (* RE_PATTERN *)
          (match match_regex s with
           | Some (p, fl, r) => Some (LTok [mkTok TRePattern p; mkTok TReFlags fl] r)
           | None => None end);
          (* LSLICE *)
          (match match_slice s with
           | Some (a, b, st, r) => Some (LTok [mkTok TSliceStart a; mkTok TSliceStop b; mkTok TSliceStep st] r)
           | None => None end);
          (* FUNCTION *)
          (match match_function s with Some (n, r) => Some (LTok [mkTok TFunction n] r) | None => None end);
          (* DOT_PROPERTY *)
          (if N.eqb c 46 then match match_key s' with
                              | Some (k, r) => Some (LTok [mkTok TProperty k] r) | None => None end else None);
          (* FLOAT, INT *)
          (match match_float s with Some (v, r) => Some (LTok [mkTok TFloat v] r) | None => None end);
          (match match_int s with
           | Some (v, negexp, r) => Some (LTok [mkTok (if negexp then TFloat else TInt) v] r)
           | None => None end);
          (* DDOT *)
          simple TDDot [46; 46]%N;
          (* AND, OR *)
          simple TAnd [38; 38]%N; word TAnd s_and;
          simple TOr [124; 124]%N; word TOr s_or;
          (* environment tokens *)
          (match match_env (env_tokens E) s with
           | Some (k, t, r) => Some (LTok [mkTok k t] r) | None => None end);
          simple TWild [42%N]; simple TFilter [63%N];
          word TIn s_in;
          cap TTrue 84 116 s_rue; cap TFalse 70 102 s_alse;
          cap TNil 78 110 s_il; cap TNil 78 110 s_ull; cap TNil 78 110 s_one;
          word TContains s_contains; word TUndefined s_undefined; word TMissing s_missing;
          simple TLBracket [91%N]; simple TRBracket [93%N]; simple TComma [44%N];
          simple TEq [61; 61]%N; simple TNe [33; 61]%N; simple TLg [60; 62]%N; simple TLe [60; 61]%N;
          simple TGe [62; 61]%N; simple TRe [61; 126]%N; simple TLt [60%N]; simple TGt [62%N];
          word TNot s_not; simple TNot [33%N];
          (* BARE_PROPERTY *)
          (match match_key s with Some (k, r) => Some (LTok [mkTok TBare k] r) | None => None end);
          simple TLParen [40%N]; simple TRParen [41%N];
          (* SKIP:  [ \n\t\r]+ | \.(?!\.)  *)
          (if N.eqb c 32 || N.eqb c 10 || N.eqb c 9 || N.eqb c 13 then
             Some (LTok [] (snd (span (fun x => N.eqb x 32 || N.eqb x 10 || N.eqb x 9 || N.eqb x 13) s)))
           else if N.eqb c 46 then
             (match s' with 46%N :: _ => None | _ => Some (LTok [] s') end)
           else None) ] in
      match first_some alts with
      | Some st => st
      | None => LIllegal c
      end
  end.

(* Lexer.tokenize: the token sequence; an ILLEGAL token stands for the point where the
   generator raises JSONPathSyntaxError (reached only if the parser asks for that token) *)
Fixpoint tokenize_fuel (fuel : nat) (E : env) (s : ustr) : list token :=
  match fuel with
  | O => []
  | S f =>
      match s with
      | [] => []
      | _ =>
          match step1 E s with
          | LTok ts rest =>
              (* every alternative consumes at least one character; guard against a model slip *)
              if Nat.ltb (length rest) (length s) then ts ++ tokenize_fuel f E rest
              else [mkTok TIllegal []]
          | LIllegal c => [mkTok TIllegal [c]]
          end
      end
  end.

Definition tokenize (E : env) (s : ustr) : list token := tokenize_fuel (S (length s)) E s.
