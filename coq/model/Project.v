(* Project.v — implementation model of jsonpath/fluent_api.py : Query.select / _select /
   _patch_obj / _fix_sparse_arrays (as repaired by the fix: commit that copies selected values).

   The projection under construction is a Python dict whose keys are location parts (str for
   member names, int for array indices) and whose values are either further such dicts
   ([PNode]) or (copies of) selected document values ([PLeaf]).
   A walk that meets an already selected node enters the copied value, as the code does
   ([patch_value]): a copied dict is walked / extended by member name and the last part is
   assigned in it; a copied list is indexed (Python's `part not in _obj` on a list is VALUE
   membership, `_obj[part] = {}` replaces the element); scalars raise TypeError.
   Outside the model (EUnsupported): a relative query that selects the match itself (empty
   parts -> IndexError in _patch_obj) and an integer part applied to a copied dict (it would
   add an int key to a str-keyed dict, which [json] cannot hold). *)
From JP Require Import Base Json Syntax Eval.
From JP Require Patch.        (* dict assignment / list item assignment: Patch.dict_set, Patch.list_set *)

Inductive ptree := PLeaf (v : json) | PNode (ms : list (part * ptree)).

Fixpoint pt_lookup (p : part) (ms : list (part * ptree)) : option ptree :=
  match ms with
  | [] => None
  | (p', t) :: ms' => if part_eqb p p' then Some t else pt_lookup p ms'
  end.

(* dict[p] = t : replace in place or append *)
Fixpoint pt_set (ms : list (part * ptree)) (p : part) (t : ptree) : list (part * ptree) :=
  match ms with
  | [] => [(p, t)]
  | (p', t') :: ms' => if part_eqb p p' then (p', t) :: ms' else (p', t') :: pt_set ms' p t
  end.

(* _patch_obj continued inside a copied value [d] (the walk met an already selected node):
     for part in parts[:-1]:
         if part not in _obj: _obj[part] = {}
         _obj = _obj[part]
     _obj[parts[-1]] = copy.deepcopy(value)                                            *)
Fixpoint patch_value (parts : list part) (d : json) (value : json) {struct parts} : result json :=
  match parts with
  | [] => Err EUnsupported
  | [p] =>
      match d, p with
      | JObj ms, PKey k => Ok (JObj (Patch.dict_set ms k value))
      | JObj _, PIdx _ => Err EUnsupported                      (* an int key in a str-keyed dict *)
      | JArr xs, PIdx i =>
          if Nat.ltb i (length xs) then Ok (JArr (Patch.list_set xs i value))
          else Err (EBuiltin BIndexError)                       (* list assignment index out of range *)
      | JArr _, PKey _ => Err (EBuiltin BTypeError)             (* list indices must be integers *)
      | _, _ => Err (EBuiltin BTypeError)                       (* ... does not support item assignment *)
      end
  | p :: rest =>
      match d, p with
      | JObj ms, PKey k =>
          match lookup k ms with
          | Some c => c' <- patch_value rest c value ;; Ok (JObj (Patch.dict_set ms k c'))
          | None => c' <- patch_value rest (JObj []) value ;; Ok (JObj (Patch.dict_set ms k c'))
          end
      | JObj _, PIdx _ => Err EUnsupported
      | JArr xs, PIdx i =>
          (* `i not in _obj` on a list: is the integer i one of the ELEMENTS *)
          if py_in_list (JNum (num_of_Z (Z.of_nat i))) xs then
            match nth_opt xs i with
            | Some c => c' <- patch_value rest c value ;; Ok (JArr (Patch.list_set xs i c'))
            | None => Err (EBuiltin BIndexError)                (* list index out of range *)
            end
          else if Nat.ltb i (length xs) then
            (* _obj[i] = {} replaces the element, the walk continues in the new dict *)
            c' <- patch_value rest (JObj []) value ;; Ok (JArr (Patch.list_set xs i c'))
          else Err (EBuiltin BIndexError)
      | JArr _, PKey _ => Err (EBuiltin BTypeError)
      | _, _ => Err (EBuiltin BTypeError)                       (* `in` / indexing on a scalar *)
      end
  end.

(* _patch_obj(parts, obj, value) *)
Fixpoint patch_obj (parts : list part) (obj : list (part * ptree)) (value : json)
  : result (list (part * ptree)) :=
  match parts with
  | [] => Err EUnsupported                         (* parts[-1] on an empty tuple *)
  | [p] => Ok (pt_set obj p (PLeaf value))
  | p :: rest =>
      match pt_lookup p obj with
      | None => sub <- patch_obj rest [] value ;; Ok (pt_set obj p (PNode sub))
      | Some (PNode ms) => sub <- patch_obj rest ms value ;; Ok (pt_set obj p (PNode sub))
      | Some (PLeaf d) =>                          (* walking into an already selected value *)
          d' <- patch_value rest d value ;; Ok (pt_set obj p (PLeaf d'))
      end
  end.

(* _fix_sparse_arrays: identity on copied JSON values (lists and str-keyed dicts are rebuilt
   unchanged; falsy values are returned as they are) *)
Fixpoint fix_sparse (t : ptree) : json :=
  match t with
  | PLeaf v => v
  | PNode ms =>
      let vals := (fix go (ms : list (part * ptree)) : list (part * json) :=
                     match ms with
                     | [] => []
                     | (p, t') :: ms' => (p, fix_sparse t') :: go ms'
                     end) ms in
      match vals with
      | [] => JObj []
      | (PIdx _, _) :: _ => JArr (map snd vals)
      | (PKey _, _) :: _ =>
          JObj (map (fun pv => (match fst pv with PKey k => k | PIdx i => [] end, snd pv)) vals)
      end
  end.

Inductive projection := ProjRelative | ProjRoot | ProjFlat.

(* bool(x) for the result of _select *)
Definition truthy_result (j : json) : bool := py_truthy j.

Section Project.
  Variable E : env.
  Variable re_full : ustr -> reflags -> ustr -> option bool.
  Variable re_search : ustr -> ustr -> option bool.

  (* the (parts, value) pairs selected by the expressions, in selection order *)
  Fixpoint selected (exprs : list query) (v : json) : result (list jmatch) :=
    match exprs with
    | [] => Ok []
    | q :: rest =>
        ms <- compound_finditer E re_full re_search q v (JObj []) ;;
        ms' <- selected rest v ;;
        Ok (ms ++ ms')
    end.

  Fixpoint patch_all (sels : list (list part * json)) (obj : list (part * ptree))
    : result (list (part * ptree)) :=
    match sels with
    | [] => Ok obj
    | (parts, v) :: rest => obj' <- patch_obj parts obj v ;; patch_all rest obj'
    end.

  (* Query._select: None = "no projection" (the match is not a container) *)
  Definition select_one (style : projection) (exprs : list query) (m : jmatch) : result (option json) :=
    if negb (is_container (m_val m)) then Ok None
    else
      sels <- selected exprs (m_val m) ;;
      match style with
      | ProjFlat => Ok (Some (JArr (map m_val sels)))
      | ProjRelative =>
          obj <- patch_all (map (fun s => (m_parts s, m_val s)) sels) [] ;;
          Ok (Some (fix_sparse (PNode obj)))
      | ProjRoot =>
          obj <- patch_all (map (fun s => (m_parts m ++ m_parts s, m_val s)) sels) [] ;;
          Ok (Some (fix_sparse (PNode obj)))
      end.

  (* Query.select: filter(bool, map(_select)) *)
  Fixpoint select (style : projection) (exprs : list query) (ms : list jmatch) : result (list json) :=
    match ms with
    | [] => Ok []
    | m :: ms' =>
        r <- select_one style exprs m ;;
        rest <- select style exprs ms' ;;
        Ok (match r with
            | Some j => if truthy_result j then j :: rest else rest
            | None => rest
            end)
    end.
End Project.
