(* PatchHeap.v — heap model of jsonpath/patch.py: the aliasing behaviour the value model
   (Patch.v) cannot express.

   Python containers (dict, list) are heap cells holding references or immutable scalars;
   a JSON document is a tree of such cells reached from a root value.  Every operation
   resolves the parent container inside the document, deep-copies the value it inserts
   (copy.deepcopy allocates fresh cells) and writes the parent cell IN PLACE.

   Pointer resolution is not re-modelled: JSONPointer.resolve_parent only reads, and what it
   reads is exactly the JSON value the document denotes; the heap operations run the value
   model's [Pointer.resolve_parent] on that value ([hread]) and turn the location it finds
   into the address of the parent cell by walking the heap along it ([hnode_at]).  The
   decisions of each Op*.apply (which container edit, which error) are those of Patch.v,
   written once as [*_edit] functions on the parent's value; the edit itself is performed on
   the parent cell.  [fuel] bounds the depth of reads and copies (documents are trees). *)
From JP Require Import Base Json PyStr Pointer Patch.

Definition addr := nat.

Inductive hval :=
| HLit (j : json)        (* an immutable scalar (None, bool, int/float, str) *)
| HRef (a : addr).       (* a reference to a dict or list *)

Inductive cell :=
| CObj (ms : list (ustr * hval))
| CArr (xs : list hval).

Record heap := mkHeap { h_get : addr -> option cell; h_next : addr }.

Definition hempty : heap := mkHeap (fun _ => None) 0.

Definition hset (h : heap) (a : addr) (c : cell) : heap :=
  mkHeap (fun b => if Nat.eqb b a then Some c else h_get h b) (h_next h).

Definition halloc (h : heap) (c : cell) : heap * addr :=
  (mkHeap (fun b => if Nat.eqb b (h_next h) then Some c else h_get h b) (S (h_next h)), h_next h).

Definition cvals (c : cell) : list hval :=
  match c with CObj ms => map snd ms | CArr xs => xs end.

(* ---- the JSON value a heap value denotes ----------------------------------- *)

Fixpoint all_some {A} (l : list (option A)) : option (list A) :=
  match l with
  | [] => Some []
  | Some x :: r => option_map (cons x) (all_some r)
  | None :: _ => None
  end.

Fixpoint hread (fuel : nat) (h : heap) (v : hval) : option json :=
  match v with
  | HLit j => Some j
  | HRef a =>
      match fuel with
      | O => None
      | S f =>
          match h_get h a with
          | Some (CObj ms) =>
              option_map JObj
                (all_some (map (fun kv => option_map (pair (fst kv)) (hread f h (snd kv))) ms))
          | Some (CArr xs) => option_map JArr (all_some (map (hread f h) xs))
          | None => None
          end
      end
  end.

(* json.loads / building a document: children first, then the container *)
Fixpoint hstore (h : heap) (j : json) {struct j} : heap * hval :=
  match j with
  | JArr xs =>
      let '(h1, vs) :=
        (fix go (h : heap) (xs : list json) : heap * list hval :=
           match xs with
           | [] => (h, [])
           | x :: r => let '(h1, v) := hstore h x in let '(h2, vs) := go h1 r in (h2, v :: vs)
           end) h xs in
      let '(h2, a) := halloc h1 (CArr vs) in (h2, HRef a)
  | JObj ms =>
      let '(h1, vs) :=
        (fix go (h : heap) (ms : list (ustr * json)) : heap * list (ustr * hval) :=
           match ms with
           | [] => (h, [])
           | (k, x) :: r => let '(h1, v) := hstore h x in let '(h2, vs) := go h1 r in (h2, (k, v) :: vs)
           end) h ms in
      let '(h2, a) := halloc h1 (CObj vs) in (h2, HRef a)
  | _ => (h, HLit j)
  end.

(* copy.deepcopy: scalars are returned as they are, containers are rebuilt in fresh cells *)
Fixpoint deepcopy (fuel : nat) (h : heap) (v : hval) : result (heap * hval) :=
  match v with
  | HLit _ => Ok (h, v)
  | HRef a =>
      match fuel with
      | O => Err EOutOfFuel
      | S f =>
          match h_get h a with
          | Some (CArr xs) =>
              r <- (fix go (h : heap) (xs : list hval) : result (heap * list hval) :=
                      match xs with
                      | [] => Ok (h, [])
                      | x :: r =>
                          c <- deepcopy f h x ;;
                          cs <- go (fst c) r ;;
                          Ok (fst cs, snd c :: snd cs)
                      end) h xs ;;
              let '(h2, b) := halloc (fst r) (CArr (snd r)) in Ok (h2, HRef b)
          | Some (CObj ms) =>
              r <- (fix go (h : heap) (ms : list (ustr * hval)) : result (heap * list (ustr * hval)) :=
                      match ms with
                      | [] => Ok (h, [])
                      | (k, x) :: r =>
                          c <- deepcopy f h x ;;
                          cs <- go (fst c) r ;;
                          Ok (fst cs, (k, snd c) :: snd cs)
                      end) h ms ;;
              let '(h2, b) := halloc (fst r) (CObj (snd r)) in Ok (h2, HRef b)
          | None => Err EOutOfFuel       (* a dangling reference: not a document *)
          end
      end
  end.

(* ---- walking the heap along a location ---------------------------------------- *)

Definition hstep (h : heap) (v : hval) (p : part) : option hval :=
  match v with
  | HRef a =>
      match h_get h a, p with
      | Some (CObj ms), PKey k => lookup k ms
      | Some (CArr xs), PIdx i => nth_opt xs i
      | _, _ => None
      end
  | HLit _ => None
  end.

Fixpoint hnode_at (h : heap) (v : hval) (l : loc) : option hval :=
  match l with
  | [] => Some v
  | p :: l' => match hstep h v p with Some c => hnode_at h c l' | None => None end
  end.

(* the heap value of what resolve_parent returned as the object *)
Definition hval_of_rv (h : heap) (root : hval) (r : rv) : option hval :=
  match r with
  | RNode l _ => hnode_at h root l
  | RVal v => Some (HLit v)            (* a bare key / index value: an immutable str / int *)
  end.

(* ---- container edits ------------------------------------------------------------ *)

Inductive edit :=
| EAppend                 (* list.append(x) *)
| EInsert (z : Z)         (* list.insert(z, x) *)
| ESetKey (k : ustr)      (* dict[k] = x *)
| ESetIdx (i : nat)       (* list[i] = x *)
| EDelIdx (i : nat)       (* del list[i] *)
| EDelKey (k : ustr)      (* del dict[k] *)
| ENop.

Fixpoint assoc_set {A} (ms : list (ustr * A)) (k : ustr) (v : A) : list (ustr * A) :=
  match ms with
  | [] => [(k, v)]
  | (k', v') :: ms' => if ustr_eqb k k' then (k', v) :: ms' else (k', v') :: assoc_set ms' k v
  end.

Fixpoint assoc_del {A} (ms : list (ustr * A)) (k : ustr) : list (ustr * A) :=
  match ms with
  | [] => []
  | (k', v') :: ms' => if ustr_eqb k k' then ms' else (k', v') :: assoc_del ms' k
  end.

(* the edit on a Python container; x is the (already copied) value for the edits that take one *)
Definition edit_cell (e : edit) (c : cell) (x : hval) : cell :=
  match e, c with
  | EAppend, CArr xs => CArr (xs ++ [x])
  | EInsert z, CArr xs => CArr (py_insert xs z x)
  | ESetKey k, CObj ms => CObj (assoc_set ms k x)
  | ESetIdx i, CArr xs => CArr (list_set xs i x)
  | EDelIdx i, CArr xs => CArr (list_del xs i)
  | EDelKey k, CObj ms => CObj (assoc_del ms k)
  | _, _ => c
  end.

(* the same edit on the value the container denotes *)
Definition edit_json (e : edit) (pv : json) (x : json) : json :=
  match e, pv with
  | EAppend, JArr xs => JArr (xs ++ [x])
  | EInsert z, JArr xs => JArr (py_insert xs z x)
  | ESetKey k, JObj ms => JObj (dict_set ms k x)
  | ESetIdx i, JArr xs => JArr (list_set xs i x)
  | EDelIdx i, JArr xs => JArr (list_del xs i)
  | EDelKey k, JObj ms => JObj (dict_del ms k)
  | _, _ => pv
  end.

Definition edit_takes_value (e : edit) : bool :=
  match e with EAppend | EInsert _ | ESetKey _ | ESetIdx _ => true | _ => false end.

(* ---- the decisions of Op*.apply, as in Patch.v (on the parent's value) --------- *)

Definition add_edit (kind : add_kind) (target : ppart) (obj : option rv) (pv : json) : result edit :=
  match pv with
  | JArr xs =>
      match obj with
      | None =>
          match kind with
          | AddStd =>
              let is_dash := match target with PStr s => ustr_eqb s [ch_minus] | PInt _ => false end in
              (* str(target) == str(len(parent)): an index kept as a string token (a pointer built
                 from parts) appends like the int when it spells len(parent) canonically *)
              let is_len := match target with
                            | PInt z => Z.eqb z (Z.of_nat (length xs))
                            | PStr s => ustr_eqb s (str_of_Z (Z.of_nat (length xs)))
                            end in
              if is_dash || is_len then Ok EAppend else Err (EPatch KPatch)
          | _ => Ok EAppend
          end
      | Some _ => z <- array_index_of target ;; Ok (EInsert z)
      end
  | JObj ms => Ok (ESetKey (member_name target))
  | _ => Err (EPatch KPatch)
  end.

Definition remove_edit (target : ppart) (obj : option rv) (pv : json) : result edit :=
  match pv with
  | JArr xs =>
      match obj with
      | None => Err (EPatch KPatch)
      | Some _ =>
          z <- array_index_of target ;;
          match py_norm_index (length xs) z with
          | Some i => Ok (EDelIdx i)
          | None => Err (EBuiltin BIndexError)
          end
      end
  | JObj ms =>
      match obj with
      | None => Err (EPatch KPatch)
      | Some _ => if dict_has ms (member_name target) then Ok (EDelKey (member_name target))
                  else Err (EPatch KPatch)
      end
  | _ => Err (EPatch KPatch)
  end.

Definition replace_edit (target : ppart) (obj : option rv) (pv : json) : result edit :=
  match pv with
  | JArr xs =>
      match obj with
      | None => Err (EPatch KPatch)
      | Some _ =>
          z <- array_index_of target ;;
          match py_norm_index (length xs) z with
          | Some i => Ok (ESetIdx i)
          | None => Err (EBuiltin BIndexError)
          end
      end
  | JObj ms =>
      match obj with
      | None => Err (EPatch KPatch)
      | Some _ => Ok (ESetKey (member_name target))
      end
  | _ => Err (EPatch KPatch)
  end.

(* the removal inside OpMove.apply *)
Definition move_edit (target : ppart) (pv : json) : result edit :=
  match pv with
  | JArr xs =>
      z <- array_index_of target ;;
      match py_norm_index (length xs) z with
      | Some i => Ok (EDelIdx i)
      | None => Err (EBuiltin BIndexError)
      end
  | JObj ms =>
      if dict_has ms (member_name target) then Ok (EDelKey (member_name target)) else Err (EPatch KPatch)
  | _ => Ok ENop
  end.

(* ---- operations ------------------------------------------------------------------- *)

Inductive hop :=
| HAdd (path : pointer) (v : hval)
| HAddNe (path : pointer) (v : hval)
| HAddAp (path : pointer) (v : hval)
| HRemove (path : pointer)
| HReplace (path : pointer) (v : hval)
| HMove (from_ : pointer) (path : pointer)
| HCopy (from_ : pointer) (path : pointer)
| HTest (path : pointer) (v : hval).

Definition out_of_fuel {A} : result A := Err EOutOfFuel.

Definition view (fuel : nat) (h : heap) (v : hval) : result json :=
  match hread fuel h v with Some j => Ok j | None => out_of_fuel end.

(* perform an edit on the parent container that resolve_parent returned, in place;
   [value] (if the edit takes one) is deep-copied first *)
Definition hwrite (fuel : nat) (h : heap) (root : hval) (par : rv) (decide : json -> result edit)
                  (value : hval) : result heap :=
  match par with
  | RVal v => e <- decide v ;; Ok h        (* a bare key / index value is never a container *)
  | RNode l pv =>
      e <- decide pv ;;
      match hnode_at h root l with
      | Some (HRef a) =>
          match h_get h a with
          | Some c =>
              if edit_takes_value e then
                r <- deepcopy fuel h value ;;
                Ok (hset (fst r) a (edit_cell e c (snd r)))
              else Ok (hset h a (edit_cell e c value))
          | None => out_of_fuel
          end
      | _ => out_of_fuel
      end
  end.

(* OpAdd.apply / OpAddAp.apply *)
Definition hadd (kind : add_kind) (fuel : nat) (h : heap) (path : pointer) (value : hval) (root : hval)
  : result (heap * hval) :=
  d <- view fuel h root ;;
  pr <- resolve_parent path d ;;
  let '(parent, obj) := pr in
  match parent with
  | None => deepcopy fuel h value              (* the copy is the new document *)
  | Some par =>
      target <- last_part path ;;
      h' <- hwrite fuel h root par (add_edit kind target obj) value ;;
      Ok (h', root)
  end.

(* OpAddNe.apply *)
Definition haddne (fuel : nat) (h : heap) (path : pointer) (value : hval) (root : hval)
  : result (heap * hval) :=
  d <- view fuel h root ;;
  pr <- resolve_parent path d ;;
  let '(parent, _) := pr in
  let exists_member :=
    match parent, last_opt path with
    | Some par, Some target =>
        match rv_json par with
        | JObj ms => dict_has ms (member_name target)
        | _ => false
        end
    | _, _ => false
    end in
  if exists_member then Ok (h, root) else hadd AddStd fuel h path value root.

(* OpRemove.apply *)
Definition hremove (fuel : nat) (h : heap) (path : pointer) (root : hval) : result (heap * hval) :=
  d <- view fuel h root ;;
  pr <- resolve_parent path d ;;
  let '(parent, obj) := pr in
  match parent with
  | None => Err (EPatch KPatch)
  | Some par =>
      target <- last_part path ;;
      h' <- hwrite fuel h root par (remove_edit target obj) (HLit JNull) ;;
      Ok (h', root)
  end.

(* OpReplace.apply *)
Definition hreplace (fuel : nat) (h : heap) (path : pointer) (value : hval) (root : hval)
  : result (heap * hval) :=
  d <- view fuel h root ;;
  pr <- resolve_parent path d ;;
  let '(parent, obj) := pr in
  match parent with
  | None => deepcopy fuel h value
  | Some par =>
      target <- last_part path ;;
      h' <- hwrite fuel h root par (replace_edit target obj) value ;;
      Ok (h', root)
  end.

(* OpMove.apply *)
Definition hmove (fuel : nat) (h : heap) (source dest : pointer) (root : hval) : result (heap * hval) :=
  if is_relative_to dest source then Err (EPatch KPatch)
  else
    d <- view fuel h root ;;
    pr <- resolve_parent source d ;;
    let '(sparent, sobj) := pr in
    match sobj with
    | None => Err (EPatch KPatch)
    | Some so =>
        match hval_of_rv h root so with
        | None => out_of_fuel
        | Some sv =>
            h1 <- (match sparent with
                   | None => Ok h
                   | Some par =>
                       target <- last_part source ;;
                       hwrite fuel h root par (move_edit target) (HLit JNull)
                   end) ;;
            (* OpAdd(path=dest, value=source_obj).apply(data): the moved object is copied again *)
            hadd AddStd fuel h1 dest sv root
        end
    end.

(* OpCopy.apply *)
Definition hcopy (fuel : nat) (h : heap) (source dest : pointer) (root : hval) : result (heap * hval) :=
  d <- view fuel h root ;;
  pr <- resolve_parent source d ;;
  let '(_, sobj) := pr in
  match sobj with
  | None => Err (EPatch KPatch)
  | Some so =>
      match hval_of_rv h root so with
      | None => out_of_fuel
      | Some sv =>
          (* OpAdd(path=dest, value=copy.deepcopy(source_obj)).apply(data) *)
          c <- deepcopy fuel h sv ;;
          hadd AddStd fuel (fst c) dest (snd c) root
      end
  end.

(* OpTest.apply: read only *)
Definition htest (fuel : nat) (h : heap) (path : pointer) (value : hval) (root : hval) : result (heap * hval) :=
  d <- view fuel h root ;;
  x <- view fuel h value ;;
  pr <- resolve_parent path d ;;
  let '(_, obj) := pr in
  match obj with
  | Some o => if json_eq (rv_json o) x then Ok (h, root) else Err (EPatch KPatchTest)
  | None => Err (EPatch KPatchTest)
  end.

Definition happly_op (fuel : nat) (h : heap) (o : hop) (root : hval) : result (heap * hval) :=
  match o with
  | HAdd p v => hadd AddStd fuel h p v root
  | HAddNe p v => haddne fuel h p v root
  | HAddAp p v => hadd AddAp fuel h p v root
  | HRemove p => hremove fuel h p root
  | HReplace p v => hreplace fuel h p v root
  | HMove f p => hmove fuel h f p root
  | HCopy f p => hcopy fuel h f p root
  | HTest p v => htest fuel h p v root
  end.

(* JSONPatch.apply(data): the operations in order, threading the returned object *)
Fixpoint happly (fuel : nat) (h : heap) (ops : list hop) (root : hval) : result (heap * hval) :=
  match ops with
  | [] => Ok (h, root)
  | o :: ops' =>
      match happly_op fuel h o root with
      | Ok r => happly fuel (fst r) ops' (snd r)
      | Err e => Err (translate e)
      end
  end.

(* ---- the patch as stored ------------------------------------------------------------ *)

Definition hop_values (o : hop) : list hval :=
  match o with
  | HAdd _ v | HAddNe _ v | HAddAp _ v | HReplace _ v | HTest _ v => [v]
  | _ => []
  end.

(* the value-model operation a stored operation denotes *)
Definition hop_read (fuel : nat) (h : heap) (o : hop) : option pop :=
  match o with
  | HAdd p v => option_map (OpAdd p) (hread fuel h v)
  | HAddNe p v => option_map (OpAddNe p) (hread fuel h v)
  | HAddAp p v => option_map (OpAddAp p) (hread fuel h v)
  | HRemove p => Some (OpRemove p)
  | HReplace p v => option_map (OpReplace p) (hread fuel h v)
  | HMove f p => Some (OpMove f p)
  | HCopy f p => Some (OpCopy f p)
  | HTest p v => option_map (OpTest p) (hread fuel h v)
  end.

(* JSONPatch construction from the caller's operations: every value is deep-copied into the patch *)
Fixpoint hbuild (fuel : nat) (h : heap) (ops : list hop) : result (heap * list hop) :=
  match ops with
  | [] => Ok (h, [])
  | o :: ops' =>
      r <- (match o with
            | HAdd p v => c <- deepcopy fuel h v ;; Ok (fst c, HAdd p (snd c))
            | HAddNe p v => c <- deepcopy fuel h v ;; Ok (fst c, HAddNe p (snd c))
            | HAddAp p v => c <- deepcopy fuel h v ;; Ok (fst c, HAddAp p (snd c))
            | HReplace p v => c <- deepcopy fuel h v ;; Ok (fst c, HReplace p (snd c))
            | HTest p v => c <- deepcopy fuel h v ;; Ok (fst c, HTest p (snd c))
            | _ => Ok (h, o)
            end) ;;
      rs <- hbuild fuel (fst r) ops' ;;
      Ok (fst rs, snd r :: snd rs)
  end.
