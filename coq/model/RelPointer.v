(* RelPointer.v — implementation model of jsonpath/pointer.py : class RelativeJSONPointer
   (as repaired by the fix: commits).  RE_RELATIVE_POINTER is, with re.DOTALL and .match():
     ORIGIN = \d+ ; optional INDEX_G = SIGN [+-] followed by INDEX = \d+ ; POINTER = everything else.
   \d is modelled for ASCII digits; a non-ASCII character at a position where \d is tried makes the
   model answer EUnsupported (it could be a Unicode decimal digit). *)
From JP Require Import Base Json PyStr Pointer.

Inductive suffix := SHash | SPtr (p : pointer).
Record relptr := mkRel { r_origin : Z; r_index : Z; r_pointer : suffix }.

(* greedy \d+ / \d* : the digits and the rest; Unsupported if the next character is non-ASCII *)
Fixpoint span_digits (s : ustr) : result (ustr * ustr) :=
  match s with
  | [] => Ok ([], [])
  | c :: s' =>
      if is_ascii_digit c then
        r <- span_digits s' ;; Ok (c :: fst r, snd r)
      else if N.leb 128 c then Err EUnsupported
      else Ok ([], s)
  end.

(* RelativeJSONPointer._zero_or_positive on a non-empty string of ASCII digits *)
Definition zero_or_positive (s : ustr) : result Z :=
  if starts_with_ch ch_0 s && Nat.ltb 1 (length s) then Err (ERelPointer KRelSyntax)
  else Ok (dec_value s).

(* RelativeJSONPointer._parse (uri_decode = False) *)
Definition rel_parse (unicode_esc : bool) (rel : ustr) : result relptr :=
  let rel := lstrip rel in
  od <- span_digits rel ;;
  let '(origin_txt, rest) := od in
  match origin_txt with
  | [] => Err (ERelPointer KRelSyntax)          (* the regex does not match *)
  | _ =>
      origin <- zero_or_positive origin_txt ;;
      (* optional group: sign followed by at least one digit *)
      grp <- (match rest with
              | c :: rest' =>
                  if N.eqb c ch_plus || N.eqb c ch_minus then
                    id <- span_digits rest' ;;
                    let '(idx_txt, rest'') := id in
                    match idx_txt with
                    | [] => Ok (None, rest)
                    | _ => Ok (Some (N.eqb c ch_minus, idx_txt), rest'')
                    end
                  else Ok (None, rest)
              | [] => Ok (None, rest)
              end) ;;
      let '(g, ptr_txt) := grp in
      index <- (match g with
                | None => Ok 0%Z
                | Some (neg, idx_txt) =>
                    i <- zero_or_positive idx_txt ;;
                    if Z.eqb i 0 then Err (ERelPointer KRelSyntax)
                    else Ok (if neg then (- i)%Z else i)
                end) ;;
      let ptr_txt := lstrip ptr_txt in
      if ustr_eqb ptr_txt [ch_hash] then Ok (mkRel origin index SHash)
      else p <- Pointer.parse unicode_esc ptr_txt ;; Ok (mkRel origin index (SPtr p))
  end.

(* RelativeJSONPointer.__str__ *)
Definition to_text (r : relptr) : ustr :=
  let index_txt :=
    if Z.eqb (r_index r) 0 then []
    else (if Z.ltb 0 (r_index r) then [ch_plus] else []) ++ str_of_Z (r_index r) in
  str_of_Z (r_origin r) ++ index_txt ++
  match r_pointer r with SHash => [ch_hash] | SPtr p => encode p end.

(* RelativeJSONPointer._int_like followed by int(): None = model does not cover (non-ASCII),
   Some None = not int-like *)
Definition int_like (p : ppart) : option (option Z) :=
  match p with
  | PInt z => Some (Some z)
  | PStr s => py_int s
  end.

Fixpoint set_last {A} (l : list A) (x : A) : list A :=
  match l with
  | [] => []
  | [_] => [x]
  | y :: l' => y :: set_last l' x
  end.

(* RelativeJSONPointer.to(pointer) with pointer a JSONPointer *)
Definition to_ (r : relptr) (base : pointer) : result pointer :=
  if Z.ltb (Z.of_nat (length base)) (r_origin r) then Err (ERelPointer KRelIndex)
  else
    let parts := if Z.ltb (r_origin r) 1 then base
                 else firstn (length base - Z.to_nat (r_origin r)) base in
    parts1 <- (match last_opt parts with
               | Some lastp =>
                   if Z.eqb (r_index r) 0 then Ok parts
                   else match int_like lastp with
                        | None => Err EUnsupported
                        | Some None => Ok parts
                        | Some (Some i) =>
                            if Z.ltb (i + r_index r) 0 then Err (ERelPointer KRelIndex)
                            else Ok (set_last parts (PInt (i + r_index r)))
                        end
               | None => Ok parts
               end) ;;
    parts2 <- (match r_pointer r with
               | SPtr p => Ok (parts1 ++ p)
               | SHash =>
                   match last_opt parts1 with
                   | None => Err (ERelPointer KRelIndex)
                   | Some lastp => Ok (set_last parts1 (PStr (ch_hash :: part_text lastp)))
                   end
               end) ;;
    from_parts false parts2.
