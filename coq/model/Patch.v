(* Patch.v — implementation model of jsonpath/patch.py (value semantics), as repaired by
   the fix: commits.  In-place mutation of the parent container found by
   JSONPointer.resolve_parent is rendered as "rebuild the document with the node at the
   parent's location replaced" ([set_at]); deepcopy is the identity on values.
   Code-shaped: one function per Op*.apply, same branches in the same order. *)
From JP Require Import Base Json PyStr Pointer.

Inductive pop :=
| OpAdd (path : pointer) (v : json)
| OpAddNe (path : pointer) (v : json)
| OpAddAp (path : pointer) (v : json)
| OpRemove (path : pointer)
| OpReplace (path : pointer) (v : json)
| OpMove (from_ : pointer) (path : pointer)
| OpCopy (from_ : pointer) (path : pointer)
| OpTest (path : pointer) (v : json).

(* ---- Python container primitives ----------------------------------------- *)

Fixpoint list_set {A} (l : list A) (i : nat) (x : A) : list A :=
  match l, i with
  | [], _ => []
  | _ :: l', O => x :: l'
  | y :: l', S i' => y :: list_set l' i' x
  end.

Fixpoint list_del {A} (l : list A) (i : nat) : list A :=
  match l, i with
  | [], _ => []
  | _ :: l', O => l'
  | y :: l', S i' => y :: list_del l' i'
  end.

Fixpoint list_insert_nat {A} (l : list A) (i : nat) (x : A) : list A :=
  match i, l with
  | O, _ => x :: l
  | S i', y :: l' => y :: list_insert_nat l' i' x
  | S _, [] => [x]
  end.

(* list.insert(z, x): negative z counts from the end, clamped at both ends *)
Definition py_insert {A} (l : list A) (z : Z) (x : A) : list A :=
  let n := Z.of_nat (length l) in
  let i := if Z.ltb z 0 then Z.max 0 (n + z) else Z.min z n in
  list_insert_nat l (Z.to_nat i) x.

(* index normalisation for obj[z] / del obj[z] / obj[z] = v ; None = IndexError *)
Definition py_norm_index (len : nat) (z : Z) : option nat :=
  let n := Z.of_nat len in
  let i := if Z.ltb z 0 then (n + z)%Z else z in
  if Z.ltb i 0 || Z.leb n i then None else Some (Z.to_nat i).

(* dict[k] = v : replace in place or append *)
Fixpoint dict_set (ms : list (ustr * json)) (k : ustr) (v : json) : list (ustr * json) :=
  match ms with
  | [] => [(k, v)]
  | (k', v') :: ms' => if ustr_eqb k k' then (k', v) :: ms' else (k', v') :: dict_set ms' k v
  end.

Fixpoint dict_del (ms : list (ustr * json)) (k : ustr) : list (ustr * json) :=
  match ms with
  | [] => []
  | (k', v') :: ms' => if ustr_eqb k k' then ms' else (k', v') :: dict_del ms' k
  end.

Definition dict_has (ms : list (ustr * json)) (k : ustr) : bool :=
  match lookup k ms with Some _ => true | None => false end.

(* the document with the node at location l replaced by x (l is a valid location) *)
Fixpoint set_at (d : json) (l : loc) (x : json) : json :=
  match l with
  | [] => x
  | PKey k :: l' =>
      match d with
      | JObj ms =>
          JObj ((fix go (ms : list (ustr * json)) : list (ustr * json) :=
                   match ms with
                   | [] => []
                   | (k', v) :: ms' => if ustr_eqb k k' then (k', set_at v l' x) :: ms'
                                       else (k', v) :: go ms'
                   end) ms)
      | _ => d
      end
  | PIdx i :: l' =>
      match d with
      | JArr xs =>
          JArr ((fix go (xs : list json) (i : nat) : list json :=
                   match xs, i with
                   | [], _ => []
                   | v :: xs', O => set_at v l' x :: xs'
                   | v :: xs', S i' => v :: go xs' i'
                   end) xs i)
      | _ => d
      end
  end.

(* patch.py : _member_name — JSON documents have no integer keys *)
Definition member_name (p : ppart) : ustr := part_text p.

(* patch.py : _array_index — int(part) with ValueError -> JSONPatchError *)
Definition array_index_of (p : ppart) : result Z :=
  match p with
  | PInt z => Ok z
  | PStr s => match py_int s with
              | None => Err EUnsupported
              | Some None => Err (EPatch KPatch)
              | Some (Some z) => Ok z
              end
  end.

(* mutate the container that resolve_parent returned *)
Definition with_parent (d : json) (parent : rv) (f : json -> result json) : result json :=
  match parent with
  | RNode l v => v' <- f v ;; Ok (set_at d l v')
  | RVal v => _ <- f v ;; Ok d          (* a bare key/index value: never a container *)
  end.

Definition last_part (p : pointer) : result ppart :=
  match last_opt p with Some x => Ok x | None => Err (EBuiltin BIndexError) end.

Definition unexpected : result json := Err (EPatch KPatch).

(* which of the three add flavours *)
Inductive add_kind := AddStd | AddAp.

(* OpAdd.apply / OpAddNe.apply / OpAddAp.apply *)
Definition apply_add (kind : add_kind) (path : pointer) (value : json) (d : json) : result json :=
  pr <- resolve_parent path d ;;
  let '(parent, obj) := pr in
  match parent with
  | None => Ok value
  | Some par =>
      target <- last_part path ;;
      with_parent d par (fun pv =>
        match pv with
        | JArr xs =>
            match obj with
            | None =>
                match kind with
                | AddStd =>
                    let is_dash := match target with PStr s => ustr_eqb s [ch_minus] | PInt _ => false end in
                    (* str(target) == str(len(parent)): an index kept as a string token (a pointer built
                       from parts) appends like the int when it spells len(parent) canonically *)
                    let is_len := match target with
                                  | PInt z => Z.eqb z (Z.of_nat (length xs))
                                  | PStr s => ustr_eqb s (str_of_Z (Z.of_nat (length xs)))
                                  end in
                    if is_dash || is_len then Ok (JArr (xs ++ [value])) else Err (EPatch KPatch)
                | _ => Ok (JArr (xs ++ [value]))
                end
            | Some _ => z <- array_index_of target ;; Ok (JArr (py_insert xs z value))
            end
        | JObj ms =>
            Ok (JObj (dict_set ms (member_name target) value))
        | _ => unexpected
        end)
  end.

(* OpAddNe.apply: leave an existing object member untouched, otherwise OpAdd.apply *)
Definition apply_addne (path : pointer) (value : json) (d : json) : result json :=
  pr <- resolve_parent path d ;;
  let '(parent, _) := pr in
  let exists_member :=
    match parent, last_opt path with
    | Some par, Some target =>
        match rv_json par with
        | JObj ms => dict_has ms (member_name target)
        | _ => false
        end
    | _, _ => false
    end in
  if exists_member then Ok d else apply_add AddStd path value d.

(* OpRemove.apply *)
Definition apply_remove (path : pointer) (d : json) : result json :=
  pr <- resolve_parent path d ;;
  let '(parent, obj) := pr in
  match parent with
  | None => Err (EPatch KPatch)
  | Some par =>
      target <- last_part path ;;
      with_parent d par (fun pv =>
        match pv with
        | JArr xs =>
            match obj with
            | None => Err (EPatch KPatch)
            | Some _ =>
                z <- array_index_of target ;;
                match py_norm_index (length xs) z with
                | Some i => Ok (JArr (list_del xs i))
                | None => Err (EBuiltin BIndexError)
                end
            end
        | JObj ms =>
            match obj with
            | None => Err (EPatch KPatch)
            | Some _ =>
                if dict_has ms (member_name target) then Ok (JObj (dict_del ms (member_name target)))
                else Err (EPatch KPatch)
            end
        | _ => unexpected
        end)
  end.

(* OpReplace.apply *)
Definition apply_replace (path : pointer) (value : json) (d : json) : result json :=
  pr <- resolve_parent path d ;;
  let '(parent, obj) := pr in
  match parent with
  | None => Ok value
  | Some par =>
      target <- last_part path ;;
      with_parent d par (fun pv =>
        match pv with
        | JArr xs =>
            match obj with
            | None => Err (EPatch KPatch)
            | Some _ =>
                z <- array_index_of target ;;
                match py_norm_index (length xs) z with
                | Some i => Ok (JArr (list_set xs i value))
                | None => Err (EBuiltin BIndexError)
                end
            end
        | JObj ms =>
            match obj with
            | None => Err (EPatch KPatch)
            | Some _ => Ok (JObj (dict_set ms (member_name target) value))
            end
        | _ => unexpected
        end)
  end.

(* OpMove.apply *)
Definition apply_move (source dest : pointer) (d : json) : result json :=
  if is_relative_to dest source then Err (EPatch KPatch)
  else
    pr <- resolve_parent source d ;;
    let '(sparent, sobj) := pr in
    match sobj with
    | None => Err (EPatch KPatch)
    | Some so =>
        d1 <- (match sparent with
               | None => Ok d
               | Some par =>
                   target <- last_part source ;;
                   with_parent d par (fun pv =>
                     match pv with
                     | JArr xs =>
                         z <- array_index_of target ;;
                         match py_norm_index (length xs) z with
                         | Some i => Ok (JArr (list_del xs i))
                         | None => Err (EBuiltin BIndexError)
                         end
                     | JObj ms =>
                         if dict_has ms (member_name target) then Ok (JObj (dict_del ms (member_name target)))
                         else Err (EPatch KPatch)
                     | _ => Ok pv
                     end)
               end) ;;
        apply_add AddStd dest (rv_json so) d1
    end.

(* OpCopy.apply *)
Definition apply_copy (source dest : pointer) (d : json) : result json :=
  pr <- resolve_parent source d ;;
  let '(_, sobj) := pr in
  match sobj with
  | None => Err (EPatch KPatch)
  | Some so => apply_add AddStd dest (rv_json so) d
  end.

(* OpTest.apply — _json_equal is JSON equality (Json.json_eq) *)
Definition apply_test (path : pointer) (value : json) (d : json) : result json :=
  pr <- resolve_parent path d ;;
  let '(_, obj) := pr in
  match obj with
  | Some o => if json_eq (rv_json o) value then Ok d else Err (EPatch KPatchTest)
  | None => Err (EPatch KPatchTest)
  end.

Definition apply_op (o : pop) (d : json) : result json :=
  match o with
  | OpAdd p v => apply_add AddStd p v d
  | OpAddNe p v => apply_addne p v d
  | OpAddAp p v => apply_add AddAp p v d
  | OpRemove p => apply_remove p d
  | OpReplace p v => apply_replace p v d
  | OpMove f p => apply_move f p d
  | OpCopy f p => apply_copy f p d
  | OpTest p v => apply_test p v d
  end.

(* JSONPatch.apply: error translation to the patch family *)
Definition translate (e : exn) : exn :=
  match e with
  | EPatch KPatchTest => EPatch KPatchTest
  | EPointer _ => EPatch KPatch
  | EPatch KPatch => EPatch KPatch
  | _ => e
  end.

Fixpoint apply (ops : list pop) (d : json) : result json :=
  match ops with
  | [] => Ok d
  | o :: ops' =>
      match apply_op o d with
      | Ok d' => apply ops' d'
      | Err e => Err (translate e)
      end
  end.

(* ---- the three forms of a patch (C15) -------------------------------------- *)

Inductive opname := NAdd | NAddNe | NAddAp | NRemove | NReplace | NMove | NCopy | NTest.

(* one operation of a JSON Patch document, after json.loads: op name and the members present *)
Record opdoc := mkOpDoc { od_op : opname; od_path : ustr; od_from : ustr; od_value : json }.

(* JSONPatch._build dispatch + the builder methods *)
Definition build_op (unicode_esc : bool) (o : opdoc) : result pop :=
  let ptr (s : ustr) :=
    match Pointer.parse unicode_esc s with
    | Ok p => Ok p
    | Err (EPointer _) => Err (EPatch KPatch)
    | Err e => Err e
    end in
  match od_op o with
  | NAdd => p <- ptr (od_path o) ;; Ok (OpAdd p (od_value o))
  | NAddNe => p <- ptr (od_path o) ;; Ok (OpAddNe p (od_value o))
  | NAddAp => p <- ptr (od_path o) ;; Ok (OpAddAp p (od_value o))
  | NRemove => p <- ptr (od_path o) ;; Ok (OpRemove p)
  | NReplace => p <- ptr (od_path o) ;; Ok (OpReplace p (od_value o))
  | NMove => f <- ptr (od_from o) ;; p <- ptr (od_path o) ;; Ok (OpMove f p)
  | NCopy => f <- ptr (od_from o) ;; p <- ptr (od_path o) ;; Ok (OpCopy f p)
  | NTest => p <- ptr (od_path o) ;; Ok (OpTest p (od_value o))
  end.

Definition build (unicode_esc : bool) (ops : list opdoc) : result (list pop) :=
  map_result (build_op unicode_esc) ops.

(* Op.asdict *)
Definition asdict (o : pop) : opdoc :=
  match o with
  | OpAdd p v => mkOpDoc NAdd (encode p) [] v
  | OpAddNe p v => mkOpDoc NAddNe (encode p) [] v
  | OpAddAp p v => mkOpDoc NAddAp (encode p) [] v
  | OpRemove p => mkOpDoc NRemove (encode p) [] JNull
  | OpReplace p v => mkOpDoc NReplace (encode p) [] v
  | OpMove f p => mkOpDoc NMove (encode p) (encode f) JNull
  | OpCopy f p => mkOpDoc NCopy (encode p) (encode f) JNull
  | OpTest p v => mkOpDoc NTest (encode p) [] v
  end.

Definition asdicts (ops : list pop) : list opdoc := map asdict ops.
